import IodineModel.Server.Bytes
import IodineModel.Lemmas.BytesD
import IodineModel.Lemmas.BytesE
import IodineModel.Lemmas.BytesI
import IodineModel.Props.C10
import IodineModel.Props.C14
/-
C10, lifted to whole sessions of the byte-level server (Server/Bytes.lean: datagram in → `read_dns`/`dns_decode` →
session machine → `write_dns`/`dns_encode*` → datagram out).

(This file continues Props/C10.lean.  It is a separate module only because the lemma files it needs —
Lemmas/Downstream*.lean, Lemmas/Bytes*.lean — import Props/C10.lean for the vocabulary `LegalName`, `AnswerCase`, `echo`.)

"Every datagram the server emits in DNS mode is a well-formed RFC 1035 message … Each answer carries the id, name and type
of the query it answers; NS queries under the tunnel domain are answered with ns.<domain> and A queries for ns./www.
with an address record … for all queries whose labels contain no '.' or NUL byte."

Specification side: the strict parser `Wire.Strict.parseMsg`, `LegalName`/`labels` of Props/C10.lean, and the predicates below,
which speak about received datagram bytes and emitted datagram bytes only.
-/
namespace Iodine.C10
open Iodine Iodine.Server Iodine.Wire Iodine.Wire.Strict

/-! ### Specification vocabulary -/

/-- The quantifier of C10 on the receive side, for one datagram: IF the server's decoder hands the datagram on as a query,
the question name it read is a legal host name (labels of 1..63 bytes without '.' or NUL, at most 253 characters).
Datagrams that are dropped or taken as raw frames are unrestricted — arbitrary bytes. -/
def LegalQuestion (bytes : List Nat) : Prop :=
  match dnsDecodeQuery { pkt := (bytes.take 65536).toArray, res := #[], cap := 65536 } with
  | .ok d => d.rv ≤ 0 ∨ LegalName d.name
  | .error _ => True

/-- the same for any input of an iteration (tun frames, forwarded replies and time-outs are unrestricted) -/
def LegalDgram : BInput → Prop
  | .dgram _ bytes => LegalQuestion bytes
  | _ => True

instance (bytes : List Nat) : Decidable (LegalQuestion bytes) := by unfold LegalQuestion; split <;> infer_instance
instance : DecidablePred LegalDgram := fun i => by cases i <;> unfold LegalDgram <;> infer_instance

/-- states of the server process reachable from start-up (any configuration, any `rand()` values) through iterations on
ARBITRARY inputs — any datagram bytes, tun frames, forwarded replies, any clock — whose decoded questions are legal -/
inductive LegalReachable (cfg : Config) : BSrv → Prop where
  | init (rnd : List Nat) : LegalReachable cfg (bstart cfg rnd)
  | step {b : BSrv} (inp : BInput) (now' : Nat) : LegalReachable cfg b → LegalDgram inp →
      LegalReachable cfg (biteration b inp now').1

/-- a well-formed response echoing `(id, name, type)`: parses strictly, QR|AA, exactly that question, at least one answer
record, every answer record owned by the question name in class IN, nothing in the authority section -/
def WellFormedAnswerTo (id ty : Nat) (name pkt : List Nat) : Prop :=
  ∃ m, parseMsg pkt = some m ∧ m.id = id ∧ m.flags = 0x8400 ∧ m.qd = [(labels name, ty, 1)] ∧ m.an ≠ [] ∧
    (∀ r ∈ m.an, r.owner = labels name ∧ r.cls = 1) ∧ m.ns = []

/-- the seven record types the tunnel answers: NULL, PRIVATE, TXT, SRV, MX, CNAME, A -/
def TunnelTypes : List Nat := [10, 65399, 16, 33, 15, 5, 1]

/-! ### Glue -/

theorem legalQuestion_iff (bytes : List Nat) : LegalQuestion bytes ↔ BytesL.QuestionLegal bytes := Iff.rfl

theorem legalDgram_iff (inp : BInput) : LegalDgram inp ↔ BytesL.LegalInput inp := by
  cases inp <;> exact Iff.rfl

theorem tunnelTypes_iff (ty : Nat) : ty ∈ TunnelTypes ↔ BytesL.TunnelType ty := by
  simp [TunnelTypes, BytesL.TunnelType]

theorem legalReachable_inv {cfg : Config} {b : BSrv} (h : LegalReachable cfg b) : BytesL.BInv b := by
  induction h with
  | init rnd => exact BytesL.binv_start cfg rnd
  | step inp now' _ hl ih => exact (BytesL.binv_step ih inp now' ((legalDgram_iff inp).1 hl)).1

/-! ### The property -/

/-- **The byte-level iteration IS the session iteration** on what `read_dns` hands on: state and events are those of
`Server.iteration` (so every theorem of C03 C04 C14 C15 C16 about `next`/`out` speaks about the byte-level server), and
what is sent is `encodeEvents` of those events. -/
theorem biteration_session (b : BSrv) (inp : BInput) (now' : Nat) :
    (biteration b inp now').1.srv = next b.srv ⟨toInput b.srv inp, now'⟩ ∧
    (biteration b inp now').2.1 = (encodeEvents b.srv.cfg b.td (toInput b.srv inp) (out b.srv ⟨toInput b.srv inp, now'⟩)).2 :=
  ⟨rfl, rfl⟩

/-- **session_datagrams_wellformed_partial** (answers of `write_dns`).  In every state reachable from start-up through
arbitrary inputs with legal decoded questions, for every further such input (ARBITRARY datagram bytes) and every datagram
`tx dst bytes` the iteration sends through `write_dns`:
it is the encoding of an `ans dst id ty dn name data` event of the session machine in this iteration — a call
`write_dns(q, data, datalen, downenc)` with `q->from = dst`, `q->id = id`, `q->type = ty`, `q->name = name` —
whose `id` is 16-bit, whose `name` is legal and whose `ty` is one of the seven tunnel types (these three are INVARIANTS of the
stored queries, proved here; C14 `answers_injective_into_queries` says the event answers a distinct received query datagram with
exactly this address, id, name and type, of this or an earlier iteration); and if the payload is a byte string of 1..4096 bytes,
`bytes` is a well-formed response that echoes id, name and type, for EVERY downstream codec byte `dn`.

PARTIAL: the premise on `data` (`IsBytes data`, `1 ≤ |data| ≤ 4096`) is not discharged here.  It holds for every answer the
model produces from byte-valued inputs (constants, ≤ 2047-byte probes, name echoes, fragments ≤ 2 + 4094 by C15
`fragment_le_fragsize`, cache replays ≤ 4096 by `cache_fits_fragsize`), but the invariant "all stored packet bytes are < 256" over the
whole handler set is not proved. -/
theorem session_datagrams_wellformed_partial (cfg : Config) (b : BSrv) (hr : LegalReachable cfg b)
    (inp : BInput) (now' : Nat) (hl : LegalDgram inp) (dst : Addr) (bytes : List Nat)
    (htx : BEvent.tx dst bytes ∈ (biteration b inp now').2.1) :
    ∃ id ty dn name data tag,
      Event.ans dst id ty dn name data tag ∈ out b.srv ⟨toInput b.srv inp, now'⟩ ∧
      id < 65536 ∧ LegalName name ∧ ty ∈ TunnelTypes ∧
      (IsBytes data → 1 ≤ data.length → data.length ≤ 4096 → WellFormedAnswerTo id ty name bytes) := by
  have hinv := legalReachable_inv hr
  have hstep := BytesL.binv_step hinv inp now' ((legalDgram_iff inp).1 hl)
  obtain ⟨pr, hpr, hb⟩ := BytesL.mem_encodeEvents htx
  obtain ⟨hmem, htxs, _, _⟩ := (BytesL.encodeEventsL_spec _ _ _ _ hinv.td).2 pr hpr
  obtain ⟨td0, id, ty, dn, name, data, tag, htd0, hev, hw⟩ := htxs dst bytes hb
  rw [hev] at hmem
  have hgood := hstep.2 dst id ty dn name data tag hmem
  refine ⟨id, ty, dn, name, data, tag, hmem, hgood.1, hgood.2.1, (tunnelTypes_iff ty).2 hgood.2.2, ?_⟩
  intro hd h1 h2
  obtain ⟨td', pkt, hwd, _, m, hm, e1, e2, e3, e4, e5, e6, _⟩ :=
    BytesL.writeDns_echo td0 htd0 id ty name data dn hgood.1 hgood.2.2 hgood.2.1 hd h1 h2
  rw [hwd] at hw
  cases hw
  exact ⟨m, hm, e1, e2, e3, e4, e5, e6⟩

/-- **session_nsa_wellformed_partial** (NS and A responses).  Every datagram `nsa dst bytes` sent by `handle_ns_request` /
`handle_a_request` in such an iteration answers the query `q` that `read_dns` decoded from THIS iteration's datagram
(id 16-bit, name legal), and — for names of at most 250 characters — is a well-formed response echoing `q`'s id, name and
type with exactly one answer record for that name, type and class IN (Props/C10.lean `ns_response_wellformed`,
`a_response_wellformed` say which: `NS ns.<domain>` with optional glue, resp. the address).

PARTIAL: names of 251..253 characters are excluded (the NS theorems need the matched top domain to have at most 250 characters,
which follows from `check_topdomain`'s 128-character limit and the 63-byte label limit — not proved here). -/
theorem session_nsa_wellformed_partial (cfg : Config) (b : BSrv) (_hr : LegalReachable cfg b)
    (inp : BInput) (now' : Nat) (hl : LegalDgram inp) (dst : Addr) (bytes : List Nat)
    (hnsa : BEvent.nsa dst bytes ∈ (biteration b inp now').2.1) :
    ∃ q, toInput b.srv inp = .q q ∧ Event.nsa dst ∈ out b.srv ⟨toInput b.srv inp, now'⟩ ∧
      q.id < 65536 ∧ LegalName q.name ∧
      (q.name.length ≤ 250 →
        ∃ m, parseMsg bytes = some m ∧ m.id = q.id ∧ m.flags = 0x8400 ∧ m.qd = [(labels q.name, q.type, 1)] ∧
          m.an.length = 1 ∧ (∀ r ∈ m.an, r.owner = labels q.name ∧ r.type = q.type ∧ r.cls = 1) ∧ m.ns = []) := by
  obtain ⟨pr, hpr, hb⟩ := BytesL.mem_encodeEvents hnsa
  -- the structure of `encodeEventsL` does not depend on the counters being in range for `nsa` events
  have key : ∀ (evs : List Event) (td : WriteDns.Td), ∀ pr ∈ (encodeEventsL b.srv.cfg (queryOf (toInput b.srv inp)) td evs).2,
      BEvent.nsa dst bytes ∈ pr.2 → pr.1 ∈ evs ∧
        ∃ q, queryOf (toInput b.srv inp) = some q ∧ pr.1 = Event.nsa dst ∧ nsaBytes b.srv.cfg q = some bytes := by
    intro evs
    induction evs with
    | nil => intro td pr hpr; simp [encodeEventsL] at hpr
    | cons e rest ih =>
      intro td pr hpr hb
      simp only [encodeEventsL, List.mem_cons] at hpr
      rcases hpr with rfl | hpr
      · refine ⟨List.mem_cons_self, ?_⟩
        cases e with
        | nsa d =>
          simp only [encodeEvent] at hb
          split at hb
          · rename_i x hx
            simp only [List.mem_singleton, BEvent.nsa.injEq] at hb
            obtain ⟨rfl, rfl⟩ := hb
            cases hq : queryOf (toInput b.srv inp) with
            | none => rw [hq] at hx; simp at hx
            | some q => rw [hq] at hx; exact ⟨q, rfl, rfl, by simpa using hx⟩
          · cases hb
        | ans dst' id ty dn name data tag => simp only [encodeEvent] at hb; split at hb <;> simp at hb
        | fwd d => simp only [encodeEvent] at hb; split at hb <;> simp at hb
        | _ => simp [encodeEvent] at hb
      · obtain ⟨h1, h2⟩ := ih _ pr hpr hb
        exact ⟨List.mem_cons_of_mem _ h1, h2⟩
  obtain ⟨hmem, q, hq, hev, hbytes⟩ := key _ _ pr hpr hb
  rw [hev] at hmem
  have hin : toInput b.srv inp = .q q := by
    cases hti : toInput b.srv inp <;> rw [hti] at hq <;> simp [queryOf] at hq
    rw [hq]
  obtain ⟨_, hid, _, hleg⟩ := BytesL.toInput_q hin
  have hlegal := hleg ((legalDgram_iff inp).1 hl)
  refine ⟨q, hin, hmem, hid, hlegal, ?_⟩
  intro hlen
  exact BytesL.nsaBytes_echo b.srv.cfg q bytes hid hlegal hlen hbytes

/-! ### Full strength: the premises discharged as invariants

The payload premise of `session_datagrams_wellformed_partial` and the length restriction of `session_nsa_wellformed_partial` are
consequences of two things iodined's `main()` and the operating system guarantee: the configuration passed `main`'s checks,
and what arrives on sockets and the tun device are bytes. -/

/-- What `main()` of iodined.c enforces before `tunnel()` starts: `-m mtu` is a positive `int` (`if (mtu <= 0) usage`), the
netmask has 8..30 bits (`if (netmask > 30 || netmask < 8)`), `check_topdomain(topdomain, 1, …)` accepted the top domain
(3..128 characters, labels of 1..63 letters/digits/'-', optionally a leading "*.").  (Nothing is needed about `my_ip`, the
password, `ns_ip` or the ports.) -/
def ConfigOk (cfg : Config) : Prop :=
  0 < cfg.mtu ∧ cfg.mtu < 2 ^ 31 ∧ 8 ≤ cfg.netmask ∧ cfg.netmask ≤ 30 ∧ Common.checkTopdomain cfg.topdomain true = 0

instance (cfg : Config) : Decidable (ConfigOk cfg) := by unfold ConfigOk; infer_instance

/-- the input of an iteration consists of bytes: datagram octets and tun frame octets are `< 256`
(lengths are arbitrary: `recvmsg`/`read` cut at 64 KiB; `rand()` values and clock values are arbitrary) -/
def ByteDgram : BInput → Prop
  | .dgram _ bytes => IsBytes bytes
  | .tun frame => IsBytes frame
  | .bind _ => True
  | .tick => True

instance : DecidablePred ByteDgram := fun i => by cases i <;> unfold ByteDgram <;> infer_instance

/-- states reachable from start-up through iterations on arbitrary byte-valued inputs whose decoded questions are legal -/
inductive WfReachable (cfg : Config) : BSrv → Prop where
  | init (rnd : List Nat) : WfReachable cfg (bstart cfg rnd)
  | step {b : BSrv} (inp : BInput) (now' : Nat) : WfReachable cfg b → LegalDgram inp → ByteDgram inp →
      WfReachable cfg (biteration b inp now').1

theorem configOk_iff (cfg : Config) : ConfigOk cfg → BytesL.CfgOk cfg :=
  fun h => ⟨⟨h.1, h.2.1, h.2.2.2.1⟩, h.2.2.2.2⟩

theorem byteDgram_iff (inp : BInput) : ByteDgram inp ↔ BytesL.ByteInput inp := by
  cases inp <;> exact Iff.rfl

theorem wfReachable_legal {cfg : Config} {b : BSrv} (h : WfReachable cfg b) : LegalReachable cfg b := by
  induction h with
  | init rnd => exact .init rnd
  | step inp now' _ hl _ ih => exact .step inp now' ih hl

theorem wfReachable_inv {cfg : Config} (hc : ConfigOk cfg) {b : BSrv} (h : WfReachable cfg b) : BytesL.BInv2 b := by
  induction h with
  | init rnd => exact BytesL.binv2_start cfg (configOk_iff cfg hc) rnd
  | step inp now' _ hl hb ih =>
    exact (BytesL.binv2_step ih inp now' ((legalDgram_iff inp).1 hl) ((byteDgram_iff inp).1 hb)).1

/-- **session_payloads_are_bytes.**  Under `ConfigOk`, in every state reachable through byte-valued inputs with legal questions,
every `write_dns(q, data, datalen, downenc)` of the next iteration carries a byte string of 2..4096 bytes, or the one byte "x": data answers are 2 header
bytes + at most min(fragsize, 4094) payload bytes, cache replays at most 4096, the login reply at most 15+1+15+1+10+1+2 bytes, the
version answers 9, the 'I' answer 5 or 17, the 'Z' echo at most 255, the fragment-size probe 2..2047, all others constants; the
shortest is the one-byte "x" sent for a recognised duplicate. -/
theorem session_payloads_are_bytes (cfg : Config) (hc : ConfigOk cfg) (b : BSrv) (hr : WfReachable cfg b)
    (inp : BInput) (now' : Nat) (hl : LegalDgram inp) (hb : ByteDgram inp)
    (dst : Addr) (id ty dn : Nat) (name data : List Nat) (tag : Tag)
    (he : Event.ans dst id ty dn name data tag ∈ out b.srv ⟨toInput b.srv inp, now'⟩) :
    IsBytes data ∧ (2 ≤ data.length ∨ data = [120]) ∧ data.length ≤ 4096 :=
  (BytesL.binv2_step (wfReachable_inv hc hr) inp now' ((legalDgram_iff inp).1 hl) ((byteDgram_iff inp).1 hb)).2.2
    dst id ty dn name data tag he

/-- **session_datagrams_wellformed** (C10 for whole sessions, answers of `write_dns`).  For every configuration that passes
`main()`'s checks, every state of the server process reachable from start-up through ARBITRARY byte-valued inputs (any datagram
bytes of any length, tun frames, forwarded replies, any `rand()` values, any clock) whose decoded questions are legal names, every
further such input and every datagram `tx dst bytes` the iteration hands to `sendto` through `write_dns`:
`bytes` is a well-formed RFC 1035 response (strict parser: counts match, labels 1..63, names ≤ 255, pointers backwards to label
boundaries, RDLENGTH exact, TXT tiled), QR|AA, that carries exactly the id, question name and type of an `ans` event of this
iteration — i.e. (by `session_answer_echoes_received_query` / C14) of a query the server decoded from a datagram received from `dst`
in this or an earlier iteration — with at least one answer record, every answer record owned by the question name in class IN. -/
theorem session_datagrams_wellformed (cfg : Config) (hc : ConfigOk cfg) (b : BSrv) (hr : WfReachable cfg b)
    (inp : BInput) (now' : Nat) (hl : LegalDgram inp) (hb : ByteDgram inp) (dst : Addr) (bytes : List Nat)
    (htx : BEvent.tx dst bytes ∈ (biteration b inp now').2.1) :
    ∃ id ty dn name data tag,
      Event.ans dst id ty dn name data tag ∈ out b.srv ⟨toInput b.srv inp, now'⟩ ∧
      id < 65536 ∧ LegalName name ∧ ty ∈ TunnelTypes ∧ WellFormedAnswerTo id ty name bytes := by
  obtain ⟨id, ty, dn, name, data, tag, he, h1, h2, h3, h4⟩ :=
    session_datagrams_wellformed_partial cfg b (wfReachable_legal hr) inp now' hl dst bytes htx
  obtain ⟨d1, d2, d3⟩ := session_payloads_are_bytes cfg hc b hr inp now' hl hb dst id ty dn name data tag he
  exact ⟨id, ty, dn, name, data, tag, he, h1, h2, h3, h4 d1 (by rcases d2 with d2 | d2; omega; rw [d2]; decide) d3⟩

/-- **session_matched_top_short.**  The part of a legal query name that `query_datalen` matches against a top domain accepted by
`check_topdomain` — what `handle_ns_request` passes to `dns_encode_ns_response` as the domain — has at most 191 characters (the
domain, ≤ 128; or one label ≤ 63 standing for the `*` and the rest of the domain), so `ns.<it>` fits a DNS name. -/
theorem session_matched_top_short (q t : List Nat) (n : Nat) (hq : LegalName q) (ht : Common.checkTopdomain t true = 0)
    (h : Common.queryDatalen q t = some n) : (q.drop n).length ≤ 191 := BytesL.matched_top_le hq ht h

example : Common.queryDatalen ([120, 46] ++ List.replicate 63 97 ++ [46, 116, 46, 99, 111]) [42, 46, 116, 46, 99, 111] = some 2 := by
  decide +kernel

/-- **session_nsa_wellformed** (NS and A responses, all legal names).  Under `ConfigOk`, every datagram `nsa dst bytes` sent by
`handle_ns_request` / `handle_a_request` answers the query `q` decoded from THIS iteration's datagram and is a well-formed response
echoing `q`'s id, name and type with exactly one answer record for that name, type and class IN. -/
theorem session_nsa_wellformed (cfg : Config) (hc : ConfigOk cfg) (b : BSrv) (hr : WfReachable cfg b)
    (inp : BInput) (now' : Nat) (hl : LegalDgram inp) (dst : Addr) (bytes : List Nat)
    (hnsa : BEvent.nsa dst bytes ∈ (biteration b inp now').2.1) :
    ∃ q, toInput b.srv inp = .q q ∧ Event.nsa dst ∈ out b.srv ⟨toInput b.srv inp, now'⟩ ∧
      q.id < 65536 ∧ LegalName q.name ∧
      ∃ m, parseMsg bytes = some m ∧ m.id = q.id ∧ m.flags = 0x8400 ∧ m.qd = [(labels q.name, q.type, 1)] ∧
        m.an.length = 1 ∧ (∀ r ∈ m.an, r.owner = labels q.name ∧ r.type = q.type ∧ r.cls = 1) ∧ m.ns = [] := by
  have hinv := wfReachable_inv hc hr
  obtain ⟨pr, hpr, hbm⟩ := BytesL.mem_encodeEvents hnsa
  obtain ⟨hmem, _, hns, _⟩ := (BytesL.encodeEventsL_spec _ _ _ _ hinv.base.td).2 pr hpr
  obtain ⟨q, hq, hev, hbytes⟩ := hns dst bytes hbm
  rw [hev] at hmem
  have hin : toInput b.srv inp = .q q := by
    cases hti : toInput b.srv inp <;> rw [hti] at hq <;> simp [queryOf] at hq
    rw [hq]
  obtain ⟨_, hid, _, hleg⟩ := BytesL.toInput_q hin
  have hlegal := hleg ((legalDgram_iff inp).1 hl)
  refine ⟨q, hin, hmem, hid, hlegal, ?_⟩
  exact BytesL.nsaBytes_echo_of b.srv.cfg q bytes hid hlegal
    (fun dlen hd => by have := BytesL.matched_top_le hlegal hinv.cfg.2 hd; omega) hbytes

/-- **session_answer_echoes_received_query** ("each answer carries the id, name and type of the query it answers", over
whole runs; no hypothesis on the datagrams).  Let the server process run from start-up through ANY inputs `l` (arbitrary datagram
bytes, tun frames, forwarded replies, any clock values) and then through one more iteration on `inp`.  Every `write_dns` of
that iteration — every `ans dst id ty dn name data` event, hence by `session_datagrams_wellformed_partial` every `tx` — goes to
the sender `dst` of a query with exactly this id, name and type that `read_dns` decoded from a datagram received in this
iteration or an earlier one of the run.  (By C14 `answers_injective_into_queries`, even to a distinct, not yet answered one.) -/
theorem session_answer_echoes_received_query (cfg : Config) (rnd : List Nat) (l : List (BInput × Nat)) (inp : BInput) (now' : Nat)
    (dst : Addr) (id ty dn : Nat) (name data : List Nat) (tag : Tag)
    (he : Event.ans dst id ty dn name data tag ∈
      out (brun (bstart cfg rnd) l).srv ⟨toInput (brun (bstart cfg rnd) l).srv inp, now'⟩) :
    ∃ (src : Addr) (bytes : List Nat) (n : Nat) (b' : BSrv) (q : Query),
      (BInput.dgram src bytes, n) ∈ l ++ [(inp, now')] ∧ decodeInput b'.srv src bytes = .q q ∧
      q.from_ = dst ∧ q.id = id ∧ q.name = name ∧ q.type = ty := by
  have hsteps := BytesL.bsteps_append l (bstart cfg rnd) inp now'
  have hwf := BytesL.wf_bsteps (l ++ [(inp, now')]) (bstart cfg rnd)
  have htr := BytesL.traceFrom_append (bsteps (bstart cfg rnd) l) (start cfg rnd)
    ⟨toInput (brun (bstart cfg rnd) l).srv inp, now'⟩
  have hrun : runFrom (start cfg rnd) (bsteps (bstart cfg rnd) l) = (brun (bstart cfg rnd) l).srv :=
    BytesL.runFrom_bsteps l (bstart cfg rnd)
  rw [hrun, ← hsteps] at htr
  obtain ⟨q, hq, hk⟩ := BytesL.ans_key_received cfg rnd _ hwf _
    (by rw [htr]; exact List.mem_append_right _ (List.mem_singleton.2 rfl)) dst id ty dn name data tag he
  obtain ⟨st, hst, hinp⟩ := List.mem_map.1 hq
  obtain ⟨b', i, n, hmem, rfl⟩ := BytesL.mem_bsteps _ _ st hst
  simp only at hinp
  cases i with
  | dgram src bytes =>
    simp only [C14.queryKey, Prod.mk.injEq] at hk
    exact ⟨src, bytes, n, b', q, hmem, hinp, hk.1, hk.2.1, hk.2.2.1, hk.2.2.2⟩
  | tun f => cases hinp
  | bind d => cases hinp
  | tick => cases hinp

/-! ### Non-vacuity -/

def exCfgS : Config :=
  { checkIp := true, password := List.replicate 32 0, myIp := 0x0a000001, netmask := 27,
    topdomain := [116, 46, 99, 111], mtu := 1130, nsIp := 0, bindPort := 0, dest4 := 0x0a090909, dest6 := 0,
    createdUsers := 0 }

def exSrc : Addr := ⟨4, 0x0a630001, 53⟩

/-- a version request "vaaaaaaaa.t.co" type NULL id 0x1234 (no valid version number: answered with VNAK) -/
def exDgramV : List Nat :=
  [0x12, 0x34, 1, 0, 0, 1, 0, 0, 0, 0, 0, 0, 9, 118, 97, 97, 97, 97, 97, 97, 97, 97, 1, 116, 2, 99, 111, 0, 0, 10, 0, 1]

/-- an NS query for "x.t.co", id 7 -/
def exDgramNs : List Nat := [0, 7, 1, 0, 0, 1, 0, 0, 0, 0, 0, 0, 1, 120, 1, 116, 2, 99, 111, 0, 0, 2, 0, 1]

/-- the version request produces exactly one `tx` to the asker, which the strict parser accepts with id 0x1234 -/
def exTxOk : Bool :=
  match (biteration (bstart exCfgS []) (.dgram exSrc exDgramV) 1000).2.1 with
  | [.tx dst bytes] => decide (dst = exSrc) && ((parseMsg bytes).map (·.id) == some 0x1234)
  | _ => false

/-- the NS query produces exactly one `nsa` to the asker -/
def exNsaOk : Bool :=
  match (biteration (bstart exCfgS []) (.dgram exSrc exDgramNs) 1000).2.1 with
  | [.nsa dst bytes] => decide (dst = exSrc) && ((parseMsg bytes).map (·.id) == some 7)
  | _ => false

example : LegalDgram (.dgram exSrc exDgramV) ∧ LegalDgram (.dgram exSrc exDgramNs) ∧ exTxOk = true ∧ exNsaOk = true := by
  decide +kernel

/-- the theorem applied to the example (hypotheses are satisfiable and a `tx` really occurs) -/
example (dst : Addr) (bytes : List Nat)
    (h : BEvent.tx dst bytes ∈ (biteration (bstart exCfgS []) (.dgram exSrc exDgramV) 1000).2.1) :=
  session_datagrams_wellformed_partial exCfgS _ (.init []) (.dgram exSrc exDgramV) 1000 (by decide +kernel) dst bytes h

/-- non-vacuity of `session_answer_echoes_received_query`: the version request is answered by a `write_dns` to its sender, id and type -/
example : (out (brun (bstart exCfgS []) []).srv ⟨toInput (brun (bstart exCfgS []) []).srv (.dgram exSrc exDgramV), 1000⟩).any
    (fun e => match e with
      | .ans dst id ty _ _ _ _ => decide (dst = exSrc) && id == 0x1234 && ty == 10
      | _ => false) = true := by decide +kernel

/-- **Why the quantifier of C10 (`LegalDgram`) is needed**: without it the statement is false for the model and for the C code.
A query whose first label is the two bytes "z." is read by `dns_decode` as the name "z..t.co" (not a legal name: empty label);
the 'Z' handler answers it; `putname` drops the empty piece when it re-encodes the question, so the datagram sent is
well-formed but carries the question "z.t.co" — not the question name the server decoded. -/
def exDgramBad : List Nat := [0, 7, 1, 0, 0, 1, 0, 0, 0, 0, 0, 0, 2, 122, 46, 1, 116, 2, 99, 111, 0, 0, 10, 0, 1]

def exBadEcho : Bool :=
  match (biteration (bstart exCfgS []) (.dgram exSrc exDgramBad) 1000).2.1 with
  | [.tx _ bytes] => (parseMsg bytes).map (·.qd) == some [([[122], [116], [99, 111]], 10, 1)]
  | _ => false

example : ¬ LegalDgram (.dgram exSrc exDgramBad) ∧
    (dnsDecodeQuery { pkt := exDgramBad.toArray, res := #[], cap := 65536 }).map (·.name) = .ok [122, 46, 46, 116, 46, 99, 111] ∧
    labels [122, 46, 46, 116, 46, 99, 111] = [[122], [], [116], [99, 111]] ∧ exBadEcho = true := by
  decide +kernel

/-- non-vacuity of the full-strength theorems: the example configuration passes `main()`'s checks, the example datagrams are bytes -/
example : ConfigOk exCfgS ∧ ByteDgram (.dgram exSrc exDgramV) ∧ ByteDgram (.dgram exSrc exDgramNs) := by decide +kernel

example (dst : Addr) (bytes : List Nat)
    (h : BEvent.tx dst bytes ∈ (biteration (bstart exCfgS []) (.dgram exSrc exDgramV) 1000).2.1) :=
  session_datagrams_wellformed exCfgS (by decide +kernel) _ (.init []) (.dgram exSrc exDgramV) 1000 (by decide +kernel)
    (by decide +kernel) dst bytes h

example (dst : Addr) (bytes : List Nat)
    (h : BEvent.nsa dst bytes ∈ (biteration (bstart exCfgS []) (.dgram exSrc exDgramNs) 1000).2.1) :=
  session_nsa_wellformed exCfgS (by decide +kernel) _ (.init []) (.dgram exSrc exDgramNs) 1000 (by decide +kernel) dst bytes h

/-- **Names longer than a legal name are refused** (was a defect, found by this model and confirmed on the C code with
harness/h_srv; repaired in /repo by `fix: refuse query names longer than a legal name`).  A query whose question name has four labels of
63, 63, 63 and 57 bytes plus "t.co" — no '.' or NUL in any label, every label ≤ 63, but 256 bytes on the wire, one more than RFC 1035
allows — used to be accepted by `dns_decode` (`name[256]` holds the 254 characters) and answered (here by the 'Z' echo) with a datagram
carrying a 256-byte question name, which no strict parser accepts.  `dns_decode` now returns -1 for names of more than 253 characters:
the datagram is dropped and nothing is sent. -/
def exDgramLong : List Nat :=
  [0x12, 0x34, 1, 0, 0, 1, 0, 0, 0, 0, 0, 0] ++ (63 :: 122 :: List.replicate 62 97) ++ (63 :: List.replicate 63 97) ++
    (63 :: List.replicate 63 97) ++ (57 :: List.replicate 57 97) ++ [1, 116, 2, 99, 111, 0] ++ [0, 10, 0, 1]

example : ByteDgram (.dgram exSrc exDgramLong) ∧
    ((dnsDecodeQuery { pkt := exDgramLong.toArray, res := #[], cap := 65536 }).map fun d => d.rv) = .ok (-1) ∧
    (biteration (bstart exCfgS []) (.dgram exSrc exDgramLong) 1000).2.1 = [] := by
  decide +kernel

end Iodine.C10
