import IodineModel.Props.C17
import IodineModel.Lemmas.OptSrv
import IodineModel.Lemmas.OptCli
/-
C17, continued: the call sites of `check_topdomain` in the two `main()`s.  Whatever command line and environment the programs are
started with, the session machines only ever run with a top domain that is a valid domain in the sense of the property
(`ValidDomain`): iodined allows the leading `*.`, iodine does not.
-/
namespace Iodine.C17
open Iodine Iodine.Getopt

/-- **server_main_topdomain_valid.** -/
theorem server_main_topdomain_valid (env : Server.Options.Env) (argv : List (List Nat)) (f : Server.Options.Final)
    (h : (Server.Options.serverMain env argv).final = some f) : ValidDomain true f.topdomain := by
  obtain ⟨o, v, evs, v4, v6, _, hv, hf⟩ := OptL.serverMain_final env argv f h
  subst hf
  exact (check_topdomain_iff_spec _ _).1 (OptL.validate_ok env o _ v evs hv).td

/-- **client_main_topdomain_valid.** -/
theorem client_main_topdomain_valid (env : Client.Options.Env) (argv : List (List Nat)) (f : Client.Options.Final)
    (h : (Client.Options.clientMain env argv).final = some f) : ValidDomain false f.cli.topdomain := by
  obtain ⟨o, td, fam, ip, _, hf, htd, _⟩ := OptL.clientMain_final env argv f h
  subst hf
  exact (check_topdomain_iff_spec _ _).1 htd

def exCliEnv : Client.Options.Env :=
  { envPass := some [120], typed := [], resolv := some (ascii "192.168.1.1"), getAddr := fun _ _ => some (4, 0x0a000035),
    userUid := fun _ => some 1000, setuidOk := fun _ => true, openTun := fun _ => true, r1 := 0, r2 := 0, hsRet := 0 }

-- the wildcard form is a server-side notion: `iodine ns *.t.co` is refused, `iodine ns t.co` starts the handshake
example : (Client.Options.clientMain exCliEnv [ascii "iodine", ascii "ns", ascii "*.t.co"]).outcome = .exit 2 "usage:topdomain" ∧
    (Client.Options.clientMain exCliEnv [ascii "iodine", ascii "ns", ascii "t.co"]).outcome = .run 0 := by decide +kernel

end Iodine.C17
