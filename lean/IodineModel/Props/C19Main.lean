import IodineModel.Props.C19
import IodineModel.Lemmas.OptSrv
import IodineModel.Lemmas.OptCli
/-
C19, continued: where the 32-byte block that `login_calculate` hashes comes from.

The theorems of Props/C19.lean speak about "the password padded to 32 bytes".  What both ends really hash is `password[0..32)`
of a 33-byte buffer that `main()` fills (src/iodined.c, src/iodine.c): `-P` (repeatable: `strncpy(password, optarg, 33);
password[32] = 0`), else `getenv("IODINE[D]_PASS")` (`snprintf`), else the line typed at the prompt (`read_password`).  The models
of the two `main()`s (Server/Options.lean, Client/Options.lean; tied to the code by the `main` ops of the harnesses) keep that
buffer byte by byte.  Proved here, for EVERY argument vector and environment: whenever `tunnel()` / `client_handshake()` is
reached, the buffer is the EFFECTIVE password — the last `-P` argument if it is not empty, else the environment variable, else
the typed line — cut at 32 bytes, ZERO PADDED to 32, followed by a NUL.  (`-P long -P short` must not leave a tail of `long`
behind: with `snprintf(password, 33, "%s", optarg)` in place of the `strncpy` the statement is false, see the witness below.)
-/
namespace Iodine.C19
open Iodine Iodine.Getopt

/-! ### Specification side -/

/-- the argument of the last `-P` option `getopt` delivers (`'P'` = 80), if there is one -/
def lastP (opts : List Opt) : Option (List Nat) :=
  (opts.filterMap fun x => match x with | .arg 80 a => some a | _ => none).getLast?

/-- the first line typed at the prompt, at most 79 characters (`fscanf(stdin, "%79[^\n]", …)`) -/
def typedLine (typed : List Nat) : List Nat := (typed.takeWhile (· ≠ 10)).take 79

/-- the password a user of the program means: the last `-P` if it is not empty, else the environment variable, else the prompt -/
def effectivePassword (opts : List Opt) (envPass : Option (List Nat)) (typed : List Nat) : List Nat :=
  match lastP opts with
  | some (c :: p) => c :: p
  | _ => match envPass with
    | some e => e
    | none => typedLine typed

/-- C strings: no NUL inside an argument -/
def CStrings (argv : List (List Nat)) : Prop := ∀ a ∈ argv, 0 ∉ a

instance (argv : List (List Nat)) : Decidable (CStrings argv) := by unfold CStrings; infer_instance

/-! ### Helpers relating the specification to the lemma files' vocabulary -/

theorem lastP_eq (opts : List Opt) : lastP opts = OptL.lastPFrom opts none := by
  have gen : ∀ (xs : List Opt) (prev : Option (List Nat)),
      OptL.lastPFrom xs prev =
        ((xs.filterMap fun x => match x with | .arg 80 a => some a | _ => none).getLast?).or prev := by
    intro xs
    induction xs with
    | nil => intro prev; simp [OptL.lastPFrom]
    | cons x xs ih =>
      intro prev
      rw [OptL.lastPFrom_cons, ih]
      cases x with
      | flag c => simp [OptL.nextP]
      | bad => simp [OptL.nextP]
      | arg c a =>
        by_cases hc : c = 80
        · subst hc
          simp only [OptL.nextP, List.filterMap_cons]
          cases h : (xs.filterMap fun x => match x with | .arg 80 a => some a | _ => none).getLast? with
          | none =>
            have : (xs.filterMap fun x => match x with | .arg 80 a => some a | _ => none) = [] := by
              simpa [List.getLast?_eq_none_iff] using h
            simp [this]
          | some l =>
            have hne : (xs.filterMap fun x => match x with | .arg 80 a => some a | _ => none) ≠ [] := by
              intro h0; rw [h0] at h; simp at h
            rw [List.getLast?_cons_of_ne_nil hne] <;> simp [h]
        · have h1 : OptL.nextP (.arg c a) prev = prev := by
            unfold OptL.nextP; split
            · rename_i h; injection h with h _; exact absurd h hc
            · rfl
          have h2 : (match Opt.arg c a with | .arg 80 a => some a | _ => none) = none := by
            split
            · rename_i h; injection h with h _; exact absurd h hc
            · rfl
          rw [h1, List.filterMap_cons, h2]
  rw [gen]; simp [lastP]

theorem effective_eq (opts : List Opt) (envPass : Option (List Nat)) (typed : List Nat) :
    effectivePassword opts envPass typed = OptL.effective (OptL.lastPFrom opts none) envPass typed := by
  unfold effectivePassword OptL.effective typedLine
  rw [lastP_eq]
  cases OptL.lastPFrom opts none with
  | none => rfl
  | some l => cases l <;> rfl

theorem pad32_eq (pw : List Nat) : pad32 pw = OptL.pad32 pw := rfl

/-! ### The theorems -/

/-- **server_password_block.**  For every argument vector (C strings) and every environment: if `main()` of iodined reaches
`tunnel()`, the 33 bytes of `password[]` are the effective password cut at 32 bytes and zero padded, and a NUL. -/
theorem server_password_block (env : Server.Options.Env) (argv : List (List Nat)) (hc : CStrings argv)
    (f : Server.Options.Final) (h : (Server.Options.serverMain env argv).final = some f) :
    f.password = pad32 (effectivePassword (getoptAll Server.Options.optstring argv).1 env.envPass env.typed) ++ [0] := by
  obtain ⟨o, v, evs, v4, v6, ho, hv, hf⟩ := OptL.serverMain_final env argv f h
  have hi := OptL.srv_optLoop_inv _ _ o none OptL.sinv_init ho
  have hval := OptL.validate_ok env o _ v evs hv
  rw [hf, effective_eq, pad32_eq]
  show v.password = _
  rw [hval.pw, hi.pw]
  exact OptL.passwordPhase_block _ _ _ (fun p hp => OptL.lastP_nz _ argv hc p hp)

/-- hence the response the server expects in a login is the documented one for the effective password -/
theorem server_expects_documented_login (env : Server.Options.Env) (argv : List (List Nat)) (hc : CStrings argv)
    (f : Server.Options.Final) (h : (Server.Options.serverMain env argv).final = some f) (s : Nat) (hs : s < 2 ^ 32)
    (hb : Bytes (effectivePassword (getoptAll Server.Options.optstring argv).1 env.envPass env.typed)) :
    Login.loginCalcC f.toConfig.password s =
      loginSpec (effectivePassword (getoptAll Server.Options.optstring argv).1 env.envPass env.typed) s := by
  have hp := server_password_block env argv hc f h
  have : f.toConfig.password = pad32 (effectivePassword (getoptAll Server.Options.optstring argv).1 env.envPass env.typed) := by
    show f.password.take 32 = _
    rw [hp, List.take_append_of_le_length (by simp [pad32_length])]
    exact List.take_of_length_le (by simp [pad32_length])
  rw [this]
  exact login_is_md5_of_spec_block _ hb s hs

/-- **client_password_block.**  The same for `main()` of iodine and the buffer `client_set_password` points to. -/
theorem client_password_block (env : Client.Options.Env) (argv : List (List Nat)) (hc : CStrings argv)
    (f : Client.Options.Final) (h : (Client.Options.clientMain env argv).final = some f) :
    f.password = pad32 (effectivePassword (getoptAll Client.Options.optstring argv).1 env.envPass env.typed) ++ [0] := by
  obtain ⟨o, td, fam, ip, ho, hf, _⟩ := OptL.clientMain_final env argv f h
  have hi := OptL.cli_optLoop_inv _ _ o none OptL.cinv_init ho
  rw [hf, effective_eq, pad32_eq]
  show (passwordPhase env.envPass env.typed o.password).1 = _
  rw [hi.pw]
  exact OptL.passwordPhase_block _ _ _ (fun p hp => OptL.lastP_nz _ argv hc p hp)

/-! ### Non-vacuity, and what the statement excludes -/

def exEnv : Server.Options.Env :=
  { envPass := none, typed := [], extIp := none, sd := 0, userUid := fun _ => some 1000, setuidOk := fun _ => true,
    openTun := fun _ => true, getAddr4 := fun _ => some 0, getAddr6 := fun _ => true, stack4 := 0 }

/-- `iodined -f -P factory-default-password-2014 -P hunter2 10.9.8.1/27 t.example.com` -/
def exArgv : List (List Nat) :=
  [ascii "iodined", ascii "-f", ascii "-P", ascii "factory-default-password-2014", ascii "-P", ascii "hunter2",
   ascii "10.9.8.1/27", ascii "t.example.com"]

-- the run reaches tunnel(); the block is "hunter2" and 25 zeros (+ NUL): nothing of the first -P is left
example : ((Server.Options.serverMain exEnv exArgv).final.map (·.password)) =
    some ([104, 117, 110, 116, 101, 114, 50] ++ List.replicate 26 0) := by decide +kernel

example : CStrings exArgv ∧ effectivePassword (getoptAll Server.Options.optstring exArgv).1 none [] = ascii "hunter2" := by
  decide +kernel

/-- the seeded change C19-4: `snprintf(password, sizeof(password), "%s", optarg)` instead of `strncpy` + terminator.  The second
`-P` then leaves `default-password-2014` behind the NUL: the block is NOT the padded effective password. -/
example : snprintfS (snprintfS (List.replicate 33 0) (ascii "factory-default-password-2014") 33) (ascii "hunter2") 33
    ≠ pad32 (ascii "hunter2") ++ [0] := by decide +kernel

example : (snprintfS (snprintfS (List.replicate 33 0) (ascii "factory-default-password-2014") 33) (ascii "hunter2") 33).take 12
    = ascii "hunter2" ++ [0] ++ ascii "defa" := by decide +kernel

end Iodine.C19
