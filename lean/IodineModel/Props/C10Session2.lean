import IodineModel.Props.C10Session
import IodineModel.Lemmas.BytesK
/-
C10 for whole sessions of the byte-level server, with the property's OWN hypothesis.

Props/C10Session.lean proves the session theorems under `LegalDgram`: "IF the decoder hands the datagram on, the name it read is a
legal host name" — a hypothesis about what `dns_decode` computes.  Property C10 quantifies differently: "for all queries whose
labels contain no '.' or NUL byte".  This file states that on the RAW DATAGRAM (`LabelsPlain`: walk the question name on the wire —
labels, compression pointers — and look at the label bytes) and proves the session theorems from it alone:

    hypotheses = `ConfigOk cfg` (what `main()` checks) + octets < 256 + `LabelsPlain` for every received datagram.

What had to be found out for that (`plain_labels_decode_legal`): which names `readname` can produce from plain labels.
  * labels of 64..255 bytes cannot come out (`readname` refuses the reserved label types since c48dcaf), names of more than 253
    characters neither (`dns_decode` refuses them since 2734a78), the empty name is dropped by `read_dns` (`rv = 0`);
  * a zero length byte ends the name, wherever it stands; there are no empty labels in the middle;
  * BUT the lenient decoder can leave ONE TRAILING '.': when the byte after a label is not a length byte it can use (a reserved
    label type 0x40..0xbf, a pointer whose second byte is missing, a pointer out of the datagram, a pointer behind which there is
    nothing usable — a zero byte, a reserved type, the end of the jump budget, a length byte at the very end of the datagram), or
    when the 255-byte array has exactly 253 characters after the dot.  The name handed on is then `m ++ "."` with `m` legal.
So the names are: LEGAL, with exactly the labels on the wire; or legal-plus-one-dot, the labels being a PREFIX of those on the wire.
A name with a trailing dot is never inside the tunnel domain (`check_topdomain` refuses domains ending in '.'), hence never stored
and never answered by `write_dns` / `handle_ns_request` / `handle_a_request`: the theorems about `tx` and `nsa` hold verbatim,
with `LegalName`.  It CAN be forwarded (`iodined -b`); `putname` (strtok) drops the empty piece, so the forwarded question carries
the same LABEL SEQUENCE (`labelSeq`, names modulo a trailing dot) — `session_fwd_wellformed` says exactly that.
-/
namespace Iodine.C10
open Iodine Iodine.Server Iodine.Wire Iodine.Wire.Strict

/-! ### Specification vocabulary: the question labels ON THE WIRE -/

/-- One stretch of a name on the wire, from offset `pos`, at most `steps` labels: the labels met until the name ends — at a zero
byte, at the end of the datagram, at a byte that is neither a label length (1..63) nor a usable pointer — or continues behind a
compression pointer (`behind off` = the labels from the pointer's target on).  A label cut off by the end of the datagram counts
with the bytes that are there; a length byte that is the last byte of the datagram is no label. -/
def nameStretch (pkt : List Nat) (behind : Nat → List (List Nat)) : (steps pos : Nat) → List (List Nat)
  | 0, _ => []
  | steps + 1, pos =>
    if pkt.length ≤ pos then []
    else if pkt.getD pos 0 = 0 then []
    else if 192 ≤ pkt.getD pos 0 then
      if pos + 1 < pkt.length ∧ pkt.getD pos 0 % 64 * 256 + pkt.getD (pos + 1) 0 < pkt.length then
        behind (pkt.getD pos 0 % 64 * 256 + pkt.getD (pos + 1) 0)
      else []
    else if 64 ≤ pkt.getD pos 0 then []
    else if pkt.length ≤ pos + 1 then []
    else (pkt.drop (pos + 1)).take (pkt.getD pos 0) :: nameStretch pkt behind steps (pos + 1 + pkt.getD pos 0)

/-- the labels of the name at offset `pos`, following pointers through at most `budget` stretches (every label takes at least
two bytes, so `pkt.length` steps per stretch are never used up) -/
def nameLabels (pkt : List Nat) : (budget pos : Nat) → List (List Nat)
  | 0, _ => []
  | budget + 1, pos => nameStretch pkt (nameLabels pkt budget) pkt.length pos

/-- the labels of the question name of a datagram: the name at offset 12, within the 64 KiB `recvmsg` delivers, `readname`'s
budget of 10 stretches (9 pointers) -/
def questionLabels (bytes : List Nat) : List (List Nat) := nameLabels (bytes.take 65536) 10 12

/-- **The quantifier of C10, on the raw datagram**: no label of the question name contains NUL or '.' -/
def LabelsPlain (bytes : List Nat) : Prop := ∀ l ∈ questionLabels bytes, 0 ∉ l ∧ 46 ∉ l

/-- the same for any input of an iteration (tun frames, forwarded replies and time-outs are unrestricted) -/
def PlainDgram : BInput → Prop
  | .dgram _ bytes => LabelsPlain bytes
  | _ => True

instance (bytes : List Nat) : Decidable (LabelsPlain bytes) := by unfold LabelsPlain; infer_instance
instance : DecidablePred PlainDgram := fun i => by cases i <;> unfold PlainDgram <;> infer_instance

/-- states of the server process reachable from start-up (any `rand()` values) through iterations on ARBITRARY inputs made of
octets — any datagram bytes of any length, tun frames, forwarded replies, any clock — whose question labels are plain -/
inductive PlainReachable (cfg : Config) : BSrv → Prop where
  | init (rnd : List Nat) : PlainReachable cfg (bstart cfg rnd)
  | step {b : BSrv} (inp : BInput) (now' : Nat) : PlainReachable cfg b → ByteDgram inp → PlainDgram inp →
      PlainReachable cfg (biteration b inp now').1

/-- the label sequence of a dotted name: the non-empty pieces between the dots ("a.b" and "a.b." have the same) -/
def labelSeq (n : List Nat) : List (List Nat) := (labels n).filter (fun l => !l.isEmpty)

/-- a well-formed QUERY carrying `(id, labels, type)`: parses strictly; flags = RD only; exactly that question, class IN; no answer,
no authority record; exactly one additional record, the EDNS0 OPT pseudo-record (UDP size 4096, DO) -/
def WellFormedQueryOf (id ty : Nat) (ls : List (List Nat)) (pkt : List Nat) : Prop :=
  parseMsg pkt = some ⟨id, 0x0100, [(ls, ty, 1)], [], [], [optRR]⟩

/-! ### Glue -/

theorem nameStretch_eq (pkt : List Nat) (behind : Nat → List (List Nat)) :
    ∀ steps pos, nameStretch pkt behind steps pos = BytesL.walkFrom pkt behind steps pos := by
  intro steps
  induction steps with
  | zero => intro pos; rfl
  | succ steps ih => intro pos; simp only [nameStretch, BytesL.walkFrom, ih]

theorem nameLabels_eq (pkt : List Nat) : ∀ budget pos, nameLabels pkt budget pos = BytesL.wireLabels pkt budget pos := by
  intro budget
  induction budget with
  | zero => intro pos; rfl
  | succ budget ih =>
    intro pos
    have : nameLabels pkt budget = BytesL.wireLabels pkt budget := funext ih
    simp only [nameLabels, BytesL.wireLabels, this, nameStretch_eq]

theorem labelsPlain_iff (bytes : List Nat) : LabelsPlain bytes ↔ BytesL.PlainQuestion bytes := by
  unfold LabelsPlain BytesL.PlainQuestion questionLabels
  rw [nameLabels_eq]
  exact Iff.rfl

theorem plainDgram_iff (inp : BInput) : PlainDgram inp ↔ BytesL.PlainInput inp := by
  cases inp with
  | dgram src bytes => exact labelsPlain_iff bytes
  | _ => exact Iff.rfl

theorem labelSeq_eq (n : List Nat) : labelSeq n = BytesL.labelSeq n := rfl

theorem plainReachable_inv {cfg : Config} (hc : ConfigOk cfg) {b : BSrv} (h : PlainReachable cfg b) : BytesL.BInv2 b := by
  induction h with
  | init rnd => exact BytesL.binv2_start cfg (configOk_iff cfg hc) rnd
  | step inp now' _ hb hl ih =>
    exact (BytesL.binv2_step_plain ih inp now' ((byteDgram_iff inp).1 hb) ((plainDgram_iff inp).1 hl)).1

/-! ### What the decoder makes of plain labels -/

/-- **plain_labels_decode_legal.**  Let a datagram consist of octets and let the labels of its question name, as they stand on the
wire, contain no '.' and no NUL.  IF `read_dns` hands it on as a query `q` (in any state of the server, from any sender), then
`q.name` is a legal host name (labels of 1..63 bytes without '.' and NUL, at most 253 characters) whose labels are EXACTLY the
question labels on the wire — or it is such a name (of at most 252 characters) followed by ONE '.', its labels being a prefix of the
question labels on the wire (the walk was cut short: see the header).  In both cases the label sequence is not empty. -/
theorem plain_labels_decode_legal (bytes : List Nat) (hb : IsBytes bytes) (hp : LabelsPlain bytes)
    (s : Srv) (src : Addr) (q : Query) (h : decodeInput s src bytes = .q q) :
    ((LegalName q.name ∧ labels q.name = questionLabels bytes) ∨
      (∃ m, q.name = m ++ [46] ∧ LegalName m ∧ m.length ≤ 252 ∧ labels m <+: questionLabels bytes)) ∧
    labelSeq q.name ≠ [] ∧ labelSeq q.name <+: questionLabels bytes := by
  obtain ⟨ls, hpre, hw, hfull⟩ := BytesL.decodeInput_q_plain h hb ((labelsPlain_iff bytes).1 hp)
  have hq : questionLabels bytes = BytesL.wireLabels (bytes.take 65536) 10 12 := nameLabels_eq _ _ _
  have hseq : labelSeq q.name = ls := hw.labelSeq
  rw [hq, hseq]
  refine ⟨?_, ?_, hpre⟩
  · rcases hw with ⟨h1, h2⟩ | ⟨m, hm, h1, h2, h3⟩
    · exact Or.inl ⟨h1, by rw [h2]; exact hfull h1⟩
    · exact Or.inr ⟨m, hm, h1, h2, by rw [h3]; exact hpre⟩
  · rcases hw with ⟨_, h2⟩ | ⟨m, _, _, _, h3⟩
    · rw [← h2]; exact labels_ne_nil _
    · rw [← h3]; exact labels_ne_nil _

/-- **plain_labels_tunnel_legal.**  … and a name inside the tunnel domain — the only names `tunnel_dns` answers itself — is of the
first kind: legal, with exactly the question labels on the wire.  (`check_topdomain` accepts no domain ending in '.'.) -/
theorem plain_labels_tunnel_legal (bytes : List Nat) (hb : IsBytes bytes) (hp : LabelsPlain bytes)
    (s : Srv) (src : Addr) (q : Query) (h : decodeInput s src bytes = .q q)
    (top : List Nat) (ht : Common.checkTopdomain top true = 0) (hin : Common.queryDatalen q.name top ≠ none) :
    LegalName q.name ∧ labels q.name = questionLabels bytes := by
  rcases (plain_labels_decode_legal bytes hb hp s src q h).1 with h1 | ⟨m, hm, _⟩
  · exact h1
  · exact absurd (hm ▸ BytesL.queryDatalen_trailing_dot m top ht) hin

/-! ### The property, from the wire-level hypothesis -/

/-- **session_payloads_are_bytes_plain** (`session_payloads_are_bytes` under the wire-level hypothesis). -/
theorem session_payloads_are_bytes_plain (cfg : Config) (hc : ConfigOk cfg) (b : BSrv) (hr : PlainReachable cfg b)
    (inp : BInput) (now' : Nat) (hb : ByteDgram inp) (hp : PlainDgram inp)
    (dst : Addr) (id ty dn : Nat) (name data : List Nat) (tag : Tag)
    (he : Event.ans dst id ty dn name data tag ∈ out b.srv ⟨toInput b.srv inp, now'⟩) :
    IsBytes data ∧ (2 ≤ data.length ∨ data = [120]) ∧ data.length ≤ 4096 :=
  (BytesL.binv2_step_plain (plainReachable_inv hc hr) inp now' ((byteDgram_iff inp).1 hb) ((plainDgram_iff inp).1 hp)).2.2
    dst id ty dn name data tag he

/-- **session_datagrams_wellformed_plain** (C10 for whole sessions, answers of `write_dns`, the property's own hypotheses).
For every configuration that passes `main()`'s checks, every state of the server process reachable from start-up through ARBITRARY
inputs made of octets (any datagram bytes of any length, tun frames, forwarded replies, any `rand()` values, any clock) in which
the question labels of every datagram contain no '.' and no NUL, every further such input and every datagram `tx dst bytes` the
iteration hands to `sendto` through `write_dns`:
`bytes` is a well-formed RFC 1035 response (strict parser), QR|AA, that carries exactly the id, question name and type of an `ans`
event of this iteration — a LEGAL name, so no "modulo a trailing dot" is needed here: names with a trailing dot are never answered —
with at least one answer record, every answer record owned by the question name in class IN.
(`session_answer_echoes_wire_question` below: that id, name and type are those of a received datagram, the name's labels being
exactly the question labels on its wire.) -/
theorem session_datagrams_wellformed_plain (cfg : Config) (hc : ConfigOk cfg) (b : BSrv) (hr : PlainReachable cfg b)
    (inp : BInput) (now' : Nat) (hb : ByteDgram inp) (hp : PlainDgram inp) (dst : Addr) (bytes : List Nat)
    (htx : BEvent.tx dst bytes ∈ (biteration b inp now').2.1) :
    ∃ id ty dn name data tag,
      Event.ans dst id ty dn name data tag ∈ out b.srv ⟨toInput b.srv inp, now'⟩ ∧
      id < 65536 ∧ LegalName name ∧ ty ∈ TunnelTypes ∧ WellFormedAnswerTo id ty name bytes := by
  have hinv := plainReachable_inv hc hr
  have hstep := BytesL.binv2_step_plain hinv inp now' ((byteDgram_iff inp).1 hb) ((plainDgram_iff inp).1 hp)
  obtain ⟨pr, hpr, hbm⟩ := BytesL.mem_encodeEvents htx
  obtain ⟨hmem, htxs, _, _⟩ := (BytesL.encodeEventsL_spec _ _ _ _ hinv.base.td).2 pr hpr
  obtain ⟨td0, id, ty, dn, name, data, tag, htd0, hev, hw⟩ := htxs dst bytes hbm
  rw [hev] at hmem
  have hgood := hstep.2.1 dst id ty dn name data tag hmem
  obtain ⟨d1, d2, d3⟩ := hstep.2.2 dst id ty dn name data tag hmem
  refine ⟨id, ty, dn, name, data, tag, hmem, hgood.1, hgood.2.1, (tunnelTypes_iff ty).2 hgood.2.2, ?_⟩
  obtain ⟨td', pkt, hwd, _, m, hm, e1, e2, e3, e4, e5, e6, _⟩ :=
    BytesL.writeDns_echo td0 htd0 id ty name data dn hgood.1 hgood.2.2 hgood.2.1 d1
      (by rcases d2 with d2 | d2; omega; rw [d2]; decide) d3
  rw [hwd] at hw
  cases hw
  exact ⟨m, hm, e1, e2, e3, e4, e5, e6⟩

/-- **session_nsa_wellformed_plain** (NS and A responses, the property's own hypotheses).  Every datagram `nsa dst bytes` sent by
`handle_ns_request` / `handle_a_request` answers the query `q` decoded from THIS iteration's datagram — whose name is legal and has
exactly the question labels on the wire — and is a well-formed response echoing `q`'s id, name and type with exactly one answer
record for that name, type and class IN. -/
theorem session_nsa_wellformed_plain (cfg : Config) (hc : ConfigOk cfg) (b : BSrv) (hr : PlainReachable cfg b)
    (inp : BInput) (now' : Nat) (hb : ByteDgram inp) (hp : PlainDgram inp) (dst : Addr) (bytes : List Nat)
    (hnsa : BEvent.nsa dst bytes ∈ (biteration b inp now').2.1) :
    ∃ q, toInput b.srv inp = .q q ∧ Event.nsa dst ∈ out b.srv ⟨toInput b.srv inp, now'⟩ ∧
      q.id < 65536 ∧ LegalName q.name ∧
      (∀ src dg, inp = .dgram src dg → labels q.name = questionLabels dg) ∧
      ∃ m, parseMsg bytes = some m ∧ m.id = q.id ∧ m.flags = 0x8400 ∧ m.qd = [(labels q.name, q.type, 1)] ∧
        m.an.length = 1 ∧ (∀ r ∈ m.an, r.owner = labels q.name ∧ r.type = q.type ∧ r.cls = 1) ∧ m.ns = [] := by
  have hinv := plainReachable_inv hc hr
  obtain ⟨pr, hpr, hbm⟩ := BytesL.mem_encodeEvents hnsa
  obtain ⟨hmem, _, hns, _⟩ := (BytesL.encodeEventsL_spec _ _ _ _ hinv.base.td).2 pr hpr
  obtain ⟨q, hq, hev, hbytes⟩ := hns dst bytes hbm
  rw [hev] at hmem
  have hin : toInput b.srv inp = .q q := by
    cases hti : toInput b.srv inp <;> rw [hti] at hq <;> simp [queryOf] at hq
    rw [hq]
  obtain ⟨_, hid, _, _⟩ := BytesL.toInput_q hin
  -- `nsaBytes` answers only names inside the tunnel domain
  have hmatch : Common.queryDatalen q.name b.srv.cfg.topdomain ≠ none := by
    intro hn
    unfold nsaBytes at hbytes
    rw [hn] at hbytes
    cases hbytes
  have hleg : LegalName q.name ∧ ∀ src dg, inp = .dgram src dg → labels q.name = questionLabels dg := by
    cases inp with
    | dgram src dg =>
      have := plain_labels_tunnel_legal dg hb hp b.srv src q hin _ hinv.cfg.2 hmatch
      exact ⟨this.1, fun src' dg' he => by cases he; exact this.2⟩
    | tun f => cases hin
    | bind d => cases hin
    | tick => cases hin
  refine ⟨q, hin, hmem, hid, hleg.1, hleg.2, ?_⟩
  exact BytesL.nsaBytes_echo_of b.srv.cfg q bytes hid hleg.1
    (fun dlen hd => by have := BytesL.matched_top_le hleg.1 hinv.cfg.2 hd; omega) hbytes

/-- **session_fwd_wellformed** (`forward_query`: queries outside the tunnel domain relayed to the local DNS port, `iodined -b`).
In ANY state of the server process, for an input made of octets whose question labels are plain: every datagram `fwd dst bytes`
the iteration sends on the forward socket is built from the query `q` that `read_dns` decoded from THIS iteration's datagram, and is
a well-formed QUERY (strict parser): flags RD only, exactly one question, no answer / authority records, one additional record —
the EDNS0 OPT (UDP size 4096, DO) — with
  * id = `q.id`, the 16-bit id of the received query: `forward_query` stores `(q->from, q->id)` with `fw_query_put` and re-encodes
    the query under the SAME id (Props/C20.lean `fw_query_relayed`); the reply bearing that id is relayed to that asker
    (`fw_reply_routed`, `fw_reply_only_to_recent_asker`);
  * type = `q.type`, class IN;
  * question name = the LABEL SEQUENCE of `q.name` (`labelSeq`: the name modulo one trailing dot, which `putname` drops) — a
    non-empty prefix of the question labels of the received datagram, and all of them unless `readname` cut the walk short
    (`plain_labels_decode_legal`: exactly when `q.name` ends in '.').
No reachability hypothesis and no `ConfigOk` is needed. -/
theorem session_fwd_wellformed (b : BSrv) (inp : BInput) (now' : Nat) (hb : ByteDgram inp) (hp : PlainDgram inp)
    (dst : Addr) (bytes : List Nat) (hf : BEvent.fwd dst bytes ∈ (biteration b inp now').2.1) :
    ∃ q src dg, inp = .dgram src dg ∧ toInput b.srv inp = .q q ∧ Event.fwd dst ∈ out b.srv ⟨toInput b.srv inp, now'⟩ ∧
      q.id < 65536 ∧ q.type < 65536 ∧ q.from_ = src ∧
      labelSeq q.name ≠ [] ∧ labelSeq q.name <+: questionLabels dg ∧
      (LegalName q.name → labelSeq q.name = questionLabels dg) ∧
      WellFormedQueryOf q.id q.type (labelSeq q.name) bytes := by
  obtain ⟨pr, hpr, hbm⟩ := BytesL.mem_encodeEvents hf
  -- the structure of `encodeEventsL` does not depend on the counters being in range for `fwd` events
  have key : ∀ (evs : List Event) (td : WriteDns.Td), ∀ pr ∈ (encodeEventsL b.srv.cfg (queryOf (toInput b.srv inp)) td evs).2,
      BEvent.fwd dst bytes ∈ pr.2 → pr.1 ∈ evs ∧
        ∃ q, queryOf (toInput b.srv inp) = some q ∧ pr.1 = Event.fwd dst ∧ fwdBytes q = some bytes := by
    intro evs
    induction evs with
    | nil => intro td pr hpr; simp [encodeEventsL] at hpr
    | cons e rest ih =>
      intro td pr hpr hb
      simp only [encodeEventsL, List.mem_cons] at hpr
      rcases hpr with rfl | hpr
      · refine ⟨List.mem_cons_self, ?_⟩
        cases e with
        | fwd d =>
          simp only [encodeEvent] at hb
          split at hb
          · rename_i x hx
            simp only [List.mem_singleton, BEvent.fwd.injEq] at hb
            obtain ⟨rfl, rfl⟩ := hb
            cases hq : queryOf (toInput b.srv inp) with
            | none => rw [hq] at hx; simp at hx
            | some q => rw [hq] at hx; exact ⟨q, rfl, rfl, by simpa using hx⟩
          · cases hb
        | ans dst' id ty dn name data tag => simp only [encodeEvent] at hb; split at hb <;> simp at hb
        | nsa d => simp only [encodeEvent] at hb; split at hb <;> simp at hb
        | _ => simp [encodeEvent] at hb
      · obtain ⟨h1, h2⟩ := ih _ pr hpr hb
        exact ⟨List.mem_cons_of_mem _ h1, h2⟩
  obtain ⟨hmem, q, hq, hev, hbytes⟩ := key _ _ pr hpr hbm
  rw [hev] at hmem
  have hin : toInput b.srv inp = .q q := by
    cases hti : toInput b.srv inp <;> rw [hti] at hq <;> simp [queryOf] at hq
    rw [hq]
  obtain ⟨_, hid, hty, _⟩ := BytesL.toInput_q hin
  cases inp with
  | dgram src dg =>
    obtain ⟨ls, hpre, hw, hfull⟩ := BytesL.decodeInput_q_plain hin hb ((labelsPlain_iff dg).1 hp)
    obtain ⟨_, _, _, hfrom, _⟩ := BytesL.decodeInput_q (s := b.srv) hin
    have hdec := plain_labels_decode_legal dg hb hp b.srv src q hin
    obtain ⟨bytes', hb', hparse⟩ := BytesL.fwdBytes_wellformed q ls hid hty hw
    rw [hbytes] at hb'
    cases hb'
    have hseq : labelSeq q.name = ls := hw.labelSeq
    refine ⟨q, src, dg, rfl, hin, hmem, hid, hty, hfrom, hdec.2.1, hdec.2.2, ?_, ?_⟩
    · intro hleg
      rw [hseq, hfull hleg]
      exact (nameLabels_eq _ _ _).symm
    · unfold WellFormedQueryOf
      rw [hseq]
      exact hparse
  | tun f => cases hin
  | bind d => cases hin
  | tick => cases hin

/-! ### Whole runs: the answer carries the question that stood on the wire -/

theorem plainReachable_brun (cfg : Config) : ∀ (l : List (BInput × Nat)) (b : BSrv), PlainReachable cfg b →
    (∀ p ∈ l, ByteDgram p.1 ∧ PlainDgram p.1) → PlainReachable cfg (brun b l)
  | [], _, h, _ => h
  | (i, n) :: rest, b, h, hall => by
    have hi := hall (i, n) List.mem_cons_self
    exact plainReachable_brun cfg rest _ (.step i n h hi.1 hi.2) (fun p hp => hall p (List.mem_cons_of_mem _ hp))

/-- **session_tx_echoes_wire_question** (C10 end to end, over whole runs, only wire-level hypotheses).  Let the configuration pass
`main()`'s checks and let the server process run from start-up through ANY inputs `l` and one more input `inp`, all made of octets,
the question labels of every datagram free of '.' and NUL.  Every datagram `tx dst bytes` the last iteration sends through
`write_dns` is a well-formed response (strict parser, QR|AA, ≥ 1 answer record, all owned by the question name, class IN) to a question
`(id, name, type)` with a legal `name`, AND a datagram with exactly that id and type whose question labels ON THE WIRE are exactly
`labels name` was received from `dst` in this iteration or an earlier one of the run. -/
theorem session_tx_echoes_wire_question (cfg : Config) (hc : ConfigOk cfg) (rnd : List Nat) (l : List (BInput × Nat))
    (inp : BInput) (now' : Nat) (hall : ∀ p ∈ l ++ [(inp, now')], ByteDgram p.1 ∧ PlainDgram p.1)
    (dst : Addr) (bytes : List Nat)
    (htx : BEvent.tx dst bytes ∈ (biteration (brun (bstart cfg rnd) l) inp now').2.1) :
    ∃ id ty name, id < 65536 ∧ ty ∈ TunnelTypes ∧ LegalName name ∧ WellFormedAnswerTo id ty name bytes ∧
      ∃ (rx : List Nat) (n : Nat) (b' : BSrv) (q : Query),
        (BInput.dgram dst rx, n) ∈ l ++ [(inp, now')] ∧ decodeInput b'.srv dst rx = .q q ∧
        q.id = id ∧ q.type = ty ∧ q.name = name ∧ questionLabels rx = labels name := by
  have hl : ∀ p ∈ l, ByteDgram p.1 ∧ PlainDgram p.1 := fun p hp => hall p (List.mem_append_left _ hp)
  have hi := hall (inp, now') (List.mem_append_right _ (List.mem_singleton.2 rfl))
  have hr := plainReachable_brun cfg l _ (.init rnd) hl
  obtain ⟨id, ty, dn, name, data, tag, he, h1, h2, h3, h4⟩ :=
    session_datagrams_wellformed_plain cfg hc _ hr inp now' hi.1 hi.2 dst bytes htx
  obtain ⟨src, rx, n, b', q, hmem, hdec, hfrom, hid, hname, hty⟩ :=
    session_answer_echoes_received_query cfg rnd l inp now' dst id ty dn name data tag he
  have hsrc : src = dst := by
    obtain ⟨_, _, _, hf, _⟩ := BytesL.decodeInput_q (s := b'.srv) hdec
    rw [← hf, hfrom]
  subst hsrc
  have hrx := hall _ hmem
  rcases (plain_labels_decode_legal rx hrx.1 hrx.2 b'.srv src q hdec).1 with ⟨_, hlab⟩ | ⟨m, hm, _⟩
  · exact ⟨id, ty, name, h1, h3, h2, h4, rx, n, b', q, hmem, hdec, hid, hty, hname, by rw [← hname, hlab]⟩
  · exfalso
    rw [hname] at hm
    exact BytesL.not_legal_trailing_dot (hm ▸ h2)

/-! ### Non-vacuity -/

/-- the example datagrams of Props/C10Session.lean satisfy the wire-level hypothesis; their question labels -/
example : PlainDgram (.dgram exSrc exDgramV) ∧ PlainDgram (.dgram exSrc exDgramNs) ∧
    questionLabels exDgramV = [[118, 97, 97, 97, 97, 97, 97, 97, 97], [116], [99, 111]] ∧
    questionLabels exDgramNs = [[120], [116], [99, 111]] := by decide +kernel

/-- the datagram of Props/C10Session.lean whose first label is "z." does NOT: this is what the quantifier excludes -/
example : ¬ LabelsPlain exDgramBad ∧ questionLabels exDgramBad = [[122, 46], [116], [99, 111]] := by decide +kernel

/-- a name that uses a compression pointer: "x" then a pointer to offset 20 where "t.co" stands (behind the question) -/
def exDgramPtr : List Nat := [0, 7, 1, 0, 0, 1, 0, 0, 0, 0, 0, 0, 1, 120, 0xc0, 20, 0, 2, 0, 1, 1, 116, 2, 99, 111, 0]

example : LabelsPlain exDgramPtr ∧ questionLabels exDgramPtr = [[120], [116], [99, 111]] ∧
    (dnsDecodeQuery { pkt := exDgramPtr.toArray, res := #[], cap := 65536 }).map (·.name) = .ok [120, 46, 116, 46, 99, 111] := by
  decide +kernel

/-- the theorems applied to the examples (hypotheses satisfiable, a `tx` / an `nsa` really occurs: `exTxOk`, `exNsaOk`) -/
example (dst : Addr) (bytes : List Nat)
    (h : BEvent.tx dst bytes ∈ (biteration (bstart exCfgS []) (.dgram exSrc exDgramV) 1000).2.1) :=
  session_datagrams_wellformed_plain exCfgS (by decide +kernel) _ (.init []) (.dgram exSrc exDgramV) 1000 (by decide +kernel)
    (by decide +kernel) dst bytes h

example (dst : Addr) (bytes : List Nat)
    (h : BEvent.nsa dst bytes ∈ (biteration (bstart exCfgS []) (.dgram exSrc exDgramNs) 1000).2.1) :=
  session_nsa_wellformed_plain exCfgS (by decide +kernel) _ (.init []) (.dgram exSrc exDgramNs) 1000 (by decide +kernel)
    (by decide +kernel) dst bytes h

example (dst : Addr) (bytes : List Nat)
    (h : BEvent.tx dst bytes ∈ (biteration (brun (bstart exCfgS []) []) (.dgram exSrc exDgramV) 1000).2.1) :=
  session_tx_echoes_wire_question exCfgS (by decide +kernel) [] [] (.dgram exSrc exDgramV) 1000 (by decide +kernel) dst bytes h

/-- a reachable state after two iterations -/
example : PlainReachable exCfgS (brun (bstart exCfgS []) [(.dgram exSrc exDgramV, 1000), (.dgram exSrc exDgramNs, 1001)]) :=
  plainReachable_brun exCfgS _ _ (.init []) (by decide +kernel)

/-! ### The trailing dot: what the lenient decoder hands on, and what happens to it -/

/-- the configuration of Props/C10Session.lean with forwarding switched on (`iodined -b 5353`) -/
def exCfgFwd : Config := { exCfgS with bindPort := 5353 }

/-- "x.t.co" followed by a byte of a reserved label type (0x40) instead of the root byte; `readname` stops there (and skips one
more byte), type NULL, class IN follow.  All labels are plain. -/
def exDgramDot : List Nat :=
  [0x12, 0x34, 1, 0, 0, 1, 0, 0, 0, 0, 0, 0, 1, 120, 1, 116, 2, 99, 111, 0x40, 0xff, 0, 10, 0, 1]

/-- what the forwarding server sends for it: one `fwd` to 127.0.0.1:5353 whose question is "x.t.co", type NULL, same id -/
def exDotFwdOk : Bool :=
  match (biteration (bstart exCfgFwd []) (.dgram exSrc exDgramDot) 1000).2.1 with
  | [.fwd dst bytes] => decide (dst = ⟨4, 0x7f000001, 5353⟩) &&
      (parseMsg bytes == some ⟨0x1234, 0x0100, [([[120], [116], [99, 111]], 10, 1)], [], [], [optRR]⟩)
  | _ => false

/-- **The trailing dot.**  The datagram has plain labels and is handed on with the name "x.t.co." — NOT a legal name (`LegalDgram`
of Props/C10Session.lean fails, `PlainDgram` holds).  Although "x.t.co" lies in the tunnel domain "t.co", the name with the dot does
not: the server without forwarding sends NOTHING; the server with forwarding relays it as a well-formed query for "x.t.co". -/
example : ByteDgram (.dgram exSrc exDgramDot) ∧ PlainDgram (.dgram exSrc exDgramDot) ∧ ¬ LegalDgram (.dgram exSrc exDgramDot) ∧
    questionLabels exDgramDot = [[120], [116], [99, 111]] ∧
    (dnsDecodeQuery { pkt := exDgramDot.toArray, res := #[], cap := 65536 }).map (·.name) = .ok [120, 46, 116, 46, 99, 111, 46] ∧
    labelSeq [120, 46, 116, 46, 99, 111, 46] = [[120], [116], [99, 111]] ∧
    (biteration (bstart exCfgS []) (.dgram exSrc exDgramDot) 1000).2.1 = [] ∧
    exDotFwdOk = true := by
  decide +kernel

/-- `session_fwd_wellformed` applied to it -/
example (dst : Addr) (bytes : List Nat)
    (h : BEvent.fwd dst bytes ∈ (biteration (bstart exCfgFwd []) (.dgram exSrc exDgramDot) 1000).2.1) :=
  session_fwd_wellformed _ (.dgram exSrc exDgramDot) 1000 (by decide +kernel) (by decide +kernel) dst bytes h

/-- the other ways to a trailing dot: a pointer to a zero byte ("x" + pointer to offset 3, a zero of the header) … -/
def exDgramPtrZero : List Nat := [0x12, 0x34, 1, 0, 0, 1, 0, 0, 0, 0, 0, 0, 1, 120, 0xc0, 3, 0, 10, 0, 1]

example : LabelsPlain exDgramPtrZero ∧ questionLabels exDgramPtrZero = [[120]] ∧
    (dnsDecodeQuery { pkt := exDgramPtrZero.toArray, res := #[], cap := 65536 }).map (fun d => (d.rv, d.name)) = .ok (2, [120, 46]) := by
  decide +kernel

/-- … and a name that goes on after 253 characters: four labels of 63, 63, 63, 60 bytes, then "t.co".  `readname` stops with 252
characters and the dot; the name handed on is those four labels and a dot, the labels on the wire are six: the label sequence the
server works with (and forwards) is a PROPER PREFIX of the question labels.  (258 bytes on the wire — no valid DNS name; type and
class are read from the bytes of the fifth label.)  This is why the theorems say "prefix" for names ending in '.'. -/
def exDgramCut : List Nat :=
  [0x12, 0x34, 1, 0, 0, 1, 0, 0, 0, 0, 0, 0] ++ (63 :: List.replicate 63 97) ++ (63 :: List.replicate 63 98) ++
    (63 :: List.replicate 63 99) ++ (60 :: List.replicate 60 100) ++ [1, 116, 2, 99, 111, 0] ++ [0, 10, 0, 1]

example : ByteDgram (.dgram exSrc exDgramCut) ∧ LabelsPlain exDgramCut ∧
    questionLabels exDgramCut =
      [List.replicate 63 97, List.replicate 63 98, List.replicate 63 99, List.replicate 60 100, [116], [99, 111]] ∧
    (dnsDecodeQuery { pkt := exDgramCut.toArray, res := #[], cap := 65536 }).map (fun d => (d.rv, d.name, d.type)) =
      .ok (253, List.replicate 63 97 ++ [46] ++ List.replicate 63 98 ++ [46] ++ List.replicate 63 99 ++ [46] ++
             List.replicate 60 100 ++ [46], 116 * 256 + 2) ∧
    (biteration (bstart exCfgS []) (.dgram exSrc exDgramCut) 1000).2.1 = [] := by
  decide +kernel

end Iodine.C10
