import IodineModel.Server.Run
import IodineModel.Lemmas.SrvC14d
import IodineModel.Lemmas.SrvC14f
import IodineModel.Lemmas.SrvC14g
/-
C14 — The server never sends unsolicited or surplus DNS answers.

"Every DNS answer the server emits corresponds to a distinct query datagram it received earlier from that address
with that id and question and had not yet answered: at most one answer per received query (a remembered duplicate
counts as its own query; queries with DNS id 0 are ignored by design).  In lazy mode it holds back at most two
queries per session at any time, answering the older one when a newer one arrives."

The specification side is a MONITOR over the trace of a run (inputs and output events only): it keeps the multiset
of keys `(from, id, name, type)` of the received query datagrams that have not been answered yet; every answer must
find and remove one equal key.  The monitor accepting a trace is exactly the existence of an injection from the
emitted answers into the earlier received query datagrams with the same address, id, name and type.
-/
namespace Iodine.C14
open Iodine Iodine.Server

/-! ### Specification vocabulary -/

/-- what identifies a query datagram for the asker: source address, DNS id, question name, question type -/
abbrev Key := Addr × Nat × List Nat × Nat

def queryKey (q : Query) : Key := (q.from_, q.id, q.name, q.type)

/-- the query datagram `read_dns` decoded in this iteration, if any -/
def arriving : Input → Option Query
  | .q q => some q
  | _ => none

/-- the keys an input adds to the pending multiset -/
def received (inp : Input) : List Key :=
  match arriving inp with
  | some q => [queryKey q]
  | none => []

/-- is the event a DNS answer datagram?  (`raw`, `rly`, `fwd`, `tunw` and the markers are not) -/
def isAnswer : Event → Bool
  | .ans .. => true
  | .nsa _ => true
  | _ => false

/-- The key an answer event answers.  An `ans` event carries address, id, name and type.  An NS/A response `nsa dst`
is the answer to the query that arrived in this very iteration (its id and question), sent to `dst`; without an
arriving query it answers nothing (`none`). -/
def answerKey (arr : Option Query) : Event → Option Key
  | .ans dst id type _ name _ _ => some (dst, id, name, type)
  | .nsa dst => arr.map fun q => (dst, q.id, q.name, q.type)
  | _ => none

/-- find and remove ONE pending key equal to `k` -/
def consume (k : Key) (pending : List Key) : Option (List Key) :=
  if k ∈ pending then some (pending.erase k) else none

/-- one event: an answer must consume a pending key, other events are ignored -/
def onEvent (arr : Option Query) (pending : List Key) (e : Event) : Option (List Key) :=
  if isAnswer e then
    match answerKey arr e with
    | some k => consume k pending
    | none => none
  else some pending

def onEvents (arr : Option Query) : List Key → List Event → Option (List Key)
  | p, [] => some p
  | p, e :: es => (onEvent arr p e).bind fun p' => onEvents arr p' es

/-- one iteration: the arriving query (if any) becomes pending, then the events of the iteration are checked in order -/
def onStep (pending : List Key) (t : TraceStep) : Option (List Key) :=
  onEvents (arriving t.step.inp) (received t.step.inp ++ pending) t.events

/-- the monitor: `none` = violation, `some p` = accepted with `p` still unanswered -/
def monitor : List Key → List TraceStep → Option (List Key)
  | p, [] => some p
  | p, t :: ts => (onStep p t).bind fun p' => monitor p' ts

/-- the trace has no unsolicited and no surplus answer -/
def Accepts (tr : List TraceStep) : Prop := (monitor [] tr).isSome

instance : DecidablePred Accepts := fun tr => by unfold Accepts; infer_instance

/-- What `read_dns` guarantees about the queries it hands to `tunnel_dns`: `dns_decode` starts with `q->id2 = 0`
(the field belongs to the server's own bookkeeping of remembered duplicates, it is not part of a datagram). -/
def WfStep (st : Step) : Prop :=
  match st.inp with
  | .q q => q.id2 = 0
  | _ => True

/-- all keys answered in a trace / all keys received in a trace -/
def answered (tr : List TraceStep) : List Key :=
  tr.flatMap fun t => t.events.filterMap (answerKey (arriving t.step.inp))

def receivedAll (tr : List TraceStep) : List Key := tr.flatMap fun t => received t.step.inp

/-! ### Facts about the monitor alone -/

theorem count_consume {k : Key} {p p' : List Key} (h : consume k p = some p') (k' : Key) :
    p'.count k' + (if k = k' then 1 else 0) = p.count k' := by
  unfold consume at h
  split at h
  · rename_i hm
    injection h with h; subst h
    rw [List.count_erase]
    by_cases hk : k = k'
    · subst hk
      have := List.count_pos_iff.2 hm
      simp; omega
    · simp [hk]
  · cases h

theorem count_onEvents (arr : Option Query) : ∀ (evs : List Event) (p p' : List Key),
    onEvents arr p evs = some p' → ∀ k, (evs.filterMap (answerKey arr)).count k + p'.count k = p.count k
  | [], p, p', h, k => by simp only [onEvents] at h; injection h with h; subst h; simp
  | e :: es, p, p', h, k => by
    simp only [onEvents] at h
    cases h1 : onEvent arr p e with
    | none => rw [h1] at h; cases h
    | some p1 =>
      rw [h1] at h
      have ih := count_onEvents arr es p1 p' h k
      unfold onEvent at h1
      split at h1
      · split at h1
        · rename_i k0 hk0
          have := count_consume h1 k
          simp only [List.filterMap_cons, hk0, List.count_cons, beq_iff_eq]
          omega
        · cases h1
      · rename_i hna
        injection h1 with h1; subst h1
        have : answerKey arr e = none := by
          cases e <;> simp_all [isAnswer, answerKey]
        simp only [List.filterMap_cons, this]
        exact ih

/-- What acceptance means in numbers: along an accepted trace, for every key, answers + still pending = received
(+ initially pending). -/
theorem count_monitor : ∀ (tr : List TraceStep) (p p' : List Key), monitor p tr = some p' →
    ∀ k, (answered tr).count k + p'.count k = p.count k + (receivedAll tr).count k
  | [], p, p', h, k => by simp only [monitor] at h; injection h with h; subst h; simp [answered, receivedAll]
  | t :: ts, p, p', h, k => by
    simp only [monitor] at h
    cases h1 : onStep p t with
    | none => rw [h1] at h; cases h
    | some p1 =>
      rw [h1] at h
      have ih := count_monitor ts p1 p' h k
      have := count_onEvents _ _ _ _ h1 k
      simp only [answered, receivedAll, List.flatMap_cons, List.count_append] at *
      omega

/-- the monitor accepts a list of events whose answer keys (all of them identifiable) fit into the pending multiset -/
theorem onEvents_accepts (arr : Option Query) : ∀ (evs : List Event) (B P : List Key),
    (∀ e ∈ evs, isAnswer e = true → (answerKey arr e).isSome) →
    (∀ k, (evs.filterMap (answerKey arr) ++ B).count k ≤ P.count k) →
    ∃ P', onEvents arr P evs = some P' ∧ ∀ k, B.count k ≤ P'.count k
  | [], B, P, _, hle => ⟨P, rfl, by simpa using hle⟩
  | e :: es, B, P, hok, hle => by
    simp only [onEvents]
    unfold onEvent
    by_cases ha : isAnswer e = true
    · have hs := hok e (List.mem_cons_self) ha
      obtain ⟨k0, hk0⟩ := Option.isSome_iff_exists.1 hs
      have hmem : k0 ∈ P := by
        apply List.count_pos_iff.1
        have := hle k0
        simp only [List.filterMap_cons, hk0, List.count_append, List.count_cons_self] at this
        omega
      simp only [ha, if_true, hk0, consume, hmem, Option.bind_some]
      apply onEvents_accepts arr es B (P.erase k0) (fun e he => hok e (List.mem_cons_of_mem _ he))
      intro k
      have := hle k
      rw [List.count_erase]
      simp only [List.filterMap_cons, hk0, List.count_append, List.count_cons, beq_iff_eq] at this ⊢
      by_cases hk : k0 = k
      · simp only [hk, if_true] at this ⊢; omega
      · simp only [hk, if_false] at this ⊢; omega
    · have hn : answerKey arr e = none := by
        cases e <;> simp_all [isAnswer, answerKey]
      simp only [ha]
      apply onEvents_accepts arr es B P (fun e he => hok e (List.mem_cons_of_mem _ he))
      intro k
      have := hle k
      simpa only [List.filterMap_cons, hn] using this

/-! ### Link between the monitor's vocabulary and the lemma files -/

theorem filterMap_answerKey_some (q : Query) (evs : List Event) :
    evs.filterMap (answerKey (some q)) = C14L.keysOf q evs := by
  induction evs with
  | nil => rfl
  | cons e es ih =>
    rw [C14L.keysOf_cons, ← ih]
    cases e <;> rfl

theorem filterMap_answerKey_none (arr : Query) (evs : List Event) (h : ∀ d, Event.nsa d ∉ evs) :
    evs.filterMap (answerKey none) = C14L.keysOf arr evs := by
  induction evs with
  | nil => rfl
  | cons e es ih =>
    rw [C14L.keysOf_cons, ← ih (fun d hd => h d (List.mem_cons_of_mem _ hd))]
    cases e
    case nsa d => exact absurd List.mem_cons_self (h d)
    all_goals rfl

/-- one iteration: if the held queries are among the pending ones before, the monitor accepts the iteration's
events and the held queries are among the pending ones afterwards -/
theorem onStep_accepts (s : Srv) (st : Step) (hwf : WfStep st) (p : List Key)
    (hp : ∀ k, (C14L.held s).count k ≤ p.count k) :
    ∃ p', onStep p ⟨st, s, out s st, next s st⟩ = some p' ∧ ∀ k, (C14L.held (next s st)).count k ≤ p'.count k := by
  obtain ⟨inp, now'⟩ := st
  unfold onStep
  by_cases hq : ∃ q, inp = .q q
  · obtain ⟨q, rfl⟩ := hq
    have h := C14L.iteration_q_le s q now' hwf
    apply onEvents_accepts
    · intro e _ ha
      cases e <;> simp_all [isAnswer, answerKey, arriving]
    · intro k
      have a := h k; have b := hp k
      simp only [arriving, received, filterMap_answerKey_some, List.count_append, queryKey, C14L.keyOf] at *
      omega
  · have hq' : ∀ q, inp ≠ .q q := fun q h => hq ⟨q, h⟩
    have h := fun arr => C14L.iteration_other_le arr s inp now' hq'
    have hn := C14L.no_nsa_of_forall_le _ _ _ h
    have harr : arriving inp = none := by
      cases inp <;> simp_all [arriving]
    apply onEvents_accepts
    · intro e he ha
      cases e <;> simp_all [isAnswer, answerKey]
    · intro k
      have a := h Query.zero k; have b := hp k
      simp only [harr, received, filterMap_answerKey_none Query.zero _ hn, List.count_append, List.nil_append] at *
      omega

theorem monitor_accepts : ∀ (steps : List Step) (s : Srv) (p : List Key), (∀ st ∈ steps, WfStep st) →
    (∀ k, (C14L.held s).count k ≤ p.count k) →
    ∃ p', monitor p (traceFrom s steps) = some p' ∧ ∀ k, (C14L.held (runFrom s steps)).count k ≤ p'.count k
  | [], s, p, _, hp => ⟨p, rfl, hp⟩
  | st :: rest, s, p, hwf, hp => by
    obtain ⟨p1, h1, hp1⟩ := onStep_accepts s st (hwf st List.mem_cons_self) p hp
    obtain ⟨p2, h2, hp2⟩ := monitor_accepts rest (next s st) p1 (fun st' h => hwf st' (List.mem_cons_of_mem _ h)) hp1
    exact ⟨p2, by simp only [traceFrom, monitor, h1, Option.bind_some, h2], hp2⟩

/-! ### (A) The property -/

theorem wf_id2 {st : Step} (hwf : WfStep st) : ∀ q, st.inp = .q q → q.id2 = 0 := by
  intro q hq
  unfold WfStep at hwf
  rw [hq] at hwf
  exact hwf


/-- **C14 (A).**  In every run of the server from start-up — any configuration, any `rand()` values, any interleaving
of queries (of every type, in lazy and immediate mode), duplicates, raw datagrams, tun packets, forwarded replies and
timer expiries, any clock — the monitor accepts: every emitted DNS answer consumes a distinct, earlier received and
not yet answered query datagram with the same address, id, name and type.  (`Monotone` is not even needed.) -/
theorem answers_injective_into_queries (cfg : Config) (rnd : List Nat) (steps : List Step)
    (_hm : Monotone (start cfg rnd) steps) (hwf : ∀ st ∈ steps, WfStep st) :
    Accepts (traceFrom (start cfg rnd) steps) := by
  obtain ⟨p', h, _⟩ := monitor_accepts steps (start cfg rnd) [] hwf (by simp [C14L.held_start])
  unfold Accepts
  rw [h]; rfl

/-- **C14 (A), corollary.**  In any run, for every key, the number of answers never exceeds the number of received
query datagrams with that key (runs are prefix-closed, so this holds at every moment of a run). -/
theorem one_answer_per_query_datagram (cfg : Config) (rnd : List Nat) (steps : List Step)
    (hm : Monotone (start cfg rnd) steps) (hwf : ∀ st ∈ steps, WfStep st) (k : Key) :
    (answered (traceFrom (start cfg rnd) steps)).count k ≤ (receivedAll (traceFrom (start cfg rnd) steps)).count k := by
  have h := answers_injective_into_queries cfg rnd steps hm hwf
  unfold Accepts at h
  obtain ⟨p', hp'⟩ := Option.isSome_iff_exists.1 h
  have := count_monitor _ _ _ hp' k
  simp at this
  omega

/-- **C14 (A), NS / A responses.**  The monitor reads an `nsa dst` event as the answer to "the arriving query's id and
question, from address `dst`".  In the model this is always literally the arriving query: an NS / A response is only
emitted in an iteration in which a query arrived, and it goes to the sender of that query. -/
theorem nsa_answers_the_arriving_query (s : Srv) (st : Step) (hwf : WfStep st) (dst : Addr)
    (h : Event.nsa dst ∈ out s st) :
    ∃ q, arriving st.inp = some q ∧ answerKey (arriving st.inp) (Event.nsa dst) = some (queryKey q) := by
  obtain ⟨inp, now'⟩ := st
  obtain ⟨q, rfl, rfl⟩ := C14L.nsa_dst s inp now' (wf_id2 hwf) dst h
  exact ⟨q, rfl, rfl⟩

/-! ### Non-vacuity: concrete runs -/

instance decMonotone : (s : Srv) → (steps : List Step) → Decidable (Monotone s steps)
  | _, [] => isTrue trivial
  | s, st :: rest => @instDecidableAnd _ _ _ (decMonotone (next s st) rest)

instance : DecidablePred WfStep := fun st => by
  unfold WfStep; cases st.inp <;> infer_instance

def exTd : List Nat := ascii "t.co"
def exCfg : Config :=
  { checkIp := true, password := (ascii "secret" ++ List.replicate 32 0).take 32, myIp := 0x0a000001, netmask := 27,
    topdomain := exTd, mtu := 1130, nsIp := 0, bindPort := 0, dest4 := 0x0a090909, dest6 := 0, createdUsers := 0 }
def exCli : Addr := ⟨4, 0xc0a80105, 40000⟩
def exB32 (d : List Nat) : List Nat := Codec.encFull Codec.b32 d
/-- a NULL-type (or `type`) query for `<name>.t.co` from the client -/
def exQ (id type : Nat) (name : List Nat) : Query :=
  { name := name ++ [46] ++ exTd, type := type, id := id, from_ := exCli, id2 := 0, from2 := Addr.zero,
    dest := ⟨4, 0x0a090909, 0⟩ }
/-- version handshake, login with the right hash for seed 12345, "lazy mode" option for user 0, ping with CMC `c` -/
def exV := exQ 101 10 (ascii "v" ++ exB32 [0, 0, 5, 2, 7, 7])
def exL := exQ 102 10 (ascii "l" ++ exB32 ([0] ++ Login.loginCalcC exCfg.password 12345 ++ [1, 2]))
def exO := exQ 103 10 (ascii "oal")
def exP (id c : Nat) := exQ id 10 (ascii "p" ++ exB32 [0, 0, c, c])
/-- an IP packet for 10.0.0.2 (the tunnel address of user 0) read from the tun device -/
def exFrame : List Nat := [0, 0, 8, 0] ++ List.replicate 16 0 ++ [10, 0, 0, 2] ++ [1, 2, 3, 4, 5, 6, 7, 8]

/-- handshake, lazy mode, a ping that is held back (104), a newer ping (105) that releases it, a duplicate (106) of
the held ping, a third ping (107) that releases 105 AND its remembered duplicate 106, a tun packet that releases 107,
a timeout, an NS query -/
def exSteps : List Step :=
  [⟨.q exV, 1000⟩, ⟨.q exL, 1000⟩, ⟨.q exO, 1000⟩, ⟨.q (exP 104 1), 1001⟩, ⟨.q (exP 105 2), 1001⟩,
   ⟨.q (exP 106 2), 1002⟩, ⟨.q (exP 107 3), 1002⟩, ⟨.tun exFrame, 1003⟩, ⟨.tick, 1004⟩,
   ⟨.q (exQ 108 2 (ascii "ns")), 1004⟩]

def exTrace : List TraceStep := traceFrom (start exCfg [12345]) exSteps

example : Monotone (start exCfg [12345]) exSteps ∧ (∀ st ∈ exSteps, WfStep st) := by decide +kernel

/-- the ids answered in each iteration, and the monitor's verdict (accepted, nothing left pending) -/
example : exTrace.map (fun t => (answered [t]).map (·.2.1)) = [[101], [102], [103], [], [104], [], [105, 106], [107], [], [108]]
    ∧ monitor [] exTrace = some [] := by decide +kernel

/-- Why `WfStep` is needed: `Input.q` lets the environment hand in a `struct query` whose bookkeeping field `id2` is
already set (the real `dns_decode` zeroes it).  In immediate mode the ping is answered at once, and
`send_chunk_or_dataless` sends a second answer to the never-received `(from2, id2)`: the monitor rejects. -/
example : ¬ Accepts (traceFrom (start exCfg [12345])
    [⟨.q exV, 1000⟩, ⟨.q exL, 1000⟩, ⟨.q { exP 104 1 with id2 := 999, from2 := ⟨4, 0x01020304, 53⟩ }, 1001⟩]) := by
  decide +kernel


/-- the three header characters of a data query (upstream seqno / fragment, downstream ack, last-fragment flag) -/
def exHdr (upSeq upFrag dnSeq dnFrag last : Nat) : List Nat :=
  [Codec.lookup Codec.b32 ((upSeq <<< 2) ||| (upFrag >>> 2)), Codec.lookup Codec.b32 (((upFrag &&& 3) <<< 3) ||| dnSeq),
   Codec.lookup Codec.b32 ((dnFrag <<< 1) ||| last)]
/-- upstream data query of user 0: hex user id, header, one CMC character, base32 payload -/
def exD (id upSeq upFrag last c : Nat) (payload : List Nat) : Query :=
  exQ id 10 (ascii "0" ++ exHdr upSeq upFrag 0 0 last ++ [Codec.lookup Codec.b32 c] ++ exB32 payload)
/-- an IP packet for 10.0.0.9 (no tunnel user): it leaves through the tun device -/
def exUp : List Nat := List.replicate 16 0 ++ [10, 0, 0, 9] ++ [1, 2, 3, 4, 5, 6, 7, 8]

/-- handshake, lazy mode, a held ping (104), a first data fragment (105: releases 104, is held), the last data fragment
(106: the packet goes to the tun device, 105 is MOVED to `q_sendrealsoon`, 106 is held in `q`), a timeout whose sweep
answers 105 -/
def exSteps2 : List Step :=
  [⟨.q exV, 1000⟩, ⟨.q exL, 1000⟩, ⟨.q exO, 1000⟩, ⟨.q (exP 104 1), 1001⟩,
   ⟨.q (exD 105 1 0 0 1 [0x5a, 1, 2, 3]), 1001⟩, ⟨.q (exD 106 1 1 1 2 exUp), 1001⟩, ⟨.tick, 1002⟩]

example :
    let tr := traceFrom (start exCfg [12345]) exSteps2
    let s6 := runFrom (start exCfg [12345]) (exSteps2.take 6)
    tr.map (fun t => (answered [t]).map (·.2.1)) = [[101], [102], [103], [], [104], [], [105]] ∧
    monitor [] tr = some [queryKey (exD 106 1 1 1 2 exUp)] ∧
    (getUser s6 0).qs = exD 105 1 0 0 1 [0x5a, 1, 2, 3] ∧ (getUser s6 0).q = exD 106 1 1 1 2 exUp ∧
    out s6 ⟨.tick, 1002⟩ = [Event.sweep, Event.ans exCli 105 10 84 (exD 105 1 0 0 1 [0x5a, 1, 2, 3]).name [145, 0] (Tag.chunk 0)] := by
  decide +kernel

/-! ### (B) At most two queries per session are held back, (C) id 0 is never answered with tunnel data -/

/-- The keys a stored `struct query` stands for while it is held back: nothing once it is answered (`id = 0`),
otherwise the query itself and, if a duplicate of it was remembered (`id2 ≠ 0`), that duplicate. -/
def heldKeys (q : Query) : List Key :=
  if q.id = 0 then [] else if q.id2 = 0 then [queryKey q] else [queryKey q, (q.from2, q.id2, q.name, q.type)]

/-- the arriving query, as far as it can be held: a query with DNS id 0 never is -/
def arrivingHeldKeys (inp : Input) : List Key :=
  match arriving inp with
  | some q => if q.id = 0 then [] else [queryKey q]
  | none => []

/-- the event is an answer carrying tunnel data (or the data-less header) for session `u`, to key `k` -/
def IsDataAnswer (u : Nat) (k : Key) (e : Event) : Prop :=
  ∃ dn data tag, (tag = Tag.chunk u ∨ tag = Tag.dupe u) ∧ e = Event.ans k.1 k.2.1 k.2.2.2 dn k.2.2.1 data tag

theorem mem_ukeys {u : Nat} {k : Key} {e : Event} {evs : List Event} (he : e ∈ evs) (h : IsDataAnswer u k e) :
    k ∈ C14L.ukeys u evs := by
  obtain ⟨dn, data, tag, htag, rfl⟩ := h
  unfold C14L.ukeys
  refine List.mem_flatMap.2 ⟨_, he, ?_⟩
  simp [C14L.uKeys, htag]

theorem inArr_eq (inp : Input) : C14L.inArr inp = arrivingHeldKeys inp := by
  cases inp <;> rfl

theorem pairKeys_eq (s : Srv) (u : Nat) :
    C14L.pairKeys (C14L.QV s u) = heldKeys (getUser s u).q ++ heldKeys (getUser s u).qs := rfl

/-- all keys the server holds back in state `s`: for every slot, `q` and `q_sendrealsoon` with their remembered
duplicates -/
def allHeld (s : Srv) : List Key := s.users.flatMap fun x => heldKeys x.q ++ heldKeys x.qs

theorem allHeld_eq (s : Srv) : allHeld s = C14L.held s := by
  unfold allHeld C14L.held C14L.heldV C14L.qview
  rw [List.flatMap_map]
  rfl

/-- **C14 (A), the invariant behind it.**  After every run the monitor has accepted and every query the server still
holds back (as a multiset, remembered duplicates included) is a received, not yet answered query datagram: whatever
the server may still answer later is covered by a distinct pending query. -/
theorem held_queries_are_pending (cfg : Config) (rnd : List Nat) (steps : List Step)
    (hwf : ∀ st ∈ steps, WfStep st) :
    ∃ pending, monitor [] (traceFrom (start cfg rnd) steps) = some pending ∧
      ∀ k, (allHeld (runFrom (start cfg rnd) steps)).count k ≤ pending.count k := by
  obtain ⟨p', h, hp⟩ := monitor_accepts steps (start cfg rnd) [] hwf (by simp [C14L.held_start])
  exact ⟨p', h, fun k => by rw [allHeld_eq]; exact hp k⟩

/-- **C14 (B), answers.**  Whatever the state `s` (in particular every reachable one) and the step: every answer with
tunnel data for session `u` that the iteration emits goes to one of the (at most two) queries the session held back
before the iteration — `q`, `q_sendrealsoon`, or the remembered duplicate of one of them — or to the query that
arrived in this iteration.  Nothing else is ever answered with tunnel data. -/
theorem held_at_most_two (s : Srv) (st : Step) (hwf : WfStep st) (u : Nat) (k : Key) (e : Event)
    (he : e ∈ out s st) (h : IsDataAnswer u k e) :
    k ∈ heldKeys (getUser s u).q ∨ k ∈ heldKeys (getUser s u).qs ∨ k ∈ arrivingHeldKeys st.inp := by
  have hi := C14L.iteration_inc s st (wf_id2 hwf)
  rcases hi.ev u k (mem_ukeys he h) with h1 | h1
  · rw [pairKeys_eq] at h1
    rcases List.mem_append.1 h1 with h1 | h1
    · exact Or.inl h1
    · exact Or.inr (Or.inl h1)
  · rw [inArr_eq] at h1; exact Or.inr (Or.inr h1)

/-- **C14 (B), state.**  What a session holds back after an iteration (in its two slots) it held back before, or it is
the query that arrived in this iteration: queries are never invented, and a session never holds more than the two
slots `q` and `q_sendrealsoon` (each with at most one remembered duplicate). -/
theorem held_after_iteration (s : Srv) (st : Step) (hwf : WfStep st) (u : Nat) (k : Key)
    (h : k ∈ heldKeys (getUser (next s st) u).q ∨ k ∈ heldKeys (getUser (next s st) u).qs) :
    k ∈ heldKeys (getUser s u).q ∨ k ∈ heldKeys (getUser s u).qs ∨ k ∈ arrivingHeldKeys st.inp := by
  have hi := C14L.iteration_inc s st (wf_id2 hwf)
  have hk : k ∈ C14L.pairKeys (C14L.QV (next s st) u) := by
    rw [pairKeys_eq]
    rcases h with h | h
    · exact List.mem_append_left _ h
    · exact List.mem_append_right _ h
  rcases hi.st u k hk with h1 | h1
  · rw [pairKeys_eq] at h1
    rcases List.mem_append.1 h1 with h1 | h1
    · exact Or.inl h1
    · exact Or.inr (Or.inl h1)
  · rw [inArr_eq] at h1; exact Or.inr (Or.inr h1)

theorem heldKeys_id_ne (q : Query) (k : Key) (h : k ∈ heldKeys q) : k.2.1 ≠ 0 := by
  unfold heldKeys at h
  split at h
  · cases h
  · split at h
    · simp only [List.mem_singleton] at h; subst h; assumption
    · simp only [List.mem_cons, List.not_mem_nil, or_false] at h
      rcases h with rfl | rfl <;> assumption

/-- **C14 (C).**  No answer with tunnel data (first answer or the copy to the remembered duplicate) ever has DNS id 0:
a stored query with id 0 counts as answered, and an arriving ping / data query with id 0 is ignored. -/
theorem id0_never_answered_by_chunk (s : Srv) (st : Step) (hwf : WfStep st) (u : Nat) (k : Key) (e : Event)
    (he : e ∈ out s st) (h : IsDataAnswer u k e) : k.2.1 ≠ 0 := by
  rcases held_at_most_two s st hwf u k e he h with h1 | h1 | h1
  · exact heldKeys_id_ne _ k h1
  · exact heldKeys_id_ne _ k h1
  · unfold arrivingHeldKeys at h1
    split at h1
    · split at h1
      · cases h1
      · simp only [List.mem_singleton] at h1; subst h1; assumption
    · cases h1

/-- Non-vacuity of (B) and (C): the state of the example run before its 7th iteration holds ping 105 and its remembered
duplicate 106 in `q`; ping 107 arrives; the iteration emits the two tunnel-data answers (tags `chunk 0`, `dupe 0`) to
exactly these two keys. -/
example :
    let s := runFrom (start exCfg [12345]) (exSteps.take 6)
    heldKeys (getUser s 0).q = [queryKey (exP 105 2), queryKey (exP 106 2)] ∧ heldKeys (getUser s 0).qs = [] ∧
    (out s ⟨.q (exP 107 3), 1002⟩).filterMap (fun e => match e with
        | .ans dst id type _ name _ tag => some ((dst, id, name, type), tag) | _ => none)
      = [(queryKey (exP 105 2), Tag.chunk 0), (queryKey (exP 106 2), Tag.dupe 0)] ∧
    heldKeys (getUser (next s ⟨.q (exP 107 3), 1002⟩) 0).q = [queryKey (exP 107 3)] := by
  decide +kernel

/-! ### (B) The older query is answered when a newer one arrives, `q_sendrealsoon` first -/

/-- `e` is the (first) tunnel-data answer for session `u` to the stored query `q0` -/
def AnswersHeld (u : Nat) (q0 : Query) (e : Event) : Prop :=
  ∃ dn data, e = Event.ans q0.from_ q0.id q0.type dn q0.name data (Tag.chunk u)

theorem answersHeld_of_firstAns {u : Nat} {q0 : Query} {e : Event} (h : C14L.FirstAns u q0 e) : AnswersHeld u q0 e := by
  obtain ⟨pkt, dn, rfl⟩ := h
  exact ⟨dn, pkt, rfl⟩

/-- **C14 (B), ping.**  `pingFresh` is the part of the ping handler that stores the arriving query in `users[u].q`
(the only other writers of that slot are the version handshake and raw mode, which store an unanswerable query).
Its events split into three consecutive parts: in the first the held `q_sendrealsoon` (if any) is answered, in the
second the held `q` (if any) — so an older query never survives the arrival of a newer ping, and `q_sendrealsoon` goes
first —, the third belongs to the new query. -/
theorem older_answered_first_ping (s : Srv) (u : Nat) (q : Query) (unpacked : List Nat) :
    ∃ l1 l2 l3, (pingFresh s u q unpacked).2 = l1 ++ l2 ++ l3 ∧
      ((getUser s u).qs.id ≠ 0 → ∃ e ∈ l1, AnswersHeld u (getUser s u).qs e) ∧
      ((getUser s u).q.id ≠ 0 → ∃ e ∈ l2, AnswersHeld u (getUser s u).q e) := by
  by_cases hu : u < s.users.length
  · obtain ⟨l1, l2, l3, h, h1, h2⟩ := C14L.pingFresh_older s u q unpacked hu
    refine ⟨l1, l2, l3, h, ?_, ?_⟩
    · intro hne
      obtain ⟨e, rest, he, hfa⟩ := h1 hne
      exact ⟨e, by rw [he]; exact List.mem_cons_self, answersHeld_of_firstAns hfa⟩
    · intro hne
      obtain ⟨e, rest, he, hfa⟩ := h2 hne
      exact ⟨e, by rw [he]; exact List.mem_cons_self, answersHeld_of_firstAns hfa⟩
  · have hz := C14L.getUser_of_ge s u (Nat.le_of_not_lt hu)
    exact ⟨(pingFresh s u q unpacked).2, [], [], by simp, fun h => absurd (by rw [hz]; rfl) h,
      fun h => absurd (by rw [hz]; rfl) h⟩

/-- **C14 (B), data.**  `dataFresh` is the part of the data handler that stores the arriving query in `users[u].q`.
Its events split into three consecutive parts `lA`, `lB`, `lC`: the held `q_sendrealsoon` (if any) is answered in `lA`;
the held `q` (if any) is answered — in `lB`, i.e. after `q_sendrealsoon`, when both were held — or it is moved to
`q_sendrealsoon` (and is still there when the handler returns); `lC` belongs to the new query. -/
theorem older_answered_first_data (s : Srv) (u : Nat) (q : Query) (inb : List Nat) :
    ∃ lA lB lC, (dataFresh s u q inb).2 = lA ++ lB ++ lC ∧
      ((getUser s u).qs.id ≠ 0 → ∃ e ∈ lA, AnswersHeld u (getUser s u).qs e) ∧
      ((getUser s u).q.id ≠ 0 →
        (∃ e ∈ lA ++ lB, AnswersHeld u (getUser s u).q e) ∨ (getUser (dataFresh s u q inb).1 u).qs = (getUser s u).q) ∧
      ((getUser s u).q.id ≠ 0 → (getUser s u).qs.id ≠ 0 →
        (∃ e ∈ lB, AnswersHeld u (getUser s u).q e) ∨ (getUser (dataFresh s u q inb).1 u).qs = (getUser s u).q) := by
  by_cases hu : u < s.users.length
  · obtain ⟨lA, lB, lC, h, h1, h2, h3⟩ := C14L.dataFresh_older s u q inb hu
    refine ⟨lA, lB, lC, h, ?_, ?_, ?_⟩
    · intro hne
      obtain ⟨e, he, hfa⟩ := h1 hne
      exact ⟨e, he, answersHeld_of_firstAns hfa⟩
    · intro hne
      exact (h2 hne).imp (fun ⟨e, he, hfa⟩ => ⟨e, he, answersHeld_of_firstAns hfa⟩) id
    · intro hne hne'
      exact (h3 hne hne').imp (fun ⟨e, he, hfa⟩ => ⟨e, he, answersHeld_of_firstAns hfa⟩) id
  · have hz := C14L.getUser_of_ge s u (Nat.le_of_not_lt hu)
    exact ⟨(dataFresh s u q inb).2, [], [], by simp, fun h => absurd (by rw [hz]; rfl) h,
      fun h => absurd (by rw [hz]; rfl) h, fun h => absurd (by rw [hz]; rfl) h⟩

/-- Non-vacuity: in the example run, ping 105 arrives while ping 104 is held: the iteration answers 104 (first event). -/
example :
    let s := runFrom (start exCfg [12345]) (exSteps.take 4)
    (getUser s 0).q = exP 104 1 ∧
    ∃ dn data rest, out s ⟨.q (exP 105 2), 1001⟩
      = Event.ans (exP 104 1).from_ 104 (exP 104 1).type dn (exP 104 1).name data (Tag.chunk 0) :: rest := by
  refine ⟨by decide +kernel, 84, [128, 0], [Event.sweep], by decide +kernel⟩

end Iodine.C14
