import IodineModel.Props.C02
import IodineModel.Lemmas.C02qU7
import IodineModel.Lemmas.C02qD9
import IodineModel.Lemmas.C02qL9
import IodineModel.Lemmas.C02qL10
import IodineModel.Lemmas.C02qM8
import IodineModel.Lemmas.C02qB11
import IodineModel.Lemmas.C02qB8
import IodineModel.Lemmas.C02qA6
import IodineModel.Lemmas.C02qO9
import IodineModel.Lemmas.C02t6
/-
C02, phase 2 — the RECOVERY clause for one fault class, machine-checked: the sequence-number window after a blackout
(finding c02:seqno-window), overlapping transfers, and freshness of the server's duplicate memories under faults.
(A second file because the concrete witnesses below use the demo session `exP`/`exW` of `Props/C02.lean`.)

(1) THE WINDOW.  Packet sequence numbers are 3 bits; a receiver drops a data fragment whose number is its current one (with a
    fragment number not above the current one) or one of the THREE before it, and takes anything else for a new packet.
    `QuiescentDesync P du dd w`: quiescent, but the client's upstream number is `du` ahead of the server's and the server's
    downstream number `dd` ahead of the client's.  Such a state is what `d` packets given up in a row leave behind
    (`giveup_run_upstream`: every upstream datagram lost, one offered packet: 9 events, 4 s, the server untouched).
    * upstream (the SERVER's window; nobody but `handle_data_upstream` ever writes `inpacket.seqno`):
      `d ≤ 3` delivered and resynchronised (`desync_up_delivered`); `4 ≤ d ≤ 6` dropped, `d ↦ d + 1` (`desync_up_dropped`,
      14 steps, 4 s); `d = 7`: the number equals the server's — dropped the same way if the server's last fragment number is
      ≥ 1; if it is 0 the server's own numbers LOOK LIKE the acknowledgement of fragment 0 and the client believes a packet
      delivered that was dropped (one-fragment packet: lost silently, test `C02L.test_desync_up_6`; longer ones: the server
      appends fragments 1… to its stale buffer).  Hence `recovery_after_giveups`: at most 4 packets lost, then delivery
      resumes and stays.
      The same in lazy mode: `desync_up_delivered_lazy`, `desync_up_dropped_lazy`, `desync_false_ack`,
      `recovery_after_giveups_lazy` (witness `C02L.desync_drops_new_packets_lazy`).
    * downstream (the CLIENT's window): `desync_down_delivered_*` (`d ≤ 3`), `desync_down_dropped_*` (`4 ≤ d ≤ 6`; `d = 7`
      with last fragment number ≠ 0), and a second mover: a DATALESS answer whose number is outside the window is adopted
      (`idle_poll_resyncs_down`, `1 ≤ d ≤ 4`) — in immediate mode the client polls every `selecttimeout` seconds, so after a
      downstream blackout of `k ≤ 4` packets nothing is lost unless a packet is offered before the next poll; `d = 7` with
      last fragment number 0 and an empty buffer is the "weird situation" clause: delivered.  So `k` give-ups lose the next
      `8 − k` packets (`k = 5, 6, 7`), one fewer when the receiver's last fragment number is 0 — the numbers seen on the real
      programs (`C02L.desync_drops_new_packets_down_lazy`: k = 5 → 2 lost, k = 6 → 1).
    * WHY `k = 4` DIFFERS BETWEEN THE MODES (upstream): not because somebody else moves the server's number — nobody does —
      but because the LAZY client gives up fewer packets in the same time: getting no answers it first lowers
      `selecttimeout`, then switches lazy mode off (`send_query`'s "too few answers" test, 5 lazy-off queries at 1 s each during
      which it reads no tun frames), and frames offered while it is still resending are read and DISCARDED once
      `outchunkresent ≥ 2` (`client_tun_frame_while_sending`) without consuming a sequence number.  With 4 frames offered
      5.5 s apart only 3 numbers are used up (`d = 3`: all delivered).  In immediate mode every offered frame costs a number
      (`d = 4`: 4 lost).  After such a blackout the client is in immediate mode and the server still lazy.
(2) OVERLAPPING TRANSFERS, lazy mode: the product invariant and its establishment (`overlap_offer_lazy`), the one-round
    step (`overlap_round_lazy`), one-fragment packets end to end (`overlap_single_lazy`).  The endings of multi-fragment
    overlaps (three cases, each with a `tickS`/`tickC` sub-schedule) are not proved.
(3) FRESHNESS (`Aged`/`PAged`) is NOT an invariant under faults: `freshness_not_invariant` (drops only, 26 s, quiescent and
    in sync afterwards) and the next packet is mishandled (`freshness_loss_mishandles`: delivered, but only after a 1 s
    timeout); it RENEWS itself (`freshness_renewal`).  So the clean-path theorems apply after a fault prefix only under the
    extra hypothesis `Aged … 1 ∧ PAged … 1` — guaranteed while at most 20 data queries were sent since the last quiescent
    state, or after 15 clean data cycles.

NOT proved: the composition "blackout, then clean path" as ONE theorem — the give-up run ends with freshness slack `1 + 4k`
(`QuietImmDS`), the clean-path chain and `desync_up_*` are proved for slack 1; generalising the chain to slack ≤ 17 is
mechanical.  The composition is checked on concrete runs by the kernel (`C02L.compose_k3' … compose_k8'`).
-/
set_option linter.unusedVariables false

namespace Iodine.C02
open Iodine Iodine.World Iodine.C02L
open Iodine.Server (Session)

/-- quiescent (immediate mode) but DESYNCHRONISED: the client's `outpkt.seqno` is `du` ahead of the server's
`inpacket.seqno`, the server's `outpacket.seqno` is `dd` ahead of the client's `inpkt.seqno` (all mod 8) -/
abbrev QuiescentDesync (P : C02L.Par) (du dd : Nat) (w : W) : Prop := C02L.QuietImmD P du dd w

/-- the same in lazy mode -/
abbrev QuiescentDesyncLazy (P : C02L.Par) (du dd : Nat) (w : W) : Prop := C02L.QuietLazyD P du dd w

theorem quiescentDesync_zero {P : C02L.Par} {w : W} : QuiescentDesync P 0 0 w ↔ Quiescent P w := C02L.quietImmD_zero

theorem quiescentDesyncLazy_zero {P : C02L.Par} {w : W} : QuiescentDesyncLazy P 0 0 w ↔ QuiescentLazy P w := C02L.quietLazyD_zero

/-- desynchronised states are quiescent for the scheduler -/
theorem quiescentDesync_quiet {P : C02L.Par} {du dd : Nat} {w : W} (h : QuiescentDesync P du dd w) : quiet P.u w = true := h.quiet

/-- **(1a) upstream, immediate mode, `d ≤ 3`**: the client's number is at most 3 ahead — the packet is delivered exactly as on the clean path (`2·g + 1` steps) and the numbers are in sync again. -/
theorem desync_up_delivered :
    ∀ {P : Par} (hP : P.Ok) {d : Nat} {w : W} (hq : QuietImmD P d 0 w) (hd : d ≤ 3) (frame : List Nat)
    (h24 : 24 ≤ frame.length) (hl : frame.length < 65536) (hb : Codec.Bytes frame)
    (hdst : Server.ipDst frame ≠ (Server.getUser w.srv P.u).tunIp)
    (hg16 : upFrags P (frame.length + 1) (0x5a :: frame) ≤ 16),
    ∃ w', promptSteps P.u (2 * upFrags P (frame.length + 1) (0x5a :: frame) + 1) (step w (.offerC frame)) = some w' ∧
      QuietImm P w' ∧
      w'.tunS = w.tunS ++ [tunImage frame] ∧ w'.tunC = w.tunC ∧
      (Server.getUser w'.srv P.u).tunIp = (Server.getUser w.srv P.u).tunIp ∧
      (Server.getUser w'.srv P.u).fragsize = (Server.getUser w.srv P.u).fragsize :=
  fun {_} hP {_} {_} hq hd frame h24 hl hb hdst hg16 => C02L.up_packet_imm_desync_ok hP hq hd frame h24 hl hb hdst hg16

/-- **(1a) upstream, immediate mode, `d` in the window** (`DropsUp`: `4 ≤ d ≤ 6`, or `d = 7` and the server's last fragment number is not 0): the packet is NOT delivered; the server answers every copy with its own numbers, the client resends three times at 1 s and gives up (14 scheduler steps, 4 s); the state is desynchronised by `d + 1`. -/
theorem desync_up_dropped :
    ∀ {P : Par} (hP : P.Ok) {d : Nat} {w : W} (hq : QuietImmD P d 0 w)
    (hd : DropsUp (Server.getUser w.srv P.u) d) (frame : List Nat)
    (hne : frame ≠ []) (hl : frame.length < 65536) (hb : Codec.Bytes frame),
    ∃ w', promptSteps P.u 14 (step w (.offerC frame)) = some w' ∧
      QuietImmD P ((d + 1) % 8) 0 w' ∧ w'.tunS = w.tunS ∧ w'.tunC = w.tunC ∧
      (Server.getUser w'.srv P.u).inpacket = (Server.getUser w.srv P.u).inpacket ∧
      (Server.getUser w'.srv P.u).tunIp = (Server.getUser w.srv P.u).tunIp ∧
      (Server.getUser w'.srv P.u).fragsize = (Server.getUser w.srv P.u).fragsize ∧
      w'.srv.now = w.srv.now + 4 ∧ w'.cs.c.selecttimeout = w.cs.c.selecttimeout :=
  fun {_} hP {_} {_} hq hd frame hne hl hb => C02L.up_packet_imm_desync_drop hP hq hd frame hne hl hb

/-- **recovery_after_giveups** (upstream, immediate mode; THEOREM).  BOUNDED RECOVERY: from a state desynchronised by `d`, of the packets offered next the first `lostUp d` (0 for `d ≤ 3`, else `8 − d` ≤ 4) are lost, all later ones are delivered exactly once and in order, and from the first delivered packet on the state is the synchronised `Quiescent` of the clean-path theorems — delivery resumes and stays.  (Hypothesis `d ≤ 3 ∨ 1 ≤ inpacket.fragment`: see `desync_false_ack` below for what happens otherwise.) -/
theorem recovery_after_giveups :
    ∀ {P : Par} (hP : P.Ok) (fuel : Nat) (hfuel : 33 ≤ fuel),
    ∀ (frames : List (List Nat)) (d : Nat) (w : W), QuietImmD P d 0 w → d < 8 →
      (d ≤ 3 ∨ 1 ≤ (Server.getUser w.srv P.u).inpacket.fragment) →
      (∀ f ∈ frames, UpFrameOk P (Server.getUser w.srv P.u).tunIp f) →
      (offerAllC P.u fuel w frames).tunS = w.tunS ++ (frames.drop (lostUp d)).map tunImage ∧
      (offerAllC P.u fuel w frames).tunC = w.tunC ∧
      (lostUp d < frames.length → QuietImm P (offerAllC P.u fuel w frames)) :=
  fun hP fuel hfuel frames d w hq hd hfr hok => C02L.recovery_after_giveups_up_imm hP fuel hfuel frames d w hq hd hfr hok

/-- **(1a) downstream, immediate mode, `4 ≤ d ≤ 6`**: NOT delivered.  The client takes every copy of fragment 0 for a recent duplicate and keeps pinging with its own numbers; a one-fragment packet is forgotten by the server as it is sent (3 steps), a longer one is resent on six polls and dropped on the seventh (21 steps); desynchronised by `d + 1`. -/
theorem desync_down_dropped_immediate :
    ∀ {P : Par} (hP : P.Ok) {w : W} {d : Nat} (hq : QuietImmD P 0 d w) (hd : 4 ≤ d ∧ d ≤ 6)
    (frame : List Nat) (hF : 0 < (Server.getUser w.srv P.u).fragsize)
    (h24 : 24 ≤ frame.length) (hl : frame.length < 65536) (hdst : Server.ipDst frame = (Server.getUser w.srv P.u).tunIp)
    (hto : (Client.selectOf w.cs.c).to < 10000000)
    (hexp : ¬ w.cs.c.lastdownstreamtime + 60 < w.cs.c.now + ((Client.selectOf w.cs.c).to / 1000000).toNat)
    (hlive : w.srv.now + ((Client.selectOf w.cs.c).to / 1000000).toNat < (Server.getUser w.srv P.u).lastPkt + 60),
    ∃ w', promptSteps P.u (dropSteps (downFrags (Server.getUser w.srv P.u).fragsize (frame.length + 1) (frame.length + 1)))
        (step w (.offerS frame)) = some w' ∧
      QuietImmD P 0 (d + 1) w' ∧ w'.tunC = w.tunC ∧ w'.tunS = w.tunS ∧
      (Server.getUser w'.srv P.u).fragsize = (Server.getUser w.srv P.u).fragsize ∧
      (Server.getUser w'.srv P.u).tunIp = (Server.getUser w.srv P.u).tunIp ∧
      (Server.getUser w'.srv P.u).lastPkt = w'.srv.now ∧ w'.cs.c.lastdownstreamtime = w'.cs.c.now ∧
      w'.cs.c.selecttimeout = w.cs.c.selecttimeout ∧ w'.cs.c.sendPingSoon ≤ 500 ∧ w'.cs.c.inpkt = w.cs.c.inpkt :=
  @C02L.down_packet_imm_desync_drop

/-- … `d = 7` with the client's last fragment number not 0: lost as a duplicate fragment; in sync afterwards. -/
theorem desync_down_dropped7_immediate :
    ∀ {P : Par} (hP : P.Ok) {w : W} (hq : QuietImmD P 0 7 w)
    (hfr : w.cs.c.inpkt.fragment ≠ 0)
    (frame : List Nat) (hF : 0 < (Server.getUser w.srv P.u).fragsize)
    (h24 : 24 ≤ frame.length) (hl : frame.length < 65536) (hdst : Server.ipDst frame = (Server.getUser w.srv P.u).tunIp)
    (hto : (Client.selectOf w.cs.c).to < 10000000)
    (hexp : ¬ w.cs.c.lastdownstreamtime + 60 < w.cs.c.now + ((Client.selectOf w.cs.c).to / 1000000).toNat)
    (hlive : w.srv.now + ((Client.selectOf w.cs.c).to / 1000000).toNat < (Server.getUser w.srv P.u).lastPkt + 60),
    ∃ w', promptSteps P.u (dropSteps (downFrags (Server.getUser w.srv P.u).fragsize (frame.length + 1) (frame.length + 1)))
        (step w (.offerS frame)) = some w' ∧
      QuietImm P w' ∧ w'.tunC = w.tunC ∧ w'.tunS = w.tunS ∧
      (Server.getUser w'.srv P.u).fragsize = (Server.getUser w.srv P.u).fragsize ∧
      (Server.getUser w'.srv P.u).tunIp = (Server.getUser w.srv P.u).tunIp ∧
      (Server.getUser w'.srv P.u).lastPkt = w'.srv.now ∧ w'.cs.c.lastdownstreamtime = w'.cs.c.now ∧
      w'.cs.c.selecttimeout = w.cs.c.selecttimeout ∧ w'.cs.c.sendPingSoon ≤ 500 ∧ w'.cs.c.inpkt = w.cs.c.inpkt :=
  @C02L.down_packet_imm_desync_drop7

/-- **(1a) downstream, immediate mode, `d ≤ 3`**: delivered as on the clean path; in sync again. -/
theorem desync_down_delivered_immediate :
    ∀ {P : Par} (hP : P.Ok) {w : W} {d : Nat} (hq : QuietImmD P 0 d w) (hd : d ≤ 3) (frame : List Nat)
    (hF : 0 < (Server.getUser w.srv P.u).fragsize)
    (hok : DownFrameOk (Server.getUser w.srv P.u).tunIp (Server.getUser w.srv P.u).fragsize frame)
    (hto : (Client.selectOf w.cs.c).to < 10000000)
    (hexp : ¬ w.cs.c.lastdownstreamtime + 60 < w.cs.c.now + ((Client.selectOf w.cs.c).to / 1000000).toNat)
    (hlive : w.srv.now + ((Client.selectOf w.cs.c).to / 1000000).toNat < (Server.getUser w.srv P.u).lastPkt + 60),
    ∃ w', promptSteps P.u (downSteps (downFrags (Server.getUser w.srv P.u).fragsize (frame.length + 1) (frame.length + 1)))
        (step w (.offerS frame)) = some w' ∧
      QuietImm P w' ∧ w'.tunC = w.tunC ++ [tunImage frame] ∧ w'.tunS = w.tunS ∧
      (Server.getUser w'.srv P.u).fragsize = (Server.getUser w.srv P.u).fragsize ∧
      (Server.getUser w'.srv P.u).tunIp = (Server.getUser w.srv P.u).tunIp ∧
      (Server.getUser w'.srv P.u).lastPkt = w'.srv.now ∧ w'.cs.c.lastdownstreamtime = w'.cs.c.now ∧
      w'.cs.c.selecttimeout = w.cs.c.selecttimeout ∧ w'.cs.c.sendPingSoon ≤ 5 :=
  @C02L.down_packet_imm_desync_ok

/-- An idle poll RESYNCHRONISES the downstream numbers when `1 ≤ d ≤ 4`: the dataless answer carries a number outside the client's window and the client adopts it (`datalessAdopt`).  This is the other mover of a receiver's number — there is none upstream. -/
theorem idle_poll_resyncs_down :
    ∀ {P : Par} (hP : P.Ok) {w : W} {d : Nat} (hq : QuietImmD P 0 d w) (hd : 1 ≤ d ∧ d ≤ 4)
    (hto : (Client.selectOf w.cs.c).to < 10000000)
    (hexp : ¬ w.cs.c.lastdownstreamtime + 60 < w.cs.c.now + ((Client.selectOf w.cs.c).to / 1000000).toNat)
    (hlive : w.srv.now + ((Client.selectOf w.cs.c).to / 1000000).toNat < (Server.getUser w.srv P.u).lastPkt + 60),
    ∃ w1 w2, run w [.tickC, .deliverUp, .deliverDown] = w1 ∧ QuietImm P w1 ∧ w1.cs.c.sendPingSoon = 500 ∧
      w1.cs.c.inpkt.seqno = (w.cs.c.inpkt.seqno + d) % 8 ∧
      w1.tunC = w.tunC ∧ w1.tunS = w.tunS ∧ w1.cs.c.now = w1.cs.c.lastdownstreamtime ∧
      run w1 [.tickC, .deliverUp, .deliverDown] = w2 ∧ QuietImm P w2 ∧ w2.cs.c.sendPingSoon = 0 ∧
      w2.cs.c.inpkt = w1.cs.c.inpkt ∧ w2.tunC = w.tunC ∧ w2.tunS = w.tunS ∧ w2.cs.c.now = w1.cs.c.now :=
  @C02L.idle_poll_resyncs_down

/-- recovery downstream, immediate mode (PARTIAL: the client's last fragment number must not be 0; otherwise `d = 7` is the "weird situation" clause and the packet IS delivered — kernel-evaluated runs `C02L.desync7_both_outcomes`). -/
theorem recovery_after_giveups_down_immediate_partial :
    ∀ {P : Par} (hP : P.Ok) (fuel : Nat) (hfuel : 36 ≤ fuel)
    (lost rest : List (List Nat)) (w : W) (d : Nat) (hd : 4 ≤ d ∧ d ≤ 7) (hlen : lost.length = 8 - d)
    (hq : QuietImmD P 0 d w) (hfr : w.cs.c.inpkt.fragment ≠ 0) (hr : Roomy P w) (hsel : w.cs.c.selecttimeout ≤ 9)
    (hF : 0 < (Server.getUser w.srv P.u).fragsize)
    (hok : ∀ f ∈ lost ++ rest, DownFrameOk (Server.getUser w.srv P.u).tunIp (Server.getUser w.srv P.u).fragsize f),
    QuietImm P (offerAllS P.u fuel w (lost ++ rest)) ∧
    (offerAllS P.u fuel w (lost ++ rest)).tunC = w.tunC ++ rest.map tunImage ∧
    (offerAllS P.u fuel w (lost ++ rest)).tunS = w.tunS :=
  @C02L.recovery_after_giveups_down_imm_partial

/-- **(1a) downstream, lazy mode, `d` in the window**: NOT delivered (3 resp. 21 steps, one less if a ping was due); desynchronised by `d + 1`. -/
theorem desync_down_dropped_lazy :
    ∀ {P : Par} (hP : P.Ok) {w : W} {d : Nat} (hq : QuietLazyD P 0 d w)
    (hd : (4 ≤ d ∧ d ≤ 6) ∨ (d = 7 ∧ w.cs.c.inpkt.fragment ≠ 0)) (frame : List Nat)
    (hF : 0 < (Server.getUser w.srv P.u).fragsize)
    (hok : DownFrameOk (Server.getUser w.srv P.u).tunIp (Server.getUser w.srv P.u).fragsize frame),
    ∃ w', promptSteps P.u (dropStepsL w.cs.c.sendPingSoon
          (downFrags (Server.getUser w.srv P.u).fragsize (frame.length + 1) (frame.length + 1)))
        (step w (.offerS frame)) = some w' ∧
      QuietLazyD P 0 ((d + 1) % 8) w' ∧ w'.cs.c.sendPingSoon = 0 ∧ w'.tunC = w.tunC ∧ w'.tunS = w.tunS ∧
      (Server.getUser w'.srv P.u).fragsize = (Server.getUser w.srv P.u).fragsize ∧
      (Server.getUser w'.srv P.u).tunIp = (Server.getUser w.srv P.u).tunIp ∧ w'.cs.c.inpkt = w.cs.c.inpkt :=
  @C02L.down_packet_lazy_desync_drop

/-- **(1a) downstream, lazy mode, `d ≤ 3`**: delivered; in sync again. -/
theorem desync_down_delivered_lazy :
    ∀ {P : Par} (hP : P.Ok) {w : W} {d : Nat} (hq : QuietLazyD P 0 d w) (hd : d ≤ 3)
    (frame : List Nat) (hF : 0 < (Server.getUser w.srv P.u).fragsize)
    (hok : DownFrameOk (Server.getUser w.srv P.u).tunIp (Server.getUser w.srv P.u).fragsize frame),
    ∃ w', promptSteps P.u (downStepsL w.cs.c.sendPingSoon
          (downFrags (Server.getUser w.srv P.u).fragsize (frame.length + 1) (frame.length + 1)))
        (step w (.offerS frame)) = some w' ∧
      QuietLazy P w' ∧ w'.cs.c.sendPingSoon = 0 ∧ w'.tunC = w.tunC ++ [tunImage frame] ∧ w'.tunS = w.tunS ∧
      (Server.getUser w'.srv P.u).fragsize = (Server.getUser w.srv P.u).fragsize ∧
      (Server.getUser w'.srv P.u).tunIp = (Server.getUser w.srv P.u).tunIp :=
  @C02L.down_packet_lazy_desync_ok

/-- recovery downstream, lazy mode (PARTIAL: as above). -/
theorem recovery_after_giveups_down_lazy_partial :
    ∀ {P : Par} (hP : P.Ok) (fuel : Nat) (hfuel : 33 ≤ fuel),
    ∀ (frames : List (List Nat)) (d : Nat) (w : W), QuietLazyD P 0 d w → d < 8 → (4 ≤ d → w.cs.c.inpkt.fragment ≠ 0) →
      0 < (Server.getUser w.srv P.u).fragsize →
      (∀ f ∈ frames, DownFrameOk (Server.getUser w.srv P.u).tunIp (Server.getUser w.srv P.u).fragsize f) →
      lostDown d < frames.length →
      QuietLazy P (offerAllS P.u fuel w frames) ∧
      (offerAllS P.u fuel w frames).tunC = w.tunC ++ (frames.drop (lostDown d)).map tunImage ∧
      (offerAllS P.u fuel w frames).tunS = w.tunS :=
  @C02L.recovery_after_giveups_down_lazy_partial

/-- **(1b) the give-up run**: one packet offered while EVERY upstream datagram is lost (`blackoutEvUp`, 9 events: `dropUp`, then `tickC dropUp` four times).  The server does not move (its clock: +4 s), the client is idle again one sequence number further; the freshness slack of the server's memories has grown by 4 (data counter) and 1 (ping seed): `QuietImmDS`. -/
theorem giveup_run_upstream :
    ∀ {P : Par} (hP : P.Ok) {w : W} {du dd sl sp : Nat} (hq : QuietImmDS P du dd sl sp w)
    (frame : List Nat) (hne : frame ≠ []) (hl : frame.length < 65536) (hb : Codec.Bytes frame)
    (hsl : sl ≤ 18) (hsp : sp ≤ 1000)
    (hc : ¬ w.cs.c.lastdownstreamtime + 60 < w.cs.c.now + 4)
    (hs : w.srv.now + 4 < (Server.getUser w.srv P.u).lastPkt + 60),
    GaveUp P w (runSched blackoutEvUp 9 (step w (.offerC frame))) ∧
    QuietImmDS P ((du + 1) % 8) dd (sl + 4) (sp + 1) (runSched blackoutEvUp 9 (step w (.offerC frame))) :=
  @C02L.giveup_run_up_imm

/-- … iterated over `k` offered packets: desynchronised by `k`, slack `+4k`/`+k`; `k ≤ 5` from a quiescent state (the slack must stay ≤ 21). -/
theorem giveup_runs_upstream :
    ∀ {P : Par} (hP : P.Ok) (frames : List (List Nat))
    (hok : ∀ f ∈ frames, f ≠ [] ∧ f.length < 65536 ∧ Codec.Bytes f),
    ∀ {w : W} {du dd sl sp : Nat}, QuietImmDS P du dd sl sp w →
    sl + 4 * frames.length ≤ 22 → sp + frames.length ≤ 1001 →
    ¬ w.cs.c.lastdownstreamtime + 60 < w.cs.c.now + 4 * frames.length →
    w.srv.now + 4 * frames.length < (Server.getUser w.srv P.u).lastPkt + 60 →
    GaveUpN w (giveupRunUp frames w) frames.length ∧
    QuietImmDS P ((du + frames.length) % 8) dd (sl + 4 * frames.length) (sp + frames.length) (giveupRunUp frames w) :=
  @C02L.giveup_runs_up_imm

/-- **(3) renewal**: whatever the server's memories held, after 15 clean data cycles (and 4 cache writes) they are `Aged … 1` again. -/
theorem freshness_renewal :
    ∀ {P : Par} (hu : P.u < 16) {nd nc : Nat} {x0 x : Session} {k0 k : Nat}
    (h : CleanSess nd nc (x0, k0) (x, k)) (hwf : RingWF x0) (hk : k0 < 36) (hnd : 15 ≤ nd) (hnc : 4 ≤ nc),
    k < 36 ∧ Aged P x k 1 :=
  @C02L.CleanSess.renewed

/-- **(3) counterexample, drops only**: the state `C02L.qaWC` = `exW` after the 104-event schedule `C02L.qaSchedC` (32 lost queries in 26 s, `C02L.qa_runC`) is quiescent, in sync, `PAged`, … -/
theorem freshness_counterexample_state :
    QuietBut Iodine.C02.exP qaWC ∧ quiet 0 qaWC = true ∧
    PAged Iodine.C02.exP (Server.getUser qaWC.srv 0) qaWC.cs.c.randSeed 1 :=
  @C02L.qa_dropC_quiet

/-- … but NOT `Aged` for any slack: freshness of the data memories is not an invariant under drops (the data-CMC counter, period 36, advances on every resend) … -/
theorem freshness_not_invariant :
    ¬ ∃ sl, sl ≤ 26 ∧ Aged Iodine.C02.exP (Server.getUser qaWC.srv 0) qaWC.cs.c.datacmc sl :=
  @C02L.qa_dropC_not_aged

/-- … and the next clean-path packet really is mishandled: its first query is answered from `qmem` ("x"), the three steps `clean_path_single_fragment` promises deliver nothing, the packet arrives only after a 1 s client timeout (6 steps). -/
theorem freshness_loss_mishandles :
    Iodine.C02.AcceptableUp Iodine.C02.exP (Server.getUser qaWC.srv 0).tunIp qaF1 ∧ Iodine.C02.fragments Iodine.C02.exP qaF1 = 1 ∧
    (run qaWC [.offerC qaF1, .deliverUp]).down.map (fun d => match d with | .ans _ _ _ data => data | .raw b => b) = [[120]] ∧
    (runPromptCount 0 3 (step qaWC (.offerC qaF1)) 0).1.tunS = qaWC.tunS ∧
    quiet 0 (runPromptCount 0 3 (step qaWC (.offerC qaF1)) 0).1 = false ∧
    promptTrace 0 60 (step qaWC (.offerC qaF1)) = [.deliverUp, .deliverDown, .tickC, .deliverUp, .tickS, .deliverDown] ∧
    (runPromptCount 0 60 (step qaWC (.offerC qaF1)) 0).1.tunS = qaWC.tunS ++ [qaF1] :=
  @C02L.qa_dropC_mishandled

/-- **(2) overlapping transfers, lazy mode**: a packet offered on each side before anything is delivered (either order: the offers commute) establishes the product invariant `C02L.BothFlightL` (upstream fragment in flight AND downstream fragment in flight, the server holding no query). -/
theorem overlap_offer_lazy :
    ∀ {P : Par} (hP : P.Ok) {w : W} (hq : QuietLazy P w) (fu fd : List Nat)
    (hu : UpFrameOk P (Server.getUser w.srv P.u).tunIp fu)
    (hd : DownFrameOk (Server.getUser w.srv P.u).tunIp (Server.getUser w.srv P.u).fragsize fd)
    (hF : 0 < (Server.getUser w.srv P.u).fragsize),
    ∃ w2, step (step w (.offerC fu)) (.offerS fd) = w2 ∧ step (step w (.offerS fd)) (.offerC fu) = w2 ∧
      BothFlightL P (0x5a :: fu) (0x5a :: fd) w2 (newPacket w.cs.c fu) 0 0 ((w.cs.c.inpkt.seqno + 1) % 8) 0
        (downLen (Server.getUser w.srv P.u).fragsize (0x5a :: fd).length) 0 ∧
      w2.tunS = w.tunS ∧ w2.tunC = w.tunC ∧ (Server.getUser w2.srv P.u).tunIp = (Server.getUser w.srv P.u).tunIp ∧
      (Server.getUser w2.srv P.u).fragsize = (Server.getUser w.srv P.u).fragsize :=
  @C02L.both_offer_lazy

/-- … one round (4 events `deliverUp deliverDown deliverUp deliverDown`) advances BOTH transfers by one fragment, as long as neither fragment is the last of its packet. -/
theorem overlap_round_lazy :
    ∀ {P : Par} (hP : P.Ok) {outU outD : List Nat} {w : W} {c0 : Client.Cli} {ou fu : Nat} {sq : Int} {od D fd : Nat}
    (h : BothFlightL P outU outD w c0 ou fu sq od D fd) (h64u : outU.length ≤ 65536) (h64d : outD.length ≤ 65536)
    (hltU : ou + fragLen P (outU.drop ou) < outU.length) (hfu : fu + 1 < 16)
    (hltD : od + D < outD.length) (hfd : fd + 1 < 16),
    ∃ w' c0', promptSteps P.u 4 w = some w' ∧
      BothFlightL P outU outD w' c0' (ou + fragLen P (outU.drop ou)) (fu + 1) sq (od + D)
        (downLen (Server.getUser w.srv P.u).fragsize (outD.length - (od + D))) (fd + 1) ∧
      w'.tunS = w.tunS ∧ w'.tunC = w.tunC ∧ c0'.outpkt.seqno = c0.outpkt.seqno ∧
      (Server.getUser w'.srv P.u).tunIp = (Server.getUser w.srv P.u).tunIp ∧
      (Server.getUser w'.srv P.u).fragsize = (Server.getUser w.srv P.u).fragsize :=
  @C02L.both_round_lazy

/-- … and end to end for one-fragment packets: both arrive exactly once after 5 events, whichever was offered first; quiescent again.  (PARTIAL with respect to goal 2: the endings of multi-fragment overlaps are not proved, see the report.) -/
theorem overlap_single_lazy :
    ∀ {P : Par} (hP : P.Ok) {w : W} (hq : QuietLazy P w) (fu fd : List Nat)
    (hu : UpFrameOk P (Server.getUser w.srv P.u).tunIp fu)
    (hd : DownFrameOk (Server.getUser w.srv P.u).tunIp (Server.getUser w.srv P.u).fragsize fd)
    (hF : 0 < (Server.getUser w.srv P.u).fragsize)
    (hU1 : upFrags P (fu.length + 1) (0x5a :: fu) = 1)
    (hD1 : downFrags (Server.getUser w.srv P.u).fragsize (fd.length + 1) (fd.length + 1) = 1),
    ∃ w', (∀ fuel, 5 ≤ fuel → runPromptCount P.u fuel (step (step w (.offerC fu)) (.offerS fd)) 0 = (w', 5)) ∧
      (∀ fuel, 5 ≤ fuel → runPromptCount P.u fuel (step (step w (.offerS fd)) (.offerC fu)) 0 = (w', 5)) ∧
      QuietLazy P w' ∧ w'.tunS = w.tunS ++ [tunImage fu] ∧ w'.tunC = w.tunC ++ [tunImage fd] :=
  @C02L.overlap_single_lazy_frags

/-- **(1a) upstream, LAZY mode, `d ≤ 3`**: delivered as on the clean path; in sync again. -/
theorem desync_up_delivered_lazy :
    ∀ {P : Par} (hP : P.Ok) {d : Nat} {w : W} (hq : QuietLazyD P d 0 w) (hd : d ≤ 3)
    (frame : List Nat) (h24 : 24 ≤ frame.length) (hl : frame.length < 65536) (hb : Codec.Bytes frame)
    (hdst : Server.ipDst frame ≠ (Server.getUser w.srv P.u).tunIp)
    (hg16 : upFrags P (frame.length + 1) (0x5a :: frame) ≤ 16),
    ∃ w', promptSteps P.u (2 * upFrags P (frame.length + 1) (0x5a :: frame) + 1) (step w (.offerC frame)) = some w' ∧
      QuietLazy P w' ∧
      w'.tunS = w.tunS ++ [[0, 0, 8, 0] ++ frame.drop 4] ∧ w'.tunC = w.tunC ∧
      (Server.getUser w'.srv P.u).tunIp = (Server.getUser w.srv P.u).tunIp ∧
      (Server.getUser w'.srv P.u).fragsize = (Server.getUser w.srv P.u).fragsize :=
  @C02L.up_packet_lazy_desync_ok

/-- **(1a) upstream, LAZY mode, `d` in the window**: NOT delivered; 14 steps (`deliverUp deliverDown tickC` four times — each copy makes the server answer the query it held, with its own numbers —, then the give-up ping and the answer to the last data query), 4 s; desynchronised by `d + 1`. -/
theorem desync_up_dropped_lazy :
    ∀ {P : Par} (hP : P.Ok) {d : Nat} {w : W} (hq : QuietLazyD P d 0 w) (hd : 4 ≤ d ∧ d ≤ 7)
    (h7 : d = 7 → 1 ≤ (Server.getUser w.srv P.u).inpacket.fragment) (frame : List Nat)
    (hne : frame ≠ []) (hl : frame.length < 65536) (hb : Codec.Bytes frame),
    ∃ w', promptSteps P.u 14 (step w (.offerC frame)) = some w' ∧ QuietLazyD P ((d + 1) % 8) 0 w' ∧
      w'.tunS = w.tunS ∧ w'.tunC = w.tunC ∧
      (Server.getUser w'.srv P.u).inpacket = (Server.getUser w.srv P.u).inpacket ∧
      (Server.getUser w'.srv P.u).tunIp = (Server.getUser w.srv P.u).tunIp ∧
      (Server.getUser w'.srv P.u).fragsize = (Server.getUser w.srv P.u).fragsize ∧
      w'.srv.now = w.srv.now + 4 ∧ w'.cs.c.now = w.cs.c.now + 4 :=
  @C02L.up_packet_lazy_desync_drop

/-- **the false acknowledgement** (`d = 7`, the server's last fragment number 0, a one-fragment packet; lazy mode): the server drops the fragment as a repeat, but its own numbers `(seqno, 0)` ARE the acknowledgement the client waits for — the client believes the packet delivered; lost silently in 2 steps, in sync afterwards. -/
theorem desync_false_ack :
    ∀ {P : Par} (hP : P.Ok) {w : W} (hq : QuietLazyD P 7 0 w)
    (h0 : (Server.getUser w.srv P.u).inpacket.fragment = 0) (frame : List Nat)
    (hne : frame ≠ []) (hl : frame.length < 65536) (hb : Codec.Bytes frame)
    (hone : fragLen P (0x5a :: frame) = (0x5a :: frame).length),
    ∃ w', promptSteps P.u 2 (step w (.offerC frame)) = some w' ∧ QuietLazy P w' ∧
      w'.tunS = w.tunS ∧ w'.tunC = w.tunC ∧
      (Server.getUser w'.srv P.u).inpacket = (Server.getUser w.srv P.u).inpacket ∧
      (Server.getUser w'.srv P.u).tunIp = (Server.getUser w.srv P.u).tunIp ∧
      (Server.getUser w'.srv P.u).fragsize = (Server.getUser w.srv P.u).fragsize ∧
      w'.srv.now = w.srv.now :=
  @C02L.up_packet_lazy_desync_false_ack

/-- **recovery_after_giveups, lazy mode**: as `recovery_after_giveups`; for `d ≥ 4` either the server's last fragment number is ≥ 1 or all offered packets have one fragment (then the false acknowledgement is covered as well). -/
theorem recovery_after_giveups_lazy :
    ∀ {P : Par} (hP : P.Ok) (fuel : Nat) (hfuel : 33 ≤ fuel),
    ∀ (fs : List (List Nat)) (d : Nat) (w : W), QuietLazyD P d 0 w → d < 8 →
      (4 ≤ d → 1 ≤ (Server.getUser w.srv P.u).inpacket.fragment ∨ ∀ f ∈ fs, OneFrag P f) →
      (∀ f ∈ fs, UpFrameOk P (Server.getUser w.srv P.u).tunIp f) →
      (offerAllC P.u fuel w fs).tunS = w.tunS ++ (fs.drop (lost d)).map tunImage ∧
      (offerAllC P.u fuel w fs).tunC = w.tunC ∧
      (Resync d fs.length → QuietLazy P (offerAllC P.u fuel w fs)) ∧
      (fs.length < lost d → QuietLazyD P (d + fs.length) 0 (offerAllC P.u fuel w fs)) :=
  @C02L.recovery_after_giveups_up_lazy_gen

/-! ### non-vacuity and the finding as a concrete witness -/

/-- `exW` after a two-fragment packet went up: quiescent, the server's last fragment number is 1 -/
def exW1 : W := runPrompt 0 40 (step exW (.offerC (demoFrame 9 30)))

theorem ex_quiescent1 : Quiescent exP exW1 ∧ (Server.getUser exW1.srv exP.u).tunIp = (Server.getUser exW.srv exP.u).tunIp ∧
    exW1.tunS = [demoFrame 9 30] ∧ exW1.tunC = [] := by
  have ha := ex_acceptable.1
  obtain ⟨w', h1, h2, h3, h4, h5, _⟩ := C02L.up_packet_imm exP_ok ex_quiescent (demoFrame 9 30) ha.h24 ha.hl ha.bytes ha.dst ha.frags
  have hrun : exW1 = w' := C02L.runPrompt_of_steps 0 _ _ _ h1 h2.quiet 40 (by have := ha.frags; omega)
  rw [hrun]
  have ht : exW.tunS = [] ∧ exW.tunC = [] := by decide +kernel
  exact ⟨h2, h5, by rw [h3, ht.1]; decide, by rw [h4, ht.2]⟩

theorem ex_frag1 : 1 ≤ (Server.getUser exW1.srv exP.u).inpacket.fragment := by decide +kernel

attribute [irreducible] exW1

theorem shiftUp_srv (w : W) (d : Nat) : (C02L.shiftUp w d).srv = w.srv := rfl

/-- every `d`: a desynchronised quiescent state -/
theorem ex_desync (d : Nat) : QuiescentDesync exP d 0 (C02L.shiftUp exW1 d) := C02L.quietImmD_shiftUp ex_quiescent1.1 d

theorem ex_up_frames : ∀ f ∈ [demoFrame 9 4, demoFrame 9 5, demoFrame 9 6, demoFrame 9 7, demoFrame 9 30],
    AcceptableUp exP (Server.getUser exW.srv exP.u).tunIp f := by
  intro f hf
  simp only [List.mem_cons, List.not_mem_nil, or_false] at hf
  rcases hf with rfl | rfl | rfl | rfl | rfl
  · exact ⟨by decide, by decide, by unfold Codec.Bytes; decide, by decide +kernel, by decide +kernel⟩
  · exact ⟨by decide, by decide, by unfold Codec.Bytes; decide, by decide +kernel, by decide +kernel⟩
  · exact ⟨by decide, by decide, by unfold Codec.Bytes; decide, by decide +kernel, by decide +kernel⟩
  · exact ⟨by decide, by decide, by unfold Codec.Bytes; decide, by decide +kernel, by decide +kernel⟩
  · exact ex_acceptable.1

/-- **desync_drops_new_packets** (the finding c02:seqno-window, machine-checked).
(i) By the theorems: on the demo session, with the client's upstream number 4 ahead of the server's (four packets given up
    in a row), of five NEW packets offered on the clean path the first four are never delivered, the fifth is; quiescent and
    in sync afterwards.
(ii) By kernel evaluation of the executable joined model (independent of the theorems): the run "k packets offered while
    every upstream datagram is lost, then clean path" from `exW` loses the next 4 packets for `k = 4`, 3 for `k = 5`, 1 for
    `k = 7`, none for `k = 3` and `k = 8` (`fA i`, `fB i`: the demo frames of `Lemmas/C02qB4.lean`, `giveupRunUp`: offer, nine
    blackout events, repeat). -/
theorem desync_drops_new_packets :
    (QuiescentDesync exP 4 0 (C02L.shiftUp exW1 4) ∧
      (offerAllC 0 40 (C02L.shiftUp exW1 4) [demoFrame 9 4, demoFrame 9 5, demoFrame 9 6, demoFrame 9 7, demoFrame 9 30]).tunS =
        exW1.tunS ++ [demoFrame 9 30] ∧
      Quiescent exP (offerAllC 0 40 (C02L.shiftUp exW1 4) [demoFrame 9 4, demoFrame 9 5, demoFrame 9 6, demoFrame 9 7, demoFrame 9 30])) ∧
    ((offerAllC 0 80 (C02L.giveupRunUp [C02L.fA 0, C02L.fA 1, C02L.fA 2, C02L.fA 3] exW)
        [C02L.fB 0, C02L.fB 1, C02L.fB 2, C02L.fB 3, C02L.fB 4]).tunS = [C02L.fB 4] ∧
     (offerAllC 0 80 (C02L.giveupRunUp [C02L.fA 0, C02L.fA 1, C02L.fA 2, C02L.fA 3, C02L.fA 4] exW)
        [C02L.fB 0, C02L.fB 1, C02L.fB 2, C02L.fB 3]).tunS = [C02L.fB 3]) := by
  have hip : (Server.getUser (C02L.shiftUp exW1 4).srv exP.u).tunIp = (Server.getUser exW.srv exP.u).tunIp := by
    rw [shiftUp_srv]; exact ex_quiescent1.2.1
  have hrec := recovery_after_giveups exP_ok 40 (by omega)
    [demoFrame 9 4, demoFrame 9 5, demoFrame 9 6, demoFrame 9 7, demoFrame 9 30] 4 (C02L.shiftUp exW1 4) (ex_desync 4) (by omega)
    (Or.inr ex_frag1) (by intro f hf; rw [hip]; exact ex_up_frames f hf)
  have hl4 : C02L.lostUp 4 = 4 := by decide
  have hi : C02L.tunImage (demoFrame 9 30) = demoFrame 9 30 := by decide
  refine ⟨⟨ex_desync 4, ?_, ?_⟩, C02L.compose_k4', C02L.compose_k5'⟩
  · have h1 := hrec.1
    rw [hl4] at h1
    exact h1.trans (by show exW1.tunS ++ [C02L.tunImage (demoFrame 9 30)] = _; rw [hi])
  · exact hrec.2.2 (by rw [hl4]; decide)

/-- non-vacuity of `desync_up_dropped`: desynchronised by 5 the one-fragment frame is lost after exactly 14 steps and the
state is desynchronised by 6 -/
example : ∃ w', C02L.promptSteps 0 14 (step (C02L.shiftUp exW1 5) (.offerC (demoFrame 9 4))) = some w' ∧
    QuiescentDesync exP 6 0 w' ∧ w'.tunS = exW1.tunS := by
  obtain ⟨w', h1, h2, h3, _⟩ := desync_up_dropped exP_ok (ex_desync 5) (Or.inl ⟨by omega, by omega⟩) (demoFrame 9 4)
    (by decide) (by decide) (by unfold Codec.Bytes; decide)
  exact ⟨w', h1, h2, h3⟩

/-- non-vacuity of the downstream and lazy statements: `C02L.quietImmD_desyncC`, `C02L.QuietLazy.desync` produce a
desynchronised state from every quiescent one; applied examples in `Lemmas/C02qD5.lean`, `C02qD9.lean`, `C02qM6.lean`,
`C02qM8.lean`; of the give-up run: `C02L.bkW4_quiet`; of the overlap theorems: `Lemmas/C02qO9.lean` -/
example : QuiescentDesync exP 0 4 (C02L.exD 4) ∧ Roomy exP (C02L.exD 4) :=
  ⟨C02L.desync_drops_new_packets_down_imm.1, C02L.desync_drops_new_packets_down_imm.2.1⟩

end Iodine.C02
