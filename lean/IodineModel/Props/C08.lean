import IodineModel.Codec.Inst
import IodineModel.Lemmas.Encoding
import IodineModel.Props.C07
/-
C08 — upstream query names are legal, within the limit, and decode to what was sent.

The name a sender puts into a query is `hdr ++ (build_hostname …)`, with a header of 1
character (`send_packet`: p, v, l, n …, payload always Base32) or 5 characters (`send_chunk`,
`send_fragsize_probe`, payload in the negotiated codec).  The theorems quantify over every
hostname limit L in 100..255, every legal tunnel domain with at least 24 characters left, every
well-formed codec whose alphabet contains no dot, every non-empty payload and both header sizes.
Matching of the built name against the (possibly wildcard) server domain is C17's subject.
-/
namespace Iodine.C08
open Iodine Iodine.Codec Iodine.Encoding

/-- the hypotheses of the property, as one record -/
structure Setting (c : Codec) (L h : Nat) (hdr td d : List Nat) : Prop where
  wf : WF c
  nodot : ∀ ch ∈ c.tbl, ch ≠ DOT
  hL : 100 ≤ L ∧ L ≤ 255
  hh : hdr.length = h ∧ (h = 1 ∨ h = 5)
  hdr_nodot : NoDot hdr
  /-- at least 24 characters left after the domain; 3..128 characters -/
  td_len : 3 ≤ td.length ∧ td.length ≤ 128 ∧ td.length + 24 ≤ L
  /-- the domain itself is a legal name (implied by `check_topdomain`, see C17) -/
  td_legal : legalAux 0 td = true
  d_ne : d ≠ []
  d_bytes : Bytes d

/-- the client's buffer sizes: `sizeof(buf) - h` with `char buf[4096]` -/
def buflen (h : Nat) : Nat := 4096 - h

/-- The guarantees of the property. -/
structure Guarantee (c : Codec) (L h : Nat) (hdr td d : List Nat) (b : Built) : Prop where
  /-- at most L characters (in fact two less: the "2 safety" of the source) -/
  within_L : (hdr ++ b.name).length + 2 ≤ L
  /-- labels of 1..63 bytes … -/
  legal : legalAux 0 (hdr ++ b.name) = true
  /-- … and at most 255 bytes on the wire (dotted length + 2) -/
  wire : (hdr ++ b.name).length + 2 ≤ 255
  /-- ends in the tunnel domain, at a label boundary -/
  suffix : ∃ pre, hdr ++ b.name = pre ++ [DOT] ++ td
  /-- carries a non-empty prefix of the payload, of exactly the reported length -/
  used : 1 ≤ b.used ∧ b.used ≤ d.length
  /-- the server's extraction of the data part yields exactly that prefix -/
  extract : serverExtract c h ((hdr ++ b.name).length - td.length) (hdr ++ b.name) = d.take b.used

theorem tables_nodot : (∀ ch ∈ b32.tbl, ch ≠ DOT) ∧ (∀ ch ∈ b64.tbl, ch ≠ DOT) ∧
    (∀ ch ∈ b64u.tbl, ch ≠ DOT) ∧ (∀ ch ∈ b128.tbl, ch ≠ DOT) := by decide +kernel

theorem hostname_ok {c : Codec} {L h : Nat} {hdr td d : List Nat} (S : Setting c L h hdr td d) (prev : Nat) :
    ∃ b, buildHostname c L (buflen h) prev td d = some b ∧ Guarantee c L h hdr td d b := by
  obtain ⟨wf, nodot, ⟨hL1, hL2⟩, ⟨hh1, hh2⟩, hdr_nodot, ⟨htd1, htd2, htd3⟩, td_legal, d_ne, d_bytes⟩ := S
  have hbuf : min L (buflen h) = L := by unfold buflen; omega
  unfold buildHostname
  rw [hbuf]
  have hnot : ¬ L < td.length + 8 := by omega
  simp only [hnot, if_false]
  generalize hsp0 : L - td.length - 8 = space0
  generalize hsp : space0 - space0 / 57 = space
  have hspace : 2 ≤ space := by omega
  have hC := C07.capacity_contract wf space d d_bytes
  have hP := C07.progress wf space d hspace d_ne
  generalize hr : enc c space d = r at hC hP
  have hchars_tbl : ∀ ch ∈ r.chars, ch ∈ c.tbl := by rw [← hr]; exact C07.chars_in_table wf space d
  have hchars_nodot : NoDot r.chars := fun ch h => nodot ch (hchars_tbl ch h)
  have hlen_pos : 0 < r.chars.length := by
    have := hC.ratio
    have hk := wf.k_ok
    unfold nchars at this
    rcases hk with h | h | h <;> rw [h] at this <;> omega
  have hchars_ne : r.chars ≠ [] := List.ne_nil_of_length_pos hlen_pos
  have hs_ne : dotify r.chars ≠ [] := dotifyAux_ne_nil 0 _ hchars_ne
  have hs_len : (dotify r.chars).length = r.chars.length + r.chars.length / 57 := by
    unfold dotify; rw [dotifyAux_length 0 _ (by omega)]; simp
  -- scanning header and dotified text
  obtain ⟨m, hm, hm61⟩ := scan_dotifyAux 0 hdr.length r.chars hchars_nodot (by omega) (by omega)
  have hscan_hdr : scan 0 hdr = some hdr.length := by
    have := scan_nodot 0 hdr hdr_nodot; simpa using this
  have hlast := scan_zero_iff_last hdr.length (dotify r.chars) hs_ne m hm
  have hgetD : (dotify r.chars).getLast?.getD prev = DOT ↔ m = 0 := by
    rw [← hlast]
    cases hgl : (dotify r.chars).getLast? with
    | none => exact absurd (List.getLast?_eq_none_iff.mp hgl) hs_ne
    | some x => simp
  have hlen_le : r.chars.length ≤ space := hC.len_le
  have hused_small : r.used ≤ 65536 := by
    have h1 := hC.ratio
    have hk := wf.k_ok
    unfold nchars at h1
    rcases hk with h | h | h <;> rw [h] at h1 <;> omega
  by_cases hm0 : m = 0
  · -- the dotified text already ends in a dot
    have hl : (dotify r.chars).getLast?.getD prev = DOT := hgetD.mpr hm0
    simp only [hl, if_true]
    refine ⟨_, rfl, ?_, ?_, ?_, ?_, ?_, ?_⟩ <;> dsimp only
    · simp only [List.length_append, hs_len]; omega
    · rw [← List.append_assoc, legalAux_append, scan_append, hscan_hdr]
      simp only [Option.bind_some]
      unfold dotify; rw [hm, hm0]; exact td_legal
    · simp only [List.length_append, hs_len]; omega
    · -- the last character of the dotified text is the separating dot
      have hl' : (dotify r.chars).getLast? = some DOT := hlast.mpr hm0
      obtain ⟨pre, hpre⟩ : ∃ pre, dotify r.chars = pre ++ [DOT] := by
        refine ⟨(dotify r.chars).dropLast, ?_⟩
        have h1 := List.dropLast_concat_getLast hs_ne
        have h2 : (dotify r.chars).getLast hs_ne = DOT := by
          have h3 := List.getLast?_eq_some_getLast hs_ne
          rw [hl'] at h3
          exact (Option.some.inj h3).symm
        rw [h2] at h1
        exact h1.symm
      exact ⟨hdr ++ pre, by rw [hpre]; simp⟩
    · exact ⟨hP, hC.used_le⟩
    · unfold serverExtract unpackData
      have h1 : (hdr ++ (dotify r.chars ++ td)).length - td.length = hdr.length + (dotify r.chars).length := by
        simp only [List.length_append]; omega
      rw [h1, ← List.append_assoc, List.take_append_of_le_length (by simp), List.take_of_length_le (by simp)]
      rw [← hh1, List.drop_append_of_le_length (Nat.le_refl _)]
      simp only [List.drop_length, List.nil_append]
      unfold dotify
      rw [undotify_dotifyAux 0 _ hchars_nodot]
      exact hC.decodes 65536 hused_small
  · have hl : ¬ (dotify r.chars).getLast?.getD prev = DOT := fun h => hm0 (hgetD.mp h)
    simp only [hl, if_false]
    refine ⟨_, rfl, ?_, ?_, ?_, ?_, ?_, ?_⟩ <;> dsimp only
    · simp only [List.length_append, hs_len, List.length_cons, List.length_nil]; omega
    · rw [← List.append_assoc, ← List.append_assoc, legalAux_append, scan_append, scan_append, hscan_hdr]
      simp only [Option.bind_some]
      unfold dotify; rw [hm]
      have : 1 ≤ m ∧ m ≤ 63 := by omega
      simp only [Option.bind_some, scan, if_true, this, and_self]
      exact td_legal
    · simp only [List.length_append, hs_len, List.length_cons, List.length_nil]; omega
    · exact ⟨hdr ++ dotify r.chars, by simp⟩
    · exact ⟨hP, hC.used_le⟩
    · unfold serverExtract unpackData
      have h1 : (hdr ++ (dotify r.chars ++ [DOT] ++ td)).length - td.length
          = (hdr ++ (dotify r.chars ++ [DOT])).length := by
        simp only [List.length_append]; omega
      have h2 : hdr ++ (dotify r.chars ++ [DOT] ++ td) = (hdr ++ (dotify r.chars ++ [DOT])) ++ td := by simp
      rw [h1, h2, List.take_append_of_le_length (Nat.le_refl _), List.take_of_length_le (Nat.le_refl _)]
      rw [← hh1, List.drop_append_of_le_length (Nat.le_refl _)]
      simp only [List.drop_length, List.nil_append]
      rw [undotify_append]
      unfold dotify
      rw [undotify_dotifyAux 0 _ hchars_nodot]
      have : undotify [DOT] = [] := by decide
      rw [this, List.append_nil]
      exact hC.decodes 65536 hused_small

/-! Non-vacuity: a concrete setting, and the built name for it. -/
example : Setting b32 100 1 [112] [116, 46, 99, 111] [1, 2, 3] :=
  ⟨C07.wf_b32, tables_nodot.1, by omega, by simp, by unfold NoDot; decide, by simp, by decide,
   by simp, by unfold Bytes; decide⟩
example : (buildHostname b32 100 4095 112 [116, 46, 99, 111] [104, 105]).map (·.used) = some 2 := by
  decide +kernel

end Iodine.C08
