import IodineModel.Props.C06
import IodineModel.Lemmas.OptCli
import IodineModel.Props.Top
/-
C13 from the command line on.
-/
namespace Iodine.C13
open Iodine Iodine.Client Iodine.Client.Options

/-- **handshake_commands_validated_from_main.**  For every command line and environment with which iodine reaches
`client_handshake()`, every input sequence `inps` and one more input: every `system()` call of that step happens while the client
waits for the login reply and is exactly `PATH=/sbin:/bin ifconfig <dev> <quad> <quad> netmask <quad>` or `… ifconfig <dev> mtu
<201..1500>`.  Remaining hypothesis: the device name held by the machine has at most 430 bytes — a fact about `open_tun()`
(`if_name[250]`), which `main()` calls but which is outside its model; nothing about the command line is assumed. -/
theorem handshake_commands_validated_from_main (env : Env) (argv : List (List Nat)) (f : Final) (_h : Top.CStarts env argv f)
    (dev : List Nat) (inps : List CInput) (inp : CInput) (cmd : List Nat)
    (hd : (C06.handshakeRun f.cli f.args (Top.cpw f) dev inps).dev.length ≤ 430)
    (hc : CEvent.sys cmd ∈ (hstep (C06.handshakeRun f.cli f.args (Top.cpw f) dev inps) inp).2.1) :
    (∃ seed i, (C06.handshakeRun f.cli f.args (Top.cpw f) dev inps).pos = some (.login seed i)) ∧
    (IpCmd (C06.handshakeRun f.cli f.args (Top.cpw f) dev inps).dev cmd ∨
     MtuCmd (C06.handshakeRun f.cli f.args (Top.cpw f) dev inps).dev cmd) :=
  C06.handshake_commands_validated _ inp hd cmd hc

end Iodine.C13
