import IodineModel.Props.C06
import IodineModel.Props.C08Session
import IodineModel.Lemmas.C06Sb
import IodineModel.Lemmas.C06Sc
/-
C06, lifted to whole sessions of the CLIENT (handshake + tunnel phase): for EVERY sequence of datagrams, timeouts and tun frames

 (a) replies that do not match the client's recent queries are ignored — with the precise list of what "ignored" leaves changeable;
 (b) every list of the model that stands for a C array stays within the array (`CliBufInv`, `HsBufInv`), and what is handed to
     `write_tun`, `send_raw` and `system()` respects the sizes / the validation;
 (c) the client cannot be wedged: the handshake returns within 162 timeouts (Props/C06.lean), and in the tunnel phase two timeouts
     never pass without a datagram being sent or `client_tunnel` returning;
 and the composition `client_session_mem` / `client_session_live` over the reachability predicates of Props/C08Session.lean.

(This file continues Props/C06.lean; it is a separate module because it needs the client machines, Props/C01 and Props/C08Session.)
Helper lemmas: Lemmas/C06Sa.lean (tunnel: bookkeeping relation, buffer invariant), C06Sb.lean (handshake pass), C06Sc.lean (no wedge).

What `tunnel_dns` does BEFORE the id test (read off the C text, client.c:796-927, and proved below as the list of fields
`OnlyBookkeeping` does not mention): `send_ping_soon` (700 / 900 / 0 / 500), the SERVFAIL counter `packrecv_servfail` (and, at its
fifth SERVFAIL in lazy mode, `selecttimeout = 1` and the two `send_query` counters), `packrecv`, `send_query_recvcnt`, `packrecv_oos`
(and at the fifth out-of-sequence reply in lazy mode again `selecttimeout = 1`, counters reset) — and, if `send_ping_soon` was non-zero,
the ping that was due is sent at once (`send_ping` → `send_query`: id window, CMC seed; its "too few answers" block may switch lazy
mode off and park the thread in `handshake_lazyoff`).  NOT changed: `inpkt`, `outpkt`, the sequence numbers, `lastdownstreamtime`
(so a spoofer cannot keep a dead session alive), codecs, user id; nothing is written to the tun device.
-/
namespace Iodine.C06
open Iodine Iodine.Client

/-! ## (a) Replies that do not match the recent queries are ignored -/

/-- the reply's id is none of the ids of the client's last three queries (`chunkid`, `chunkid_prev`, `chunkid_prev2`) -/
def StaleId (c : Cli) (q : Rq) : Prop := q.id ≠ c.chunkid ∧ q.id ≠ c.chunkidPrev ∧ q.id ≠ c.chunkidPrev2

/-- the question the reply echoes does not start with a character a tunnel-phase query starts with (`P`/`p`: ping; the user-id
hex digit in either case: data) -/
def ForeignName (c : Cli) (q : Rq) : Prop :=
  q.name0 ≠ 80 ∧ q.name0 ≠ 112 ∧ q.name0 ≠ c.useridChar ∧ q.name0 ≠ c.useridChar2

/-- `c'` differs from `c` at most in the bookkeeping of the send scheduler: the timers `send_ping_soon` / `selecttimeout`, the
counters of `tunnel_dns` and `send_query`, the id window and the CMC seed (a ping was sent), the lazy flag (that ping's `send_query`
gave up on lazy mode), `running` (the 60 s rule, which does not look at the datagram).  Everything listed here is UNCHANGED. -/
structure OnlyBookkeeping (c c' : Cli) : Prop where
  inpkt : c'.inpkt = c.inpkt
  outpkt : c'.outpkt = c.outpkt
  outchunkresent : c'.outchunkresent = c.outchunkresent
  lastdownstreamtime : c'.lastdownstreamtime = c.lastdownstreamtime
  userid : c'.userid = c.userid ∧ c'.useridChar = c.useridChar ∧ c'.useridChar2 = c.useridChar2
  codecs : c'.dataenc = c.dataenc ∧ c'.downenc = c.downenc ∧ c'.doQtype = c.doQtype ∧ c'.edns0 = c.edns0
  conn : c'.conn = c.conn
  names : c'.topdomain = c.topdomain ∧ c'.hostnameMaxlen = c.hostnameMaxlen ∧ c'.datacmc = c.datacmc
  clock : c'.now = c.now ∧ c'.lastrawping = c.lastrawping

theorem onlyBookkeeping_of_keep {c c' : Cli} (h : C06L.Keep c c') : OnlyBookkeeping c c' :=
  ⟨h.inpkt, h.outpkt, h.resent, h.ldt, ⟨h.uid, h.uc, h.uc2⟩, ⟨h.enc, h.dn, h.ty, h.edns⟩, h.conn, ⟨h.td, h.ml, h.cmc⟩,
   ⟨h.now, h.lrp⟩⟩

instance (c : Cli) (q : Rq) : Decidable (StaleId c q) := by unfold StaleId; infer_instance
instance (c : Cli) (q : Rq) : Decidable (ForeignName c q) := by unfold ForeignName; infer_instance

/-- an event that is a DNS query -/
def IsQuery : CEvent → Prop
  | .query _ _ _ => True
  | _ => False

theorem isQuery_of_onlyQ {l : List CEvent} (h : C06L.OnlyQ l) : ∀ e ∈ l, IsQuery e := by
  intro e he
  obtain ⟨id, ty, n, rfl⟩ := h e he
  trivial

/-- **tunnel_unmatched_reply_ignored** (DNS mode, the thread in `client_tunnel`'s `select`).  A reply whose id is none of the last
three query ids, or whose question does not start with `P`, `p` or the user-id digit — whatever its length, header bytes, record
type, RCODE and content — changes nothing but the scheduler's bookkeeping: no tun write, no change of `inpkt` / `outpkt` / sequence
numbers / `lastdownstreamtime` / codecs.  The only thing it can trigger is the ping that was already due (`send_ping_soon ≠ 0`), plus
the lazy-off request that ping's `send_query` may decide on: at most two events, both queries; none at all when no ping was due or
the name is foreign. -/
theorem tunnel_unmatched_reply_ignored (s : CState) (hph : s.ph = .tunnel) (hconn : s.c.conn = .dnsNull) (q : Rq)
    (hu : StaleId s.c q ∨ ForeignName s.c q) :
    OnlyBookkeeping s.c (cstep s (.rq q)).1.c ∧
    (∀ e ∈ (cstep s (.rq q)).2.1, IsQuery e) ∧ (cstep s (.rq q)).2.1.length ≤ 2 ∧
    (s.c.sendPingSoon = 0 ∨ ForeignName s.c q → (cstep s (.rq q)).2.1 = []) := by
  obtain ⟨c, ph⟩ := s
  simp only at hph hconn hu
  subst hph
  have e1 : (recentId c q.id = false) ↔ StaleId c q := by
    simp only [recentId, StaleId, Bool.or_eq_false_iff, beq_eq_false_iff_ne, ne_eq, and_assoc]
  have e2 : (notData c q.name0 = true) ↔ ForeignName c q := by
    simp only [notData, ForeignName, Bool.and_eq_true, bne_iff_ne, ne_eq, and_assoc]
  have h := C06L.tunnelStep_unmatched c q hconn (hu.imp e1.mpr e2.mpr)
  refine ⟨onlyBookkeeping_of_keep h.1, isQuery_of_onlyQ h.2.1, h.2.2.1, ?_⟩
  intro hz
  exact h.2.2.2 (hz.imp id e2.mpr)

/-- **tun_write_needs_match** (DNS mode).  Contrapositive, for every state and phase: a step on a reply writes to the tun device
only if the thread was in `client_tunnel`'s `select`, the reply's id is one of the last three query ids AND its question starts with
an expected character.  (While the thread is inside `handshake_lazyoff` nothing is ever delivered.) -/
theorem tun_write_needs_match (s : CState) (hconn : s.c.conn = .dnsNull) (q : Rq) (f : List Nat)
    (hf : CEvent.tunw f ∈ (cstep s (.rq q)).2.1) : s.ph = .tunnel ∧ ¬ StaleId s.c q ∧ ¬ ForeignName s.c q := by
  have hq : ∀ l : List CEvent, (∀ e ∈ l, IsQuery e) → CEvent.tunw f ∉ l := fun l h hm => h _ hm
  cases hph : s.ph with
  | idle =>
    obtain ⟨c, ph⟩ := s
    simp only at hph
    subst hph
    cases hf
  | lazyoff i k =>
    obtain ⟨c, ph⟩ := s
    simp only at hph
    subst hph
    exact absurd hf (hq _ (isQuery_of_onlyQ (C06L.lazyoffStep_onlyQ c i k (.rq q))))
  | tunnel =>
    refine ⟨rfl, ?_, ?_⟩
    · intro h
      exact hq _ (tunnel_unmatched_reply_ignored s hph hconn q (Or.inl h)).2.1 hf
    · intro h
      exact hq _ (tunnel_unmatched_reply_ignored s hph hconn q (Or.inr h)).2.1 hf

/-- **lazyoff_unfitting_reply_ignored.**  While the thread waits in `handshake_lazyoff` (reached from `send_query` in mid-transfer)
a reply that does not carry the id of the latest query, or whose question does not start with `o`/`O`, changes NOTHING: same state,
no event, same `select`. -/
theorem lazyoff_unfitting_reply_ignored (s : CState) (i : Nat) (k : Resume) (hph : s.ph = .lazyoff i k) (q : Rq)
    (hu : q.id ≠ s.c.chunkid ∨ (q.name0 ≠ 111 ∧ q.name0 ≠ 79)) :
    cstep s (.rq q) = (s, [], .sel waitSel) := by
  obtain ⟨c, ph⟩ := s
  simp only at hph hu
  subst hph
  exact C06L.lazyoffStep_unmatched c i k q hu

/-- **raw_unmatched_frame_ignored** (raw UDP mode).  A datagram that is shorter than the 4-byte header, does not start with the
magic `10 d1 9e`, or carries another user nibble has exactly the effect of an empty datagram: `read_dns_withq` drops it before
`lastdownstreamtime` or the tun device are touched (what remains is what the loop does on ANY wake-up: 60 s rule, keepalive). -/
theorem raw_unmatched_frame_ignored (s : CState) (hconn : s.c.conn = .rawUdp) (b : List Nat)
    (hu : b.length < 4 ∨ b.take 3 ≠ [16, 209, 158] ∨ ((b.getD 3 0 % 16 : Nat) : Int) ≠ s.c.userid) :
    cstep s (.rawans b) = cstep s (.rawans []) := by
  obtain ⟨c, ph⟩ := s
  simp only at hconn hu
  have hkeep : ∀ c' : Cli, c'.userid = c.userid → readRaw c' b = readRaw c' [] := by
    intro c' hc'
    rw [C06L.readRaw_unmatched c' b, C06L.readRaw_unmatched c' []]
    · left; decide
    · rcases hu with h | h | h
      · exact Or.inl h
      · exact Or.inr (Or.inl h)
      · refine Or.inr (Or.inr ?_)
        rw [hc']
        have : (b.getD 3 0 &&& Gen.RAW_HDR_USR_MASK : Nat) = b.getD 3 0 % 16 := Nat.and_two_pow_sub_one_eq_mod _ 4
        rw [this]; exact h
  have hinput : ∀ c' : Cli, c'.userid = c.userid → tunnelDnsInput c' (.rawans b) = tunnelDnsInput c' (.rawans []) := by
    intro c' hc'
    unfold tunnelDnsInput
    split
    · rfl
    · simp only [tunnelDnsRaw, hkeep c' hc']
  cases ph with
  | idle => rfl
  | lazyoff i k => rfl
  | tunnel =>
    show tunnelStep c (.rawans b) = tunnelStep c (.rawans [])
    have hu' : (rawKeepalive (afterSelect c)).1.userid = c.userid := by
      unfold rawKeepalive afterSelect
      repeat' split
      all_goals rfl
    unfold tunnelStep
    simp only [fire]
    rw [hinput _ hu']
    rfl

/-- **handshake_unfitting_reply_ignored.**  In every `select` of the handshake that belongs to `handshake_waitdns` (all but the raw
login's own), a reply that does not carry the id of the LATEST query, or whose question starts with another character than the one
the waiting function expects (either case), has no effect but on the receive buffer `in[]`: nothing is sent, no counter moves, the
thread waits in the same `select` (whose timeout restarts — "effective timeout may be longer", as the C comment says). -/
theorem handshake_unfitting_reply_ignored (s : HState) (p : HPos) (hp : s.pos = some p) (hr : ∀ seed i, p ≠ .rawLogin seed i) (q : Rq)
    (hu : q.id ≠ s.c.chunkid ∨ (q.name0 ≠ p.wait.1 ∧ q.name0 ≠ p.wait.1 - 32)) :
    hstep s (.rq q) = ({ s with inb := q.buf.take (min q.rv.toNat p.wait.2.2) }, [], .sel p.sel) := by
  apply C06L.hstep_unmatched s p hp ?_ q hu
  cases p <;> first | rfl | exact absurd rfl (hr _ _)

/-! ### non-vacuity for (a) -/

/-- the example client of Props/C08Session.lean in the tunnel phase, a 21-byte packet in flight (ids 62631, 54904, 47177) -/
def exTun : CState := C08.exOt.1

set_option maxRecDepth 100000 in
/-- the hypotheses hold for a data answer carrying a whole one-fragment packet under the stale id 4711, the answer is ignored (state
unchanged up to three counters, nothing delivered) — while the same answer under the current id IS delivered -/
example :
    exTun.ph = .tunnel ∧ exTun.c.conn = .dnsNull ∧ exTun.c.chunkid = 62631 ∧
    StaleId exTun.c ⟨6, 4711, 10, 0, 51, [0, 33, 0x5a, 1, 2, 3]⟩ ∧
    (cstep exTun (.rq ⟨6, 4711, 10, 0, 51, [0, 33, 0x5a, 1, 2, 3]⟩)).2.1 = [] ∧
    (cstep exTun (.rq ⟨6, 4711, 10, 0, 51, [0, 33, 0x5a, 1, 2, 3]⟩)).1.c =
      { exTun.c with packrecv := 1, recvcnt := 1, packrecvOos := 1 } ∧
    C01.tunWrites (cstep exTun (.rq ⟨8, 62631, 10, 0, 51, [0, 33, 0x5a, 1, 2, 3, 4, 5]⟩)).2.1 = [[0, 0, 8, 0, 5]] := by
  decide +kernel

/-- **Observation (not "ignored"): the raw login.**  `handshake_raw_udp`'s second loop has its own `select`/`recv` and no id: ANY
datagram — here three bytes of junk — consumes one of its four attempts and makes the client send the next login frame.  Four junk
datagrams end the attempt to use raw mode (the client falls back to DNS mode); nothing else is affected. -/
def exRawLogin : HState :=
  { c := { exampleCli with chunkid := 4242, doQtype := 10 }, pos := some (.rawLogin 7 0), inb := [], args := ⟨true, true, 0⟩,
    pw := [], dev := [] }

set_option maxRecDepth 100000 in
example :
    (hstep exRawLogin (.rawans [1, 2, 3])).1.pos = some (.rawLogin 7 1) ∧
    (handshakeStepRun exRawLogin [.rawans [1, 2, 3], .rawans [], .rawans [9], .rawans [16, 209, 158, 16]]).pos = some (.edns 0) := by
  decide +kernel

/-! ## (b) Buffers -/

/-- **`CliBufInv`**: every list of the client's statics that stands for a C array fits the array, and the indices the code uses stay
inside what is stored:
* `inpkt.data[64*1024]` (reassembly): at most 64 KiB stored, `inpkt.len` within it (`uncompress` is handed `inpkt.data[0..len)`);
* `outpkt.data[64*1024]`: at most 64 KiB, `outpkt.len` within it, and `offset + sentlen ≤ len` — `send_chunk` reads
  `outpkt.data[offset .. len)` and computes `avail = len - offset` in `int`, which must not go negative. -/
structure CliBufInv (c : Cli) : Prop where
  inpkt_fits : c.inpkt.data.length ≤ 65536
  inpkt_len : c.inpkt.len ≤ c.inpkt.data.length
  outpkt_fits : c.outpkt.data.length ≤ 65536
  outpkt_len : c.outpkt.len ≤ c.outpkt.data.length
  outpkt_window : c.outpkt.offset + c.outpkt.sentlen ≤ c.outpkt.len

/-- the handshake adds the receive buffer `in[4096]` of the running `handshake_*` function -/
structure HsBufInv (s : HState) : Prop where
  in_fits : s.inb.length ≤ 4096
  cli : CliBufInv s.c

/-- An input of a step.  Answers (any `rv`, id, type, RCODE, any bytes), raw datagrams and timeouts are unrestricted.  A tun frame
is a byte string of less than 64 KiB: `tunnel_tun` reads at most `sizeof(in) = 64 KiB`; for a frame of EXACTLY 64 KiB the
transparent compression of the model (`0x5a ++ frame`) would need 65537 bytes where zlib's `compress2` never reports more than
`sizeof(out)` — the one place where the model's list could exceed the array is an artefact of the test scheme, excluded here (and
covered, with `outpkt.len ≤ 65537`, by `cli_buf_inv_any_frame`). -/
def InputOk : CInput → Prop
  | .tun f => (∀ b ∈ f, b < 256) ∧ f.length < 65536
  | _ => True

instance : DecidablePred InputOk := fun i => by cases i <;> unfold InputOk <;> infer_instance

/-- what an event of the tunnel phase may be: a frame that came out of `out[64*1024]` (handed to `write_tun`), a datagram built in
`send_raw`'s `packet[4096]`, a query; never a shell command -/
def TunEventOk : CEvent → Prop
  | .tunw f => f.length ≤ 65536
  | .rawtx b => b.length ≤ 4096
  | .query _ _ _ => True
  | .sys _ => False

/-- what an event of the handshake may be (shell commands: see `handshake_commands_validated`): never a tun write; the raw login
frame fits `packet[4096]` -/
def HsEventOk : CEvent → Prop
  | .tunw _ => False
  | .rawtx b => b.length ≤ 4096
  | _ => True

theorem binv_iff (c : Cli) : C06L.BInv 65536 c ↔ CliBufInv c := by
  constructor
  · intro h
    refine ⟨h.inData, h.inLen, h.outData, ?_, h.outOff⟩
    have := h.outMax
    have := h.outData
    rcases h.outStored with h1 | h1 <;> omega
  · intro h
    have := h.outpkt_fits
    have := h.outpkt_len
    exact ⟨h.inpkt_fits, h.inpkt_len, h.outpkt_fits, Or.inl h.outpkt_len, by omega, h.outpkt_window⟩

theorem frameOk_of_inputOk {inp : CInput} (h : InputOk inp) : C06L.FrameOk 65536 inp := by
  cases inp with
  | tun f => have := h.2; show min f.length 65536 + 1 ≤ 65536; omega
  | _ => trivial

theorem byteInput_of_inputOk {inp : CInput} (h : InputOk inp) : C08.ByteInput inp := by
  cases inp with
  | tun f => exact h.1
  | _ => trivial

theorem tunEventOk_iff (e : CEvent) : C06L.EvB e ↔ TunEventOk e := by cases e <;> exact Iff.rfl

theorem hsEventOk_iff (e : CEvent) : C06L.HEvB e ↔ HsEventOk e := by cases e <;> exact Iff.rfl

/-- **cli_buf_inv_cstep.**  `CliBufInv` is invariant under EVERY step of the tunnel machine — any answer (any `rv`: the reassembly
clamp `MIN(read - 2, sizeof(inpkt.data) - inpkt.len)` is what keeps `inpkt` inside its array), raw datagram, tun frame, timeout, in
DNS or raw mode, through `handshake_lazyoff` — and every event of the step respects the buffer it came out of. -/
theorem cli_buf_inv_cstep (s : CState) (inp : CInput) (hi : CliBufInv s.c) (hin : InputOk inp) :
    CliBufInv (cstep s inp).1.c ∧ ∀ e ∈ (cstep s inp).2.1, TunEventOk e := by
  have h := C06L.cstep_b s inp ((binv_iff _).mpr hi) (frameOk_of_inputOk hin)
  exact ⟨(binv_iff _).mp h.inv, fun e he => (tunEventOk_iff e).mp (h.evs e he)⟩

/-- the same for tun frames of any length (the model cuts them at `sizeof(in)` = 64 KiB): everything but `outpkt.len ≤ 64 KiB` -/
theorem cli_buf_inv_any_frame (s : CState) (inp : CInput) (hi : C06L.BInv 65537 s.c) :
    C06L.BInv 65537 (cstep s inp).1.c ∧ ∀ e ∈ (cstep s inp).2.1, TunEventOk e := by
  have hf : C06L.FrameOk 65537 inp := by
    cases inp with
    | tun f => show min f.length 65536 + 1 ≤ 65537; omega
    | _ => trivial
  have h := C06L.cstep_b s inp hi hf
  exact ⟨h.inv, fun e he => (tunEventOk_iff e).mp (h.evs e he)⟩

/-- **hs_buf_inv_hstep.**  `HsBufInv` is invariant under EVERY step of the handshake machine: `in[]` never holds more than 4096
bytes (every `handshake_waitdns` call passes `sizeof(in)` or `sizeof(in) - 1`; the raw login `recv`s `sizeof(in)`), the packet
buffers are not touched at all, no event is a tun write. -/
theorem hs_buf_inv_hstep (s : HState) (inp : CInput) (hi : HsBufInv s) :
    HsBufInv (hstep s inp).1 ∧ (hstep s inp).1.c.inpkt = s.c.inpkt ∧ (hstep s inp).1.c.outpkt = s.c.outpkt ∧
      ∀ e ∈ (hstep s inp).2.1, HsEventOk e := by
  have h := C06L.hstep_hq (ip := s.c.inpkt) (op := s.c.outpkt) (dv := s.dev) s inp ⟨rfl, rfl, hi.in_fits, rfl⟩
  refine ⟨⟨h.1.2.2.1, ?_⟩, h.1.1, h.1.2.1, fun e he => (hsEventOk_iff e).mp (h.2 e he)⟩
  exact (binv_iff _).mp (((binv_iff _).mpr hi.cli).sameP ⟨h.1.1, h.1.2.1⟩)

theorem hs_buf_inv_start (c : Cli) (args : HsArgs) (pw dev : List Nat) (hi : CliBufInv c) :
    HsBufInv (hsStart c args pw dev).1 ∧ (hsStart c args pw dev).1.c.inpkt = c.inpkt ∧
      (hsStart c args pw dev).1.c.outpkt = c.outpkt ∧ ∀ e ∈ (hsStart c args pw dev).2.1, HsEventOk e := by
  have h := C06L.hsStart_hq c args pw dev
  refine ⟨⟨h.1.2.2.1, ?_⟩, h.1.1, h.1.2.1, fun e he => (hsEventOk_iff e).mp (h.2 e he)⟩
  exact (binv_iff _).mp (((binv_iff _).mpr hi).sameP ⟨h.1.1, h.1.2.1⟩)

/-- the positions whose functions store `in[read] = 0` wait with `buflen = sizeof(in) - 1`: the store is inside `in[4096]`
(5068d76; before it a 4096-byte reply made `handshake_switch_codec`/`_downenc` write `in[4096]`) -/
theorem terminator_store_inside (seed i bits : Nat) :
    (HPos.login seed i).wait.2.2 < 4096 ∧ (HPos.switchCodec bits i).wait.2.2 < 4096 ∧ (HPos.switchDown i).wait.2.2 < 4096 := by
  refine ⟨?_, ?_, ?_⟩ <;> simp [HPos.wait]

set_option maxRecDepth 100000 in
/-- non-vacuity: `CliBufInv` holds for the example client in mid-transfer, and the step on a data answer keeps it -/
example : CliBufInv exTun.c ∧
    (cstep exTun (.rq ⟨8, 62631, 10, 0, 51, [0, 32, 0x5a, 1, 2, 3, 4, 5]⟩)).1.c.inpkt = ⟨6, 0, 0, [0x5a, 1, 2, 3, 4, 5], 1, 0⟩ :=
  ⟨⟨by decide +kernel, by decide +kernel, by decide +kernel, by decide +kernel, by decide +kernel⟩, by decide +kernel⟩

/-- a reassembly buffer that already holds 65530 bytes (fragment 3 of downstream packet 1) -/
def exFull : Cli :=
  { exTun.c with inpkt := { exTun.c.inpkt with len := 65530, data := List.replicate 65530 0, seqno := 1, fragment := 3 } }

/-- non-vacuity of the clamp: appending a 100-byte fragment to it stores 6 bytes — `inpkt` is full at exactly 65536, not beyond -/
example : CliBufInv exFull ∧
    (appendFragment exFull (decodeHdr [0, 40]) ([0, 40] ++ List.replicate 100 7) 102).inpkt.len = 65536 ∧
    (appendFragment exFull (decodeHdr [0, 40]) ([0, 40] ++ List.replicate 100 7) 102).inpkt.data.length = 65536 := by
  refine ⟨⟨?_, ?_, by decide +kernel, by decide +kernel, by decide +kernel⟩, ?_⟩
  · simp [exFull, -List.reduceReplicate]
  · simp [exFull, -List.reduceReplicate]
  · simp [appendFragment, exFull, Gen.PACKET_DATA_SIZE, -List.reduceReplicate]

/-! ## (c) The tunnel phase cannot be wedged -/

/-- a datagram leaves the process: a DNS query or a raw frame -/
def IsTx : CEvent → Prop
  | .query _ _ _ => True
  | .rawtx _ => True
  | _ => False

/-- some step of the run of `ins` from `s` sends a datagram -/
def SendsIn : CState → List CInput → Prop
  | _, [] => False
  | s, i :: r => (∃ e ∈ (cstep s i).2.1, IsTx e) ∨ SendsIn (cstep s i).1 r

/-- the client state the tunnel machine is in after the handshake outputs `oh` and the tunnel inputs `tin` -/
def tunState (oh : HOut) (tin : List CInput) : CState := (C08.tunRun oh tin).1

theorem sends_iff (l : List CEvent) : C06L.Sends l ↔ ∃ e ∈ l, IsTx e := by
  constructor
  · rintro ⟨e, he, ht⟩
    exact ⟨e, he, by cases e <;> first | trivial | exact ht.elim⟩
  · rintro ⟨e, he, ht⟩
    exact ⟨e, he, by cases e <;> first | trivial | exact ht.elim⟩

theorem tunnel_no_wedge_from {L : Nat} {td : List Nat} (E : CliQ.Env L td) :
    ∀ (ins : List CInput) (s : CState), CliQ.Late L td s.c → (∀ i ∈ ins, C08.ByteInput i) → C06L.need s.ph ≤ ticks ins →
      SendsIn s ins ∨ (C01.cafter s ins).ph = .idle := by
  intro ins
  induction ins with
  | nil =>
    intro s _ _ hn
    right
    show s.ph = .idle
    have : C06L.need s.ph = 0 := by simpa [ticks] using hn
    cases hp : s.ph <;> simp [hp, C06L.need] at this ⊢
  | cons i r ih =>
    intro s hl hb hn
    have hg := CliQ.cstep_good E s i hl ((C08.byteInput_iff i).1 (hb i List.mem_cons_self))
    have ht : ticks (i :: r) = C06L.tickOf i + ticks r := by
      unfold ticks
      cases i <;> simp [C06L.tickOf] <;> omega
    rcases C06L.cstep_need E s i hl with h | h
    · exact Or.inl (Or.inl ((sends_iff _).mp h))
    · rcases ih (cstep s i).1 hg.late (fun j hj => hb j (List.mem_cons_of_mem _ hj)) (by omega) with h2 | h2
      · exact Or.inl (Or.inr h2)
      · exact Or.inr h2

/-- **tunnel_no_wedge.**  From every state the tunnel phase can reach (after any handshake that returned 0 and any inputs), for
EVERY continuation of the inputs: once two `select` timeouts have occurred, the client has sent a datagram (a data chunk, a ping, a
lazy-off request, a raw keepalive) or `client_tunnel` has returned (60 s without downstream data) — the client never sits silent for
more than two timeouts, whatever it was told.  (One timeout suffices in `client_tunnel`'s own `select`; the second is the fifth
timeout of `handshake_lazyoff`, after which that function returns without sending.)  A timeout is at most
`max(1, selecttimeout)` seconds; no reply can postpone it indefinitely except by making the client SEND (a reply that
restarts `select` without a send leaves `send_ping_soon ≤ 900 ms` pending). -/
theorem tunnel_no_wedge (L : Nat) (c0 : Cli) (args : HsArgs) (pw dev : List Nat) (hc : C08.ClientCfgOk L c0)
    (o : CState × List CEvent × Next) (ho : C08.TunOut c0 args pw dev o) (more : List CInput)
    (hb : ∀ i ∈ more, C08.ByteInput i) (ht : 2 ≤ ticks more) :
    SendsIn o.1 more ∨ (C01.cafter o.1 more).ph = .idle := by
  have hg := C08.tunOut_good hc ho
  exact tunnel_no_wedge_from (C08.env_of_cfg hc) more o.1 hg.late hb (Nat.le_trans (C06L.need_le_two _) ht)

/-- … and in `client_tunnel`'s own `select` ONE timeout suffices -/
theorem tunnel_tick_sends_or_ends (L : Nat) (c0 : Cli) (args : HsArgs) (pw dev : List Nat) (hc : C08.ClientCfgOk L c0)
    (o : CState × List CEvent × Next) (ho : C08.TunOut c0 args pw dev o) (hph : o.1.ph = .tunnel) :
    (∃ e ∈ (cstep o.1 .tick).2.1, IsTx e) ∨ (cstep o.1 .tick).2.2 = .finished 0 := by
  have hg := C08.tunOut_good hc ho
  obtain ⟨⟨c, ph⟩, evs, nx⟩ := o
  simp only at hph
  subst hph
  have hl : CliQ.Late L c0.topdomain c := hg.late
  have hl1 : CliQ.Late L c0.topdomain (afterSelect (fire c (selectOf c) .tick).1) :=
    hl.sameW ((CliQ.sameW_fire c _ .tick).trans (CliQ.sameW_afterSelect _))
  show (∃ e ∈ (tunnelStep c .tick).2.1, IsTx e) ∨ (tunnelStep c .tick).2.2 = .finished 0
  unfold tunnelStep
  simp only
  split
  · exact Or.inr rfl
  · left
    simp only [fire]
    rw [C06L.settle_evs]
    exact (sends_iff _).mp (C06L.timeoutBranch_sends (C08.env_of_cfg hc) _ hl1)

/-- **select_timeout_bound** (ticks → seconds).  A timeout of the `select` the tunnel-phase thread is parked in comes after at most
`max(1, selecttimeout)` seconds (`send_ping_soon` is only ever assigned 0, 1, 5, 20, 500, 700, 900 ms; `selecttimeout` is the `-I`
value, 1 after a fallback, 20 in raw mode): 1 s while a packet is in flight or inside `handshake_lazyoff`, `send_ping_soon` ms when a
ping is due, `selecttimeout` s otherwise.  Together with `tunnel_no_wedge`: silence lasts at most `2 · max(1, selecttimeout)` s. -/
theorem select_timeout_bound (s : CState) (hs : s.c.sendPingSoon ≤ 1000) (sel : Sel) (h : pending s = .sel sel) :
    sel.to ≤ max 1000000 (s.c.selecttimeout * 1000000) := by
  obtain ⟨c, ph⟩ := s
  cases ph with
  | idle => cases h
  | lazyoff i k =>
    simp only [pending, Next.sel.injEq] at h
    subst h
    show (1000000 : Int) ≤ _
    omega
  | tunnel =>
    simp only [pending, Next.sel.injEq] at h
    subst h
    simp only at hs
    unfold selectOf
    simp only
    split
    · have : ((c.sendPingSoon : Nat) : Int) ≤ 1000 := by omega
      omega
    · split <;> omega

set_option maxRecDepth 100000 in
/-- non-vacuity: the example session of Props/C08Session.lean (a packet in flight): the first timeout re-sends the chunk -/
example : (∃ e ∈ (cstep C08.exOt.1 .tick).2.1, IsTx e) ∧ C08.exOt.1.ph = .tunnel ∧ 2 ≤ ticks [.tick, .rq Rq.zero, .tick] := by
  refine ⟨?_, by decide +kernel, by decide⟩
  rcases tunnel_tick_sends_or_ends 255 C08.exCli ⟨false, false, 1200⟩ [] [] C08.exCfg C08.exOt C08.exOt_out (by decide +kernel) with h | h
  · exact h
  · exact absurd h (by decide +kernel)

/-! ## Composition: whole sessions, EVERY input sequence through handshake and tunnel phase

`C08.hsRun c0 args pw dev hin` is the output (state, events, next `select`) of the LAST step of the handshake machine started by
`client_handshake()` on the statics `c0` and fed `hin`; `C08.tunRun oh tin` the output of the last step of the tunnel machine started
on the statics the handshake left.  `hin`, `tin` are arbitrary, so a statement about the last step is a statement about every step. -/

theorem hsRun_snoc (c0 : Cli) (args : HsArgs) (pw dev : List Nat) (pre : List CInput) (inp : CInput) :
    C08.hsRun c0 args pw dev (pre ++ [inp]) = hstep (C08.hsRun c0 args pw dev pre).1 inp := by
  simp [C08.hsRun, List.foldl_append]

theorem tunRun_snoc (oh : HOut) (pre : List CInput) (inp : CInput) :
    C08.tunRun oh (pre ++ [inp]) = cstep (C08.tunRun oh pre).1 inp := by
  simp [C08.tunRun, List.foldl_append]

theorem foldl_fst_hs (l : List CInput) : ∀ o : HOut,
    (l.foldl (fun o i => hstep o.1 i) o).1 = l.foldl (fun s i => (hstep s i).1) o.1 := by
  induction l with
  | nil => intro o; rfl
  | cons i r ih => intro o; exact ih _

theorem foldl_fst_tun (l : List CInput) : ∀ o : CState × List CEvent × Next,
    (l.foldl (fun o i => cstep o.1 i) o).1 = l.foldl (fun s i => (cstep s i).1) o.1 := by
  induction l with
  | nil => intro o; rfl
  | cons i r ih => intro o; exact ih _

theorem hsRun_state (c0 : Cli) (args : HsArgs) (pw dev : List Nat) (hin : List CInput) :
    (C08.hsRun c0 args pw dev hin).1 = handshakeRun c0 args pw dev hin := foldl_fst_hs hin _

theorem tunRun_state (oh : HOut) (tin : List CInput) :
    (C08.tunRun oh tin).1 = C01.cafter (startTunnel oh.1.c).1 tin := foldl_fst_tun tin _

theorem hq_fold (ip op : Packet) (dev : List Nat) (l : List CInput) : ∀ o : HOut, C06L.HQ ip op dev o.1 →
    C06L.HQ ip op dev (l.foldl (fun o i => hstep o.1 i) o).1 := by
  induction l with
  | nil => exact fun _ h => h
  | cons i r ih => exact fun o h => ih _ (C06L.hstep_hq o.1 i h).1

theorem hsRun_hq (c0 : Cli) (args : HsArgs) (pw dev : List Nat) (hin : List CInput) :
    C06L.HQ c0.inpkt c0.outpkt dev (C08.hsRun c0 args pw dev hin).1 :=
  hq_fold _ _ _ hin _ (C06L.hsStart_hq c0 args pw dev).1

/-- **handshake_session_safe.**  For every static state `c0` whose packet buffers fit (what `client_init` leaves: both empty), every
device name of at most 430 bytes and EVERY input sequence `hin` of the handshake — answers of any length, id, type, RCODE and content,
raw datagrams, timeouts, in any order:
* `in[4096]` of the running handshake function and the packet buffers stay within their arrays (`HsBufInv`); the packet buffers and
  the device name are never touched;
* no step writes to the tun device; a raw frame sent fits `packet[4096]`;
* every `system()` command is a validated C13 command (address or MTU) built from ONE login reply;
* after 162 timeouts `client_handshake` has returned. -/
theorem handshake_session_safe (c0 : Cli) (args : HsArgs) (pw dev : List Nat) (hb : CliBufInv c0) (hd : dev.length ≤ 430)
    (hin : List CInput) :
    HsBufInv (C08.hsRun c0 args pw dev hin).1 ∧
    (C08.hsRun c0 args pw dev hin).1.c.inpkt = c0.inpkt ∧ (C08.hsRun c0 args pw dev hin).1.c.outpkt = c0.outpkt ∧
    (C08.hsRun c0 args pw dev hin).1.dev = dev ∧
    (∀ e ∈ (C08.hsRun c0 args pw dev hin).2.1, HsEventOk e) ∧
    (∀ cmd, CEvent.sys cmd ∈ (C08.hsRun c0 args pw dev hin).2.1 → C13.IpCmd dev cmd ∨ C13.MtuCmd dev cmd) ∧
    (162 ≤ ticks hin → (C08.hsRun c0 args pw dev hin).1.pos = none) := by
  have hq := hsRun_hq c0 args pw dev hin
  refine ⟨⟨hq.2.2.1, ?_⟩, hq.1, hq.2.1, hq.2.2.2, ?_, ?_, ?_⟩
  · exact (binv_iff _).mp (((binv_iff _).mpr hb).sameP ⟨hq.1, hq.2.1⟩)
  · rcases List.eq_nil_or_concat hin with rfl | ⟨pre, inp, rfl⟩
    · exact fun e he => (hsEventOk_iff e).mp ((C06L.hsStart_hq c0 args pw dev).2 e he)
    · rw [List.concat_eq_append, hsRun_snoc]
      exact fun e he => (hsEventOk_iff e).mp ((C06L.hstep_hq _ inp (hsRun_hq c0 args pw dev pre)).2 e he)
  · intro cmd hc
    rcases List.eq_nil_or_concat hin with rfl | ⟨pre, inp, rfl⟩
    · exact absurd hc (handshake_start_no_command c0 args pw dev cmd)
    · rw [List.concat_eq_append, hsRun_snoc] at hc
      have hdv := (hsRun_hq c0 args pw dev pre).2.2.2
      have := (handshake_commands_validated _ inp (by rw [hdv]; exact hd) cmd hc).2
      rwa [hdv] at this
  · intro ht
    rw [hsRun_state]
    exact handshake_terminates c0 args pw dev hin ht

theorem startTunnel_pkts (c : Cli) : (startTunnel c).1.c.inpkt = c.inpkt ∧ (startTunnel c).1.c.outpkt = c.outpkt := by
  unfold startTunnel loopTop
  split <;> exact ⟨rfl, rfl⟩

theorem bout_fold (l : List CInput) : ∀ o : CState × List CEvent × Next, C06L.BOut 65536 o → (∀ i ∈ l, InputOk i) →
    C06L.BOut 65536 (l.foldl (fun o i => cstep o.1 i) o) := by
  induction l with
  | nil => exact fun _ h _ => h
  | cons i r ih =>
    intro o h hok
    exact ih _ (C06L.cstep_b o.1 i h.inv (frameOk_of_inputOk (hok i List.mem_cons_self)))
      (fun j hj => hok j (List.mem_cons_of_mem _ hj))

theorem tunRun_binv (c0 : Cli) (args : HsArgs) (pw dev : List Nat) (hb : CliBufInv c0) (hin tin : List CInput)
    (hok : ∀ i ∈ tin, InputOk i) :
    C06L.BOut 65536 (C08.tunRun (C08.hsRun c0 args pw dev hin) tin) := by
  have hq := hsRun_hq c0 args pw dev hin
  exact bout_fold tin _ (C06L.startTunnel_b _ (((binv_iff _).mpr hb).sameP ⟨hq.1, hq.2.1⟩)) hok

/-- **tunnel_session_safe.**  … and then EVERY input sequence `tin` of the tunnel phase (answers with any header, id, length up to and
beyond 64 KiB, raw datagrams, tun frames below 64 KiB, timeouts; DNS or raw mode; through `handshake_lazyoff`):
* `CliBufInv` holds after every step;
* what is handed to `write_tun` came out of the 64 KiB `uncompress` buffer, a raw frame fits `packet[4096]`, no `system()` call;
* (with the empty reassembly buffer `client_init` leaves) every frame written to the tun device is `uncompress` of a buffer
  reassembled from fragments that were really received — one sequence number, consecutive fragment numbers, at most 16, ending in
  the answer of this very step; or, in raw mode, of the body of this step's datagram (Props/C01.lean `FromReceived`). -/
theorem tunnel_session_safe (c0 : Cli) (args : HsArgs) (pw dev : List Nat) (hb : CliBufInv c0) (hin tin : List CInput)
    (hok : ∀ i ∈ tin, InputOk i) :
    CliBufInv (C08.tunRun (C08.hsRun c0 args pw dev hin) tin).1.c ∧
    (∀ e ∈ (C08.tunRun (C08.hsRun c0 args pw dev hin) tin).2.1, TunEventOk e) ∧
    (c0.inpkt.len = 0 → tin ≠ [] →
      ∀ f ∈ C01.tunWrites (C08.tunRun (C08.hsRun c0 args pw dev hin) tin).2.1, C01.FromReceived tin f) := by
  have h := tunRun_binv c0 args pw dev hb hin tin hok
  refine ⟨(binv_iff _).mp h.inv, fun e he => (tunEventOk_iff e).mp (h.evs e he), ?_⟩
  intro h0 hne f hf
  rcases List.eq_nil_or_concat tin with rfl | ⟨pre, inp, rfl⟩
  · exact absurd rfl hne
  · rw [List.concat_eq_append] at hf ⊢
    rw [tunRun_snoc, tunRun_state] at hf
    have hq := hsRun_hq c0 args pw dev hin
    have hst : (startTunnel (C08.hsRun c0 args pw dev hin).1.c).1.c.inpkt.len = 0 := by
      rw [(startTunnel_pkts _).1, hq.1]; exact h0
    exact C01.delivered_is_concat_of_received_fragments_client _ hst pre inp f hf

/-- **client_session_live** (needs the configuration range of C08, `ClientCfgOk`: `100 ≤ hostname_maxlen`, 24 characters of room).
For every handshake that returned 0 and every tunnel-phase input sequence:
* every query sent is legal and at most 253 characters long — far inside `buf[4096]` of `send_chunk` / `send_packet` and
  `packet[4096]` of `send_query` (OUTSIDE that range, `-M` small against the domain, `build_hostname`'s `size_t` subtraction wraps and the
  name is not bounded by anything: see Props/C08Main.lean `client_main_gap`);
* the client is never silent for more than two timeouts (`tunnel_no_wedge`). -/
theorem client_session_live (L : Nat) (c0 : Cli) (args : HsArgs) (pw dev : List Nat) (hc : C08.ClientCfgOk L c0)
    (hin tin : List CInput) (hfin : (C08.hsRun c0 args pw dev hin).2.2 = .finished 0) (hok : ∀ i ∈ tin, InputOk i) :
    (∀ id ty name, CEvent.query id ty name ∈ (C08.tunRun (C08.hsRun c0 args pw dev hin) tin).2.1 →
      C08.QueryLegal L c0.topdomain id ty name ∧ name.length ≤ 253) ∧
    (∀ more : List CInput, (∀ i ∈ more, InputOk i) → 2 ≤ ticks more →
      SendsIn (C08.tunRun (C08.hsRun c0 args pw dev hin) tin).1 more ∨
      (C01.cafter (C08.tunRun (C08.hsRun c0 args pw dev hin) tin).1 more).ph = .idle) := by
  have ho := C08.tunOut_run c0 args pw dev hin tin hfin (fun i hi => byteInput_of_inputOk (hok i hi))
  refine ⟨?_, ?_⟩
  · intro id ty name hm
    have hq := C08.client_queries_legal_partial L c0 args pw dev hc id ty name (Or.inr ⟨_, ho, hm⟩)
    exact ⟨hq, hq.legal.1⟩
  · intro more hmore ht
    exact tunnel_no_wedge L c0 args pw dev hc _ ho more (fun i hi => byteInput_of_inputOk (hmore i hi)) ht

/-- **client_session_safe**: the composition.  Statics with fitting, empty packet buffers in the range of C08, a device name of at
most 430 bytes; EVERY handshake input sequence, and — if the handshake returned 0 — EVERY tunnel input sequence. -/
theorem client_session_safe (L : Nat) (c0 : Cli) (args : HsArgs) (pw dev : List Nat) (hc : C08.ClientCfgOk L c0)
    (hb : CliBufInv c0) (h0 : c0.inpkt.len = 0) (hd : dev.length ≤ 430) (hin tin : List CInput) (hok : ∀ i ∈ tin, InputOk i) :
    -- handshake: buffers, events, commands, termination
    (HsBufInv (C08.hsRun c0 args pw dev hin).1 ∧
     (∀ e ∈ (C08.hsRun c0 args pw dev hin).2.1, HsEventOk e) ∧
     (∀ cmd, CEvent.sys cmd ∈ (C08.hsRun c0 args pw dev hin).2.1 → C13.IpCmd dev cmd ∨ C13.MtuCmd dev cmd) ∧
     (∀ id ty name, CEvent.query id ty name ∈ (C08.hsRun c0 args pw dev hin).2.1 → name.length ≤ 253) ∧
     (162 ≤ ticks hin → (C08.hsRun c0 args pw dev hin).1.pos = none)) ∧
    -- tunnel phase
    ((C08.hsRun c0 args pw dev hin).2.2 = .finished 0 →
     CliBufInv (C08.tunRun (C08.hsRun c0 args pw dev hin) tin).1.c ∧
     (∀ e ∈ (C08.tunRun (C08.hsRun c0 args pw dev hin) tin).2.1, TunEventOk e) ∧
     (tin ≠ [] → ∀ f ∈ C01.tunWrites (C08.tunRun (C08.hsRun c0 args pw dev hin) tin).2.1, C01.FromReceived tin f) ∧
     (∀ id ty name, CEvent.query id ty name ∈ (C08.tunRun (C08.hsRun c0 args pw dev hin) tin).2.1 → name.length ≤ 253) ∧
     (∀ more : List CInput, (∀ i ∈ more, InputOk i) → 2 ≤ ticks more →
        SendsIn (C08.tunRun (C08.hsRun c0 args pw dev hin) tin).1 more ∨
        (C01.cafter (C08.tunRun (C08.hsRun c0 args pw dev hin) tin).1 more).ph = .idle)) := by
  have hh := handshake_session_safe c0 args pw dev hb hd hin
  refine ⟨⟨hh.1, hh.2.2.2.2.1, hh.2.2.2.2.2.1, ?_, hh.2.2.2.2.2.2⟩, ?_⟩
  · intro id ty name hm
    exact (C08.client_queries_legal_partial L c0 args pw dev hc id ty name
      (Or.inl ⟨_, C08.hsOut_run c0 args pw dev hin, hm⟩)).legal.1
  · intro hfin
    have ht := tunnel_session_safe c0 args pw dev hb hin tin hok
    have hl := client_session_live L c0 args pw dev hc hin tin hfin hok
    exact ⟨ht.1, ht.2.1, ht.2.2 h0, fun id ty name hm => (hl.1 id ty name hm).2, hl.2⟩

/-! ### non-vacuity of the composition: the example session of Props/C08Session.lean -/

theorem exCli_buf : CliBufInv C08.exCli ∧ C08.exCli.inpkt.len = 0 :=
  ⟨⟨by decide +kernel, by decide +kernel, by decide +kernel, by decide +kernel, by decide +kernel⟩, rfl⟩

/-- a tun frame, then the answer that acknowledges its only fragment and carries a one-fragment downstream packet -/
def exTunInputs : List CInput := [.tun C08.exFrame, .rq ⟨8, 62631, 10, 0, 51, [16, 33, 0x5a, 1, 2, 3, 4, 5]⟩]

set_option maxRecDepth 100000 in
/-- the handshake inputs `C08.exHsInputs` end the handshake with 0 (`C08.exOh_fin`), `exTunInputs` are legal tunnel inputs, and the
last step writes the downstream frame to the tun device -/
theorem exSession_facts : C08.exOh.2.2 = .finished 0 ∧ (∀ i ∈ exTunInputs, InputOk i) ∧
    C01.tunWrites (C08.tunRun C08.exOh exTunInputs).2.1 = [[0, 0, 8, 0, 5]] := by
  refine ⟨C08.exOh_fin, by decide +kernel, ?_⟩
  unfold C08.tunRun
  rw [C08.exOh_state]
  decide +kernel

/-- `client_session_safe` applies to it: in particular that frame is `FromReceived` -/
example : C01.FromReceived exTunInputs [0, 0, 8, 0, 5] := by
  have e : C08.hsRun C08.exCli ⟨false, false, 1200⟩ [] [] C08.exHsInputs = C08.exOh := rfl
  have h := (client_session_safe 255 C08.exCli ⟨false, false, 1200⟩ [] [] C08.exCfg exCli_buf.1 exCli_buf.2 (Nat.zero_le _)
    C08.exHsInputs exTunInputs exSession_facts.2.1).2
  rw [e] at h
  have h2 := (h C08.exOh_fin).2.2.1 (by simp [exTunInputs])
  apply h2
  rw [exSession_facts.2.2]
  exact List.mem_cons_self

end Iodine.C06
