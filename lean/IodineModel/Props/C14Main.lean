import IodineModel.Props.C14
import IodineModel.Lemmas.OptTop
/-
C14 from the command line on.
-/
namespace Iodine.C14
open Iodine Iodine.Server Iodine.Server.Options

/-- **answers_injective_into_queries_from_main.**  For every command line and environment with which iodined reaches `tunnel()` and
every run afterwards (queries as `read_dns` delivers them: `id2 = 0`), every emitted DNS answer consumes a distinct, earlier received,
not yet answered query datagram with the same address, id, name and type.  No hypothesis on the configuration (there never was one);
`WfStep` is a property of `read_dns`, not of the configuration (at byte level it is proved: `C10.session_answer_echoes_received_query_from_main`). -/
theorem answers_injective_into_queries_from_main (env : Env) (argv : List (List Nat)) (f : Final) (h : Top.Starts env argv f)
    (rnd : List Nat) (d4 d6 : Nat) (steps : List Step) (hm : Monotone (Top.entry f rnd d4 d6) steps)
    (hwf : ∀ st ∈ steps, WfStep st) : Accepts (traceFrom (Top.entry f rnd d4 d6) steps) := by
  rw [OptL.entry_eq_start h] at hm ⊢
  exact answers_injective_into_queries _ rnd steps hm hwf

end Iodine.C14
