import IodineModel.Server.WriteDns
import IodineModel.Client.ReadDns
import IodineModel.Lemmas.DownstreamE2E
import IodineModel.Lemmas.DownstreamMx
import IodineModel.Props.C10Session
/-
C09 — downstream answers decode exactly (or to a prefix), monotonically in size.

"For every payload of at least 2 bytes and every combination of query type and downstream codec, what the
client extracts from the server's answer is exactly the payload when it fits that answer format, and otherwise a
proper prefix of it or nothing — never different bytes.  If a payload of some length is delivered exactly, so is
every shorter one, which is what makes the client's fragment-size probe a sound binary search."

Model: `Server.WriteDns.writeDns` (iodined.c `write_dns`, `write_dns_nameenc`) → `Wire.DnsEncode.dnsEncodeAnswer`
→ the datagram → `Wire.dnsDecodeAnswer` → `Client.ReadDns.readDnsWithq` (client.c `read_dns_withq`, `dns_namedec`).
Helper lemmas: Lemmas/WireRt*.lean (round trip through the wire), Lemmas/Downstream*.lean, Lemmas/Mx*.lean.

The specification side below (`Setting`, `fits` and the arithmetic it is made of) does not refer to the model's
code.  Quantification: every client buffer size `B` with 4096 ≤ B ≤ 65536 (the client uses 4096 in the
handshake and 64 KiB in the tunnel), every reachable state `td` of the rotating pseudo-TLD, every query id,
the seven query types, every legal query name (C10's `LegalName`: 1..253 characters), every payload of 2..4096
bytes, and EVERY value of the downstream-codec byte (`T S U V R` are the ones the protocol uses; any other value
is treated like `T` by the server).
-/
namespace Iodine.C09
open Iodine Iodine.Codec Iodine.Wire Iodine.Server.WriteDns Iodine.Client.ReadDns Iodine.C10

/-! ### Specification vocabulary -/

/-- NULL, PRIVATE, TXT, SRV, MX, CNAME, A -/
def QTypes : List Nat := [10, 65399, 16, 33, 15, 5, 1]

/-- the downstream codec letters `T S U V R` (Base32, Base64, Base64u, Base128, Raw) -/
def Codecs : List Nat := [84, 83, 85, 86, 82]

/-- the datagram the server sends for the query `(id, ty, qn)` and the payload `p`, if any -/
def answer (td : Td) (id ty : Nat) (qn p : List Nat) (dn : Nat) : Option (List Nat) :=
  (writeDns td (id, ty, qn) p dn).2

/-- what the client, reading into a buffer of `B` bytes, ends up with (empty when `read_dns_withq` returns
`≤ 0` or when nothing was sent); `.error` would be a memory fault in the decoder -/
def extract (B : Nat) (td : Td) (id ty : Nat) (qn p : List Nat) (dn : Nat) : Except Fault (List Nat) :=
  match answer td id ty qn p dn with
  | none => .ok []
  | some pkt => (readDnsWithq B pkt).map (·.buf)

/-- the hypotheses of the property -/
structure Setting (B : Nat) (td : Td) (id ty : Nat) (qn p : List Nat) : Prop where
  buf : 4096 ≤ B ∧ B ≤ 65536
  /-- `td1`, `td2` start at 0 and are reduced mod 26 / 25 after every step -/
  td_ok : td.1 < 26 ∧ td.2 < 25
  id_ok : id < 65536
  ty_ok : ty ∈ QTypes
  qn_ok : LegalName qn
  p_len : 2 ≤ p.length ∧ p.length ≤ 4096
  p_bytes : ∀ b ∈ p, b < 256

/-- bits per character of the codec a host name (CNAME/A/MX/SRV) or TXT answer is written in:
`S`, `U` → 6, `V` → 7, everything else 5 (`R` only exists for TXT; host names fall back to Base32) -/
def bits (dn : Nat) : Nat := if dn = 83 ∨ dn = 85 then 6 else if dn = 86 then 7 else 5

/-- `⌈8n/k⌉`: characters needed for `n` bytes -/
def chars (k n : Nat) : Nat := (8 * n + k - 1) / k

/-- length of the TXT text: the codec letter and the encoding (`R`: the bytes themselves) -/
def txtLen (dn n : Nat) : Nat := 1 + (if dn = 82 then n else chars (bits dn) n)

/-- encoded characters one host name can hold: 255 - 6 = 249, minus 4 for dots = 245; with 6-bit characters the
245th would not complete a byte and is dropped -/
def hostChars (dn : Nat) : Nat := if bits dn = 6 then 244 else 245

/-- payload bytes one host name can hold: 153 (Base32) / 183 (Base64, Base64u) / 214 (Base128) -/
def hostBytes (dn : Nat) : Nat := bits dn * hostChars dn / 8

/-- length of a host name around `m` encoded characters: codec letter, a dot after every 57 characters, a dot
before the two-letter pseudo-TLD unless there is one already, the pseudo-TLD -/
def nameLen (m : Nat) : Nat := m + 1 + (m + 1) / 57 + (if (m + 1) % 57 = 0 then 0 else 1) + 2

/-- bytes the host names of an MX/SRV answer for `n` payload bytes take in the client's buffer, each with its NUL:
`q` full names and the last one -/
def mxJoined (dn n : Nat) : Nat :=
  (n - 1) / hostBytes dn * (nameLen (hostChars dn) + 1) +
    (nameLen (chars (bits dn) (n - (n - 1) / hostBytes dn * hostBytes dn)) + 1)

/-- **"fits that answer format"**, as a closed formula in the payload length `n`:
* NULL/PRIVATE: the RDATA buffer of the decoder (4096) and the caller's buffer;
* TXT: letter + encoding within the decoder's 4096-byte RDATA buffer;
* CNAME/A: one host name;
* MX/SRV: the names, NUL-separated, within the caller's buffer — the last name may lose its final character
  (the client strips the last three characters anyway, see Lemmas/MxClient.lean).
(The decoder's limit of 249 names is far away: 4096 bytes need 27 names.) -/
def fits (B ty dn n : Nat) : Bool :=
  if ty = 10 ∨ ty = 65399 then decide (n ≤ min B 4096)
  else if ty = 16 then decide (txtLen dn n ≤ 4096 ∧ n ≤ B)
  else if ty = 5 ∨ ty = 1 then decide (n ≤ hostBytes dn)
  else decide (mxJoined dn n ≤ B)

/-! ### Glue between the vocabulary and the lemma files -/

theorem bits_eq (dn : Nat) : bits dn = (nameCodec dn).2.k := by
  unfold bits nameCodec
  by_cases h1 : dn = 83
  · simp [h1, b64]
  by_cases h2 : dn = 85
  · simp [h2, b64u]
  by_cases h3 : dn = 86
  · simp [h3, b128]
  · simp [h1, h2, h3, b32]

theorem bits_cases (dn : Nat) : bits dn = 5 ∨ bits dn = 6 ∨ bits dn = 7 := by
  unfold bits; split
  · exact Or.inr (Or.inl rfl)
  · split
    · exact Or.inr (Or.inr rfl)
    · exact Or.inl rfl

theorem hostChars_eq (dn : Nat) : hostChars dn = Downstream.jcap (bits dn) := by
  unfold hostChars
  rcases bits_cases dn with h | h | h <;> rw [h] <;> decide

theorem hostBytes_eq (dn : Nat) : hostBytes dn = Downstream.ucap (bits dn) := by
  unfold hostBytes Downstream.ucap
  rw [hostChars_eq]

theorem mxJoined_eq (dn n : Nat) : mxJoined dn n = Downstream.jl (bits dn) n := by
  unfold mxJoined Downstream.jl
  rw [hostBytes_eq, hostChars_eq]
  rfl

theorem txtLen_eq (dn n : Nat) : txtLen dn n = 1 + Downstream.txtLen dn n := rfl

theorem fits_null (B dn n : Nat) {ty : Nat} (h : ty = 10 ∨ ty = 65399) :
    (fits B ty dn n = true) ↔ n ≤ min B 4096 := by
  unfold fits; rw [if_pos h]; simp
theorem fits_txt (B dn n : Nat) : (fits B 16 dn n = true) ↔ (txtLen dn n ≤ 4096 ∧ n ≤ B) := by
  unfold fits; rw [if_neg (by decide), if_pos rfl]; simp
theorem fits_cname (B dn n : Nat) {ty : Nat} (h : ty = 5 ∨ ty = 1) : (fits B ty dn n = true) ↔ n ≤ hostBytes dn := by
  unfold fits
  rw [if_neg (by rcases h with h | h <;> simp [h]), if_neg (by rcases h with h | h <;> simp [h]), if_pos h]; simp
theorem fits_mx (B dn n : Nat) {ty : Nat} (h : ty = 15 ∨ ty = 33) : (fits B ty dn n = true) ↔ mxJoined dn n ≤ B := by
  unfold fits
  rw [if_neg (by rcases h with h | h <;> simp [h]), if_neg (by rcases h with h | h <;> simp [h]),
    if_neg (by rcases h with h | h <;> simp [h])]; simp

theorem not_fits {B ty dn n : Nat} (h : fits B ty dn n = false) : ¬ (fits B ty dn n = true) := by simp [h]

theorem cname_case (B : Nat) (td : Td) (id ty : Nat) (qn p : List Nat) (dn : Nat) (hty : ty = 5 ∨ ty = 1)
    (hB : 4096 ≤ B ∧ B ≤ 65536) (htd : Downstream.TdOk td) (hid : id < 65536) (hqn : LegalName qn)
    (hpl : 2 ≤ p.length ∧ p.length ≤ 4096) (hpb : Codec.Bytes p) :
    extract B td id ty qn p dn = .ok (p.take (hostBytes dn)) := by
  have hc := Downstream.hostCodec dn
  have hs := Downstream.nameenc_shape td htd 1024 (by omega) p hpb dn
  obtain ⟨n0, hr⟩ := Downstream.read_cname B id ty qn p hc hs hid hty hqn hpb hpl.2 hB.1
  unfold extract answer
  rw [Downstream.writeDns_cname td htd id ty qn p dn hty hqn hpb]
  simp only [hr, Wire.map_ok]
  have henc := Downstream.enc245 hc.wf p
  rw [← bits_eq, ← hostBytes_eq] at henc
  by_cases hle : p.length ≤ hostBytes dn
  · rw [(henc.1 hle).1, List.take_of_length_le (Nat.le_refl _), List.take_of_length_le hle]
  · rw [(henc.2 (by omega)).1]

/-- what arrives for the types with a single record, as a closed form: the payload; for TXT nothing when the text
exceeds the decoder's buffer; for CNAME/A the part one host name holds -/
def delivered (ty dn : Nat) (p : List Nat) : List Nat :=
  if ty = 16 then (if txtLen dn p.length ≤ 4096 then p else [])
  else if ty = 5 ∨ ty = 1 then p.take (hostBytes dn)
  else p

/-- the closed form of `extract` for NULL, PRIVATE, TXT, CNAME and A -/
theorem extract_closed_form {B : Nat} {td : Td} {id ty : Nat} {qn p : List Nat} (S : Setting B td id ty qn p) (dn : Nat)
    (hty : ty ≠ 15 ∧ ty ≠ 33) : extract B td id ty qn p dn = .ok (delivered ty dn p) := by
  obtain ⟨⟨hB1, hB2⟩, htd, hid, hty', hqn, ⟨hp2, hp⟩, hpb⟩ := S
  have htd' : Downstream.TdOk td := htd
  have hpb' : Codec.Bytes p := hpb
  simp only [QTypes, List.mem_cons, List.not_mem_nil, or_false] at hty'
  rcases hty' with rfl | rfl | rfl | rfl | rfl | rfl | rfl
  · unfold extract answer delivered
    rw [Downstream.writeDns_null td id 10 qn p dn (Or.inl rfl) hqn hp]
    obtain ⟨n0, hr⟩ := Downstream.read_null B id 10 qn p hid (Or.inl rfl) hqn hp2 hp
    simp only [hr, Wire.map_ok]
    rw [List.take_of_length_le (by omega)]
    simp
  · unfold extract answer delivered
    rw [Downstream.writeDns_null td id 65399 qn p dn (Or.inr rfl) hqn hp]
    obtain ⟨n0, hr⟩ := Downstream.read_null B id 65399 qn p hid (Or.inr rfl) hqn hp2 hp
    simp only [hr, Wire.map_ok]
    rw [List.take_of_length_le (by omega)]
    simp
  · unfold extract answer delivered
    rw [Downstream.writeDns_txt td id qn p dn hqn hp]
    obtain ⟨n0, hr⟩ := Downstream.read_txt B id qn p dn hid hqn hpb' (by omega) hp hB1
    simp only [hr, Wire.map_ok, txtLen_eq, if_true]
    by_cases hf : 1 + Downstream.txtLen dn p.length ≤ 4096
    · simp only [hf, if_true]
    · simp only [hf, if_false]
  · exact absurd rfl hty.2
  · exact absurd rfl hty.1
  · rw [cname_case B td id 5 qn p dn (Or.inl rfl) ⟨hB1, hB2⟩ htd' hid hqn ⟨hp2, hp⟩ hpb']
    simp [delivered]
  · rw [cname_case B td id 1 qn p dn (Or.inr rfl) ⟨hB1, hB2⟩ htd' hid hqn ⟨hp2, hp⟩ hpb']
    simp [delivered]

/-- what the lemma files establish, per answer format, in one statement -/
theorem extract_spec {B : Nat} {td : Td} {id ty : Nat} {qn p : List Nat} (S : Setting B td id ty qn p) (dn : Nat) :
    ∃ e, extract B td id ty qn p dn = .ok e ∧ e <+: p ∧
      (fits B ty dn p.length = true → e = p) ∧ (fits B ty dn p.length = false → e.length < p.length) := by
  obtain ⟨⟨hB1, hB2⟩, htd, hid, hty, hqn, ⟨hp2, hp⟩, hpb⟩ := S
  have htd' : Downstream.TdOk td := htd
  have hpb' : Codec.Bytes p := hpb
  have hS : Setting B td id ty qn p := ⟨⟨hB1, hB2⟩, htd, hid, hty, hqn, ⟨hp2, hp⟩, hpb⟩
  simp only [QTypes, List.mem_cons, List.not_mem_nil, or_false] at hty
  rcases hty with rfl | rfl | rfl | rfl | rfl | rfl | rfl
  · -- NULL
    rw [extract_closed_form hS dn (by decide)]
    refine ⟨_, rfl, by simp [delivered], fun _ => by simp [delivered], fun h => ?_⟩
    exact absurd ((fits_null B dn p.length (Or.inl rfl)).mpr (by omega)) (not_fits h)
  · -- PRIVATE
    rw [extract_closed_form hS dn (by decide)]
    refine ⟨_, rfl, by simp [delivered], fun _ => by simp [delivered], fun h => ?_⟩
    exact absurd ((fits_null B dn p.length (Or.inr rfl)).mpr (by omega)) (not_fits h)
  · -- TXT
    rw [extract_closed_form hS dn (by decide)]
    simp only [delivered, if_true]
    by_cases hf : txtLen dn p.length ≤ 4096
    · rw [if_pos hf]
      exact ⟨_, rfl, List.prefix_refl _, fun _ => rfl,
        fun h => absurd ((fits_txt B dn p.length).mpr ⟨hf, by omega⟩) (not_fits h)⟩
    · rw [if_neg hf]
      exact ⟨_, rfl, List.nil_prefix, fun h => absurd ((fits_txt B dn p.length).mp h).1 hf,
        fun _ => by simp only [List.length_nil]; omega⟩
  · -- SRV
    obtain ⟨n0, D, hr, hpre, hex, hnex, _⟩ := Downstream.read_mx B td htd' id 33 qn p dn hid (Or.inr rfl) hqn hpb' (by omega) hp hB1 hB2
    unfold extract answer
    rw [Downstream.writeDns_mx td htd' id 33 qn p dn (Or.inr rfl) hqn hpb' (by omega) hp]
    simp only [hr, Wire.map_ok]
    have hj : Downstream.joinedLen (Downstream.mxNamesOf td p dn) = mxJoined dn p.length := by
      rw [Downstream.joinedLen_mxNamesOf td p dn (by omega), mxJoined_eq, bits_eq]
    rw [hj] at hex hnex
    refine ⟨_, rfl, hpre, fun h => hex ((fits_mx B dn p.length (Or.inr rfl)).mp h), fun h => hnex ?_⟩
    have := not_fits h
    rw [fits_mx B dn p.length (Or.inr rfl)] at this
    omega
  · -- MX
    obtain ⟨n0, D, hr, hpre, hex, hnex, _⟩ := Downstream.read_mx B td htd' id 15 qn p dn hid (Or.inl rfl) hqn hpb' (by omega) hp hB1 hB2
    unfold extract answer
    rw [Downstream.writeDns_mx td htd' id 15 qn p dn (Or.inl rfl) hqn hpb' (by omega) hp]
    simp only [hr, Wire.map_ok]
    have hj : Downstream.joinedLen (Downstream.mxNamesOf td p dn) = mxJoined dn p.length := by
      rw [Downstream.joinedLen_mxNamesOf td p dn (by omega), mxJoined_eq, bits_eq]
    rw [hj] at hex hnex
    refine ⟨_, rfl, hpre, fun h => hex ((fits_mx B dn p.length (Or.inl rfl)).mp h), fun h => hnex ?_⟩
    have := not_fits h
    rw [fits_mx B dn p.length (Or.inl rfl)] at this
    omega
  · -- CNAME
    rw [extract_closed_form hS dn (by decide)]
    simp only [delivered, show ¬ (5 : Nat) = 16 by decide, if_false, true_or, if_true]
    refine ⟨_, rfl, List.take_prefix _ _,
      fun h => List.take_of_length_le ((fits_cname B dn p.length (Or.inl rfl)).mp h), fun h => ?_⟩
    have := not_fits h
    rw [fits_cname B dn p.length (Or.inl rfl)] at this
    simp only [List.length_take]; omega
  · -- A
    rw [extract_closed_form hS dn (by decide)]
    simp only [delivered, show ¬ (1 : Nat) = 16 by decide, if_false, or_true, if_true]
    refine ⟨_, rfl, List.take_prefix _ _,
      fun h => List.take_of_length_le ((fits_cname B dn p.length (Or.inr rfl)).mp h), fun h => ?_⟩
    have := not_fits h
    rw [fits_cname B dn p.length (Or.inr rfl)] at this
    simp only [List.length_take]; omega

/-! ### The property -/

/-- **(A) answer_prefix.**  Whatever the type, the codec, the names and the buffer: the decoder does not fault
and what the client extracts is a prefix of the payload — all of it, a proper prefix, or nothing; never other
bytes. -/
theorem answer_prefix {B : Nat} {td : Td} {id ty : Nat} {qn p : List Nat} (S : Setting B td id ty qn p) (dn : Nat) :
    ∃ e, extract B td id ty qn p dn = .ok e ∧ e <+: p := by
  obtain ⟨e, h1, h2, _⟩ := extract_spec S dn
  exact ⟨e, h1, h2⟩

/-- **(A) answer_exact_when_fits.**  A payload whose length fits the answer format is delivered exactly. -/
theorem answer_exact_when_fits {B : Nat} {td : Td} {id ty : Nat} {qn p : List Nat} (S : Setting B td id ty qn p)
    (dn : Nat) (h : fits B ty dn p.length = true) : extract B td id ty qn p dn = .ok p := by
  obtain ⟨e, h1, _, h3, _⟩ := extract_spec S dn
  rw [h1, h3 h]

/-- **(B) not_fits_proper_prefix.**  A payload that does not fit arrives as a proper prefix (possibly empty). -/
theorem not_fits_proper_prefix {B : Nat} {td : Td} {id ty : Nat} {qn p : List Nat} (S : Setting B td id ty qn p)
    (dn : Nat) (h : fits B ty dn p.length = false) :
    ∃ e, extract B td id ty qn p dn = .ok e ∧ e <+: p ∧ e.length < p.length ∧ e ≠ p := by
  obtain ⟨e, h1, h2, _, h4⟩ := extract_spec S dn
  refine ⟨e, h1, h2, h4 h, fun he => ?_⟩
  have := h4 h
  rw [he] at this
  exact Nat.lt_irrefl _ this

/-- exact delivery is characterised by the closed formula -/
theorem exact_iff_fits {B : Nat} {td : Td} {id ty : Nat} {qn p : List Nat} (S : Setting B td id ty qn p) (dn : Nat) :
    extract B td id ty qn p dn = .ok p ↔ fits B ty dn p.length = true := by
  constructor
  · intro he
    cases hf : fits B ty dn p.length with
    | true => rfl
    | false =>
      obtain ⟨e, h1, _, _, hne⟩ := not_fits_proper_prefix S dn hf
      rw [he] at h1
      exact absurd (Except.ok.inj h1).symm hne
  · exact answer_exact_when_fits S dn

theorem chars_mono (k : Nat) {m n : Nat} (h : m ≤ n) : chars k m ≤ chars k n := by
  unfold chars
  exact Nat.div_le_div_right (by omega)

/-- **(A) exact_downward_closed.**  "Fits" is downward closed in the payload length (for every type value, every
codec byte, every buffer size). -/
theorem exact_downward_closed (B ty dn : Nat) {m n : Nat} (h : fits B ty dn n = true) (hm : 2 ≤ m) (hmn : m ≤ n) :
    fits B ty dn m = true := by
  unfold fits at h ⊢
  by_cases h1 : ty = 10 ∨ ty = 65399
  · rw [if_pos h1] at h ⊢
    simp only [decide_eq_true_eq] at h ⊢
    omega
  rw [if_neg h1] at h ⊢
  by_cases h2 : ty = 16
  · rw [if_pos h2] at h ⊢
    simp only [decide_eq_true_eq] at h ⊢
    refine ⟨?_, by omega⟩
    have hc := chars_mono (bits dn) hmn
    unfold txtLen at h ⊢
    by_cases hr : dn = 82
    · simp only [hr, if_true] at h ⊢; omega
    · simp only [hr, if_false] at h ⊢; omega
  rw [if_neg h2] at h ⊢
  by_cases h3 : ty = 5 ∨ ty = 1
  · rw [if_pos h3] at h ⊢
    simp only [decide_eq_true_eq] at h ⊢
    omega
  rw [if_neg h3] at h ⊢
  simp only [decide_eq_true_eq] at h ⊢
  rw [mxJoined_eq] at h ⊢
  exact Nat.le_trans (Downstream.jl_mono (bits dn) (bits_cases dn) (by omega) hmn) h

/-- … and therefore: if a payload is delivered exactly, so is every shorter one (of at least 2 bytes) — whatever
its content, the query it answers and the state of the server's pseudo-TLD rotation.  This is what makes the
client's fragment-size probe a sound binary search. -/
theorem delivered_exactly_downward {B : Nat} {td td' : Td} {id id' ty : Nat} {qn qn' p p' : List Nat} (dn : Nat)
    (S : Setting B td id ty qn p) (S' : Setting B td' id' ty qn' p') (hlen : p'.length ≤ p.length)
    (h : extract B td id ty qn p dn = .ok p) : extract B td' id' ty qn' p' dn = .ok p' :=
  answer_exact_when_fits S' dn
    (exact_downward_closed B ty dn ((exact_iff_fits S dn).mp h) S'.p_len.1 hlen)

/-- **(C)** whether a payload arrives complete depends neither on the pseudo-TLD state, nor on the query id, nor
on the query name -/
theorem exactness_independent {B : Nat} {td td' : Td} {id id' ty : Nat} {qn qn' p : List Nat} (dn : Nat)
    (S : Setting B td id ty qn p) (S' : Setting B td' id' ty qn' p) :
    extract B td id ty qn p dn = .ok p ↔ extract B td' id' ty qn' p dn = .ok p := by
  rw [exact_iff_fits S dn, exact_iff_fits S' dn]

theorem mx_extract_eq {B : Nat} {td : Td} {id ty : Nat} {qn p : List Nat} (S : Setting B td id ty qn p) (dn : Nat)
    (hty : ty = 15 ∨ ty = 33) :
    extract B td id ty qn p dn = .ok (Downstream.mxExpected (Downstream.mxFirstLen p dn) B
      (Downstream.mxItems (p.length + 1) td p dn) 0 0) := by
  obtain ⟨⟨hB1, hB2⟩, htd, hid, _, hqn, ⟨hp2, hp⟩, hpb⟩ := S
  obtain ⟨n0, D, hr, _, _, _, hexp⟩ := Downstream.read_mx B td htd id ty qn p dn hid hty hqn hpb (by omega) hp hB1 hB2
  unfold extract answer
  rw [Downstream.writeDns_mx td htd id ty qn p dn hty hqn hpb (by omega) hp]
  simp only [hr, Wire.map_ok]
  rw [hexp]

/-- **(C) answer_independent.**  What the client extracts depends neither on the state of the pseudo-TLD rotation,
nor on the query id, nor on the query name. -/
theorem answer_independent {B : Nat} {td td' : Td} {id id' ty : Nat} {qn qn' p : List Nat} (dn : Nat)
    (S : Setting B td id ty qn p) (S' : Setting B td' id' ty qn' p) :
    extract B td id ty qn p dn = extract B td' id' ty qn' p dn := by
  by_cases hty : ty = 15 ∨ ty = 33
  · rw [mx_extract_eq S dn hty, mx_extract_eq S' dn hty, Downstream.mxExpected_indep _ B dn _ td td' p 0 0]
  · rw [extract_closed_form S dn ⟨fun h => hty (Or.inl h), fun h => hty (Or.inr h)⟩,
      extract_closed_form S' dn ⟨fun h => hty (Or.inl h), fun h => hty (Or.inr h)⟩]

/-! ### Non-vacuity -/

/-- query name "p.t" -/
def qnShort : List Nat := [112, 46, 116]

/-- the hypotheses are satisfiable (for every type; here NULL with a 3-byte payload, and A with 154 bytes) -/
example : Setting 4096 (0, 0) 7 10 qnShort [1, 2, 255] :=
  ⟨by omega, by decide, by decide, by decide, by decide, by decide, by decide⟩
theorem setting154 : Setting 65536 (23, 4) 65535 1 qnShort (List.replicate 154 9) :=
  ⟨by omega, by decide, by decide, by decide, by decide, by simp,
    fun b hb => by rw [List.eq_of_mem_replicate hb]; decide⟩

/-- concrete payloads through the whole path — server, wire, decoder, client — by evaluation of the model:
one per answer format (NULL, PRIVATE, TXT, SRV, MX, CNAME, A) and with all five codec letters -/
example : extract 4096 (0, 0) 7 10 qnShort [1, 2, 255] 84 = .ok [1, 2, 255] := by decide +kernel
example : extract 65536 (0, 0) 7 65399 qnShort [0, 0] 82 = .ok [0, 0] := by decide +kernel
example : extract 4096 (0, 0) 7 16 qnShort [1, 2, 255] 83 = .ok [1, 2, 255] := by decide +kernel
example : extract 4096 (0, 0) 7 16 qnShort [1, 2, 255] 82 = .ok [1, 2, 255] := by decide +kernel
example : extract 4096 (3, 7) 7 33 qnShort [1, 2, 255] 85 = .ok [1, 2, 255] := by decide +kernel
example : extract 4096 (25, 24) 7 15 qnShort [1, 2, 255, 0, 77] 86 = .ok [1, 2, 255, 0, 77] := by decide +kernel
example : extract 4096 (3, 7) 7 5 qnShort [1, 2, 255] 86 = .ok [1, 2, 255] := by decide +kernel
example : extract 65536 (3, 7) 7 1 qnShort [255, 255] 84 = .ok [255, 255] := by decide +kernel

/-- the datagram of the first of them -/
example : answer (0, 0) 7 10 qnShort [1, 2, 255] 84 =
    some [0, 7, 0x84, 0, 0, 1, 0, 1, 0, 0, 0, 0, 1, 112, 1, 116, 0, 0, 10, 0, 1,
          0xc0, 0x0c, 0, 10, 0, 1, 0, 0, 0, 0, 0, 3, 1, 2, 255] := by decide +kernel

/-- an MX answer for 160 bytes consists of two host names, a full one (253 characters) and a short one -/
example : (Downstream.mxNamesOf (0, 0) (List.replicate 160 7) 84).map List.length = [253, 16] := by decide +kernel

/-- a payload that does not fit: 154 bytes in an A answer with Base32 arrive as their first 153 bytes -/
example : extract 65536 (23, 4) 65535 1 qnShort (List.replicate 154 9) 84 = .ok (List.replicate 153 9) := by
  rw [extract_closed_form setting154 84 ⟨by decide, by decide⟩]
  have h : hostBytes 84 = 153 := by decide
  simp [delivered, h]
example : fits 65536 1 84 154 = false := by decide
example := not_fits_proper_prefix setting154 84 (by rw [List.length_replicate]; decide)

/-- the thresholds of `fits` (they are the ones measured on the implementation by checks/c09.py): CNAME/A … -/
example : fits 4096 5 84 153 = true ∧ fits 4096 5 84 154 = false ∧ fits 4096 1 83 183 = true ∧ fits 4096 1 83 184 = false
    ∧ fits 4096 5 86 214 = true ∧ fits 4096 5 86 215 = false ∧ fits 4096 5 82 153 = true ∧ fits 4096 5 82 154 = false := by decide
/-- … TXT (T S V R) … -/
example : fits 4096 16 84 2559 = true ∧ fits 4096 16 84 2560 = false ∧ fits 4096 16 83 3071 = true ∧ fits 4096 16 83 3072 = false
    ∧ fits 4096 16 86 3583 = true ∧ fits 4096 16 86 3584 = false ∧ fits 4096 16 82 4095 = true ∧ fits 4096 16 82 4096 = false := by decide
/-- … MX/SRV into a 4096-byte buffer: 2464 bytes with Base32; with Base64 2960 and with Base128 3447 bytes, where
the last host name arrives without its final character and still decodes completely; no limit below 4096 bytes
with a 64 KiB buffer; NULL never limits -/
example : fits 4096 15 84 2464 = true ∧ fits 4096 15 84 2465 = false ∧ fits 4096 33 83 2960 = true ∧ fits 4096 33 83 2961 = false
    ∧ fits 4096 15 86 3447 = true ∧ fits 4096 15 86 3448 = false ∧ fits 65536 15 84 4096 = true ∧ fits 4096 10 84 4096 = true := by decide
example : mxJoined 83 2960 = 4096 ∧ mxJoined 83 2959 = 4095 := by decide

/-- downward closure, instantiated: 2464 bytes fit an MX answer, hence 1000 do -/
example : fits 4096 15 84 1000 = true := exact_downward_closed 4096 15 84 (n := 2464) (by decide) (by omega) (by omega)

/-! ### Whole sessions of the byte-level server (Server/Bytes.lean)

The theorems above speak about one call of `write_dns`.  Here they are lifted to every datagram the server sends through
`write_dns` in a session: vocabulary `LegalReachable`, `LegalDgram`, `TunnelTypes` of Props/C10Session.lean. -/

open Iodine.Server in
/-- **session_answer_extracts_prefix_partial.**  In every state reachable from start-up through arbitrary inputs (with legal
decoded question names), for every further input and every datagram `tx dst bytes` the iteration sends: it encodes an
`ans dst id ty dn name data` event of that iteration (the call `write_dns(q, data, datalen, downenc)`), and if `data` is a byte
string of 2..4096 bytes, then the client reading `bytes` with `read_dns_withq` into a buffer of `B` bytes (4096 in the handshake,
64 KiB in the tunnel) does not fault and extracts a prefix of `data` — all of it when `fits B ty dn |data|`, a proper prefix
otherwise; never other bytes.

PARTIAL for the same reason as C10 `session_datagrams_wellformed_partial`: the premise that the payload of the `ans` event is a
byte string of 2..4096 bytes is not discharged from the session invariants (1-byte payloads exist: the "x" answer to a
recognised duplicate, which the client is meant to reject). -/
theorem session_answer_extracts_prefix_partial (cfg : Config) (b : BSrv) (hr : C10.LegalReachable cfg b)
    (inp : BInput) (now' : Nat) (hl : C10.LegalDgram inp) (dst : Addr) (bytes : List Nat)
    (htx : BEvent.tx dst bytes ∈ (biteration b inp now').2.1) (B : Nat) (hB : 4096 ≤ B ∧ B ≤ 65536) :
    ∃ id ty dn name data tag,
      Event.ans dst id ty dn name data tag ∈ out b.srv ⟨toInput b.srv inp, now'⟩ ∧
      ((∀ x ∈ data, x < 256) → 2 ≤ data.length → data.length ≤ 4096 →
        ∃ e, (readDnsWithq B bytes).map (·.buf) = .ok e ∧ e <+: data ∧
          (fits B ty dn data.length = true → e = data) ∧ (fits B ty dn data.length = false → e.length < data.length)) := by
  have hinv := C10.legalReachable_inv hr
  have hstep := BytesL.binv_step hinv inp now' ((C10.legalDgram_iff inp).1 hl)
  obtain ⟨pr, hpr, hb⟩ := BytesL.mem_encodeEvents htx
  obtain ⟨hmem, htxs, _, _⟩ := (BytesL.encodeEventsL_spec _ _ _ _ hinv.td).2 pr hpr
  obtain ⟨td0, id, ty, dn, name, data, tag, htd0, hev, hw⟩ := htxs dst bytes hb
  rw [hev] at hmem
  have hgood := hstep.2 dst id ty dn name data tag hmem
  refine ⟨id, ty, dn, name, data, tag, hmem, ?_⟩
  intro hd h2 h4096
  have hty : ty ∈ QTypes := by
    have := hgood.2.2
    unfold BytesL.TunnelType at this
    simp only [QTypes, List.mem_cons, List.not_mem_nil, or_false]
    exact this
  have S : Setting B td0 id ty name data := ⟨hB, htd0, hgood.1, hty, hgood.2.1, ⟨h2, h4096⟩, hd⟩
  obtain ⟨e, he, hpre, hfit, hnfit⟩ := extract_spec S dn
  refine ⟨e, ?_, hpre, hfit, hnfit⟩
  unfold extract answer at he
  rw [hw] at he
  exact he

open Iodine.Server in
/-- **session_answer_extracts_prefix** (C09 for whole sessions).  For every configuration that passes `main()`'s checks
(`C10.ConfigOk`), every state reachable from start-up through arbitrary byte-valued inputs with legal decoded questions
(`C10.WfReachable`), every further such input and every datagram `tx dst bytes` the iteration sends: it encodes the payload `data` of
an `ans` event of that iteration, and EITHER `data` is the single byte "x" — the deliberately illegal answer to a recognised
duplicate, outside C09's quantifier (payloads of at least 2 bytes) — OR, for every client buffer size `B` in 4096..65536, every codec
byte `dn` the session uses and whatever the rotating pseudo-TLD state, `read_dns_withq` does not fault on `bytes` and extracts a
prefix of `data`: all of it iff `fits B ty dn |data|`, a proper prefix otherwise; never other bytes. -/
theorem session_answer_extracts_prefix (cfg : Config) (hc : C10.ConfigOk cfg) (b : BSrv) (hr : C10.WfReachable cfg b)
    (inp : BInput) (now' : Nat) (hl : C10.LegalDgram inp) (hb : C10.ByteDgram inp) (dst : Addr) (bytes : List Nat)
    (htx : BEvent.tx dst bytes ∈ (biteration b inp now').2.1) :
    ∃ id ty dn name data tag,
      Event.ans dst id ty dn name data tag ∈ out b.srv ⟨toInput b.srv inp, now'⟩ ∧
      (data = [120] ∨
        ∀ B, 4096 ≤ B ∧ B ≤ 65536 →
          ∃ e, (readDnsWithq B bytes).map (·.buf) = .ok e ∧ e <+: data ∧
            (fits B ty dn data.length = true → e = data) ∧ (fits B ty dn data.length = false → e.length < data.length)) := by
  have hinv := C10.legalReachable_inv (C10.wfReachable_legal hr)
  obtain ⟨pr, hpr, hbm⟩ := BytesL.mem_encodeEvents htx
  obtain ⟨hmem, htxs, _, _⟩ := (BytesL.encodeEventsL_spec _ _ _ _ hinv.td).2 pr hpr
  obtain ⟨td0, id, ty, dn, name, data, tag, htd0, hev, hw⟩ := htxs dst bytes hbm
  rw [hev] at hmem
  have hgood := (BytesL.binv_step hinv inp now' ((C10.legalDgram_iff inp).1 hl)).2 dst id ty dn name data tag hmem
  obtain ⟨d1, d2, d3⟩ := C10.session_payloads_are_bytes cfg hc b hr inp now' hl hb dst id ty dn name data tag hmem
  refine ⟨id, ty, dn, name, data, tag, hmem, ?_⟩
  rcases d2 with d2 | d2
  · right
    intro B hB
    have hty : ty ∈ QTypes := by
      have := hgood.2.2
      unfold BytesL.TunnelType at this
      simp only [QTypes, List.mem_cons, List.not_mem_nil, or_false]
      exact this
    have S : Setting B td0 id ty name data := ⟨hB, htd0, hgood.1, hty, hgood.2.1, ⟨d2, d3⟩, d1⟩
    obtain ⟨e, hee, hpre, hfit, hnfit⟩ := extract_spec S dn
    refine ⟨e, ?_, hpre, hfit, hnfit⟩
    unfold extract answer at hee
    rw [hw] at hee
    exact hee
  · exact Or.inl d2

open Iodine.Server in
example (dst : Addr) (bytes : List Nat)
    (h : BEvent.tx dst bytes ∈ (biteration (bstart C10.exCfgS []) (.dgram C10.exSrc C10.exDgramV) 1000).2.1) :=
  session_answer_extracts_prefix C10.exCfgS (by decide +kernel) _ (.init []) (.dgram C10.exSrc C10.exDgramV) 1000
    (by decide +kernel) (by decide +kernel) dst bytes h

open Iodine.Server in
/-- non-vacuity: the VNAK answer (9 bytes) to the version request of Props/C10Session.lean, read by the client with its
handshake buffer: the payload arrives exactly -/
def exExtractOk : Bool :=
  match (biteration (bstart C10.exCfgS []) (.dgram C10.exSrc C10.exDgramV) 1000).2.1 with
  | [.tx _ bytes] => (readDnsWithq 4096 bytes).map (·.buf) == .ok ([86, 78, 65, 75] ++ [0, 0, 5, 2] ++ [0])
  | _ => false

example : exExtractOk = true := by decide +kernel

open Iodine.Server in
example (dst : Addr) (bytes : List Nat)
    (h : BEvent.tx dst bytes ∈ (biteration (bstart C10.exCfgS []) (.dgram C10.exSrc C10.exDgramV) 1000).2.1) :=
  session_answer_extracts_prefix_partial C10.exCfgS _ (.init []) (.dgram C10.exSrc C10.exDgramV) 1000 (by decide +kernel)
    dst bytes h 4096 (by omega)

end Iodine.C09
