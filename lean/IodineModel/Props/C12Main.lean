import IodineModel.Props.C12
import IodineModel.Lemmas.OptTop
/-
C12 from the command line on.
-/
namespace Iodine.C12
open Iodine Iodine.Server Iodine.Server.Options

/-- **session_iteration_residue_independent_from_main.**  For every command line and environment with which iodined reaches
`tunnel()`, every run `l` of the byte-level process afterwards and every further input: whatever residue `res` earlier datagrams left
in the receive buffer, `read_dns` does not fault and the iteration — new state, every datagram sent, `select` timeout — is the same.
No hypothesis at all. -/
theorem session_iteration_residue_independent_from_main (env : Env) (argv : List (List Nat)) (f : Final) (_h : Top.Starts env argv f)
    (rnd : List Nat) (d4 d6 : Nat) (l : List (BInput × Nat)) (res : Array Nat) (inp : BInput) (now' : Nat) :
    biterationR res (brun (Top.bentry f rnd d4 d6) l) inp now' = some (biteration (brun (Top.bentry f rnd d4 d6) l) inp now') :=
  session_iteration_residue_independent res _ inp now'

end Iodine.C12
