import IodineModel.Lemmas.C02a
import IodineModel.Lemmas.C02b
import IodineModel.Lemmas.C02v10
import IodineModel.Lemmas.C02L10
import IodineModel.Lemmas.C02d15
import IodineModel.Lemmas.C02R5
import IodineModel.Lemmas.C02M8
import IodineModel.Lemmas.C02N1
import IodineModel.Lemmas.C02t
import IodineModel.Lemmas.C02t2
import IodineModel.Lemmas.C02t3
import IodineModel.Lemmas.C02t4
/-
C02 — the tunnel makes progress and recovers after network trouble (no wedge).

Property text.  "On a path that delivers every datagram intact and promptly, each IP packet a single client or the server
accepts from its tun device (and that fits in 16 fragments) is written to the peer's tun device exactly once and in the
order accepted.  After any period of loss, duplication, reordering or delay that is shorter than the 60-second session
timeout, once the path behaves again packets offered on both sides are delivered again within a bounded time, without
restarting either program."

What is here
(A) component lemmas, each for ALL states of the respective model: resend/give-up counters of both sides, tun read
    gating of both sides, ack handling of both sides, the sequence-number window, the 60 s expiry of both sides.
(A) the joined model `World` (`IodineModel/World.lean`) and TESTS on concrete clean-path runs (labelled `test_…`,
    evaluated by the kernel; `Lemmas/C02t*.lean`): 1, 2 and 5 fragments, both directions, lazy and immediate mode, the
    four upstream codecs, raw mode, sequences, both directions at once.
(B) THEOREMS over the joined model, for every payload, every one of the four upstream codecs, every query type the
    server treats as tunnel traffic, every host name limit 100..255, every legal tunnel domain, every user id 0..15, every
    downstream fragment size ≥ 1 — all four combinations of direction and DNS mode, and raw mode:
    * `clean_path_upstream_immediate`, `clean_path_upstream_lazy` — a frame accepted from the client's tun device that needs
      `g ≤ 16` fragments is, after exactly `2·g + 1` steps of the prompt schedule, written to the server's tun device exactly
      once (and nothing to the client's), and the joint state is quiescent again; `clean_path_single_fragment` is `g = 1`;
    * `clean_path_downstream_immediate` — symmetrically a frame accepted from the server's tun device (`g ≤ 16` fragments of the
      negotiated size) reaches the client's tun device exactly once, after 3 (`g = 1`) resp. `2·g + 4` steps (the client polls;
      needs timer room `Roomy`); `clean_path_downstream_lazy` — the same in lazy mode, `2·g + 1` steps (2 if `g = 1` and a
      ping was due at the client), no timing hypothesis;
    * `clean_path_raw` — raw UDP mode, both directions, frames up to 4091 bytes (longer ones are TRUNCATED by `send_raw`:
      `raw_long_frames_truncated`), with and without the client's keepalive being due;
    * `clean_path_exactly_once_in_order_immediate`, `…_lazy`, `…_raw` — packets offered on both sides in any interleaving, one
      after the other, arrive exactly once and in order; `clean_path_exactly_once_in_order_partial` is their conjunction.
(C) `no_deadlock_after_giveup` for both sides.  Recovery after faults is NOT proved (world check; see DESIGN.md).

What (B) does NOT cover (stated precisely at `clean_path_exactly_once_in_order_partial`): a packet offered on one side WHILE a
transfer in the other direction is in progress — tests only (`test_lazy_both`, `test_imm_both`).

Assumptions of the joined model (stated at the head of `World.lean`): the hop-lossless abstraction for answers (the client
is fed exactly the bytes the server handed to `write_dns`); upstream the query name passes through the client's real
`dns_encode` and the repository's `dns_decode` (`Client.wireQuery`, proved lossless for legal names in `Lemmas/C02w.lean`);
compression is the transparent test scheme of both models.
-/
namespace Iodine.C02
open Iodine Iodine.World

/-! ## (A) component lemmas — client -/

/-- **client_resends_then_gives_up.**  While a packet is in flight, consecutive timeouts of `client_tunnel`'s `select`
resend the SAME chunk (same packet, same offset and fragment number: `SameChunk`) exactly three times (`outchunkresent`
1, 2, 3, each time the events are those of `send_chunk`); the 4th timeout drops the packet (`outpkt.len = 0`) and sends a
ping.  (An excursion into `handshake_lazyoff` in between does not touch the packet or the counter:
`C02L.lazyoffStep_preserves`; `C02L.tunnelStep_tick` links `timeoutBranch` to the step machine.) -/
theorem client_resends_then_gives_up (c : Client.Cli) (hs : Client.isSending c = true) (h0 : c.outchunkresent = 0) :
    let c1 := (Client.timeoutBranch c).1
    let c2 := (Client.timeoutBranch c1).1
    let c3 := (Client.timeoutBranch c2).1
    let c4 := (Client.timeoutBranch c3).1
    C02L.SameChunk c c1 ∧ c1.outchunkresent = 1 ∧ C02L.SameChunk c c2 ∧ c2.outchunkresent = 2 ∧
    C02L.SameChunk c c3 ∧ c3.outchunkresent = 3 ∧
    (Client.timeoutBranch c).2.1 = (Client.sendChunk { c with outchunkresent := 1 }).evs ∧
    (Client.timeoutBranch c1).2.1 = (Client.sendChunk { c1 with outchunkresent := 2 }).evs ∧
    (Client.timeoutBranch c2).2.1 = (Client.sendChunk { c2 with outchunkresent := 3 }).evs ∧
    c4.outpkt.len = 0 ∧ c4.outchunkresent = 0 ∧ Client.isSending c4 = false ∧
    (Client.timeoutBranch c3).2.1 =
      (Client.sendPing { c3 with outpkt := { c3.outpkt with offset := 0, len := 0, sentlen := 0 }, outchunkresent := 0 }).evs :=
  C02L.client_resends_then_gives_up c hs h0

/-- non-vacuity: a concrete client with a 3-byte packet in flight: three data queries, then a ping (`p…`) -/
example :
    let r1 := Client.timeoutBranch C02L.exC
    let r2 := Client.timeoutBranch r1.1
    let r3 := Client.timeoutBranch r2.1
    let r4 := Client.timeoutBranch r3.1
    Client.isSending C02L.exC = true ∧ C02L.exC.outchunkresent = 0 ∧
    r1.2.1 = [.query 7727 10 [48, 101, 97, 98, 97, 108, 105, 97, 113, 101, 46, 97, 46, 98, 99]] ∧
    r3.1.outchunkresent = 3 ∧ r4.1.outpkt.len = 0 ∧ (r4.2.1.map fun e => match e with | .query _ _ n => n.headD 0 | _ => 0) = [112] := by
  decide +kernel

/-- **client_tun_gating.**  The client's `select` contains the tun descriptor iff nothing is in flight or the chunk in
flight was already resent twice. -/
theorem client_tun_gating (c : Client.Cli) :
    (Client.selectOf c).tun = true ↔ (Client.isSending c = false ∨ c.outchunkresent ≥ 2) := C02L.client_tun_gating c

/-- … and a tun frame that is read while a packet is in flight is discarded: NOTHING changes (the frame is lost) — except
that in raw mode the keepalive that precedes every handler may be due (`rawKeepalive`: it only sets `lastrawping` and
sends a raw ping); in DNS mode nothing at all happens. -/
theorem client_tun_frame_while_sending (c : Client.Cli) (f : List Nat) (hrun : c.running = true)
    (hexp : ¬ c.lastdownstreamtime + 60 < c.now) (hs : Client.isSending c = true) (h2 : c.outchunkresent ≥ 2) :
    Client.tunnelStep c (.tun f) =
      (⟨(Client.rawKeepalive c).1, .tunnel⟩, (Client.rawKeepalive c).2, .sel (Client.selectOf (Client.rawKeepalive c).1)) ∧
    (Client.rawKeepalive c).1 = { c with lastrawping := (Client.rawKeepalive c).1.lastrawping } ∧
    (c.conn = .dnsNull → Client.tunnelStep c (.tun f) = (⟨c, .tunnel⟩, [], .sel (Client.selectOf c))) :=
  ⟨C02L.tunnelStep_tun_while_sending_raw c f hrun hexp hs h2, C02L.rawKeepalive_frame c,
   fun hc => C02L.tunnelStep_tun_while_sending c f hrun hc hexp hs h2⟩

example :
    let c := { C02L.exL with outchunkresent := 2 }
    c.running = true ∧ ¬ c.lastdownstreamtime + 60 < c.now ∧ Client.isSending c = true ∧ (Client.selectOf c).tun = true ∧
    (Client.selectOf C02L.exL).tun = false := by decide +kernel

/-- **ack_advances (client).**  An ack equal to (seqno, fragment) of the fragment in flight advances `offset` by `sentlen`
and the fragment counter by one and sends the next chunk, or completes the packet; any other ack changes nothing of the
transfer. -/
theorem ack_advances_client (c : Client.Cli) (h : Client.Hdr) (evs : List Client.CEvent) (sendNow : Bool) (read : Int) :
    (Client.isSending c = true → h.upSeq = c.outpkt.seqno → h.upFrag = c.outpkt.fragment →
      let r := (Client.upstream c h evs sendNow read).1
      (c.outpkt.offset + c.outpkt.sentlen < c.outpkt.len →
        r.outpkt.offset = c.outpkt.offset + c.outpkt.sentlen ∧ r.outpkt.fragment = Client.sChar (c.outpkt.fragment + 1) ∧
        r.outpkt.len = c.outpkt.len ∧ r.outpkt.data = c.outpkt.data ∧ r.outpkt.seqno = c.outpkt.seqno ∧
        r.outchunkresent = 0 ∧ Client.isSending r = true) ∧
      (¬ c.outpkt.offset + c.outpkt.sentlen < c.outpkt.len →
        r.outpkt.len = 0 ∧ r.outpkt.offset = 0 ∧ r.outchunkresent = 0 ∧ Client.isSending r = false)) ∧
    (¬ (Client.isSending c = true ∧ h.upSeq = c.outpkt.seqno ∧ h.upFrag = c.outpkt.fragment) →
      (Client.upstream c h evs sendNow read).1.outpkt.len = c.outpkt.len ∧
      (Client.upstream c h evs sendNow read).1.outpkt.offset = c.outpkt.offset ∧
      (Client.upstream c h evs sendNow read).1.outpkt.fragment = c.outpkt.fragment ∧
      (Client.upstream c h evs sendNow read).1.outchunkresent = c.outchunkresent) := by
  constructor
  · intro hs hq hf
    have := C02L.upstream_ack c h evs sendNow read hs hq hf
    exact ⟨fun hl => by obtain ⟨a, b, d, e, f, g, i, _⟩ := this.1 hl; exact ⟨a, b, d, e, f, g, i⟩,
      fun hl => by obtain ⟨a, b, d, e, _⟩ := this.2 hl; exact ⟨a, b, d, e⟩⟩
  · intro hn
    obtain ⟨_, a, b, d, _, _, e, _⟩ := C02L.upstream_other_ack c h evs sendNow read hn
    exact ⟨a, b, d, e⟩

example :
    let h : Client.Hdr := ⟨0, 0, 1, 0, false⟩
    Client.isSending C02L.exL = true ∧ h.upSeq = C02L.exL.outpkt.seqno ∧ h.upFrag = C02L.exL.outpkt.fragment := by decide

/-- **seqno_window.**  `recent_seqno(our, got)` is true exactly for the current sequence number and the three before it
(mod 8) — in both programs —, so the packet after the current one (`our + 1`) is never mistaken for a duplicate. -/
theorem seqno_window (a b : Int) (ha : 0 ≤ a ∧ a < 8) :
    (Client.recentSeqno a b = true ↔ ∃ k : Nat, k < 4 ∧ b = (a - k) % 8) ∧
    (Server.recentSeqno a b = true ↔ ∃ k : Nat, k < 4 ∧ b = (a - k) % 8) ∧
    Client.recentSeqno a ((a + 1) % 8) = false ∧ Server.recentSeqno a ((a + 1) % 8) = false :=
  ⟨C02L.recentSeqno_iff a b ha, C02L.recentSeqno_iff_server a b ha, C02L.recentSeqno_next a ha, C02L.recentSeqno_next_server a ha⟩

example : Client.recentSeqno 1 6 = true ∧ Client.recentSeqno 1 5 = false ∧ Client.recentSeqno 7 0 = false := by decide

/-- **session_expiry_60 (client).**  One turn of `client_tunnel`'s loop ends the function iff the last downstream data is
more than 60 s old when `select` returns. -/
theorem session_expiry_60_client (c : Client.Cli) (inp : Client.CInput) (hrun : c.running = true) :
    (Client.tunnelStep c inp).2.2 = .finished 0 ↔
      (Client.fire c (Client.selectOf c) inp).1.lastdownstreamtime + 60 < (Client.fire c (Client.selectOf c) inp).1.now :=
  (C02L.tunnelStep_finished_iff c inp hrun).1

example : (Client.tunnelStep { C02L.exL with now := 1061 } .tick).2.2 = .finished 0 ∧
    (Client.tunnelStep { C02L.exL with now := 1059 } (.rq Client.Rq.zero)).2.2 ≠ .finished 0 := by decide +kernel

/-! ## (A) component lemmas — server -/

/-- **server_tun_gating.**  The server's `select` contains the tun descriptor iff some live user is in raw mode or has an
empty outpacket queue; a frame offered otherwise is not looked at. -/
theorem server_tun_gating (s : Server.Srv) :
    ((Server.topOfLoop s).2.2 = true ↔
      ∃ x ∈ s.users, Server.live x s.now = true ∧ (x.conn = .rawUdp ∨ (x.conn = .dnsNull ∧ x.oqFilled = 0))) ∧
    ∀ f, Server.dispatch s (.tun f) false = (s, []) :=
  ⟨C02L.topOfLoop_tunsel_iff s, fun f => C02L.dispatch_tun_not_selected s f⟩

example : (Server.topOfLoop C02L.s0).2.2 = false ∧
    (Server.topOfLoop (C02L.putUser C02L.s0 0 { C02L.x0 with oqFilled := 0 })).2.2 = true := by decide +kernel

/-- **server_drops_after_resends.**  `send_chunk_or_dataless` forgets the current outpacket once it was sent more than 5
times without ack (`outfragresent > 5`: the 7th call) and continues with the queue (next queued packet, or idle); below
that the same fragment is sent again and the send is counted (`C02L.sendChunkOrDataless_counts`). -/
theorem server_drops_after_resends (s : Server.Srv) (u : Nat) (w : Server.QSel) (hu : u < s.users.length)
    (h1 : (Server.getUser s u).outpacket.len > 0) (h2 : (Server.getUser s u).outfragresent > 5) :
    Server.scDropResent s u =
      C02L.putUser s u (if (Server.getUser s u).oqFilled = 0 then Server.dropOut (Server.getUser s u) else C02L.nextOut (Server.getUser s u)) ∧
    Server.sendChunkOrDataless s u w =
      Server.sendChunkOrDataless
        (C02L.putUser s u (if (Server.getUser s u).oqFilled = 0 then Server.dropOut (Server.getUser s u) else C02L.nextOut (Server.getUser s u))) u w := by
  have := C02L.server_drops_after_resends s u w _ rfl _ rfl hu h1 h2
  exact ⟨this.1, this.2.2⟩

/-- non-vacuity: slot 0 with a 3-byte outpacket sent 6 times and one packet queued: the 7th call sends the first fragment
of the queued packet with the next sequence number -/
example :
    0 < C02L.s0.users.length ∧ (Server.getUser C02L.s0 0).outpacket.len > 0 ∧ (Server.getUser C02L.s0 0).outfragresent > 5 ∧
    (Server.sendChunkOrDataless C02L.s0 0 .q).1.2 =
      [Server.Event.ans ⟨4, 0x01020304, 4711⟩ 5 10 84 [] [128, (2 <<< 5) ||| 0, 7, 8] (.chunk 0)] := by decide +kernel

/-- **ack_advances (server).**  `process_downstream_ack`: an ack equal to (seqno, fragment) of a fragment that was sent
advances `offset` by `sentlen` and the fragment counter by one (or finishes the packet and starts the next queued one); any
other ack changes nothing. -/
theorem ack_advances_server (s : Server.Srv) (u : Nat) (a b : Int) :
    (((Server.getUser s u).outpacket.len = 0 ∨ (Server.getUser s u).outpacket.seqno ≠ a ∨ (Server.getUser s u).outpacket.fragment ≠ b ∨
        (Server.getUser s u).outpacket.sentlen = 0) → Server.processDownstreamAck s u a b = s) ∧
    ((Server.getUser s u).outpacket.len ≠ 0 → (Server.getUser s u).outpacket.seqno = a → (Server.getUser s u).outpacket.fragment = b →
      (Server.getUser s u).outpacket.sentlen ≠ 0 →
      ((Server.getUser s u).outpacket.offset + (Server.getUser s u).outpacket.sentlen < (Server.getUser s u).outpacket.len →
        Server.processDownstreamAck s u a b =
          C02L.putUser s u { Server.getUser s u with
            outpacket := { (Server.getUser s u).outpacket with
              offset := (Server.getUser s u).outpacket.offset + (Server.getUser s u).outpacket.sentlen, sentlen := 0,
              fragment := Server.sChar ((Server.getUser s u).outpacket.fragment + 1) },
            outfragresent := 0 }) ∧
      (u < s.users.length → (Server.getUser s u).outpacket.len ≤ (Server.getUser s u).outpacket.offset + (Server.getUser s u).outpacket.sentlen →
        Server.processDownstreamAck s u a b =
          C02L.putUser s u (if (Server.getUser s u).oqFilled = 0 then C02L.srvAckDone (Server.getUser s u) else C02L.nextOut (Server.getUser s u)))) :=
  ⟨C02L.processDownstreamAck_other s u a b,
   fun h1 h2 h3 h4 => ⟨C02L.processDownstreamAck_advance s u a b h1 h2 h3 h4,
     fun hu h5 => C02L.processDownstreamAck_complete s u a b hu h1 h2 h3 h4 h5⟩⟩

example : (Server.getUser (Server.processDownstreamAck C02L.s0 0 1 0) 0).outpacket.offset = 2 ∧
    Server.processDownstreamAck C02L.s0 0 1 1 = C02L.s0 := by decide +kernel

/-- **session_expiry_60 (server).**  A valid, active slot is refused by `check_user_and_ip` iff its last packet is more
than 60 s old.  (The loops — sweep, tun delivery, `all_users_waiting_to_send` — use `last_pkt + 60 > now`: at exactly
60 s the two tests disagree, `C02L.expiry_boundary`.) -/
theorem session_expiry_60_server (s : Server.Srv) (u : Nat) (q : Server.Query) (hu : u < s.cfg.createdUsers)
    (ha : (Server.getUser s u).active = true) (hd : (Server.getUser s u).disabled = false)
    (hip : s.cfg.checkIp = false ∨ (q.from_.fam = (Server.getUser s u).host.fam ∧ (q.from_.fam = 4 ∨ q.from_.fam = 6) ∧
      (Server.getUser s u).host.ip = q.from_.ip)) :
    Server.checkUserAndIp s (u : Int) q = true ↔ (Server.getUser s u).lastPkt + 60 < s.now :=
  C02L.checkUserAndIp_expired_iff s u q hu ha hd hip

example : Server.checkUserAndIp { C02L.s0 with now := 1051 } 0 Server.Query.zero = true ∧
    Server.checkUserAndIp { C02L.s0 with now := 1050 } 0 Server.Query.zero = false ∧
    Server.live (Server.getUser C02L.s0 0) 1050 = false := by decide +kernel

/-! ## (C) no deadlock after a give-up -/

/-- **no_deadlock_after_giveup (client).**  After the 4th timeout the client is not sending, selects its tun device again,
pings on timeouts, and the next tun frame starts a new packet with the next sequence number. -/
theorem no_deadlock_after_giveup_client (c : Client.Cli) (hs : Client.isSending c = true) (h3 : c.outchunkresent = 3) :
    let c4 := (Client.timeoutBranch c).1
    Client.isSending c4 = false ∧ c4.outchunkresent = 0 ∧ (Client.selectOf c4).tun = true ∧
    Client.timeoutBranch c4 = Client.afterSend (Client.sendPing c4) [] .timeout ∧
    ∀ f : List Nat, f ≠ [] →
      (Client.tunnelTun c4 f).1.outpkt.seqno = Client.sChar ((c.outpkt.seqno + 1) % 8) ∧
      (Client.tunnelTun c4 f).1.outpkt.offset = 0 ∧ (Client.tunnelTun c4 f).1.outpkt.fragment = 0 ∧
      (c.conn = .dnsNull → Client.isSending (Client.tunnelTun c4 f).1 = true) := by
  intro c4
  obtain ⟨a, b, d, e, f⟩ := C02L.client_ready_after_giveup c hs h3
  exact ⟨a, b, d, e, fun fr hfr => by
    obtain ⟨g1, _, g3, g4, _, g6⟩ := f fr hfr
    exact ⟨g1, g3, g4, fun hc => (g6 hc).2.1⟩⟩

example : Client.isSending { C02L.exC with outchunkresent := 3 } = true := by decide

/-- **no_deadlock_after_giveup (server).**  After the drop the server serves the next queued packet (its first fragment
goes out in the same call), or — nothing queued — answers dataless and is idle, so the next tun frame starts a packet. -/
theorem no_deadlock_after_giveup_server (s : Server.Srv) (u : Nat) (w : Server.QSel) (hu : u < s.users.length)
    (h1 : (Server.getUser s u).outpacket.len > 0) (h2 : (Server.getUser s u).outfragresent > 5) :
    ((Server.getUser s u).oqFilled > 0 →
      (Server.sendChunkOrDataless s u w).1.2.head? =
        some (Server.writeDns (w.get (Server.getUser s u))
          (Server.scPkt (C02L.nextOut (Server.getUser s u)) (Server.scDatalen (C02L.nextOut (Server.getUser s u))))
          (Server.getUser s u).downenc (.chunk u))) ∧
    ((Server.getUser s u).oqFilled = 0 →
      (Server.getUser (Server.sendChunkOrDataless s u w).1.1 u).outpacket.len = 0 ∧
      (Server.getUser (Server.sendChunkOrDataless s u w).1.1 u).outfragresent = 0) :=
  ⟨fun h3 => (C02L.server_serves_next_after_drop s u w _ rfl hu h1 h2 h3).1,
   fun h3 => by
     obtain ⟨_, _, _, a, b, _⟩ := C02L.server_idle_after_drop s u w _ rfl hu h1 h2 h3
     exact ⟨a, b⟩⟩

/-! ## (A) the joined model: tests -/

/-- TESTS (concrete runs evaluated by the kernel, NOT theorems about all runs): a login-free pre-established session
delivers 1-, 2- and 5-fragment packets both ways exactly once, unchanged, and is quiescent again afterwards — immediate
and lazy mode; more tests (other codecs, raw mode, sequences, both directions at once) in `Lemmas/C02t*.lean`. -/
theorem world_tests :
    C02L.deliversOnce (demoImmediate .b32 .b32) true (demoFrame 9 4) 3 = true ∧
    C02L.deliversOnce (demoImmediate .b32 .b32) true (demoFrame 9 30) 5 = true ∧
    C02L.deliversOnce (demoImmediate .b32 .b32) true (demoFrame 9 100) 11 = true ∧
    C02L.deliversOnce (demoImmediate .b32 .b32) false (demoFrame 2 4) 3 = true ∧
    C02L.deliversOnce (demoImmediate .b32 .b32) false (demoFrame 2 30) 8 = true ∧
    C02L.deliversOnce (demoImmediate .b32 .b32) false (demoFrame 2 100) 14 = true ∧
    C02L.deliversOnce (demoLazy .b32 .b32) true (demoFrame 9 4) 3 = true ∧
    C02L.deliversOnce (demoLazy .b32 .b32) true (demoFrame 9 30) 5 = true ∧
    C02L.deliversOnce (demoLazy .b32 .b32) true (demoFrame 9 100) 11 = true ∧
    C02L.deliversOnce (demoLazy .b32 .b32) false (demoFrame 2 4) 3 = true ∧
    C02L.deliversOnce (demoLazy .b32 .b32) false (demoFrame 2 30) 5 = true ∧
    C02L.deliversOnce (demoLazy .b32 .b32) false (demoFrame 2 100) 11 = true :=
  ⟨C02L.test_imm_up_1, C02L.test_imm_up_2, C02L.test_imm_up_5, C02L.test_imm_down_1, C02L.test_imm_down_2, C02L.test_imm_down_5,
   C02L.test_lazy_up_1, C02L.test_lazy_up_2, C02L.test_lazy_up_5, C02L.test_lazy_down_1, C02L.test_lazy_down_2, C02L.test_lazy_down_5⟩

/-! ## (B) the clean path, as theorems over the joined model -/

/-- The parameters the theorems quantify over: user id `u < 16`; one of the four upstream codecs on both sides; a host name
limit `100 ≤ L ≤ 255`; a tunnel domain `td` that is a legal name of 3..128 bytes without `*` and NUL with `|td| + 24 ≤ L`
(the hypotheses of C08); a query type the server handles as tunnel traffic. -/
abbrev Params (P : C02L.Par) : Prop := P.Ok

/-- Quiescent joint state in immediate mode (`C02L.QuietImm`, spelled out in `quiescent_iff`). -/
abbrev Quiescent (P : C02L.Par) (w : W) : Prop := C02L.QuietImm P w

/-- the clauses of `Quiescent`, flat: nothing in flight; the client thread is parked in `client_tunnel`'s `select`, running,
in DNS mode, immediate mode, with the session's parameters, not sending, not expired; on the server only slot `u` is
active — authenticated, DNS mode, same codec, immediate mode, no outpacket, empty queue, no query held, answers to the
client's address, not expired —; both reassemblers agree with the peer's sender on the current sequence number; and the
server's duplicate memories hold, of this session's data queries and pings, only ones older than the next one
(`C02L.Aged`, `C02L.PAged`: an entry written `i` saves ago carries a counter value at most `i + 1` sends old). -/
theorem quiescent_iff (P : C02L.Par) (w : W) :
    Quiescent P w ↔
      (w.up = [] ∧ w.down = [] ∧ w.cs.ph = .tunnel ∧
       C02L.CStat P w.cs.c ∧ Client.isSending w.cs.c = false ∧
       C02L.SStat P w.srv ∧ C02L.IdleImm (Server.getUser w.srv P.u) ∧ (Server.getUser w.srv P.u).oqFilled = 0 ∧
       (Server.getUser w.srv P.u).inpacket.seqno = w.cs.c.outpkt.seqno ∧
       (Server.getUser w.srv P.u).outpacket.seqno = w.cs.c.inpkt.seqno ∧
       C02L.Aged P (Server.getUser w.srv P.u) w.cs.c.datacmc 1 ∧
       C02L.PAged P (Server.getUser w.srv P.u) w.cs.c.randSeed 1) :=
  ⟨fun h => ⟨h.up, h.down, h.ph, h.cst, h.idleC, h.srv, h.idle, h.oq, h.syncu, h.syncd, h.aged, h.paged⟩,
   fun ⟨a, b, c, d, e, f, g, h, i, j, k, l⟩ => ⟨c, d, e, a, b, f, g, h, i, j, k, l⟩⟩

/-- a quiescent state is one in which the executable `quiet` test of the scheduler holds -/
theorem quiescent_quiet {P : C02L.Par} {w : W} (h : Quiescent P w) : quiet P.u w = true := C02L.QuietImm.quiet h

/-- the number of fragments the client cuts the (compressed) frame into -/
abbrev fragments (P : C02L.Par) (frame : List Nat) : Nat := C02L.upFrags P (frame.length + 1) (0x5a :: frame)

/-- A frame the property speaks about, upstream: an IP packet (4-byte tun header + at least an IP header) shorter than
64 KiB, made of bytes, needing at most 16 fragments, and not addressed to the client's own tunnel address `tunIp` (such a
packet is handed back to the client instead of the tun device). -/
abbrev AcceptableUp (P : C02L.Par) (tunIp : Nat) (frame : List Nat) : Prop := C02L.UpFrameOk P tunIp frame

/-- what `write_tun` writes for a frame: the frame with its 4-byte tun header set to 00 00 08 00 -/
abbrev tunImage (frame : List Nat) : List Nat := C02L.tunImage frame

/-- **clean_path_upstream_immediate** (THEOREM, every payload that needs `g ≤ 16` fragments).  From a quiescent joint state
in immediate mode, `offerC frame` followed by the prompt schedule reaches, after exactly `2·g + 1` scheduler steps, a
quiescent state again; the server has written exactly one frame to its tun device — the offered one — and the client
none. -/
theorem clean_path_upstream_immediate {P : C02L.Par} (hP : Params P) {w : W} (hq : Quiescent P w) (frame : List Nat)
    (hok : AcceptableUp P (Server.getUser w.srv P.u).tunIp frame) :
    ∃ w', (∀ fuel, 2 * fragments P frame + 1 ≤ fuel → runPrompt P.u fuel (step w (.offerC frame)) = w') ∧
      (∀ fuel, 2 * fragments P frame + 1 ≤ fuel →
        runPromptCount P.u fuel (step w (.offerC frame)) 0 = (w', 2 * fragments P frame + 1)) ∧
      Quiescent P w' ∧ w'.tunS = w.tunS ++ [tunImage frame] ∧ w'.tunC = w.tunC := by
  obtain ⟨w', h1, h2, h3, h4, _⟩ := C02L.up_packet_imm hP hq frame hok.h24 hok.hl hok.bytes hok.dst hok.frags
  refine ⟨w', fun fuel hf => C02L.runPrompt_of_steps P.u _ _ _ h1 h2.quiet fuel hf, fun fuel hf => ?_, h2, h3, h4⟩
  have := C02L.runPromptCount_of_steps P.u _ _ _ h1 h2.quiet fuel 0 hf
  simpa using this

/-- **clean_path_single_fragment** (THEOREM): the case of a payload that fits one upstream fragment: three scheduler steps
(`deliverUp`, `tickS`, `deliverDown`), exactly one `tunw` on the server side, equal to the frame.  Immediate mode, upstream.
(Downstream: `clean_path_single_fragment_down`; lazy mode: `clean_path_upstream_lazy`, `clean_path_downstream_lazy`.) -/
theorem clean_path_single_fragment {P : C02L.Par} (hP : Params P) {w : W} (hq : Quiescent P w) (frame : List Nat)
    (hok : AcceptableUp P (Server.getUser w.srv P.u).tunIp frame) (h1 : fragments P frame = 1) :
    ∃ w', runPromptCount P.u 3 (step w (.offerC frame)) 0 = (w', 3) ∧
      Quiescent P w' ∧ w'.tunS = w.tunS ++ [tunImage frame] ∧ w'.tunC = w.tunC := by
  obtain ⟨w', _, h2, h3, h4, h5⟩ := clean_path_upstream_immediate hP hq frame hok
  have := h2 3 (by rw [h1]; omega)
  rw [h1] at this
  exact ⟨w', this, h3, h4, h5⟩

/-- sequences upstream, immediate mode: every sequence of acceptable frames, each offered after the previous one was
delivered (prompt path), arrives at the server's tun device exactly once and in the order offered; nothing is written to the
client's tun device; the joint state is quiescent again. -/
theorem clean_path_sequence_upstream_immediate {P : C02L.Par} (hP : Params P) (fuel : Nat) (hfuel : 33 ≤ fuel)
    (frames : List (List Nat)) (w : W) (hq : Quiescent P w)
    (hok : ∀ f ∈ frames, AcceptableUp P (Server.getUser w.srv P.u).tunIp f) :
    Quiescent P (offerAllC P.u fuel w frames) ∧
    (offerAllC P.u fuel w frames).tunS = w.tunS ++ frames.map tunImage ∧
    (offerAllC P.u fuel w frames).tunC = w.tunC :=
  C02L.up_sequence_imm hP fuel hfuel frames w hq hok


/-! ### lazy mode, upstream -/

/-- Quiescent joint state in lazy mode (`C02L.QuietLazy`): as `Quiescent`, but the server HOLDS exactly one query of the
client — its most recent one, a ping or the last data query — unanswered in `q`, and the client's answer counting is in
balance (so that `send_query` does not switch lazy mode off). -/
abbrev QuiescentLazy (P : C02L.Par) (w : W) : Prop := C02L.QuietLazy P w

theorem quiescentLazy_quiet {P : C02L.Par} {w : W} (h : QuiescentLazy P w) : quiet P.u w = true := C02L.QuietLazy.quiet h

/-- **clean_path_upstream_lazy** (THEOREM): the statement of `clean_path_upstream_immediate` in lazy mode — the held query is
answered instead of the new one, which is then held; same `2·g + 1` steps. -/
theorem clean_path_upstream_lazy {P : C02L.Par} (hP : Params P) {w : W} (hq : QuiescentLazy P w) (frame : List Nat)
    (hok : AcceptableUp P (Server.getUser w.srv P.u).tunIp frame) :
    ∃ w', (∀ fuel, 2 * fragments P frame + 1 ≤ fuel → runPrompt P.u fuel (step w (.offerC frame)) = w') ∧
      (∀ fuel, 2 * fragments P frame + 1 ≤ fuel →
        runPromptCount P.u fuel (step w (.offerC frame)) 0 = (w', 2 * fragments P frame + 1)) ∧
      QuiescentLazy P w' ∧ w'.tunS = w.tunS ++ [tunImage frame] ∧ w'.tunC = w.tunC :=
  C02L.clean_path_upstream_lazy hP hq frame hok

theorem clean_path_sequence_upstream_lazy {P : C02L.Par} (hP : Params P) (fuel : Nat) (hfuel : 33 ≤ fuel)
    (frames : List (List Nat)) (w : W) (hq : QuiescentLazy P w)
    (hok : ∀ f ∈ frames, AcceptableUp P (Server.getUser w.srv P.u).tunIp f) :
    QuiescentLazy P (offerAllC P.u fuel w frames) ∧
    (offerAllC P.u fuel w frames).tunS = w.tunS ++ frames.map tunImage ∧
    (offerAllC P.u fuel w frames).tunC = w.tunC :=
  C02L.up_sequence_lazy hP fuel hfuel frames w hq hok

/-- non-vacuity: the lazy demo session (the client's first ping held by the server) -/
example : QuiescentLazy C02L.exPL C02L.exWL ∧ AcceptableUp C02L.exPL (Server.getUser C02L.exWL.srv C02L.exPL.u).tunIp (demoFrame 9 30) :=
  ⟨C02L.ex_quiescent_lazy, C02L.ex_acceptable_lazy.1⟩

/-! ### immediate mode, downstream -/

/-- the number of fragments the server cuts the (compressed) frame into at fragment size `F` -/
abbrev fragmentsDown (F : Nat) (frame : List Nat) : Nat := C02L.downFrags F (frame.length + 1) (frame.length + 1)

/-- A frame the property speaks about, downstream: an IP packet shorter than 64 KiB, addressed to the client's tunnel
address `tunIp` (that is how the server finds the user), needing at most 16 fragments of size `F`. -/
abbrev AcceptableDown (tunIp F : Nat) (frame : List Nat) : Prop := C02L.DownFrameOk tunIp F frame

/-- the timers leave room for one poll of the client: its `select` timeout is below the server's 10 s and neither 60 s
limit is reached within it (in immediate mode downstream data waits for the client's next ping) -/
abbrev Roomy (P : C02L.Par) (w : W) : Prop := C02L.Roomy P w

/-- scheduler steps of a downstream packet of `g` fragments: 3 for one fragment (`tickC deliverUp deliverDown`), else
`2·g + 4` (each further fragment is fetched by the ping that acknowledges the previous one; the last acknowledgement waits
for the client's 5 ms timer) -/
abbrev stepsDown (g : Nat) : Nat := C02L.downSteps g

/-- **clean_path_downstream_immediate** (THEOREM, every payload of `g ≤ 16` fragments, every fragment size `≥ 1`).  From a
quiescent joint state in immediate mode with timer room, `offerS frame` followed by the prompt schedule reaches, after
exactly `stepsDown g` steps, a quiescent state again; the client has written exactly the offered frame to its tun device
and the server nothing; there is timer room again. -/
theorem clean_path_downstream_immediate {P : C02L.Par} (hP : Params P) {w : W} (hq : Quiescent P w) (hr : Roomy P w)
    (frame : List Nat) (hF : 0 < (Server.getUser w.srv P.u).fragsize)
    (hok : AcceptableDown (Server.getUser w.srv P.u).tunIp (Server.getUser w.srv P.u).fragsize frame)
    (hsel : w.cs.c.selecttimeout ≤ 9) :
    ∃ w', (∀ fuel, stepsDown (fragmentsDown (Server.getUser w.srv P.u).fragsize frame) ≤ fuel →
        runPromptCount P.u fuel (step w (.offerS frame)) 0 =
          (w', stepsDown (fragmentsDown (Server.getUser w.srv P.u).fragsize frame))) ∧
      Quiescent P w' ∧ Roomy P w' ∧ w'.tunC = w.tunC ++ [tunImage frame] ∧ w'.tunS = w.tunS := by
  obtain ⟨w', h1, h2, h3, h4, _, _, h7, h8, h9, h10⟩ := C02L.down_packet_imm hP hq frame hF hok hr.to hr.cli hr.srv
  refine ⟨w', fun fuel hf => ?_, h2, C02L.roomy_after h2 h7 h8 (by rw [h9]; exact hsel) h10, h3, h4⟩
  have := C02L.runPromptCount_of_steps P.u _ _ _ h1 h2.quiet fuel 0 hf
  simpa using this

/-- **clean_path_single_fragment, downstream** (THEOREM): a payload that fits one downstream fragment: three scheduler steps,
exactly one `tunw` on the client side, equal to the frame. -/
theorem clean_path_single_fragment_down {P : C02L.Par} (hP : Params P) {w : W} (hq : Quiescent P w) (hr : Roomy P w)
    (frame : List Nat) (hF : 0 < (Server.getUser w.srv P.u).fragsize)
    (hok : AcceptableDown (Server.getUser w.srv P.u).tunIp (Server.getUser w.srv P.u).fragsize frame)
    (hsel : w.cs.c.selecttimeout ≤ 9) (h1 : fragmentsDown (Server.getUser w.srv P.u).fragsize frame = 1) :
    ∃ w', runPromptCount P.u 3 (step w (.offerS frame)) 0 = (w', 3) ∧
      Quiescent P w' ∧ w'.tunC = w.tunC ++ [tunImage frame] ∧ w'.tunS = w.tunS := by
  obtain ⟨w', h2, h3, _, h4, h5⟩ := clean_path_downstream_immediate hP hq hr frame hF hok hsel
  have := h2 3 (by rw [h1]; decide)
  rw [h1] at this
  exact ⟨w', this, h3, h4, h5⟩

/-- sequences downstream, immediate mode -/
theorem clean_path_sequence_downstream_immediate {P : C02L.Par} (hP : Params P) (fuel : Nat) (hfuel : 36 ≤ fuel)
    (frames : List (List Nat)) (w : W) (hq : Quiescent P w) (hr : Roomy P w) (hsel : w.cs.c.selecttimeout ≤ 9)
    (hF : 0 < (Server.getUser w.srv P.u).fragsize)
    (hok : ∀ f ∈ frames, AcceptableDown (Server.getUser w.srv P.u).tunIp (Server.getUser w.srv P.u).fragsize f) :
    Quiescent P (offerAllS P.u fuel w frames) ∧
    (offerAllS P.u fuel w frames).tunC = w.tunC ++ frames.map tunImage ∧
    (offerAllS P.u fuel w frames).tunS = w.tunS :=
  C02L.down_sequence_imm hP fuel hfuel frames w hq hr hsel hF hok

/-- an offer the property speaks about (either direction) -/
abbrev AcceptableOffer (P : C02L.Par) (tunIp F : Nat) (o : Offer) : Prop := C02L.OfferOk P tunIp F o

/-- **clean_path_exactly_once_in_order_immediate** (THEOREM).  Immediate mode: packets offered on BOTH sides, in any
interleaving, each one after the previous one was delivered (prompt path): every frame reaches the peer's tun device
exactly once, each direction in the order offered (`Offer.ups` / `Offer.downs` = the offers of a direction, in order); the
joint state is quiescent again. -/
theorem clean_path_exactly_once_in_order_immediate {P : C02L.Par} (hP : Params P) (fuel : Nat) (hfuel : 36 ≤ fuel)
    (offers : List Offer) (w : W) (hq : Quiescent P w) (hr : Roomy P w) (hsel : w.cs.c.selecttimeout ≤ 9)
    (hF : 0 < (Server.getUser w.srv P.u).fragsize)
    (hok : ∀ o ∈ offers, AcceptableOffer P (Server.getUser w.srv P.u).tunIp (Server.getUser w.srv P.u).fragsize o) :
    Quiescent P (offerAll P.u fuel w offers) ∧
    (offerAll P.u fuel w offers).tunS = w.tunS ++ (Offer.ups offers).map tunImage ∧
    (offerAll P.u fuel w offers).tunC = w.tunC ++ (Offer.downs offers).map tunImage :=
  C02L.mixed_sequence_imm hP fuel hfuel offers w hq hr hsel hF hok

/-! ### lazy mode, downstream -/

/-- scheduler steps of a downstream packet of `g` fragments in lazy mode, `sps` = the client's `send_ping_soon` at the start:
`2·g + 1` (`deliverDown`, then `deliverUp deliverDown` per further fragment — the server answers the acknowledging ping with
the next fragment —, then `tickC deliverUp` for the last acknowledgement, which the server holds); but 2 if `g = 1` and a
ping was due at the client anyway (`sps ≠ 0`): then the acknowledgement leaves in the same step the fragment arrives. -/
abbrev stepsDownLazy (sps g : Nat) : Nat := C02L.downStepsL sps g

/-- **clean_path_downstream_lazy** (THEOREM, every payload of `g ≤ 16` fragments, every fragment size `≥ 1`).  From ANY
quiescent joint state in lazy mode: the server answers the held query with the first fragment at once; after exactly
`stepsDownLazy sps g` steps the joint state is quiescent again, the client has written exactly the offered frame to its
tun device and the server nothing.  No timing hypothesis (no clock advances). -/
theorem clean_path_downstream_lazy {P : C02L.Par} (hP : Params P) {w : W} (hq : QuiescentLazy P w)
    (frame : List Nat) (hF : 0 < (Server.getUser w.srv P.u).fragsize)
    (hok : AcceptableDown (Server.getUser w.srv P.u).tunIp (Server.getUser w.srv P.u).fragsize frame) :
    ∃ w', (∀ fuel, 2 * fragmentsDown (Server.getUser w.srv P.u).fragsize frame + 1 ≤ fuel →
        runPromptCount P.u fuel (step w (.offerS frame)) 0 =
          (w', stepsDownLazy w.cs.c.sendPingSoon (fragmentsDown (Server.getUser w.srv P.u).fragsize frame))) ∧
      QuiescentLazy P w' ∧ w'.cs.c.sendPingSoon = 0 ∧ w'.tunC = w.tunC ++ [tunImage frame] ∧ w'.tunS = w.tunS := by
  obtain ⟨w', _, h2, h3, h4, h5, h6⟩ := C02L.clean_path_downstream_lazy_gen hP hq frame hF hok
  exact ⟨w', h2, h3, h4, h5, h6⟩

/-- the step count really depends on the ping timer: the quiescent state `C02L.exWU` (after one upstream packet,
`send_ping_soon = 20`) delivers a one-fragment frame in 2 steps, and a third step does not exist -/
example : QuiescentLazy C02L.exPL C02L.exWU ∧
    C02L.promptSteps 0 3 (step C02L.exWU (.offerS (demoFrame 2 4))) = none ∧
    ∃ w', C02L.promptSteps 0 2 (step C02L.exWU (.offerS (demoFrame 2 4))) = some w' ∧ QuiescentLazy C02L.exPL w' ∧
      w'.tunC = C02L.exWU.tunC ++ [demoFrame 2 4] ∧ w'.tunS = C02L.exWU.tunS :=
  ⟨C02L.lazy_down_count_depends_on_ping_due.1, C02L.lazy_down_count_depends_on_ping_due.2.2.2.1,
    C02L.lazy_down_count_depends_on_ping_due.2.2.2.2⟩

/-- sequences downstream, lazy mode -/
theorem clean_path_sequence_downstream_lazy {P : C02L.Par} (hP : Params P) (fuel : Nat) (hfuel : 33 ≤ fuel)
    (frames : List (List Nat)) (w : W) (hq : QuiescentLazy P w) (hF : 0 < (Server.getUser w.srv P.u).fragsize)
    (hok : ∀ f ∈ frames, AcceptableDown (Server.getUser w.srv P.u).tunIp (Server.getUser w.srv P.u).fragsize f) :
    QuiescentLazy P (offerAllS P.u fuel w frames) ∧
    (offerAllS P.u fuel w frames).tunC = w.tunC ++ frames.map tunImage ∧
    (offerAllS P.u fuel w frames).tunS = w.tunS :=
  C02L.down_sequence_lazy hP fuel hfuel frames w hq hF hok

/-- **clean_path_exactly_once_in_order_lazy** (THEOREM).  Lazy mode: packets offered on BOTH sides, in any interleaving, each
one after the previous one was delivered: every frame reaches the peer's tun device exactly once, each direction in the
order offered; quiescent again. -/
theorem clean_path_exactly_once_in_order_lazy {P : C02L.Par} (hP : Params P) (fuel : Nat) (hfuel : 33 ≤ fuel)
    (offers : List Offer) (w : W) (hq : QuiescentLazy P w) (hF : 0 < (Server.getUser w.srv P.u).fragsize)
    (hok : ∀ o ∈ offers, AcceptableOffer P (Server.getUser w.srv P.u).tunIp (Server.getUser w.srv P.u).fragsize o) :
    QuiescentLazy P (offerAll P.u fuel w offers) ∧
    (offerAll P.u fuel w offers).tunS = w.tunS ++ (Offer.ups offers).map tunImage ∧
    (offerAll P.u fuel w offers).tunC = w.tunC ++ (Offer.downs offers).map tunImage :=
  C02L.mixed_sequence_lazy hP fuel hfuel offers w hq hF hok

/-- non-vacuity and the theorem applied: on the lazy demo session a one-fragment frame up, a two-fragment frame down and a
two-fragment frame up arrive, each side in order -/
example : (offerAll 0 40 C02L.exWL [.toServer (demoFrame 9 4), .toClient (demoFrame 2 30), .toServer (demoFrame 9 30)]).tunS =
      [demoFrame 9 4, demoFrame 9 30] ∧
    (offerAll 0 40 C02L.exWL [.toServer (demoFrame 9 4), .toClient (demoFrame 2 30), .toServer (demoFrame 9 30)]).tunC =
      [demoFrame 2 30] := by
  have hok : ∀ o ∈ [Offer.toServer (demoFrame 9 4), .toClient (demoFrame 2 30), .toServer (demoFrame 9 30)],
      AcceptableOffer C02L.exPL (Server.getUser C02L.exWL.srv C02L.exPL.u).tunIp (Server.getUser C02L.exWL.srv C02L.exPL.u).fragsize o := by
    intro o ho
    simp only [List.mem_cons, List.not_mem_nil, or_false] at ho
    rcases ho with rfl | rfl | rfl
    · exact ⟨by decide, by decide, by unfold Codec.Bytes; decide, by decide +kernel, by decide +kernel⟩
    · exact C02L.ex_acceptable_down_lazy.1
    · exact C02L.ex_acceptable_lazy.1
  have := clean_path_exactly_once_in_order_lazy C02L.exPL_ok 40 (by decide) _ C02L.exWL C02L.ex_quiescent_lazy
    (by rw [C02L.exWL_fragsize]; decide) hok
  have ht : C02L.exWL.tunS = [] ∧ C02L.exWL.tunC = [] := by decide +kernel
  refine ⟨?_, ?_⟩
  · rw [show C02L.exPL.u = 0 from rfl] at this
    rw [this.2.1, ht.1]; decide
  · rw [show C02L.exPL.u = 0 from rfl] at this
    rw [this.2.2, ht.2]; decide

/-! ### raw UDP mode -/

/-- Quiescent joint state in raw mode (`C02L.QuietRaw`): nothing in flight; client running in raw mode with user id
`u < 16`, not expired; on the server only slot `u` is active — authenticated also for raw mode, `conn = rawUdp`, answering
to the client's address, not expired, nothing queued. -/
abbrev QuiescentRaw (u : Nat) (w : W) : Prop := C02L.QuietRaw u w

/-- the client's raw-mode keepalive is due (`lastrawping + selecttimeout ≤ now`): the next handler is preceded by a raw ping -/
abbrev keepaliveDue (c : Client.Cli) : Prop := C02L.kaDue c

/-- **clean_path_raw** (THEOREM).  Raw mode carries a packet in ONE datagram of at most 4096 bytes: a frame of at most 4091
bytes offered on either side is written to the peer's tun device exactly once — after one scheduler step, or three when the
client's keepalive is due (the ping and its answer travel as well; then both sides have heard from each other, which is
what keeps a session with one-directional traffic alive).  Longer frames are silently TRUNCATED by `send_raw`
(`C02L.raw_up_long_truncated`, `C02L.raw_down_long_truncated`). -/
theorem clean_path_raw {u : Nat} {w : W} (hq : QuiescentRaw u w) (hsel : 0 < w.cs.c.selecttimeout) (f : List Nat)
    (h24 : 24 ≤ f.length) (hlen : f.length + 1 ≤ 4092) :
    (Server.ipDst f ≠ (Server.getUser w.srv u).tunIp →
      ∃ k w', k ≤ 3 ∧ (∀ fuel, k ≤ fuel → runPrompt u fuel (step w (.offerC f)) = w') ∧ QuiescentRaw u w' ∧
        w'.tunS = w.tunS ++ [tunImage f] ∧ w'.tunC = w.tunC ∧ (keepaliveDue w.cs.c → w'.cs.c.lastdownstreamtime = w'.cs.c.now)) ∧
    (Server.ipDst f = (Server.getUser w.srv u).tunIp →
      ∃ k w', k ≤ 3 ∧ (∀ fuel, k ≤ fuel → runPrompt u fuel (step w (.offerS f)) = w') ∧ QuiescentRaw u w' ∧
        w'.tunC = w.tunC ++ [tunImage f] ∧ w'.tunS = w.tunS ∧
        (keepaliveDue w.cs.c → (Server.getUser w'.srv u).lastPkt = w'.srv.now)) := by
  constructor
  · intro hd
    obtain ⟨k, w', hk, h1, h2, h3, h4, _, _, h7⟩ := C02L.raw_up_any hq hsel f ⟨h24, hlen, hd⟩
    exact ⟨k, w', hk, fun fuel hf => C02L.runPrompt_of_steps u _ _ _ h1 h2.quiet fuel hf, h2, h3, h4, h7⟩
  · intro hd
    obtain ⟨k, w', hk, h1, h2, h3, h4, _, _, h7⟩ := C02L.raw_down_any hq hsel f ⟨h24, hlen, hd⟩
    exact ⟨k, w', hk, fun fuel hf => C02L.runPrompt_of_steps u _ _ _ h1 h2.quiet fuel hf, h2, h3, h4, h7⟩

/-- sequences in raw mode, each direction -/
theorem clean_path_sequence_raw {u : Nat} (fuel : Nat) (hfuel : 3 ≤ fuel) (frames : List (List Nat)) (w : W)
    (hq : QuiescentRaw u w) (hsel : 0 < w.cs.c.selecttimeout) :
    ((∀ f ∈ frames, C02L.RawUpOk (Server.getUser w.srv u).tunIp f) →
      QuiescentRaw u (offerAllC u fuel w frames) ∧ (offerAllC u fuel w frames).tunS = w.tunS ++ frames.map tunImage ∧
      (offerAllC u fuel w frames).tunC = w.tunC) ∧
    ((∀ f ∈ frames, C02L.RawDownOk (Server.getUser w.srv u).tunIp f) →
      QuiescentRaw u (offerAllS u fuel w frames) ∧ (offerAllS u fuel w frames).tunC = w.tunC ++ frames.map tunImage ∧
      (offerAllS u fuel w frames).tunS = w.tunS) :=
  ⟨C02L.up_sequence_raw fuel hfuel frames w hq hsel, C02L.down_sequence_raw fuel hfuel frames w hq hsel⟩

/-- an offer the raw-mode theorem speaks about -/
abbrev AcceptableOfferRaw (tunIp : Nat) (o : Offer) : Prop := C02L.RawOfferOk tunIp o

/-- **clean_path_exactly_once_in_order_raw** (THEOREM).  Raw mode: packets offered on both sides, in any interleaving, one
after the other. -/
theorem clean_path_exactly_once_in_order_raw {u : Nat} (fuel : Nat) (hfuel : 3 ≤ fuel) (offers : List Offer) (w : W)
    (hq : QuiescentRaw u w) (hsel : 0 < w.cs.c.selecttimeout)
    (hok : ∀ o ∈ offers, AcceptableOfferRaw (Server.getUser w.srv u).tunIp o) :
    QuiescentRaw u (offerAll u fuel w offers) ∧
    (offerAll u fuel w offers).tunS = w.tunS ++ (Offer.ups offers).map tunImage ∧
    (offerAll u fuel w offers).tunC = w.tunC ++ (Offer.downs offers).map tunImage :=
  C02L.mixed_sequence_raw fuel hfuel offers w hq hsel hok

/-- **raw_long_frames_truncated** (THEOREM, a finding).  `send_raw` copies at most `4096 − 4` bytes: a frame of 4092 bytes
or more (compressed: one byte more) offered in raw mode on either side reaches the peer's tun device exactly once but CUT to
4091 bytes — in the model, whose compression is transparent; with zlib the cut stream does not decompress and the packet is
lost.  Not reachable with the default tun MTU (1130), only when the MTU is raised above 4 KiB. -/
theorem raw_long_frames_truncated {u : Nat} {w : W} (hq : QuiescentRaw u w) (f : List Nat) (hlong : 4092 ≤ f.length)
    (hlen : f.length < 65536) (hnd : ¬ keepaliveDue w.cs.c) :
    (Server.ipDst f ≠ (Server.getUser w.srv u).tunIp →
      ∃ w', runPrompt u 1 (step w (.offerC f)) = w' ∧ QuiescentRaw u w' ∧
        w'.tunS = w.tunS ++ [tunImage (f.take 4091)] ∧ w'.tunS ≠ w.tunS ++ [tunImage f]) ∧
    (Server.ipDst f = (Server.getUser w.srv u).tunIp →
      ∃ w', runPrompt u 1 (step w (.offerS f)) = w' ∧ QuiescentRaw u w' ∧
        w'.tunC = w.tunC ++ [tunImage (f.take 4091)] ∧ w'.tunC ≠ w.tunC ++ [tunImage f]) := by
  constructor
  · intro hd
    obtain ⟨w', h1, h2, h3, h4⟩ := C02L.raw_up_long_truncated hq f hlong hlen hd hnd
    exact ⟨w', C02L.runPrompt_of_steps u _ _ _ h1 h2.quiet 1 (Nat.le_refl _), h2, h3, h4⟩
  · intro hd
    obtain ⟨w', h1, h2, h3, h4⟩ := C02L.raw_down_long_truncated hq f hlong hlen hd hnd
    exact ⟨w', C02L.runPrompt_of_steps u _ _ _ h1 h2.quiet 1 (Nat.le_refl _), h2, h3, h4⟩

/-- **clean_path_exactly_once_in_order_partial** (THEOREM): the three modes together.  On a prompt loss-free path, packets
offered on both sides in any interleaving — each one after the previous one was delivered — reach the peer's tun device
exactly once, each direction in the order offered, and the joint state is quiescent again: in immediate DNS mode (with
timer room for the client's polls), in lazy DNS mode, and in raw mode (frames up to 4091 bytes).

PARTIAL with respect to the property text — what is missing:
* OVERLAPPING transfers (partly proved since: `Props/C02b.lean`, `overlap_offer_lazy`, `overlap_round_lazy`,
  `overlap_single_lazy`): a packet offered on one side while a transfer in the other direction is still in progress (the
  prompt schedule is run to quiescence between two offers).  Checked on concrete runs only (`test_imm_both`, `test_lazy_both`).
  What a proof needs: a joint invariant for "upstream flight `(o, f)` and downstream flight `(o', f')` at the same time" —
  the product of `UpFlight` and `DownPing`/`DownFlightL`, in which data queries also carry downstream acks and answers to
  data queries also carry downstream fragments (`dataStepQ`/`sendChunkOrDataless` with `outpacket.len > 0`).  Frames offered
  to the CLIENT while it is sending are not read at all (`client_tun_gating`); if handed in they are discarded
  (`client_tun_frame_while_sending`).
* more than one client (`Solo`: the other fifteen slots are inactive).
* recovery after loss, duplication, reordering, delay: (C) only shows that neither side is stuck after giving up. -/
theorem clean_path_exactly_once_in_order_partial (fuel : Nat) (hfuel : 36 ≤ fuel) (offers : List Offer) (w : W) :
    (∀ P : C02L.Par, Params P → Quiescent P w → Roomy P w → w.cs.c.selecttimeout ≤ 9 →
      0 < (Server.getUser w.srv P.u).fragsize →
      (∀ o ∈ offers, AcceptableOffer P (Server.getUser w.srv P.u).tunIp (Server.getUser w.srv P.u).fragsize o) →
      Quiescent P (offerAll P.u fuel w offers) ∧
      (offerAll P.u fuel w offers).tunS = w.tunS ++ (Offer.ups offers).map tunImage ∧
      (offerAll P.u fuel w offers).tunC = w.tunC ++ (Offer.downs offers).map tunImage) ∧
    (∀ P : C02L.Par, Params P → QuiescentLazy P w → 0 < (Server.getUser w.srv P.u).fragsize →
      (∀ o ∈ offers, AcceptableOffer P (Server.getUser w.srv P.u).tunIp (Server.getUser w.srv P.u).fragsize o) →
      QuiescentLazy P (offerAll P.u fuel w offers) ∧
      (offerAll P.u fuel w offers).tunS = w.tunS ++ (Offer.ups offers).map tunImage ∧
      (offerAll P.u fuel w offers).tunC = w.tunC ++ (Offer.downs offers).map tunImage) ∧
    (∀ u : Nat, QuiescentRaw u w → 0 < w.cs.c.selecttimeout →
      (∀ o ∈ offers, AcceptableOfferRaw (Server.getUser w.srv u).tunIp o) →
      QuiescentRaw u (offerAll u fuel w offers) ∧
      (offerAll u fuel w offers).tunS = w.tunS ++ (Offer.ups offers).map tunImage ∧
      (offerAll u fuel w offers).tunC = w.tunC ++ (Offer.downs offers).map tunImage) :=
  ⟨fun _ hP hq hr hsel hF hok => clean_path_exactly_once_in_order_immediate hP fuel hfuel offers w hq hr hsel hF hok,
   fun _ hP hq hF hok => clean_path_exactly_once_in_order_lazy hP fuel (by omega) offers w hq hF hok,
   fun _ hq hsel hok => clean_path_exactly_once_in_order_raw fuel (by omega) offers w hq hsel hok⟩

/-- non-vacuity: the raw demo session, also five seconds later when the keepalive is due -/
example : QuiescentRaw 0 demoRaw ∧ ¬ keepaliveDue demoRaw.cs.c ∧ QuiescentRaw 0 (step demoRaw (.advance 5)) ∧
    keepaliveDue (step demoRaw (.advance 5)).cs.c :=
  ⟨C02L.quietRaw_demoRaw, C02L.demoRaw_not_due, C02L.quietRaw_demoRaw_later.1, C02L.quietRaw_demoRaw_later.2.1⟩

/-! ### non-vacuity of (B): a concrete session satisfying every hypothesis -/

/-- non-vacuity of (B): user 0, "t.ab", 100-character names, Base32, NULL queries -/
def exP : C02L.Par := ⟨0, demoDomain, 100, .b32, .b32, 10⟩

def exW : W :=
  ⟨⟨{ demoClient false false .b32 with hostnameMaxlen := 100 }, .tunnel⟩, demoServer false false .b32, [], [], [], []⟩

theorem exP_ok : Params exP :=
  ⟨by decide, C02L.upSetting_of_enc .b32 100 demoDomain (by decide) (by decide) (by decide) (by decide) (by decide),
   trivial, by unfold C02L.TunnelType; decide⟩

theorem ex_users : (demoServer false false .b32).users.length = 16 := by decide +kernel

theorem ex_solo : C02L.Solo 0 (demoServer false false .b32) := by
  refine ⟨by rw [ex_users]; decide, by decide +kernel, ?_⟩
  intro v hv
  by_cases h : v < 16
  · have : ∀ v, v < 16 → v ≠ 0 → (Server.getUser (demoServer false false .b32) v).active = false := by decide +kernel
    exact this v h hv
  · unfold Server.getUser
    rw [List.getD_eq_getElem?_getD, List.getElem?_eq_none (by rw [ex_users]; omega)]
    rfl

theorem ex_aged : C02L.Aged exP (Server.getUser (demoServer false false .b32) 0) 0 1 := by
  refine ⟨by decide +kernel, by decide +kernel, by decide +kernel, by decide +kernel, ?_, ?_⟩
  · intro i hi c ⟨h1, _⟩
    have : ∀ i, i < 15 → ((Server.getUser (demoServer false false .b32) 0).qmemdata.getD
        (C16L.ringPos Gen.QMEMDATA_LEN (Server.getUser (demoServer false false .b32) 0).qmemdataLast i) Server.QmemEntry.zero).type = 0 := by
      decide +kernel
    rw [this i hi] at h1
    exact absurd h1 (by decide)
  · intro i hi c ⟨h1, _⟩
    have : ∀ i, i < 4 → ((Server.getUser (demoServer false false .b32) 0).dnscache.getD
        (C16L.ringPos Gen.DNSCACHE_LEN (Server.getUser (demoServer false false .b32) 0).dcLast i) Server.DnsCacheEntry.zero).q.type = 0 := by
      decide +kernel
    rw [this i hi] at h1
    exact absurd h1 (by decide)

theorem ex_paged : C02L.PAged exP (Server.getUser (demoServer false false .b32) 0) 0 1 := by
  refine ⟨by decide +kernel, by decide +kernel, by decide +kernel, by decide +kernel, ?_, ?_⟩
  · intro i hi c ⟨h1, _⟩
    have : ∀ i, i < 30 → ((Server.getUser (demoServer false false .b32) 0).qmemping.getD
        (C16L.ringPos Gen.QMEMPING_LEN (Server.getUser (demoServer false false .b32) 0).qmempingLast i) Server.QmemEntry.zero).type = 0 := by
      decide +kernel
    rw [this i hi] at h1
    exact absurd h1 (by decide)
  · intro i hi c ⟨h1, _⟩
    have : ∀ i, i < 4 → ((Server.getUser (demoServer false false .b32) 0).dnscache.getD
        (C16L.ringPos Gen.DNSCACHE_LEN (Server.getUser (demoServer false false .b32) 0).dcLast i) Server.DnsCacheEntry.zero).q.type = 0 := by
      decide +kernel
    rw [this i hi] at h1
    exact absurd h1 (by decide)

theorem ex_quiescent : Quiescent exP exW := by
  refine ⟨rfl, ?_, by decide, rfl, rfl, ?_, ?_, by decide +kernel, by decide +kernel, by decide +kernel, ex_aged, ex_paged⟩
  · exact ⟨rfl, rfl, rfl, rfl, by decide, rfl, rfl, rfl, rfl, by decide, by decide, by decide, by decide, by decide, by decide, by decide⟩
  · refine ⟨ex_solo, by decide +kernel, ?_, by decide +kernel, by decide +kernel⟩
    exact ⟨by decide +kernel, by decide +kernel, by decide +kernel, by decide +kernel, by decide +kernel, by decide +kernel,
      by decide +kernel, by decide +kernel, by decide +kernel⟩
  · exact ⟨by decide +kernel, by decide +kernel, by decide +kernel, by decide +kernel⟩

theorem ex_acceptable : AcceptableUp exP (Server.getUser exW.srv exP.u).tunIp (demoFrame 9 30) ∧ fragments exP (demoFrame 9 30) = 2 := by
  refine ⟨⟨by decide, by decide, by unfold Codec.Bytes; decide, by decide +kernel, by decide +kernel⟩, by decide +kernel⟩


/-- the theorem applied: the 2-fragment frame arrives after exactly 5 scheduler steps, unchanged -/
example : ∃ w', runPromptCount 0 5 (step exW (.offerC (demoFrame 9 30))) 0 = (w', 5) ∧ Quiescent exP w' ∧
    w'.tunS = [demoFrame 9 30] ∧ w'.tunC = [] := by
  obtain ⟨w', _, h2, h3, h4, h5⟩ := clean_path_upstream_immediate exP_ok ex_quiescent (demoFrame 9 30) ex_acceptable.1
  have hi : tunImage (demoFrame 9 30) = demoFrame 9 30 := by decide
  refine ⟨w', ?_, h3, by rw [h4, hi]; rfl, h5⟩
  have := h2 5 (by rw [ex_acceptable.2]; omega)
  rw [ex_acceptable.2] at this
  exact this

/-- … and a sequence of three frames -/
example : (offerAllC 0 40 exW [demoFrame 9 4, demoFrame 9 30, demoFrame 9 10]).tunS = [demoFrame 9 4, demoFrame 9 30, demoFrame 9 10] := by
  have hok : ∀ f ∈ [demoFrame 9 4, demoFrame 9 30, demoFrame 9 10], AcceptableUp exP (Server.getUser exW.srv exP.u).tunIp f := by
    intro f hf
    simp only [List.mem_cons, List.not_mem_nil, or_false] at hf
    rcases hf with rfl | rfl | rfl
    · exact ⟨by decide, by decide, by unfold Codec.Bytes; decide, by decide +kernel, by decide +kernel⟩
    · exact ex_acceptable.1
    · exact ⟨by decide, by decide, by unfold Codec.Bytes; decide, by decide +kernel, by decide +kernel⟩
  have := (clean_path_sequence_upstream_immediate exP_ok 40 (by omega) _ exW ex_quiescent hok).2.1
  show (offerAllC exP.u 40 exW _).tunS = _
  rw [this]
  decide

/-- non-vacuity of the downstream theorem: the same session has timer room, and the two-fragment frame addressed to the
client arrives after exactly `2·2 + 4 = 8` scheduler steps, unchanged -/
theorem ex_roomy : Roomy exP exW := ⟨by decide, by decide +kernel, by decide +kernel⟩

theorem ex_acceptable_down :
    AcceptableDown (Server.getUser exW.srv exP.u).tunIp (Server.getUser exW.srv exP.u).fragsize (demoFrame 2 30) ∧
    fragmentsDown (Server.getUser exW.srv exP.u).fragsize (demoFrame 2 30) = 2 := by
  refine ⟨⟨by decide, by decide, by decide +kernel, by decide +kernel⟩, by decide +kernel⟩

example : ∃ w', runPromptCount 0 8 (step exW (.offerS (demoFrame 2 30))) 0 = (w', 8) ∧ Quiescent exP w' ∧
    w'.tunC = [demoFrame 2 30] ∧ w'.tunS = [] := by
  obtain ⟨w', h2, h3, _, h4, h5⟩ := clean_path_downstream_immediate exP_ok ex_quiescent ex_roomy (demoFrame 2 30)
    (by decide +kernel) ex_acceptable_down.1 (by decide)
  have hi : tunImage (demoFrame 2 30) = demoFrame 2 30 := by decide
  refine ⟨w', ?_, h3, by rw [h4, hi]; rfl, h5⟩
  have := h2 8 (by rw [ex_acceptable_down.2]; decide)
  rw [ex_acceptable_down.2] at this
  exact this

/-- … and packets offered alternately on both sides arrive in order -/
example : (offerAll 0 40 exW [.toServer (demoFrame 9 4), .toClient (demoFrame 2 30), .toServer (demoFrame 9 30)]).tunS =
      [demoFrame 9 4, demoFrame 9 30] ∧
    (offerAll 0 40 exW [.toServer (demoFrame 9 4), .toClient (demoFrame 2 30), .toServer (demoFrame 9 30)]).tunC = [demoFrame 2 30] := by
  have hok : ∀ o ∈ [Offer.toServer (demoFrame 9 4), .toClient (demoFrame 2 30), .toServer (demoFrame 9 30)],
      AcceptableOffer exP (Server.getUser exW.srv exP.u).tunIp (Server.getUser exW.srv exP.u).fragsize o := by
    intro o ho
    simp only [List.mem_cons, List.not_mem_nil, or_false] at ho
    rcases ho with rfl | rfl | rfl
    · exact (⟨by decide, by decide, by unfold Codec.Bytes; decide, by decide +kernel, by decide +kernel⟩ :
        C02L.UpFrameOk exP (Server.getUser exW.srv exP.u).tunIp (demoFrame 9 4))
    · exact ex_acceptable_down.1
    · exact ex_acceptable.1
  have := clean_path_exactly_once_in_order_immediate exP_ok 40 (by omega) _ exW ex_quiescent ex_roomy (by decide) (by decide +kernel) hok
  refine ⟨?_, ?_⟩
  · show (offerAll exP.u 40 exW _).tunS = _
    rw [this.2.1]; decide
  · show (offerAll exP.u 40 exW _).tunC = _
    rw [this.2.2]; decide

end Iodine.C02
