import IodineModel.Props.C09
import IodineModel.Props.C10Main
/-
C09 from the command line on.
-/
namespace Iodine.C09
open Iodine Iodine.Codec Iodine.Wire Iodine.Server.WriteDns Iodine.Client.ReadDns Iodine.C10 Iodine.Server.Options Iodine.Server

/-- **session_answer_extracts_prefix_from_main.**  For every command line and environment with which iodined reaches `tunnel()`,
every state the process reaches through byte-valued inputs with legal question names, every further such input and every datagram
`tx dst bytes` it sends: the datagram encodes the payload of an `ans` event of that iteration, and either that payload is the one
byte "x" or, for every client buffer size 4096..65536, `read_dns_withq` extracts a prefix of it — all of it iff it fits.  The
hypothesis `ConfigOk` of `session_answer_extracts_prefix` is discharged by `main()`. -/
theorem session_answer_extracts_prefix_from_main (env : Env) (argv : List (List Nat)) (f : Final) (h : Top.Starts env argv f)
    (d4 d6 : Nat) (b : BSrv) (hr : C10.WfReachable (f.cfg d4 d6) b)
    (inp : BInput) (now' : Nat) (hl : C10.LegalDgram inp) (hb : C10.ByteDgram inp) (dst : Addr) (bytes : List Nat)
    (htx : BEvent.tx dst bytes ∈ (biteration b inp now').2.1) :
    ∃ id ty dn name data tag,
      Event.ans dst id ty dn name data tag ∈ out b.srv ⟨toInput b.srv inp, now'⟩ ∧
      (data = [120] ∨
        ∀ B, 4096 ≤ B ∧ B ≤ 65536 →
          ∃ e, (readDnsWithq B bytes).map (·.buf) = .ok e ∧ e <+: data ∧
            (fits B ty dn data.length = true → e = data) ∧ (fits B ty dn data.length = false → e.length < data.length)) :=
  session_answer_extracts_prefix _ (C10.configOk_from_main h d4 d6) b hr inp now' hl hb dst bytes htx

end Iodine.C09
