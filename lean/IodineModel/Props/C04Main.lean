import IodineModel.Props.C04
import IodineModel.Lemmas.OptTop
/-
C04 from the command line on.  `owner_unique` / `tun_dispatch_unique` of Props/C04.lean assume `8 ≤ netmask ≤ 30` and a 32-bit server
address; `main()` establishes exactly these (`validate`: `inet_addr(...) != INADDR_NONE`, `netmask > 30 || netmask < 8 → usage()`).
-/
namespace Iodine.C04
open Iodine Iodine.Server Iodine.Server.Options

/-- every state the process `main()` started can reach -/
theorem reachable_from_main {env : Env} {argv : List (List Nat)} {f : Final} (h : Top.Starts env argv f) (rnd : List Nat)
    (d4 d6 : Nat) (steps : List Step) (hm : Monotone (Top.entry f rnd d4 d6) steps) :
    Reachable (f.cfg d4 d6) (runFrom (Top.entry f rnd d4 d6) steps) := by
  rw [OptL.entry_eq_start h] at hm ⊢
  exact reachable_runFrom (.init rnd) steps hm

/-- **tun_dispatch_unique_from_main.**  For every command line and environment with which iodined reaches `tunnel()`, every run
(monotone clock) and every tun frame then: if slot `t` owns the destination address, every event of `tunnel_tun` concerns `t`,
no other slot changes, and `t` is the ONLY owner.  No hypothesis on the configuration is left. -/
theorem tun_dispatch_unique_from_main (env : Env) (argv : List (List Nat)) (f : Final) (h : Top.Starts env argv f)
    (rnd : List Nat) (d4 d6 : Nat) (steps : List Step) (hm : Monotone (Top.entry f rnd d4 d6) steps)
    (frame : List Nat) (t : Nat) :
    let s := runFrom (Top.entry f rnd d4 d6) steps
    t < s.users.length → Owns (getUser s t) s.now (ipDst frame) →
    (∀ e ∈ (tunnelTun s frame).2, ToSession (getUser s t) t e) ∧
    (∀ v, v ≠ t → getUser (tunnelTun s frame).1 v = getUser s v) ∧
    (∀ t', t' < s.users.length → Owns (getUser s t') s.now (ipDst frame) → t' = t) := by
  intro s ht ho
  obtain ⟨h8, h30, hmy, _⟩ := OptL.cfg_ranges h d4 d6
  exact tun_dispatch_unique (f.cfg d4 d6) s (reachable_from_main h rnd d4 d6 steps hm) h8 h30 hmy frame t ht ho

/-- **owner_unique_from_main.** -/
theorem owner_unique_from_main (env : Env) (argv : List (List Nat)) (f : Final) (h : Top.Starts env argv f)
    (rnd : List Nat) (d4 d6 : Nat) (steps : List Step) (hm : Monotone (Top.entry f rnd d4 d6) steps) (A t t' : Nat) :
    let s := runFrom (Top.entry f rnd d4 d6) steps
    t < s.users.length → t' < s.users.length → Owns (getUser s t) s.now A → Owns (getUser s t') s.now A → t = t' := by
  intro s ht ht' ho ho'
  obtain ⟨h8, h30, hmy, _⟩ := OptL.cfg_ranges h d4 d6
  exact owner_unique (f.cfg d4 d6) s (reachable_from_main h rnd d4 d6 steps hm) h8 h30 hmy A t t' ht ht' ho ho'

end Iodine.C04
