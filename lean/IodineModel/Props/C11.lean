import IodineModel.Lemmas.C11a
import IodineModel.Lemmas.C11b
import IodineModel.Lemmas.C11c
import IodineModel.Lemmas.C11d
import IodineModel.Lemmas.C11e
import IodineModel.Lemmas.C11f
import IodineModel.Props.C08
import IodineModel.Props.C17
import IodineModel.Server.Handle
import IodineModel.Lemmas.HsRef
/-
C11 — Automatic negotiation only selects settings that actually work on the path.

Specification side (this file): the family of FIXED relay transformations (`RelayMap`: {case keep | lower |
upper} ∘ {8-bit keep | strip} ∘ {punctuation keep | '+'↦' ' | '_'↦'-'}, 18 character maps, applied separately to
names in queries and to names / text in answers) and the outright-failure variants as predicates of a `Relay`
(`reject8`, `types`, `maxAnswer`, `edns0`).  Model side: the pure handshake model of Lemmas/C11b.lean (one Lean
function per C function of the negotiation, retry loops collapsed because the relay is deterministic) and the codec /
hostname models of C07, C08, C17.

What is proved
 (A) upstream:   a codec is selected only if the relay's query map is the identity on its whole alphabet
                 (`upenc_probes_cover_*`, `upenc_selected_only_if_identity`); for Base128 this holds for ARBITRARY
                 character maps, for Base64/Base64u it needs "digits '3'…'8' untouched" (true in the family; the
                 counterexample for arbitrary maps is `pat64_gap_digit5`).
     downstream: the 48 check bytes decode correctly only if the answer map is the identity on the tested codec's
                 alphabet (`downenc_check_covers`, `downenc_selected_only_if_identity`) — for the family.  GAPS, as
                 proved negatives: Raw is accepted although '+' is mangled (`raw_check_gap_plus`; '_' IS covered,
                 `raw_check_has_underscore`); for arbitrary maps the check string misses 5 / 27 / 27 / 87 alphabet
                 characters of Base32 / 64 / 64u / 128 (`downenc_check_gap_anymap`).
     survival:   identity on the alphabet (and '.', the header and the domain) ⇒ every data query name and every
                 data answer passes unaltered and is decoded to the payload (`identity_on_alphabet_survives`,
                 `negotiated_upstream_delivers`, `negotiated_downstream_delivers`); Base32 survives every map of the
                 family in both directions (`base32_survives_family_up`, `base32_survives_family_down`).
     fragsize:   `fragsize_probe_sound`, `fragsize_answer_bound`.
 (B) `base32_fallback`, `qtype_autodetect_finds`, `negotiation_succeeds`; `forced_not_checked` (negative).
 (C) `random_case_base32_ok`.  Per-character RANDOM case is not a fixed map: a random relay passes the Base64 /
     Base128 probes only if it happens to leave all ≥ 52 letters of the probe unchanged; selection of a non-Base32
     codec under random case is therefore excluded only with (overwhelming) probability, not universally, and
     nothing is claimed about it here.
-/
namespace Iodine.C11
open Iodine Iodine.Gen Iodine.Codec Iodine.Encoding
open Iodine.C11L (UpRes ProbeRes HsCfg HsProbes upName upencTest upencAutodetect txtText nameenc namedec
  NAMEDEC_CAP downencTest downencAutodetect qtypeAutodetect qtypeNumcvt autoprobeFragsize fragSearch
  clientHandshakeTail)

/-! ### Specification: the relay family -/

inductive CaseMode where
  | keep | lower | upper
deriving DecidableEq, Repr

inductive BitMode where
  | clean | strip
deriving DecidableEq, Repr

inductive PunctMode where
  | keep | plus | underscore
deriving DecidableEq, Repr

def lowerOf (c : Nat) : Nat := if 65 ≤ c ∧ c ≤ 90 then c + 32 else c
def upperOf (c : Nat) : Nat := if 97 ≤ c ∧ c ≤ 122 then c - 32 else c

def CaseMode.fn : CaseMode → Nat → Nat
  | .keep => fun c => c
  | .lower => lowerOf
  | .upper => upperOf

def BitMode.fn : BitMode → Nat → Nat
  | .clean => fun c => c
  | .strip => fun c => c % 128

def PunctMode.fn : PunctMode → Nat → Nat
  | .keep => fun c => c
  | .plus => fun c => if c = 43 then 32 else c
  | .underscore => fun c => if c = 95 then 45 else c

/-- one fixed character transformation of the family -/
structure RelayMap where
  case : CaseMode
  bits : BitMode
  punct : PunctMode
deriving DecidableEq, Repr

def RelayMap.fn (m : RelayMap) : Nat → Nat := fun c => m.case.fn (m.bits.fn (m.punct.fn c))

def RelayMap.all : List RelayMap :=
  [CaseMode.keep, .lower, .upper].flatMap fun c =>
    [BitMode.clean, .strip].flatMap fun b => [PunctMode.keep, .plus, .underscore].map fun p => ⟨c, b, p⟩

/-- a DNS path: how it transforms names in queries (`up`) and names / text in answers (`down`), and what it
refuses outright -/
structure Relay where
  up : RelayMap
  down : RelayMap
  /-- the "reject" variant of the 8-bit axis: names / texts containing a byte ≥ 0x80 get no answer -/
  reject8 : Bool
  /-- record types it lets through -/
  types : List Nat
  /-- answers above this size are dropped -/
  maxAnswer : Option Nat
  edns0 : Bool

def Relay.passesName (r : Relay) (s : List Nat) : Prop := r.reject8 = true → ∀ c ∈ s, c < 128
def Relay.allowsType (r : Relay) (ty : Nat) : Prop := ty ∈ r.types
def Relay.allowsSize (r : Relay) (size : Nat) : Prop := ∀ lim, r.maxAnswer = some lim → size ≤ lim

instance (r : Relay) (s : List Nat) : Decidable (r.passesName s) := by unfold Relay.passesName; infer_instance
instance (r : Relay) (ty : Nat) : Decidable (r.allowsType ty) := by unfold Relay.allowsType; infer_instance
instance (r : Relay) (n : Nat) : Decidable (r.allowsSize n) := by
  unfold Relay.allowsSize
  cases r.maxAnswer with
  | none => exact isTrue (fun _ h => by cases h)
  | some l =>
    exact if h : n ≤ l then isTrue (fun _ e => by cases e; exact h)
      else isFalse (fun e => h (e l rfl))

/-- what the server receives for the query name `name` -/
def Relay.query (r : Relay) (name : List Nat) : Option (List Nat) :=
  if r.passesName name then some (name.map r.up.fn) else none

/-- what the client receives for an answer of record type `ty`, wire size `size`, whose name / text is `text` -/
def Relay.answer (r : Relay) (ty size : Nat) (text : List Nat) : Option (List Nat) :=
  if r.allowsType ty ∧ r.allowsSize size ∧ r.passesName text then some (text.map r.down.fn) else none

/-- `f` is the identity on every character of `A` -/
def IdOn (f : Nat → Nat) (A : List Nat) : Prop := ∀ c ∈ A, f c = c

/-- equal up to the case of each letter separately (what a case-randomising relay does to a name) -/
def SameUpToCase (a b : List Nat) : Prop := a.map lowerOf = b.map lowerOf

instance (f : Nat → Nat) (A : List Nat) : Decidable (IdOn f A) := by unfold IdOn; infer_instance
instance (a b : List Nat) : Decidable (SameUpToCase a b) := by unfold SameUpToCase; infer_instance

/-! ### Bridge: the declarative family is the list of maps the finite checks ran over -/

theorem family_eq : C11L.familyFns = RelayMap.all.map RelayMap.fn := by rfl

theorem RelayMap.mem_all (m : RelayMap) : m ∈ RelayMap.all := by
  rcases m with ⟨_ | _ | _, _ | _, _ | _ | _⟩ <;> decide

theorem RelayMap.fn_mem (m : RelayMap) : m.fn ∈ C11L.familyFns := by
  rw [family_eq]; exact List.mem_map_of_mem (RelayMap.mem_all m)

theorem idOn_iff (f : Nat → Nat) (A : List Nat) : IdOn f A ↔ C11L.IdOn f A := Iff.rfl

theorem sameUpToCase_iff (a b : List Nat) : SameUpToCase a b ↔ C11L.CaseEq a b := Iff.rfl

/-- the family never touches digits, '-' and '.' (nor anything else below 'A' except '+') -/
theorem family_fixes_low (m : RelayMap) (c : Nat) (h : c < 65) (h43 : c ≠ 43) : m.fn c = c :=
  C11L.family_fixes_digits m.fn m.fn_mem c h h43

example : (RelayMap.mk .upper .strip .plus).fn 43 = 32 ∧ (RelayMap.mk .upper .strip .plus).fn 228 = 68 := by decide

/-! ## (A) upstream: the probe strings cover the alphabets -/

/-- Base128, for ARBITRARY character maps: a map that alters any character of the alphabet alters at least one of the
five probe strings. -/
theorem upenc_probes_cover_b128 (f : Nat → Nat) (h : ∃ c ∈ cb128, f c ≠ c) :
    ∃ p ∈ [pat128a, pat128b, pat128c, pat128d, pat128e], p.map f ≠ p :=
  C11L.altered_of_cover C11L.cover_b128 h

example : ∃ p ∈ [pat128a, pat128b, pat128c, pat128d, pat128e], p.map (RelayMap.mk .keep .strip .keep).fn ≠ p :=
  upenc_probes_cover_b128 _ ⟨200, by decide, by decide⟩

/-- Base64, for arbitrary character maps that leave the digits '3' … '8' alone — the assumption the source spells
out ("If 0129 work, assume 3-8 are okay too"). -/
theorem upenc_probes_cover_b64_anymap (f : Nat → Nat) (hd : ∀ c, 51 ≤ c → c ≤ 56 → f c = c)
    (h : ∃ c ∈ cb64, f c ≠ c) : pat64.map f ≠ pat64 := by
  obtain ⟨c, hc, hne⟩ := h
  rcases C11L.cover_b64 c hc with hp | ⟨h1, h2⟩
  · exact C11L.map_ne_of_altered hp hne
  · exact absurd (hd c h1 h2) hne

theorem upenc_probes_cover_b64u_anymap (f : Nat → Nat) (hd : ∀ c, 51 ≤ c → c ≤ 56 → f c = c)
    (h : ∃ c ∈ cb64u, f c ≠ c) : pat64u.map f ≠ pat64u := by
  obtain ⟨c, hc, hne⟩ := h
  rcases C11L.cover_b64u c hc with hp | ⟨h1, h2⟩
  · exact C11L.map_ne_of_altered hp hne
  · exact absurd (hd c h1 h2) hne

/-- Base64 / Base64u for the family (which never touches a digit). -/
theorem upenc_probes_cover_b64 (m : RelayMap) (h : ∃ c ∈ cb64, m.fn c ≠ c) : pat64.map m.fn ≠ pat64 :=
  upenc_probes_cover_b64_anymap m.fn (fun c _ h2 => family_fixes_low m c (by omega) (by omega)) h

theorem upenc_probes_cover_b64u (m : RelayMap) (h : ∃ c ∈ cb64u, m.fn c ≠ c) : pat64u.map m.fn ≠ pat64u :=
  upenc_probes_cover_b64u_anymap m.fn (fun c _ h2 => family_fixes_low m c (by omega) (by omega)) h

example : pat64.map (RelayMap.mk .keep .clean .plus).fn ≠ pat64 :=
  upenc_probes_cover_b64 _ ⟨43, by decide, by decide⟩
example : pat64u.map (RelayMap.mk .keep .clean .underscore).fn ≠ pat64u :=
  upenc_probes_cover_b64u _ ⟨95, by decide, by decide⟩

/-- THE GAP for arbitrary maps: a path that alters only the digit '5' passes the Base64 probe (and the Base64u one),
although '5' is in the alphabet — and then a data byte 0xE8, whose Base64 text starts with '5', arrives as 0xEC. -/
theorem pat64_gap_digit5 :
    let f : Nat → Nat := fun c => if c = 53 then 54 else c
    pat64.map f = pat64 ∧ pat64u.map f = pat64u ∧ 53 ∈ cb64 ∧ 53 ∈ cb64u ∧ f 53 ≠ 53 ∧
    (enc b64 10 [232]).chars = [53, 97] ∧
    dec b64 10 2 ((enc b64 10 [232]).chars.map f) = [236] := by
  decide +kernel

/-! ### upstream: selection implies identity on the alphabet -/

/-- `handshake_upenc_autodetect` through the relay `r`: the probe `s` travels as `z` + 3 CMC characters (`hdr`), `s`,
'.', domain; the server echoes what it received; the echo comes back (as Base32 / raw NULL payload, which the family
cannot alter: `base32_survives_family_down`).
Result 3 / 1 / 2 (Base128 / Base64 / Base64u) ⇒ the query map is the identity on that codec's whole alphabet, and a
relay that rejects 8-bit names never gets Base128. -/
theorem upenc_selected_only_if_identity (r : Relay) (hdr td : List Nat) (hh : hdr.length = 4) :
    let t := fun s => upencTest s (r.query (upName hdr s td))
    (upencAutodetect t = 3 → IdOn r.up.fn cb128 ∧ r.reject8 = false) ∧
    (upencAutodetect t = 1 → IdOn r.up.fn cb64) ∧
    (upencAutodetect t = 2 → IdOn r.up.fn cb64u) := by
  intro t
  have hsame : ∀ s, t s = .same → r.passesName (upName hdr s td) ∧ s.map r.up.fn = s := by
    intro s hs
    simp only [t, Relay.query] at hs
    split at hs
    · rename_i hp
      exact ⟨hp, C11L.upencTest_echo_same hh hs⟩
    · obtain ⟨_, h, _⟩ := C11L.upencTest_same hs
      cases h
  refine ⟨fun h3 => ?_, fun h1 => ?_, fun h2 => ?_⟩
  · obtain ⟨ha, hb, hc, hd, he⟩ := C11L.upencAutodetect_eq_3 h3
    constructor
    · intro c hc128
      apply Classical.byContradiction
      intro hne
      obtain ⟨p, hp, hpne⟩ := upenc_probes_cover_b128 r.up.fn ⟨c, hc128, hne⟩
      simp only [List.mem_cons, List.mem_nil_iff, or_false] at hp
      rcases hp with rfl | rfl | rfl | rfl | rfl
      · exact hpne (hsame _ ha).2
      · exact hpne (hsame _ hb).2
      · exact hpne (hsame _ hc).2
      · exact hpne (hsame _ hd).2
      · exact hpne (hsame _ he).2
    · cases hr : r.reject8 with
      | false => rfl
      | true =>
        have := (hsame _ ha).1 hr 228 (by unfold upName; simp [pat128a])
        omega
  · have := (hsame _ (C11L.upencAutodetect_eq_1 h1)).2
    intro c hc
    apply Classical.byContradiction
    intro hne
    exact upenc_probes_cover_b64 r.up ⟨c, hc, hne⟩ this
  · have := (hsame _ (C11L.upencAutodetect_eq_2 h2)).2
    intro c hc
    apply Classical.byContradiction
    intro hne
    exact upenc_probes_cover_b64u r.up ⟨c, hc, hne⟩ this

/-- a clean path gets Base128; a lower-casing one keeps Base32 (case swap detected on the first probe); one that
strips bit 8 gets Base64; one that also mangles '+' gets Base64u -/
example :
    let run (r : Relay) := upencAutodetect fun s => upencTest s (r.query (upName [122, 97, 98, 99] s [116, 46, 99, 111]))
    run ⟨⟨.keep, .clean, .keep⟩, ⟨.keep, .clean, .keep⟩, false, [16], none, true⟩ = 3 ∧
    run ⟨⟨.lower, .clean, .keep⟩, ⟨.keep, .clean, .keep⟩, false, [16], none, true⟩ = 0 ∧
    run ⟨⟨.keep, .strip, .keep⟩, ⟨.keep, .clean, .keep⟩, false, [16], none, true⟩ = 1 ∧
    run ⟨⟨.keep, .clean, .keep⟩, ⟨.keep, .clean, .keep⟩, true, [16], none, true⟩ = 1 ∧
    run ⟨⟨.keep, .strip, .plus⟩, ⟨.keep, .clean, .keep⟩, false, [16], none, true⟩ = 2 := by
  decide +kernel

/-! ## (A) downstream: the 48 check bytes against the alphabets -/

/-- the alphabet behind a downstream codec letter S / U / V -/
def downAlphabet (dn : Nat) : List Nat := if dn = 83 then cb64 else if dn = 85 then cb64u else cb128

/-- The server answers `Y` with `DOWNCODECCHECK1` under the tested codec, as TXT text (letter + encoding) or as a
host name (`write_dns_nameenc`, CNAME / MX / SRV / A; `t1 t2` = the rotating two letters); the client compares the
bytes `dns_namedec` returns.  For Base64 (S), Base64u (U) and Base128 (V) and every map of the family: the check
passes only if the map is the identity on the codec's whole alphabet. -/
theorem downenc_check_covers (m : RelayMap) (dn : Nat) (hdn : dn = 83 ∨ dn = 85 ∨ dn = 86) (t1 t2 : Nat) :
    (namedec NAMEDEC_CAP ((txtText dn DOWNCODECCHECK1).map m.fn) = DOWNCODECCHECK1 → IdOn m.fn (downAlphabet dn)) ∧
    (namedec NAMEDEC_CAP ((nameenc dn DOWNCODECCHECK1 t1 t2).1.map m.fn) = DOWNCODECCHECK1 →
      IdOn m.fn (downAlphabet dn)) := by
  have hm := m.fn_mem
  have htail := C11L.namedec_nameenc_tail NAMEDEC_CAP dn DOWNCODECCHECK1 t1 t2 97 97
    (C11L.family_hostLetters m.fn hm dn)
  rw [htail]
  rcases hdn with rfl | rfl | rfl
  · exact ⟨C11L.down_64.1 m.fn hm, C11L.down_64.2 m.fn hm⟩
  · exact ⟨C11L.down_64u.1 m.fn hm, C11L.down_64u.2 m.fn hm⟩
  · exact ⟨C11L.down_128.1 m.fn hm, C11L.down_128.2 m.fn hm⟩

/-- the hypotheses are satisfiable (clean path), and a bit-stripping path fails the Base128 check -/
example : namedec NAMEDEC_CAP (txtText 86 DOWNCODECCHECK1) = DOWNCODECCHECK1 ∧
    namedec NAMEDEC_CAP (nameenc 86 DOWNCODECCHECK1 97 97).1 = DOWNCODECCHECK1 := C11L.down_clean_128
example : ¬ IdOn (RelayMap.mk .keep .strip .keep).fn (downAlphabet 86) := by
  intro h; exact absurd (h 200 (by decide)) (by decide)

/-- Raw (TXT only): the check passes only if the map is the identity on the bytes that occur in the check string … -/
theorem downenc_check_covers_raw (m : RelayMap) :
    namedec NAMEDEC_CAP ((txtText 82 DOWNCODECCHECK1).map m.fn) = DOWNCODECCHECK1 → IdOn m.fn DOWNCODECCHECK1 :=
  C11L.down_txt_raw m.fn m.fn_mem

/-- … but these are 36 of the 256 byte values.  GAP inside the family: the check string does not contain 0x2B, so a
path that mangles '+' passes the Raw check, Raw is selected, and every '+' in the data is then delivered as ' '. -/
theorem raw_check_gap_plus :
    let m : RelayMap := ⟨.keep, .clean, .plus⟩
    namedec NAMEDEC_CAP ((txtText 82 DOWNCODECCHECK1).map m.fn) = DOWNCODECCHECK1 ∧
    namedec NAMEDEC_CAP ((txtText 82 [1, 43, 2]).map m.fn) = [1, 32, 2] ∧
    43 ∉ DOWNCODECCHECK1 := by
  decide +kernel

/-- '_' (0x5F), on the other hand, does occur in the check string (`\137`), so '_'-mangling is caught. -/
theorem raw_check_has_underscore :
    95 ∈ DOWNCODECCHECK1 ∧
    namedec NAMEDEC_CAP ((txtText 82 DOWNCODECCHECK1).map (RelayMap.mk .keep .clean .underscore).fn) ≠ DOWNCODECCHECK1 := by
  decide +kernel

/-- For ARBITRARY character maps the downstream check is weak: the encodings of the 48 bytes miss 5 of the 32
Base32 characters, 27 of 64 for Base64 and Base64u, 87 of 128 for Base128.  A path that alters only 'c' passes the
Base32, Base64 and Base64u checks, one that alters only 'u' the Base32 and Base128 checks, although the letters are in
those alphabets. -/
theorem downenc_check_gap_anymap :
    let f : Nat → Nat := fun c => if c = 99 then 100 else c
    let g : Nat → Nat := fun c => if c = 117 then 118 else c
    (∀ dn ∈ [84, 83, 85], namedec NAMEDEC_CAP ((txtText dn DOWNCODECCHECK1).map f) = DOWNCODECCHECK1) ∧
    (∀ dn ∈ [84, 86], namedec NAMEDEC_CAP ((txtText dn DOWNCODECCHECK1).map g) = DOWNCODECCHECK1) ∧
    99 ∈ cb32 ∧ 99 ∈ cb64 ∧ 99 ∈ cb64u ∧ 117 ∈ cb32 ∧ 117 ∈ cb128 ∧
    (cb32.filter fun ch => !(encFull b32 DOWNCODECCHECK1).contains ch).length = 5 ∧
    (cb64.filter fun ch => !(encFull b64 DOWNCODECCHECK1).contains ch).length = 27 ∧
    (cb64u.filter fun ch => !(encFull b64u DOWNCODECCHECK1).contains ch).length = 27 ∧
    (cb128.filter fun ch => !(encFull b128 DOWNCODECCHECK1).contains ch).length = 87 := by
  rw [C11L.namedec_fast]; decide +kernel

/-- `handshake_downenc_autodetect` through the relay `r` for the query type `ty` (`text c` = the answer text the
server produces for the codec letter `c`: `txtText c DOWNCODECCHECK1` for TXT, `(nameenc c DOWNCODECCHECK1 t1 t2).1`
for the host-name types; `size c` = its wire size): a selected S / U / V means the answer map is the identity on that
alphabet; a selected R (Raw) only that it is the identity on the 36 check byte values. -/
theorem downenc_selected_only_if_identity (r : Relay) (ty : Nat) (size : Nat → Nat) (t1 t2 : Nat)
    (text : Nat → List Nat)
    (htext : ∀ c, text c = txtText c DOWNCODECCHECK1 ∨ text c = (nameenc c DOWNCODECCHECK1 t1 t2).1)
    (hraw : text 82 = txtText 82 DOWNCODECCHECK1) :
    let t := fun c => downencTest ((r.answer ty (size c) (text c)).map (namedec NAMEDEC_CAP))
    let sel := downencAutodetect ty t
    (sel = 32 ∨ sel = 83 ∨ sel = 85 ∨ sel = 86 ∨ sel = 82) ∧
    (sel = 83 → IdOn r.down.fn cb64) ∧ (sel = 85 → IdOn r.down.fn cb64u) ∧
    (sel = 86 → IdOn r.down.fn cb128) ∧
    (sel = 82 → IdOn r.down.fn cb128 ∧ IdOn r.down.fn DOWNCODECCHECK1) := by
  intro t sel
  have hpass : ∀ c, t c = true → namedec NAMEDEC_CAP ((text c).map r.down.fn) = DOWNCODECCHECK1 := by
    intro c hc
    have h1 := C11L.downencTest_true hc
    simp only [Relay.answer] at h1
    split at h1
    · simpa using h1
    · cases h1
  have hcov : ∀ c, c = 83 ∨ c = 85 ∨ c = 86 → t c = true → IdOn r.down.fn (downAlphabet c) := by
    intro c hc ht
    have h := hpass c ht
    rcases htext c with e | e <;> rw [e] at h
    · exact (downenc_check_covers r.down c hc t1 t2).1 h
    · exact (downenc_check_covers r.down c hc t1 t2).2 h
  rcases C11L.downencAutodetect_cases ty t with h | ⟨h, h1⟩ | ⟨h, h1⟩ | ⟨h, h1⟩ | ⟨h, h1, h2, _⟩
  all_goals
    have hs : sel = _ := h
    refine ⟨by omega, fun e => ?_, fun e => ?_, fun e => ?_, fun e => ?_⟩ <;> first | omega | skip
  · exact hcov 83 (by omega) h1
  · exact hcov 85 (by omega) h1
  · exact hcov 86 (by omega) h1
  · refine ⟨hcov 86 (by omega) h2, ?_⟩
    have h := hpass 82 h1
    rw [hraw] at h
    exact downenc_check_covers_raw r.down h

/-- a clean TXT path gets Raw; one that strips bit 8 from answers stays with Base64 … -/
example :
    let run (r : Relay) := downencAutodetect T_TXT fun c =>
      downencTest ((r.answer T_TXT 100 (txtText c DOWNCODECCHECK1)).map (namedec NAMEDEC_CAP))
    run ⟨⟨.keep, .clean, .keep⟩, ⟨.keep, .clean, .keep⟩, false, [16], none, true⟩ = 82 ∧
    run ⟨⟨.keep, .clean, .keep⟩, ⟨.keep, .strip, .keep⟩, false, [16], none, true⟩ = 83 ∧
    run ⟨⟨.keep, .clean, .keep⟩, ⟨.lower, .clean, .keep⟩, false, [16], none, true⟩ = 32 := by
  rw [C11L.namedec_fast]; decide +kernel

/-! ## (A) identity on the alphabet ⇒ data pass unaltered -/

/-- Alphabet purity (C07) as a fixed-point statement: if `f` is the identity on the codec's alphabet then the text of
every payload under every capacity is unaltered; with '.' fixed so is its dotified form; with the tunnel domain fixed
so is every name `build_hostname` produces, and with the header characters fixed the complete data query name. -/
theorem identity_on_alphabet_survives {c : Codec} (wf : WF c) (f : Nat → Nat) (hf : IdOn f c.tbl) :
    (∀ cap d, (enc c cap d).chars.map f = (enc c cap d).chars) ∧
    (f DOT = DOT → ∀ cap d, (dotify (enc c cap d).chars).map f = dotify (enc c cap d).chars) ∧
    (f DOT = DOT → ∀ td, IdOn f td → ∀ maxlen buflen prev d b,
      buildHostname c maxlen buflen prev td d = some b → b.name.map f = b.name) ∧
    (f DOT = DOT → ∀ td hdr, IdOn f td → IdOn f hdr → ∀ maxlen buflen prev d b,
      buildHostname c maxlen buflen prev td d = some b → (hdr ++ b.name).map f = hdr ++ b.name) := by
  refine ⟨fun cap d => C11L.enc_chars_fixed wf hf cap d,
    fun hdot cap d => C11L.dotify_fixed hdot (C11L.enc_chars_fixed wf hf cap d),
    fun hdot td htd maxlen buflen prev d b hb => C11L.buildHostname_fixed wf hf hdot htd hb,
    fun hdot td hdr htd hhdr maxlen buflen prev d b hb => ?_⟩
  exact C11L.map_append_fixed (C11L.map_eq_self_iff.mpr hhdr) (C11L.buildHostname_fixed wf hf hdot htd hb)

example : IdOn (RelayMap.mk .keep .strip .plus).fn b64u.tbl := by decide +kernel

/-- The same with C08: the server extracts exactly the reported prefix of the payload from the RELAYED name. -/
theorem negotiated_upstream_delivers {c : Codec} {L h : Nat} {hdr td d : List Nat}
    (S : C08.Setting c L h hdr td d) (f : Nat → Nat) (hf : IdOn f c.tbl) (hdot : f DOT = DOT)
    (hhdr : IdOn f hdr) (htd : IdOn f td) (prev : Nat) :
    ∃ b, buildHostname c L (C08.buflen h) prev td d = some b ∧
      (hdr ++ b.name).map f = hdr ++ b.name ∧
      serverExtract c h (((hdr ++ b.name).map f).length - td.length) ((hdr ++ b.name).map f) = d.take b.used := by
  obtain ⟨b, hb, G⟩ := C08.hostname_ok S prev
  have hfix := (identity_on_alphabet_survives S.wf f hf).2.2.2 hdot td hdr htd hhdr _ _ _ _ _ hb
  exact ⟨b, hb, hfix, by rw [hfix]; exact G.extract⟩

/-- For a relay of the family the side conditions follow from the selection: a map that is the identity on the
Base64 / Base64u / Base128 alphabet fixes every character a tunnel domain and a data header can contain (letters,
digits, '-', '.'). -/
theorem family_idOn_domain (m : RelayMap) (A : List Nat) (hA : A = cb64 ∨ A = cb64u ∨ A = cb128)
    (h : IdOn m.fn A) : ∀ c, C17.DomChar c → m.fn c = c := by
  intro c hc
  have hlt : c < 123 := by
    unfold C17.DomChar C17.Letter C17.Digit at hc; omega
  by_cases hlow : c < 65
  · exact family_fixes_low m c hlow (by unfold C17.DomChar C17.Letter C17.Digit at hc; omega)
  · have hmem : c ∈ cb64 ∧ c ∈ cb64u ∧ c ∈ cb128 := by
      have h1 : ∀ c, c < 123 → 65 ≤ c → C17.DomChar c → c ∈ cb64 := by decide +kernel
      have h2 : ∀ c, c < 123 → 65 ≤ c → C17.DomChar c → c ∈ cb64u := by decide +kernel
      have h3 : ∀ c, c < 123 → 65 ≤ c → C17.DomChar c → c ∈ cb128 := by decide +kernel
      exact ⟨h1 c hlt (by omega) hc, h2 c hlt (by omega) hc, h3 c hlt (by omega) hc⟩
    rcases hA with rfl | rfl | rfl
    · exact h c hmem.1
    · exact h c hmem.2.1
    · exact h c hmem.2.2

/-- the negotiated upstream codec delivers through the negotiating relay: Base128 selected, any legal domain, any
data header made of domain characters (the client's headers are hex digits and Base32 characters) -/
theorem negotiated_upstream_delivers_b128 (m : RelayMap) (hsel : IdOn m.fn cb128)
    {L h : Nat} {hdr td d : List Nat} (S : C08.Setting b128 L h hdr td d)
    (hhdr : ∀ c ∈ hdr, C17.DomChar c) (htd : ∀ c ∈ td, C17.DomChar c) (prev : Nat) :
    ∃ b, buildHostname b128 L (C08.buflen h) prev td d = some b ∧
      serverExtract b128 h (((hdr ++ b.name).map m.fn).length - td.length) ((hdr ++ b.name).map m.fn)
        = d.take b.used := by
  have hdom := family_idOn_domain m cb128 (Or.inr (Or.inr rfl)) hsel
  obtain ⟨b, hb, _, he⟩ := negotiated_upstream_delivers S m.fn hsel (hdom 46 (by decide))
    (fun c hc => hdom c (hhdr c hc)) (fun c hc => hdom c (htd c hc)) prev
  exact ⟨b, hb, he⟩

example : C08.Setting b128 100 5 [48, 97, 98, 99, 100] [116, 46, 99, 111] [1, 200, 3] :=
  ⟨C07.wf_b128, C08.tables_nodot.2.2.2, by omega, by simp, by unfold NoDot; decide, by simp, by decide,
   by simp, by unfold Bytes; decide⟩

/-- the letter `write_dns` puts in front of a TXT answer in codec S / U / V -/
def txtLetter (dn : Nat) : Nat := if dn = 83 then 115 else if dn = 85 then 117 else 118

/-- downstream: the answer text under the negotiated codec passes unaltered, hence is decoded to what the unrelayed
answer is decoded to (which is the payload, `C07.roundtrip`). -/
theorem negotiated_downstream_delivers (f : Nat → Nat) (dn : Nat) (hdn : dn = 83 ∨ dn = 85 ∨ dn = 86)
    (hf : IdOn f (downAlphabet dn)) (hdot : f DOT = DOT) (data : List Nat) (t1 t2 : Nat) :
    (f (txtLetter dn) = txtLetter dn →
      namedec NAMEDEC_CAP ((txtText dn data).map f) = namedec NAMEDEC_CAP (txtText dn data)) ∧
    (IdOn f [C11L.nameLetter dn, t1, t2] →
      namedec NAMEDEC_CAP ((nameenc dn data t1 t2).1.map f) = namedec NAMEDEC_CAP (nameenc dn data t1 t2).1) := by
  have hwf : WF (C11L.dnCodec dn) ∧ (C11L.dnCodec dn).tbl = downAlphabet dn := by
    rcases hdn with rfl | rfl | rfl
    · exact ⟨C07.wf_b64, rfl⟩
    · exact ⟨C07.wf_b64u, rfl⟩
    · exact ⟨C07.wf_b128, rfl⟩
  have hchars : ∀ cap, (enc (C11L.dnCodec dn) cap data).chars.map f = (enc (C11L.dnCodec dn) cap data).chars :=
    fun cap => C11L.enc_chars_fixed hwf.1 (hwf.2 ▸ hf) cap data
  constructor
  · intro hl
    have : (txtText dn data).map f = txtText dn data := by
      have e : txtText dn data = txtLetter dn :: (enc (C11L.dnCodec dn) 65535 data).chars := by
        rcases hdn with rfl | rfl | rfl <;> rfl
      rw [e, List.map_cons, hchars, hl]
    rw [this]
  · intro hl
    have : (nameenc dn data t1 t2).1.map f = (nameenc dn data t1 t2).1 := by
      rw [C11L.nameenc_eq]
      apply C11L.map_append_fixed
      · unfold C11L.nameCore
        dsimp only
        have h1 : (C11L.nameLetter dn :: (enc (C11L.dnCodec dn) (249 - 249 / 57) data).chars).map f
            = C11L.nameLetter dn :: (enc (C11L.dnCodec dn) (249 - 249 / 57) data).chars := by
          rw [List.map_cons, hchars, hl _ List.mem_cons_self]
        have h2 := C11L.dotify_fixed hdot h1
        split
        · exact h2
        · exact C11L.map_append_fixed h2 (by simp [hdot])
      · simp [hl t1 (by simp), hl t2 (by simp)]
    rw [this]

example : namedec NAMEDEC_CAP (txtText 83 [1, 2, 3, 250]) = [1, 2, 3, 250] ∧
    namedec NAMEDEC_CAP (nameenc 86 [1, 2, 3, 250] 100 101).1 = [1, 2, 3, 250] := by
  rw [C11L.namedec_fast]; decide +kernel

/-! ### Base32 survives the whole family, in both directions -/

/-- `base32_decode` ignores letter case, letter by letter. -/
theorem b32_case_insensitive (s t : List Nat) (h : SameUpToCase s t) (cap n : Nat) :
    dec b32 cap n s = dec b32 cap n t := C11L.dec_b32_caseEq h cap n

example : SameUpToCase [77, 122, 87, 71, 99] [109, 90, 119, 103, 67] ∧
    dec b32 10 5 [77, 122, 87, 71, 99] = dec b32 10 5 [109, 90, 119, 103, 67] := by decide +kernel

/-- Downstream: a Base32 answer — TXT or host name — is decoded to the same bytes through every map of the
family.  (This is also why the echo of the upstream probe and all handshake replies arrive intact.) -/
theorem base32_survives_family_down (m : RelayMap) (data : List Nat) (t1 t2 : Nat) :
    namedec NAMEDEC_CAP ((txtText 84 data).map m.fn) = namedec NAMEDEC_CAP (txtText 84 data) ∧
    namedec NAMEDEC_CAP ((nameenc 84 data t1 t2).1.map m.fn) = namedec NAMEDEC_CAP (nameenc 84 data t1 t2).1 :=
  ⟨C11L.b32_txt_survives m.fn_mem _ data, C11L.b32_name_survives m.fn_mem _ data t1 t2⟩

example : namedec NAMEDEC_CAP ((txtText 84 [200, 7]).map (RelayMap.mk .upper .strip .plus).fn) = [200, 7] := by
  rw [C11L.namedec_fast]; decide +kernel

/-- In particular the echo of an upstream probe (`Z` handler: the received name `recv`, sent back as a Base32 TXT
answer before any downstream codec is negotiated) arrives at the client exactly as the server received it, through
every answer map of the family — the assumption under which `upenc_selected_only_if_identity` is stated. -/
theorem upenc_echo_arrives (m : RelayMap) (recv : List Nat) (hb : Bytes recv) (hlen : recv.length ≤ 40000) :
    namedec NAMEDEC_CAP ((txtText 84 recv).map m.fn) = recv := by
  rw [(base32_survives_family_down m recv 0 0).1]
  exact C11L.txt_b32_roundtrip recv hb hlen

example : Bytes (upName [122, 97, 98, 99] pat128a [116, 46, 99, 111]) := by unfold Bytes; decide

/-- The downstream check under Base32 (`T`, also used by the query type test and the EDNS0 test) passes through every
map of the family — although e.g. an upper-casing path does alter the Base32 alphabet: harmless, the decoder does not
care (`b32_case_insensitive`). -/
theorem downenc_check_b32 (m : RelayMap) :
    namedec NAMEDEC_CAP ((txtText 84 DOWNCODECCHECK1).map m.fn) = DOWNCODECCHECK1 :=
  upenc_echo_arrives m DOWNCODECCHECK1 (by unfold Bytes; decide) (by decide)

example : ¬ IdOn (RelayMap.mk .upper .clean .keep).fn cb32 := by decide

/-- Upstream: on a name made of domain characters (letters, digits, '-', '.': every Base32 query name) a map of the
family is at most a change of letter case … -/
theorem family_caseOnly (m : RelayMap) (name : List Nat) (h : ∀ c ∈ name, C17.DomChar c) :
    SameUpToCase (name.map m.fn) name := by
  have key : ∀ f ∈ C11L.familyFns, ∀ c, c < 123 → C17.DomChar c → lowerOf (f c) = lowerOf c := by decide +kernel
  unfold SameUpToCase
  rw [List.map_map]
  apply List.map_congr_left
  intro c hc
  have hd := h c hc
  exact key m.fn m.fn_mem c (by unfold C17.DomChar C17.Letter C17.Digit at hd; omega) hd

example : ∀ c ∈ [112, 97, 98, 46, 116, 45, 49, 46, 67, 111], C17.DomChar c := by decide
example : SameUpToCase ([112, 97, 98, 46, 116, 45, 49, 46, 67, 111].map (RelayMap.mk .upper .strip .underscore).fn)
    [112, 97, 98, 46, 116, 45, 49, 46, 67, 111] := by decide

/-! ## (C) … and a change of letter case — fixed or random, letter by letter — is harmless for Base32 -/

/-- Any per-character case change of a query name is matched by `query_datalen` exactly like the original (C17) and,
decoded as Base32, gives the same bytes. -/
theorem random_case_base32_ok (q q' t : List Nat) (h : SameUpToCase q' q) :
    Common.queryDatalen q' t = Common.queryDatalen q t ∧
    ∀ hlen dlen, serverExtract b32 hlen dlen q' = serverExtract b32 hlen dlen q :=
  ⟨C11L.queryDatalen_caseEq h t, fun hlen dlen => C11L.serverExtract_b32_caseEq h hlen dlen⟩

/-- hence every Base32 data name survives every relay of the family -/
theorem base32_survives_family_up (m : RelayMap) (name t : List Nat) (h : ∀ c ∈ name, C17.DomChar c) :
    Common.queryDatalen (name.map m.fn) t = Common.queryDatalen name t ∧
    ∀ hlen dlen, serverExtract b32 hlen dlen (name.map m.fn) = serverExtract b32 hlen dlen name :=
  random_case_base32_ok name (name.map m.fn) t (family_caseOnly m name h)

-- "pAbCdE.T.cO" against "paBcde.t.co" in the domain "t.co": same data length, same decoded bytes
example : SameUpToCase [112, 65, 98, 67, 100, 69, 46, 84, 46, 99, 79] [112, 97, 66, 99, 100, 101, 46, 116, 46, 99, 111] ∧
    Common.queryDatalen [112, 65, 98, 67, 100, 69, 46, 84, 46, 99, 79] [116, 46, 99, 111] = some 7 ∧
    serverExtract b32 1 7 [112, 65, 98, 67, 100, 69, 46, 84, 46, 99, 79] = [0, 68, 50] := by decide +kernel

/-! ## (A) fragment size -/

/-- What `handshake_autoprobe_fragsize` guarantees.  `probe n` is the outcome of the (up to three) probes for
`n` bytes; `fits n` any predicate that holds for every size whose probe passed and that is downward closed (C09's
`exact_downward_closed`: "a downstream answer with an n-byte payload passes the relay's size limit and is decoded
exactly").  If the function returns `F ≠ 0`:
 * `F + 2` is a size that was actually probed, and passed, and is ≥ 3;
 * no larger size that was probed passed (`F + 2` is the largest probed size that passed) — this needs NO
   monotonicity of the path: the search only moves up after a success;
 * every size up to `F + 2` fits (this does need downward closure);
and the client then sends `F` in `handshake_set_fragsize`, two less than what was probed, because the server adds
its 2-byte data header to each fragment (`fragsize_answer_bound`). -/
theorem fragsize_probe_sound (probe : Nat → ProbeRes) (fits : Nat → Prop)
    (hdown : ∀ n m, m ≤ n → fits n → fits m) (hok : ∀ n, probe n = .ok → fits n)
    (hF : autoprobeFragsize probe ≠ 0) :
    let F := autoprobeFragsize probe
    3 ≤ F + 2 ∧ F + 2 ∈ (fragSearch probe).asked ∧ probe (F + 2) = .ok ∧
    (∀ n ∈ (fragSearch probe).asked, probe n = .ok → n ≤ F + 2) ∧
    (∀ n, n ≤ F + 2 → fits n) := by
  intro F
  obtain ⟨_, h2, h3, h4⟩ := C11L.autoprobe_hit hF
  exact ⟨by omega, h2, h3, h4, fun n hn => hdown _ n hn (hok _ h3)⟩

/-- a path that passes answers of up to 1200 bytes: 768 ok, 1152 ok, 1344 no, 1248 no, 1200 ok, 1224 no, 1212 no, and
the search stops (range 6 < 8, enough bytes): result 1200 - 2.  A path that corrupts byte 2 is refused. -/
example : autoprobeFragsize (fun n => if n ≤ 1200 then .ok else .bad) = 1198 ∧
    (fragSearch (fun n => if n ≤ 1200 then .ok else .bad)).asked = [1212, 1224, 1200, 1248, 1344, 1152, 768] ∧
    autoprobeFragsize (fun _ => .fatal) = 0 := by decide +kernel

/-- the fuel of the model's loop is sufficient: more fuel gives the same result -/
theorem fragsize_fuel (probe : Nat → ProbeRes) (k : Nat) :
    C11L.fragLoop probe (10 + k) C11L.fragInit = fragSearch probe :=
  C11L.fragLoop_fuel probe 10 k C11L.fragInit (by decide)

/-- The server never puts more than `fragsize` payload bytes plus its 2 header bytes into a data answer: with
`fragsize = F` every data answer carries at most `F + 2` bytes — a size that was probed and passed. -/
theorem fragsize_answer_bound (x : Server.Session) :
    (Server.scPkt x (Server.scDatalen x)).length ≤ x.fragsize + 2 := by
  unfold Server.scPkt Server.scDatalen
  simp only [List.length_append, List.length_cons, List.length_nil, List.length_take, List.length_drop]
  split <;> omega

example : (Server.scPkt { Server.Session.zero 5 with fragsize := 3, outpacket := ⟨6, 0, 0, [1, 2, 3, 4, 5, 6], 0, 0⟩ }
    (Server.scDatalen { Server.Session.zero 5 with fragsize := 3, outpacket := ⟨6, 0, 0, [1, 2, 3, 4, 5, 6], 0, 0⟩ })).length
    = 5 := by decide

/-- The size `client_handshake` hands to `handshake_set_fragsize` after an autoprobe is that `F`: the handshake
succeeds with `F ≠ 0` sent, or fails with nothing sent. -/
theorem handshake_sets_probed_size (cfg : HsCfg) (P : HsProbes) (ha : cfg.autoFrag = true) :
    let R := clientHandshakeTail cfg P
    (R.rc = 0 ∧ R.setFrag = some (autoprobeFragsize P.frag) ∧ autoprobeFragsize P.frag ≠ 0) ∨
    (R.rc = 1 ∧ R.setFrag = none ∧ autoprobeFragsize P.frag = 0) := by
  intro R
  simp only [R, clientHandshakeTail, ha, if_true]
  by_cases hf : autoprobeFragsize P.frag = 0 <;> simp [hf]

/-- the search under-estimates by up to 11 bytes once 300 bytes are secured (it stops at `range < 8`): a path
that passes exactly 485 bytes gets 480 - 2; below 300 it can still be one short (the odd halving 3 → 1): a path
that passes exactly 299 bytes gets 298 - 2 -/
example : autoprobeFragsize (fun n => if n ≤ 485 then .ok else .bad) = 478 ∧
    autoprobeFragsize (fun n => if n ≤ 299 then .ok else .bad) = 296 := by decide +kernel

/-! ## (B) fallback to Base32 -/

/-- `client_handshake` from the EDNS0 check on, as a function of the outcomes of all probes (no Ctrl-C).
 * It never returns -1 and returns 1 only when the fragment size is autodetected and no size > 2 was accepted.
 * No outcome of the codec probes makes it fail; the upstream codec is one of the four, and it is Base32 when no probe
   string comes back identical; the downstream codec stays the server default (`T` = Base32, ' ' in the client)
   when every downstream test fails.
 * If no fragment probe is answered with "corruption at byte 2" and one of the sizes 768, 384, …, 6, 3 that the
   search visits on its way down passes, it returns 0. -/
theorem base32_fallback (cfg : HsCfg) (P : HsProbes) :
    let R := clientHandshakeTail cfg P
    (R.rc = 0 ∨ (R.rc = 1 ∧ cfg.autoFrag = true ∧ autoprobeFragsize P.frag = 0)) ∧
    (R.upBits = 5 ∨ R.upBits = 6 ∨ R.upBits = 26 ∨ R.upBits = 7) ∧
    ((∀ s, P.up s ≠ .same) → R.upBits = 5) ∧
    (cfg.downenc = 32 → (∀ c, P.down c = false) → R.downenc = 32) ∧
    ((∀ n, P.frag n ≠ .fatal) → (∃ n ∈ [768, 384, 192, 96, 48, 24, 12, 6, 3], P.frag n = .ok) → R.rc = 0) := by
  intro R
  have hup := C11L.upencAutodetect_le P.up
  refine ⟨?_, ?_, ?_, ?_, ?_⟩
  · simp only [R, clientHandshakeTail]
    by_cases ha : cfg.autoFrag = true
    · by_cases hf : autoprobeFragsize P.frag = 0 <;> simp [ha, hf]
    · simp [ha]
  · have : R.upBits = (let upcodec := upencAutodetect P.up
        let bits := if upcodec = 1 then 6 else if upcodec = 2 then 26 else if upcodec = 3 then 7 else 5
        if bits ≠ 5 ∧ P.switchUp bits then bits else 5) := by
      simp only [R, clientHandshakeTail]
      by_cases ha : cfg.autoFrag = true
      · by_cases hf : autoprobeFragsize P.frag = 0 <;> simp [ha, hf]
      · simp [ha]
    rw [this]
    dsimp only
    split <;> (try split) <;> (try split) <;> (try split) <;> omega
  · intro hns
    have h0 : upencAutodetect P.up = 0 := by
      have h3 : upencAutodetect P.up ≠ 3 := fun h => hns _ (C11L.upencAutodetect_eq_3 h).1
      have h1 : upencAutodetect P.up ≠ 1 := fun h => hns _ (C11L.upencAutodetect_eq_1 h)
      have h2 : upencAutodetect P.up ≠ 2 := fun h => hns _ (C11L.upencAutodetect_eq_2 h)
      omega
    simp only [R, clientHandshakeTail, h0]
    by_cases ha : cfg.autoFrag = true
    · by_cases hf : autoprobeFragsize P.frag = 0 <;> simp [ha, hf]
    · simp [ha]
  · intro hd hall
    have h32 : downencAutodetect cfg.qtype P.down = 32 := by
      rcases C11L.downencAutodetect_cases cfg.qtype P.down with h | ⟨_, h⟩ | ⟨_, h⟩ | ⟨_, h⟩ | ⟨_, h, _⟩
      · exact h
      all_goals rw [hall] at h; cases h
    simp only [R, clientHandshakeTail, hd, h32]
    by_cases ha : cfg.autoFrag = true
    · by_cases hf : autoprobeFragsize P.frag = 0 <;> simp [ha, hf]
    · simp [ha]
  · intro nf hex
    have hpos := C11L.autoprobe_pos_of_max (C11L.fragSearch_finds nf hex)
    simp only [R, clientHandshakeTail]
    by_cases ha : cfg.autoFrag = true
    · simp [ha, hpos]
    · simp [ha]

/-- every fancy probe fails, sizes up to 200 pass: success with Base32 / Base32 and fragsize 200 - 2 -/
example : clientHandshakeTail ⟨T_TXT, 32, true, true, 0⟩
    ⟨false, fun _ => .differ, fun _ => false, fun _ => false, false, fun n => if n ≤ 200 then .ok else .bad⟩
    = ⟨0, false, 5, 32, false, some 198⟩ := by decide +kernel

/-- `handshake_qtype_autodetect` on a fixed path (the outcome of a type test does not depend on the timeout): if some
supported record type works, the best-ranked working type is selected; the function fails only if none of the seven
works. -/
theorem qtype_autodetect_finds (w : Nat → Bool) :
    (∀ k, k ≤ 6 → w k = true → (∀ j, j < k → w j = false) →
      qtypeAutodetect (fun _ => w) = some (qtypeNumcvt k)) ∧
    ((∀ j, j ≤ 6 → w j = false) → qtypeAutodetect (fun _ => w) = none) :=
  ⟨fun k hk hw hlt => C11L.qtypeAutodetect_finds w k hk hw hlt,
   fun h => C11L.qtypeAutodetect_none _ (fun _ j hj => h j hj)⟩

/-- NULL and PRIVATE refused, TXT works: TXT -/
example : qtypeAutodetect (fun _ k => decide (k ≥ 2)) = some T_TXT := by decide

/-- Negotiation succeeds on every path that lets some supported record type through (the `Y` test with the default
codec passes for it — for the family this only needs the type and size to be allowed, `base32_survives_family_down`) and
that answers the fragment probes of some size in 3 … `N` without corrupting them, N ≥ 3 … 768 (the "answers up to the
classic 512-byte limit" of the property): a query type is found and the handshake returns 0, whatever the codec
probes, the EDNS0 check and the lazy-mode switch do. -/
theorem negotiation_succeeds (w : Nat → Bool) (k : Nat) (hk : k ≤ 6) (hw : w k = true) (P : HsProbes)
    (downenc : Nat) (lazymode autoFrag : Bool) (fragsize N : Nat) (hN : 3 ≤ N)
    (nf : ∀ n, P.frag n ≠ .fatal) (hfrag : ∀ n, 3 ≤ n → n ≤ N → P.frag n = .ok) :
    ∃ ty, qtypeAutodetect (fun _ => w) = some ty ∧
      (clientHandshakeTail ⟨ty, downenc, lazymode, autoFrag, fragsize⟩ P).rc = 0 := by
  -- the least working type number
  have hleast : ∃ k', k' ≤ 6 ∧ w k' = true ∧ ∀ j, j < k' → w j = false := by
    have : ∀ n, (∃ k', k' < n ∧ w k' = true) → ∃ k', k' < n ∧ w k' = true ∧ ∀ j, j < k' → w j = false := by
      intro n
      induction n with
      | zero => intro ⟨_, h, _⟩; omega
      | succ n ih =>
        intro ⟨k', hk', hwk'⟩
        by_cases hex : ∃ k'', k'' < n ∧ w k'' = true
        · obtain ⟨a, ha, hb⟩ := ih hex
          exact ⟨a, by omega, hb⟩
        · refine ⟨k', hk', hwk', fun j hj => ?_⟩
          cases hwj : w j with
          | false => rfl
          | true => exact absurd ⟨j, by omega, hwj⟩ hex
    obtain ⟨a, ha, hb⟩ := this 7 ⟨k, by omega, hw⟩
    exact ⟨a, by omega, hb⟩
  obtain ⟨k', hk', hw', hlt⟩ := hleast
  refine ⟨_, (qtype_autodetect_finds w).1 k' hk' hw' hlt, ?_⟩
  refine (base32_fallback _ P).2.2.2.2 nf ?_
  -- some size on the way down is ≤ N
  by_cases h768 : 768 ≤ N; · exact ⟨768, by decide, hfrag _ (by omega) h768⟩
  by_cases h384 : 384 ≤ N; · exact ⟨384, by decide, hfrag _ (by omega) h384⟩
  by_cases h192 : 192 ≤ N; · exact ⟨192, by decide, hfrag _ (by omega) h192⟩
  by_cases h96 : 96 ≤ N; · exact ⟨96, by decide, hfrag _ (by omega) h96⟩
  by_cases h48 : 48 ≤ N; · exact ⟨48, by decide, hfrag _ (by omega) h48⟩
  by_cases h24 : 24 ≤ N; · exact ⟨24, by decide, hfrag _ (by omega) h24⟩
  by_cases h12 : 12 ≤ N; · exact ⟨12, by decide, hfrag _ (by omega) h12⟩
  by_cases h6 : 6 ≤ N; · exact ⟨6, by decide, hfrag _ (by omega) h6⟩
  exact ⟨3, by decide, hfrag _ (by omega) hN⟩

example : (∀ n, (fun n => if n ≤ 200 then ProbeRes.ok else .bad) n ≠ .fatal) ∧
    (∀ n, 3 ≤ n → n ≤ 200 → (fun n => if n ≤ 200 then ProbeRes.ok else .bad) n = .ok) :=
  ⟨fun n => by dsimp only; split <;> simp, fun n _ h => by simp [h]⟩

/-- NEGATIVE (forced settings are not checked): with `-O` and `-m` given, `client_handshake` makes no downstream test
at all — it returns 0 with the forced codec whatever the path does to it.  (With `-O` but without `-m` the fragment
probes, which travel in the forced codec, catch most corruption: "corrupted at …", `ProbeRes.bad`.) -/
theorem forced_not_checked (P : HsProbes) (qtype fragsize : Nat) :
    (clientHandshakeTail ⟨qtype, 86, false, false, fragsize⟩ P).rc = 0 ∧
    (clientHandshakeTail ⟨qtype, 86, false, false, fragsize⟩ P).downenc = 86 := by
  simp [clientHandshakeTail]

/-! ## (D) the concrete handshake machine refines the negotiation abstraction

`Client/Handshake.lean` is the step machine of the whole `client_handshake()` (retry loops, timeouts, `handshake_waitdns`,
the receive buffer), diffed line by line against the real function in every world run.  A path of C11 — a FIXED
transformation in front of a deterministic server — answers every probe content with one reply or with none:
`Client.HsPath` (reply bytes = what `read_dns_withq` hands to the handshake).  `Client.Reaches π` runs the machine on that
path: the parked `select` gets the path's reply to the outstanding query (right id, right first character) or times out.
The abstract probe outcomes `π.probes : HsProbes` are computed from the replies by the abstract tests of `Lemmas/C11b.lean`
(`upencTest`, `downencTest`) and by `fragsize_check` on the reply bytes. -/

/-- **`handshake_refines_negotiation`.**  From `dnsc_use_edns0 = 1` on (DNS mode: `-r`, or the raw login failed), for every
state the login can leave (`running`, upstream codec still Base32), every path whose replies are non-empty and fit `in[]`
(no other condition: since ee87c7d `fragsize_check` judges replies of 1 or 2 bytes by their own bytes too): the concrete machine
RETURNS, and
 * its return value, `dnsc_use_edns0`, the upstream codec `dataenc`, the downstream codec `downenc` and `lazymode` are
   exactly the ones `C11L.clientHandshakeTail` computes from the configuration and the path's probe outcomes;
 * the size it asks `handshake_set_fragsize` for is the abstract `setFrag`.
So `base32_fallback`, `negotiation_succeeds`, `forced_not_checked`, `handshake_sets_probed_size` are statements about the
step machine that is diffed against client.c (corollaries below). -/
theorem handshake_refines_negotiation (π : Client.HsPath) (hπ : π.Ok)
    (s : Client.HState) (evs : List Client.CEvent) (hrun : s.c.running = true) (henc : s.c.dataenc = .b32) :
    ∃ o : Client.HOut, Client.Reaches π (Client.dnsBranch s evs) o ∧ o.1.pos = none ∧
      o.2.2 = .finished (clientHandshakeTail (Client.cfgOf s) π.probes).rc ∧
      o.1.c.edns0 = (clientHandshakeTail (Client.cfgOf s) π.probes).edns0 ∧
      Client.bitsOf o.1.c.dataenc = (clientHandshakeTail (Client.cfgOf s) π.probes).upBits ∧
      o.1.c.downenc = (clientHandshakeTail (Client.cfgOf s) π.probes).downenc ∧
      o.1.c.lazymode = (clientHandshakeTail (Client.cfgOf s) π.probes).lazymode ∧
      (∀ f, (clientHandshakeTail (Client.cfgOf s) π.probes).setFrag = some f →
        ∃ (sm : Client.HState) (em : List Client.CEvent) (fi : Int),
          Client.Reaches π (Client.dnsBranch s evs) (Client.setFragEnter sm em fi) ∧ fi.toNat = f) :=
  Client.hs_refines π hπ s evs hrun henc

/-- `negotiation_succeeds` / `base32_fallback` for the concrete machine: if no fragment probe is answered with "corruption
at byte 2" and the path answers the probes of some size 3 … N correctly, the handshake machine returns 0 — whatever the codec
probes, the EDNS0 check and the lazy switch do; and when no probe string comes back identical it stays with Base32 upstream. -/
theorem handshake_succeeds_on_answering_path (π : Client.HsPath) (hπ : π.Ok)
    (s : Client.HState) (evs : List Client.CEvent) (hrun : s.c.running = true) (henc : s.c.dataenc = .b32)
    (N : Nat) (hN : 3 ≤ N) (nf : ∀ n, π.probes.frag n ≠ .fatal) (hfrag : ∀ n, 3 ≤ n → n ≤ N → π.probes.frag n = .ok) :
    ∃ o : Client.HOut, Client.Reaches π (Client.dnsBranch s evs) o ∧ o.1.pos = none ∧ o.2.2 = .finished 0 ∧
      ((∀ p, π.probes.up p ≠ .same) → o.1.c.dataenc = .b32) := by
  obtain ⟨o, h1, h2, h3', _, h5, _⟩ := handshake_refines_negotiation π hπ s evs hrun henc
  have hrc : (clientHandshakeTail (Client.cfgOf s) π.probes).rc = 0 := by
    refine (base32_fallback _ π.probes).2.2.2.2 nf ?_
    by_cases h768 : 768 ≤ N; · exact ⟨768, by decide, hfrag _ (by omega) h768⟩
    by_cases h384 : 384 ≤ N; · exact ⟨384, by decide, hfrag _ (by omega) h384⟩
    by_cases h192 : 192 ≤ N; · exact ⟨192, by decide, hfrag _ (by omega) h192⟩
    by_cases h96 : 96 ≤ N; · exact ⟨96, by decide, hfrag _ (by omega) h96⟩
    by_cases h48 : 48 ≤ N; · exact ⟨48, by decide, hfrag _ (by omega) h48⟩
    by_cases h24 : 24 ≤ N; · exact ⟨24, by decide, hfrag _ (by omega) h24⟩
    by_cases h12 : 12 ≤ N; · exact ⟨12, by decide, hfrag _ (by omega) h12⟩
    by_cases h6 : 6 ≤ N; · exact ⟨6, by decide, hfrag _ (by omega) h6⟩
    exact ⟨3, by decide, hfrag _ (by omega) hN⟩
  refine ⟨o, h1, h2, by rw [h3', hrc], ?_⟩
  intro hns
  have := (base32_fallback (Client.cfgOf s) π.probes).2.2.1 hns
  rw [this] at h5
  cases hd : o.1.c.dataenc <;> rw [hd] at h5 <;> simp [Client.bitsOf] at h5

/-- `forced_not_checked` for the concrete machine: with a downstream codec forced (`-O`), the machine ends with that codec
whatever the path does — no reply can change it. -/
theorem handshake_forced_not_checked (π : Client.HsPath) (hπ : π.Ok)
    (s : Client.HState) (evs : List Client.CEvent) (hrun : s.c.running = true) (henc : s.c.dataenc = .b32)
    (hforced : s.c.downenc ≠ 32) :
    ∃ o : Client.HOut, Client.Reaches π (Client.dnsBranch s evs) o ∧ o.1.pos = none ∧ o.1.c.downenc = s.c.downenc := by
  obtain ⟨o, h1, h2, _, _, _, h6, _⟩ := handshake_refines_negotiation π hπ s evs hrun henc
  refine ⟨o, h1, h2, ?_⟩
  rw [h6, (Client.tail_fields _ _).2.2.1]
  simp [Client.cfgOf, hforced]

/-- a transparent path in front of a real server: the EDNS0 / downstream probes come back as the 48 check bytes, the
upstream probes are echoed, the switches are acknowledged, "Lazy", fragment probes of up to 100 bytes are answered -/
def examplePath : Client.HsPath :=
  { edns := some DOWNCODECCHECK1,
    up := fun p => some ([122, 97, 97, 97] ++ p ++ [46, 116]),
    switchUp := fun _ => some (Client.ascii "Base128"),
    down := fun _ => some DOWNCODECCHECK1,
    switchDown := some (Client.ascii "Base128"),
    lazy := some (Client.ascii "Lazy"),
    frag := fun n => if n ≤ 100 ∧ 3 ≤ n then some ([n / 256, n % 256, 107] ++ (List.range (n - 3)).map fun j => (33 + 107 * j) % 256) else none,
    setFrag := some [4, 174] }

/-- non-vacuity: on that path the abstract negotiation ends with EDNS0, Base128 up (7 bits), Base128 down for a CNAME client
(`V`), lazy mode and fragment size 98 — and by the theorem so does the step machine -/
example : clientHandshakeTail ⟨T_CNAME, 32, true, true, 0⟩ examplePath.probes = ⟨0, true, 7, 86, true, some 98⟩ := by
  decide +kernel

/-- … and the path satisfies the hypotheses of `handshake_refines_negotiation` -/
example : examplePath.Ok := by
  have hfrag : ∀ n buf, examplePath.frag n = some buf → 3 ≤ buf.length ∧ buf.length ≤ 4095 := by
    intro n buf h
    simp only [examplePath] at h
    split at h
    · injection h with h; subst h; simp; omega
    · cases h
  have hup : ∀ p, (Client.upPattern p).length ≤ 100 := by
    intro p
    unfold Client.upPattern
    split <;> decide
  intro p buf h
  cases p <;> simp only [Client.HsPath.replyAt, examplePath] at h <;> try (cases h; done)
  all_goals first
    | (injection h with h; subst h; decide)
    | (have := hfrag _ buf h; omega)
    | (injection h with h; subst h; rename_i pp _; have := hup pp; simp; omega)

end Iodine.C11
