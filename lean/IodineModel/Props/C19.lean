import IodineModel.Login
import IodineModel.Lemmas.Login
/-
C19 — the login response is the MD5 digest of (first 32 bytes of the zero-padded password)
xor (eight big-endian repetitions of the 32-bit login challenge), as doc/proto_00000502.txt
specifies ("16 bytes MD5 hash of: (first 32 bytes of password) xor (8 repetitions of login
challenge)"; the challenge travels as 4 bytes, most significant first, in the VACK reply).
The hashed block depends on the challenge and on each of the first 32 password bytes and on
nothing else; raw-mode login uses challenge+1 towards the server and challenge-1 back.

Only property statements live here (helper lemmas: Lemmas/Login.lean).  MD5 is opaque in all
proofs: every statement is about the 32-byte pre-image.  Dependence of the *digest* on the
pre-image would be a collision-resistance claim about MD5 and is deliberately not stated.
The MD5 model itself is validated by evaluation: the RFC 1321 test suite at the end of this
file (kernel-checked), the same suite in Drv/Login.lean (op `md5selftest`), and the comparison
against the C code by the correspondence check.
-/
namespace Iodine.C19
open Iodine Iodine.Login

/-! ### Specification side (from the protocol text, independent of login.c) -/

/-- The password as both ends hold it: cut at 32 bytes, zero-padded to 32. -/
def pad32 (pw : List Nat) : List Nat := (pw ++ List.replicate 32 0).take 32

/-- The challenge as it appears on the wire: four bytes, most significant first. -/
def be32 (s : Nat) : List Nat := [s / 2 ^ 24 % 256, s / 2 ^ 16 % 256, s / 2 ^ 8 % 256, s % 256]

/-- "8 repetitions of login challenge" -/
def challenge8 (s : Nat) : List Nat := (List.replicate 8 (be32 s)).flatten

/-- "(first 32 bytes of password) xor (8 repetitions of login challenge)" -/
def specBlock (pw : List Nat) (s : Nat) : List Nat :=
  List.zipWith (· ^^^ ·) (pad32 pw) (challenge8 s)

/-- "16 bytes MD5 hash of" that block. -/
def loginSpec (pw : List Nat) (s : Nat) : List Nat := md5 (specBlock pw s)

def Bytes (l : List Nat) : Prop := ∀ b ∈ l, b < 256

/-! ### Raw-mode login as the code computes it
client.c `send_raw_udp_login`: `login_calculate(buf, 16, password, seed + 1)`, answer checked in
`handshake_raw_udp` against `login_calculate(hash, 16, password, seed - 1)`;
iodined.c `handle_raw_login`: compares with `users[userid].seed + 1`, replies with
`users[userid].seed - 1`.  `seed` is a C `int`; `± 1` is taken on the 32-bit pattern. -/

def rawLoginToServer (pw : List Nat) (s : Nat) : List Nat :=
  loginCalcC (pad32 pw) ((s + 1) % 2 ^ 32)

def rawLoginReply (pw : List Nat) (s : Nat) : List Nat :=
  loginCalcC (pad32 pw) ((s + 2 ^ 32 - 1) % 2 ^ 32)

/-! ### Basic facts about the spec side -/

theorem pad32_length (pw : List Nat) : (pad32 pw).length = 32 := by
  simp only [pad32, List.length_take, List.length_append, List.length_replicate]; omega

theorem pad32_bytes (pw : List Nat) (h : Bytes pw) : Bytes (pad32 pw) := by
  intro b hb
  have hb' := List.mem_of_mem_take hb
  rw [List.mem_append] at hb'
  rcases hb' with hb' | hb'
  · exact h b hb'
  · rw [List.mem_replicate] at hb'; omega

theorem pad32_idem (pw : List Nat) : pad32 (pad32 pw) = pad32 pw := by
  have h := pad32_length pw
  unfold pad32 at h ⊢
  rw [List.take_append_of_le_length (by omega), List.take_of_length_le (by omega)]

theorem challenge8_length (s : Nat) : (challenge8 s).length = 32 := by
  simp [challenge8, be32]

example : pad32 [1, 2, 3] = [1, 2, 3] ++ List.replicate 29 0 := by decide
example : challenge8 0x01020304 =
    [1, 2, 3, 4, 1, 2, 3, 4, 1, 2, 3, 4, 1, 2, 3, 4, 1, 2, 3, 4, 1, 2, 3, 4, 1, 2, 3, 4, 1, 2, 3, 4] := by
  decide

/-! ### C19.1 — the code computes the documented hash -/

/-- The buffer that `login_calculate` hands to MD5 (word-wise `htonl(ntohl(w) ^ seed)` on a
little-endian host) is the documented byte-wise xor with the big-endian challenge. -/
theorem cBlock_is_spec_block (pw : List Nat) (hpw : Bytes pw) (s : Nat) :
    cBlock (pad32 pw) s = specBlock pw s := by
  unfold cBlock specBlock challenge8 be32
  exact words_eq s 8 (pad32 pw) (pad32_length pw) (pad32_bytes pw hpw)

/-- The model's own padding is `pad32`. -/
theorem loginCalcC_eq (p : List Nat) (s : Nat) :
    loginCalcC p s = md5 (cBlock (pad32 p) (s % 2 ^ 32)) := rfl

/-- `login_calculate` = MD5 of the documented block. -/
theorem login_is_md5_of_spec_block (pw : List Nat) (hpw : Bytes pw) (s : Nat) (hs : s < 2 ^ 32) :
    loginCalcC (pad32 pw) s = loginSpec pw s := by
  rw [loginCalcC_eq, pad32_idem, Nat.mod_eq_of_lt hs, cBlock_is_spec_block pw hpw s, loginSpec]

/-- Same statement on the password as typed (the C reads the caller's zero-filled 33-byte
buffer; the model pads itself). -/
theorem login_is_md5_of_spec_block' (pw : List Nat) (hpw : Bytes pw) (s : Nat) (hs : s < 2 ^ 32) :
    loginCalcC pw s = loginSpec pw s := by
  rw [loginCalcC_eq, Nat.mod_eq_of_lt hs, cBlock_is_spec_block pw hpw s, loginSpec]

-- non-vacuity: a concrete password/challenge; the block on both sides, computed
example : cBlock (pad32 [112, 97, 115, 115]) 0x80010203 =
    [0xf0, 0x60, 0x71, 0x70, 0x80, 1, 2, 3, 0x80, 1, 2, 3, 0x80, 1, 2, 3,
     0x80, 1, 2, 3, 0x80, 1, 2, 3, 0x80, 1, 2, 3, 0x80, 1, 2, 3] := by decide +kernel
example : specBlock [112, 97, 115, 115] 0x80010203 =
    [0xf0, 0x60, 0x71, 0x70, 0x80, 1, 2, 3, 0x80, 1, 2, 3, 0x80, 1, 2, 3,
     0x80, 1, 2, 3, 0x80, 1, 2, 3, 0x80, 1, 2, 3, 0x80, 1, 2, 3] := by decide +kernel

/-! ### C19.2 — nothing but the first 32 password bytes and the challenge enters -/

/-- Password bytes beyond the 32nd are ignored. -/
theorem extra_bytes_ignored (p x : List Nat) (s : Nat) (h : 32 ≤ p.length) :
    loginCalcC (pad32 (p ++ x)) s = loginCalcC (pad32 p) s := by
  have e : pad32 (p ++ x) = pad32 p := by
    unfold pad32
    rw [List.append_assoc, List.take_append_of_le_length h, List.take_append_of_le_length h]
  rw [e]

/-- The result is a function of `pad32 pw` (and the challenge's 32-bit pattern) only. -/
theorem depends_only_on_pad32 (pw pw' : List Nat) (s s' : Nat) (h : pad32 pw = pad32 pw')
    (hs : s % 2 ^ 32 = s' % 2 ^ 32) : loginCalcC pw s = loginCalcC pw' s' := by
  rw [loginCalcC_eq, loginCalcC_eq, h, hs]

theorem loginCalcC_pad32 (pw : List Nat) (s : Nat) : loginCalcC (pad32 pw) s = loginCalcC pw s :=
  depends_only_on_pad32 _ _ s s (pad32_idem pw) rfl

example : loginCalcC (pad32 (List.replicate 32 7 ++ [1, 2, 3])) 5 = loginCalcC (pad32 (List.replicate 32 7)) 5 :=
  extra_bytes_ignored _ _ _ (by decide)
example : pad32 [1, 2] = pad32 [1, 2, 0, 0] ∧ [1, 2] ≠ [1, 2, 0, 0] := by decide

/-! ### C19.3 — the hashed block depends on the challenge and on every one of the 32 bytes -/

/-- Different challenges give different blocks (same password). -/
theorem block_injective_seed (pw : List Nat) (s s' : Nat) (hs : s < 2 ^ 32) (hs' : s' < 2 ^ 32)
    (h : specBlock pw s = specBlock pw s') : s = s' := by
  unfold specBlock at h
  have hr := zipWith_xor_inj_right _ _ _
    (by rw [pad32_length, challenge8_length]) (by rw [pad32_length, challenge8_length]) h
  unfold challenge8 at hr
  exact be_bytes_inj s s' hs hs' (rep_inj 7 _ _ rfl hr)

/-- Different padded passwords give different blocks (same challenge): each of the first 32
password bytes matters. -/
theorem block_injective_pass (pw pw' : List Nat) (s : Nat)
    (h : specBlock pw s = specBlock pw' s) : pad32 pw = pad32 pw' := by
  unfold specBlock at h
  exact zipWith_xor_inj_left _ _ _
    (by rw [pad32_length, challenge8_length]) (by rw [pad32_length, challenge8_length]) h

/-- Position-wise form: changing exactly byte `i < 32` of the padded password changes exactly
byte `i` of the block. -/
theorem block_byte (pw : List Nat) (s i : Nat) (hi : i < 32) :
    (specBlock pw s)[i]? = some ((pad32 pw).getD i 0 ^^^ (be32 s).getD (i % 4) 0) := by
  have hl := pad32_length pw
  have hi' : i < (pad32 pw).length := by omega
  unfold specBlock
  rw [List.getElem?_zipWith]
  have h1 : (pad32 pw)[i]? = some ((pad32 pw).getD i 0) := by
    rw [List.getD_eq_getElem?_getD, List.getElem?_eq_getElem hi']; rfl
  rw [h1]
  have h2 : (challenge8 s)[i]? = some ((be32 s).getD (i % 4) 0) := by
    unfold challenge8 be32
    have : i = 0 ∨ i = 1 ∨ i = 2 ∨ i = 3 ∨ i = 4 ∨ i = 5 ∨ i = 6 ∨ i = 7 ∨ i = 8 ∨ i = 9 ∨ i = 10 ∨
        i = 11 ∨ i = 12 ∨ i = 13 ∨ i = 14 ∨ i = 15 ∨ i = 16 ∨ i = 17 ∨ i = 18 ∨ i = 19 ∨ i = 20 ∨
        i = 21 ∨ i = 22 ∨ i = 23 ∨ i = 24 ∨ i = 25 ∨ i = 26 ∨ i = 27 ∨ i = 28 ∨ i = 29 ∨ i = 30 ∨
        i = 31 := by omega
    rcases this with h | h | h | h | h | h | h | h | h | h | h | h | h | h | h | h | h | h | h | h |
      h | h | h | h | h | h | h | h | h | h | h | h <;> subst h <;> rfl
  rw [h2]

example : specBlock [1] 0 ≠ specBlock [1] 1 := by decide +kernel
example : specBlock (List.replicate 31 9 ++ [1]) 77 ≠ specBlock (List.replicate 31 9 ++ [2]) 77 := by
  decide +kernel

/-! ### C19.4 — raw-mode login: challenge+1 to the server, challenge-1 back -/

/-- What the two raw-mode hashes are, in terms of the documented block. -/
theorem raw_is_spec (pw : List Nat) (hpw : Bytes pw) (s : Nat) :
    rawLoginToServer pw s = loginSpec pw ((s + 1) % 2 ^ 32) ∧
    rawLoginReply pw s = loginSpec pw ((s + 2 ^ 32 - 1) % 2 ^ 32) :=
  ⟨login_is_md5_of_spec_block pw hpw _ (Nat.mod_lt _ (by decide)),
   login_is_md5_of_spec_block pw hpw _ (Nat.mod_lt _ (by decide))⟩

/-- The three hashed blocks (DNS login, raw login to the server, raw reply) are pairwise
different for every challenge — including the wrap-around cases `s = 2^32-1` and `s = 0` — so a
replayed DNS-mode login hash is not computed from the block the raw login expects, nor can the
client's raw login be echoed back as the server's reply. -/
theorem raw_pm1 (pw : List Nat) (s : Nat) (hs : s < 2 ^ 32) :
    specBlock pw ((s + 1) % 2 ^ 32) ≠ specBlock pw s ∧
    specBlock pw ((s + 2 ^ 32 - 1) % 2 ^ 32) ≠ specBlock pw s ∧
    specBlock pw ((s + 1) % 2 ^ 32) ≠ specBlock pw ((s + 2 ^ 32 - 1) % 2 ^ 32) := by
  have m1 : (s + 1) % 2 ^ 32 < 2 ^ 32 := Nat.mod_lt _ (by decide)
  have m2 : (s + 2 ^ 32 - 1) % 2 ^ 32 < 2 ^ 32 := Nat.mod_lt _ (by decide)
  refine ⟨fun h => ?_, fun h => ?_, fun h => ?_⟩
  · have := block_injective_seed pw _ _ m1 hs h; omega
  · have := block_injective_seed pw _ _ m2 hs h; omega
  · have := block_injective_seed pw _ _ m1 m2 h; omega

-- wrap-around cases are covered
example : (0xffffffff + 1) % 2 ^ 32 = 0 ∧ (0 + 2 ^ 32 - 1) % 2 ^ 32 = 0xffffffff := by decide
example : specBlock [112] ((0xffffffff + 1) % 2 ^ 32) ≠ specBlock [112] 0xffffffff :=
  (raw_pm1 [112] 0xffffffff (by decide)).1

/-! ### Non-vacuity of the MD5 model: the RFC 1321 (appendix A.5) test suite, checked by the kernel
(messages are the ASCII codes of the RFC's strings; `Drv/Login.lean` `selfTest` runs the same
vectors from the strings themselves). -/

/-- MD5 ('') = d41d8cd98f00b204e9800998ecf8427e -/
theorem md5_rfc_empty :
    md5 [] =
      [0xd4, 0x1d, 0x8c, 0xd9, 0x8f, 0x00, 0xb2, 0x04, 0xe9, 0x80, 0x09, 0x98, 0xec, 0xf8, 0x42, 0x7e] := by
  decide +kernel

/-- MD5 ('a') = 0cc175b9c0f1b6a831c399e269772661 -/
theorem md5_rfc_a :
    md5 [97] =
      [0x0c, 0xc1, 0x75, 0xb9, 0xc0, 0xf1, 0xb6, 0xa8, 0x31, 0xc3, 0x99, 0xe2, 0x69, 0x77, 0x26, 0x61] := by
  decide +kernel

/-- MD5 ('abc') = 900150983cd24fb0d6963f7d28e17f72 -/
theorem md5_rfc_abc :
    md5 [97, 98, 99] =
      [0x90, 0x01, 0x50, 0x98, 0x3c, 0xd2, 0x4f, 0xb0, 0xd6, 0x96, 0x3f, 0x7d, 0x28, 0xe1, 0x7f, 0x72] := by
  decide +kernel

/-- MD5 ('message digest') = f96b697d7cb7938d525a2f31aaf161d0 -/
theorem md5_rfc_message_digest :
    md5 [109, 101, 115, 115, 97, 103, 101, 32, 100, 105, 103, 101, 115, 116] =
      [0xf9, 0x6b, 0x69, 0x7d, 0x7c, 0xb7, 0x93, 0x8d, 0x52, 0x5a, 0x2f, 0x31, 0xaa, 0xf1, 0x61, 0xd0] := by
  decide +kernel

/-- MD5 ('abcdefghijklmnopqrstuvwxyz') = c3fcd3d76192e4007dfb496cca67e13b -/
theorem md5_rfc_alphabet :
    md5 [97, 98, 99, 100, 101, 102, 103, 104, 105, 106, 107, 108, 109, 110, 111, 112, 113, 114, 115,
      116, 117, 118, 119, 120, 121, 122] =
      [0xc3, 0xfc, 0xd3, 0xd7, 0x61, 0x92, 0xe4, 0x00, 0x7d, 0xfb, 0x49, 0x6c, 0xca, 0x67, 0xe1, 0x3b] := by
  decide +kernel

/-- MD5 ('ABCDEFGHIJKLMNOPQRSTUVWXYZabcdefghijklmnopqrstuvwxyz0123456789') = d174ab98d277d9f5a5611c2c9f419d9f -/
theorem md5_rfc_alnum62 :
    md5 [65, 66, 67, 68, 69, 70, 71, 72, 73, 74, 75, 76, 77, 78, 79, 80, 81, 82, 83, 84, 85, 86, 87, 88,
      89, 90, 97, 98, 99, 100, 101, 102, 103, 104, 105, 106, 107, 108, 109, 110, 111, 112, 113, 114,
      115, 116, 117, 118, 119, 120, 121, 122, 48, 49, 50, 51, 52, 53, 54, 55, 56, 57] =
      [0xd1, 0x74, 0xab, 0x98, 0xd2, 0x77, 0xd9, 0xf5, 0xa5, 0x61, 0x1c, 0x2c, 0x9f, 0x41, 0x9d, 0x9f] := by
  decide +kernel

/-- MD5 ('12345678901234567890123456789012345678901234567890123456789012345678901234567890') = 57edf4a22be3c955ac49da2e2107b67a -/
theorem md5_rfc_digits80 :
    md5 [49, 50, 51, 52, 53, 54, 55, 56, 57, 48, 49, 50, 51, 52, 53, 54, 55, 56, 57, 48, 49, 50, 51, 52,
      53, 54, 55, 56, 57, 48, 49, 50, 51, 52, 53, 54, 55, 56, 57, 48, 49, 50, 51, 52, 53, 54, 55, 56,
      57, 48, 49, 50, 51, 52, 53, 54, 55, 56, 57, 48, 49, 50, 51, 52, 53, 54, 55, 56, 57, 48, 49, 50,
      51, 52, 53, 54, 55, 56, 57, 48] =
      [0x57, 0xed, 0xf4, 0xa2, 0x2b, 0xe3, 0xc9, 0x55, 0xac, 0x49, 0xda, 0x2e, 0x21, 0x07, 0xb6, 0x7a] := by
  decide +kernel

/-! Concrete login hashes; the right-hand sides were produced by the real `login_calculate`
(gcc, x86-64) for password "pass" and challenge 0x80010203, challenge+1, challenge-1, and for
the empty password with challenge 0. -/
example : loginCalcC [] 0 = [0x70, 0xbc, 0x8f, 0x4b, 0x72, 0xa8, 0x69, 0x21, 0x46, 0x8b, 0xf8, 0xe8, 0x44, 0x1d, 0xce, 0x51] := by
  decide +kernel
example : loginCalcC (pad32 [112, 97, 115, 115]) 0x80010203 =
    [0x6c, 0x20, 0x57, 0x1c, 0x8a, 0xf6, 0xa3, 0x37, 0x8e, 0x7a, 0xcb, 0x26, 0xf0, 0x4d, 0x17, 0x4e] := by
  decide +kernel
example : rawLoginToServer [112, 97, 115, 115] 0x80010203 =
    [0xbc, 0xc1, 0x25, 0x9e, 0xdd, 0xbd, 0x84, 0xe1, 0xb4, 0xd4, 0x3f, 0x28, 0x69, 0x1f, 0xb0, 0x68] := by
  decide +kernel
example : rawLoginReply [112, 97, 115, 115] 0x80010203 =
    [0x36, 0xb8, 0x3a, 0xc7, 0x95, 0xaa, 0x62, 0xdd, 0x0f, 0xdc, 0xc9, 0x9c, 0xdb, 0x49, 0x2f, 0x8a] := by
  decide +kernel

end Iodine.C19
