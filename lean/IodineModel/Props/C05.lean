import IodineModel.Props.C12
import IodineModel.Props.C03
import IodineModel.Props.C04
/-
C05 — the server survives arbitrary datagrams (memory safety, termination).  Per-call theorems; whole sessions in Props/C05Session.lean.

What is PROVED here (by re-stating, under the property's own name, theorems established in the files of C12, C03 and C04 — so that a change
which breaks one of them breaks this property's obligations too):

* the receive path of EVERY datagram — `dns_get_id`, `dns_decode(QR_QUERY)`, `readname` — never reads outside the 64 KiB receive buffer,
  never writes outside `name[256]`, and terminates (the model's loops run on fuel; running out of fuel is a `Fault`, and no `Fault` occurs);
  the model's reads go through a checked accessor (`RxBuf.get`), so this is not true by totalisation;
* a request naming a userid outside the table (negative through the signed `char`, ≥ `created_users`, 16..31 from a Base32 digit) or an
  unallocated slot never touches `users[]`: the handler returns the unchanged state and the refusal;
* established sessions of other clients are framed: a query handled for one session changes another session's slot only through the two
  documented interactions (allocation of an expired slot by `V`, a packet forwarded to it).

Continued in Props/C05Session.lean (whole sessions on ARBITRARY inputs: no encoder call behind `write_dns` / the NS, A and forward encoders
ever stores outside its buffer, whatever the question name looks like; the state invariant `BufInv` — every stored list within its C array;
an explicit bound on the loops of one iteration), Props/C05Continue.lean (non-interference over runs: established sessions continue) and
Props/C05Main.lean (the same from the command line on).

What is NOT proved and is covered only by the sanitizer-instrumented correspondence runs (harness/h_srv, ASan + UBSan, hostile generators):
undefined behaviour of kinds the model does not represent (uninitialised reads, aliasing, signed overflow outside the modelled arithmetic),
libc/zlib internals, stack usage.
-/
namespace Iodine.C05
open Iodine

/-- `dns_decode(NULL, 0, q, QR_QUERY, packet, r)` on ANY datagram that fits the receive buffer: no out-of-bounds read, no out-of-bounds
write, terminates. -/
theorem query_decode_no_fault (b : Wire.RxBuf) (h : b.pkt.size ≤ b.cap) : ∃ r, Wire.dnsDecodeQuery b = Except.ok r :=
  C12.dns_decode_query_no_fault b h

/-- `readname` at any offset with any destination size ≥ 3 (compression loops, pointers to/after the end, over-long labels, bytes ≥ 0x80):
no fault, at most `length` bytes written, result NUL-terminated or empty. -/
theorem readname_no_fault (b : Wire.RxBuf) (h : b.pkt.size ≤ b.cap) (off length : Nat) (hl : 3 ≤ length) :
    ∃ src' w, Wire.readname b off length = Except.ok (src', w) ∧ w.length ≤ length ∧ (w = [] ∨ ∃ w', w = w' ++ [0]) :=
  C12.readname_no_fault b h off length hl

/-- `dns_get_id` (forward replies) never faults. -/
theorem get_id_no_fault (b : Wire.RxBuf) (h : b.pkt.size ≤ b.cap) : ∃ r, Wire.dnsGetId b = Except.ok r :=
  C12.dns_get_id_no_fault b h

/-- What is decoded does not depend on what earlier datagrams left in the buffer (so a short datagram cannot make the server parse,
echo or deliver another client's traffic). -/
theorem query_decode_own_bytes_only (pkt r₁ r₂ : Array Nat) (cap : Nat) :
    Wire.dnsDecodeQuery { pkt := pkt, res := r₁, cap := cap } = Wire.dnsDecodeQuery { pkt := pkt, res := r₂, cap := cap } :=
  C12.dns_decode_query_residue_indep pkt r₁ r₂ cap

/-- A request naming a slot outside the table, an inactive or a disabled slot: the handler returns the UNCHANGED state and only the refusal. -/
theorem bad_slot_refused (s : Server.Srv) (q : Server.Query) (tunsel : Bool) (dlen : Nat) (u : Int)
    (hd : Common.queryDatalen q.name s.cfg.topdomain = some dlen) (hn : C04.names q dlen = some u)
    (hbad : u < 0 ∨ u ≥ ↑s.cfg.createdUsers ∨ (Server.getUser s u.toNat).active = false ∨ (Server.getUser s u.toNat).disabled = true) :
    Server.dispatch s (Server.Input.q q) tunsel = (s, C04.refusal q dlen) :=
  C04.unallocated_refused s q tunsel dlen u hd hn hbad

/-- Other clients' sessions keep their state: a query changes slot `v` only if it names `v` and is accepted for it, or is a `V` request that
allocates `v`, or is an accepted data request whose completed packet is forwarded to `v`. -/
theorem other_sessions_framed (s : Server.Srv) (q : Server.Query) (tunsel : Bool) (v : Nat)
    (h : Server.getUser (Server.dispatch s (Server.Input.q q) tunsel).fst v ≠ Server.getUser s v) :
    ∃ dlen, Common.queryDatalen q.name s.cfg.topdomain = some dlen ∧ C04.IsTunnelRequest q dlen ∧
      (C04.names q dlen = some ↑v ∧ C04.Accepted s q v ∨
        C04.lower ((C04.payload q dlen).getD 0 0) = 118 ∧ (Server.findAvailableUser s).fst = some v ∨
          (C04.hexVal (C04.lower ((C04.payload q dlen).getD 0 0))).isSome = true ∧
            (∃ u : Nat, C04.names q dlen = some (u : Int) ∧ C04.Accepted s q u) ∧ ∃ A, C04.FirstOwner s v A) :=
  C04.other_sessions_framed s q tunsel v h

/-- non-vacuity: a compression loop (pointer to itself) is decoded without fault and yields nothing -/
example : ∃ r, Wire.dnsDecodeQuery { pkt := #[0,1,1,0,0,1,0,0,0,0,0,0, 0xc0,12, 0,10,0,1], res := #[], cap := 65536 } = Except.ok r :=
  query_decode_no_fault _ (by decide)

end Iodine.C05
