import IodineModel.Lemmas.CliQ3
/-
C08 (+ C10), lifted to whole sessions of the CLIENT: every query the client ever sends — handshake and tunnel phase, whatever
the network answers — is a legal, well-formed DNS query that carries what it should.

(This file continues Props/C08.lean; it is a separate module because it needs the client machines and Props/C01, C10.)

The model is the pair of step machines `Client.hstep` (the whole of `client_handshake()`, Client/Handshake.lean) and
`Client.cstep` (`client_tunnel()`, Client/Tunnel.lean + Loop.lean), whose `CEvent.query id type name` events are diffed against
the real client on every world run.  The specification side is below: `ClientCfgOk` (what iodine.c's `main()` has established),
the reachability predicates `HsOut` / `TunOut` (every output of every run, the inputs — answers, time-outs, tun frames — being
ARBITRARY), `QueryLegal`, `WellFormedQuery` (the strict parser of C10) and `ChunkCarries`.  Helper lemmas (one per C function)
are in Lemmas/CliQ1.lean (senders), CliQ2.lean (handshake), CliQ3.lean (tunnel).
-/
namespace Iodine.C08
open Iodine Iodine.Client

/-! ### Specification vocabulary -/

/-- the seven record types the tunnel uses: NULL, PRIVATE, TXT, SRV, MX, CNAME, A -/
def TunnelTypes : List Nat := [10, 65399, 16, 33, 15, 5, 1]

/-- What iodine.c's `main()` and `client_init()` have established when `client_handshake()` is called, in the range C08 is
stated for (`-M` is clamped to 10..255 by `main`; C08 needs 100..255 and 24 characters left after the domain):
* `topdomain` passed `check_topdomain(topdomain, 0, …)`;
* `hostname_maxlen = L`, `100 ≤ L ≤ 255`, `strlen(topdomain) + 24 ≤ L`;
* `do_qtype` is one of the seven types (`-T`) or still `T_UNSET` (= 65432: autodetection);
* `downenc` is `' '` or one of `T S U V R` (`-O`, `client_set_downenc`);
* the data-CMC counter of `send_chunk` is in range (it is a `static int` starting at 0 and stepping modulo 36), no packet is
  in flight (`client_init`: `outpkt.len = 0`) and `outpkt.data` holds bytes (it is zero-initialised static storage).
Nothing is needed about the password (`login_calculate` reads 32 bytes of a zero-padded buffer) nor about the user id: the
names are built from `userid & 15`-style masks and from `userid_char`, which `handshake_version` sets to a hex digit. -/
structure ClientCfgOk (L : Nat) (c : Cli) : Prop where
  topdomain : Common.checkTopdomain c.topdomain false = 0
  maxlen : c.hostnameMaxlen = (L : Int)
  limit : 100 ≤ L ∧ L ≤ 255
  room : c.topdomain.length + 24 ≤ L
  qtype : c.doQtype ∈ TunnelTypes ∨ c.doQtype = 65432
  downenc : c.downenc ∈ [32, 84, 83, 85, 86, 82]
  cmc : c.datacmc < 36
  idle : c.outpkt.len = 0
  pktbytes : ∀ b ∈ c.outpkt.data, b < 256

/-- an input of a step: answers and time-outs are unrestricted (hostile); a tun frame is a string of bytes, of any length -/
def ByteInput : CInput → Prop
  | .tun f => ∀ b ∈ f, b < 256
  | _ => True

instance : DecidablePred ByteInput := fun i => by cases i <;> unfold ByteInput <;> infer_instance

/-- every output (state, events, next `select`) of the handshake machine started by
`client_handshake(dns_fd, raw_mode, autodetect_frag_size, fragsize)` in the static state `c0`, for ANY inputs -/
inductive HsOut (c0 : Cli) (args : HsArgs) (pw dev : List Nat) : HOut → Prop where
  | start : HsOut c0 args pw dev (hsStart c0 args pw dev)
  | step {o : HOut} (inp : CInput) : HsOut c0 args pw dev o → HsOut c0 args pw dev (hstep o.1 inp)

/-- every output of the tunnel machine: `client_tunnel()` is entered when `client_handshake()` has returned 0, with the statics
the handshake left; then ANY inputs whose tun frames are bytes -/
inductive TunOut (c0 : Cli) (args : HsArgs) (pw dev : List Nat) : CState × List CEvent × Next → Prop where
  | start {o : HOut} : HsOut c0 args pw dev o → o.2.2 = .finished 0 → TunOut c0 args pw dev (startTunnel o.1.c)
  | step {o : CState × List CEvent × Next} (inp : CInput) : TunOut c0 args pw dev o → ByteInput inp →
      TunOut c0 args pw dev (cstep o.1 inp)

/-- the query `id ty name` is emitted somewhere in a session that starts from `c0` -/
def Emitted (c0 : Cli) (args : HsArgs) (pw dev : List Nat) (id ty : Nat) (name : List Nat) : Prop :=
  (∃ o, HsOut c0 args pw dev o ∧ CEvent.query id ty name ∈ o.2.1) ∨
  (∃ o, TunOut c0 args pw dev o ∧ CEvent.query id ty name ∈ o.2.1)

/-- what is guaranteed about one query (limit `L`, tunnel domain `td`) -/
structure QueryLegal (L : Nat) (td : List Nat) (id ty : Nat) (name : List Nat) : Prop where
  /-- a 16-bit id -/
  id_lt : id < 65536
  /-- one of the seven tunnel types (during autodetection: the type being probed) -/
  ty_ok : ty ∈ TunnelTypes
  /-- labels of 1..63 bytes without NUL, at most 253 characters (255 bytes on the wire) -/
  legal : C10.LegalName name
  /-- ends in `.topdomain`, at a label boundary … -/
  suffix : ∃ pre, name = pre ++ [46] ++ td
  /-- … where the server's `query_datalen` finds it -/
  datalen : Common.queryDatalen name td = some (name.length - td.length)
  /-- within `hostname_maxlen` (with the "2 safety" of C08) — EXCEPT the upstream codec probes (`z…`, `send_upenctest`),
  which ignore `hostname_maxlen`: up to 63 characters in front of the domain -/
  within : name.length + 2 ≤ L ∨ (name.head? = some 122 ∧ name.length ≤ td.length + 63)

/-- the datagram `dns_encode(…, QR_QUERY, …)` builds for `(id, ty, name)` in the client's 4096-byte buffer, with and without
the EDNS0 record, parses under the strict parser of C10 and echoes id, name and type -/
def WellFormedQuery (id ty : Nat) (name : List Nat) : Prop :=
  ∀ edns : Bool, ∃ pkt, Wire.DnsEncode.dnsEncodeQuery 4096 id ty edns name = .ok pkt ∧
    Wire.Strict.parseMsg pkt = some ⟨id, 0x0100, [(C10.labels name, ty, 1)], [], [], if edns then [C10.optRR] else []⟩

/-- The data query `name` carries the fragment `outpkt.data[offset .. offset + sentlen)` of the client state `c` (the state
at the end of the step that emitted it), and the header fields of that state.  `inb` is what `handle_null_request` copies: the
characters in front of the domain.  Guarded by "there is a byte to send": `offset < len`, and `offset` inside what is stored
of the packet — the same thing whenever the packet fits `outpkt.data` (`client_packet_stored`; `client_chunk_progress`). -/
def ChunkCarries (td : List Nat) (c : Cli) (name : List Nat) : Prop :=
  c.outpkt.offset < c.outpkt.len → c.outpkt.offset < c.outpkt.data.length →
    let inb := name.take (min (name.length - td.length) 512)
    let frag := (c.outpkt.data.drop c.outpkt.offset).take c.outpkt.sentlen
    1 ≤ c.outpkt.sentlen ∧ c.outpkt.offset + c.outpkt.sentlen ≤ c.outpkt.len ∧ frag.length = c.outpkt.sentlen ∧
    inb.getD 0 0 = c.useridChar ∧
    C01.upSeqOf inb = maskI c.outpkt.seqno 8 ∧ C01.upFragOf inb = maskI c.outpkt.fragment 16 ∧
    C01.lastOf inb = (c.outpkt.sentlen == c.outpkt.len - c.outpkt.offset) ∧
    C01.dnSeqOf inb = maskI c.inpkt.seqno 8 ∧ C01.dnFragOf inb = maskI c.inpkt.fragment 16 ∧
    Encoding.unpackData c.dataenc.codec 65536 (inb.drop 5) = frag

/-! ### Glue between the vocabulary and the lemma files -/

theorem tunnelTypes_iff (ty : Nat) : ty ∈ TunnelTypes ↔ CliQ.TType ty := by
  simp [TunnelTypes, CliQ.TType]

theorem byteInput_iff (inp : CInput) : ByteInput inp ↔ CliQ.ByteIn inp := by
  cases inp <;> exact Iff.rfl

theorem env_of_cfg {L : Nat} {c : Cli} (h : ClientCfgOk L c) : CliQ.Env L c.topdomain :=
  CliQ.env_of_valid L c.topdomain h.limit ((C17.check_topdomain_iff_spec _ _).1 h.topdomain) h.room

theorem startOk_of_cfg {L : Nat} {c : Cli} (h : ClientCfgOk L c) : CliQ.StartOk L c.topdomain c := by
  refine ⟨⟨rfl, h.maxlen, ?_, h.cmc, h.pktbytes, Or.inl h.idle⟩, ?_⟩
  · have := h.downenc
    simpa [CliQ.DownencOk] using this
  · rcases h.qtype with h | h
    · exact Or.inl ((tunnelTypes_iff _).1 h)
    · exact Or.inr h

theorem hsOut_good {L : Nat} {c0 : Cli} {args : HsArgs} {pw dev : List Nat} (hc : ClientCfgOk L c0) {o : HOut}
    (h : HsOut c0 args pw dev o) : CliQ.Good L c0.topdomain o := by
  induction h with
  | start => exact CliQ.good_hsStart (env_of_cfg hc) c0 args pw dev (startOk_of_cfg hc)
  | step inp _ ih => exact CliQ.good_hstep (env_of_cfg hc) _ inp ih.parked

theorem tunOut_good {L : Nat} {c0 : Cli} {args : HsArgs} {pw dev : List Nat} (hc : ClientCfgOk L c0)
    {o : CState × List CEvent × Next} (h : TunOut c0 args pw dev o) : CliQ.CGood L c0.topdomain o := by
  induction h with
  | start ho hfin => exact CliQ.startTunnel_good _ ((hsOut_good hc ho).fin hfin)
  | step inp _ hb ih => exact CliQ.cstep_good (env_of_cfg hc) _ inp ih.late ((byteInput_iff inp).1 hb)

theorem queryLegal_of_evOk {L : Nat} {td : List Nat} (E : CliQ.Env L td) {id ty : Nat} {name : List Nat}
    (h : CliQ.EvOk L td (.query id ty name)) : QueryLegal L td id ty name := by
  obtain ⟨h1, h2, h3⟩ := h
  refine ⟨h1, (tunnelTypes_iff ty).2 h2, h3.legal, h3.suffix, ?_, h3.within⟩
  obtain ⟨pre, hpre⟩ := h3.suffix
  have hlen : name.length - td.length = (pre ++ [46]).length := by
    rw [hpre]; simp only [List.length_append, List.length_cons, List.length_nil]; omega
  rw [hlen]
  exact (Common.queryDatalen_plain name td _ E.td_len.1 E.td_plain).mpr
    ⟨pre ++ [46], td, hpre, rfl, Or.inr (by simp), rfl⟩

/-! ### The properties -/

/-- **client_queries_legal_partial.**  Under `ClientCfgOk`, EVERY query event of EVERY run of the client — the whole handshake
(version, login, raw-mode ip request, type autodetection, EDNS0 check, codec tests and switches, lazy switch, fragment-size
probes) and the tunnel phase (data chunks, pings, the lazy-off sub-handshake), whatever the answers, time-outs and tun frames
are — has a 16-bit id, one of the seven tunnel types, a legal host name that ends in `.topdomain` where `query_datalen` finds
it, and a length of at most `hostname_maxlen - 2` — the latter with ONE exception, which is why this is `_partial`:

  the upstream codec probes of `handshake_upenc_autodetect` (`send_upenctest`: `z` + 3 CMC characters + a pattern of up to 58
  characters + `.topdomain`) are built without looking at `hostname_maxlen`; they have up to 63 characters in front of the
  domain.  The full-strength statement (`name.length + 2 ≤ L` for all queries) is FALSE for the model and for the C code:
  see `upenctest_exceeds_limit` below (`-M 100`, a 76-character domain: 118 characters).

No name is built from server-controlled data: the reply bytes only steer the control flow (and set `userid`, which enters
through `& 15`-style masks and the hex digit `userid_char`). -/
theorem client_queries_legal_partial (L : Nat) (c0 : Cli) (args : HsArgs) (pw dev : List Nat) (hc : ClientCfgOk L c0)
    (id ty : Nat) (name : List Nat) (h : Emitted c0 args pw dev id ty name) :
    QueryLegal L c0.topdomain id ty name := by
  rcases h with ⟨o, ho, hm⟩ | ⟨o, ho, hm⟩
  · exact queryLegal_of_evOk (env_of_cfg hc) ((hsOut_good hc ho).evs _ hm)
  · exact queryLegal_of_evOk (env_of_cfg hc) ((tunOut_good hc ho).evs _ hm)

/-- **client_queries_within_limit.**  Every query that is not an upstream codec probe respects `hostname_maxlen`. -/
theorem client_queries_within_limit (L : Nat) (c0 : Cli) (args : HsArgs) (pw dev : List Nat) (hc : ClientCfgOk L c0)
    (id ty : Nat) (name : List Nat) (h : Emitted c0 args pw dev id ty name) (hz : name.head? ≠ some 122) :
    name.length + 2 ≤ L := by
  rcases (client_queries_legal_partial L c0 args pw dev hc id ty name h).within with h | h
  · exact h
  · exact absurd h.1 hz

/-- **client_datagrams_wellformed.**  Hence the datagram `dns_encode` builds for every such query, with and without the
EDNS0 record, is a well-formed RFC 1035 query that carries exactly this id, name and type (C10 `query_wellformed_client`). -/
theorem client_datagrams_wellformed (L : Nat) (c0 : Cli) (args : HsArgs) (pw dev : List Nat) (hc : ClientCfgOk L c0)
    (id ty : Nat) (name : List Nat) (h : Emitted c0 args pw dev id ty name) : WellFormedQuery id ty name := by
  have hq := client_queries_legal_partial L c0 args pw dev hc id ty name h
  intro edns
  have hty : ty < 65536 := by
    have := hq.ty_ok
    simp only [TunnelTypes, List.mem_cons, List.not_mem_nil, or_false] at this
    omega
  exact C10.query_wellformed_client id ty edns name hq.id_lt hty hq.legal

/-- **client_chunk_carries_prefix.**  In every output of the tunnel machine, every query whose name starts with the user-id
character — a data chunk of `send_chunk` — carries, with respect to the client state `c` the step ends in:
`outpkt.data[offset .. offset + sentlen)` exactly (the server's `unpack_data` of the characters between the 5-character
header and the domain, under the negotiated codec, returns these bytes: C08 `hostname_ok`), `sentlen ≥ 1` (what
`build_hostname` reported; every acknowledged fragment makes progress), and the header the server's shifts and masks read back:
user-id character, upstream seqno / fragment / last flag, downstream ack seqno / fragment (Props/C01.lean `hop_lossless_up_at`).
The second guard of `ChunkCarries` (`offset` inside the stored bytes) follows from the first for every packet of at most 64 KiB
(`client_chunk_progress`); it matters only for a compressed image longer than `outpkt.data` (a 64 KiB tun frame that does not
compress), of which `tunnel_tun` stores the first 64 KiB only while `outpkt.len` is the whole length. -/
theorem client_chunk_carries_prefix (L : Nat) (c0 : Cli) (args : HsArgs) (pw dev : List Nat) (hc : ClientCfgOk L c0)
    (o : CState × List CEvent × Next) (ho : TunOut c0 args pw dev o) (id ty : Nat) (name : List Nat)
    (hm : CEvent.query id ty name ∈ o.2.1) (hn : name.getD 0 0 = o.1.c.useridChar) :
    ChunkCarries c0.topdomain o.1.c name := by
  have hg := tunOut_good hc ho
  have hcar := hg.chunk id ty name hm hn
  intro h1 h2
  have hne : outRest o.1.c.outpkt ≠ [] := by
    intro he
    have := congrArg List.length he
    simp only [outRest, List.length_drop, List.length_take, List.length_nil] at this
    omega
  obtain ⟨g1, g2, g3, g4, g5, g6, g7, g8, g9⟩ := hcar hne
  have hlen : (outRest o.1.c.outpkt).length = min o.1.c.outpkt.len o.1.c.outpkt.data.length - o.1.c.outpkt.offset := by
    simp only [outRest, List.length_drop, List.length_take]
  refine ⟨g1, by omega, ?_, g3, g4, g5, g6, g7, g8, g9⟩
  simp only [List.length_take, List.length_drop]
  omega

/-- the packet in flight is stored completely unless it is longer than `outpkt.data` (64 KiB) -/
theorem client_packet_stored (L : Nat) (c0 : Cli) (args : HsArgs) (pw dev : List Nat) (hc : ClientCfgOk L c0)
    (o : CState × List CEvent × Next) (ho : TunOut c0 args pw dev o) :
    o.1.c.outpkt.len = 0 ∨ o.1.c.outpkt.data.length = min o.1.c.outpkt.len 65536 :=
  (tunOut_good hc ho).late.1.1.pktlen

/-- **client_chunk_progress.**  For every packet that fits `outpkt.data` (every tun frame whose compressed image has at most
64 KiB): whenever `outpkt.len > outpkt.offset`, the data query just sent took at least one byte, and not more than there are. -/
theorem client_chunk_progress (L : Nat) (c0 : Cli) (args : HsArgs) (pw dev : List Nat) (hc : ClientCfgOk L c0)
    (o : CState × List CEvent × Next) (ho : TunOut c0 args pw dev o) (id ty : Nat) (name : List Nat)
    (hm : CEvent.query id ty name ∈ o.2.1) (hn : name.getD 0 0 = o.1.c.useridChar)
    (hfit : o.1.c.outpkt.len ≤ 65536) (hmore : o.1.c.outpkt.offset < o.1.c.outpkt.len) :
    1 ≤ o.1.c.outpkt.sentlen ∧ o.1.c.outpkt.offset + o.1.c.outpkt.sentlen ≤ o.1.c.outpkt.len := by
  have hst := client_packet_stored L c0 args pw dev hc o ho
  have h := client_chunk_carries_prefix L c0 args pw dev hc o ho id ty name hm hn hmore (by omega)
  exact ⟨h.1, h.2.1⟩

/-! ### Non-vacuity: concrete sessions -/

/-- the outputs of a handshake fed with `inps`, and of the tunnel phase after it -/
def hsRun (c0 : Cli) (args : HsArgs) (pw dev : List Nat) (inps : List CInput) : HOut :=
  inps.foldl (fun o i => hstep o.1 i) (hsStart c0 args pw dev)

def tunRun (oh : HOut) (inps : List CInput) : CState × List CEvent × Next :=
  inps.foldl (fun o i => cstep o.1 i) (startTunnel oh.1.c)

theorem hsOut_fold (c0 : Cli) (args : HsArgs) (pw dev : List Nat) (inps : List CInput) :
    ∀ o0, HsOut c0 args pw dev o0 → HsOut c0 args pw dev (inps.foldl (fun o i => hstep o.1 i) o0) := by
  induction inps with
  | nil => exact fun _ h => h
  | cons i r ih => exact fun o0 h => ih _ (HsOut.step i h)

theorem hsOut_run (c0 : Cli) (args : HsArgs) (pw dev : List Nat) (inps : List CInput) :
    HsOut c0 args pw dev (hsRun c0 args pw dev inps) :=
  hsOut_fold c0 args pw dev inps _ HsOut.start

theorem tunOut_fold (c0 : Cli) (args : HsArgs) (pw dev : List Nat) (inps : List CInput) (hb : ∀ i ∈ inps, ByteInput i) :
    ∀ o0, TunOut c0 args pw dev o0 → TunOut c0 args pw dev (inps.foldl (fun o i => cstep o.1 i) o0) := by
  induction inps with
  | nil => exact fun _ h => h
  | cons i r ih =>
    exact fun o0 h => ih (fun j hj => hb j (List.mem_cons_of_mem _ hj)) _ (TunOut.step i h (hb i List.mem_cons_self))

theorem tunOut_run (c0 : Cli) (args : HsArgs) (pw dev : List Nat) (hin tin : List CInput)
    (hfin : (hsRun c0 args pw dev hin).2.2 = .finished 0) (hb : ∀ i ∈ tin, ByteInput i) :
    TunOut c0 args pw dev (tunRun (hsRun c0 args pw dev hin) tin) :=
  tunOut_fold c0 args pw dev tin hb _ (TunOut.start (hsOut_run c0 args pw dev hin) hfin)

/-- a 76-character domain `a{35}.b{36}.com` and `-M 100`: exactly 24 characters left; query type NULL forced -/
def exTd76 : List Nat := List.replicate 35 97 ++ [46] ++ List.replicate 36 98 ++ [46, 99, 111, 109]

def exCli100 : Cli := { clientInit Cli.boot 4711 815 with topdomain := exTd76, hostnameMaxlen := 100, doQtype := 10 }

/-- the usual configuration: `t.example.com`, `hostname_maxlen` 255, type NULL forced -/
def exCli : Cli := { clientInit Cli.boot 4711 815 with topdomain := ascii "t.example.com", doQtype := 10 }

/-- the configurations satisfy `ClientCfgOk` -/
example : ClientCfgOk 100 exCli100 :=
  ⟨by decide +kernel, rfl, by omega, by decide, by decide, by decide, by decide, rfl, by decide⟩
example : ClientCfgOk 255 exCli :=
  ⟨by decide +kernel, rfl, by omega, by decide, by decide, by decide, by decide, rfl, by decide⟩

/-- a VACK reply (seed 7, user id 3) to the first version query and a login reply -/
def exReplies : List CInput :=
  [.rq ⟨9, 8542, 10, 0, 118, ascii "VACK" ++ [0, 0, 0, 7, 3]⟩,
   .rq ⟨25, 16269, 10, 0, 108, ascii "10.0.0.1-10.0.0.2-1130-27"⟩]

/-- an error reply (NXDOMAIN) to the query with id `id` whose name starts with `name0` -/
def exErr (id name0 : Nat) : CInput := .rq ⟨-1, id, 10, 3, name0, []⟩

/-- the first upstream codec probe under `-M 100`: `z` + CMC + pat128a + `.` + the domain, 118 characters -/
def exZName : List Nat := [122, 101, 116, 107] ++ Gen.pat128a ++ [46] ++ exTd76

set_option maxRecDepth 100000 in
theorem exZ_mem : CEvent.query 31723 10 exZName ∈
    (hsRun exCli100 ⟨false, true, 0⟩ [] [] (exReplies ++ [exErr 23996 121])).2.1 := by decide +kernel

/-- **upenctest_exceeds_limit** — the full-strength length bound is FALSE: with `hostname_maxlen = 100` and a 76-character
domain (a configuration `main()` accepts and C08 covers), after the version and login replies and a failed EDNS0 probe the
client sends the upstream codec probe `exZName`: 118 characters > 100.  (Confirmed on the real client: see the report.) -/
theorem upenctest_exceeds_limit :
    Emitted exCli100 ⟨false, true, 0⟩ [] [] 31723 10 exZName ∧ exZName.length = 118 ∧ ¬ exZName.length + 2 ≤ 100 :=
  ⟨Or.inl ⟨_, hsOut_run exCli100 ⟨false, true, 0⟩ [] [] (exReplies ++ [exErr 23996 121]), exZ_mem⟩,
   by decide +kernel, by decide +kernel⟩

set_option maxRecDepth 100000 in
/-- non-vacuity of `client_queries_legal_partial` / `client_datagrams_wellformed` in the handshake: the version query of
`exCli` is emitted … -/
theorem exVersion_emitted : Emitted exCli ⟨false, false, 1200⟩ [] [] 8542 10 (ascii "vaaaakaqsm2.t.example.com") :=
  Or.inl ⟨_, HsOut.start, by decide +kernel⟩

/-- … and it is what the theorems say -/
example : WellFormedQuery 8542 10 (ascii "vaaaakaqsm2.t.example.com") :=
  client_datagrams_wellformed 255 exCli ⟨false, false, 1200⟩ [] []
    ⟨by decide +kernel, rfl, by omega, by decide, by decide, by decide, by decide, rfl, by decide⟩
    8542 10 (ascii "vaaaakaqsm2.t.example.com") exVersion_emitted

/-- a whole handshake of `exCli`: version and login replies, error replies to the EDNS0 probe and to the three upstream codec
probes it leads to (Base32 stays), an acknowledgement of `set fragsize 1200`: `client_handshake` returns 0 -/
def exHsInputs : List CInput :=
  exReplies ++ [exErr 23996 121, exErr 31723 122, exErr 39450 122, exErr 47177 122, .rq ⟨2, 54904, 10, 0, 110, [4, 176]⟩]

def exOh : HOut := hsRun exCli ⟨false, false, 1200⟩ [] [] exHsInputs

/-- the statics that handshake leaves: user 3 (`userid_char = '3'`), Base32, type NULL, immediate mode -/
def exCliT : Cli :=
  { exCli with randSeed := 4718, userid := 3, useridChar := 51, useridChar2 := 51, chunkid := 54904, chunkidPrev := 47177,
               chunkidPrev2 := 39450 }

set_option maxRecDepth 100000 in
theorem exOh_fin : exOh.2.2 = .finished 0 := by decide +kernel

set_option maxRecDepth 100000 in
theorem exOh_state : exOh.1.c = exCliT := by decide +kernel

/-- a 20-byte tun frame -/
def exFrame : List Nat := [0, 0, 8, 0, 69, 0, 0, 20, 1, 2, 3, 4, 5, 6, 7, 8, 9, 10, 200, 255]

/-- the tunnel starts on these statics and a tun frame arrives -/
def exOt : CState × List CEvent × Next := cstep (startTunnel exCliT).1 (.tun exFrame)

theorem exOt_out : TunOut exCli ⟨false, false, 1200⟩ [] [] exOt := by
  have h0 : TunOut exCli ⟨false, false, 1200⟩ [] [] (startTunnel exOh.1.c) :=
    TunOut.start (hsOut_run exCli ⟨false, false, 1200⟩ [] [] exHsInputs) exOh_fin
  rw [exOh_state] at h0
  exact TunOut.step (.tun exFrame) h0 (by decide)

set_option maxRecDepth 100000 in
/-- non-vacuity of `client_chunk_carries_prefix`: the step emits the data query
`3eabaliaaacaaiuaaafabaibqibiga2eascwi52.t.example.com` (user 3), the state it ends in has the 21-byte image in flight with
`sentlen = 21`, and the guards of `ChunkCarries` hold -/
theorem exOt_facts :
    CEvent.query 62631 10 (ascii "3eabaliaaacaaiuaaafabaibqibiga2eascwi52.t.example.com") ∈ exOt.2.1 ∧
    (ascii "3eabaliaaacaaiuaaafabaibqibiga2eascwi52.t.example.com").getD 0 0 = exOt.1.c.useridChar ∧
    exOt.1.c.outpkt = ⟨21, 21, 0, 0x5a :: exFrame, 1, 0⟩ := by
  decide +kernel

theorem exCfg : ClientCfgOk 255 exCli :=
  ⟨by decide +kernel, rfl, by omega, by decide, by decide, by decide, by decide, rfl, by decide⟩

example : ChunkCarries exCli.topdomain exOt.1.c (ascii "3eabaliaaacaaiuaaafabaibqibiga2eascwi52.t.example.com") :=
  client_chunk_carries_prefix 255 exCli ⟨false, false, 1200⟩ [] [] exCfg exOt exOt_out 62631 10
    (ascii "3eabaliaaacaaiuaaafabaibqibiga2eascwi52.t.example.com") exOt_facts.1 exOt_facts.2.1

end Iodine.C08
