import IodineModel.Props.C10Session
import IodineModel.Props.C18
import IodineModel.Props.C19Main
/-
C10 (and the other whole-session theorems of the server), continued: what `main()` guarantees.

The session theorems of Props/C10Session.lean (`session_datagrams_wellformed`, `session_nsa_wellformed`, …) assume `ConfigOk cfg`
"for every configuration that passes `main()`'s checks".  That predicate was written by reading `main()` of src/iodined.c; here
it is PROVED of the model of `main()` (Server/Options.lean: `getopt`, `atoi`, `inet_addr`, the validation sequence, the start-up
actions; tied to the real `main()` by the `main` op of harness/h_srv.c): for EVERY argument vector and EVERY environment (password
variable, typed line, results of every operating-system call), the process either ends without calling `tunnel()` — `exit`,
`usage()`, `return 1` — or calls it with globals that satisfy `ConfigOk`, C18's hypotheses (netmask 8..30, a 32-bit address,
`created_users` = length of the pool `init_users` built) and C19's (the zero-padded password block).
-/
namespace Iodine.C10
open Iodine Iodine.Getopt Iodine.Server.Options

/-- **server_main_runs_with_config.**  `tunnel()` is reached only through the end of the validation: outcome `run` ⇒ the globals
are set (`final = some _`). -/
theorem server_main_runs_with_config (env : Env) (argv : List (List Nat)) (c : Int)
    (h : (serverMain env argv).outcome = .run c) : ∃ f, (serverMain env argv).final = some f :=
  OptL.serverMain_run env argv c h

/-- **server_main_establishes_ConfigOk.**  For every argument vector and environment, the configuration `tunnel()` is started with
satisfies `ConfigOk`: `0 < my_mtu < 2^31`, `8 ≤ netmask ≤ 30`, `check_topdomain(topdomain, 1) == 0`. -/
theorem server_main_establishes_ConfigOk (env : Env) (argv : List (List Nat)) (f : Final)
    (h : (serverMain env argv).final = some f) : ConfigOk f.toConfig := by
  obtain ⟨o, v, evs, v4, v6, ho, hv, hf⟩ := OptL.serverMain_final env argv f h
  have hi := OptL.srv_optLoop_inv _ _ o none OptL.sinv_init ho
  have hval := OptL.validate_ok env o _ v evs hv
  subst hf
  have ho' : v.o = o := hval.o_eq
  refine ⟨?_, ?_, ?_, ?_, ?_⟩
  · show 0 < v.o.mtu
    rw [ho']; exact hval.mtu
  · show v.o.mtu < 2 ^ 31
    rw [ho']; exact hi.mtu
  · show 8 ≤ v.netmask.toNat
    have := hval.nm; omega
  · show v.netmask.toNat ≤ 30
    have := hval.nm; omega
  · exact hval.td

/-- **server_main_establishes_session_hypotheses.**  Everything the whole-session theorems of C10, C18 and C19 assume about the
configuration, at once: `ConfigOk`; the tunnel address is a 32-bit value other than `INADDR_NONE`, the netmask has 8..30 bits,
`users[]` is what `init_users(my_ip, netmask)` makes of them and `created_users` its length — so `C18.pool_size`, `pool_in_subnet`,
`pool_excludes`, `pool_distinct` apply —; `ns_ip ≠ INADDR_NONE`; and the password block is the effective password cut at 32
bytes and zero padded (`C19.server_password_block`). -/
theorem server_main_establishes_session_hypotheses (env : Env) (argv : List (List Nat)) (hc : C19.CStrings argv) (f : Final)
    (h : (serverMain env argv).final = some f) :
    ConfigOk f.toConfig ∧
    f.myIp < 2 ^ 32 ∧ f.myIp ≠ 0xffffffff ∧ 8 ≤ f.netmask ∧ f.netmask ≤ 30 ∧
    f.pool = Users.initUsers f.myIp f.netmask.toNat ∧ f.createdUsers = f.pool.length ∧
    f.createdUsers = min Gen.USERS (2 ^ (32 - f.netmask.toNat) - 3) ∧ f.pool.Nodup ∧
    (∀ ip ∈ f.pool, C18.net ip f.netmask.toNat = C18.net f.myIp f.netmask.toNat ∧ ip ≠ f.myIp ∧
      ip ≠ C18.net f.myIp f.netmask.toNat ∧ ip ≠ C18.bcast f.myIp f.netmask.toNat) ∧
    f.nsIp ≠ 0xffffffff ∧
    f.toConfig.password = C19.pad32 (C19.effectivePassword (getoptAll optstring argv).1 env.envPass env.typed) := by
  have hcfg := server_main_establishes_ConfigOk env argv f h
  have hpw := C19.server_password_block env argv hc f h
  obtain ⟨o, v, evs, v4, v6, ho, hv, hf⟩ := OptL.serverMain_final env argv f h
  have hval := OptL.validate_ok env o _ v evs hv
  have hnm := hval.nm
  have hip : v.myIp < 2 ^ 32 := by have := hval.ip_le; omega
  have h8 : 8 ≤ v.netmask.toNat := by omega
  have h30 : v.netmask.toNat ≤ 30 := by omega
  refine ⟨hcfg, ?_⟩
  subst hf
  refine ⟨hip, hval.ip, hnm.1, hnm.2, rfl, rfl, ?_, ?_, ?_, hval.ns, ?_⟩
  · exact C18.pool_size v.myIp v.netmask.toNat h8 h30 hip
  · exact C18.pool_distinct v.myIp v.netmask.toNat h8 h30 hip
  · intro ip hmem
    have h1 := C18.pool_in_subnet v.myIp v.netmask.toNat h8 h30 hip ip hmem
    have h2 := C18.pool_excludes v.myIp v.netmask.toNat h8 h30 hip ip hmem
    exact ⟨h1.1, h2.1, h2.2.1, h2.2.2⟩
  · show (finalOf v v4 v6).password.take 32 = _
    rw [hpw, List.take_append_of_le_length (by simp [C19.pad32_length])]
    exact List.take_of_length_le (by simp [C19.pad32_length])

/-! ### Non-vacuity: a command line that reaches `tunnel()`, and the exits -/

/-- `iodined -f -c -m 1200 -P hunter2 10.9.8.1/28 *.t.example.com` -/
def exArgvMain : List (List Nat) :=
  [ascii "iodined", ascii "-fc", ascii "-m", ascii "1200", ascii "-Phunter2", ascii "10.9.8.1/28", ascii "*.t.example.com"]

example : (serverMain C19.exEnv exArgvMain).outcome = .run 0 := by decide +kernel
example : ((serverMain C19.exEnv exArgvMain).final.map fun f => [f.mtu, f.netmask]) = some [1200, 28] ∧
    ((serverMain C19.exEnv exArgvMain).final.map fun f => [f.myIp, f.createdUsers]) = some [0x0a090801, 13] ∧
    ((serverMain C19.exEnv exArgvMain).final.map fun f => f.topdomain) = some (ascii "*.t.example.com") ∧
    ((serverMain C19.exEnv exArgvMain).final.map fun f => f.checkIp) = some false := by decide +kernel

example (f : Final) (h : (serverMain C19.exEnv exArgvMain).final = some f) : ConfigOk f.toConfig :=
  server_main_establishes_ConfigOk _ _ f h

-- the exits: a netmask of 31 bits, an mtu of 0, `atoi` overflow (`-m 4294967296` is 0), a top domain of 129 characters,
-- `255.255.255.255` as tunnel address (= INADDR_NONE), a missing argument
example : (serverMain C19.exEnv [ascii "iodined", ascii "-Px", ascii "10.0.0.1/31", ascii "t.co"]).outcome = .exit 2 "usage:netmask" ∧
    (serverMain C19.exEnv [ascii "iodined", ascii "-Px", ascii "-m0", ascii "10.0.0.1", ascii "t.co"]).outcome = .exit 2 "usage:mtu" ∧
    (serverMain C19.exEnv [ascii "iodined", ascii "-Px", ascii "-m", ascii "4294967296", ascii "10.0.0.1", ascii "t.co"]).outcome
      = .exit 2 "usage:mtu" ∧
    (serverMain C19.exEnv [ascii "iodined", ascii "-Px", ascii "10.0.0.1", List.replicate 63 97 ++ [46] ++ List.replicate 65 98]).outcome
      = .exit 2 "usage:topdomain" ∧
    (serverMain C19.exEnv [ascii "iodined", ascii "-Px", ascii "255.255.255.255", ascii "t.co"]).outcome = .exit 2 "usage:myip" ∧
    (serverMain C19.exEnv [ascii "iodined", ascii "10.0.0.1", ascii "t.co", ascii "-P"]).outcome = .exit 2 "usage:getopt" := by
  decide +kernel

-- accepted although hardly meant: `iodined -Px 60 t.co` (inet_addr reads "60" as 0.0.0.60), `10.0.0.1/+24x`, `-m 2147483647`
example : ((serverMain C19.exEnv [ascii "iodined", ascii "-Px", ascii "60", ascii "t.co"]).final.map (·.myIp)) = some 60 ∧
    ((serverMain C19.exEnv [ascii "iodined", ascii "-Px", ascii "10.0.0.1/+24x", ascii "t.co"]).final.map (·.netmask)) = some 24 ∧
    ((serverMain C19.exEnv [ascii "iodined", ascii "-Px", ascii "-m", ascii "2147483647", ascii "10.0.0.1", ascii "t.co"]).final.map (·.mtu))
      = some 2147483647 := by
  decide +kernel

end Iodine.C10
