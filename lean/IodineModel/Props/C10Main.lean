import IodineModel.Props.C10Session
import IodineModel.Props.C10Session2
import IodineModel.Lemmas.OptTop
import IodineModel.Props.C18
import IodineModel.Props.C19Main
/-
C10 (and the other whole-session theorems of the server), continued: what `main()` guarantees.

The session theorems of Props/C10Session.lean (`session_datagrams_wellformed`, `session_nsa_wellformed`, …) assume `ConfigOk cfg`
"for every configuration that passes `main()`'s checks".  That predicate was written by reading `main()` of src/iodined.c; here
it is PROVED of the model of `main()` (Server/Options.lean: `getopt`, `atoi`, `inet_addr`, the validation sequence, the start-up
actions; tied to the real `main()` by the `main` op of harness/h_srv.c): for EVERY argument vector and EVERY environment (password
variable, typed line, results of every operating-system call), the process either ends without calling `tunnel()` — `exit`,
`usage()`, `return 1` — or calls it with globals that satisfy `ConfigOk`, C18's hypotheses (netmask 8..30, a 32-bit address,
`created_users` = length of the pool `init_users` built) and C19's (the zero-padded password block).
-/
namespace Iodine.C10
open Iodine Iodine.Getopt Iodine.Server.Options

/-- **server_main_runs_with_config.**  `tunnel()` is reached only through the end of the validation: outcome `run` ⇒ the globals
are set (`final = some _`). -/
theorem server_main_runs_with_config (env : Env) (argv : List (List Nat)) (c : Int)
    (h : (serverMain env argv).outcome = .run c) : ∃ f, (serverMain env argv).final = some f :=
  OptL.serverMain_run env argv c h

/-- **server_main_establishes_ConfigOk.**  For every argument vector and environment, the configuration `tunnel()` is started with
satisfies `ConfigOk`: `0 < my_mtu < 2^31`, `8 ≤ netmask ≤ 30`, `check_topdomain(topdomain, 1) == 0`. -/
theorem server_main_establishes_ConfigOk (env : Env) (argv : List (List Nat)) (f : Final)
    (h : (serverMain env argv).final = some f) : ConfigOk f.toConfig := by
  obtain ⟨o, v, evs, v4, v6, ho, hv, hf⟩ := OptL.serverMain_final env argv f h
  have hi := OptL.srv_optLoop_inv _ _ o none OptL.sinv_init ho
  have hval := OptL.validate_ok env o _ v evs hv
  subst hf
  have ho' : v.o = o := hval.o_eq
  refine ⟨?_, ?_, ?_, ?_, ?_⟩
  · show 0 < v.o.mtu
    rw [ho']; exact hval.mtu
  · show v.o.mtu < 2 ^ 31
    rw [ho']; exact hi.mtu
  · show 8 ≤ v.netmask.toNat
    have := hval.nm; omega
  · show v.netmask.toNat ≤ 30
    have := hval.nm; omega
  · exact hval.td

/-- **server_main_establishes_session_hypotheses.**  Everything the whole-session theorems of C10, C18 and C19 assume about the
configuration, at once: `ConfigOk`; the tunnel address is a 32-bit value other than `INADDR_NONE`, the netmask has 8..30 bits,
`users[]` is what `init_users(my_ip, netmask)` makes of them and `created_users` its length — so `C18.pool_size`, `pool_in_subnet`,
`pool_excludes`, `pool_distinct` apply —; `ns_ip ≠ INADDR_NONE`; and the password block is the effective password cut at 32
bytes and zero padded (`C19.server_password_block`). -/
theorem server_main_establishes_session_hypotheses (env : Env) (argv : List (List Nat)) (hc : C19.CStrings argv) (f : Final)
    (h : (serverMain env argv).final = some f) :
    ConfigOk f.toConfig ∧
    f.myIp < 2 ^ 32 ∧ f.myIp ≠ 0xffffffff ∧ 8 ≤ f.netmask ∧ f.netmask ≤ 30 ∧
    f.pool = Users.initUsers f.myIp f.netmask.toNat ∧ f.createdUsers = f.pool.length ∧
    f.createdUsers = min Gen.USERS (2 ^ (32 - f.netmask.toNat) - 3) ∧ f.pool.Nodup ∧
    (∀ ip ∈ f.pool, C18.net ip f.netmask.toNat = C18.net f.myIp f.netmask.toNat ∧ ip ≠ f.myIp ∧
      ip ≠ C18.net f.myIp f.netmask.toNat ∧ ip ≠ C18.bcast f.myIp f.netmask.toNat) ∧
    f.nsIp ≠ 0xffffffff ∧
    f.toConfig.password = C19.pad32 (C19.effectivePassword (getoptAll optstring argv).1 env.envPass env.typed) := by
  have hcfg := server_main_establishes_ConfigOk env argv f h
  have hpw := C19.server_password_block env argv hc f h
  obtain ⟨o, v, evs, v4, v6, ho, hv, hf⟩ := OptL.serverMain_final env argv f h
  have hval := OptL.validate_ok env o _ v evs hv
  have hnm := hval.nm
  have hip : v.myIp < 2 ^ 32 := by have := hval.ip_le; omega
  have h8 : 8 ≤ v.netmask.toNat := by omega
  have h30 : v.netmask.toNat ≤ 30 := by omega
  refine ⟨hcfg, ?_⟩
  subst hf
  refine ⟨hip, hval.ip, hnm.1, hnm.2, rfl, rfl, ?_, ?_, ?_, hval.ns, ?_⟩
  · exact C18.pool_size v.myIp v.netmask.toNat h8 h30 hip
  · exact C18.pool_distinct v.myIp v.netmask.toNat h8 h30 hip
  · intro ip hmem
    have h1 := C18.pool_in_subnet v.myIp v.netmask.toNat h8 h30 hip ip hmem
    have h2 := C18.pool_excludes v.myIp v.netmask.toNat h8 h30 hip ip hmem
    exact ⟨h1.1, h2.1, h2.2.1, h2.2.2⟩
  · show (finalOf v v4 v6).password.take 32 = _
    rw [hpw, List.take_append_of_le_length (by simp [C19.pad32_length])]
    exact List.take_of_length_le (by simp [C19.pad32_length])

/-! ### Non-vacuity: a command line that reaches `tunnel()`, and the exits -/

/-- `iodined -f -c -m 1200 -P hunter2 10.9.8.1/28 *.t.example.com` -/
def exArgvMain : List (List Nat) :=
  [ascii "iodined", ascii "-fc", ascii "-m", ascii "1200", ascii "-Phunter2", ascii "10.9.8.1/28", ascii "*.t.example.com"]

example : (serverMain C19.exEnv exArgvMain).outcome = .run 0 := by decide +kernel
example : ((serverMain C19.exEnv exArgvMain).final.map fun f => [f.mtu, f.netmask]) = some [1200, 28] ∧
    ((serverMain C19.exEnv exArgvMain).final.map fun f => [f.myIp, f.createdUsers]) = some [0x0a090801, 13] ∧
    ((serverMain C19.exEnv exArgvMain).final.map fun f => f.topdomain) = some (ascii "*.t.example.com") ∧
    ((serverMain C19.exEnv exArgvMain).final.map fun f => f.checkIp) = some false := by decide +kernel

example (f : Final) (h : (serverMain C19.exEnv exArgvMain).final = some f) : ConfigOk f.toConfig :=
  server_main_establishes_ConfigOk _ _ f h

-- the exits: a netmask of 31 bits, an mtu of 0, `atoi` overflow (`-m 4294967296` is 0), a top domain of 129 characters,
-- `255.255.255.255` as tunnel address (= INADDR_NONE), a missing argument
example : (serverMain C19.exEnv [ascii "iodined", ascii "-Px", ascii "10.0.0.1/31", ascii "t.co"]).outcome = .exit 2 "usage:netmask" ∧
    (serverMain C19.exEnv [ascii "iodined", ascii "-Px", ascii "-m0", ascii "10.0.0.1", ascii "t.co"]).outcome = .exit 2 "usage:mtu" ∧
    (serverMain C19.exEnv [ascii "iodined", ascii "-Px", ascii "-m", ascii "4294967296", ascii "10.0.0.1", ascii "t.co"]).outcome
      = .exit 2 "usage:mtu" ∧
    (serverMain C19.exEnv [ascii "iodined", ascii "-Px", ascii "10.0.0.1", List.replicate 63 97 ++ [46] ++ List.replicate 65 98]).outcome
      = .exit 2 "usage:topdomain" ∧
    (serverMain C19.exEnv [ascii "iodined", ascii "-Px", ascii "255.255.255.255", ascii "t.co"]).outcome = .exit 2 "usage:myip" ∧
    (serverMain C19.exEnv [ascii "iodined", ascii "10.0.0.1", ascii "t.co", ascii "-P"]).outcome = .exit 2 "usage:getopt" := by
  decide +kernel

-- accepted although hardly meant: `iodined -Px 60 t.co` (inet_addr reads "60" as 0.0.0.60), `10.0.0.1/+24x`, `-m 2147483647`
example : ((serverMain C19.exEnv [ascii "iodined", ascii "-Px", ascii "60", ascii "t.co"]).final.map (·.myIp)) = some 60 ∧
    ((serverMain C19.exEnv [ascii "iodined", ascii "-Px", ascii "10.0.0.1/+24x", ascii "t.co"]).final.map (·.netmask)) = some 24 ∧
    ((serverMain C19.exEnv [ascii "iodined", ascii "-Px", ascii "-m", ascii "2147483647", ascii "10.0.0.1", ascii "t.co"]).final.map (·.mtu))
      = some 2147483647 := by
  decide +kernel

/-! ### From `main()` to the session machine (phase 2): no configuration hypothesis left -/

open Iodine.Server Iodine.Wire Iodine.Wire.Strict

/-- **server_main_starts_session_machine.**  The state in which `tunnel()` is entered — the globals `main()` has set (`check_ip`,
the 32 password bytes, `my_ip`, `netmask`, `topdomain`, `my_mtu`, `ns_ip`, `bind_port` if forwarding is on, `created_users`), `users[]`
as `init_users` leaves the `calloc`ed array, the forward ring after `fw_query_init()`, `td1 = td2 = 0` — is EXACTLY `bstart cfg rnd`
(and `Server.start cfg rnd`) for `cfg = f.cfg dest4 dest6`.
* `rnd`: `main()` calls `srand(time(NULL))` and draws nothing; `rnd` is the stream libc's `rand()` will deliver for that seed.  The
  theorems hold for every stream.
* `dest4/dest6`: the local address `recvmsg` reports for a datagram; the session model keeps it in the configuration.
* the clock: `start` stores 1000 in `now`; `start_clock_irrelevant` shows that the value stored at start-up is never looked at.
Tied to the code: the `main` op of h_srv prints every slot of `users[]` (all fields, inactive slots included) and a probe of the
forward ring after the real `main()`; the driver prints `Final.users` / `Final.fw` with the digest function of the session driver. -/
theorem server_main_starts_session_machine (env : Env) (argv : List (List Nat)) (f : Final) (h : Top.Starts env argv f)
    (rnd : List Nat) (dest4 dest6 : Nat) :
    Top.bentry f rnd dest4 dest6 = bstart (f.cfg dest4 dest6) rnd ∧ Top.entry f rnd dest4 dest6 = Server.start (f.cfg dest4 dest6) rnd :=
  ⟨OptL.bentry_eq_bstart h rnd dest4 dest6, OptL.entry_eq_start h rnd dest4 dest6⟩

/-- **start_clock_irrelevant.**  Whatever time the process is started at: its first iteration (and hence every later one) is that of
`Server.start`. -/
theorem start_clock_irrelevant (cfg : Config) (rnd : List Nat) (t : Nat) (inp : Input) (now' : Nat) :
    iteration { Server.start cfg rnd with now := t } inp now' = iteration (Server.start cfg rnd) inp now' :=
  OptL.start_clock_irrelevant cfg rnd t inp now'

/-- **configOk_from_main.**  `ConfigOk` for the configuration of the running process, whatever the local addresses are. -/
theorem configOk_from_main {env : Env} {argv : List (List Nat)} {f : Final} (h : Top.Starts env argv f) (d4 d6 : Nat) :
    ConfigOk (f.cfg d4 d6) := server_main_establishes_ConfigOk env argv f h

/-- **session_datagrams_wellformed_from_main.**  For every command line and environment with which iodined reaches `tunnel()`; every
state `b` the process then reaches through ARBITRARY inputs made of octets whose question labels contain no '.' or NUL (`PlainReachable`,
from `bentry = bstart`), every further such input and every datagram `tx dst bytes` it sends through `write_dns`: a well-formed RFC 1035
response carrying the id, question name and type of an `ans` event of this iteration.  The `ConfigOk` hypothesis of
`session_datagrams_wellformed_plain` is gone. -/
theorem session_datagrams_wellformed_from_main (env : Env) (argv : List (List Nat)) (f : Final) (h : Top.Starts env argv f)
    (d4 d6 : Nat) (b : BSrv) (hr : PlainReachable (f.cfg d4 d6) b)
    (inp : BInput) (now' : Nat) (hb : ByteDgram inp) (hp : PlainDgram inp) (dst : Addr) (bytes : List Nat)
    (htx : BEvent.tx dst bytes ∈ (biteration b inp now').2.1) :
    ∃ id ty dn name data tag,
      Event.ans dst id ty dn name data tag ∈ out b.srv ⟨toInput b.srv inp, now'⟩ ∧
      id < 65536 ∧ LegalName name ∧ ty ∈ TunnelTypes ∧ WellFormedAnswerTo id ty name bytes :=
  session_datagrams_wellformed_plain _ (configOk_from_main h d4 d6) b hr inp now' hb hp dst bytes htx

/-- the start of such runs: the state `main()` leaves -/
theorem plainReachable_bentry {env : Env} {argv : List (List Nat)} {f : Final} (h : Top.Starts env argv f) (rnd : List Nat)
    (d4 d6 : Nat) : PlainReachable (f.cfg d4 d6) (Top.bentry f rnd d4 d6) := by
  rw [OptL.bentry_eq_bstart h]; exact .init rnd

/-- **session_nsa_wellformed_from_main.**  Likewise for the NS and A responses. -/
theorem session_nsa_wellformed_from_main (env : Env) (argv : List (List Nat)) (f : Final) (h : Top.Starts env argv f)
    (d4 d6 : Nat) (b : BSrv) (hr : PlainReachable (f.cfg d4 d6) b)
    (inp : BInput) (now' : Nat) (hb : ByteDgram inp) (hp : PlainDgram inp) (dst : Addr) (bytes : List Nat)
    (hnsa : BEvent.nsa dst bytes ∈ (biteration b inp now').2.1) :
    ∃ q, toInput b.srv inp = .q q ∧ Event.nsa dst ∈ out b.srv ⟨toInput b.srv inp, now'⟩ ∧
      q.id < 65536 ∧ LegalName q.name ∧
      (∀ src dg, inp = .dgram src dg → labels q.name = questionLabels dg) ∧
      ∃ m, parseMsg bytes = some m ∧ m.id = q.id ∧ m.flags = 0x8400 ∧ m.qd = [(labels q.name, q.type, 1)] ∧
        m.an.length = 1 ∧ (∀ r ∈ m.an, r.owner = labels q.name ∧ r.type = q.type ∧ r.cls = 1) ∧ m.ns = [] :=
  session_nsa_wellformed_plain _ (configOk_from_main h d4 d6) b hr inp now' hb hp dst bytes hnsa

/-- **session_answer_echoes_received_query_from_main.**  For every command line and environment with which iodined reaches
`tunnel()`, every run `l` on ANY inputs and one more iteration: every `write_dns` goes to the sender of a query with exactly this id,
name and type that `read_dns` decoded from a datagram of this run.  No hypothesis at all. -/
theorem session_answer_echoes_received_query_from_main (env : Env) (argv : List (List Nat)) (f : Final) (h : Top.Starts env argv f)
    (rnd : List Nat) (d4 d6 : Nat) (l : List (BInput × Nat)) (inp : BInput) (now' : Nat)
    (dst : Addr) (id ty dn : Nat) (name data : List Nat) (tag : Tag)
    (he : Event.ans dst id ty dn name data tag ∈
      out (brun (Top.bentry f rnd d4 d6) l).srv ⟨toInput (brun (Top.bentry f rnd d4 d6) l).srv inp, now'⟩) :
    ∃ (src : Addr) (bytes : List Nat) (n : Nat) (b' : BSrv) (q : Query),
      (BInput.dgram src bytes, n) ∈ l ++ [(inp, now')] ∧ decodeInput b'.srv src bytes = .q q ∧
      q.from_ = dst ∧ q.id = id ∧ q.name = name ∧ q.type = ty := by
  rw [OptL.bentry_eq_bstart h] at he
  exact session_answer_echoes_received_query _ rnd l inp now' dst id ty dn name data tag he

/-- **session_fwd_wellformed_from_main.**  For every run `l` of the process `main()` started and one more byte-valued input with plain
question labels: every datagram handed to the forward socket is a well-formed query carrying the id, type and label sequence of the
query decoded from this iteration's datagram.  (`session_fwd_wellformed` holds in EVERY state; restated for the runs from `main()`.) -/
theorem session_fwd_wellformed_from_main (env : Env) (argv : List (List Nat)) (f : Final) (_h : Top.Starts env argv f)
    (rnd : List Nat) (d4 d6 : Nat) (l : List (BInput × Nat)) (inp : BInput) (now' : Nat) (hb : ByteDgram inp) (hp : PlainDgram inp)
    (dst : Addr) (bytes : List Nat) (hf : BEvent.fwd dst bytes ∈ (biteration (brun (Top.bentry f rnd d4 d6) l) inp now').2.1) :
    ∃ q src dg, inp = .dgram src dg ∧ toInput (brun (Top.bentry f rnd d4 d6) l).srv inp = .q q ∧ q.id < 65536 ∧ q.type < 65536 ∧
      q.from_ = src ∧ labelSeq q.name ≠ [] ∧ labelSeq q.name <+: questionLabels dg ∧
      WellFormedQueryOf q.id q.type (labelSeq q.name) bytes := by
  obtain ⟨q, src, dg, h1, h2, _, h4, h5, h6, h7, h8, _, h10⟩ := session_fwd_wellformed _ inp now' hb hp dst bytes hf
  exact ⟨q, src, dg, h1, h2, h4, h5, h6, h7, h8, h10⟩

/-! ### Non-vacuity: from a command line to a datagram exchange -/

/-- `iodined -f -P secret 10.0.0.1 t.co` -/
def exArgvRun : List (List Nat) := [Getopt.ascii "iodined", Getopt.ascii "-f", Getopt.ascii "-P", Getopt.ascii "secret", Getopt.ascii "10.0.0.1", Getopt.ascii "t.co"]

/-- the process started by that command line receives the version request `exDgramV` (id 0x1234, type NULL) from `exSrc` as its first
datagram and the NS query `exDgramNs` as its second: one `tx` resp. one `nsa` to the sender with the query's id -/
def exFromArgv : Option (Bool × Bool) :=
  (serverMain C19.exEnv exArgvRun).final.map fun f =>
    let b0 := Top.bentry f [] 0 0
    let r1 := biteration b0 (.dgram exSrc exDgramV) 1000
    let r2 := biteration r1.1 (.dgram exSrc exDgramNs) 1001
    ((match r1.2.1 with
      | [.tx dst bytes] => decide (dst = exSrc) && ((parseMsg bytes).map (·.id) == some 0x1234)
      | _ => false),
     (match r2.2.1 with
      | [.nsa dst bytes] => decide (dst = exSrc) && ((parseMsg bytes).map (·.id) == some 7)
      | _ => false))

example : (serverMain C19.exEnv exArgvRun).outcome = .run 0 ∧ exFromArgv = some (true, true) := by decide +kernel

/-- the theorems applied to it -/
example (f : Final) (h : Top.Starts C19.exEnv exArgvRun f) (dst : Addr) (bytes : List Nat)
    (htx : BEvent.tx dst bytes ∈ (biteration (Top.bentry f [] 0 0) (.dgram exSrc exDgramV) 1000).2.1) :=
  session_datagrams_wellformed_from_main _ _ f h 0 0 _ (plainReachable_bentry h [] 0 0) (.dgram exSrc exDgramV) 1000
    (by decide +kernel) (by decide +kernel) dst bytes htx

end Iodine.C10
