import IodineModel.Props.C05
import IodineModel.Props.C10Session
import IodineModel.Lemmas.C05Sc
import IodineModel.Lemmas.C05Sd
/-
C05, lifted to WHOLE SESSIONS of the byte-level server (Server/Bytes.lean: datagram in → `read_dns`/`dns_decode` → session machine →
`write_dns`/`dns_encode*` → datagram out), for ARBITRARY inputs.

"For every sequence of UDP datagrams of any content and length received on its DNS socket, and every packet read from its tun
device, iodined processes each one in bounded time without reading or writing outside its buffers, without undefined behaviour, and
keeps serving; established sessions of other clients continue to work."

Props/C05.lean has the per-call theorems of the RECEIVE side.  This file adds, for every state the process can reach through ANY
byte strings as datagrams (malformed DNS, labels containing '.', NUL, compression loops, every command letter with arbitrary
arguments and user ids, raw frames of all lengths), any tun frames, any replies on the forward socket and any clock:

1. `server_never_leaves_its_buffers` — the iteration returns a result for every residue of the receive buffer (no `Fault` of the
   decoder), EVERY ENCODER CALL made for the events of the iteration (`write_dns` → `dns_encode(QR_ANSWER)`,
   `dns_encode_ns_response`, `dns_encode_a_response`, `forward_query`'s `dns_encode(QR_QUERY)`) returns a datagram or a C return code —
   never a store outside `buf[64K]`, `cnamebuf`, `mxbuf`, `txtbuf` —, every event fits the local buffer it is sent from (`pkt[4096]`,
   `send_raw`'s `packet[4096]`, `write_tun`'s `out[64K]`), and the state invariant `BufInv` holds again: every list the model keeps for
   a C array is within the size of that array, every ring index within its ring, every `len`/`offset` within the bytes written.
   So "the list never exceeds the C array" is a theorem, not an artefact of modelling arrays by lists.
2. `server_iteration_bounded` — see there for what "bounded time" means in the model.

(The non-interference part — established sessions continue — is in Props/C05Continue.lean.)

What is NOT covered: undefined behaviour of kinds the model does not represent (uninitialised reads other than the receive-buffer
residue, aliasing, signed overflow outside the modelled arithmetic), `write_dns_nameenc`'s `inline_dotify` (modelled for buffers
≥ 256 bytes, which all callers pass), libc/zlib internals, stack depth.  A tun frame of 65536 bytes or more makes the model's test
compression yield 65537 bytes (the real `compress2` fails with Z_BUF_ERROR instead); what is STORED is cut to 64 KiB in both.
-/
namespace Iodine.C05
open Iodine Iodine.Server Iodine.Gen Iodine.Wire.Put Iodine.Wire.DnsEncode

/-! ### Specification vocabulary -/

/-- the input of an iteration consists of octets (datagram and tun frame bytes are `< 256`; lengths, contents, `rand()` values and clock
values are arbitrary) -/
abbrev ByteInput := C10.ByteDgram

/-- states of the server process reachable from start-up (any `rand()` stream) through iterations on ARBITRARY byte-valued inputs —
no `LegalDgram`, no `LabelsPlain`, any clock values (not even monotone) -/
inductive AnyReachable (cfg : Config) : BSrv → Prop where
  | init (rnd : List Nat) : AnyReachable cfg (bstart cfg rnd)
  | step {b : BSrv} (inp : BInput) (now' : Nat) : AnyReachable cfg b → ByteInput inp → AnyReachable cfg (biteration b inp now').1

/-- a `struct packet` (common.h): `data[64*1024]` holds bytes, `len` does not exceed what was written -/
structure PacketFits (p : Packet) : Prop where
  size : p.data.length ≤ 65536
  bytes : C10.IsBytes p.data
  len : p.len ≤ p.data.length

/-- a `struct query`: the C string fits `name[QUERY_NAME_SIZE = 256]` -/
def QueryFits (q : Query) : Prop := q.name.length ≤ 255

/-- one `struct tun_user` (user.h) -/
structure SlotFits (x : Session) : Prop where
  q : QueryFits x.q
  qs : QueryFits x.qs
  /-- `inpacket`: the assembly offset stays inside `data[]` (the C clamps the copy with `sizeof(data) - offset`) -/
  inpacket : PacketFits x.inpacket ∧ x.inpacket.offset ≤ 65536
  /-- `outpacket`: `offset + sentlen ≤ len`, and `offset < len` while a packet is stored (so `len - offset`, an `int`, is positive
  and `memcpy(&pkt[2], data + offset, datalen)` reads inside `data[]`) -/
  outpacket : PacketFits x.outpacket ∧ x.outpacket.offset + x.outpacket.sentlen ≤ x.outpacket.len ∧
    (x.outpacket.len ≠ 0 → x.outpacket.offset < x.outpacket.len)
  /-- `outpacketq[OUTPACKETQ_LEN = 4]` and its two ring variables -/
  outq : x.outpacketq.length = 4 ∧ (∀ p ∈ x.outpacketq, PacketFits p) ∧ x.oqNext < 4 ∧ x.oqFilled ≤ 4
  /-- `dnscache_q[4]`, `dnscache_answer[4][4096]`, `dnscache_answerlen[4]`, `dnscache_lastfilled` -/
  cache : x.dnscache.length = 4 ∧ x.dcLast < 4 ∧
    ∀ e ∈ x.dnscache, QueryFits e.q ∧ e.answer.length ≤ 4096 ∧ e.answerlen ≤ e.answer.length ∧ C10.IsBytes e.answer
  /-- `qmemping_cmc[30 * 4]`, `qmemping_type[30]`, `qmemping_lastfilled` -/
  qmemping : x.qmemping.length = 30 ∧ (∀ e ∈ x.qmemping, e.cmc.length = 4) ∧ x.qmempingLast < 30
  /-- `qmemdata_cmc[15 * 4]`, `qmemdata_type[15]`, `qmemdata_lastfilled` -/
  qmemdata : x.qmemdata.length = 15 ∧ (∀ e ∈ x.qmemdata, e.cmc.length = 4) ∧ x.qmemdataLast < 15

/-- **the state invariant**: the static counters of `write_dns_nameenc` index the alphabet (`'a' + td1`, `td1 < 26`, `td2 < 25`);
`users[]` has at most `USERS = 16` entries and `created_users` is its length; every slot fits its arrays -/
structure BufInv (b : BSrv) : Prop where
  td : b.td.1 < 26 ∧ b.td.2 < 25
  users : b.srv.users.length ≤ 16 ∧ b.srv.cfg.createdUsers = b.srv.users.length
  slots : ∀ u, SlotFits (getUser b.srv u)

/-- the encoder `handle_ns_request` / `handle_a_request` run for the query `q` of this iteration, as `tunnel_dns` selects it -/
def nsaEncoderCall (cfg : Config) (q : Query) : Option (R (List Nat)) :=
  match Common.queryDatalen q.name cfg.topdomain with
  | none => none
  | some dlen =>
    let n (i : Nat) := q.name.getD i 0
    if dlen = 3 ∧ q.type = Gen.T_A ∧ (n 0 = 110 ∨ n 0 = 78) ∧ (n 1 = 115 ∨ n 1 = 83) ∧ n 2 = 46 then
      some (dnsEncodeAResponse 65536 q.id q.type q.name (nsDest cfg q))
    else if dlen = 4 ∧ q.type = Gen.T_A ∧ (n 0 = 119 ∨ n 0 = 87) ∧ (n 1 = 119 ∨ n 1 = 87)
              ∧ (n 2 = 119 ∨ n 2 = 87) ∧ n 3 = 46 then
      some (dnsEncodeAResponse 65536 q.id q.type q.name (some [127, 0, 0, 1]))
    else if q.type = Gen.T_NS then some (dnsEncodeNsResponse 65536 q.id q.type q.name (q.name.drop dlen) (nsDest cfg q))
    else none

/-- the encoder call behind one event of the session machine (`q?` = the query `read_dns` decoded in this iteration) and the static
counters `td1, td2` after it: `write_dns` for an `ans`, `dns_encode(QR_QUERY)` with EDNS0 for a `fwd`, the NS/A encoders for an `nsa` -/
def encoderCall (cfg : Config) (q? : Option Query) (td : WriteDns.Td) : Event → WriteDns.Td × Option (R (List Nat))
  | .ans _ id ty dn name data _ => ((WriteDns.writeDnsR td id ty name data dn).1, some (WriteDns.writeDnsR td id ty name data dn).2)
  | .fwd _ => (td, q?.map fun q => dnsEncodeQuery 65536 q.id q.type true q.name)
  | .nsa _ => (td, q?.bind (nsaEncoderCall cfg))
  | _ => (td, none)

/-- the results of all encoder calls of an iteration, in order -/
def encoderCalls (cfg : Config) (q? : Option Query) : WriteDns.Td → List Event → List (R (List Nat))
  | _, [] => []
  | td, e :: rest =>
    match (encoderCall cfg q? td e).2 with
    | some r => r :: encoderCalls cfg q? (encoderCall cfg q? td e).1 rest
    | none => encoderCalls cfg q? (encoderCall cfg q? td e).1 rest

/-- a store outside the caller's buffer -/
def IsFault {α} (r : R α) : Prop := ∃ f, r = .fault f

/-- what is handed to `sendto` for an encoder result: the datagram if the encoder returned `len ≥ 1` -/
def transmitted (mk : List Nat → BEvent) (r : Option (R (List Nat))) : List BEvent :=
  match r with
  | some (.ok pkt) => if pkt.length < 1 then [] else [mk pkt]
  | _ => []

/-- everything that leaves the process for a list of events, computed from the encoder calls -/
def transmit (cfg : Config) (q? : Option Query) : WriteDns.Td → List Event → WriteDns.Td × List BEvent
  | td, [] => (td, [])
  | td, e :: rest =>
    let c := encoderCall cfg q? td e
    let t := transmit cfg q? c.1 rest
    (t.1, (match e with
      | .ans dst _ _ _ _ _ _ => transmitted (BEvent.tx dst) c.2
      | .fwd dst => transmitted (BEvent.fwd dst) c.2
      | .nsa dst => transmitted (BEvent.nsa dst) c.2
      | .raw dst b => [BEvent.raw dst b]
      | .tunw f => [BEvent.tunw f]
      | .rly dst b => [BEvent.rly dst b]
      | .sweep => []
      | .tunskip => []) ++ t.2)

/-- the local buffer an event is sent from: an `ans` is `write_dns(q, data, datalen, …)` with `q->name` in `name[256]` and the payload
in `pkt[4096]` / `out[…]` / `in[512]` / `buf[2048]` … (1..4096 octets); `send_raw` builds its frame in `packet[4096]`; `write_tun` sends from
`out[64K]`; `tunnel_bind` relays from `packet[64K]` -/
def EventFits : Event → Prop
  | .ans _ _ _ _ name data _ => name.length ≤ 255 ∧ 1 ≤ data.length ∧ data.length ≤ 4096 ∧ C10.IsBytes data
  | .raw _ b => b.length ≤ 4096
  | .tunw f => f.length ≤ 65536
  | .rly _ b => b.length ≤ 65536
  | _ => True

/-! ### Glue to the lemma files -/

theorem byteInput_iff (inp : BInput) : ByteInput inp ↔ BytesL.ByteInput inp := C10.byteDgram_iff inp

theorem nsaEncoderCall_eq (cfg : Config) (q : Query) : nsaEncoderCall cfg q = C05L.nsaCall cfg q := rfl

theorem encoderCall_eq (cfg : Config) (q? : Option Query) (td : WriteDns.Td) (e : Event) :
    encoderCall cfg q? td e = C05L.encCall cfg q? td e := by
  cases e <;> rfl

theorem encoderCalls_eq (cfg : Config) (q? : Option Query) : ∀ (evs : List Event) (td : WriteDns.Td),
    encoderCalls cfg q? td evs = C05L.encCalls cfg q? td evs
  | [], _ => rfl
  | e :: rest, td => by
    unfold encoderCalls C05L.encCalls
    rw [encoderCall_eq]
    cases (C05L.encCall cfg q? td e).2 with
    | none => exact encoderCalls_eq cfg q? rest _
    | some r => simp only []; rw [encoderCalls_eq cfg q? rest]

theorem transmitted_eq (mk : List Nat → BEvent) (r : Option (R (List Nat))) : transmitted mk r = C05L.sentAs mk r := by
  unfold transmitted C05L.sentAs
  cases r with
  | none => rfl
  | some x =>
    cases x with
    | ok pkt =>
      simp only [Option.bind_some, sent]
      by_cases h : pkt.length < 1
      · simp only [if_pos h]
      · simp only [if_neg h]
    | ret rv => rfl
    | fault f => rfl

theorem encodeEventsL_transmit (cfg : Config) (q? : Option Query) : ∀ (evs : List Event) (td : WriteDns.Td),
    ((encodeEventsL cfg q? td evs).1, (encodeEventsL cfg q? td evs).2.flatMap (·.2)) = transmit cfg q? td evs
  | [], _ => rfl
  | e :: rest, td => by
    have ih := encodeEventsL_transmit cfg q? rest (encodeEvent cfg q? td e).1
    have he := C05L.encodeEvent_eq cfg q? td e
    have h1 : (encodeEvent cfg q? td e).1 = (encoderCall cfg q? td e).1 := by rw [he, encoderCall_eq]
    simp only [encodeEventsL, transmit, List.flatMap_cons]
    rw [← h1, ← ih]
    refine Prod.ext rfl ?_
    simp only []
    congr 1
    rw [he, encoderCall_eq]
    cases e <;> simp only [transmitted_eq]

theorem anyReachable_inv {cfg : Config} (hc : C10.ConfigOk cfg) {b : BSrv} (h : AnyReachable cfg b) : C05L.RunInv b := by
  induction h with
  | init rnd => exact C05L.runInv_start cfg (C10.configOk_iff cfg hc).1 rnd
  | step inp now' _ hb ih => exact (C05L.runInv_step ih inp ((byteInput_iff inp).1 hb) now').1

theorem bufInv_of_runInv {b : BSrv} (h : C05L.RunInv b) : BufInv b where
  td := h.td
  users := ⟨h.cnt.2, h.cnt.1⟩
  slots := fun u => by
    have hw := h.sessW u
    have hz := h.szOK u
    have hd := BytesL.sessOK_getUser h.data u
    exact {
      q := hz.qn
      qs := hz.qsn
      inpacket := ⟨⟨hz.inp, hd.inp, hw.inlen⟩, hz.inoff⟩
      outpacket := ⟨⟨hz.out, hd.out, hw.data⟩, hw.sent, hw.off⟩
      outq := ⟨hw.oqlen, fun p hp => ⟨hz.oq p hp, hd.oq p hp, hw.oq p hp⟩, hw.oqn, hw.oqf⟩
      cache := ⟨hz.dcl, hz.dci, fun e he => ⟨hz.dcn e he, (hd.dc e he).2.2.1, (hd.dc e he).2.1, (hd.dc e he).1⟩⟩
      qmemping := ⟨hz.qpl, hz.qpc, hz.qpi⟩
      qmemdata := ⟨hz.qdl, hz.qdc, hz.qdi⟩ }

/-! ### The property -/

/-- **reachable_bufInv.**  For every configuration `main()` can establish, in every state reachable from start-up through arbitrary
byte-valued inputs, everything the server stores is within the C arrays it stands for. -/
theorem reachable_bufInv (cfg : Config) (hc : C10.ConfigOk cfg) (b : BSrv) (hr : AnyReachable cfg b) : BufInv b :=
  bufInv_of_runInv (anyReachable_inv hc hr)

/-- **what is sent IS the encoder calls.**  In every state and for every input: the datagrams the byte-level iteration hands to `sendto`,
and the static counters afterwards, are exactly what `transmit` computes from `encoderCall` for the events of the session iteration
(so `encoderCalls` below are THE encoder calls of the iteration, not a parallel construction). -/
theorem iteration_transmits_encoder_calls (b : BSrv) (inp : BInput) (now' : Nat) :
    ((biteration b inp now').1.td, (biteration b inp now').2.1) =
      transmit b.srv.cfg (queryOf (toInput b.srv inp)) b.td (out b.srv ⟨toInput b.srv inp, now'⟩) :=
  encodeEventsL_transmit _ _ _ _

/-- **server_never_leaves_its_buffers** (C05 for whole sessions).  For every configuration `main()` can establish (`ConfigOk`), every state
`b` reachable from start-up through ARBITRARY byte-valued inputs — any byte strings as datagrams from any address, tun frames, replies on
the forward socket, time-outs, any clock, any `rand()` stream — and every further such input `inp`, over every residue `res` in the receive
buffer:
* `biterationR` returns a result — the decoder reads nothing outside `packet[64K]`, runs out of no loop budget — and it is the iteration
  computed from the datagram's own bytes;
* every encoder call made for the events of the iteration returns `.ok` or `.ret` — never `.fault`: no store outside `buf[64K]`,
  `cnamebuf[1024]`, `mxbuf[64K]`, `txtbuf[64K]`, whatever the question name looks like;
* every event fits the local buffer it is sent from;
* the state invariant `BufInv` holds before and after. -/
theorem server_never_leaves_its_buffers (cfg : Config) (hc : C10.ConfigOk cfg) (b : BSrv) (hr : AnyReachable cfg b)
    (inp : BInput) (hby : ByteInput inp) (now' : Nat) (res : Array Nat) :
    biterationR res b inp now' = some (biteration b inp now') ∧
    (∀ r ∈ encoderCalls b.srv.cfg (queryOf (toInput b.srv inp)) b.td (out b.srv ⟨toInput b.srv inp, now'⟩), ¬ IsFault r) ∧
    (∀ e ∈ out b.srv ⟨toInput b.srv inp, now'⟩, EventFits e) ∧
    BufInv b ∧ BufInv (biteration b inp now').1 := by
  have hinv := anyReachable_inv hc hr
  obtain ⟨h1, h2, h3, h4⟩ := C05L.runInv_step hinv inp ((byteInput_iff inp).1 hby) now'
  refine ⟨C12.session_iteration_residue_independent res b inp now', ?_, ?_, bufInv_of_runInv hinv, bufInv_of_runInv h1⟩
  · intro r hr ⟨f, hf⟩
    rw [encoderCalls_eq] at hr
    exact (C05L.noFault_iff r).1 (h4 r hr) f hf
  · intro e he
    cases e with
    | ans dst id ty dn name data tag =>
      obtain ⟨a1, a2, a3, a4⟩ := h2 dst id ty dn name data tag he
      exact ⟨a1, a3, a4, a2⟩
    | raw dst bts => exact h3 _ he
    | tunw f => exact h3 _ he
    | rly dst bts => exact h3 _ he
    | fwd _ => trivial
    | nsa _ => trivial
    | sweep => trivial
    | tunskip => trivial

/-- **local_buffers_fit.**  The locals of `handle_null_request` and `save_to_qmem_pingordata`, for every query name and every codec: what
`unpack_data` stores fits `unpacked[64K]`, the name bytes copied fit `in[512]`, the ping fingerprint fits `cmc[8]` (the defect repaired by
adfbd99 was the terminator written at `cmc[8]`; the decoded bytes never exceeded it), a fragment cut by `send_chunk_or_dataless` with its
two header bytes fits `pkt[4096]`. -/
theorem local_buffers_fit (c : Codec.Codec) (name : List Nat) (dlen n : Nat) (x : Session) :
    (Encoding.unpackData c 65536 name).length ≤ 65536 ∧ (name.take (min dlen 512)).length ≤ 512 ∧
    (Codec.dec Codec.b32 8 n name).length ≤ 8 ∧ (scPkt x (scDatalen x)).length ≤ 4096 := by
  refine ⟨?_, ?_, ?_, ?_⟩
  · unfold Encoding.unpackData Codec.dec; simp only [List.length_take]; omega
  · simp only [List.length_take]; omega
  · unfold Codec.dec; simp only [List.length_take]; omega
  · have := C15L.scPkt_length_le x (scDatalen x)
    have := (C15L.scDatalen_le x).2
    omega

/-- runs: the state after any run on byte-valued inputs is reachable -/
theorem anyReachable_brun {cfg : Config} {b : BSrv} (h : AnyReachable cfg b) :
    ∀ l : List (BInput × Nat), (∀ p ∈ l, ByteInput p.1) → AnyReachable cfg (brun b l)
  | [], _ => h
  | (i, n) :: rest, hl => by
    simp only [brun]
    exact anyReachable_brun (.step i n h (hl (i, n) List.mem_cons_self)) rest
      (fun p hp => hl p (List.mem_cons_of_mem _ hp))

/-! ### Non-vacuity: hostile datagrams that ARE answered -/

/-- forwarding on (`-b 5353`), wildcard top domain not needed -/
def exCfgF : Config := { C10.exCfgS with bindPort := 5353 }

/-- "z." as FIRST LABEL (a '.' inside the label): `dns_decode` reads the name "z..t.co" (empty label); the 'Z' handler echoes it -/
def exDotLabel : List Nat := C10.exDgramBad

/-- a question name made of a compression pointer to itself: decoded to nothing, dropped -/
def exLoop : List Nat := [0, 1, 1, 0, 0, 1, 0, 0, 0, 0, 0, 0, 0xc0, 12, 0, 10, 0, 1]

/-- a name OUTSIDE the tunnel domain whose single label is 63 × '.' : forwarded (`forward_query` re-encodes it with `dns_encode`);
`putname`'s `strtok` finds no piece at all -/
def exDots : List Nat := [0, 9, 1, 0, 0, 1, 0, 0, 0, 0, 0, 0] ++ (63 :: List.replicate 63 46) ++ [0, 0, 1, 0, 1]

/-- an MX version request "vaaaaaaaa.t.co" whose first label also contains a NUL byte behind it is cut by the C string; here: bytes ≥ 0x80 in
the label, type MX (answered with a host-name encoded VNAK) -/
def exHigh : List Nat :=
  [0x12, 0x35, 1, 0, 0, 1, 0, 0, 0, 0, 0, 0, 9, 118, 200, 255, 128, 97, 46, 46, 97, 97, 1, 116, 2, 99, 111, 0, 0, 15, 0, 1]

/-- a run of four hostile datagrams and a tun frame -/
def exRun : List (BInput × Nat) :=
  [(.dgram C10.exSrc exDotLabel, 1000), (.dgram C10.exSrc exLoop, 1000), (.tun (List.replicate 300 7), 5),
   (.dgram C10.exSrc exDots, 1001), (.dgram C10.exSrc exHigh, 1001)]

/-- which encoder calls the iteration on `d` makes in state `b`, and whether each returned a datagram -/
def exCalls (b : BSrv) (d : List Nat) (now' : Nat) : List Bool :=
  (encoderCalls b.srv.cfg (queryOf (toInput b.srv (.dgram C10.exSrc d))) b.td
    (out b.srv ⟨toInput b.srv (.dgram C10.exSrc d), now'⟩)).map fun r => match r with | .ok _ => true | _ => false

example : C10.ConfigOk exCfgF ∧ (∀ p ∈ exRun, ByteInput p.1) ∧
    -- the 'Z' echo of the name with the empty label, the forwarded all-dots name, the MX answer: one encoder call each, each a datagram
    exCalls (bstart exCfgF []) exDotLabel 1000 = [true] ∧ exCalls (bstart exCfgF []) exDots 1000 = [true] ∧
    exCalls (bstart exCfgF []) exHigh 1000 = [true] ∧ exCalls (bstart exCfgF []) exLoop 1000 = [] := by
  decide +kernel

/-- the theorem applied to the state after that run and one more hostile datagram -/
example (res : Array Nat) :=
  server_never_leaves_its_buffers exCfgF (by decide +kernel) _
    (anyReachable_brun (.init []) exRun (by decide +kernel)) (.dgram C10.exSrc exHigh) (by decide +kernel) 1002 res

/-- `BufInv` is not trivially true: a slot whose out-queue ring index is 4 violates it -/
example : ¬ SlotFits { Session.zero 0 with oqNext := 4 } := fun h => by
  have h4 : (4 : Nat) < 4 := h.outq.2.2.1
  omega

/-! ### Bounded time

The model is TOTAL by construction: every function of Server/*.lean and Wire/*.lean is structurally recursive over a list or a number,
or runs on explicit fuel where the C loop is not structurally bounded (`readname`'s jumps, `write_dns`'s MX loop, `puttxtbin`) — and
running out of fuel is a `Fault`, which by `server_never_leaves_its_buffers` does not occur.  "Processes each input in bounded time"
therefore means here: EVERY LOOP OF ONE ITERATION OF `tunnel()` RANGES OVER SOMETHING WHOSE SIZE IS BOUNDED by the datagram length or by a
constant.  `iterationBudget` adds these ranges up, loop by loop, as a function of the state, the input and the events produced; the
theorem bounds it by `11 · (length of the datagram, cut at 64 KiB) + a constant`.  The ingredients are theorems about the model, not
conventions: the loop budget of the decoder suffices (no `Fault.fuel`); `users[]` has ≤ 16 slots; the cache and the query memories have
4 / 30 / 15 entries (`BufInv`); an iteration produces at most `2·created_users + 10 ≤ 42` events, whatever the input (no handler loops on
its input; `send_chunk_or_dataless`'s "call me again" result is never looped on); every payload handed to an encoder is ≤ 4096 bytes
and every name ≤ 255 (`EventFits`). -/

/-- what `recvmsg` / `read` / `recvfrom` deliver of the input: its length cut at the 64 KiB of the receive buffer -/
def inputLen : BInput → Nat
  | .dgram _ b => min b.length 65536
  | .tun f => min f.length 65536
  | .bind b => min b.length 65536
  | .tick => 0

/-- loop iterations behind one event.  `ans`: `write_dns` — `putname` over the ≤ |name|+1 `strtok` pieces of the question name (twice: the
NS/A encoders too), the codec of `write_dns_nameenc` / the TXT branch (≤ 2·|data| + 8 characters; for MX ≤ |data|/152 + 1 names of ≤ 255), the
copy loops of `dns_encode` (`puttxtbin` ≤ |txt|/252 + 1 rounds, `putdata`).  `raw` / `tunw` / `rly`: the copy of the bytes.
`fwd` / `nsa`: the encoders on this iteration's question name (≤ 253 characters). -/
def eventBudget : Event → Nat
  | .ans _ _ _ _ name data _ => 3 * name.length + 4 * data.length + 600
  | .raw _ b => b.length
  | .tunw f => f.length
  | .rly _ b => b.length
  | .fwd _ => 3 * 255 + 64
  | .nsa _ => 3 * 255 + 64
  | .sweep => 0
  | .tunskip => 0

/-- **the stated function**: the ranges of all loops of one iteration of `tunnel()` on input `inp` in state `b` -/
def iterationBudget (b : BSrv) (inp : BInput) (now' : Nat) : Nat :=
  -- read_dns → dns_decode → readname: at most 10 activations (jump budget) of a loop of at most `packetlen` iterations — the fuel of
  -- `Wire.readnameLoop`, which never runs out (`server_never_leaves_its_buffers`, first conjunct)
  10 * inputLen inp
  -- the linear passes over the datagram / frame: recvmsg's copy, raw_decode's memcpy, compress2 / uncompress (transparent in the model)
  + inputLen inp
  -- the loops over `users[]`: top of `tunnel()` (clear `q_sendrealsoon_new`; choose the time-out), `all_users_waiting_to_send`,
  -- `find_user_by_ip`, `find_available_user`, the "send real soon" sweep
  + 6 * b.srv.users.length
  -- `answer_from_dnscache` (DNSCACHE_LEN), `answer_from_qmem` (QMEMPING_LEN or QMEMDATA_LEN), `recent_seqno`
  + (4 + 30 + 15 + 4)
  -- `handle_null_request`: memcpy of the name into `in[512]`, `unpack_data` over ≤ 255 characters, the lower-casing loops of the CMC
  + 3 * 255
  -- `handle_full_packet`: `uncompress` of a stored packet of at most 64 KiB
  + 65536
  -- the encoders and `sendto` copies, per event
  + ((out b.srv ⟨toInput b.srv inp, now'⟩).map eventBudget).sum

theorem eventBudget_le {e : Event} (h : EventFits e) : eventBudget e ≤ 65536 := by
  cases e with
  | ans dst id ty dn name data tag =>
    obtain ⟨h1, _, h3, _⟩ := h
    simp only [eventBudget]; omega
  | raw dst b => have : b.length ≤ 4096 := h; simp only [eventBudget]; omega
  | tunw f => exact h
  | rly dst b => exact h
  | fwd _ => simp [eventBudget]
  | nsa _ => simp [eventBudget]
  | sweep => simp [eventBudget]
  | tunskip => simp [eventBudget]

theorem sum_map_le {α} (f : α → Nat) (k : Nat) : ∀ l : List α, (∀ x ∈ l, f x ≤ k) → (l.map f).sum ≤ k * l.length
  | [], _ => by simp
  | a :: l, h => by
    have h1 := h a List.mem_cons_self
    have h2 := sum_map_le f k l (fun x hx => h x (List.mem_cons_of_mem _ hx))
    simp only [List.map_cons, List.sum_cons, List.length_cons, Nat.mul_succ]
    omega

/-- **server_iteration_bounded.**  For every configuration `main()` can establish, every state reachable through arbitrary byte-valued
inputs and every further such input: (1) the receive path terminates within its loop budget for every residue (`biterationR` is `some`);
(2) the iteration produces at most `2·created_users + 10 ≤ 42` events — hence at most 42 encoder calls and `sendto`s —, each within
`EventFits`; (3) the sum of the ranges of ALL loops of the iteration is at most `11·len + 2 818 962` where `len ≤ 65536` is the length of
the datagram or frame: linear in the input length with a constant that depends on nothing — not on the content of the datagram, the state
of the sessions or the history. -/
theorem server_iteration_bounded (cfg : Config) (hc : C10.ConfigOk cfg) (b : BSrv) (hr : AnyReachable cfg b)
    (inp : BInput) (hby : ByteInput inp) (now' : Nat) :
    (∀ res, (biterationR res b inp now').isSome) ∧
    (out b.srv ⟨toInput b.srv inp, now'⟩).length ≤ 2 * b.srv.cfg.createdUsers + 10 ∧ b.srv.cfg.createdUsers ≤ 16 ∧
    iterationBudget b inp now' ≤ 11 * inputLen inp + 2818962 ∧ inputLen inp ≤ 65536 := by
  obtain ⟨h1, _, h3, h4, _⟩ := server_never_leaves_its_buffers cfg hc b hr inp hby now' #[]
  have hlen := C05L.out_length_le b.srv ⟨toInput b.srv inp, now'⟩
  have hu := h4.users
  have hsum := sum_map_le eventBudget 65536 _ (fun e he => eventBudget_le (h3 e he))
  refine ⟨fun res => ?_, hlen, by omega, ?_, ?_⟩
  · rw [C12.session_iteration_residue_independent res b inp now']; rfl
  · unfold iterationBudget
    have : 65536 * (out b.srv ⟨toInput b.srv inp, now'⟩).length ≤ 65536 * 42 := Nat.mul_le_mul_left _ (by omega)
    omega
  · cases inp <;> simp only [inputLen] <;> omega

/-- non-vacuity: the budget of the hostile MX request is dominated by the constants; the request produces one event -/
example : (out (bstart exCfgF []).srv ⟨toInput (bstart exCfgF []).srv (.dgram C10.exSrc exHigh), 1000⟩).length = 2 ∧
    inputLen (.dgram C10.exSrc exHigh) = 32 := by decide +kernel

end Iodine.C05
