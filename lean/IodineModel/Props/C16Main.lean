import IodineModel.Props.C16
import IodineModel.Lemmas.OptTop
/-
C16 from the command line on.
-/
namespace Iodine.C16
open Iodine Iodine.Server Iodine.Server.Options Iodine.Gen

/-- **cache_holds_last_four_from_main.**  For every command line and environment with which iodined reaches `tunnel()` and every run
afterwards (any inputs, any clock): each of the four most recent fresh answers of session `u`, whose name and type were not used
again by a more recent one, is found by the cache lookup for any query with that name and type and carries exactly the payload that
was sent.  No hypothesis on the configuration. -/
theorem cache_holds_last_four_from_main (env : Env) (argv : List (List Nat)) (f : Final) (h : Top.Starts env argv f)
    (rnd : List Nat) (d4 d6 : Nat) (steps : List Step)
    (u : Nat) (hu : u < (Top.entry f rnd d4 d6).users.length) (i : Nat) (hi : i < DNSCACHE_LEN) (n : List Nat) (t : Nat) (p : List Nat)
    (hl : (fresh u (traceFrom (Top.entry f rnd d4 d6) steps))[i]? = some (n, t, p))
    (hlast : ∀ j n' t' p', j < i → (fresh u (traceFrom (Top.entry f rnd d4 d6) steps))[j]? = some (n', t', p') → ¬ (n' = n ∧ t' = t))
    (q : Query) (hn : q.name = n) (ht : q.type = t) :
    ∃ e, dnscacheFind (getUser (runFrom (Top.entry f rnd d4 d6) steps) u) q DNSCACHE_LEN 0 = some e ∧
      e.answer.take e.answerlen = p := by
  have hr : Reachable (f.cfg d4 d6) (Top.entry f rnd d4 d6) := by rw [OptL.entry_eq_start h]; exact .init rnd
  exact cache_holds_last_four hr steps u hu i hi n t p hl hlast q hn ht

/-- **qmem_holds_recent_from_main.**  Likewise for the query memories: after every run of the process `main()` started, a re-delivered
data query with the fingerprint of one of the last 15 fresh data answers (ping: last 30) is recognised.  No hypothesis on the
configuration. -/
theorem qmem_holds_recent_from_main (env : Env) (argv : List (List Nat)) (f : Final) (h : Top.Starts env argv f)
    (rnd : List Nat) (d4 d6 : Nat) (steps : List Step)
    (u : Nat) (hu : u < (Top.entry f rnd d4 d6).users.length) (q : Query) (s' : Srv)
    (hmem : (getUser s' u).qmemdata = (getUser (runFrom (Top.entry f rnd d4 d6) steps) u).qmemdata ∧
            (getUser s' u).qmemping = (getUser (runFrom (Top.entry f rnd d4 d6) steps) u).qmemping)
    (ha : Accepted s' q u) :
    (IsData q.name → ∀ i, i < QMEMDATA_LEN →
      (freshDatas u (traceFrom (Top.entry f rnd d4 d6) steps))[i]? = some (dataPrint q.name, q.type) → QmemHit s' q u) ∧
    (IsPing q.name → ∀ i, i < QMEMPING_LEN →
      (freshPings u (traceFrom (Top.entry f rnd d4 d6) steps))[i]? = some (pingPrint s'.cfg.topdomain q, q.type) → QmemHit s' q u) := by
  have hr : Reachable (f.cfg d4 d6) (Top.entry f rnd d4 d6) := by rw [OptL.entry_eq_start h]; exact .init rnd
  exact qmem_holds_recent hr steps u hu q s' hmem ha

end Iodine.C16
