import IodineModel.Wire.Read
import IodineModel.Wire.DnsDecode
import IodineModel.Lemmas.WireRead
import IodineModel.Server.Bytes
/-
C12 — a datagram is interpreted from its own bytes only.

Client and server receive a datagram into `char packet[64*1024]` and pass `(packet, packetlen)` to
`dns_decode` / `readname` / `readtxtbin`; the bytes behind `packetlen` are stale residue of earlier
datagrams.  The model (IodineModel/Wire/Read.lean, Wire/DnsDecode.lean) performs every C read through
`RxBuf.get`, which yields the residue byte for an index in `[pkt.size, cap)` and `Fault.oob` from `cap` on,
so a decoder that looked behind the datagram would show it as a dependence on `res` (or as a fault).

Specification (stated here without reference to the model's code):
* residue independence — for two receive buffers that hold the same datagram `pkt` (and have the same size
  `cap`) but arbitrary different residues `r₁`, `r₂`, a decoder returns the same result: same return value,
  same new read pointer, same bytes stored in `dst`/`q`/`buf`, same fault if any;
* no fault — if the datagram fits the buffer (`pkt.size ≤ cap`), a decoder does not return a `Fault`:
  no read outside the receive buffer, no write outside `name[256]`, `rdata[4096]`, `names[250][256]`,
  the `dst` of `readname`/`readtxtbin` or the caller's `buf`, and every loop ends within its fuel.

Results for the current C code (helper lemmas in IodineModel/Lemmas/WireRead.lean):
* residue independence holds for all four decoders and `dns_get_id`, without any side condition
  (in particular without `off ≤ pkt.size`, `3 ≤ length` and `pkt.size ≤ cap`);
* no fault holds for `readname`, `readtxtbin`, `dns_get_id`, `dns_decode(QR_QUERY)`;
* no fault holds for `dns_decode(QR_ANSWER)` whenever the caller's buffer is not empty (`1 ≤ buflen`;
  client.c passes 64 KiB, `get_external_ip` of iodined.c the 4 bytes of a `struct in_addr`).  (Before the
  repair "keep dns_decode's MX/SRV output inside the caller's buffer" the MX/SRV output loop overran every
  `buf` shorter than 63242 bytes: `buflen-offset-2` wrapped around in `size_t`.)
  `buflen = 0` is the one remaining way to fault, and only by a write outside the (empty) `buf`: the CNAME
  branch executes `buf[buflen - 1] = '\0'`, i.e. `buf[-1]`, and the MX/SRV branch its final
  `*(buf + offset) = '\0'` with `offset = 0`; the NULL/PRIVATE, A and TXT branches copy `MIN(rv, 0) = 0` bytes and
  return 0.  No caller passes `buflen = 0`.  For every `buflen` the decoder never reads outside the receive
  buffer and never writes outside `name`/`rdata`/`names`.
-/
namespace Iodine.C12
open Iodine Iodine.Wire

/-- two receive buffers with the same datagram and different residue -/
abbrev rx (pkt res : Array Nat) (cap : Nat) : RxBuf := { pkt := pkt, res := res, cap := cap }

/-! ### concrete datagrams used by the non-vacuity examples -/

/-- a residue that parses as the label "www" -/
def resLabel : Array Nat := #[3, 0x77, 0x77, 0x77, 0]
/-- a residue that is a compression pointer to offset 12 -/
def resPtr : Array Nat := #[0xc0, 0x0c]

/-- 12 header bytes, then `1 'a' <pointer to 16> 0`: the pointer lands exactly on the last byte -/
def namePtrLast : Array Nat := #[0,0,0,0,0,0,0,0,0,0,0,0, 1,0x61, 0xc0,16, 0]
/-- the same without the last byte: the pointer lands exactly behind the datagram -/
def namePtrEnd : Array Nat := #[0,0,0,0,0,0,0,0,0,0,0,0, 1,0x61, 0xc0,16]
/-- a label that claims 5 bytes, 2 are present -/
def nameLabelCut : Array Nat := #[0,0,0,0,0,0,0,0,0,0,0,0, 5,0x61,0x62]

/-- query id 0x1234 for `a.t01` type NULL -/
def query1 : Array Nat := #[0x12,0x34,0x01,0x00,0,1,0,0,0,0,0,0, 1,0x61,3,0x74,0x30,0x31,0, 0,10,0,1]
/-- query whose name is a compression pointer to exactly `packetlen` -/
def queryPtrEnd : Array Nat := #[0x12,0x34,0x01,0x00,0,1,0,0,0,0,0,0, 0xc0,18, 0,10,0,1]

/-- NULL answer, 4 bytes of data -/
def answerNull4 : Array Nat :=
  #[0x12,0x34,0x84,0x00,0,1,0,1,0,0,0,0, 1,0x61,0, 0,10,0,1, 0xc0,12, 0,10, 0,1, 0,0,0,0, 0,4, 0x41,0x42,0x43,0x44]
/-- the same with RDLENGTH 6: two bytes more than the datagram holds -/
def answerNullLong : Array Nat :=
  #[0x12,0x34,0x84,0x00,0,1,0,1,0,0,0,0, 1,0x61,0, 0,10,0,1, 0xc0,12, 0,10, 0,1, 0,0,0,0, 0,6, 0x41,0x42,0x43,0x44]
/-- MX answer with the two hosts "ab" (preference 10) and "cde" (preference 20) -/
def answerMx2 : Array Nat :=
  #[0,9,0x84,0,0,1,0,2,0,0,0,0, 1,0x61,0, 0,15,0,1,
    0xc0,12, 0,15, 0,1, 0,0,0,0, 0,6, 0,10, 2,0x61,0x62,0,
    0xc0,12, 0,15, 0,1, 0,0,0,0, 0,7, 0,20, 3,0x63,0x64,0x65,0]
/-- CNAME answer "h" -/
def answerCname1 : Array Nat :=
  #[0,7,0x84,0,0,1,0,1,0,0,0,0, 1,0x61,0, 0,5,0,1, 0xc0,12, 0,5, 0,1, 0,0,0,0, 0,3, 1,0x68,0]

/-! ### residue independence -/

/-- `readname` — result = (new `*src`, bytes written to `dst`; the return value is their number). -/
theorem readname_residue_indep (pkt r₁ r₂ : Array Nat) (cap off length : Nat) :
    readname (rx pkt r₁ cap) off length = readname (rx pkt r₂ cap) off length :=
  readname_indep pkt r₁ r₂ cap off length

/-- non-vacuity: the pointer lands on the last byte of the datagram (followed, it is "a." + the root);
one byte further it is a bad jump although the residue holds a perfectly good label there; a label that
runs past the end is cut at the end and not continued from the residue. -/
example : readname (rx namePtrLast resLabel 65536) 12 256 = .ok (16, [0x61, 0x2e, 0])
    ∧ readname (rx namePtrEnd resLabel 65536) 12 256 = .ok (16, [0x61, 0x2e, 0])
    ∧ readname (rx nameLabelCut resLabel 65536) 12 256 = .ok (15, [0x61, 0x62, 0])
    ∧ readname (rx nameLabelCut resPtr 65536) 12 256 = .ok (15, [0x61, 0x62, 0]) := by decide

/-- `dns_decode(NULL, 0, q, QR_QUERY, packet, packetlen)` -/
theorem dns_decode_query_residue_indep (pkt r₁ r₂ : Array Nat) (cap : Nat) :
    dnsDecodeQuery (rx pkt r₁ cap) = dnsDecodeQuery (rx pkt r₂ cap) :=
  dnsDecodeQuery_indep pkt r₁ r₂ cap

/-- non-vacuity: a well-formed query decodes to its name; a query whose name is a pointer to exactly
`packetlen` decodes to nothing, whatever label the residue offers there. -/
example : dnsDecodeQuery (rx query1 resLabel 65536)
      = .ok { rv := 5, id := 0x1234, type := 10, rcode := 0, name := [0x61, 0x2e, 0x74, 0x30, 0x31], buf := [] }
    ∧ (dnsDecodeQuery (rx queryPtrEnd resLabel 65536)).map (·.rv) = .ok 0
    ∧ (dnsDecodeQuery (rx queryPtrEnd resPtr 65536)).map (·.rv) = .ok 0 := by decide

/-- `dns_decode(buf, buflen, q, QR_ANSWER, packet, packetlen)` -/
theorem dns_decode_answer_residue_indep (pkt r₁ r₂ : Array Nat) (cap buflen : Nat) :
    dnsDecodeAnswer buflen (rx pkt r₁ cap) = dnsDecodeAnswer buflen (rx pkt r₂ cap) :=
  dnsDecodeAnswer_indep pkt r₁ r₂ cap buflen

/-- non-vacuity: a NULL answer delivers its 4 bytes; with RDLENGTH two bytes beyond the datagram nothing
is delivered (`CHECKLEN(rlen)`), not 4 bytes + 2 bytes of residue. -/
example : dnsDecodeAnswer 65536 (rx answerNull4 resLabel 65536)
      = .ok { rv := 4, id := 0x1234, type := 10, rcode := 0, name := [0x61], buf := [0x41, 0x42, 0x43, 0x44] }
    ∧ dnsDecodeAnswer 65536 (rx answerNullLong resLabel 65536)
      = .ok { rv := 0, id := 0x1234, type := 0, rcode := 0, name := [0x61], buf := [] } := by decide

/-- `readtxtbin(packet, &src, srcremain, dst, dstremain)` with `src[0..srcremain)` inside the datagram -/
theorem readtxtbin_residue_indep (pkt r₁ r₂ : Array Nat) (cap src srcremain dstremain : Nat)
    (h : src + srcremain ≤ pkt.size) :
    readtxtbin (rx pkt r₁ cap) src srcremain dstremain = readtxtbin (rx pkt r₂ cap) src srcremain dstremain :=
  readtxtbin_indep pkt r₁ r₂ cap src srcremain dstremain h

/-- non-vacuity: two chunks "ab" "c"; and a last chunk that claims 3 bytes where 1 is left → 0 -/
example : readtxtbin (rx #[2,0x61,0x62,1,0x63] resLabel 65536) 0 5 4096 = .ok (3, 5, [0x61, 0x62, 0x63])
    ∧ readtxtbin (rx #[2,0x61,0x62,3,0x63] resLabel 65536) 0 5 4096 = .ok (0, 4, [0x61, 0x62]) := by decide

/-- `dns_get_id(packet, packetlen)` -/
theorem dns_get_id_residue_indep (pkt r₁ r₂ : Array Nat) (cap : Nat) :
    dnsGetId (rx pkt r₁ cap) = dnsGetId (rx pkt r₂ cap) :=
  dnsGetId_indep pkt r₁ r₂ cap

example : dnsGetId (rx query1 resLabel 65536) = .ok 0x1234 ∧ dnsGetId (rx #[0x12, 0x34] #[0xff] 65536) = .ok 0 := by
  decide

/-! ### no fault (the read-side part of C05/C06); termination

The loops of `readname_loop` and `readtxtbin` are modelled with fuel (`pkt.size` iterations per activation
of `readname_loop`, recursion depth 10 as in C; `srcremain` iterations in `readtxtbin`) and running out of
fuel is the fault `Fault.fuel`: the theorems below therefore also state that the fuel suffices. -/

/-- `readname` does not fault, and what it stores in `dst[length]` is nothing (return value 0) or at most
`length` bytes the last of which is the terminating NUL (the return value counts them). -/
theorem readname_no_fault (b : RxBuf) (hcap : b.pkt.size ≤ b.cap) (off length : Nat) (hl : 3 ≤ length) :
    ∃ src' w, readname b off length = .ok (src', w) ∧ w.length ≤ length ∧ (w = [] ∨ ∃ w', w = w' ++ [0]) := by
  obtain ⟨⟨src', w⟩, hr, hlen, hterm⟩ := readname_spec b hcap off length hl
  exact ⟨src', w, hr, hlen, hterm⟩

/-- non-vacuity: a pointer loop (offset 12 points to 14, 14 points to 12) ends after 10 activations with
nothing written; a label of 12 bytes read into `dst[8]` fills it to the last byte (7 + NUL). -/
example : readname (rx #[0,0,0,0,0,0,0,0,0,0,0,0, 0xc0,14, 0xc0,12] #[] 65536) 12 256 = .ok (14, []) := by decide

example : readname (rx #[0,0,0,0,0,0,0,0,0,0,0,0, 12,97,98,99,100,101,102,103,104,105,106,107,108,0] #[] 65536) 12 8
    = .ok (21, [97, 98, 99, 100, 101, 102, 103, 0]) := by decide

theorem readtxtbin_no_fault (b : RxBuf) (hcap : b.pkt.size ≤ b.cap) (src srcremain dstremain : Nat)
    (h : src + srcremain ≤ b.pkt.size) :
    ∃ rv src' out, readtxtbin b src srcremain dstremain = .ok (rv, src', out)
      ∧ rv ≤ out.length ∧ out.length ≤ dstremain :=
  readtxtbin_ok b hcap src srcremain dstremain h

/-- non-vacuity: the chunk does not fit `dst[2]` → 0, nothing stored -/
example : readtxtbin (rx #[3,0x61,0x62,0x63] #[] 65536) 0 4 2 = .ok (0, 1, []) := by decide

theorem dns_get_id_no_fault (b : RxBuf) (hcap : b.pkt.size ≤ b.cap) : ∃ r, dnsGetId b = .ok r :=
  dnsGetId_ok b hcap

theorem dns_decode_query_no_fault (b : RxBuf) (hcap : b.pkt.size ≤ b.cap) : ∃ r, dnsDecodeQuery b = .ok r :=
  dnsDecodeQuery_ok b hcap

/-- non-vacuity: a datagram that fills the whole buffer (`pkt.size = cap`); query cut inside the
question (CHECKLEN(4) fails) -/
example : (dnsDecodeQuery (rx query1 #[] 23)).map (·.rv) = .ok 5
    ∧ (dnsDecodeQuery (rx (query1.extract 0 21) resLabel 65536)).map (·.rv) = .ok 0 := by decide

/-- `dns_decode(buf, buflen, q, QR_ANSWER, …)` with a non-empty `buf` does not fault — for all packets.
(`1 ≤ buflen` cannot be dropped: see the two witnesses below.) -/
theorem dns_decode_answer_no_fault (b : RxBuf) (hcap : b.pkt.size ≤ b.cap) (buflen : Nat) (hbuf : 1 ≤ buflen) :
    ∃ r, dnsDecodeAnswer buflen b = .ok r :=
  (dnsDecodeAnswer_good b hcap buflen).1 hbuf

/-- non-vacuity: the MX answer with the hosts "ab" and "cde" decodes to "ab\0cde\0\0" (rv = 7 excludes
the final NUL) when there is room; into the 4 bytes `get_external_ip` passes it decodes to "ab\0" + NUL and
stops (`offset + 2 >= buflen`; before the repair the second host was copied behind `buf` here); into 3 bytes
the first host is cut to "a"; into 1 or 2 bytes nothing but the final NUL is stored.
The CNAME answer "h" decodes to "h", cut to "" by `buf[buflen-1] = 0` when `buflen = 1`. -/
example : dnsDecodeAnswer 65536 (rx answerMx2 resPtr 65536)
      = .ok { rv := 7, id := 9, type := 15, rcode := 0, name := [0x61],
              buf := [0x61, 0x62, 0, 0x63, 0x64, 0x65, 0, 0] }
    ∧ dnsDecodeAnswer 8 (rx answerMx2 resPtr 65536)
      = .ok { rv := 7, id := 9, type := 15, rcode := 0, name := [0x61],
              buf := [0x61, 0x62, 0, 0x63, 0x64, 0x65, 0, 0] }
    ∧ dnsDecodeAnswer 4 (rx answerMx2 resPtr 65536)
      = .ok { rv := 3, id := 9, type := 15, rcode := 0, name := [0x61], buf := [0x61, 0x62, 0, 0] }
    ∧ dnsDecodeAnswer 3 (rx answerMx2 resPtr 65536)
      = .ok { rv := 2, id := 9, type := 15, rcode := 0, name := [0x61], buf := [0x61, 0, 0] }
    ∧ dnsDecodeAnswer 2 (rx answerMx2 resPtr 65536)
      = .ok { rv := 0, id := 9, type := 15, rcode := 0, name := [0x61], buf := [0] }
    ∧ dnsDecodeAnswer 1 (rx answerMx2 resPtr 65536)
      = .ok { rv := 0, id := 9, type := 15, rcode := 0, name := [0x61], buf := [0] }
    ∧ dnsDecodeAnswer 2 (rx answerCname1 resPtr 65536)
      = .ok { rv := 1, id := 7, type := 5, rcode := 0, name := [0x61], buf := [0x68] }
    ∧ dnsDecodeAnswer 1 (rx answerCname1 resPtr 65536)
      = .ok { rv := 0, id := 7, type := 5, rcode := 0, name := [0x61], buf := [] } := by decide

/-- `buflen = 0`: a CNAME answer executes `buf[buflen - 1] = '\0'` (a write at `buf[-1]`), an MX/SRV answer
the final `*(buf + offset) = '\0'` at `buf[0]` of an empty buffer; a NULL answer is harmless (0 bytes copied,
rv = 0). -/
example : dnsDecodeAnswer 0 (rx answerCname1 #[] 65536) = .error .oobWrite
    ∧ dnsDecodeAnswer 0 (rx answerMx2 #[] 65536) = .error .oobWrite
    ∧ dnsDecodeAnswer 0 (rx answerNull4 #[] 65536)
      = .ok { rv := 0, id := 0x1234, type := 10, rcode := 0, name := [0x61], buf := [] } := by decide

/-- hence the statement without `1 ≤ buflen` is false -/
theorem dns_decode_answer_no_fault_needs_buflen :
    ¬ ∀ (buflen : Nat) (b : RxBuf), b.pkt.size ≤ b.cap → ∃ r, dnsDecodeAnswer buflen b = .ok r := by
  intro h
  obtain ⟨r, hr⟩ := h 0 (rx answerCname1 #[] 65536) (by decide)
  have : dnsDecodeAnswer 0 (rx answerCname1 #[] 65536) = .error .oobWrite := by decide
  rw [this] at hr
  cases hr

/-- for EVERY `buflen` (also 0): the only fault `dns_decode(QR_ANSWER)` can run into is that write outside
the caller's `buf` — it never reads outside the receive buffer, never writes outside
`name`/`rdata`/`names`, never runs out of fuel. -/
theorem dns_decode_answer_only_buf_fault (b : RxBuf) (hcap : b.pkt.size ≤ b.cap) (buflen : Nat) (f : Fault)
    (h : dnsDecodeAnswer buflen b = .error f) : f = .oobWrite :=
  (dnsDecodeAnswer_good b hcap buflen).2 f h

/-- … and with `dns_decode_answer_no_fault`: a fault implies `buflen = 0` -/
theorem dns_decode_answer_fault_only_empty_buf (b : RxBuf) (hcap : b.pkt.size ≤ b.cap) (buflen : Nat) (f : Fault)
    (h : dnsDecodeAnswer buflen b = .error f) : buflen = 0 ∧ f = .oobWrite := by
  refine ⟨?_, dns_decode_answer_only_buf_fault b hcap buflen f h⟩
  apply Decidable.byContradiction
  intro hb
  obtain ⟨r, hr⟩ := dns_decode_answer_no_fault b hcap buflen (by omega)
  rw [hr] at h
  cases h

/-! ### The server's receive path as a whole (`read_dns`, Server/Bytes.lean)

`Server.decodeInputR res s src bytes` is `read_dns` on the datagram `bytes` with the bytes `res` left behind it in
`packet[64*1024]`: the 64 KiB cut of `recvmsg`, `raw_decode`'s test, `dns_decode(QR_QUERY)`, the `<= 0` test.
`Server.biterationR res` is one whole iteration of `tunnel()` at byte level over that residue. -/

open Iodine.Server in
/-- **read_dns_no_fault** (decodeInput_total).  For EVERY datagram (any length, any bytes), every residue, every state and
sender, `read_dns` reads no byte outside `packet[64K]`, writes outside no array and terminates: it hands on a raw frame,
a decoded query, or drops the datagram. -/
theorem read_dns_no_fault (res : Array Nat) (s : Srv) (src : Addr) (bytes : List Nat) :
    ∃ i, decodeInputR res s src bytes = .ok i := by
  unfold decodeInputR
  extract_lets pkt
  split
  · exact ⟨_, rfl⟩
  · split
    · exact ⟨_, rfl⟩
    · obtain ⟨d, hd⟩ := dns_decode_query_no_fault (rxBuf res pkt) (by simp [rxBuf, pkt]; omega)
      rw [hd]
      simp only [Wire.bind_ok]
      split <;> exact ⟨_, rfl⟩

open Iodine.Server in
/-- **read_dns_residue_independent.**  What `read_dns` hands on — raw frame, decoded query (id, type, name, sender, local
address) or nothing — is the same for every content of the receive buffer behind the datagram. -/
theorem read_dns_residue_independent (r₁ r₂ : Array Nat) (s : Srv) (src : Addr) (bytes : List Nat) :
    decodeInputR r₁ s src bytes = decodeInputR r₂ s src bytes := by
  unfold decodeInputR
  extract_lets pkt
  have : dnsDecodeQuery (rxBuf r₁ pkt) = dnsDecodeQuery (rxBuf r₂ pkt) :=
    dns_decode_query_residue_indep pkt.toArray r₁ r₂ 65536
  rw [this]

open Iodine.Server in
/-- `Server.decodeInput` (the zero-residue instance the driver runs) is `read_dns` for every residue -/
theorem read_dns_eq (res : Array Nat) (s : Srv) (src : Addr) (bytes : List Nat) :
    decodeInputR res s src bytes = .ok (decodeInput s src bytes) := by
  obtain ⟨i, hi⟩ := read_dns_no_fault #[] s src bytes
  rw [read_dns_residue_independent res #[] s src bytes]
  unfold decodeInput
  rw [hi]

open Iodine.Server in
/-- **session_iteration_residue_independent.**  A whole iteration of the server at byte level — the new state (all
sessions, the forward ring, the static counters of `write_dns_nameenc`), every datagram sent, every tun write, the select
timeout — on ANY input, over ANY residue in the receive buffer, never faults in the receive path and equals the iteration
computed from the datagram's own bytes: stale bytes of earlier (longer) datagrams are never parsed, echoed or delivered. -/
theorem session_iteration_residue_independent (res : Array Nat) (b : BSrv) (inp : BInput) (now' : Nat) :
    biterationR res b inp now' = some (biteration b inp now') := by
  cases inp with
  | dgram src bytes =>
    unfold biterationR biteration toInput
    simp only [read_dns_eq res b.srv src bytes]
  | tun f => rfl
  | bind d => rfl
  | tick => rfl

/-- a version request `vaa.t.co`, type NULL, id 0x1234 -/
def exQueryFull : List Nat :=
  [0x12, 0x34, 0x01, 0x00, 0, 1, 0, 0, 0, 0, 0, 0, 3, 118, 97, 97, 1, 116, 2, 99, 111, 0, 0, 10, 0, 1]

def exSrvCfg : Server.Config :=
  { checkIp := true, password := List.replicate 32 0, myIp := 0x0a000001, netmask := 27,
    topdomain := [116, 46, 99, 111], mtu := 1130, nsIp := 0, bindPort := 0, dest4 := 0x0a090909, dest6 := 0,
    createdUsers := 0 }

open Iodine.Server in
/-- non-vacuity: the query cut inside its question name, over a residue that would complete it, is dropped exactly as over
zeros; the complete datagram is handed on as a query -/
example :
    (match decodeInputR (exQueryFull.drop 14).toArray (start exSrvCfg []) ⟨4, 0x0a630001, 53⟩ (exQueryFull.take 14) with
      | .ok .tick => true
      | _ => false) = true
    ∧ (match decodeInput (start exSrvCfg []) ⟨4, 0x0a630001, 53⟩ exQueryFull with
      | .q q => (q.name, q.id, q.type)
      | _ => ([], 0, 0)) = ([118, 97, 97, 46, 116, 46, 99, 111], 0x1234, 10) := by
  decide +kernel

end Iodine.C12
