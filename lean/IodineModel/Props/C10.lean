import IodineModel.Wire.Put
import IodineModel.Wire.DnsEncode
import IodineModel.Wire.Strict
import IodineModel.Lemmas.Strict
import IodineModel.Lemmas.WirePut
/-
C10 — every datagram emitted in DNS mode is a well-formed RFC 1035 message that echoes its question.

The specification side is the strict parser `Iodine.Wire.Strict.parseMsg` (IodineModel/Wire/Strict.lean,
written independently of the model of dns.c) plus the small vocabulary below (`labels`, `LegalName`, …).
The model is IodineModel/Wire/Put.lean + DnsEncode.lean; helper lemmas are in Lemmas/Strict.lean (parser)
and Lemmas/WirePut.lean (closed forms of the encoders).

Every theorem has the shape: for legal inputs and a buffer that is large enough (the exact number of
bytes is in the hypothesis; the server uses 64 KiB buffers, the client 4096 bytes) the encoder returns
`R.ok pkt` — i.e. no early `return 0`, no store outside the buffer — and `parseMsg pkt = some m` with `m`
spelled out: id, flags, the echoed question, and the records.
-/
namespace Iodine.C10
open Iodine.Wire Iodine.Wire.Put Iodine.Wire.DnsEncode Iodine.Wire.Strict

/-! ### Specification vocabulary -/

/-- the labels of a dotted name: the pieces between the dots (`"a..b"` has an empty middle label) -/
def labels : List Nat → List (List Nat)
  | [] => [[]]
  | c :: cs =>
    if c = 46 then [] :: labels cs
    else match labels cs with
      | l :: ls => (c :: l) :: ls
      | [] => [[c]]

/-- A legal host name in iodine's representation (dotted C string): at most 253 characters, made of bytes
other than NUL, and every label (piece between dots) has 1..63 bytes. -/
def LegalName (n : List Nat) : Prop :=
  n.length ≤ 253 ∧ (∀ c ∈ n, c ≠ 0 ∧ c < 256) ∧ ∀ l ∈ labels n, 1 ≤ l.length ∧ l.length ≤ 63

instance (n : List Nat) : Decidable (LegalName n) := by unfold LegalName; infer_instance

/-- a payload: bytes -/
def IsBytes (d : List Nat) : Prop := ∀ b ∈ d, b < 256

instance (d : List Nat) : Decidable (IsBytes d) := by unfold IsBytes; infer_instance

/-- the record types whose RDATA is opaque for RFC 1035/2782/6891 (everything but A, NS, CNAME, PTR, MX,
TXT, SRV, OPT); in particular NULL (10) and iodine's PRIVATE (65399) -/
def Opaque (ty : Nat) : Prop := ty ∉ [1, 2, 5, 12, 15, 16, 33, 41]

instance (ty : Nat) : Decidable (Opaque ty) := by unfold Opaque; infer_instance

/-- the answer record every iodine answer starts from: owner = the query name, class IN, TTL 0 -/
def answerRR (qn : List Nat) (ty : Nat) (rdata : List Nat) (view : RData) : RR :=
  ⟨labels qn, ty, 1, 0, rdata, view⟩

/-! ### Glue between the vocabulary and the lemma files -/

theorem labels_eq_split (s : List Nat) : labels s = (splitDot s).1 :: (splitDot s).2 := by
  induction s with
  | nil => rfl
  | cons c r ih =>
    simp only [labels, splitDot]
    split
    · rw [ih]
    · rw [ih]

theorem mem_of_mem_labels (s : List Nat) : ∀ l ∈ labels s, ∀ c ∈ l, c ∈ s := by
  induction s with
  | nil => intro l hl c hc; simp [labels] at hl; subst hl; simp at hc
  | cons a r ih =>
    intro l hl c hc
    simp only [labels] at hl
    split at hl
    · simp only [List.mem_cons] at hl
      rcases hl with rfl | hl
      · simp at hc
      · exact List.mem_cons_of_mem _ (ih l hl c hc)
    · split at hl
      · rename_i l0 ls heq
        simp only [List.mem_cons] at hl
        rcases hl with rfl | hl
        · simp only [List.mem_cons] at hc
          rcases hc with rfl | hc
          · simp
          · exact List.mem_cons_of_mem _ (ih l0 (by rw [heq]; simp) c hc)
        · exact List.mem_cons_of_mem _ (ih l (by rw [heq]; simp [hl]) c hc)
      · simp only [List.mem_cons, List.not_mem_nil, or_false] at hl
        subst hl
        simp only [List.mem_cons, List.not_mem_nil, or_false] at hc
        subst hc
        simp

/-- what a legal name gives the lemma files -/
structure NameFacts (n : List Nat) : Prop where
  tok : tokens n = labels n
  ok : LabelsOK (labels n)
  len : labLen (labels n) = n.length + 1
  le63 : ∀ l ∈ tokens n, l.length ≤ 63
  bytes : Bytes (encName (labels n))
  ne : labels n ≠ []
  le253 : n.length ≤ 253

theorem nameFacts {n : List Nat} (h : LegalName n) : NameFacts n := by
  obtain ⟨hlen, hch, hlab⟩ := h
  have hsplit := labels_eq_split n
  have htok : tokens n = labels n := by
    rw [hsplit]
    apply tokens_eq_split
    intro l hl
    rw [← hsplit] at hl
    have := hlab l hl
    intro he; rw [he] at this; simp at this
  refine ⟨htok, hlab, ?_, ?_, ?_, ?_, hlen⟩
  · rw [hsplit]; exact splitDot_labLen n
  · rw [htok]; intro l hl; exact (hlab l hl).2
  · apply Bytes_encName
    · intro l hl; have := hlab l hl; omega
    · intro l hl c hc; exact (hch c (mem_of_mem_labels n l hl c hc)).2
  · rw [hsplit]; simp

theorem lookup_question {ls : Name} (hne : ls ≠ []) (e : List (Nat × Name)) :
    lookup (entriesT 12 ls [] ++ e) 12 = some ls := by
  apply lookup_append_of_some
  have := lookup_entriesT_mid [] ls [] hne (by intro l hl; simp at hl) 12
  simpa using this

theorem be16_namePtr : be16 namePtr = encPtr 12 := by decide
theorem be16_flagsA : be16 0x8400 = [0x84, 0] := by decide
theorem be16_flagsQ : be16 0x0100 = [0x01, 0] := by decide

/-- Header + one question + the sections: what remains to be shown for a concrete message is how its
answer records and additional records parse. -/
theorem parse_msg (id f1 ty an ar : Nat) (n : List Nat) (nf : NameFacts n) (body : List Nat)
    (ra rr : List RR) (s2 s3 : St)
    (hid : id < 65536) (hf : f1 < 256) (hty : ty < 65536) (han : an < 65536) (har : ar < 65536)
    (h2 : parseRRs .answer an ⟨body, 12 + labLen (labels n) + 1 + 4, entriesT 12 (labels n) []⟩ = some (ra, s2))
    (h4 : parseRRs .additional ar s2 = some (rr, s3)) (hend : s3.inp = []) (hb : Bytes body) :
    parseMsg (be16 id ++ [f1, 0] ++ be16 1 ++ be16 an ++ be16 0 ++ be16 ar ++ (qBytes (labels n) ty ++ body)) =
      some ⟨id, f1 * 256, [(labels n, ty, 1)], ra, [], rr⟩ := by
  have h253 := nf.le253
  have hbytes : Bytes (be16 id ++ [f1, 0] ++ be16 1 ++ be16 an ++ be16 0 ++ be16 ar ++
      (qBytes (labels n) ty ++ body)) := by
    simp only [Bytes_append, qBytes]
    exact ⟨⟨⟨⟨⟨⟨Bytes_be16 _, by simp [Bytes]; omega⟩, Bytes_be16 _⟩, Bytes_be16 _⟩, Bytes_be16 _⟩, Bytes_be16 _⟩,
      ⟨nf.bytes, Bytes_be16 _, Bytes_be16 _⟩, hb⟩
  rw [parseMsg_of_bytes _ hbytes]
  have hq := parseQuestions_one (labels n) nf.ok (by rw [nf.len]; omega) ty 1 hty (by omega) body
  have hfl : be16 (f1 * 256) = [f1, 0] := by
    simp only [be16]
    rw [show f1 * 256 / 256 % 256 = f1 by omega, show f1 * 256 % 256 = 0 by omega]
  have := parseBody_of id (f1 * 256) 1 an 0 ar hid (by omega) (by omega) han (by omega) har
    (qBytes (labels n) ty ++ body) _ _ [] _ _ _ _ _
    (by simpa [qBytes] using hq) h2 rfl h4 hend
  simpa [msgHeader, hfl] using this

/-- a record whose owner is the pointer 0xc00c, in a message whose question name is registered -/
theorem parseRR_c00c (sec : Section) (n : List Nat) (nf : NameFacts n) (pos : Nat) (k k2 : List (Nat × Name))
    (hk : lookup k 12 = some (labels n)) (hpos : 12 < pos)
    (ty ttl : Nat) (rd rest : List Nat) (view : RData)
    (hty : ty < 65536) (httl : ttl < 4294967296) (hrd : rd.length < 65536)
    (hview : parseRData sec (labels n) ty rd.length ⟨rd ++ rest, pos + 12, k ++ [(pos, labels n)]⟩ =
      some (view, ⟨rest, pos + 12 + rd.length, k2⟩)) :
    parseRR sec ⟨rrBytes namePtr ty ttl rd ++ rest, pos, k⟩ =
      some (⟨labels n, ty, 1, ttl, rd, view⟩, ⟨rest, pos + 12 + rd.length, k2⟩) := by
  have h253 := nf.le253
  have := parseRR_ptr sec 12 pos k k2 (labels n) hk (by omega) hpos (by rw [nf.len]; omega)
    ty 1 ttl rd rest view hty (by omega) httl hrd hview
  simpa [rrBytes, be16_namePtr] using this

theorem opaque_iff {ty : Nat} (h : Opaque ty) : OpaqueType ty := by
  simp only [Opaque, List.mem_cons, List.not_mem_nil, or_false, not_or] at h
  exact ⟨h.1, h.2.1, h.2.2.1, h.2.2.2.1, h.2.2.2.2.1, h.2.2.2.2.2.1, h.2.2.2.2.2.2.1, h.2.2.2.2.2.2.2⟩

/-! ### Answers with opaque RDATA (NULL, PRIVATE, …) -/

/-- **answer_null_wellformed.**  For a record type with opaque RDATA (NULL, PRIVATE and every type other
than A/NS/CNAME/PTR/MX/TXT/SRV/OPT), a legal query name and any payload that fits
(`qn.length + 30 + data.length ≤ buflen`, buffer at most 64 KiB as in iodined.c) `dns_encode` emits a
well-formed message: id and question echoed, flags QR|AA, exactly one answer record owned by the query
name (through the pointer 0xc00c), of the question's type, class IN, TTL 0, whose RDATA is exactly the
payload; no authority / additional records. -/
theorem answer_null_wellformed (buflen id ty : Nat) (qn data : List Nat)
    (hid : id < 65536) (hty : ty < 65536) (hop : Opaque ty) (hqn : LegalName qn) (hdata : IsBytes data)
    (hfit : qn.length + 30 + data.length ≤ buflen) (hbuf : buflen ≤ 65536) :
    ∃ pkt, dnsEncodeAnswer buflen id ty qn data data.length = .ok pkt ∧
      pkt.length = qn.length + 30 + data.length ∧
      parseMsg pkt = some ⟨id, 0x8400, [(labels qn, ty, 1)], [answerRR qn ty data .other], [], []⟩ := by
  have nf := nameFacts hqn
  have h253 := nf.le253
  have hop' := opaque_iff hop
  have hbr : ∀ b : Buf, b.cap = buflen → b.pos = 12 + labLen (tokens qn) + 5 →
      ansBranch buflen ty b data data.length = .ok (b.app (rrBytes namePtr ty 0 data), 1) := by
    intro b hcap hpos
    unfold ansBranch
    rw [if_neg (by simp [T_CNAME, T_A]; exact ⟨hop'.2.2.1, hop'.1⟩),
      if_neg (by simp [T_MX, T_SRV]; exact ⟨hop'.2.2.2.2.1, hop'.2.2.2.2.2.2.1⟩),
      if_neg (by simp [T_TXT]; exact hop'.2.2.2.2.2.1)]
    exact ansNull_ok buflen ty b data hcap (by rw [hpos, nf.tok, nf.len]; omega)
  have henc := dnsEncodeAnswer_of buflen id ty qn data data.length nf.le63
    (by rw [nf.tok, nf.len]; omega) _ 1 hbr
  refine ⟨_, henc, ?_, ?_⟩
  · simp [nf.tok, nf.len]; omega
  · rw [nf.tok]
    have hrr := parseRR_c00c .answer qn nf (12 + labLen (labels qn) + 1 + 4) (entriesT 12 (labels qn) []) _
      (by simpa using lookup_question nf.ne []) (by omega) ty 0 data [] .other hty (by omega) (by omega)
      (by rw [parseRData_other _ _ _ hop'])
    have := parse_msg id 0x84 ty 1 0 qn nf (rrBytes namePtr ty 0 data) _ [] _ _ hid (by omega) hty
      (by omega) (by omega) (parseRRs_one _ _ _ _ (by simpa using hrr)) rfl rfl
      (by simp only [rrBytes, Bytes_append]; exact ⟨Bytes_be16 _, Bytes_rrFixed _ _ _ _, hdata⟩)
    simpa [answerRR] using this

/-- non-vacuity: a NULL answer and a PRIVATE answer -/
example := answer_null_wellformed 65536 7727 10 [97, 98, 46, 116] [0, 255, 1] (by decide) (by decide) (by decide)
  (by decide) (by decide) (by decide) (by decide)
example : Opaque 65399 ∧ Opaque 10 ∧ ¬ Opaque 16 := by decide

example : dnsEncodeAnswer 512 7727 10 [97, 98, 46, 116] [0, 255, 1] 3 =
    .ok [0x1e, 0x2f, 0x84, 0, 0, 1, 0, 1, 0, 0, 0, 0, 2, 97, 98, 1, 116, 0, 0, 10, 0, 1,
         0xc0, 0x0c, 0, 10, 0, 1, 0, 0, 0, 0, 0, 3, 0, 255, 1] := by decide +kernel

/-! ### Queries -/

/-- the EDNS0 pseudo-record iodine's queries carry: root owner, type OPT, "class" = UDP payload size 4096,
"TTL" = extended rcode 0 / version 0 / DO bit (0x00008000), no options -/
def optRR : RR := ⟨[], 41, 4096, 0x8000, [], .opt []⟩

theorem parseRR_opt (pos : Nat) (k : List (Nat × Name)) :
    parseRR .additional ⟨optBytes, pos, k⟩ = some (optRR, ⟨[], pos + 11, k⟩) := by
  have hown : ∀ tl, parseName ⟨[0] ++ tl, pos, k⟩ = some ([], ⟨tl, pos + 1, k⟩) := by
    intro tl
    have := parseName_enc [] (by intro l hl; simp at hl) (by simp) pos k tl
    simpa [encName, entriesT] using this
  have := parseRR_compose .additional [0] [] [] pos (pos + 1) k k k [] 41 4096 0x8000 (.opt [])
    (by omega) (by omega) (by omega) (by simp) hown (by simpa using parseRData_opt_empty [] (pos + 1 + 10) k)
  simpa [optBytes, optRR] using this

/-- **query_wellformed.**  A query for a legal name (what client.c `send_query` and iodined.c's forwarder
emit): `12 + (|qn| + 2) + 4 (+ 11 with EDNS0)` bytes — always at most 282, far below the client's 4096-byte
buffer — parse strictly as: the given id, flags = RD only, one question (labels of `qn`, the type, class IN),
no answer/authority records, and either no additional record or exactly the OPT record announcing a
4096-byte UDP payload. -/
theorem query_wellformed (buflen id ty : Nat) (edns : Bool) (qn : List Nat)
    (hid : id < 65536) (hty : ty < 65536) (hqn : LegalName qn)
    (hfit : qn.length + 18 + (if edns then 11 else 0) ≤ buflen) :
    ∃ pkt, dnsEncodeQuery buflen id ty edns qn = .ok pkt ∧
      pkt.length = qn.length + 18 + (if edns then 11 else 0) ∧
      parseMsg pkt = some ⟨id, 0x0100, [(labels qn, ty, 1)], [], [], if edns then [optRR] else []⟩ := by
  have nf := nameFacts hqn
  have h253 := nf.le253
  have henc := dnsEncodeQuery_ok buflen id ty edns qn nf.le63 (by omega)
  refine ⟨_, henc, ?_, ?_⟩
  · cases edns <;> simp [nf.tok, nf.len, optBytes] <;> omega
  · rw [nf.tok]
    cases edns with
    | false =>
      have := parse_msg id 0x01 ty 0 0 qn nf [] [] [] _ _ hid (by omega) hty (by omega) (by omega)
        rfl rfl rfl Bytes_nil
      simpa using this
    | true =>
      have := parse_msg id 0x01 ty 0 1 qn nf optBytes [] [optRR] _ _ hid (by omega) hty (by omega) (by omega)
        rfl (parseRRs_one _ _ _ _ (parseRR_opt _ _)) rfl (by decide)
      simpa using this

example : dnsEncodeQuery 4096 7727 10 true [97, 98, 46, 116] =
    .ok [0x1e, 0x2f, 1, 0, 0, 1, 0, 0, 0, 0, 0, 1, 2, 97, 98, 1, 116, 0, 0, 10, 0, 1,
         0, 0, 41, 16, 0, 0, 0, 128, 0, 0, 0] := by decide +kernel

/-- the client's buffer (`char packet[4096]` in client.c) is always large enough -/
theorem query_wellformed_client (id ty : Nat) (edns : Bool) (qn : List Nat)
    (hid : id < 65536) (hty : ty < 65536) (hqn : LegalName qn) :
    ∃ pkt, dnsEncodeQuery 4096 id ty edns qn = .ok pkt ∧
      parseMsg pkt = some ⟨id, 0x0100, [(labels qn, ty, 1)], [], [], if edns then [optRR] else []⟩ := by
  have h := hqn.1
  obtain ⟨pkt, h1, _, h2⟩ := query_wellformed 4096 id ty edns qn hid hty hqn (by split <;> omega)
  exact ⟨pkt, h1, h2⟩
example : LegalName [97, 98, 46, 116] ∧ labels [97, 98, 46, 116] = [[97, 98], [116]] := by decide

/-! ### TXT answers -/

/-- RDATA made of the character strings `ss` (length byte, bytes) -/
def txtRData (ss : List (List Nat)) : List Nat := ss.flatMap (fun s => s.length :: s)

/-- **answer_txt_wellformed.**  TXT answer for a legal query name and a non-empty payload that fits
(`|qn| + 30 + |data| + ⌈|data|/252⌉ ≤ buflen ≤ 64 KiB`): one answer record of type TXT owned by the query
name whose RDATA is tiled exactly by one or more character strings of at most 252 bytes (the code cuts at
252, "allow off-by-1s in caches etc"), and the strings concatenated are the payload. -/
theorem answer_txt_wellformed (buflen id : Nat) (qn data : List Nat)
    (hid : id < 65536) (hqn : LegalName qn) (hdata : IsBytes data) (hne : data ≠ [])
    (hfit : qn.length + 30 + data.length + (data.length + 251) / 252 ≤ buflen) (hbuf : buflen ≤ 65536) :
    ∃ pkt ss, dnsEncodeAnswer buflen id 16 qn data data.length = .ok pkt ∧
      pkt.length = qn.length + 30 + data.length + (data.length + 251) / 252 ∧
      parseMsg pkt = some ⟨id, 0x8400, [(labels qn, 16, 1)],
        [answerRR qn 16 (txtRData ss) (.txt ss)], [], []⟩ ∧
      ss ≠ [] ∧ ss.flatten = data ∧ ∀ s ∈ ss, s.length ≤ 252 := by
  have nf := nameFacts hqn
  have h253 := nf.le253
  have hlab := chunks252_labLen data.length data (Nat.le_refl _)
  have hbr : ∀ b : Buf, b.cap = buflen → b.pos = 12 + labLen (tokens qn) + 5 →
      ansBranch buflen 16 b data data.length =
        .ok (b.app (rrBytes namePtr 16 0 (encLabels (chunks252 data.length data))), 1) := by
    intro b hcap hpos
    unfold ansBranch
    rw [if_neg (by decide), if_neg (by decide), if_pos (by decide)]
    exact ansTxt_ok buflen 16 b data hcap (by rw [hpos, nf.tok, nf.len, hlab]; omega)
  have henc := dnsEncodeAnswer_of buflen id 16 qn data data.length nf.le63
    (by rw [nf.tok, nf.len]; omega) _ 1 hbr
  refine ⟨_, chunks252 data.length data, henc, ?_, ?_, ?_, chunks252_flatten _ _ (Nat.le_refl _),
    chunks252_le _ _⟩
  · simp [nf.tok, nf.len, hlab]; omega
  · rw [nf.tok]
    obtain ⟨s0, ss, hss⟩ : ∃ s0 ss, chunks252 data.length data = s0 :: ss := by
      have : chunks252 data.length data ≠ [] := by
        cases hd : data with
        | nil => exact absurd hd hne
        | cons a d => simp [chunks252]
      cases hc : chunks252 data.length data with
      | nil => exact absurd hc this
      | cons s0 ss => exact ⟨s0, ss, rfl⟩
    have hle : ∀ s ∈ s0 :: ss, s.length ≤ 255 := by
      intro s hs; rw [← hss] at hs; have := chunks252_le _ _ s hs; omega
    have hrr := parseRR_c00c .answer qn nf (12 + labLen (labels qn) + 1 + 4) (entriesT 12 (labels qn) []) _
      (by simpa using lookup_question nf.ne []) (by omega) 16 0 (encLabels (s0 :: ss)) [] (.txt (s0 :: ss))
      (by omega) (by omega) (by rw [encLabels_length, ← hss, hlab]; omega)
      (by rw [encLabels_length]; exact parseRData_txt _ _ s0 ss hle [] _ _)
    have hb : Bytes (rrBytes namePtr 16 0 (encLabels (s0 :: ss))) := by
      simp only [rrBytes, Bytes_append]
      refine ⟨Bytes_be16 _, Bytes_rrFixed _ _ _ _, Bytes_encLabels _ ?_ ?_⟩
      · intro l hl; have := hle l hl; omega
      · intro l hl x hx; rw [← hss] at hl; exact hdata x (chunks252_mem _ _ l hl x hx)
    have := parse_msg id 0x84 16 1 0 qn nf (rrBytes namePtr 16 0 (encLabels (s0 :: ss))) _ [] _ _ hid
      (by omega) (by omega) (by omega) (by omega) (parseRRs_one _ _ _ _ (by simpa using hrr)) rfl rfl hb
    rw [hss]
    simpa [answerRR, txtRData, encLabels] using this
  · cases hd : data with
    | nil => exact absurd hd hne
    | cons a d => simp [chunks252]

/-- non-vacuity: a 300-byte payload (two strings) satisfies all hypotheses -/
example := answer_txt_wellformed 65536 1 [97] (List.replicate 300 7) (by decide) (by decide)
  (fun b hb => by rw [List.mem_replicate] at hb; omega)
  (List.ne_nil_of_length_pos (by rw [List.length_replicate]; omega))
  (by rw [List.length_replicate]; decide) (by decide)

example : dnsEncodeAnswer 65536 1 16 [97] [116, 1, 2] 3 =
    .ok [0, 1, 0x84, 0, 0, 1, 0, 1, 0, 0, 0, 0, 1, 97, 0, 0, 16, 0, 1,
         0xc0, 0x0c, 0, 16, 0, 1, 0, 0, 0, 0, 0, 4, 3, 116, 1, 2] := by decide +kernel

/-- An EMPTY payload would give a TXT record with RDLENGTH 0 (zero character strings), which RFC 1035
3.3.14 ("one or more <character-string>s") and the strict parser reject; iodined never does this: it always
prefixes the payload with its encoding letter. -/
example : ∃ pkt, dnsEncodeAnswer 65536 1 16 [97] [] 0 = .ok pkt ∧ parseMsg pkt = none :=
  ⟨[0, 1, 0x84, 0, 0, 1, 0, 1, 0, 0, 0, 0, 1, 97, 0, 0, 16, 0, 1, 0xc0, 0x0c, 0, 16, 0, 1, 0, 0, 0, 0, 0, 0],
    by decide +kernel, by decide +kernel⟩

/-! ### CNAME answers (to CNAME and A questions) -/

theorem cstr_append_nul (dn tl : List Nat) (h : ∀ c ∈ dn, c ≠ 0) : cstr (dn ++ 0 :: tl) = dn := by
  unfold cstr
  induction dn with
  | nil => simp
  | cons a d ih =>
    have ha := h a (by simp)
    simp only [List.cons_append, List.takeWhile_cons, ne_eq, ha, not_false_eq_true, decide_true, if_true]
    rw [ih (fun c hc => h c (by simp [hc]))]

/-- an uncompressed name as RDATA: the labels of the dotted name, root byte -/
def nameRData (dn : List Nat) : List Nat := (labels dn).flatMap (fun l => l.length :: l) ++ [0]

theorem nameRData_eq (dn : List Nat) : nameRData dn = encName (labels dn) := rfl

/-- **answer_cname_wellformed.**  Question of type CNAME (5) or A (1), `data` = the C string `dn` (a legal
name; NUL-terminated in memory, anything after the NUL is ignored): one answer record of type CNAME — also
for the A question — owned by the query name, whose RDATA is exactly the uncompressed encoding of `dn`
(RDLENGTH = |dn| + 2) and parses as the target name `labels dn`. -/
theorem answer_cname_wellformed (buflen id ty : Nat) (qn dn tl : List Nat) (datalen : Nat)
    (hid : id < 65536) (hty : ty = 5 ∨ ty = 1) (hqn : LegalName qn) (hdn : LegalName dn)
    (hfit : qn.length + 30 + dn.length + 2 ≤ buflen) :
    ∃ pkt, dnsEncodeAnswer buflen id ty qn (dn ++ 0 :: tl) datalen = .ok pkt ∧
      pkt.length = qn.length + 30 + dn.length + 2 ∧
      parseMsg pkt = some ⟨id, 0x8400, [(labels qn, ty, 1)],
        [answerRR qn 5 (nameRData dn) (.name (labels dn))], [], []⟩ := by
  have nf := nameFacts hqn
  have nd := nameFacts hdn
  have h253 := nf.le253
  have hd253 := nd.le253
  have hc : cstr (dn ++ 0 :: tl) = dn := cstr_append_nul dn tl (fun c hc => (hdn.2.1 c hc).1)
  have hty5 : (if ty = T_A then T_CNAME else ty) = 5 := by
    rcases hty with h | h <;> simp [h, T_A, T_CNAME]
  have hbr : ∀ b : Buf, b.cap = buflen → b.pos = 12 + labLen (tokens qn) + 5 →
      ansBranch buflen ty b (dn ++ 0 :: tl) datalen =
        .ok (b.app (rrBytes namePtr 5 0 (encName (labels dn))), 1) := by
    intro b hcap hpos
    unfold ansBranch
    rw [if_pos (by simpa [T_CNAME, T_A] using hty)]
    have := ansCname_ok buflen ty b (dn ++ 0 :: tl) hcap (by rw [hc]; exact nd.le63)
      (by rw [hc, hpos, nf.tok, nf.len, nd.tok, nd.len]; omega)
    rw [this, hc, nd.tok, hty5]
  have henc := dnsEncodeAnswer_of buflen id ty qn (dn ++ 0 :: tl) datalen nf.le63
    (by rw [nf.tok, nf.len]; omega) _ 1 hbr
  refine ⟨_, henc, ?_, ?_⟩
  · simp [nf.tok, nf.len, nd.len]; omega
  · rw [nf.tok]
    have hrr := parseRR_c00c .answer qn nf (12 + labLen (labels qn) + 1 + 4) (entriesT 12 (labels qn) []) _
      (by simpa using lookup_question nf.ne []) (by omega) 5 0 (encName (labels dn)) [] (.name (labels dn))
      (by omega) (by omega) (by rw [encName_length, nd.len]; omega)
      (parseRData_name _ _ _ _ (by omega) _ _ _
        (by
          rw [encName_length, ← Nat.add_assoc]
          exact parseName_enc (labels dn) nd.ok (by rw [nd.len]; omega)
            (12 + labLen (labels qn) + 1 + 4 + 12)
            (entriesT 12 (labels qn) [] ++ [(12 + labLen (labels qn) + 1 + 4, labels qn)]) []))
    have hb : Bytes (rrBytes namePtr 5 0 (encName (labels dn))) := by
      simp only [rrBytes, Bytes_append]
      exact ⟨Bytes_be16 _, Bytes_rrFixed _ _ _ _, nd.bytes⟩
    have hty' : ty < 65536 := by omega
    have := parse_msg id 0x84 ty 1 0 qn nf (rrBytes namePtr 5 0 (encName (labels dn))) _ [] _ _ hid
      (by omega) hty' (by omega) (by omega) (parseRRs_one _ _ _ _ (by simpa using hrr)) rfl rfl hb
    simpa [answerRR, nameRData_eq] using this

/-- non-vacuity: an A question answered with the CNAME "hx.yz" -/
example := answer_cname_wellformed 65536 7 1 [97, 46, 98] [104, 120, 46, 121, 122] [0] 1024 (by decide)
  (by decide) (by decide) (by decide) (by decide)

example : dnsEncodeAnswer 512 7 1 [97, 46, 98] [104, 120, 46, 121, 122, 0, 0] 1024 =
    .ok [0, 7, 0x84, 0, 0, 1, 0, 1, 0, 0, 0, 0, 1, 97, 1, 98, 0, 0, 1, 0, 1,
         0xc0, 0x0c, 0, 5, 0, 1, 0, 0, 0, 0, 0, 7, 2, 104, 120, 2, 121, 122, 0] := by decide +kernel

/-! ### MX and SRV answers -/

/-- the memory image the MX/SRV branch walks over: each name NUL-terminated, one more NUL at the end -/
def mxPack (dns : List (List Nat)) : List Nat := dns.flatMap (fun d => d ++ [0]) ++ [0]

/-- typed RDATA of the record with preference/priority `pref`: MX, or SRV with weight 10, port 5060 -/
def mxView (ty pref : Nat) (target : Name) : RData :=
  if ty = 33 then .srv pref 10 5060 target else .mx pref target

/-- its bytes: preference, (weight, port,) uncompressed target -/
def mxRDataBytes (ty pref : Nat) (dn : List Nat) : List Nat :=
  [pref / 256 % 256, pref % 256] ++ ((if ty = 33 then [0, 10, 19, 196] else []) ++ nameRData dn)

/-- the answer section for the names `dns`, numbered from `a`: preferences 10·a, 10·(a+1), … -/
def mxAnswers (qn : List Nat) (ty : Nat) : Nat → List (List Nat) → List RR
  | _, [] => []
  | a, d :: r => answerRR qn ty (mxRDataBytes ty (10 * a) d) (mxView ty (10 * a) (labels d)) ::
      mxAnswers qn ty (a + 1) r

/-- bytes the records take: 12 + 2 (+ 4 for SRV) + (|name| + 2) each -/
def mxSize (ty : Nat) (dns : List (List Nat)) : Nat :=
  (dns.map (fun d => d.length + (if ty = 33 then 20 else 16))).sum

theorem splitNul_append (d r : List Nat) (h : ∀ c ∈ d, c ≠ 0) :
    splitNul (d ++ 0 :: r) = (d, (splitNul r).1 :: (splitNul r).2) := by
  induction d with
  | nil => simp [splitNul]
  | cons a d ih =>
    have ha := h a (by simp)
    simp only [List.cons_append, splitNul, ha, if_false]
    rw [ih (fun c hc => h c (by simp [hc]))]

theorem mxNames_pack (d : List Nat) (dns : List (List Nat)) (tl : List Nat)
    (h : ∀ x ∈ d :: dns, x ≠ [] ∧ ∀ c ∈ x, c ≠ 0) : mxNames (mxPack (d :: dns) ++ tl) = d :: dns := by
  have key : ∀ (l : List (List Nat)), (∀ x ∈ l, x ≠ [] ∧ ∀ c ∈ x, c ≠ 0) →
      ((splitNul (l.flatMap (fun d => d ++ [0]) ++ 0 :: tl)).1 ::
        (splitNul (l.flatMap (fun d => d ++ [0]) ++ 0 :: tl)).2).takeWhile (fun s => !s.isEmpty) = l := by
    intro l
    induction l with
    | nil => intro _; simp [splitNul]
    | cons x l ih =>
      intro hl
      have hx := hl x (by simp)
      simp only [List.flatMap_cons, List.append_assoc, List.cons_append, List.nil_append]
      rw [splitNul_append x _ hx.2]
      simp only []
      rw [List.takeWhile_cons]
      have : (!x.isEmpty) = true := by
        cases x with
        | nil => exact absurd rfl hx.1
        | cons a x => rfl
      rw [if_pos this, ih (fun y hy => hl y (by simp [hy]))]
  unfold mxNames mxPack
  have hd := h d (by simp)
  simp only [List.flatMap_cons, List.append_assoc, List.cons_append, List.nil_append]
  rw [splitNul_append d _ hd.2]
  simp only []
  have := key dns (fun x hx => h x (by simp [hx]))
  rw [this]

theorem mxSize_cons (ty : Nat) (d : List Nat) (r : List (List Nat)) :
    mxSize ty (d :: r) = d.length + (if ty = 33 then 20 else 16) + mxSize ty r := by
  simp [mxSize]

theorem mxRecs_length (ty : Nat) (dns : List (List Nat)) (h : ∀ d ∈ dns, LegalName d) :
    ∀ a, (mxRecs ty a (dns.map tokens)).length = mxSize ty dns := by
  induction dns with
  | nil => intro a; rfl
  | cons d r ih =>
    intro a
    have nd := nameFacts (h d (by simp))
    simp only [List.map_cons, mxRecs, List.length_append, rrBytes_length, mxRData_length, mxSize_cons]
    rw [ih (fun x hx => h x (by simp [hx])) (a + 1), nd.tok, nd.len]
    by_cases h33 : ty = 33 <;> simp [h33, T_SRV] <;> omega

theorem mxSize_ge (ty : Nat) (dns : List (List Nat)) : 16 * dns.length ≤ mxSize ty dns := by
  induction dns with
  | nil => simp [mxSize]
  | cons d r ih =>
    rw [mxSize_cons]
    simp only [List.length_cons]
    split <;> omega

/-- the records of the MX/SRV loop parse one by one -/
theorem parse_mx (qn : List Nat) (nf : NameFacts qn) (ty : Nat) (hty : ty = 15 ∨ ty = 33) :
    ∀ (dns : List (List Nat)) (a pos : Nat) (k : List (Nat × Name)), (∀ d ∈ dns, LegalName d) →
      lookup k 12 = some (labels qn) → 12 < pos → 10 * (a + dns.length) < 65536 →
      ∃ k', parseRRs .answer dns.length ⟨mxRecs ty a (dns.map tokens), pos, k⟩ =
        some (mxAnswers qn ty a dns, ⟨[], pos + mxSize ty dns, k'⟩) := by
  intro dns
  induction dns with
  | nil => intro a pos k _ _ _ _; exact ⟨k, by simp [parseRRs, mxRecs, mxAnswers, mxSize]⟩
  | cons d r ih =>
    intro a pos k hleg hk hpos ha
    have nd := nameFacts (hleg d (by simp))
    have hd253 := nd.le253
    simp only [List.length_cons] at ha
    have hname : ∀ (p : Nat) (kk : List (Nat × Name)) (rest : List Nat),
        parseName ⟨encName (labels d) ++ rest, p, kk⟩ =
          some (labels d, ⟨rest, p + labLen (labels d) + 1, kk ++ entriesT p (labels d) []⟩) :=
      fun p kk rest => parseName_enc (labels d) nd.ok (by rw [nd.len]; omega) p kk rest
    obtain ⟨k', hrest⟩ := ih (a + 1) (pos + 12 + (mxRData ty a (labels d)).length)
      ((k ++ [(pos, labels qn)]) ++ entriesT (pos + 12 + (if ty = 33 then 6 else 2)) (labels d) [])
      (fun x hx => hleg x (by simp [hx]))
      (lookup_append_of_some _ (lookup_append_of_some _ hk)) (by omega) (by omega)
    refine ⟨k', ?_⟩
    simp only [List.map_cons, mxRecs, nd.tok, List.length_cons]
    have hrr : parseRR .answer ⟨rrBytes namePtr ty 0 (mxRData ty a (labels d)) ++
          mxRecs ty (a + 1) (r.map tokens), pos, k⟩ =
        some (⟨labels qn, ty, 1, 0, mxRData ty a (labels d), mxView ty (10 * a) (labels d)⟩,
          ⟨mxRecs ty (a + 1) (r.map tokens), pos + 12 + (mxRData ty a (labels d)).length,
            (k ++ [(pos, labels qn)]) ++ entriesT (pos + 12 + (if ty = 33 then 6 else 2)) (labels d) []⟩) := by
      apply parseRR_c00c .answer qn nf pos k _ hk hpos ty 0 _ _ _ (by omega) (by omega)
        (by rw [mxRData_length, nd.len]; split <;> omega)
      rcases hty with h | h
      · subst h
        have := parseRData_mx .answer (labels qn) (mxRData 15 a (labels d)).length (10 * a) (by omega)
          (encName (labels d) ++ mxRecs 15 (a + 1) (r.map tokens)) (pos + 12)
          (k ++ [(pos, labels qn)]) _ _ (hname _ _ _)
        simp only [mxRData, T_SRV, mxView] at this ⊢
        simp only [show (15 : Nat) ≠ 33 by decide, if_false, List.nil_append, List.append_assoc] at this ⊢
        rw [this]
        simp
        omega
      · subst h
        have := parseRData_srv .answer (labels qn) (mxRData 33 a (labels d)).length (10 * a) 10 5060
          (by omega) (by omega) (by omega)
          (encName (labels d) ++ mxRecs 33 (a + 1) (r.map tokens)) (pos + 12)
          (k ++ [(pos, labels qn)]) _ _ (hname _ _ _)
        simp only [mxRData, T_SRV, mxView] at this ⊢
        simp only [if_true, List.append_assoc] at this ⊢
        rw [this]
        simp
        omega
    have hsz : pos + 12 + (mxRData ty a (labels d)).length + mxSize ty r = pos + mxSize ty (d :: r) := by
      rw [mxRData_length, nd.len, mxSize_cons]
      by_cases h33 : ty = 33 <;> simp [h33, T_SRV] <;> omega
    rw [hsz] at hrest
    have := parseRRs_cons .answer r.length _ _ _ _ _ hrr hrest
    rw [this]
    simp only [mxAnswers, answerRR]
    simp only [mxRData, mxRDataBytes, be16, T_SRV, nameRData_eq]
    rcases hty with h | h <;> subst h <;> simp

theorem bytes_mxRecs (ty : Nat) (dns : List (List Nat)) (h : ∀ d ∈ dns, LegalName d) :
    ∀ a, Bytes (mxRecs ty a (dns.map tokens)) := by
  induction dns with
  | nil => intro a; exact Bytes_nil
  | cons d r ih =>
    intro a
    have nd := nameFacts (h d (by simp))
    simp only [List.map_cons, mxRecs, rrBytes, mxRData, Bytes_append, nd.tok]
    refine ⟨⟨Bytes_be16 _, Bytes_rrFixed _ _ _ _, Bytes_be16 _, ?_, nd.bytes⟩, ih (fun x hx => h x (by simp [hx])) _⟩
    split
    · exact Bytes_append.2 ⟨Bytes_be16 _, Bytes_be16 _⟩
    · exact Bytes_nil

/-- **answer_mx_srv_wellformed.**  Question of type MX (15) or SRV (33); `data` is the NUL-separated list
of the legal names `d :: dns` (ended by an empty string; whatever follows is ignored).  If everything fits
(`|qn| + 18 + Σ (|name| + 16)` bytes, `+ 20` per name for SRV; buffer ≤ 64 KiB) the answer section has one
record per name, in order, each owned by the query name, of the question's type, with preference /
priority 10, 20, 30, … (SRV: weight 10, port 5060) and the name as uncompressed target. -/
theorem answer_mx_srv_wellformed (buflen id ty : Nat) (qn d : List Nat) (dns : List (List Nat)) (tl : List Nat)
    (datalen : Nat) (hid : id < 65536) (hty : ty = 15 ∨ ty = 33) (hqn : LegalName qn)
    (hdns : ∀ x ∈ d :: dns, LegalName x)
    (hfit : qn.length + 18 + mxSize ty (d :: dns) ≤ buflen) (hbuf : buflen ≤ 65536) :
    ∃ pkt, dnsEncodeAnswer buflen id ty qn (mxPack (d :: dns) ++ tl) datalen = .ok pkt ∧
      pkt.length = qn.length + 18 + mxSize ty (d :: dns) ∧
      parseMsg pkt = some ⟨id, 0x8400, [(labels qn, ty, 1)], mxAnswers qn ty 1 (d :: dns), [], []⟩ := by
  have nf := nameFacts hqn
  have h253 := nf.le253
  have hnames : mxNames (mxPack (d :: dns) ++ tl) = d :: dns := by
    apply mxNames_pack
    intro x hx
    have hl := hdns x hx
    refine ⟨?_, fun c hc => (hl.2.1 c hc).1⟩
    intro he; subst he
    have := hl.2.2 [] (by simp [labels]); simp at this
  have hge := mxSize_ge ty (d :: dns)
  have hlenrec := mxRecs_length ty (d :: dns) hdns 1
  have hbr : ∀ b : Buf, b.cap = buflen → b.pos = 12 + labLen (tokens qn) + 5 →
      ansBranch buflen ty b (mxPack (d :: dns) ++ tl) datalen =
        .ok (b.app (mxRecs ty 1 ((d :: dns).map tokens)), (d :: dns).length) := by
    intro b hcap hpos
    unfold ansBranch
    rw [if_neg (by rcases hty with h | h <;> simp [h, T_CNAME, T_A]),
      if_pos (by simpa [T_MX, T_SRV] using hty)]
    unfold ansMx
    simp only [hnames]
    rw [mxLoop_ok buflen ty (d :: dns) 1 b hcap (fun nm hnm => (nameFacts (hdns nm hnm)).le63)
      (by rw [hlenrec, hpos, nf.tok, nf.len]; omega)]
    simp
  have henc := dnsEncodeAnswer_of buflen id ty qn (mxPack (d :: dns) ++ tl) datalen nf.le63
    (by rw [nf.tok, nf.len]; omega) _ _ hbr
  refine ⟨_, henc, ?_, ?_⟩
  · simp only [List.length_append, be16_length, List.length_cons, List.length_nil, qBytes_length, hlenrec,
      nf.tok, nf.len]
    omega
  · rw [nf.tok]
    simp only [List.length_cons] at hge
    obtain ⟨k', hp⟩ := parse_mx qn nf ty hty (d :: dns) 1 (12 + labLen (labels qn) + 1 + 4)
      (entriesT 12 (labels qn) []) hdns (by simpa using lookup_question nf.ne []) (by omega)
      (by simp only [List.length_cons]; omega)
    have hty' : ty < 65536 := by omega
    exact parse_msg id 0x84 ty (d :: dns).length 0 qn nf _ _ [] _ _ hid (by omega) hty'
      (by simp only [List.length_cons]; omega) (by omega) hp rfl rfl (bytes_mxRecs ty _ hdns 1)

/-- non-vacuity: an MX question answered with two names, an SRV question with one -/
example := answer_mx_srv_wellformed 65536 9 15 [97, 46, 98] [104, 120, 46, 121] [[105, 46, 122]] [] 4096
  (by decide) (by decide) (by decide) (by decide) (by decide) (by decide)
example := answer_mx_srv_wellformed 65536 9 33 [97, 46, 98] [104, 120, 46, 121] [] [0, 1, 2] 4096
  (by decide) (by decide) (by decide) (by decide) (by decide) (by decide)

example : mxAnswers [97] 15 1 [[104], [105]] =
    [⟨[[97]], 15, 1, 0, [0, 10, 1, 104, 0], .mx 10 [[104]]⟩, ⟨[[97]], 15, 1, 0, [0, 20, 1, 105, 0], .mx 20 [[105]]⟩] := by
  decide

example : dnsEncodeAnswer 512 9 15 [97] (mxPack [[104], [105]]) 0 =
    .ok [0, 9, 0x84, 0, 0, 1, 0, 2, 0, 0, 0, 0, 1, 97, 0, 0, 15, 0, 1,
         0xc0, 0x0c, 0, 15, 0, 1, 0, 0, 0, 0, 0, 5, 0, 10, 1, 104, 0,
         0xc0, 0x0c, 0, 15, 0, 1, 0, 0, 0, 0, 0, 5, 0, 20, 1, 105, 0] := by decide +kernel

/-! ### The A response (A queries for ns.<domain> / www.<domain>) -/

/-- **a_response_wellformed.**  `dns_encode_a_response` for an A question (type 1) with a legal name and an
IPv4 destination address `a0.a1.a2.a3`: `|qn| + 34` bytes; one answer record owned by the query name, type
A, class IN, TTL 3600, RDLENGTH 4, the address. -/
theorem a_response_wellformed (buflen id : Nat) (qn : List Nat) (a0 a1 a2 a3 : Nat)
    (hid : id < 65536) (hqn : LegalName qn) (haddr : IsBytes [a0, a1, a2, a3])
    (hfit : qn.length + 34 ≤ buflen) :
    ∃ pkt, dnsEncodeAResponse buflen id 1 qn (some [a0, a1, a2, a3]) = .ok pkt ∧
      pkt.length = qn.length + 34 ∧
      parseMsg pkt = some ⟨id, 0x8400, [(labels qn, 1, 1)],
        [⟨labels qn, 1, 1, 3600, [a0, a1, a2, a3], .a [a0, a1, a2, a3]⟩], [], []⟩ := by
  have nf := nameFacts hqn
  have h253 := nf.le253
  have h0 := haddr a0 (by simp)
  have h1 := haddr a1 (by simp)
  have h2 := haddr a2 (by simp)
  have h3 := haddr a3 (by simp)
  have henc := dnsEncodeAResponse_ok buflen id 1 qn a0 a1 a2 a3 nf.le63 (by rw [nf.tok, nf.len]; omega)
  rw [Nat.mod_eq_of_lt h0, Nat.mod_eq_of_lt h1, Nat.mod_eq_of_lt h2, Nat.mod_eq_of_lt h3] at henc
  refine ⟨_, henc, ?_, ?_⟩
  · simp [nf.tok, nf.len]; omega
  · rw [nf.tok]
    have hrr := parseRR_c00c .answer qn nf (12 + labLen (labels qn) + 1 + 4) (entriesT 12 (labels qn) []) _
      (by simpa using lookup_question nf.ne []) (by omega) 1 3600 [a0, a1, a2, a3] [] (.a [a0, a1, a2, a3])
      (by omega) (by omega) (by simp)
      (parseRData_a _ _ [a0, a1, a2, a3] [] rfl _ _)
    have hb : Bytes (rrBytes namePtr 1 3600 [a0, a1, a2, a3]) := by
      simp only [rrBytes, Bytes_append]
      exact ⟨Bytes_be16 _, Bytes_rrFixed _ _ _ _, haddr⟩
    exact parse_msg id 0x84 1 1 0 qn nf _ _ [] _ _ hid (by omega) (by omega) (by omega) (by omega)
      (parseRRs_one _ _ _ _ (by simpa using hrr)) rfl rfl hb

example := a_response_wellformed 65536 77 [110, 115, 46, 116, 46, 99] 127 0 0 1 (by decide) (by decide)
  (by decide) (by decide)

/-! ### The NS response -/

theorem labels_ne_nil (s : List Nat) : labels s ≠ [] := by rw [labels_eq_split]; simp

theorem labels_append_dot (a b : List Nat) : labels (a ++ 46 :: b) = labels a ++ labels b := by
  induction a with
  | nil => simp [labels]
  | cons c a ih =>
    simp only [List.cons_append, labels]
    split
    · rw [ih]; simp
    · rw [ih]
      cases h : labels a with
      | nil => exact absurd h (labels_ne_nil a)
      | cons l ls => simp

theorem labLen_labels (s : List Nat) : labLen (labels s) = s.length + 1 := by
  rw [labels_eq_split]; exact splitDot_labLen s

/-- the label "ns" -/
def nsLabel : List Nat := [110, 115]

/-- RDATA of the NS record: the label "ns" followed by a compression pointer to message offset `off` -/
def nsRDataBytes (off : Nat) : List Nat := [2, 110, 115, 192 + off / 256, off % 256]

/-- the destination of the NS response: no IPv4 address known, or four address bytes -/
def DestOK (dest : Option (List Nat)) : Prop :=
  dest = none ∨ ∃ a0 a1 a2 a3, dest = some [a0, a1, a2, a3] ∧ IsBytes [a0, a1, a2, a3]

/-- the message `dns_encode_ns_response` must produce: the NS question echoed, one NS answer
`qn NS ns.<top domain>` with TTL 3600 whose RDATA is the label "ns" + a pointer to offset `ptr`, and — when an
IPv4 address is known — one additional record `ns.<top domain> A addr` -/
def nsMsg (id : Nat) (qn : List Nat) (topl : Name) (ptr : Nat) (dest : Option (List Nat)) : Msg :=
  ⟨id, 0x8400, [(labels qn, 2, 1)],
    [⟨labels qn, 2, 1, 3600, nsRDataBytes ptr, .name (nsLabel :: topl)⟩], [],
    match dest with
    | none => []
    | some addr => [⟨nsLabel :: topl, 1, 1, 3600, addr, .a addr⟩]⟩

/-- Core of the NS response theorems.  `pre` are the labels of the query name in front of the top domain,
`topl` the labels of the top domain; the pointer emitted is `12 + (|qn| - |top|)`, which is the offset of
the first label of `topl` exactly when `|qn| - |top| = labLen pre`. -/
theorem ns_core (buflen id : Nat) (qn top : List Nat) (pre topl : Name) (dest : Option (List Nat))
    (hid : id < 65536) (hqn : LegalName qn) (g : NsGuards qn top)
    (hlab : labels qn = pre ++ topl) (hdl : qn.length - top.length = labLen pre) (htop : topl ≠ [])
    (htl : labLen topl + 4 ≤ 255)
    (hdest : DestOK dest)
    (hfit : qn.length + 35 + (if dest.isSome then 16 else 0) ≤ buflen) :
    ∃ pkt, dnsEncodeNsResponse buflen id 2 qn top dest = .ok pkt ∧
      pkt.length = qn.length + 35 + (if dest.isSome then 16 else 0) ∧
      parseMsg pkt = some (nsMsg id qn topl (12 + (qn.length - top.length)) dest) := by
  have nf := nameFacts hqn
  have h253 := nf.le253
  have hpre : LabelsOK pre := fun l hl => nf.ok l (by rw [hlab]; simp [hl])
  have hlenq : labLen pre + labLen topl = qn.length + 1 := by rw [← labLen_append, ← hlab, nf.len]
  have hpfx := nsResponse_prefix buflen id 2 qn top dest g nf.le63 (by rw [nf.tok, nf.len]; omega)
  rw [nf.tok] at hpfx
  -- the NS record starts at offset P
  obtain ⟨P, hP⟩ : ∃ P, P = 12 + labLen (labels qn) + 1 + 4 := ⟨_, rfl⟩
  have hPv : P = qn.length + 18 := by rw [hP, nf.len]; omega
  have hnsr : nsRData (qn.length - top.length) = encLabels [nsLabel] ++ encPtr (12 + labLen pre) := by
    rw [hdl]
    simp only [nsRData, be16, encPtr, encLabels, nsLabel, List.flatMap_cons, List.flatMap_nil, List.length_cons,
      List.length_nil, List.append_nil, List.cons_append, List.nil_append]
    have : (12 + labLen pre) % 16384 = 12 + labLen pre := by omega
    rw [this]
    congr 4
    · omega
    · congr 1; omega
  have hnsb : nsRDataBytes (12 + (qn.length - top.length)) = nsRData (qn.length - top.length) := by
    rw [hnsr, hdl]; rfl
  have hk0 : lookup (entriesT 12 (labels qn) [] ++ [(P, labels qn)]) (12 + labLen pre) = some topl := by
    apply lookup_append_of_some
    rw [hlab]
    have := lookup_entriesT_mid pre topl [] htop hpre 12
    simpa using this
  have hrr : ∀ rest, parseRR .answer ⟨rrBytes namePtr 2 3600 (nsRData (qn.length - top.length)) ++ rest, P,
        entriesT 12 (labels qn) []⟩ =
      some (⟨labels qn, 2, 1, 3600, nsRData (qn.length - top.length), .name (nsLabel :: topl)⟩,
        ⟨rest, P + 17, (entriesT 12 (labels qn) [] ++ [(P, labels qn)]) ++
          (entriesT (P + 12) [nsLabel] topl ++ [(P + 12 + 3, topl)])⟩) := by
    intro rest
    have hlen5 : (nsRData (qn.length - top.length)).length = 5 := rfl
    have hname : parseName ⟨nsRData (qn.length - top.length) ++ rest, P + 12,
          entriesT 12 (labels qn) [] ++ [(P, labels qn)]⟩ =
        some (nsLabel :: topl, ⟨rest, P + 12 + 5, (entriesT 12 (labels qn) [] ++ [(P, labels qn)]) ++
          (entriesT (P + 12) [nsLabel] topl ++ [(P + 12 + 3, topl)])⟩) := by
      rw [hnsr]
      have := parseName_labels_ptr [nsLabel] (by intro l hl; simp at hl; subst hl; decide) (12 + labLen pre)
        (P + 12) (entriesT 12 (labels qn) [] ++ [(P, labels qn)]) topl rest (by omega) (by omega) hk0
        (by simp [nsLabel]; omega)
      simpa [nsLabel] using this
    have := parseRR_c00c .answer qn nf P (entriesT 12 (labels qn) []) _
      (by simpa using lookup_question nf.ne []) (by omega) 2 3600 (nsRData (qn.length - top.length)) rest
      (.name (nsLabel :: topl)) (by omega) (by omega) (by rw [hlen5]; omega)
      (by rw [hlen5]; exact parseRData_name _ _ _ _ (by omega) _ _ _ hname)
    rw [this, hlen5]
  rcases hdest with hd | ⟨a0, a1, a2, a3, hd, haddr⟩
  · subst hd
    simp only [R.pure_eq, app_toList, buf0_toList] at hpfx
    rw [show ∀ body, setCount (header id 132) 6 1 ++ body =
        be16 id ++ [132, 0] ++ be16 1 ++ be16 1 ++ be16 0 ++ be16 0 ++ body from
      fun body => by simp [setCount, header, be16]] at hpfx
    simp only [Option.isSome_none, Bool.false_eq_true, if_false, Nat.add_zero] at hfit ⊢
    refine ⟨_, hpfx, ?_, ?_⟩
    · simp [nf.len, nsRData]; omega
    · have hb : Bytes (rrBytes namePtr 2 3600 (nsRData (qn.length - top.length))) := by
        simp only [rrBytes, Bytes_append]
        refine ⟨Bytes_be16 _, Bytes_rrFixed _ _ _ _, ?_⟩
        rw [hnsr]
        exact Bytes_append.2 ⟨by decide, Bytes_encPtr _ (by omega)⟩
      have hrr0 := hrr []
      subst hP
      have := parse_msg id 0x84 2 1 0 qn nf _ _ [] _ _ hid (by omega) (by omega) (by omega) (by omega)
        (parseRRs_one _ _ _ _ (by simpa using hrr0)) rfl rfl hb
      simpa [nsMsg, hnsb] using this
  · subst hd
    have h0 := haddr a0 (by simp)
    have h1 := haddr a1 (by simp)
    have h2 := haddr a2 (by simp)
    have h3 := haddr a3 (by simp)
    simp only [Option.isSome_some, if_true] at hfit ⊢
    simp only [] at hpfx
    rw [checklen_ok _ _ _ (by simp [nf.len, nsRData]; omega)] at hpfx
    simp only [R.ok_bind] at hpfx
    rw [rrHead_ok _ _ _ _ (by simp [nf.len, nsRData]; omega)] at hpfx
    simp only [R.ok_bind, app_app] at hpfx
    rw [putshort_ok _ _ (by simp [nf.len, nsRData]; omega)] at hpfx
    simp only [R.ok_bind, app_app] at hpfx
    rw [checklen_ok _ _ _ (by simp [nf.len, nsRData]; omega)] at hpfx
    simp only [R.ok_bind] at hpfx
    rw [putAddr_ok _ _ _ _ _ (by simp [nf.len, nsRData]; omega)] at hpfx
    simp only [R.ok_bind, R.pure_eq, app_app, app_toList, buf0_toList] at hpfx
    rw [Nat.mod_eq_of_lt h0, Nat.mod_eq_of_lt h1, Nat.mod_eq_of_lt h2, Nat.mod_eq_of_lt h3, setCount_ar] at hpfx
    have hN : (12 + labLen (labels qn) + 5 + 12) % 16384 = P + 12 := by rw [nf.len]; omega
    have hptr : be16 (49152 + (12 + labLen (labels qn) + 5 + 12) % 16384) = encPtr (P + 12) := by
      rw [hN]
      have : P + 12 < 16384 := by omega
      simp only [be16, encPtr]
      congr 1
      · omega
      · congr 1; omega
    have hbody : qBytes (labels qn) 2 ++ rrBytes namePtr 2 3600 (nsRData (qn.length - top.length)) ++
        rrHeadBytes (49152 + (12 + labLen (labels qn) + 5 + 12) % 16384) T_A 3600 ++ be16 4 ++ [a0, a1, a2, a3] =
        qBytes (labels qn) 2 ++ (rrBytes namePtr 2 3600 (nsRData (qn.length - top.length)) ++
          (encPtr (P + 12) ++ (rrFixed 1 1 3600 4 ++ ([a0, a1, a2, a3] ++ [])))) := by
      simp [rrHeadBytes, rrFixed, hptr, T_A]
    rw [hbody] at hpfx
    refine ⟨_, hpfx, ?_, ?_⟩
    · simp [nf.len, nsRData, encPtr]; omega
    · have hb : Bytes (rrBytes namePtr 2 3600 (nsRData (qn.length - top.length)) ++
          (encPtr (P + 12) ++ (rrFixed 1 1 3600 4 ++ ([a0, a1, a2, a3] ++ [])))) := by
        simp only [rrBytes, Bytes_append]
        refine ⟨⟨Bytes_be16 _, Bytes_rrFixed _ _ _ _, ?_⟩,
          Bytes_encPtr _ (by omega), Bytes_rrFixed _ _ _ _, haddr, Bytes_nil⟩
        rw [hnsr]
        exact Bytes_append.2 ⟨by decide, Bytes_encPtr _ (by omega)⟩
      -- the additional record: owner = pointer to the "ns" label of the NS RDATA
      have hk2 : lookup ((entriesT 12 (labels qn) [] ++ [(P, labels qn)]) ++
          (entriesT (P + 12) [nsLabel] topl ++ [(P + 12 + 3, topl)])) (P + 12) = some (nsLabel :: topl) := by
        rw [lookup_append_of_none]
        · simp [entriesT, lookup]
        · rw [lookup_append_of_none _ (lookup_entriesT_none _ _ _ _ (by omega))]
          simp only [lookup]
          rw [if_neg (by omega)]
      have har := parseRR_ptr .additional (P + 12) (P + 17) _ _ (nsLabel :: topl) hk2
        (by omega) (by omega) (by simp [nsLabel]; omega)
        1 1 3600 [a0, a1, a2, a3] [] (.a [a0, a1, a2, a3]) (by omega) (by omega) (by omega) (by simp)
        (parseRData_a _ _ [a0, a1, a2, a3] [] rfl _ _)
      have hrr1 := hrr (encPtr (P + 12) ++ (rrFixed 1 1 3600 4 ++ ([a0, a1, a2, a3] ++ [])))
      subst hP
      have := parse_msg id 0x84 2 1 1 qn nf _ _ _ _ _ hid (by omega) (by omega) (by omega) (by omega)
        (parseRRs_one _ _ _ _ hrr1) (parseRRs_one _ _ _ _ har) rfl hb
      simpa [nsMsg, hnsb] using this

/-- **ns_response_wellformed.**  NS query for `qn = sub.top` (legal name; `top` is the part of the name the
server passes as top domain, at most 250 characters — iodined accepts at most 128): the response is
well-formed, echoes the question, and answers `qn NS ns.<top>`; the compression pointer in the RDATA is
`12 + |sub| + 1`, the message offset at which the first label of `top` starts inside the question name
(labels take one length byte instead of one dot, and `qn` has no empty label).  With a known IPv4 address
the additional section holds `ns.<top> A addr`, owner compressed to a pointer at the "ns" label. -/
theorem ns_response_wellformed (buflen id : Nat) (sub top : List Nat) (dest : Option (List Nat))
    (hid : id < 65536) (hqn : LegalName (sub ++ 46 :: top)) (htop : top.length ≤ 250) (hdest : DestOK dest)
    (hfit : (sub ++ 46 :: top).length + 35 + (if dest.isSome then 16 else 0) ≤ buflen) :
    ∃ pkt, dnsEncodeNsResponse buflen id 2 (sub ++ 46 :: top) top dest = .ok pkt ∧
      pkt.length = (sub ++ 46 :: top).length + 35 + (if dest.isSome then 16 else 0) ∧
      parseMsg pkt = some (nsMsg id (sub ++ 46 :: top) (labels top) (12 + sub.length + 1) dest) := by
  have hlab := labels_append_dot sub top
  have hsub : sub ≠ [] := by
    intro he
    have := hqn.2.2 [] (by rw [hlab, he]; simp [labels])
    simp at this
  have hlen : (sub ++ 46 :: top).length - top.length = sub.length + 1 := by simp; omega
  have g : NsGuards (sub ++ 46 :: top) top := by
    refine ⟨by simp; omega, ?_, ?_, ?_⟩
    · have : 0 < sub.length := List.length_pos_iff.2 hsub
      simp; omega
    · rw [hlen, show sub ++ 46 :: top = (sub ++ [46]) ++ top by simp, List.drop_left' (by simp)]
    · right
      rw [hlen]
      simp
  have := ns_core buflen id (sub ++ 46 :: top) top (labels sub) (labels top) dest hid hqn g hlab
    (by rw [hlen, labLen_labels]) (labels_ne_nil top) (by rw [labLen_labels]; omega) hdest hfit
  rw [hlen, ← Nat.add_assoc] at this
  exact this

/-- the same for a query for the top domain itself (`domain_len = 0`): the pointer is 12, the start of the
question name -/
theorem ns_response_apex_wellformed (buflen id : Nat) (top : List Nat) (dest : Option (List Nat))
    (hid : id < 65536) (hqn : LegalName top) (htop : top.length ≤ 250) (hdest : DestOK dest)
    (hfit : top.length + 35 + (if dest.isSome then 16 else 0) ≤ buflen) :
    ∃ pkt, dnsEncodeNsResponse buflen id 2 top top dest = .ok pkt ∧
      pkt.length = top.length + 35 + (if dest.isSome then 16 else 0) ∧
      parseMsg pkt = some (nsMsg id top (labels top) 12 dest) := by
  have g : NsGuards top top := ⟨Nat.le_refl _, by omega, by simp, by left; omega⟩
  have := ns_core buflen id top top [] (labels top) dest hid hqn g (by simp) (by simp) (labels_ne_nil top)
    (by rw [labLen_labels]; omega) hdest hfit
  simpa using this

/-- non-vacuity: "x.t.c" under "t.c" with and without an address; the apex -/
example := ns_response_wellformed 65536 5 [120] [116, 46, 99] (some [10, 0, 0, 1]) (by decide) (by decide)
  (by decide) (Or.inr ⟨10, 0, 0, 1, rfl, by decide⟩) (by decide)
example := ns_response_wellformed 65536 5 [120] [116, 46, 99] none (by decide) (by decide)
  (by decide) (Or.inl rfl) (by decide)
example := ns_response_apex_wellformed 65536 5 [116, 46, 99] none (by decide) (by decide)
  (by decide) (Or.inl rfl) (by decide)

example : dnsEncodeNsResponse 512 5 2 [120, 46, 116, 46, 99] [116, 46, 99] (some [10, 0, 0, 1]) =
    .ok [0, 5, 0x84, 0, 0, 1, 0, 1, 0, 0, 0, 1, 1, 120, 1, 116, 1, 99, 0, 0, 2, 0, 1,
         0xc0, 0x0c, 0, 2, 0, 1, 0, 0, 14, 16, 0, 5, 2, 110, 115, 0xc0, 14,
         0xc0, 35, 0, 1, 0, 1, 0, 0, 14, 16, 0, 4, 10, 0, 0, 1] := by decide +kernel

/-- Why the quantifier of C10 excludes labels containing '.': a query whose first label is the two bytes
"a." reaches the server as the dotted string "a..t.c"; `strtok` drops the empty piece, so the question is
re-encoded as a.t.c and the pointer `12 + 3` lands inside the label "t" — the response is malformed. -/
example : ∃ pkt, dnsEncodeNsResponse 512 5 2 [97, 46, 46, 116, 46, 99] [116, 46, 99] none = .ok pkt ∧
    parseMsg pkt = none :=
  ⟨[0, 5, 0x84, 0, 0, 1, 0, 1, 0, 0, 0, 0, 1, 97, 1, 116, 1, 99, 0, 0, 2, 0, 1,
    0xc0, 0x0c, 0, 2, 0, 1, 0, 0, 14, 16, 0, 5, 2, 110, 115, 0xc0, 15], by decide +kernel, by decide +kernel⟩

/-! ### Echo -/

/-- The cases covered by the `answer_*` theorems: record type, `data`/`datalen` as passed to `dns_encode`,
and the space needed in a buffer of `buflen ≤ 64 KiB` bytes (`n` = length of the query name). -/
inductive AnswerCase (buflen n : Nat) : Nat → List Nat → Nat → Prop
  | raw (ty : Nat) (data : List Nat) : ty < 65536 → Opaque ty → IsBytes data →
      n + 30 + data.length ≤ buflen → AnswerCase buflen n ty data data.length
  | txt (data : List Nat) : IsBytes data → data ≠ [] →
      n + 30 + data.length + (data.length + 251) / 252 ≤ buflen → AnswerCase buflen n 16 data data.length
  | cname (ty : Nat) (dn tl : List Nat) (datalen : Nat) : ty = 5 ∨ ty = 1 → LegalName dn →
      n + 30 + dn.length + 2 ≤ buflen → AnswerCase buflen n ty (dn ++ 0 :: tl) datalen
  | mx (ty : Nat) (d : List Nat) (dns : List (List Nat)) (tl : List Nat) (datalen : Nat) : ty = 15 ∨ ty = 33 →
      (∀ x ∈ d :: dns, LegalName x) → n + 18 + mxSize ty (d :: dns) ≤ buflen →
      AnswerCase buflen n ty (mxPack (d :: dns) ++ tl) datalen

theorem mxAnswers_owner (qn : List Nat) (ty : Nat) (dns : List (List Nat)) :
    ∀ a, ∀ r ∈ mxAnswers qn ty a dns, r.owner = labels qn ∧ r.type = ty ∧ r.cls = 1 := by
  induction dns with
  | nil => intro a r hr; simp [mxAnswers] at hr
  | cons d rest ih =>
    intro a r hr
    simp only [mxAnswers, List.mem_cons] at hr
    rcases hr with rfl | hr
    · simp [answerRR]
    · exact ih _ r hr

/-- **echo.**  In every case above the answer is emitted (no early `return 0`, no store outside the
buffer), is a well-formed message, and carries the id of the query, the flags QR|AA, exactly the question
(name, type, IN) of the query, at least one answer record, every answer record owned by the query name with
class IN, and nothing in the authority and additional sections.  (For queries, the NS response and the A
response the same facts are part of `query_wellformed`, `ns_response_wellformed`, `a_response_wellformed`,
which state the complete parsed message.) -/
theorem echo (buflen id ty : Nat) (qn data : List Nat) (datalen : Nat)
    (hid : id < 65536) (hqn : LegalName qn) (hbuf : buflen ≤ 65536)
    (hc : AnswerCase buflen qn.length ty data datalen) :
    ∃ pkt m, dnsEncodeAnswer buflen id ty qn data datalen = .ok pkt ∧ parseMsg pkt = some m ∧
      m.id = id ∧ m.flags = 0x8400 ∧ m.qd = [(labels qn, ty, 1)] ∧ m.an ≠ [] ∧
      (∀ r ∈ m.an, r.owner = labels qn ∧ r.cls = 1) ∧ m.ns = [] ∧ m.ar = [] := by
  cases hc with
  | raw ty data hty hop hdata hfit =>
    obtain ⟨pkt, h1, _, h2⟩ := answer_null_wellformed buflen id ty qn data hid hty hop hqn hdata hfit hbuf
    exact ⟨pkt, _, h1, h2, rfl, rfl, rfl, by simp, by simp [answerRR], rfl, rfl⟩
  | txt data hdata hne hfit =>
    obtain ⟨pkt, ss, h1, _, h2, _⟩ := answer_txt_wellformed buflen id qn data hid hqn hdata hne hfit hbuf
    exact ⟨pkt, _, h1, h2, rfl, rfl, rfl, by simp, by simp [answerRR], rfl, rfl⟩
  | cname ty dn tl datalen hty hdn hfit =>
    obtain ⟨pkt, h1, _, h2⟩ := answer_cname_wellformed buflen id ty qn dn tl datalen hid hty hqn hdn hfit
    exact ⟨pkt, _, h1, h2, rfl, rfl, rfl, by simp, by simp [answerRR], rfl, rfl⟩
  | mx ty d dns tl datalen hty hdns hfit =>
    obtain ⟨pkt, h1, _, h2⟩ := answer_mx_srv_wellformed buflen id ty qn d dns tl datalen hid hty hqn hdns hfit hbuf
    refine ⟨pkt, _, h1, h2, rfl, rfl, rfl, by simp [mxAnswers], ?_, rfl, rfl⟩
    intro r hr
    have := mxAnswers_owner qn ty (d :: dns) 1 r hr
    exact ⟨this.1, this.2.2⟩

/-- **echo_any.**  The echo does not depend on the data at all: for a legal query name and a buffer with
room for header and question (`|qn| + 18` bytes), whatever `dns_encode(QR_ANSWER)` emits for whatever record
type, data and data length — if it is a well-formed message at all, it carries the id of the query and
exactly the query's question. -/
theorem echo_any (buflen id ty : Nat) (qn data : List Nat) (datalen : Nat)
    (hid : id < 65536) (hty : ty < 65536) (hqn : LegalName qn) (hfit : qn.length + 18 ≤ buflen)
    (pkt : List Nat) (m : Msg) (henc : dnsEncodeAnswer buflen id ty qn data datalen = .ok pkt)
    (hm : parseMsg pkt = some m) : m.id = id ∧ m.qd = [(labels qn, ty, 1)] := by
  have nf := nameFacts hqn
  have h253 := nf.le253
  unfold dnsEncodeAnswer at henc
  rw [if_neg (by omega), question_ok (buflen := buflen) _ rfl rfl ty qn nf.le63 (by rw [nf.tok, nf.len]; omega)] at henc
  simp only [R.bind_eq_ok, R.pure_eq] at henc
  obtain ⟨r, hbr, hpkt⟩ := henc
  cases hpkt
  have hpre : Pre (header id 0x84 ++ qBytes (tokens qn) ty) r.1 :=
    ansBranch_pre hbr (by unfold Pre; simp)
  obtain ⟨t, ht⟩ := hpre
  rw [← ht, List.append_assoc, setCount_an, nf.tok] at hm
  simp only [qBytes, List.append_assoc] at hm
  exact parseMsg_echo id 0x84 r.2 0 0 ty (labels qn) t m hid hty nf.ok (by rw [nf.len]; omega)
    (by simpa only [List.append_assoc] using hm)

/-- non-vacuity of `echo_any` on data none of the `answer_*` theorems covers: the MX "name" "." (no label
at all) is emitted as the root name, the message still parses and still echoes -/
example : ∃ m, parseMsg [0, 7, 132, 0, 0, 1, 0, 1, 0, 0, 0, 0, 1, 97, 0, 0, 15, 0, 1,
      192, 12, 0, 15, 0, 1, 0, 0, 0, 0, 0, 3, 0, 10, 0] = some m ∧ m.id = 7 ∧ m.qd = [([[97]], 15, 1)] := by
  have henc : dnsEncodeAnswer 512 7 15 [97] [46, 0, 0] 1 = .ok [0, 7, 132, 0, 0, 1, 0, 1, 0, 0, 0, 0, 1, 97, 0, 0,
      15, 0, 1, 192, 12, 0, 15, 0, 1, 0, 0, 0, 0, 0, 3, 0, 10, 0] := by decide +kernel
  have hm : parseMsg [0, 7, 132, 0, 0, 1, 0, 1, 0, 0, 0, 0, 1, 97, 0, 0, 15, 0, 1,
      192, 12, 0, 15, 0, 1, 0, 0, 0, 0, 0, 3, 0, 10, 0] =
      some ⟨7, 0x8400, [([[97]], 15, 1)], [⟨[[97]], 15, 1, 0, [0, 10, 0], .mx 10 []⟩], [], []⟩ := by
    decide +kernel
  exact ⟨_, hm, echo_any 512 7 15 [97] [46, 0, 0] 1 (by decide) (by decide) (by decide) (by decide) _ _ henc hm⟩

example : AnswerCase 65536 3 10 [1, 2, 3] 3 := .raw 10 [1, 2, 3] (by decide) (by decide) (by decide) (by decide)

/-! ### The callers' buffers

iodined.c uses `char buf[64*1024]` for every answer.  For the responses whose size is bounded by the
lengths of two names the buffer always suffices; NULL/TXT/MX/SRV answers fit as stated in their theorems. -/

theorem answer_cname_wellformed_server (id ty : Nat) (qn dn tl : List Nat) (datalen : Nat)
    (hid : id < 65536) (hty : ty = 5 ∨ ty = 1) (hqn : LegalName qn) (hdn : LegalName dn) :
    ∃ pkt, dnsEncodeAnswer 65536 id ty qn (dn ++ 0 :: tl) datalen = .ok pkt ∧
      parseMsg pkt = some ⟨id, 0x8400, [(labels qn, ty, 1)],
        [answerRR qn 5 (nameRData dn) (.name (labels dn))], [], []⟩ := by
  have h1 := hqn.1
  have h2 := hdn.1
  obtain ⟨pkt, h1, _, h2⟩ := answer_cname_wellformed 65536 id ty qn dn tl datalen hid hty hqn hdn (by omega)
  exact ⟨pkt, h1, h2⟩

theorem ns_response_wellformed_server (id : Nat) (sub top : List Nat) (dest : Option (List Nat))
    (hid : id < 65536) (hqn : LegalName (sub ++ 46 :: top)) (htop : top.length ≤ 250) (hdest : DestOK dest) :
    ∃ pkt, dnsEncodeNsResponse 65536 id 2 (sub ++ 46 :: top) top dest = .ok pkt ∧
      parseMsg pkt = some (nsMsg id (sub ++ 46 :: top) (labels top) (12 + sub.length + 1) dest) := by
  have h1 := hqn.1
  obtain ⟨pkt, h1, _, h2⟩ := ns_response_wellformed 65536 id sub top dest hid hqn htop hdest
    (by split <;> omega)
  exact ⟨pkt, h1, h2⟩

theorem a_response_wellformed_server (id : Nat) (qn : List Nat) (a0 a1 a2 a3 : Nat)
    (hid : id < 65536) (hqn : LegalName qn) (haddr : IsBytes [a0, a1, a2, a3]) :
    ∃ pkt, dnsEncodeAResponse 65536 id 1 qn (some [a0, a1, a2, a3]) = .ok pkt ∧
      parseMsg pkt = some ⟨id, 0x8400, [(labels qn, 1, 1)],
        [⟨labels qn, 1, 1, 3600, [a0, a1, a2, a3], .a [a0, a1, a2, a3]⟩], [], []⟩ := by
  have h1 := hqn.1
  obtain ⟨pkt, h1, _, h2⟩ := a_response_wellformed 65536 id qn a0 a1 a2 a3 hid hqn haddr (by omega)
  exact ⟨pkt, h1, h2⟩

/-! ### Stores outside the buffer (latent: not reachable with the callers' buffer sizes)

All theorems above conclude `R.ok`, so with the stated room no store leaves the buffer.  With a buffer
that is too small the encoders do not always fail cleanly: `putname` compares `strlen(word) > left`, i.e.
accepts a label of exactly `left` bytes although it stores `left + 1` bytes; `left` then is -1, which the
comparison (done in `size_t`) treats as a huge bound, so all further labels are stored unchecked; the root
byte is stored without any check; and `dns_encode` passes `buflen - (p - buf)` after an unchecked `p += 2`.
Each witness below was confirmed on the C code under AddressSanitizer (heap-buffer-overflow, WRITE). -/

/-- `putname(&p, 3, "abc")` on a 3-byte buffer stores 5 bytes -/
example : putname ⟨#[], 3⟩ 3 [97, 98, 99] = .fault .oobWrite := by decide +kernel

/-- after a label of exactly `left` bytes the bound is gone: `putname(&p, 3, "abc.defgh")` overruns even a
5-byte object -/
example : putname ⟨#[], 5⟩ 3 [97, 98, 99, 46, 100, 101, 102, 103, 104] = .fault .oobWrite := by decide +kernel

/-- query "aaaaaaaa" into a 20-byte buffer: name needs 10 bytes at offset 12 -/
example : dnsEncodeQuery 20 1 10 false [97, 97, 97, 97, 97, 97, 97, 97] = .fault .oobWrite := by decide +kernel

/-- CNAME answer, buffer ends right after the ten fixed bytes of the record: `p += 2` leaves the buffer and
`putname` gets the bound -2 -/
example : dnsEncodeAnswer 29 1 5 [97] [98, 0, 0] 1 = .fault .oobWrite := by decide +kernel

/-- TXT answer, same position: `puttxtbin` gets a wrapped-around `bufremain` -/
example : dnsEncodeAnswer 29 1 16 [97] [1, 2, 3] 3 = .fault .oobWrite := by decide +kernel

/-- MX answer whose name exactly fills the rest of the buffer: label of `left` bytes, then the root byte -/
example : dnsEncodeAnswer 36 1 15 [97] [98, 99, 100, 0, 0] 3 = .fault .oobWrite := by decide +kernel

end Iodine.C10
