import IodineModel.Props.C03
import IodineModel.Props.C19Main
import IodineModel.Lemmas.OptTop
/-
C03 from the command line on: the history theorem of Props/C03.lean, for the process `main()` starts.
-/
namespace Iodine.C03
open Iodine Iodine.Server Iodine.Server.Options

/-- **privileged_implies_answered_current_challenge_from_main.**  For every command line and environment with which iodined reaches
`tunnel()`, every `rand()` stream and every sequence of inputs and clock values afterwards, the monitor (computed from inputs and
events only) accepts the run: every privileged effect is on behalf of a slot that received a VACK with some seed and afterwards sent
the login that is good for exactly that seed — good for the password block `main()` left, which is the zero-padded effective password
(`C19.server_password_block`).  No hypothesis on the configuration is left. -/
theorem privileged_implies_answered_current_challenge_from_main (env : Env) (argv : List (List Nat)) (f : Final)
    (h : Top.Starts env argv f) (rnd : List Nat) (d4 d6 : Nat) (steps : List Step) :
    accepts (Top.entry f rnd d4 d6).cfg Mon.init (traceFrom (Top.entry f rnd d4 d6) steps) = true := by
  rw [OptL.entry_eq_start h]
  exact privileged_implies_answered_current_challenge _ rnd steps

/-- … and the password the logins are checked against is the one the administrator meant -/
theorem login_password_from_main (env : Env) (argv : List (List Nat)) (hc : C19.CStrings argv) (f : Final)
    (h : Top.Starts env argv f) (rnd : List Nat) (d4 d6 : Nat) :
    (Top.entry f rnd d4 d6).cfg.password =
      C19.pad32 (C19.effectivePassword (Getopt.getoptAll optstring argv).1 env.envPass env.typed) := by
  have hp := C19.server_password_block env argv hc f h
  show f.password.take 32 = _
  rw [hp, List.take_append_of_le_length (by simp [C19.pad32_length])]
  exact List.take_of_length_le (by simp [C19.pad32_length])

end Iodine.C03
