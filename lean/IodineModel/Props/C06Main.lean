import IodineModel.Props.C06
import IodineModel.Lemmas.OptCli
import IodineModel.Props.Top
/-
C06 from the command line on.
-/
namespace Iodine.C06
open Iodine Iodine.Client Iodine.Client.Options

/-- **handshake_terminates_from_main.**  For every command line and environment with which iodine reaches `client_handshake()`,
every device name, and EVERY input sequence — any answers, any time-outs, in any order: once 162 `select` time-outs have occurred the
handshake has returned.  No hypothesis (there never was one on the statics; the statement now starts at `argv`). -/
theorem handshake_terminates_from_main (env : Env) (argv : List (List Nat)) (f : Final) (_h : Top.CStarts env argv f)
    (dev : List Nat) (inps : List CInput) (ht : 162 ≤ ticks inps) :
    (handshakeRun f.cli f.args (Top.cpw f) dev inps).pos = none :=
  handshake_terminates f.cli f.args (Top.cpw f) dev inps ht

end Iodine.C06
