import IodineModel.Props.C06
import IodineModel.Props.C06Session
import IodineModel.Props.C08Main
import IodineModel.Lemmas.OptCli
import IodineModel.Props.Top
/-
C06 from the command line on.
-/
namespace Iodine.C06
open Iodine Iodine.Client Iodine.Client.Options

/-- **handshake_terminates_from_main.**  For every command line and environment with which iodine reaches `client_handshake()`,
every device name, and EVERY input sequence — any answers, any time-outs, in any order: once 162 `select` time-outs have occurred the
handshake has returned.  No hypothesis (there never was one on the statics; the statement now starts at `argv`). -/
theorem handshake_terminates_from_main (env : Env) (argv : List (List Nat)) (f : Final) (_h : Top.CStarts env argv f)
    (dev : List Nat) (inps : List CInput) (ht : 162 ≤ ticks inps) :
    (handshakeRun f.cli f.args (Top.cpw f) dev inps).pos = none :=
  handshake_terminates f.cli f.args (Top.cpw f) dev inps ht

/-- **client_main_buffers.**  What `main()` hands to `client_handshake()`: both packet buffers empty (zero-initialised statics,
`client_init`), hence `CliBufInv` — for EVERY command line and environment. -/
theorem client_main_buffers (env : Env) (argv : List (List Nat)) (f : Final) (h : Top.CStarts env argv f) :
    CliBufInv f.cli ∧ f.cli.inpkt.len = 0 := by
  obtain ⟨o, td, _, _, h3⟩ := C08.client_main_starts_handshake_machine env argv f h
  have hi : f.cli.inpkt = ⟨0, 0, 0, [], 0, 0⟩ := (congrArg Cli.inpkt h3).trans rfl
  have ho : f.cli.outpkt = ⟨0, 0, 0, [], 0, 0⟩ := (congrArg Cli.outpkt h3).trans rfl
  refine ⟨⟨?_, ?_, ?_, ?_, ?_⟩, ?_⟩ <;> simp [hi, ho]

/-- **handshake_session_safe_from_main.**  From `argv` on, NO hypothesis on the configuration: for every command line and
environment with which iodine reaches `client_handshake()`, every device name of at most 430 bytes and EVERY handshake input
sequence: the buffers stay within their arrays, the packet buffers and the device name are untouched, nothing is written to the tun
device, every `system()` command is a validated address / MTU command, 162 timeouts end the handshake. -/
theorem handshake_session_safe_from_main (env : Env) (argv : List (List Nat)) (f : Final) (h : Top.CStarts env argv f)
    (dev : List Nat) (hd : dev.length ≤ 430) (hin : List CInput) :
    HsBufInv (C08.hsRun f.cli f.args (Top.cpw f) dev hin).1 ∧
    (C08.hsRun f.cli f.args (Top.cpw f) dev hin).1.c.inpkt = f.cli.inpkt ∧
    (C08.hsRun f.cli f.args (Top.cpw f) dev hin).1.c.outpkt = f.cli.outpkt ∧
    (C08.hsRun f.cli f.args (Top.cpw f) dev hin).1.dev = dev ∧
    (∀ e ∈ (C08.hsRun f.cli f.args (Top.cpw f) dev hin).2.1, HsEventOk e) ∧
    (∀ cmd, CEvent.sys cmd ∈ (C08.hsRun f.cli f.args (Top.cpw f) dev hin).2.1 → C13.IpCmd dev cmd ∨ C13.MtuCmd dev cmd) ∧
    (162 ≤ ticks hin → (C08.hsRun f.cli f.args (Top.cpw f) dev hin).1.pos = none) :=
  handshake_session_safe f.cli f.args (Top.cpw f) dev (client_main_buffers env argv f h).1 hd hin

/-- **tunnel_session_safe_from_main.**  … and EVERY tunnel-phase input sequence after it (tun frames below 64 KiB): `CliBufInv` after
every step, events within the buffers they come out of, no `system()` call, every tun write `FromReceived`.  Again no hypothesis on
the configuration: this holds also for `-M` values outside C08's range. -/
theorem tunnel_session_safe_from_main (env : Env) (argv : List (List Nat)) (f : Final) (h : Top.CStarts env argv f)
    (dev : List Nat) (hin tin : List CInput) (hok : ∀ i ∈ tin, InputOk i) :
    CliBufInv (C08.tunRun (C08.hsRun f.cli f.args (Top.cpw f) dev hin) tin).1.c ∧
    (∀ e ∈ (C08.tunRun (C08.hsRun f.cli f.args (Top.cpw f) dev hin) tin).2.1, TunEventOk e) ∧
    (tin ≠ [] → ∀ f' ∈ C01.tunWrites (C08.tunRun (C08.hsRun f.cli f.args (Top.cpw f) dev hin) tin).2.1, C01.FromReceived tin f') := by
  have hb := client_main_buffers env argv f h
  have ht := tunnel_session_safe f.cli f.args (Top.cpw f) dev hb.1 hin tin hok
  exact ⟨ht.1, ht.2.1, ht.2.2 hb.2⟩

/-- **client_session_safe_from_main.**  The whole composition from `argv` on, under the two conditions `main()` does not check
(`100 ≤ hostname_maxlen`, 24 characters of room behind the domain — needed for the bound on the host names and for "a timeout always
SENDS": outside them `dns_encode` can fail and `build_hostname` is unbounded, Props/C08Main.lean `client_main_gap`). -/
theorem client_session_safe_from_main (env : Env) (argv : List (List Nat)) (f : Final) (h : Top.CStarts env argv f)
    (L : Nat) (hL : f.cli.hostnameMaxlen = (L : Int)) (h100 : 100 ≤ L) (hroom : f.cli.topdomain.length + 24 ≤ L)
    (dev : List Nat) (hd : dev.length ≤ 430) (hin tin : List CInput) (hok : ∀ i ∈ tin, InputOk i) :
    (HsBufInv (C08.hsRun f.cli f.args (Top.cpw f) dev hin).1 ∧
     (∀ e ∈ (C08.hsRun f.cli f.args (Top.cpw f) dev hin).2.1, HsEventOk e) ∧
     (∀ cmd, CEvent.sys cmd ∈ (C08.hsRun f.cli f.args (Top.cpw f) dev hin).2.1 → C13.IpCmd dev cmd ∨ C13.MtuCmd dev cmd) ∧
     (∀ id ty name, CEvent.query id ty name ∈ (C08.hsRun f.cli f.args (Top.cpw f) dev hin).2.1 → name.length ≤ 253) ∧
     (162 ≤ ticks hin → (C08.hsRun f.cli f.args (Top.cpw f) dev hin).1.pos = none)) ∧
    ((C08.hsRun f.cli f.args (Top.cpw f) dev hin).2.2 = .finished 0 →
     CliBufInv (C08.tunRun (C08.hsRun f.cli f.args (Top.cpw f) dev hin) tin).1.c ∧
     (∀ e ∈ (C08.tunRun (C08.hsRun f.cli f.args (Top.cpw f) dev hin) tin).2.1, TunEventOk e) ∧
     (tin ≠ [] → ∀ f' ∈ C01.tunWrites (C08.tunRun (C08.hsRun f.cli f.args (Top.cpw f) dev hin) tin).2.1, C01.FromReceived tin f') ∧
     (∀ id ty name, CEvent.query id ty name ∈ (C08.tunRun (C08.hsRun f.cli f.args (Top.cpw f) dev hin) tin).2.1 → name.length ≤ 253) ∧
     (∀ more : List CInput, (∀ i ∈ more, InputOk i) → 2 ≤ ticks more →
        SendsIn (C08.tunRun (C08.hsRun f.cli f.args (Top.cpw f) dev hin) tin).1 more ∨
        (C01.cafter (C08.tunRun (C08.hsRun f.cli f.args (Top.cpw f) dev hin) tin).1 more).ph = .idle)) :=
  client_session_safe L f.cli f.args (Top.cpw f) dev (C08.client_main_establishes_ClientCfgOk env argv f h L hL h100 hroom)
    (client_main_buffers env argv f h).1 (client_main_buffers env argv f h).2 hd hin tin hok

/-- **tunnel_no_wedge_default.**  Without `-M` (hostname_maxlen still 255) no hypothesis is left: from every state of every session
of every command line, two timeouts never pass without a datagram being sent or `client_tunnel` returning. -/
theorem tunnel_no_wedge_default (env : Env) (argv : List (List Nat)) (f : Final) (h : Top.CStarts env argv f)
    (hM : f.cli.hostnameMaxlen = 255) (dev : List Nat) (hin tin : List CInput)
    (hfin : (C08.hsRun f.cli f.args (Top.cpw f) dev hin).2.2 = .finished 0) (hok : ∀ i ∈ tin, InputOk i)
    (more : List CInput) (hmore : ∀ i ∈ more, InputOk i) (ht : 2 ≤ ticks more) :
    SendsIn (C08.tunRun (C08.hsRun f.cli f.args (Top.cpw f) dev hin) tin).1 more ∨
    (C01.cafter (C08.tunRun (C08.hsRun f.cli f.args (Top.cpw f) dev hin) tin).1 more).ph = .idle :=
  (client_session_live 255 f.cli f.args (Top.cpw f) dev (C08.client_main_default_maxlen env argv f h hM) hin tin hfin hok).2
    more hmore ht

/-- non-vacuity: the example command line of Props/C08Main.lean (`iodine -M 200 -Ttxt -O base64 ns t.example.com`) reaches the
handshake, and `client_main_buffers` applies to what it hands over -/
example (f : Final) (h : (clientMain C08.exEnv C08.exArgvCli).final = some f) : CliBufInv f.cli ∧ f.cli.inpkt.len = 0 :=
  client_main_buffers C08.exEnv C08.exArgvCli f h

example : ((clientMain C08.exEnv C08.exArgvCli).final.map fun f => (f.cli.inpkt.len, f.cli.outpkt.len, f.cli.inpkt.data, f.cli.outpkt.data))
    = some (0, 0, [], []) := by decide +kernel

end Iodine.C06
