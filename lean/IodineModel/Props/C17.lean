import IodineModel.Common
import IodineModel.Lemmas.Common
/-
C17 — `check_topdomain` accepts exactly the well-formed (optionally wildcard) domains, and
`query_datalen` reports a data length exactly for the query names that lie inside the configured domain
at a label boundary.

The specification (`ValidDomain`, `SufMatches`, `Boundary`, `DataLen`, …) is written here, declaratively
and without reference to the model's code; the model is IodineModel/Common.lean, helper lemmas are in
IodineModel/Lemmas/Common.lean.  Characters are bytes as `Nat`:
'*' = 42, '-' = 45, '.' = 46, '0'..'9' = 48..57, 'A'..'Z' = 65..90, 'a'..'z' = 97..122.
-/
namespace Iodine.C17
open Iodine Iodine.Common

/-! ### Specification: well-formed top domains -/

def Letter (c : Nat) : Prop := (65 ≤ c ∧ c ≤ 90) ∨ (97 ≤ c ∧ c ≤ 122)
def Digit (c : Nat) : Prop := 48 ≤ c ∧ c ≤ 57
/-- letter, digit, '-' or '.' -/
def DomChar (c : Nat) : Prop := Letter c ∨ Digit c ∨ c = 45 ∨ c = 46

instance : DecidablePred Letter := fun c => by unfold Letter; infer_instance
instance : DecidablePred Digit := fun c => by unfold Digit; infer_instance
instance : DecidablePred DomChar := fun c => by unfold DomChar; infer_instance

/-- Split a string at every occurrence of `d`: `splitOn 46 "ab..c" = ["ab", "", "c"]`,
`splitOn 46 "" = [""]`. -/
def splitOn (d : Nat) : List Nat → List (List Nat)
  | [] => [[]]
  | c :: cs =>
    if c = d then [] :: splitOn d cs
    else match splitOn d cs with
      | l :: ls => (c :: l) :: ls
      | [] => [[c]]

/-- `3 ≤ |s| ≤ 128`; all characters are letters, digits, '-' or '.', except that with `allowWild` the
string may start with "*." ; split at the dots there are at least two labels, each of length 1..63. -/
def ValidDomain (allowWild : Bool) (s : List Nat) : Prop :=
  3 ≤ s.length ∧ s.length ≤ 128 ∧
  ((∀ c ∈ s, DomChar c) ∨
    (allowWild = true ∧ s.take 2 = [42, 46] ∧ ∀ c ∈ s.drop 2, DomChar c)) ∧
  2 ≤ (splitOn 46 s).length ∧
  ∀ l ∈ splitOn 46 s, 1 ≤ l.length ∧ l.length ≤ 63

instance (w : Bool) (s : List Nat) : Decidable (ValidDomain w s) := by unfold ValidDomain; infer_instance

/-! ### Specification: a query name inside a domain -/

def asciiLower (c : Nat) : Nat := if 65 ≤ c ∧ c ≤ 90 then c + 32 else c

/-- equal length and character-wise equal up to ASCII case -/
def CiEq (a b : List Nat) : Prop := a.map asciiLower = b.map asciiLower

instance (a b : List Nat) : Decidable (CiEq a b) := by unfold CiEq; infer_instance

/-- `suf` matches the domain `t`: case-insensitively equal to it, or — if `t = '*' :: t'` — a non-empty
label without '.' and '*' followed by something case-insensitively equal to `t'`. -/
def SufMatches (suf t : List Nat) : Prop :=
  if t.head? = some 42 then
    ∃ lab suf', suf = lab ++ suf' ∧ lab ≠ [] ∧ 46 ∉ lab ∧ 42 ∉ lab ∧ CiEq suf' t.tail
  else CiEq suf t

/-- the data part is empty or ends with '.', i.e. the domain part starts at a label boundary -/
def Boundary (pre : List Nat) : Prop := pre = [] ∨ pre.getLast? = some 46

/-- `q = pre ++ suf` is a split of `q` into data part and domain part for the domain `t` -/
def IsSplit (q t pre suf : List Nat) : Prop := q = pre ++ suf ∧ SufMatches suf t ∧ Boundary pre

/-- `q` lies inside the domain `t` -/
def Matches (q t : List Nat) : Prop := ∃ pre suf, IsSplit q t pre suf

/-- `n` is the number of data bytes of `q` w.r.t. the domain `t` -/
def DataLen (q t : List Nat) (n : Nat) : Prop := ∃ pre suf, IsSplit q t pre suf ∧ n = pre.length

/-- no two consecutive '.' -/
def NoDoubleDot (q : List Nat) : Prop := ¬ [46, 46] <:+: q

/-! ### Sanity of the specification's `splitOn` (these two equations determine it) -/

theorem splitOn_nodelim (d : Nat) (l : List Nat) (h : d ∉ l) : splitOn d l = [l] := by
  induction l with
  | nil => rfl
  | cons c cs ih =>
    have hc : c ≠ d := fun e => h (e ▸ List.mem_cons_self)
    have := ih (fun e => h (List.mem_cons_of_mem _ e))
    simp only [splitOn, if_neg hc, this]

theorem splitOn_append_delim (d : Nat) (l rest : List Nat) (h : d ∉ l) :
    splitOn d (l ++ d :: rest) = l :: splitOn d rest := by
  induction l with
  | nil => simp [splitOn]
  | cons c cs ih =>
    have hc : c ≠ d := fun e => h (e ▸ List.mem_cons_self)
    have := ih (fun e => h (List.mem_cons_of_mem _ e))
    simp only [List.cons_append, splitOn, if_neg hc, this]

example : splitOn 46 [97, 98, 46, 46, 99] = [[97, 98], [], [99]] := by decide
example : splitOn 46 [] = [[]] := by decide
example : splitOn 46 [46] = [[], []] := by decide

/-! ### Bridges between the specification's and the model's vocabulary -/

theorem domChar_iff (c : Nat) : plainChar c = true ↔ DomChar c := by
  unfold plainChar isDigit DomChar Letter Digit
  simp only [Bool.or_eq_true, Bool.and_eq_true, decide_eq_true_eq, beq_iff_eq]
  omega

theorem asciiLower_eq : asciiLower = toLower := by
  funext c
  unfold asciiLower toLower
  by_cases h : 65 ≤ c ∧ c ≤ 90
  · simp [h]
  · rw [if_neg h]
    have : ¬ ((decide (65 ≤ c) && decide (c ≤ 90)) = true) := by simpa using h
    rw [if_neg this]

theorem wild_shape (s : List Nat) :
    (s.take 2 = [42, 46] ∧ ∀ c ∈ s.drop 2, DomChar c) ↔
      ∃ r, s = 42 :: 46 :: r ∧ ∀ c ∈ r, plainChar c = true := by
  simp only [domChar_iff]
  constructor
  · intro ⟨ht, hd⟩
    have hs := List.take_append_drop 2 s
    rw [ht] at hs
    exact ⟨s.drop 2, hs.symm, hd⟩
  · intro ⟨r, hs, hr⟩
    subst hs
    exact ⟨rfl, hr⟩

/-! ### C17a: check_topdomain -/

/-- `check_topdomain(s, w, _) == 0` exactly for the valid domains. -/
theorem check_topdomain_iff_spec (s : List Nat) (w : Bool) :
    checkTopdomain s w = 0 ↔ ValidDomain w s := by
  rw [checkTopdomain_iff (splitOn 46) (splitOn_nodelim 46) (splitOn_append_delim 46)]
  unfold ValidDomain
  simp only [wild_shape, domChar_iff]

example : ValidDomain true [42, 46, 116, 46, 99, 111] := by decide                      -- "*.t.co"
example : ¬ ValidDomain false [42, 46, 116, 46, 99, 111] := by decide
example : ValidDomain false [116, 45, 49, 46, 67, 111] := by decide                     -- "t-1.Co"
example : ¬ ValidDomain true [97, 42, 46, 99, 111] := by decide                         -- "a*.co"
example : ¬ ValidDomain true [42, 97, 46, 99, 111] := by decide                         -- "*a.co"
example : ¬ ValidDomain true [97, 46, 46, 99] := by decide                              -- "a..c"
example : ¬ ValidDomain true [97, 46, 99, 46] := by decide                              -- "a.c."
example : ¬ ValidDomain true [97, 98, 99] := by decide                                  -- "abc"
example : ValidDomain true (List.replicate 63 97 ++ [46, 97]) := by decide +kernel
example : ¬ ValidDomain true (List.replicate 64 97 ++ [46, 97]) := by decide +kernel    -- 64-char label
example : checkTopdomain (List.replicate 64 97 ++ [46, 97]) true = 1 := by decide +kernel
example : checkTopdomain [42, 46, 116, 46, 99, 111] true = 0 := by decide

/-- a plain valid domain is also valid when wildcards are allowed -/
theorem validDomain_mono {s : List Nat} (h : ValidDomain false s) : ValidDomain true s := by
  obtain ⟨h1, h2, h3, h4⟩ := h
  refine ⟨h1, h2, ?_, h4⟩
  rcases h3 with h | ⟨h, _⟩
  · exact Or.inl h
  · cases h

/-! ### C17b: query_datalen -/

/-- For a valid (possibly wildcard) domain `t` and a query name without "..", `query_datalen` returns `n`
exactly when `q` splits into `n` data bytes ending at a label boundary followed by a part matching `t`. -/
theorem query_datalen_iff_spec (q t : List Nat) (n : Nat)
    (hv : ValidDomain true t) (hq : NoDoubleDot q) :
    queryDatalen q t = some n ↔
      ∃ pre suf, q = pre ++ suf ∧ SufMatches suf t ∧ Boundary pre ∧ n = pre.length := by
  obtain ⟨h3, _, hch, _, _⟩ := hv
  unfold SufMatches CiEq Boundary
  rw [asciiLower_eq]
  rcases hch with hall | ⟨_, hw⟩
  · -- plain domain
    have hstar : 42 ∉ t := fun h => absurd (hall 42 h) (by decide)
    have hhead : ¬ t.head? = some 42 := fun h => hstar (List.mem_of_mem_head? h)
    simp only [if_neg hhead]
    exact queryDatalen_plain q t n h3 hstar
  · -- wildcard domain "*." ++ r
    obtain ⟨r, rfl, hr⟩ := (wild_shape t).mp hw
    have hstar : 42 ∉ 46 :: r := by
      intro h
      rcases List.mem_cons.mp h with h | h
      · cases h
      · have := hr 42 h; simp [plainChar_star] at this
    simp only [List.head?_cons, if_true, List.tail_cons]
    rw [queryDatalen_wild q (46 :: r) n (by simp only [List.length_cons] at h3 ⊢; omega) hstar rfl hq]
    constructor
    · intro ⟨pre, lab, suf', h1, h2, h3, h4, h5, h6, h7⟩
      exact ⟨pre, lab ++ suf', h1, ⟨lab, suf', rfl, h2, h3, h4, h5⟩, h6, h7⟩
    · intro ⟨pre, suf, h1, ⟨lab, suf', h0, h2, h3, h4, h5⟩, h6, h7⟩
      exact ⟨pre, lab, suf', h0 ▸ h1, h2, h3, h4, h5, h6, h7⟩

/-- the same, phrased with `DataLen` -/
theorem query_datalen_eq_iff_dataLen (q t : List Nat) (n : Nat)
    (hv : ValidDomain true t) (hq : NoDoubleDot q) :
    queryDatalen q t = some n ↔ DataLen q t n := by
  rw [query_datalen_iff_spec q t n hv hq]
  unfold DataLen IsSplit
  constructor
  · intro ⟨pre, suf, h1, h2, h3, h4⟩; exact ⟨pre, suf, ⟨h1, h2, h3⟩, h4⟩
  · intro ⟨pre, suf, ⟨h1, h2, h3⟩, h4⟩; exact ⟨pre, suf, h1, h2, h3, h4⟩

/-- The data length is well defined: two splits of the same name have the same data length … -/
theorem dataLen_unique (q t : List Nat) (n m : Nat)
    (hv : ValidDomain true t) (hq : NoDoubleDot q) (hn : DataLen q t n) (hm : DataLen q t m) : n = m := by
  rw [← query_datalen_eq_iff_dataLen q t _ hv hq] at hn hm
  rw [hn] at hm
  exact Option.some.inj hm

/-- … and in fact the split itself is unique. -/
theorem split_unique (q t pre₁ suf₁ pre₂ suf₂ : List Nat)
    (hv : ValidDomain true t) (hq : NoDoubleDot q)
    (h₁ : IsSplit q t pre₁ suf₁) (h₂ : IsSplit q t pre₂ suf₂) : pre₁ = pre₂ ∧ suf₁ = suf₂ := by
  have hlen : pre₁.length = pre₂.length :=
    dataLen_unique q t _ _ hv hq ⟨pre₁, suf₁, h₁, rfl⟩ ⟨pre₂, suf₂, h₂, rfl⟩
  have he : pre₁ ++ suf₁ = pre₂ ++ suf₂ := h₁.1.symm.trans h₂.1
  exact List.append_inj he hlen

/-- Outside the domain the answer is -1. -/
theorem query_datalen_none_outside (q t : List Nat)
    (hv : ValidDomain true t) (hq : NoDoubleDot q) (hout : ¬ Matches q t) :
    queryDatalen q t = none := by
  cases h : queryDatalen q t with
  | none => rfl
  | some n =>
    obtain ⟨pre, suf, h1, h2, h3, _⟩ := (query_datalen_iff_spec q t n hv hq).mp h
    exact (hout ⟨pre, suf, h1, h2, h3⟩).elim

/-- `query_datalen` answers ≥ 0 exactly for the names inside the domain. -/
theorem query_datalen_isSome_iff_matches (q t : List Nat)
    (hv : ValidDomain true t) (hq : NoDoubleDot q) :
    (queryDatalen q t).isSome = true ↔ Matches q t := by
  constructor
  · intro h
    obtain ⟨n, hn⟩ := Option.isSome_iff_exists.mp h
    obtain ⟨pre, suf, h1, h2, h3, _⟩ := (query_datalen_iff_spec q t n hv hq).mp hn
    exact ⟨pre, suf, h1, h2, h3⟩
  · intro ⟨pre, suf, h1, h2, h3⟩
    rw [(query_datalen_iff_spec q t pre.length hv hq).mpr ⟨pre, suf, h1, h2, h3, rfl⟩]
    rfl

/-! ### Non-vacuity -/

instance (q : List Nat) : Decidable (NoDoubleDot q) := by unfold NoDoubleDot; infer_instance

-- "abc.DEF.t.co" in "*.T.co": data = "abc." (4 bytes), wildcard label "DEF"
example : queryDatalen [97, 98, 99, 46, 68, 69, 70, 46, 116, 46, 99, 111] [42, 46, 84, 46, 99, 111] = some 4 := by
  decide
example : NoDoubleDot [97, 98, 99, 46, 68, 69, 70, 46, 116, 46, 99, 111] := by decide
example : IsSplit [97, 98, 99, 46, 68, 69, 70, 46, 116, 46, 99, 111] [42, 46, 84, 46, 99, 111]
    [97, 98, 99, 46] [68, 69, 70, 46, 116, 46, 99, 111] :=
  ⟨rfl, by
    unfold SufMatches
    simp only [List.head?_cons, if_true, List.tail_cons]
    exact ⟨[68, 69, 70], [46, 116, 46, 99, 111], rfl, by decide, by decide, by decide, by decide⟩,
   Or.inr rfl⟩
-- "abc.DEF.t.co" in "T.co": data = "abc.DEF." (8 bytes)
example : queryDatalen [97, 98, 99, 46, 68, 69, 70, 46, 116, 46, 99, 111] [84, 46, 99, 111] = some 8 := by decide
-- "xt.co" is not inside "t.co" (no label boundary); "t.co" itself has 0 data bytes
example : queryDatalen [120, 116, 46, 99, 111] [116, 46, 99, 111] = none := by decide
example : queryDatalen [116, 46, 99, 111] [116, 46, 99, 111] = some 0 := by decide
-- wildcard needs a label: "t.co" is not inside "*.t.co"; a '*' in the query's label is refused
example : queryDatalen [116, 46, 99, 111] [42, 46, 116, 46, 99, 111] = none := by decide
example : queryDatalen [97, 42, 46, 116, 46, 99, 111] [42, 46, 116, 46, 99, 111] = none := by decide
-- a name starting with '.' : ".t.co" in "t.co" has the 1 data byte "."
example : queryDatalen [46, 116, 46, 99, 111] [116, 46, 99, 111] = some 1 := by decide

/-- `NoDoubleDot` is needed: for "a..t.co" in "*.t.co" the C code answers 0 (it steps over the '.' it
enters the wildcard phase on and takes "a." as the label), but no split with 0 data bytes exists. -/
example : queryDatalen [97, 46, 46, 116, 46, 99, 111] [42, 46, 116, 46, 99, 111] = some 0
    ∧ ValidDomain true [42, 46, 116, 46, 99, 111]
    ∧ ¬ DataLen [97, 46, 46, 116, 46, 99, 111] [42, 46, 116, 46, 99, 111] 0 := by
  refine ⟨by decide, by decide, ?_⟩
  intro ⟨pre, suf, ⟨h1, h2, _⟩, h4⟩
  have hp : pre = [] := List.length_eq_zero_iff.mp h4.symm
  subst hp
  unfold SufMatches at h2
  simp only [List.head?_cons, if_true, List.tail_cons] at h2
  obtain ⟨lab, suf', hs, _, hd, _, hc⟩ := h2
  have hl5 : suf'.length = 5 := by simpa using congrArg List.length hc
  have hl : lab.length + suf'.length = 7 := by
    have := congrArg List.length (h1.trans (by rw [List.nil_append, hs]))
    simpa using this.symm
  have hlab : lab = [97, 46] := by
    have h := congrArg (List.take 2) (h1.trans (by rw [List.nil_append, hs]))
    rw [List.take_left' (by omega)] at h
    exact h.symm
  exact hd (by rw [hlab]; decide)

end Iodine.C17
