import IodineModel.Server.Run
import IodineModel.Lemmas.SrvC03e
/-
C03 — No tunnel access without answering the password challenge.

  The server writes a packet to its tun device, forwards a packet to another client, discloses its address,
  changes a session's codec, options or fragment size, or switches a session to raw UDP mode only on behalf of
  a session that has answered that session's current login challenge with the MD5 response derived from the
  server password.  This holds for every sequence of datagrams from any number of sources, including replays
  of logins for an earlier challenge, wrong or out-of-range userids, and raw-mode login/data/ping messages.

This file holds the specification side (what a request names, what a good login is, what the privileged effects
are, the history monitor) and the property theorems.  The statements are about `Server.next` / `Server.out`
(one iteration of `tunnel()`: top of loop, handler, sweep) for EVERY state, input and clock value — the (A)
theorems need no reachability — and about every run from `Server.start` (B; monotone clock or not).
Helper lemmas: Lemmas/SrvC03a … SrvC03e (`C03L.stepOutcome` classifies an iteration into: nothing privileged /
tun frame / allocation by `V` / good login / request of an authenticated session / good raw login / raw data of an
authenticated_raw session; every theorem below is a case analysis over it).
-/
namespace Iodine.C03
open Iodine Iodine.Server Iodine.C03L

/-! ### Specification side: the protocol's request format (doc/proto_00000502.txt) -/

/-- The data characters of a query for the tunnel domain: what precedes the top domain (the server looks at no
more than 512 of them; a DNS name has at most 255).  `none`: not a tunnel request, or fewer than two data
characters (no request is that short). -/
def payload (cfg : Config) (q : Query) : Option (List Nat) :=
  match Common.queryDatalen q.name cfg.topdomain with
  | some dlen => if 2 ≤ dlen then some (q.name.take (min dlen 512)) else none
  | none => none

/-- the Base32 field of a request: everything after the command character, dots removed, decoded -/
def b32Field (inb : List Nat) : List Nat := Encoding.unpackData Codec.b32 65536 (inb.drop 1)

/-- the command character is `lo` or its upper-case form `up` -/
abbrev cmdIs (inb : List Nat) (lo up : Nat) : Prop := inb.getD 0 0 = lo ∨ inb.getD 0 0 = up

/-- where a request carries its user id -/
inductive UidField where
  /-- `L`, `N`, `P`: first byte of the Base32 field (a C `char`: 128..255 are negative) -/
  | b32Byte
  /-- `I`, `S`, `O`: the Base32 digit after the command character (0..31) -/
  | b32Digit
  /-- `R`: bits 4..1 of the Base32 digit after the command character -/
  | probe
  /-- upstream data: the command character itself is the hex digit -/
  | hex

def uidField (inb : List Nat) : Option UidField :=
  if cmdIs inb 108 76 ∨ cmdIs inb 110 78 ∨ cmdIs inb 112 80 then some .b32Byte
  else if cmdIs inb 105 73 ∨ cmdIs inb 115 83 ∨ cmdIs inb 111 79 then some .b32Digit
  else if cmdIs inb 114 82 then some .probe
  else if isHexDigit (inb.getD 0 0) then some .hex
  else none

/-- The session slot a datagram names (`none`: the datagram has no user id field — `V`, `Z`, `Y`, anything that
is not a tunnel request, tun frames, …).  For raw frames: the low nibble of the fourth header byte. -/
def namedSlot (cfg : Config) : Input → Option Int
  | .q q =>
    match payload cfg q with
    | none => none
    | some inb =>
      match uidField inb with
      | none => none
      | some .b32Byte => some (charVal ((b32Field inb).getD 0 0))
      | some .b32Digit => some ((b32_8to5 (inb.getD 1 0) : Nat) : Int)
      | some .probe => some (((b32_8to5 (inb.getD 1 0) >>> 1) &&& 15 : Nat) : Int)
      | some .hex => some (hexCode (inb.getD 0 0))
  | .rawf _ bytes => some ((bytes.getD 3 0 &&& 15 : Nat) : Int)
  | _ => none

/-- the source address of a datagram -/
def srcOf : Input → Option Addr
  | .q q => some q.from_
  | .rawf src _ => some src
  | _ => none

/-- `q` is a login request (`l`/`L`, then Base32 of userid(1) ++ hash(16) ++ cmc(2)) whose 16 hash bytes are the
MD5 response for challenge `seed` under the server password -/
def goodLogin (cfg : Config) (seed : Nat) (q : Query) : Prop :=
  match payload cfg q with
  | none => False
  | some inb =>
    cmdIs inb 108 76 ∧ 18 ≤ (b32Field inb).length ∧
      ((b32Field inb).drop 1).take 16 = Login.loginCalcC cfg.password seed

instance (cfg : Config) (seed : Nat) (q : Query) : Decidable (goodLogin cfg seed q) := by
  unfold goodLogin; split <;> infer_instance

/-- `q` is a version request (`v`/`V`) -/
def versionReq (cfg : Config) (q : Query) : Prop :=
  match payload cfg q with
  | none => False
  | some inb => cmdIs inb 118 86

instance (cfg : Config) (q : Query) : Decidable (versionReq cfg q) := by
  unfold versionReq; split <;> infer_instance

/-- a raw login frame: header, then the 16-byte MD5 response for `seed + 1` -/
def goodRawLogin (cfg : Config) (seed : Nat) (bytes : List Nat) : Prop :=
  ((bytes.take 65536).drop 4).take 16 = Login.loginCalcC cfg.password (seed + 1)

/-! ### Specification side: sessions -/

/-- slot `u` exists, is in use, not disabled and not expired at time `now` -/
structure Live (s : Srv) (now : Nat) (u : Nat) : Prop where
  lt : u < s.cfg.createdUsers
  active : (getUser s u).active = true
  enabled : (getUser s u).disabled = false
  fresh : now ≤ (getUser s u).lastPkt + 60

/-- with `-c` off (source checking on) the datagram comes from the address the session is bound to -/
def SrcOk (s : Srv) (u : Nat) (src : Addr) : Prop :=
  s.cfg.checkIp = true → src.fam = (getUser s u).host.fam ∧ src.ip = (getUser s u).host.ip

/-- The iteration `(s, st)` works on behalf of session `u`, and `u` is authenticated in the state BEFORE the
iteration: the datagram names `u`, `u` is live, the source is the bound one (DNS mode and raw data/ping; a raw
login re-binds the session, see `raw_switch_needs_authenticated`). -/
structure OnBehalf (s : Srv) (st : Step) (u : Nat) : Prop where
  named : namedSlot s.cfg st.inp = some (u : Int)
  live : Live s st.now u
  authenticated : (getUser s u).authenticated = true

/-- the VACK answer (to query `q`) announcing slot `u` and challenge `seed`: "VACK" ++ seed (4 bytes BE) ++ userid -/
def vackFor (q : Query) (u seed : Nat) (e : Event) : Prop :=
  ∃ dn, e = Event.ans q.from_ q.id q.type dn q.name (ascii "VACK" ++ beBytes 4 seed ++ [u % 256]) .ctrl

/-- The iteration allocated slot `u` by a version handshake: a `V` request, the slot was free (unused or
expired, not disabled), and the VACK carrying the slot's NEW challenge is among the events. -/
structure Allocated (s : Srv) (st : Step) (u : Nat) : Prop where
  isV : ∃ q, st.inp = .q q ∧ versionReq s.cfg q ∧ ∃ e ∈ out s st, vackFor q u (getUser (next s st) u).seed e
  free : ((getUser s u).active = false ∨ (getUser s u).lastPkt + 60 < st.now) ∧ (getUser s u).disabled = false

/-! ### Specification side: the privileged effects -/

/-- P1: a packet is written to the tun device -/
def TunWrite (s : Srv) (st : Step) : Prop := ∃ f, Event.tunw f ∈ out s st

/-- number of downstream packets a session holds (the one in flight plus the queue) -/
def backlog (x : Session) : Nat := x.oqFilled + (if x.outpacket.len > 0 then 1 else 0)

/-- a raw frame with command DATA -/
abbrev isRawData (bytes : List Nat) : Prop := bytes.getD 3 0 &&& 240 = 32

/-- the input is a datagram from the network -/
def fromNetwork : Input → Prop
  | .q _ => True
  | .rawf _ _ => True
  | _ => False

/-- P2: a datagram from the network makes the server put a packet into some session's downstream: the backlog of
a slot grows, or a raw DATA frame is sent.  (Packets read from the tun device do the same; they are not a
client's doing.) -/
def Forwarded (s : Srv) (st : Step) : Prop :=
  fromNetwork st.inp ∧
    ((∃ v, backlog (getUser s v) < backlog (getUser (next s st) v)) ∨
     (∃ dst bytes, Event.raw dst bytes ∈ out s st ∧ isRawData bytes))

/-- the events of the handler phase of an iteration: those before the `sweep` marker -/
def handlerEvents (evs : List Event) : List Event := evs.takeWhile (fun e => e != Event.sweep)

/-- an answer of the data path: tunnel data header (+ fragment of a session's downstream packet), a replayed
cached one, or the reply to a recognised duplicate -/
def isDataAnswer : Event → Bool
  | .ans _ _ _ _ _ _ tag => tag != .ctrl
  | _ => false

/-- P2 (continued): a datagram from the network is answered, in the handler phase, with a tunnel data packet.  This
covers a forwarded packet that goes out at once (in the answer to a query of the target session that was waiting)
without ever enlarging the target's backlog. -/
def SendsTunnelData (s : Srv) (st : Step) : Prop :=
  fromNetwork st.inp ∧ ∃ e ∈ handlerEvents (out s st), isDataAnswer e = true

/-- P3: an answer to an `i`/`I` query whose data starts with 'I' (followed by the server's address) -/
def DisclosesAddr (s : Srv) (st : Step) : Prop :=
  ∃ dst id ty dn name data, Event.ans dst id ty dn name data .ctrl ∈ out s st ∧
    (name.getD 0 0 = 105 ∨ name.getD 0 0 = 73) ∧ data.head? = some 73

/-- P4: upstream codec, downstream codec, lazy mode or fragment size of slot `w` change -/
def CodecChange (s : Srv) (st : Step) (w : Nat) : Prop :=
  (getUser (next s st) w).encoder ≠ (getUser s w).encoder ∨
  (getUser (next s st) w).downenc ≠ (getUser s w).downenc ∨
  (getUser (next s st) w).lazy ≠ (getUser s w).lazy ∨
  (getUser (next s st) w).fragsize ≠ (getUser s w).fragsize

/-- P5: slot `w` is switched to raw UDP mode / becomes `authenticated_raw` -/
def RawSwitch (s : Srv) (st : Step) (w : Nat) : Prop :=
  ((getUser (next s st) w).conn = .rawUdp ∧ (getUser s w).conn ≠ .rawUdp) ∨
  ((getUser (next s st) w).authenticatedRaw = true ∧ (getUser s w).authenticatedRaw = false)

/-- All privileged effects of iteration `(s, st)`, attributed to slot `u`: P1–P3 (tun write, forwarding / tunnel
data in the answer, address disclosure) to the slot the datagram names,
P4 (unless it is the allocation of `u` by a version handshake) and P5 to the slot that changes. -/
def Privileged (s : Srv) (st : Step) (u : Nat) : Prop :=
  (namedSlot s.cfg st.inp = some (u : Int) ∧
    (TunWrite s st ∨ Forwarded s st ∨ DisclosesAddr s st ∨ SendsTunnelData s st)) ∨
  (CodecChange s st u ∧ ¬ Allocated s st u) ∨
  RawSwitch s st u

/-! ### Specification side: (B) the history monitor -/

/-- what the monitor remembers of the history: which slots have answered their current challenge, and the seed
announced by the last VACK for each slot -/
structure Mon where
  authed : Nat → Bool
  seed : Nat → Option Nat

def Mon.init : Mon := ⟨fun _ => false, fun _ => none⟩

/-- slot and seed announced by an event, if it is a VACK: an answer to a `v`/`V` query with data
"VACK" ++ seed (4 bytes, big endian) ++ userid (1 byte) -/
def vackInfo : Event → Option (Nat × Nat)
  | .ans _ _ _ _ name data .ctrl =>
    if (name.getD 0 0 = 118 ∨ name.getD 0 0 = 86) ∧ data.take 4 = ascii "VACK" ∧ data.length = 9 then
      some (data.getD 8 0, beVal ((data.drop 4).take 4))
    else none
  | _ => none

/-- the monitor's judgement of a login request naming user id `i`: good for the seed of the last VACK for that slot -/
def Mon.loginOk (cfg : Config) (m : Mon) (q : Query) (i : Int) : Bool :=
  decide (0 ≤ i) &&
    match m.seed i.toNat with
    | some sd => decide (goodLogin cfg sd q)
    | none => false

/-- The monitor's update, from the input and the events of one iteration only.
* a version request answered by a VACK for slot `u` with seed `sd`: `u` has a NEW current challenge `sd` and has not
  answered it;
* a login request naming slot `u` that is good for the seed of the last VACK for `u`: `u` has answered its
  current challenge. -/
def Mon.update (cfg : Config) (m : Mon) (t : TraceStep) : Mon :=
  match t.step.inp with
  | .q q =>
    if versionReq cfg q then
      match t.events.findSome? vackInfo with
      | some (u, sd) =>
        { authed := fun v => if v = u then false else m.authed v,
          seed := fun v => if v = u then some sd else m.seed v }
      | none => m
    else
      match namedSlot cfg (.q q) with
      | some i =>
        if m.loginOk cfg q i then
          { m with authed := fun v => if v = i.toNat then true else m.authed v }
        else m
      | none => m
  | _ => m

/-- the monitor's view of "the datagram names a slot that has answered its current challenge" -/
def Mon.namedAuthed (cfg : Config) (m : Mon) (inp : Input) (w : Option Nat := none) : Bool :=
  match namedSlot cfg inp with
  | some i => decide (0 ≤ i) && m.authed i.toNat && (match w with | some w => decide (i.toNat = w) | none => true)
  | none => false

def isTunw : Event → Bool
  | .tunw _ => true
  | _ => false

def isRawDataEv : Event → Bool
  | .raw _ b => decide (isRawData b)
  | _ => false

def isIpAnswer : Event → Bool
  | .ans _ _ _ _ name data .ctrl => decide ((name.getD 0 0 = 105 ∨ name.getD 0 0 = 73) ∧ data.head? = some 73)
  | _ => false

def fromNetworkB : Input → Bool
  | .q _ => true
  | .rawf _ _ => true
  | _ => false

/-- P1–P3 as the monitor observes them: through the events, and (backlog) through `pre`/`post` -/
def observedEffect (t : TraceStep) : Bool :=
  t.events.any isTunw || t.events.any isIpAnswer ||
  (fromNetworkB t.step.inp &&
    (t.events.any isRawDataEv || (handlerEvents t.events).any isDataAnswer ||
     (List.range t.pre.users.length).any fun v => decide (backlog (getUser t.pre v) < backlog (getUser t.post v))))

/-- P4 for slot `w`, observed through `pre`/`post` -/
def codecChanged (t : TraceStep) (w : Nat) : Bool :=
  decide ((getUser t.post w).encoder ≠ (getUser t.pre w).encoder ∨ (getUser t.post w).downenc ≠ (getUser t.pre w).downenc ∨
    (getUser t.post w).lazy ≠ (getUser t.pre w).lazy ∨ (getUser t.post w).fragsize ≠ (getUser t.pre w).fragsize)

/-- P5 for slot `w`, observed through `pre`/`post` -/
def rawSwitched (t : TraceStep) (w : Nat) : Bool :=
  decide (((getUser t.post w).conn = .rawUdp ∧ (getUser t.pre w).conn ≠ .rawUdp) ∨
    ((getUser t.post w).authenticatedRaw = true ∧ (getUser t.pre w).authenticatedRaw = false))

/-- this iteration is a version handshake that announced slot `w` -/
def vackSeenFor (cfg : Config) (t : TraceStep) (w : Nat) : Bool :=
  match t.step.inp with
  | .q q => decide (versionReq cfg q) && t.events.any fun e => (vackInfo e).map (·.1) == some w
  | _ => false

/-- one trace element is fine: every observed privileged effect is on behalf of a slot that has answered its current
challenge (according to the history BEFORE this iteration) -/
def stepOk (cfg : Config) (m : Mon) (t : TraceStep) : Bool :=
  (!observedEffect t || m.namedAuthed cfg t.step.inp) &&
  (List.range t.pre.users.length).all fun w =>
    (!codecChanged t w || m.namedAuthed cfg t.step.inp (some w) || vackSeenFor cfg t w) &&
    (!rawSwitched t w || m.namedAuthed cfg t.step.inp (some w))

/-- the monitor: run over a trace, `false` as soon as an element is not fine -/
def accepts (cfg : Config) : Mon → List TraceStep → Bool
  | _, [] => true
  | m, t :: ts => stepOk cfg m t && accepts cfg (m.update cfg t) ts

/-! ### Glue between the specification-side definitions and the model-side lemmas (Lemmas/SrvC03*.lean) -/

theorem payload_eq {cfg : Config} {q : Query} {inb : List Nat} (h : payload cfg q = some inb) :
    ∃ dlen, Common.queryDatalen q.name cfg.topdomain = some dlen ∧ 2 ≤ dlen ∧ inb = q.name.take (min dlen 512) ∧
      inb.getD 0 0 = q.name.getD 0 0 := by
  unfold payload at h
  split at h
  · next dlen hd =>
    split at h
    · next h2 =>
      cases h
      exact ⟨dlen, hd, h2, rfl, getD_take_zero _ _ (by omega)⟩
    · cases h
  · cases h

theorem payload_of {cfg : Config} {q : Query} {dlen : Nat}
    (hd : Common.queryDatalen q.name cfg.topdomain = some dlen) (h2 : 2 ≤ dlen) :
    payload cfg q = some (q.name.take (min dlen 512)) := by
  unfold payload; rw [hd]; simp [h2]

theorem namedSlot_eq_reqSlot (cfg : Config) (inp : Input) : namedSlot cfg inp = reqSlot cfg inp := by
  cases inp with
  | q q =>
    simp only [namedSlot, reqSlot]
    cases hp : payload cfg q with
    | none =>
      unfold payload at hp
      split at hp
      · next dlen hd =>
        rw [hd]
        split at hp
        · cases hp
        · next h2 => simp only []; rw [if_pos (by omega)]
      · next hd => rw [hd]
    | some inb =>
      obtain ⟨dlen, hd, h2, rfl, h0⟩ := payload_eq hp
      rw [hd]
      simp only []
      rw [if_neg (by omega)]
      simp only [uidField, cmdIs, h0]
      generalize q.name.getD 0 0 = c
      by_cases h1 : c = 76 ∨ c = 108 ∨ c = 78 ∨ c = 110 ∨ c = 80 ∨ c = 112
      · have h1' : (c = 108 ∨ c = 76) ∨ (c = 110 ∨ c = 78) ∨ c = 112 ∨ c = 80 := by omega
        simp only [if_pos h1, if_pos h1']; rfl
      have h1' : ¬ ((c = 108 ∨ c = 76) ∨ (c = 110 ∨ c = 78) ∨ c = 112 ∨ c = 80) := by omega
      simp only [if_neg h1, if_neg h1']
      by_cases h2' : c = 73 ∨ c = 105 ∨ c = 83 ∨ c = 115 ∨ c = 79 ∨ c = 111
      · have h2'' : (c = 105 ∨ c = 73) ∨ (c = 115 ∨ c = 83) ∨ c = 111 ∨ c = 79 := by omega
        simp only [if_pos h2', if_pos h2'']
      have h2'' : ¬ ((c = 105 ∨ c = 73) ∨ (c = 115 ∨ c = 83) ∨ c = 111 ∨ c = 79) := by omega
      simp only [if_neg h2', if_neg h2'']
      by_cases h3 : c = 82 ∨ c = 114
      · have h3' : c = 114 ∨ c = 82 := by omega
        simp only [if_pos h3, if_pos h3']
      have h3' : ¬ (c = 114 ∨ c = 82) := by omega
      simp only [if_neg h3, if_neg h3']
      by_cases h4 : isHexDigit c = true
      · simp only [if_pos h4]
      · simp only [if_neg h4]
  | rawf src bytes => rfl
  | tun f => rfl
  | bind b => rfl
  | tick => rfl

theorem backlog_eq (x : Session) : backlog x = C03L.backlog x := rfl

theorem not_tunw_of_harmless {e : Event} (h : Harmless e) (f : List Nat) : e ≠ .tunw f := by
  intro he; subst he; exact h

theorem not_rawData_of_harmless {dst : Addr} {b : List Nat} (h : Harmless (.raw dst b)) : ¬ isRawData b := h

theorem not_disclose_of_harmless {dst : Addr} {id ty dn : Nat} {name data : List Nat}
    (h : Harmless (.ans dst id ty dn name data .ctrl)) :
    ¬ ((name.getD 0 0 = 105 ∨ name.getD 0 0 = 73) ∧ data.head? = some 73) := by
  intro hh
  exact (h rfl).1 ⟨by omega, hh.2⟩

theorem live_of_userOkAt {s : Srv} {now : Nat} {u : Nat} {src : Addr} (h : UserOkAt s now (u : Int) src) :
    Live s now u ∧ SrcOk s u src := by
  obtain ⟨h1, h2, h3, h4, h5, h6⟩ := h
  simp only [Int.toNat_natCast] at h3 h4 h5 h6
  exact ⟨⟨by omega, h3, h4, by omega⟩, fun hc => ⟨(h6 hc).1, (h6 hc).2.1⟩⟩

theorem onBehalf_of_userOkAt {s : Srv} {st : Step} {i : Int} {src : Addr}
    (hreq : reqSlot s.cfg st.inp = some i) (ok : UserOkAt s st.now i src)
    (hauth : (getUser s i.toNat).authenticated = true) :
    OnBehalf s st i.toNat ∧ SrcOk s i.toNat src ∧ (i.toNat : Int) = i := by
  have hi : ((i.toNat : Nat) : Int) = i := Int.toNat_of_nonneg ok.nonneg
  have ok' : UserOkAt s st.now (i.toNat : Int) src := by rw [hi]; exact ok
  obtain ⟨hl, hs⟩ := live_of_userOkAt ok'
  exact ⟨⟨by rw [namedSlot_eq_reqSlot, hreq, hi], hl, hauth⟩, hs, hi⟩

/-- an event that is no tun write, no raw DATA frame and no `I` answer -/
def Mild (e : Event) : Prop :=
  (∀ f, e ≠ .tunw f) ∧ (∀ d b, e = .raw d b → ¬ isRawData b) ∧
  (∀ dst id ty dn name data, e = .ans dst id ty dn name data .ctrl →
    ¬ ((name.getD 0 0 = 105 ∨ name.getD 0 0 = 73) ∧ data.head? = some 73))

theorem mild_of_harmless {e : Event} (h : Harmless e) : Mild e := by
  refine ⟨not_tunw_of_harmless h, ?_, ?_⟩
  · intro d b he; subst he; exact not_rawData_of_harmless h
  · intro dst id ty dn name data he; subst he; exact not_disclose_of_harmless h

theorem no_tunw_disclose {s : Srv} {st : Step}
    (hm : ∀ e ∈ out s st, (∀ f, e ≠ .tunw f) ∧ (∀ dst id ty dn name data, e = .ans dst id ty dn name data .ctrl →
      ¬ ((name.getD 0 0 = 105 ∨ name.getD 0 0 = 73) ∧ data.head? = some 73))) :
    ¬ TunWrite s st ∧ ¬ DisclosesAddr s st := by
  constructor
  · rintro ⟨f, hf⟩; exact (hm _ hf).1 f rfl
  · rintro ⟨dst, id, ty, dn, name, data, he, hh⟩
    exact (hm _ he).2 dst id ty dn name data rfl hh

theorem no_effect {s : Srv} {st : Step}
    (hb : ∀ v, C03L.backlog (getUser (next s st) v) ≤ C03L.backlog (getUser s v))
    (hm : ∀ e ∈ out s st, Mild e)
    (hh : ∀ e ∈ (out s st).takeWhile (fun e => e != Event.sweep), NoChunk e) :
    ¬ (TunWrite s st ∨ Forwarded s st ∨ DisclosesAddr s st ∨ SendsTunnelData s st) := by
  have h1 := no_tunw_disclose (s := s) (st := st) (fun e he => ⟨(hm e he).1, (hm e he).2.2⟩)
  rintro (h | h | h | h)
  · exact h1.1 h
  · rcases h.2 with ⟨v, hv⟩ | ⟨dst, b, he, hr⟩
    · have := hb v
      simp only [backlog_eq] at hv
      omega
    · exact (hm _ he).2.1 dst b rfl hr
  · exact h1.2 h
  · obtain ⟨_, e, he, hd⟩ := h
    have := hh e he
    cases e <;> simp [isDataAnswer] at hd
    exact hd this

/-- P1–P3 happen only in the two "authenticated session" outcomes -/
theorem effect_cases (s : Srv) (st : Step)
    (h : TunWrite s st ∨ Forwarded s st ∨ DisclosesAddr s st ∨ SendsTunnelData s st) :
    ∃ u src, srcOf st.inp = some src ∧ OnBehalf s st u ∧ SrcOk s u src ∧
      (∀ a b, st.inp = .rawf a b → (getUser s u).authenticatedRaw = true) := by
  cases stepOutcome s st with
  | quiet hp hb he hh => exact absurd h (no_effect hb (fun e h => mild_of_harmless (he e h)) hh)
  | tunIn f hi hp he =>
    exfalso
    have h1 := no_tunw_disclose (s := s) (st := st) (by
      intro e hh
      rcases he e hh with h | ⟨d, b, rfl⟩
      · exact ⟨(mild_of_harmless h).1, (mild_of_harmless h).2.2⟩
      · exact ⟨fun f hf => (nomatch hf), fun _ _ _ _ _ _ hf => nomatch hf⟩)
    rcases h with h | h | h | h
    · exact h1.1 h
    · have := h.1; rw [hi] at this; exact this
    · exact h1.2 h
    · have := h.1; rw [hi] at this; exact this
  | alloc q u sd hi cmd lt free hp hb auth authRaw seed active conn vack he hh =>
    refine absurd h (no_effect hb ?_ hh)
    intro e hh
    rcases he e hh with h | ⟨dn, rfl⟩
    · exact mild_of_harmless h
    · refine ⟨fun f hf => (nomatch hf), fun _ _ hf => (nomatch hf), ?_⟩
      intro dst id ty dn' name data hf hc
      cases hf
      have : q.name.getD 0 0 = 86 ∨ q.name.getD 0 0 = 118 := by
        rcases cmd with ⟨_, _, _, h⟩ | ⟨_, _, _, h⟩
        · exact Or.inl h
        · exact Or.inr h
      omega
  | login q dlen u hi hd h2 cmd len uid hash ok hp hself hb he hh =>
    exact absurd h (no_effect hb (fun e h => mild_of_harmless (he e h)) hh)
  | authedQ q i hi hreq ok hauth hcore hoth =>
    obtain ⟨h1, h2, h3⟩ := onBehalf_of_userOkAt hreq ok hauth
    exact ⟨i.toNat, q.from_, by rw [hi]; rfl, h1, h2, fun a b hab => by rw [hi] at hab; cases hab⟩
  | rawLogin src bytes u hi uid hash lt active enabled auth fresh hp hself hb he hh =>
    exact absurd h (no_effect hb (fun e h => mild_of_harmless (he e h)) hh)
  | authedRaw src bytes u hi hreq ok hauth hraw hp =>
    obtain ⟨h1, h2, h3⟩ := onBehalf_of_userOkAt hreq ok (by simpa using hauth)
    simp only [Int.toNat_natCast] at h1 h2
    exact ⟨u, src, by rw [hi]; rfl, h1, h2, fun _ _ _ => hraw⟩

theorem prot_fields {a b : Session} (h : prot a = prot b) :
    a.active = b.active ∧ a.authenticated = b.authenticated ∧ a.authenticatedRaw = b.authenticatedRaw ∧
    a.seed = b.seed ∧ a.encoder = b.encoder ∧ a.downenc = b.downenc ∧ a.lazy = b.lazy ∧
    a.fragsize = b.fragsize ∧ a.conn = b.conn := by
  unfold prot at h
  simp only [Prot.mk.injEq] at h
  simp [h]

theorem core_fields {a b : Session} (h : core a = core b) :
    a.active = b.active ∧ a.authenticated = b.authenticated ∧ a.authenticatedRaw = b.authenticatedRaw ∧
    a.seed = b.seed ∧ a.conn = b.conn := by
  unfold core at h
  simp only [Core.mk.injEq] at h
  simp [h]

theorem versionReq_of_cmdChar {cfg : Config} {q : Query} (h : CmdChar cfg q 86 ∨ CmdChar cfg q 118) :
    versionReq cfg q := by
  have : ∃ dlen, Common.queryDatalen q.name cfg.topdomain = some dlen ∧ 2 ≤ dlen ∧
      (q.name.getD 0 0 = 118 ∨ q.name.getD 0 0 = 86) := by
    rcases h with ⟨d, h1, h2, h3⟩ | ⟨d, h1, h2, h3⟩
    · exact ⟨d, h1, h2, Or.inr h3⟩
    · exact ⟨d, h1, h2, Or.inl h3⟩
  obtain ⟨dlen, hd, h2, hc⟩ := this
  unfold versionReq
  rw [payload_of hd h2]
  simp only [cmdIs]
  rw [getD_take_zero _ _ (by omega)]
  exact hc

theorem namedSlot_none_of_versionReq {cfg : Config} {q : Query} (h : versionReq cfg q) :
    namedSlot cfg (.q q) = none := by
  unfold versionReq at h
  simp only [namedSlot]
  split at h
  · exact absurd h id
  · next inb hp =>
    have : uidField inb = none := by
      unfold uidField
      have hx : isHexDigit (inb.getD 0 0) = false := by
        unfold isHexDigit
        rcases h with h | h <;> rw [h] <;> decide
      rw [if_neg (by omega), if_neg (by omega), if_neg (by omega), hx]
      simp
    rw [this]

theorem allocated_of_alloc {s : Srv} {st : Step} {q : Query} {u sd : Nat} (hi : st.inp = .q q)
    (cmd : CmdChar s.cfg q 86 ∨ CmdChar s.cfg q 118)
    (free : ((getUser s u).active = false ∨ (getUser s u).lastPkt + 60 < st.now) ∧ (getUser s u).disabled = false)
    (seed : (getUser (next s st) u).seed = sd)
    (vack : ∃ dn, Event.ans q.from_ q.id q.type dn q.name (ascii "VACK" ++ beBytes 4 sd ++ [u % 256]) .ctrl ∈ out s st) :
    Allocated s st u := by
  obtain ⟨dn, hv⟩ := vack
  exact ⟨⟨q, hi, versionReq_of_cmdChar cmd, _, hv, dn, by rw [seed]⟩, free⟩

/-! ### A concrete scenario for the non-vacuity examples
Password "secret", tunnel domain `t.io`, source checking on, 16 slots, `rand()` returns 12345 then 777.
Client A (192.0.2.1) gets slot 0 / seed 12345, client B (192.0.2.2) slot 1 / seed 777.  All names are written
out as bytes: command character, Base32 characters, `.t.io`. -/
namespace Ex

def cfg : Config :=
  { checkIp := true, password := ascii "secret", myIp := 0x0a000001, netmask := 27, topdomain := ascii "t.io",
    mtu := 1130, nsIp := 0, bindPort := 0, dest4 := 0xc0a80001, dest6 := 0, createdUsers := 0 }

def srcA : Addr := ⟨4, 0xc0000201, 4000⟩
def srcB : Addr := ⟨4, 0xc0000202, 4001⟩

def mkQ (src : Addr) (id : Nat) (name : List Nat) : Query :=
  { name := name, type := 10, id := id, from_ := src, id2 := 0, from2 := Addr.zero, dest := ⟨4, 0xc0a80001, 53⟩ }

/-- `v` ++ b32(00 00 05 02 00 01) ++ `.t.io`: version 0x502 -/
def nameV : List Nat := [118, 97, 97, 97, 97, 107, 97, 113, 97, 97, 101, 46, 116, 46, 105, 111]
/-- `l` ++ b32(userid 0 ++ MD5 response for seed 12345 ++ cmc) ++ `.t.io` -/
def nameL0 : List Nat := [108, 97, 98, 109, 121, 103, 113, 116, 121, 98, 48, 104, 117, 101, 120, 106, 113, 51, 98, 103,
  99, 112, 105, 113, 120, 105, 105, 99, 113, 97, 97, 113, 46, 116, 46, 105, 111]
/-- the same for userid 1, seed 777 -/
def nameL1 : List Nat := [108, 97, 102, 121, 122, 106, 97, 97, 108, 121, 107, 102, 121, 117, 52, 108, 121, 110, 117, 104,
  103, 97, 117, 49, 114, 52, 97, 101, 97, 97, 97, 113, 46, 116, 46, 105, 111]
/-- `i` ++ userid digit `a` (0) ++ cmc -/
def nameI : List Nat := [105, 97, 97, 97, 46, 116, 46, 105, 111]
/-- `o` ++ userid digit `a` ++ `l` (lazy mode) -/
def nameO : List Nat := [111, 97, 108, 97, 46, 116, 46, 105, 111]
/-- upstream data of user `0`: header `eaba` (upstream seq 1, frag 0, last fragment), then b32(0x5a ++ IP packet to 8.8.8.8) -/
def nameD8 : List Nat := [48, 101, 97, 98, 97, 108, 105, 97, 97, 97, 99, 97, 97, 105, 117, 97, 97, 97, 102, 97, 97, 97,
  97, 97, 97, 97, 113, 97, 98, 97, 97, 97, 97, 117, 97, 97, 97, 97, 105, 101, 97, 113, 99, 97, 105, 46, 116, 46, 105, 111]
/-- the same with an IP packet to 10.0.0.3, the tunnel address of slot 1 -/
def nameD3 : List Nat := [48, 101, 97, 98, 97, 108, 105, 97, 97, 97, 99, 97, 97, 105, 117, 97, 97, 97, 102, 97, 97, 97,
  97, 97, 97, 97, 113, 97, 98, 97, 97, 97, 97, 117, 97, 97, 97, 97, 105, 102, 97, 97, 97, 97, 100, 46, 116, 46, 105, 111]
/-- raw login of user 0: header 10 d1 9e, 0x10|0, MD5 response for seed 12345 + 1 -/
def rawLogin0 : List Nat := [16, 209, 158, 16, 0, 176, 110, 134, 200, 226, 163, 127, 144, 223, 106, 235, 146, 199, 123, 88]
/-- raw DATA of user 0: 0x5a ++ IP packet to 8.8.8.8 -/
def rawData0 : List Nat := [16, 209, 158, 32, 0x5a, 0, 0, 8, 0, 69, 0, 0, 20, 0, 0, 0, 0, 64, 1, 0, 0, 10, 0, 0, 2, 8, 8, 8, 8]
/-- a login naming userid 200 (a negative `char`): `l` ++ b32(200 ++ 17 zero bytes ++ cmc) -/
def nameLbad : List Nat := [108, 122, 97, 97, 97, 97, 97, 97, 97, 97, 97, 97, 97, 97, 97, 97, 97, 97, 97, 97, 97, 97,
  97, 97, 97, 97, 97, 97, 97, 97, 97, 97, 97, 46, 116, 46, 105, 111]

/-- `o` ++ userid digit `b` (1) ++ `l` (lazy mode) -/
def nameO1 : List Nat := [111, 98, 108, 97, 46, 116, 46, 105, 111]
/-- `p` ++ b32(userid 1, ack byte 0, cmc) : ping of user 1 -/
def nameP1 : List Nat := [112, 97, 101, 97, 97, 97, 98, 121, 46, 116, 46, 105, 111]

def stV (src : Addr) (id now : Nat) : Step := ⟨.q (mkQ src id nameV), now⟩

def s0 : Srv := start cfg [12345, 777]
def s1 : Srv := next s0 (stV srcA 1 1000)                       -- slot 0 allocated, seed 12345
def s2 : Srv := next s1 ⟨.q (mkQ srcA 2 nameL0), 1001⟩          -- slot 0 authenticated
def s3 : Srv := next s2 (stV srcB 3 1002)                       -- slot 1 allocated, seed 777
def s4 : Srv := next s3 ⟨.q (mkQ srcB 4 nameL1), 1003⟩          -- slot 1 authenticated
def s5 : Srv := next s4 ⟨.rawf srcA rawLogin0, 1004⟩            -- slot 0 in raw mode
def s7 : Srv := next (next s4 ⟨.q (mkQ srcB 5 nameO1), 1004⟩) ⟨.q (mkQ srcB 6 nameP1), 1004⟩
                                                                -- slot 1 lazy, its ping is waiting for data
def s6 : Srv := next s2 (stV srcB 5 1100)                       -- slot 0 expired and re-allocated with seed 777

end Ex

/-! ### (A) step theorems: every state, every input, every clock value -/

/-- A slot becomes `authenticated` only through a login request that names it, comes (with source checking on)
from the bound address while the slot is live, and carries the MD5 response for the slot's CURRENT seed. -/
theorem authenticated_set_only_by_good_login (s : Srv) (st : Step) (u : Nat)
    (hpost : (getUser (next s st) u).authenticated = true) (hpre : (getUser s u).authenticated = false) :
    ∃ q, st.inp = .q q ∧ goodLogin s.cfg (getUser s u).seed q ∧ namedSlot s.cfg st.inp = some (u : Int) ∧
      Live s st.now u ∧ SrcOk s u q.from_ := by
  have same : prot (getUser (next s st) u) = prot (getUser s u) → False := by
    intro h; rw [(prot_fields h).2.1, hpre] at hpost; cases hpost
  cases stepOutcome s st with
  | quiet hp hb he hh => exact (same (hp u)).elim
  | tunIn f hi hp he => exact (same (hp u)).elim
  | alloc q u' sd hi cmd lt free hp hb auth authRaw seed active conn vack he hh =>
    by_cases hu : u = u'
    · subst hu; rw [auth] at hpost; cases hpost
    · exact (same (hp u hu)).elim
  | login q dlen u' hi hd h2 cmd len uid hash ok hp hself hb he hh =>
    by_cases hu : u = u'
    · subst hu
      obtain ⟨hl, hs⟩ := live_of_userOkAt ok
      refine ⟨q, hi, ?_, ?_, hl, hs⟩
      · unfold goodLogin
        rw [payload_of hd h2]
        simp only [cmdIs, b32Field]
        rw [getD_take_zero _ _ (by omega)]
        exact ⟨by omega, len, hash⟩
      · rw [namedSlot_eq_reqSlot, hi, reqSlot_LNP s q dlen hd h2 (by omega), uid]
    · exact (same (hp u hu)).elim
  | authedQ q i hi hreq ok hauth hcore hoth =>
    rw [(core_fields (hcore u)).2.1, hpre] at hpost; cases hpost
  | rawLogin src bytes u' hi uid hash lt active enabled auth fresh hp hself hb he hh =>
    by_cases hu : u = u'
    · subst hu; rw [auth] at hpre; cases hpre
    · exact (same (hp u hu)).elim
  | authedRaw src bytes u' hi hreq ok hauth hraw hp => exact (same (hp u)).elim

/-- non-vacuity: the login of client A for slot 0 (seed 12345) sets `authenticated` -/
example : (getUser Ex.s1 0).authenticated = false ∧
    (getUser (next Ex.s1 ⟨.q (Ex.mkQ Ex.srcA 2 Ex.nameL0), 1001⟩) 0).authenticated = true ∧
    goodLogin Ex.s1.cfg (getUser Ex.s1 0).seed (Ex.mkQ Ex.srcA 2 Ex.nameL0) := by decide +kernel

/-- A slot's challenge (`seed`) changes only when a version handshake allocates the slot, and the slot is then
neither `authenticated` nor `authenticated_raw`. -/
theorem seed_changes_only_at_allocation (s : Srv) (st : Step) (u : Nat)
    (h : (getUser (next s st) u).seed ≠ (getUser s u).seed) :
    Allocated s st u ∧ (getUser (next s st) u).authenticated = false ∧
      (getUser (next s st) u).authenticatedRaw = false := by
  have same : prot (getUser (next s st) u) = prot (getUser s u) → False :=
    fun hh => h (prot_fields hh).2.2.2.1
  cases stepOutcome s st with
  | quiet hp hb he hh => exact (same (hp u)).elim
  | tunIn f hi hp he => exact (same (hp u)).elim
  | alloc q u' sd hi cmd lt free hp hb auth authRaw seed active conn vack he hh =>
    by_cases hu : u = u'
    · subst hu; exact ⟨allocated_of_alloc hi cmd free seed vack, auth, authRaw⟩
    · exact (same (hp u hu)).elim
  | login q dlen u' hi hd h2 cmd len uid hash ok hp hself hb he hh =>
    by_cases hu : u = u'
    · subst hu
      exact (h (congrArg Prot.seed hself)).elim
    · exact (same (hp u hu)).elim
  | authedQ q i hi hreq ok hauth hcore hoth => exact (h (core_fields (hcore u)).2.2.2.1).elim
  | rawLogin src bytes u' hi uid hash lt active enabled auth fresh hp hself hb he hh =>
    by_cases hu : u = u'
    · subst hu
      exact (h (congrArg Prot.seed hself)).elim
    · exact (same (hp u hu)).elim
  | authedRaw src bytes u' hi hreq ok hauth hraw hp => exact (same (hp u)).elim

/-- non-vacuity: the version handshake of client A changes the seed of slot 0 -/
example : (getUser (next Ex.s0 (Ex.stV Ex.srcA 1 1000)) 0).seed ≠ (getUser Ex.s0 0).seed := by decide +kernel

/-- P1: a tun write happens only on behalf of an authenticated session (named by the datagram, live, from the
bound source) -/
theorem tun_write_needs_authenticated (s : Srv) (st : Step) (h : TunWrite s st) :
    ∃ u src, srcOf st.inp = some src ∧ OnBehalf s st u ∧ SrcOk s u src := by
  obtain ⟨u, src, h1, h2, h3, _⟩ := effect_cases s st (Or.inl h)
  exact ⟨u, src, h1, h2, h3⟩

/-- non-vacuity: upstream data of the authenticated slot 0 reaches the tun device -/
example : TunWrite Ex.s4 ⟨.q (Ex.mkQ Ex.srcA 5 Ex.nameD8), 1004⟩ :=
  ⟨[0, 0, 8, 0, 69, 0, 0, 20, 0, 0, 0, 0, 64, 1, 0, 0, 10, 0, 0, 2, 8, 8, 8, 8], by decide +kernel⟩

/-- P2: a datagram from the network puts a packet into a session's downstream only on behalf of an authenticated
session -/
theorem forward_needs_authenticated (s : Srv) (st : Step) (h : Forwarded s st) :
    ∃ u src, srcOf st.inp = some src ∧ OnBehalf s st u ∧ SrcOk s u src := by
  obtain ⟨u, src, h1, h2, h3, _⟩ := effect_cases s st (Or.inr (Or.inl h))
  exact ⟨u, src, h1, h2, h3⟩

/-- non-vacuity: a packet of slot 0 for 10.0.0.3 lands in the downstream of slot 1 -/
example : Forwarded Ex.s4 ⟨.q (Ex.mkQ Ex.srcA 5 Ex.nameD3), 1004⟩ := ⟨trivial, Or.inl ⟨1, by decide +kernel⟩⟩

/-- P3: the server's address is disclosed only to an authenticated session -/
theorem address_disclosure_needs_authenticated (s : Srv) (st : Step) (h : DisclosesAddr s st) :
    ∃ u src, srcOf st.inp = some src ∧ OnBehalf s st u ∧ SrcOk s u src := by
  obtain ⟨u, src, h1, h2, h3, _⟩ := effect_cases s st (Or.inr (Or.inr (Or.inl h)))
  exact ⟨u, src, h1, h2, h3⟩

/-- P2 (continued): tunnel data is sent in the answer to a datagram only on behalf of an authenticated session -/
theorem tunnel_data_needs_authenticated (s : Srv) (st : Step) (h : SendsTunnelData s st) :
    ∃ u src, srcOf st.inp = some src ∧ OnBehalf s st u ∧ SrcOk s u src := by
  obtain ⟨u, src, h1, h2, h3, _⟩ := effect_cases s st (Or.inr (Or.inr (Or.inr h)))
  exact ⟨u, src, h1, h2, h3⟩

/-- non-vacuity: slot 1 is in lazy mode with a ping waiting; a packet of slot 0 for 10.0.0.3 goes out at once in the
answer to that ping (tag `chunk 1`), and the backlog of slot 1 does not grow -/
example : SendsTunnelData Ex.s7 ⟨.q (Ex.mkQ Ex.srcA 7 Ex.nameD3), 1004⟩ ∧
    backlog (getUser (next Ex.s7 ⟨.q (Ex.mkQ Ex.srcA 7 Ex.nameD3), 1004⟩) 1) = backlog (getUser Ex.s7 1) :=
  ⟨⟨trivial, Event.ans Ex.srcB 6 10 84 Ex.nameP1
      [128, 33, 90, 0, 0, 8, 0, 69, 0, 0, 20, 0, 0, 0, 0, 64, 1, 0, 0, 10, 0, 0, 2, 10, 0, 0, 3] (.chunk 1),
    by decide +kernel, rfl⟩, by decide +kernel⟩

/-- non-vacuity: the `I` request of slot 0 is answered with 'I' ++ 192.168.0.1 -/
example : DisclosesAddr Ex.s4 ⟨.q (Ex.mkQ Ex.srcA 5 Ex.nameI), 1004⟩ :=
  ⟨Ex.srcA, 5, 10, 84, Ex.nameI, [73, 192, 168, 0, 1], by decide +kernel, by decide, by decide⟩

/-- P4: codec, options and fragment size of slot `w` change only when a version handshake allocates `w` or on
behalf of `w` itself, authenticated -/
theorem codec_change_needs_authenticated (s : Srv) (st : Step) (w : Nat) (h : CodecChange s st w) :
    Allocated s st w ∨ (OnBehalf s st w ∧ ∃ q, st.inp = .q q ∧ SrcOk s w q.from_) := by
  have same : ∀ P : Prot, prot (getUser (next s st) w) = P → P.encoder = (getUser s w).encoder →
      P.downenc = (getUser s w).downenc → P.lazy = (getUser s w).lazy → P.fragsize = (getUser s w).fragsize →
      False := by
    intro P hP h1 h2 h3 h4
    have e1 := congrArg Prot.encoder hP
    have e2 := congrArg Prot.downenc hP
    have e3 := congrArg Prot.lazy hP
    have e4 := congrArg Prot.fragsize hP
    rcases h with h | h | h | h
    · exact h (e1.trans h1)
    · exact h (e2.trans h2)
    · exact h (e3.trans h3)
    · exact h (e4.trans h4)
  have same' : prot (getUser (next s st) w) = prot (getUser s w) → False :=
    fun hh => same _ hh rfl rfl rfl rfl
  cases stepOutcome s st with
  | quiet hp hb he hh => exact (same' (hp w)).elim
  | tunIn f hi hp he => exact (same' (hp w)).elim
  | alloc q u' sd hi cmd lt free hp hb auth authRaw seed active conn vack he hh =>
    by_cases hu : w = u'
    · subst hu; exact Or.inl (allocated_of_alloc hi cmd free seed vack)
    · exact (same' (hp w hu)).elim
  | login q dlen u' hi hd h2 cmd len uid hash ok hp hself hb he hh =>
    by_cases hu : w = u'
    · subst hu; exact (same _ hself rfl rfl rfl rfl).elim
    · exact (same' (hp w hu)).elim
  | authedQ q i hi hreq ok hauth hcore hoth =>
    by_cases hu : w = i.toNat
    · subst hu
      obtain ⟨h1, h2, h3⟩ := onBehalf_of_userOkAt hreq ok hauth
      exact Or.inr ⟨h1, q, hi, h2⟩
    · exact (same' (hoth w hu)).elim
  | rawLogin src bytes u' hi uid hash lt active enabled auth fresh hp hself hb he hh =>
    by_cases hu : w = u'
    · subst hu; exact (same _ hself rfl rfl rfl rfl).elim
    · exact (same' (hp w hu)).elim
  | authedRaw src bytes u' hi hreq ok hauth hraw hp => exact (same' (hp w)).elim

/-- non-vacuity: the `O` request of slot 0 switches on lazy mode; the same request from another address does not -/
example : CodecChange Ex.s4 ⟨.q (Ex.mkQ Ex.srcA 5 Ex.nameO), 1004⟩ 0 ∧
    ¬ CodecChange Ex.s4 ⟨.q (Ex.mkQ Ex.srcB 5 Ex.nameO), 1004⟩ 0 := by
  unfold CodecChange; decide +kernel

/-- P5: slot `w` is switched to raw mode / becomes `authenticated_raw` only by a raw login frame that names `w`,
while `w` is live and ALREADY authenticated, and whose 16 bytes are the MD5 response for `seed + 1`. -/
theorem raw_switch_needs_authenticated (s : Srv) (st : Step) (w : Nat) (h : RawSwitch s st w) :
    OnBehalf s st w ∧ ∃ src bytes, st.inp = .rawf src bytes ∧ goodRawLogin s.cfg (getUser s w).seed bytes := by
  have same : ∀ P : Prot, prot (getUser (next s st) w) = P → P.conn = (getUser s w).conn →
      P.authenticatedRaw = (getUser s w).authenticatedRaw → False := by
    intro P hP h1 h2
    have e1 := congrArg Prot.conn hP
    have e2 := congrArg Prot.authenticatedRaw hP
    rcases h with h | h
    · exact h.2 (by rw [← h1, ← e1]; exact h.1)
    · have := (e2.trans h2).symm.trans h.1
      rw [h.2] at this; cases this
  have same' : prot (getUser (next s st) w) = prot (getUser s w) → False := fun hh => same _ hh rfl rfl
  cases stepOutcome s st with
  | quiet hp hb he hh => exact (same' (hp w)).elim
  | tunIn f hi hp he => exact (same' (hp w)).elim
  | alloc q u' sd hi cmd lt free hp hb auth authRaw seed active conn vack he hh =>
    by_cases hu : w = u'
    · subst hu
      rcases h with h | h
      · rw [conn] at h; cases h.1
      · rw [authRaw] at h; cases h.1
    · exact (same' (hp w hu)).elim
  | login q dlen u' hi hd h2 cmd len uid hash ok hp hself hb he hh =>
    by_cases hu : w = u'
    · subst hu; exact (same _ hself rfl rfl).elim
    · exact (same' (hp w hu)).elim
  | authedQ q i hi hreq ok hauth hcore hoth =>
    have hc := core_fields (hcore w)
    rcases h with h | h
    · exact (h.2 (by rw [← hc.2.2.2.2]; exact h.1)).elim
    · rw [hc.2.2.1, h.2] at h; cases h.1
  | rawLogin src bytes u' hi uid hash lt active enabled auth fresh hp hself hb he hh =>
    by_cases hu : w = u'
    · subst hu
      refine ⟨⟨?_, ⟨lt, active, enabled, by omega⟩, auth⟩, src, bytes, hi, hash⟩
      rw [hi, uid]; rfl
    · exact (same' (hp w hu)).elim
  | authedRaw src bytes u' hi hreq ok hauth hraw hp => exact (same' (hp w)).elim

/-- non-vacuity: the raw login of slot 0 switches it to raw mode -/
example : RawSwitch Ex.s4 ⟨.rawf Ex.srcA Ex.rawLogin0, 1004⟩ 0 := by unfold RawSwitch; decide +kernel

/-- Raw DATA frames reach the tun device / another session only for a session that is authenticated AND
`authenticated_raw` (i.e. has also answered the raw challenge, `raw_switch_needs_authenticated`). -/
theorem raw_needs_both (s : Srv) (st : Step) (src : Addr) (bytes : List Nat) (hi : st.inp = .rawf src bytes)
    (h : TunWrite s st ∨ Forwarded s st) :
    ∃ u, OnBehalf s st u ∧ SrcOk s u src ∧ (getUser s u).authenticatedRaw = true := by
  obtain ⟨u, src', h1, h2, h3, h4⟩ := effect_cases s st (by
    rcases h with h | h
    · exact Or.inl h
    · exact Or.inr (Or.inl h))
  rw [hi] at h1
  cases h1
  exact ⟨u, h2, h3, h4 src bytes hi⟩

/-- non-vacuity: raw DATA of slot 0 reaches the tun device after the raw login (`s5`), not before (`s4`) -/
example : TunWrite Ex.s5 ⟨.rawf Ex.srcA Ex.rawData0, 1005⟩ ∧ ¬ TunWrite Ex.s4 ⟨.rawf Ex.srcA Ex.rawData0, 1005⟩ := by
  refine ⟨⟨[0, 0, 8, 0, 69, 0, 0, 20, 0, 0, 0, 0, 64, 1, 0, 0, 10, 0, 0, 2, 8, 8, 8, 8], by decide +kernel⟩, ?_⟩
  rintro ⟨f, hf⟩
  have : (out Ex.s4 ⟨.rawf Ex.srcA Ex.rawData0, 1005⟩) = [Event.sweep] := by decide +kernel
  rw [this] at hf
  simp at hf

/-- All of P1–P5, attributed to slot `u`, need `u` authenticated in the state before the iteration (and named by
the datagram, and live). -/
theorem privileged_needs_authenticated (s : Srv) (st : Step) (u : Nat) (h : Privileged s st u) :
    OnBehalf s st u := by
  rcases h with ⟨hn, h⟩ | ⟨h, hna⟩ | h
  · obtain ⟨u', src, _, h2, _, _⟩ := effect_cases s st h
    have := h2.named
    rw [hn] at this
    have : u = u' := by
      simp only [Option.some.injEq] at this
      omega
    subst this; exact h2
  · rcases codec_change_needs_authenticated s st u h with h | h
    · exact absurd h hna
    · exact h.1
  · exact (raw_switch_needs_authenticated s st u h).1

theorem privileged_pre_authenticated (s : Srv) (st : Step) (u : Nat) (h : Privileged s st u) :
    (getUser s u).authenticated = true := (privileged_needs_authenticated s st u h).authenticated

/-- non-vacuity -/
example : Privileged Ex.s4 ⟨.q (Ex.mkQ Ex.srcA 5 Ex.nameD8), 1004⟩ 0 :=
  Or.inl ⟨by decide +kernel, Or.inl ⟨[0, 0, 8, 0, 69, 0, 0, 20, 0, 0, 0, 0, 64, 1, 0, 0, 10, 0, 0, 2, 8, 8, 8, 8], by decide +kernel⟩⟩

/-- A datagram naming a user id that is negative (a `char` ≥ 128), not below the number of created users, or
16..31 (from a Base32 digit) has none of the privileged effects and authenticates nobody. -/
theorem bad_userid_no_effect (s : Srv) (st : Step) (i : Int) (hn : namedSlot s.cfg st.inp = some i)
    (hbad : i < 0 ∨ (s.cfg.createdUsers : Int) ≤ i) :
    ¬ TunWrite s st ∧ ¬ Forwarded s st ∧ ¬ DisclosesAddr s st ∧ ¬ SendsTunnelData s st ∧
    ∀ w, ¬ CodecChange s st w ∧ ¬ RawSwitch s st w ∧
      ((getUser (next s st) w).authenticated = true → (getUser s w).authenticated = true) := by
  have nob : ∀ u, ¬ OnBehalf s st u := by
    intro u hu
    have := hu.named
    rw [hn] at this
    have h2 := hu.live.lt
    cases this
    omega
  have noe : ¬ (TunWrite s st ∨ Forwarded s st ∨ DisclosesAddr s st ∨ SendsTunnelData s st) := by
    intro h
    obtain ⟨u, _, _, h2, _, _⟩ := effect_cases s st h
    exact nob u h2
  refine ⟨fun h => noe (Or.inl h), fun h => noe (Or.inr (Or.inl h)), fun h => noe (Or.inr (Or.inr (Or.inl h))),
    fun h => noe (Or.inr (Or.inr (Or.inr h))), ?_⟩
  intro w
  refine ⟨?_, ?_, ?_⟩
  · intro h
    rcases codec_change_needs_authenticated s st w h with h | h
    · obtain ⟨q, hq, hv, _⟩ := h.isV
      rw [hq, namedSlot_none_of_versionReq hv] at hn
      cases hn
    · exact nob w h.1
  · intro h
    exact nob w (raw_switch_needs_authenticated s st w h).1
  · intro hpost
    cases hpre : (getUser s w).authenticated with
    | true => rfl
    | false =>
      obtain ⟨q, _, _, h3, h4, _⟩ := authenticated_set_only_by_good_login s st w hpost hpre
      rw [hn] at h3
      have := h4.lt
      cases h3
      omega

/-- non-vacuity: a login whose user id byte is 200 names slot -56 -/
example : namedSlot Ex.s1.cfg (.q (Ex.mkQ Ex.srcA 2 Ex.nameLbad)) = some (-56) := by decide +kernel

/-! ### (B) the history-level theorem -/

theorem loginCalcC_mod (p : List Nat) (sd : Nat) : Login.loginCalcC p (sd % 2 ^ 32) = Login.loginCalcC p sd := by
  unfold Login.loginCalcC
  simp only [Nat.mod_mod]

theorem goodLogin_mod (cfg : Config) (sd : Nat) (q : Query) : goodLogin cfg (sd % 2 ^ 32) q ↔ goodLogin cfg sd q := by
  unfold goodLogin
  rw [loginCalcC_mod]

theorem beVal_beBytes4 (v : Nat) : beVal (beBytes 4 v) = v % 2 ^ 32 := by
  simp only [beBytes, beVal, List.length_cons, List.length_nil]
  omega

theorem findSome?_eq_none_of {α β : Type} (f : α → Option β) (l : List α) (h : ∀ e ∈ l, f e = none) :
    l.findSome? f = none := by
  induction l with
  | nil => rfl
  | cons a l ih =>
    simp only [List.findSome?_cons]
    rw [h a (List.mem_cons_self)]
    exact ih (fun e he => h e (List.mem_cons_of_mem _ he))

theorem findSome?_eq_some_of {α β : Type} (f : α → Option β) (l : List α) (b : β)
    (h : ∀ e ∈ l, f e = none ∨ f e = some b) (hex : ∃ e ∈ l, f e = some b) : l.findSome? f = some b := by
  induction l with
  | nil => obtain ⟨e, he, _⟩ := hex; cases he
  | cons a l ih =>
    simp only [List.findSome?_cons]
    rcases h a (List.mem_cons_self) with ha | ha
    · rw [ha]
      apply ih (fun e he => h e (List.mem_cons_of_mem _ he))
      obtain ⟨e, he, hfe⟩ := hex
      rcases List.mem_cons.mp he with rfl | he
      · rw [ha] at hfe; cases hfe
      · exact ⟨e, he, hfe⟩
    · rw [ha]

theorem vackInfo_of_harmless {e : Event} (h : Harmless e) : vackInfo e = none := by
  cases e with
  | ans dst id ty dn name data tag =>
    cases tag with
    | ctrl =>
      simp only [vackInfo]
      rw [if_neg]
      intro hh
      exact (h rfl).2 ⟨by omega, hh.2.1⟩
    | chunk u => rfl
    | dupe u => rfl
    | cached u => rfl
    | qmem u => rfl
  | _ => rfl

theorem vackInfo_vack (q : Query) (dn u sd : Nat) (hV : q.name.getD 0 0 = 118 ∨ q.name.getD 0 0 = 86) :
    vackInfo (Event.ans q.from_ q.id q.type dn q.name (ascii "VACK" ++ beBytes 4 sd ++ [u % 256]) .ctrl)
      = some (u % 256, sd % 2 ^ 32) := by
  simp only [vackInfo]
  have h1 : (ascii "VACK" ++ beBytes 4 sd ++ [u % 256]).take 4 = ascii "VACK" := by simp [ascii, beBytes]
  have h2 : (ascii "VACK" ++ beBytes 4 sd ++ [u % 256]).length = 9 := by simp [ascii, beBytes]
  have h3 : (ascii "VACK" ++ beBytes 4 sd ++ [u % 256]).getD 8 0 = u % 256 := by simp [ascii, beBytes]
  have h4 : ((ascii "VACK" ++ beBytes 4 sd ++ [u % 256]).drop 4).take 4 = beBytes 4 sd := by simp [ascii, beBytes]
  rw [if_pos ⟨hV, h1, h2⟩, h3, h4, beVal_beBytes4]

theorem versionReq_char {cfg : Config} {q : Query} (h : versionReq cfg q) :
    q.name.getD 0 0 = 118 ∨ q.name.getD 0 0 = 86 := by
  unfold versionReq at h
  split at h
  · exact absurd h id
  · next inb hp =>
    obtain ⟨_, _, _, _, h0⟩ := payload_eq hp
    rw [← h0]; exact h

/-- the invariant tying the server state to the monitor state: an authenticated slot has answered its current
challenge, and the monitor knows the current challenge of every slot in use -/
structure Inv (s : Srv) (m : Mon) : Prop where
  authed : ∀ u, (getUser s u).authenticated = true → m.authed u = true
  seed : ∀ u, (getUser s u).active = true → m.seed u = some ((getUser s u).seed % 2 ^ 32)
  len : s.users.length ≤ 256

/-- an update that saw no VACK only adds slots to `authed` -/
theorem update_noVack (cfg : Config) (m : Mon) (t : TraceStep)
    (h : ∀ q, t.step.inp = .q q → versionReq cfg q → t.events.findSome? vackInfo = none) :
    (∀ v, m.authed v = true → (m.update cfg t).authed v = true) ∧ (m.update cfg t).seed = m.seed := by
  unfold Mon.update
  split
  · next q hq =>
    split
    · next hv =>
      rw [h q hq hv]
      exact ⟨fun v hv => hv, rfl⟩
    · split
      · split
        · refine ⟨fun v hv => ?_, rfl⟩
          simp only []
          split
          · rfl
          · exact hv
        · exact ⟨fun v hv => hv, rfl⟩
      · exact ⟨fun v hv => hv, rfl⟩
  · exact ⟨fun v hv => hv, rfl⟩

/-- the state did not change in the fields the invariant reads, the monitor saw no VACK -/
theorem Inv.keep {s s' : Srv} {m : Mon} (cfg : Config) (t : TraceStep) (h : Inv s m)
    (hs : ∀ u, (getUser s' u).authenticated = (getUser s u).authenticated ∧
      (getUser s' u).active = (getUser s u).active ∧ (getUser s' u).seed = (getUser s u).seed)
    (hl : s'.users.length = s.users.length)
    (hv : ∀ q, t.step.inp = .q q → versionReq cfg q → t.events.findSome? vackInfo = none) :
    Inv s' (m.update cfg t) := by
  obtain ⟨h1, h2⟩ := update_noVack cfg m t hv
  refine ⟨?_, ?_, by rw [hl]; exact h.len⟩
  · intro u hu
    rw [(hs u).1] at hu
    exact h1 u (h.authed u hu)
  · intro u hu
    rw [(hs u).2.1] at hu
    rw [h2, (hs u).2.2]
    exact h.seed u hu

theorem not_versionReq_of_named {cfg : Config} {q : Query} {i : Int} (h : namedSlot cfg (.q q) = some i) :
    ¬ versionReq cfg q := by
  intro hv
  rw [namedSlot_none_of_versionReq hv] at h
  cases h

theorem inv_step (s : Srv) (st : Step) (m : Mon) (h : Inv s m) :
    Inv (next s st) (m.update s.cfg ⟨st, s, out s st, next s st⟩) := by
  have hl := (next_base s st).2.2
  have keep_prot : (∀ u, prot (getUser (next s st) u) = prot (getUser s u)) →
      ∀ u, (getUser (next s st) u).authenticated = (getUser s u).authenticated ∧
      (getUser (next s st) u).active = (getUser s u).active ∧ (getUser (next s st) u).seed = (getUser s u).seed := by
    intro hp u
    have := prot_fields (hp u)
    exact ⟨this.2.1, this.1, this.2.2.2.1⟩
  have none_of_harmless : (∀ e ∈ out s st, Harmless e ∨ ∃ d b, e = .raw d b) →
      (out s st).findSome? vackInfo = none := by
    intro he
    apply findSome?_eq_none_of
    intro e hh
    rcases he e hh with h | ⟨d, b, rfl⟩
    · exact vackInfo_of_harmless h
    · rfl
  cases stepOutcome s st with
  | quiet hp hb he hh =>
    exact h.keep _ _ (keep_prot hp) hl (fun _ _ _ => none_of_harmless (fun e hh => Or.inl (he e hh)))
  | tunIn f hi hp he =>
    exact h.keep _ _ (keep_prot hp) hl (fun _ _ _ => none_of_harmless he)
  | alloc q u sd hi cmd lt free hp hb auth authRaw seed active conn vack he hh =>
    have hvr := versionReq_of_cmdChar cmd
    have hch := versionReq_char hvr
    have hu : u % 256 = u := Nat.mod_eq_of_lt (Nat.lt_of_lt_of_le lt h.len)
    have hfs : (out s st).findSome? vackInfo = some (u, sd % 2 ^ 32) := by
      apply findSome?_eq_some_of
      · intro e hh
        rcases he e hh with h | ⟨dn, rfl⟩
        · exact Or.inl (vackInfo_of_harmless h)
        · right; rw [vackInfo_vack q dn u sd hch, hu]
      · obtain ⟨dn, hdn⟩ := vack
        exact ⟨_, hdn, by rw [vackInfo_vack q dn u sd hch, hu]⟩
    have hupd : m.update s.cfg ⟨st, s, out s st, next s st⟩ =
        { authed := fun v => if v = u then false else m.authed v,
          seed := fun v => if v = u then some (sd % 2 ^ 32) else m.seed v } := by
      simp only [Mon.update, hi, if_pos hvr, hfs]
    rw [hupd]
    refine ⟨?_, ?_, by rw [hl]; exact h.len⟩
    · intro v hv
      by_cases hvu : v = u
      · subst hvu; rw [auth] at hv; cases hv
      · simp only [if_neg hvu]
        rw [(prot_fields (hp v hvu)).2.1] at hv
        exact h.authed v hv
    · intro v hv
      by_cases hvu : v = u
      · subst hvu; simp only [if_pos]; rw [seed]
      · simp only [if_neg hvu]
        rw [(prot_fields (hp v hvu)).1] at hv
        rw [(prot_fields (hp v hvu)).2.2.2.1]
        exact h.seed v hv
  | login q dlen u hi hd h2 cmd len uid hash ok hp hself hb he hh =>
    have hnamed : namedSlot s.cfg (.q q) = some (u : Int) := by
      rw [namedSlot_eq_reqSlot, reqSlot_LNP s q dlen hd h2 (by omega), uid]
    have hnv := not_versionReq_of_named hnamed
    obtain ⟨hlive, _⟩ := live_of_userOkAt ok
    have hseed := h.seed u hlive.active
    have hgood : goodLogin s.cfg ((getUser s u).seed % 2 ^ 32) q := by
      rw [goodLogin_mod]
      unfold goodLogin
      rw [payload_of hd h2]
      simp only [cmdIs, b32Field]
      rw [getD_take_zero _ _ (by omega)]
      exact ⟨by omega, len, hash⟩
    have hupd : m.update s.cfg ⟨st, s, out s st, next s st⟩ =
        { m with authed := fun v => if v = u then true else m.authed v } := by
      have hok : m.loginOk s.cfg q (u : Int) = true := by
        simp only [Mon.loginOk, Int.toNat_natCast, hseed]
        simp [hgood]
      simp only [Mon.update, hi, if_neg hnv, hnamed, hok, if_true, Int.toNat_natCast]
    rw [hupd]
    refine ⟨?_, ?_, by rw [hl]; exact h.len⟩
    · intro v hv
      by_cases hvu : v = u
      · simp only [if_pos hvu]
      · simp only [if_neg hvu]
        rw [(prot_fields (hp v hvu)).2.1] at hv
        exact h.authed v hv
    · intro v hv
      by_cases hvu : v = u
      · subst hvu
        have e1 : (getUser (next s st) v).active = (getUser s v).active := congrArg Prot.active hself
        have e2 : (getUser (next s st) v).seed = (getUser s v).seed := congrArg Prot.seed hself
        rw [e1] at hv; rw [e2]; exact h.seed v hv
      · rw [(prot_fields (hp v hvu)).1] at hv
        rw [(prot_fields (hp v hvu)).2.2.2.1]
        exact h.seed v hv
  | authedQ q i hi hreq ok hauth hcore hoth =>
    have hnamed : namedSlot s.cfg (.q q) = some i := by rw [namedSlot_eq_reqSlot, ← hi, hreq]
    have hnv := not_versionReq_of_named hnamed
    refine h.keep _ _ ?_ hl ?_
    · intro u
      have := core_fields (hcore u)
      exact ⟨this.2.1, this.1, this.2.2.2.1⟩
    · intro q' hq' hv
      simp only [hi] at hq'
      cases hq'
      exact absurd hv hnv
  | rawLogin src bytes u hi uid hash lt active enabled auth fresh hp hself hb he hh =>
    refine h.keep _ _ ?_ hl ?_
    · intro v
      by_cases hvu : v = u
      · subst hvu
        exact ⟨congrArg Prot.authenticated hself, congrArg Prot.active hself, congrArg Prot.seed hself⟩
      · have := prot_fields (hp v hvu)
        exact ⟨this.2.1, this.1, this.2.2.2.1⟩
    · intro q' hq'
      simp only [hi] at hq'
      cases hq'
  | authedRaw src bytes u hi hreq ok hauth hraw hp =>
    refine h.keep _ _ (keep_prot hp) hl ?_
    intro q' hq'
    simp only [hi] at hq'
    cases hq'

theorem namedAuthed_of_onBehalf {s : Srv} {st : Step} {m : Mon} {u : Nat} (h : Inv s m) (hb : OnBehalf s st u) :
    m.namedAuthed s.cfg st.inp = true ∧ m.namedAuthed s.cfg st.inp (some u) = true := by
  have ha := h.authed u hb.authenticated
  unfold Mon.namedAuthed
  rw [hb.named]
  simp [ha]

theorem effect_of_observed (s : Srv) (st : Step) (h : observedEffect ⟨st, s, out s st, next s st⟩ = true) :
    TunWrite s st ∨ Forwarded s st ∨ DisclosesAddr s st ∨ SendsTunnelData s st := by
  unfold observedEffect at h
  simp only [Bool.or_eq_true, Bool.and_eq_true, List.any_eq_true, decide_eq_true_eq] at h
  rcases h with (⟨e, he, ht⟩ | ⟨e, he, ht⟩) | ⟨hn, h⟩
  · left
    cases e <;> simp [isTunw] at ht
    exact ⟨_, he⟩
  · right; right; left
    cases e with
    | ans dst id ty dn name data tag =>
      cases tag <;> simp [isIpAnswer] at ht
      exact ⟨dst, id, ty, dn, name, data, he, ht⟩
    | _ => simp [isIpAnswer] at ht
  · have hnet : fromNetwork st.inp := by
      cases hi : st.inp <;> simp [fromNetworkB, hi] at hn <;> simp [fromNetwork]
    rcases h with (⟨e, he, ht⟩ | ⟨e, he, ht⟩) | ⟨v, _, hv⟩
    · right; left
      refine ⟨hnet, Or.inr ?_⟩
      cases e with
      | raw d b =>
        simp only [isRawDataEv, decide_eq_true_eq] at ht
        exact ⟨d, b, he, ht⟩
      | _ => simp [isRawDataEv] at ht
    · right; right; right
      exact ⟨hnet, e, he, ht⟩
    · right; left
      exact ⟨hnet, Or.inl ⟨v, hv⟩⟩

theorem stepOk_of_inv (s : Srv) (st : Step) (m : Mon) (h : Inv s m) :
    stepOk s.cfg m ⟨st, s, out s st, next s st⟩ = true := by
  unfold stepOk
  simp only [Bool.and_eq_true, Bool.or_eq_true, Bool.not_eq_true', List.all_eq_true, List.mem_range]
  refine ⟨?_, ?_⟩
  · cases ho : observedEffect ⟨st, s, out s st, next s st⟩ with
    | false => exact Or.inl rfl
    | true =>
      right
      obtain ⟨u, _, _, hb, _, _⟩ := effect_cases s st (effect_of_observed s st ho)
      exact (namedAuthed_of_onBehalf h hb).1
  · intro w hw
    refine ⟨?_, ?_⟩
    · cases hc : codecChanged ⟨st, s, out s st, next s st⟩ w with
      | false => exact Or.inl (Or.inl rfl)
      | true =>
        have hcc : CodecChange s st w := by
          unfold codecChanged at hc
          unfold CodecChange
          exact of_decide_eq_true hc
        rcases codec_change_needs_authenticated s st w hcc with ha | ⟨hb, _⟩
        · right
          obtain ⟨q, hq, hv, e, he, dn, hdn⟩ := ha.isV
          have hwm : w % 256 = w := Nat.mod_eq_of_lt (Nat.lt_of_lt_of_le hw h.len)
          unfold vackSeenFor
          simp only [hq, Bool.and_eq_true, decide_eq_true_eq, List.any_eq_true]
          refine ⟨hv, e, he, ?_⟩
          rw [hdn, vackInfo_vack q dn w _ (versionReq_char hv), hwm]
          simp
        · exact Or.inl (Or.inr (namedAuthed_of_onBehalf h hb).2)
    · cases hc : rawSwitched ⟨st, s, out s st, next s st⟩ w with
      | false => exact Or.inl rfl
      | true =>
        right
        have hrs : RawSwitch s st w := by
          unfold rawSwitched at hc
          unfold RawSwitch
          exact of_decide_eq_true hc
        exact (namedAuthed_of_onBehalf h (raw_switch_needs_authenticated s st w hrs).1).2

theorem accepts_of_inv (cfg : Config) : ∀ (steps : List Step) (s : Srv) (m : Mon), s.cfg = cfg → Inv s m →
    accepts cfg m (traceFrom s steps) = true := by
  intro steps
  induction steps with
  | nil => intro s m _ _; rfl
  | cons st rest ih =>
    intro s m hc h
    simp only [traceFrom, accepts, Bool.and_eq_true]
    subst hc
    exact ⟨stepOk_of_inv s st m h, ih (next s st) _ (next_base s st).1 (inv_step s st m h)⟩

theorem length_initLoop (my ip : Nat) : ∀ cnt i skip, (Users.initLoop my ip cnt i skip).length = cnt := by
  intro cnt
  induction cnt with
  | zero => intro i skip; rfl
  | succ n ih =>
    intro i skip
    unfold Users.initLoop
    simp only []
    split <;> simp [ih]

theorem inv_start (cfg : Config) (rnd : List Nat) : Inv (start cfg rnd) Mon.init := by
  have hz : ∀ u, (getUser (start cfg rnd) u).authenticated = false ∧ (getUser (start cfg rnd) u).active = false := by
    intro u
    unfold getUser start Srv.init
    simp only [List.getD_eq_getElem?_getD, List.getElem?_map]
    cases (Users.initUsers cfg.myIp cfg.netmask)[u]? <;> simp [Session.zero]
  refine ⟨?_, ?_, ?_⟩
  · intro u hu; rw [(hz u).1] at hu; cases hu
  · intro u hu; rw [(hz u).2] at hu; cases hu
  · unfold start Srv.init Users.initUsers
    simp only [List.length_map, length_initLoop]
    unfold Users.userCount
    have : Gen.USERS = 16 := rfl
    omega

/-- (B) Every run of the server from start-up (any configuration, password, `rand()` values, any sequence of
inputs and clock values — monotone or not) is accepted by the monitor: every privileged effect observed in the
trace is on behalf of a slot that, according to the inputs and events seen BEFORE, has received a VACK with
some seed and has afterwards sent a login that is good for exactly that seed, with no later VACK for the slot. -/
theorem privileged_implies_answered_current_challenge (cfg : Config) (rnd : List Nat) (steps : List Step) :
    accepts (start cfg rnd).cfg Mon.init (traceFrom (start cfg rnd) steps) = true :=
  accepts_of_inv _ steps _ _ rfl (inv_start cfg rnd)

/-- the first five steps of the scenario -/
def Ex.steps : List Step :=
  [Ex.stV Ex.srcA 1 1000, ⟨.q (Ex.mkQ Ex.srcA 2 Ex.nameL0), 1001⟩, Ex.stV Ex.srcB 3 1002,
   ⟨.q (Ex.mkQ Ex.srcB 4 Ex.nameL1), 1003⟩, ⟨.q (Ex.mkQ Ex.srcA 5 Ex.nameD8), 1004⟩]

/-- non-vacuity: in the scenario the monitor sees the tun write of the fifth iteration, and at that point it has
recorded slots 0 and 1 (and no other) as having answered their challenges 12345 and 777 -/
example :
    let tr := traceFrom Ex.s0 Ex.steps
    let m := (tr.take 4).foldl (fun m t => m.update Ex.s0.cfg t) Mon.init
    (tr.getLast?.map observedEffect) = some true ∧
    m.authed 0 = true ∧ m.authed 1 = true ∧ m.authed 2 = false ∧ m.seed 0 = some 12345 ∧ m.seed 1 = some 777 := by
  decide +kernel

/-- non-vacuity: the monitor REJECTS a (made-up) trace in which the same data request produces a tun write although
slot 0 has only been allocated, not logged in -/
example : accepts Ex.s0.cfg Mon.init
    [⟨Ex.stV Ex.srcA 1 1000, Ex.s0, out Ex.s0 (Ex.stV Ex.srcA 1 1000), Ex.s1⟩,
     ⟨⟨.q (Ex.mkQ Ex.srcA 5 Ex.nameD8), 1004⟩, Ex.s1, [Event.tunw [0, 0, 8, 0], Event.sweep], Ex.s1⟩] = false := by
  decide +kernel

/-! ### (C) replays -/

/-- A login that is good for challenge `seed1` does not authenticate slot `u` while `u`'s current challenge is a
different one (whose MD5 response differs): replaying the login of an earlier session of the slot is useless. -/
theorem replayed_login_for_old_challenge_rejected (s : Srv) (st : Step) (u : Nat) (q : Query) (seed1 : Nat)
    (hq : st.inp = .q q) (hold : goodLogin s.cfg seed1 q)
    (hne : Login.loginCalcC s.cfg.password seed1 ≠ Login.loginCalcC s.cfg.password (getUser s u).seed)
    (hpre : (getUser s u).authenticated = false) :
    (getUser (next s st) u).authenticated = false := by
  cases hpost : (getUser (next s st) u).authenticated with
  | false => rfl
  | true =>
    exfalso
    obtain ⟨q', hq', hgood, _⟩ := authenticated_set_only_by_good_login s st u hpost hpre
    rw [hq] at hq'
    cases hq'
    unfold goodLogin at hold hgood
    split at hold
    · exact hold
    · next inb hp =>
      rw [hp] at hgood
      exact hne (hold.2.2.symm.trans hgood.2.2)

/-- non-vacuity: `s6` is `s2` after slot 0 expired and was re-allocated (seed 777 instead of 12345); the login that
authenticated slot 0 in `s1` is good for the old seed and is now refused -/
example :
    (getUser Ex.s6 0).seed = 777 ∧ (getUser Ex.s6 0).authenticated = false ∧
    goodLogin Ex.s6.cfg 12345 (Ex.mkQ Ex.srcB 6 Ex.nameL0) ∧
    Login.loginCalcC Ex.s6.cfg.password 12345 ≠ Login.loginCalcC Ex.s6.cfg.password (getUser Ex.s6 0).seed ∧
    (getUser (next Ex.s6 ⟨.q (Ex.mkQ Ex.srcB 6 Ex.nameL0), 1101⟩) 0).authenticated = false := by
  decide +kernel

/-- The same over two iterations: the first re-allocates slot `u` (its seed changes), the second replays a login
that was good for the old seed. -/
theorem replayed_login_after_reallocation (s : Srv) (st1 st2 : Step) (u : Nat) (q : Query)
    (hre : (getUser (next s st1) u).seed ≠ (getUser s u).seed)
    (hq : st2.inp = .q q) (hold : goodLogin s.cfg (getUser s u).seed q)
    (hne : Login.loginCalcC s.cfg.password (getUser s u).seed ≠
           Login.loginCalcC s.cfg.password (getUser (next s st1) u).seed) :
    (getUser (next (next s st1) st2) u).authenticated = false := by
  obtain ⟨_, hauth, _⟩ := seed_changes_only_at_allocation s st1 u hre
  have hc := (next_base s st1).1
  apply replayed_login_for_old_challenge_rejected (next s st1) st2 u q (getUser s u).seed hq
  · rw [hc]; exact hold
  · rw [hc]; exact hne
  · exact hauth

/-- non-vacuity of the two-iteration form: the re-allocation step itself -/
example : (getUser (next Ex.s2 (Ex.stV Ex.srcB 5 1100)) 0).seed ≠ (getUser Ex.s2 0).seed ∧
    goodLogin Ex.s2.cfg (getUser Ex.s2 0).seed (Ex.mkQ Ex.srcB 6 Ex.nameL0) := by
  decide +kernel

end Iodine.C03
