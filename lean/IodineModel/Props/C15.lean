import IodineModel.Lemmas.SrvC15h
/-
Property C15 — "Downstream fragments never exceed the negotiated fragment size"

  After a session sets its downstream fragment size to F, every answer carrying tunnel data for that session
  holds at most F payload bytes after the 2-byte data header, and before any size is set at most the
  conservative default; the server rejects sizes below 2.  Fragments are numbered consecutively from 0 and
  only the final fragment of a packet carries the last-fragment flag.
  Quantifier: for all F in 2..65535, all packet sizes, all record types/codecs and all ack/loss histories.

The theorems are about the runs of the session-machine model (`Server/Run.lean`): `Reachable cfg s`, `next`,
`out`.  Specification-side definitions (this file) are written from the property text and the protocol, not
from the handlers' code.
-/
namespace Iodine.C15
open Iodine Iodine.Server Iodine.Gen

/-! ## Part A — the size bound -/

/-- the negotiated downstream fragment size of slot `u` -/
def F (s : Srv) (u : Nat) : Nat := (getUser s u).fragsize

/-- the payload-carrying bytes (`data` argument of `write_dns`) of an answer that carries tunnel data for
session `u`: a fresh data answer, its copy to a remembered duplicate query, or a replay from the answer cache -/
def dataFor (u : Nat) : Event → Option (List Nat)
  | .ans _ _ _ _ _ data tag => if tag = .chunk u ∨ tag = .dupe u ∨ tag = .cached u then some data else none
  | _ => none

/-- the conservative default size a session has from the version handshake until it negotiates one -/
def defaultFragsize : Nat := 100

/-- `q` is a well-formed set-fragsize (`N`) request of slot `u` for size `n`, acknowledged by the two bytes
`ack`: the name is `N` + base32(userid, size hi, size lo, …) + `.` + topdomain -/
def IsSetFragsizeRequest (topdomain : List Nat) (q : Query) (u n : Nat) (ack : List Nat) : Prop :=
  ∃ dlen, Common.queryDatalen q.name topdomain = some dlen ∧ 2 ≤ dlen ∧
    (q.name.getD 0 0 = 78 ∨ q.name.getD 0 0 = 110) ∧
    let payload := Encoding.serverExtract Codec.b32 1 (min dlen 512) q.name
    3 ≤ payload.length ∧ charVal (payload.getD 0 0) = (u : Int) ∧
    n = (payload.getD 1 0 % 256) * 256 + payload.getD 2 0 % 256 ∧ ack = (payload.drop 1).take 2

/-- `q` is a version (`V`) request -/
def IsVersionRequest (topdomain : List Nat) (q : Query) : Prop :=
  ∃ dlen, Common.queryDatalen q.name topdomain = some dlen ∧ 2 ≤ dlen ∧
    (q.name.getD 0 0 = 86 ∨ q.name.getD 0 0 = 118)

/-- the control answer (not a data answer) to `q` with payload `data` in downstream codec `dn` -/
def ctrlAnswer (q : Query) (data : List Nat) (dn : Nat) : Event :=
  Event.ans q.from_ q.id q.type dn q.name data .ctrl

/-- the query types the tunnel uses -/
def TunnelType (t : Nat) : Prop :=
  t = T_NULL ∨ t = T_PRIVATE ∨ t = T_CNAME ∨ t = T_A ∨ t = T_MX ∨ t = T_SRV ∨ t = T_TXT

/-- session `u` is entitled to change its options with query `q` at time `now`: a live, authenticated slot;
with `-c` off (`checkIp`) the source address must be the session's, otherwise the options must not be locked yet
(the server looks at the lock only when it does not check addresses) -/
def MayNegotiate (s : Srv) (now u : Nat) (q : Query) : Prop :=
  u < s.cfg.createdUsers ∧ (getUser s u).active = true ∧ (getUser s u).disabled = false ∧
  ¬ (getUser s u).lastPkt + 60 < now ∧ (getUser s u).authenticated = true ∧
  (if s.cfg.checkIp then
    q.from_.fam = (getUser s u).host.fam ∧ (q.from_.fam = 4 ∨ q.from_.fam = 6) ∧ (getUser s u).host.ip = q.from_.ip
   else (getUser s u).optionsLocked = false)

theorem F_eq (s : Srv) (u : Nat) : F s u = C15L.F s u := rfl
theorem dataFor_eq (u : Nat) (e : Event) : dataFor u e = C15L.dataFor u e := rfl

/-! ### the run used by the non-vacuity examples -/

namespace Ex
/-! example run used by the non-vacuity examples: topdomain `t.io`, all-zero password, one client -/
def cfg : Config :=
  { checkIp := false, password := List.replicate 32 0, myIp := 0x0a000001, netmask := 27,
    topdomain := [116, 46, 105, 111], mtu := 1130, nsIp := 0, bindPort := 0, dest4 := 0, dest6 := 0,
    createdUsers := 0 }
def mkQ (id : Nat) (name : List Nat) : Query :=
  ⟨name ++ [46, 116, 46, 105, 111], 10, id, ⟨4, 0x7f000001, 5000⟩, 0, Addr.zero, ⟨4, 0x7f000001, 53⟩⟩
/-- `V` + base32(00 00 05 02 00): version handshake -/
def qV : Query := mkQ 1 [118, 97, 97, 97, 97, 107, 97, 113, 97]
/-- `L` + base32(userid 0, login hash for seed 7, 00) -/
def qL : Query := mkQ 2 [108, 97, 98, 102, 113, 111, 99, 101, 106, 120, 104, 105, 53, 119, 106, 121, 114, 115, 98,
  108, 112, 101, 110, 110, 52, 106, 102, 117, 97, 97]
/-- `N` + base32(userid 0, 0x00 0x32): set fragment size 50 -/
def qN50 : Query := mkQ 3 [110, 97, 97, 97, 100, 101]
/-- `N` + base32(userid 0, 0x00 0x01): set fragment size 1 -/
def qN1 : Query := mkQ 3 [110, 97, 97, 97, 97, 99]
/-- pings `P` + base32(userid 0, ack byte, cmc): no ack / no ack / ack seq 1 frag 0 / frag 1 / frag 2 -/
def qP1 : Query := mkQ 4 [112, 97, 97, 97, 97, 97, 97, 105]
def qP2 : Query := mkQ 5 [112, 97, 97, 97, 97, 97, 97, 113]
def qP2dup : Query := mkQ 6 [112, 97, 97, 97, 97, 97, 97, 113]
def qP3 : Query := mkQ 7 [112, 97, 97, 105, 97, 97, 97, 121]
def qP4 : Query := mkQ 8 [112, 97, 97, 105, 113, 97, 98, 97]
def qP5 : Query := mkQ 9 [112, 97, 97, 106, 97, 97, 98, 105]
/-- a 124-byte tun frame for the client's tunnel address 10.0.0.2 (stored as a 125-byte packet) -/
def frame : List Nat := [0, 0, 8, 0] ++ List.replicate 16 69 ++ [10, 0, 0, 2] ++ List.replicate 100 170

def steps : List Step :=
  [⟨.q qV, 1000⟩, ⟨.q qL, 1000⟩, ⟨.q qN50, 1001⟩, ⟨.q qP1, 1001⟩, ⟨.tun frame, 1001⟩, ⟨.q qP2, 1001⟩,
   ⟨.q qP2dup, 1001⟩, ⟨.q qP3, 1002⟩, ⟨.q qP4, 1002⟩, ⟨.q qP5, 1002⟩]

def s0 : Srv := start cfg [7]
/-- state after the first `n` steps -/
def at_ (n : Nat) : Srv := runFrom s0 (steps.take n)
def stepAt (n : Nat) : Step := steps.getD n ⟨.tick, 0⟩

theorem mono : Monotone s0 steps := by
  refine ⟨?_, ?_, ?_, ?_, ?_, ?_, ?_, ?_, ?_, ?_, trivial⟩ <;> decide +kernel

theorem reach (n : Nat) : Reachable cfg (at_ n) :=
  reachable_runFrom (Reachable.init [7]) _ (C15L.monotone_take steps s0 n mono)

end Ex

set_option maxRecDepth 100000

/-- **C15 (A), invariant.**  In every reachable state every live entry of every session's answer cache fits the
session's fragment size (2 header bytes + at most `F` payload bytes) and its stored length is the length of the
stored answer.  This is what makes replays safe; it holds because an accepted `N` and a `V` empty the cache. -/
theorem cache_fits_fragsize {cfg : Config} {s : Srv} (hr : Reachable cfg s) (u : Nat) :
    ∀ e ∈ (getUser s u).dnscache, e.q.id ≠ 0 → e.answerlen ≠ 0 →
      e.answerlen ≤ F s u + 2 ∧ e.answerlen ≤ 4096 ∧ e.answer.length = e.answerlen := by
  intro e he _ h0
  have := (C15L.reachable_inv hr).1 u e he
  exact ⟨this.1, this.2.1, this.2.2 h0⟩

/-- non-vacuity: after the first fragment was sent (and replayed) the cache of slot 0 holds a live 52-byte answer,
and 52 = F + 2 -/
example : Reachable Ex.cfg (Ex.at_ 7) ∧ F (Ex.at_ 7) 0 = 50 ∧
    (getUser (Ex.at_ 7) 0).dnscache.any (fun e => e.q.id != 0 && e.answerlen == 52) = true :=
  ⟨Ex.reach 7, by decide +kernel, by decide +kernel⟩

/-- **C15 (A), main theorem.**  Every answer carrying tunnel data for session `u` — fresh fragment, copy to a
duplicate query, or replay from the answer cache — emitted in an iteration from a reachable state holds at most
`F` bytes after the 2-byte data header, `F` being the session's fragment size at the end of the iteration, and
never more than 4096 bytes in all.  (The size at the end of the iteration is the size at the time of sending:
`no_data_answer_while_negotiating` below shows that the handler that changes a size emits no data answer, and
the sweep that follows it already uses the new size.) -/
theorem fragment_le_fragsize {cfg : Config} {s : Srv} (hr : Reachable cfg s) (st : Step) (_hm : s.now ≤ st.now)
    (e : Event) (he : e ∈ out s st) (u : Nat) (d : List Nat) (hd : dataFor u e = some d) :
    d.length ≤ F (next s st) u + 2 ∧ d.length ≤ 4096 :=
  (C15L.iteration_spec s st.inp st.now (C15L.reachable_inv hr).1).2.1 e he u d hd

/-- non-vacuity: with F = 50 the ping after the tun frame is answered by a fresh 52-byte data answer (the bound is
tight), and the duplicate of that ping by a 52-byte replay from the cache -/
example : Reachable Ex.cfg (Ex.at_ 5) ∧ (Ex.at_ 5).now ≤ (Ex.stepAt 5).now ∧ F (next (Ex.at_ 5) (Ex.stepAt 5)) 0 = 50 ∧
    (out (Ex.at_ 5) (Ex.stepAt 5)).any (fun e => (dataFor 0 e).map List.length == some 52) = true :=
  ⟨Ex.reach 5, by decide +kernel, by decide +kernel, by decide +kernel⟩
example : Reachable Ex.cfg (Ex.at_ 6) ∧
    (out (Ex.at_ 6) (Ex.stepAt 6)).any (fun e => match e with
      | .ans _ _ _ _ _ d (.cached 0) => d.length == 52
      | _ => false) = true :=
  ⟨Ex.reach 6, by decide +kernel⟩

/-- **C15 (A).**  The fragment size of a session changes only by negotiation: in an iteration that changes
`F u` the input is a query that is either a set-fragsize request of slot `u` for a size `n ≥ 2` (then the new size
is `n` and the two size bytes were sent back in a control answer), or a version request that allocated slot `u`
(then the new size is the conservative default 100 and the `VACK` answer names slot `u`). -/
theorem fragsize_only_by_negotiation {cfg : Config} {s : Srv} (hr : Reachable cfg s) (st : Step) (u : Nat)
    (h : F (next s st) u ≠ F s u) :
    ∃ q, st.inp = .q q ∧
      ((∃ n ack, IsSetFragsizeRequest cfg.topdomain q u n ack ∧ 2 ≤ n ∧ n ≤ 65535 ∧ F (next s st) u = n ∧
          ctrlAnswer q ack (getUser s u).downenc ∈ out s st) ∨
       (IsVersionRequest cfg.topdomain q ∧ F (next s st) u = defaultFragsize ∧
          ∃ seed dn, ctrlAnswer q (ascii "VACK" ++ beBytes 4 seed ++ [u % 256]) dn ∈ out s st)) := by
  have hinv := C15L.reachable_inv hr
  obtain ⟨q, hq, ⟨dlen, hdl, h2, hc⟩, _⟩ := (C15L.iteration_spec s st.inp st.now hinv.1).2.2.2 u h
  refine ⟨q, hq, ?_⟩
  have htd : (C15L.handlerState s st.now).cfg.topdomain = cfg.topdomain := hinv.2
  change Common.queryDatalen q.name (C15L.handlerState s st.now).cfg.topdomain = some dlen at hdl
  rw [htd] at hdl
  have hc0 : ∀ c, (q.name.take (min dlen 512)).getD 0 0 = c ↔ q.name.getD 0 0 = c := by
    intro c; rw [C15L.getD_take_zero _ _ (by omega)]
  rcases hc with ⟨hch, hl, hu, _, hn2, hF, hev⟩ | ⟨hch, hF, seed, dn, hev⟩
  · left
    refine ⟨C15L.nSize (q.name.take (min dlen 512)), _, ⟨dlen, hdl, h2, ?_, hl, hu, rfl, rfl⟩, hn2, ?_, hF, ?_⟩
    · rw [← hc0, ← hc0]; exact hch
    · unfold C15L.nSize; omega
    · have : (getUser (C15L.handlerState s st.now) u).downenc = (getUser s u).downenc :=
        C15L.downenc_handlerState s st.now u
      rw [← this]
      exact hev
  · right
    refine ⟨⟨dlen, hdl, h2, ?_⟩, hF, seed, dn, hev⟩
    rw [← hc0, ← hc0]; exact hch

/-- non-vacuity: the `V` of the example run takes slot 0 from 0 to the default 100, the `N` from 100 to 50 -/
example : F (Ex.at_ 0) 0 = 0 ∧ F (next (Ex.at_ 0) ⟨.q Ex.qV, 1000⟩) 0 = 100 ∧
    F (Ex.at_ 2) 0 = 100 ∧ F (next (Ex.at_ 2) ⟨.q Ex.qN50, 1001⟩) 0 = 50 := by decide +kernel

/-- **C15 (A).**  The handler that changes a fragment size emits no data answer: in an iteration that changes some
`F u`, all events before the marker of the send-real-soon sweep are free of tunnel data (for every session). -/
theorem no_data_answer_while_negotiating {cfg : Config} {s : Srv} (hr : Reachable cfg s) (st : Step) (u : Nat)
    (h : F (next s st) u ≠ F s u) :
    ∃ pre post, out s st = pre ++ Event.sweep :: post ∧ ∀ e ∈ pre, ∀ v, dataFor v e = none := by
  obtain ⟨q, _, _, pre, post, h1, h2⟩ :=
    (C15L.iteration_spec s st.inp st.now (C15L.reachable_inv hr).1).2.2.2 u h
  exact ⟨pre, post, h1, h2⟩


/-- non-vacuity: the iteration of the accepted `N` emits the two size bytes, then the sweep marker -/
example : out (Ex.at_ 2) ⟨.q Ex.qN50, 1001⟩ = [ctrlAnswer Ex.qN50 [0, 50] 84, Event.sweep] := by decide +kernel

/-- **C15 (A).**  Sizes below 2 are rejected: a well-formed set-fragsize request for size 0 or 1 leaves every
session's fragment size unchanged, and when it arrives in a tunnel query type from a session entitled to
negotiate, it is answered `BADFRAG`. -/
theorem sizes_below_2_rejected {cfg : Config} {s : Srv} (hr : Reachable cfg s) (st : Step) (q : Query)
    (u n : Nat) (ack : List Nat) (hq : st.inp = .q q) (hreq : IsSetFragsizeRequest cfg.topdomain q u n ack)
    (hn : n < 2) :
    (∀ v, F (next s st) v = F s v) ∧
    (TunnelType q.type → MayNegotiate s st.now u q →
      ctrlAnswer q (ascii "BADFRAG") (getUser s u).downenc ∈ out s st) := by
  constructor
  · intro v
    apply Classical.byContradiction
    intro hne
    obtain ⟨q', hq', hcase⟩ := fragsize_only_by_negotiation hr st v hne
    rw [hq] at hq'
    cases hq'
    obtain ⟨dlen, hdl, _, hch, _, _, hnn, _⟩ := hreq
    rcases hcase with ⟨n', ack', ⟨dlen', hdl', _, _, _, _, hnn', _⟩, h2, _⟩ | ⟨⟨_, _, _, hv⟩, _⟩
    · rw [hdl] at hdl'
      cases hdl'
      omega
    · omega
  · intro hty hmay
    obtain ⟨dlen, hdl, h2, hch, hl, hu, hnn, _⟩ := hreq
    have hinv := C15L.reachable_inv hr
    have hchk : checkAuthenticatedUserAndIpAndOptions (C15L.handlerState s st.now) (u : Int) q = false := by
      rw [C15L.check_handlerState]
      obtain ⟨h1, h2, h3, h4, h5, h6⟩ := hmay
      have hg : ∀ v, getUser { s with now := st.now } v = getUser s v := fun v => rfl
      unfold checkAuthenticatedUserAndIpAndOptions checkAuthenticatedUserAndIp checkUserAndIp
      simp only [hg, Int.toNat_natCast, h2, h3, h5]
      by_cases hip : s.cfg.checkIp = true
      · rw [if_pos hip] at h6
        obtain ⟨ha, hb, hc⟩ := h6
        rcases hb with hb | hb <;> simp [hip, ha.symm, hb, hc, h4] <;> omega
      · rw [if_neg hip] at h6
        simp [hip, h6, h4]
        omega
    have := C15L.tunnelDns_badfrag (C15L.handlerState s st.now) q dlen u (by rw [← hinv.2] at hdl; exact hdl) h2 hty
      (by rw [C15L.getD_take_zero _ _ (by omega)]; exact hch)
      hl hu hchk (by unfold C15L.nSize C15L.nUnpacked; unfold Encoding.serverExtract at hnn; omega)
    have hout : out s st = (tunnelDns (C15L.handlerState s st.now) q).2 ++ [Event.sweep] ++
        (sweep (tunnelDns (C15L.handlerState s st.now) q).1).2 := by
      have : st = ⟨.q q, st.now⟩ := by cases st; cases hq; rfl
      rw [this]; exact C15L.out_q s q st.now
    rw [hout, this]
    rw [C15L.downenc_handlerState]
    simp [ctrlAnswer, writeDns]


/-- non-vacuity: `N` for size 1 from the authenticated session of the example run: a well-formed request from a
session entitled to negotiate, answered `BADFRAG`, size unchanged -/
example : IsSetFragsizeRequest Ex.cfg.topdomain Ex.qN1 0 1 [0, 1] :=
  ⟨7, by decide +kernel, by decide, by decide, by decide +kernel, by decide +kernel, by decide +kernel, by decide +kernel⟩
example : MayNegotiate (Ex.at_ 2) 1001 0 Ex.qN1 ∧ TunnelType Ex.qN1.type ∧
    ctrlAnswer Ex.qN1 (ascii "BADFRAG") 84 ∈ out (Ex.at_ 2) ⟨.q Ex.qN1, 1001⟩ ∧
    F (next (Ex.at_ 2) ⟨.q Ex.qN1, 1001⟩) 0 = 100 := by
  unfold MayNegotiate TunnelType
  decide +kernel

/-! ## Part B — fragment numbering -/

/-- (sequence number, fragment number, last-fragment flag) of a downstream fragment -/
abbrev FragId := Nat × Nat × Nat

/-- the identification of the fragment a data answer carries: the answer has payload after the 2-byte data
header; header byte 1 is `sss ffff l` -/
def fragHeader (d : List Nat) : Option FragId :=
  if d.length > 2 then some (d.getD 1 0 / 32, d.getD 1 0 / 2 % 16, d.getD 1 0 % 2) else none

/-- may the fragment `cur` be the next fresh fragment a session sends after `prev`?
* nothing sent yet: it must be fragment 0;
* the same fragment again (a re-send; its payload may be cut differently after a size change);
* the next fragment (mod 16) of the same packet, only if the previous one was not flagged last;
* fragment 0 of another packet (a packet dropped after too many re-sends is followed by another one). -/
def mayFollow : Option FragId → FragId → Bool
  | none, (_, fr, _) => fr == 0
  | some (sq, fr, la), (sq', fr', _) =>
    (sq' == sq && fr' == fr) || (sq' == sq && la == 0 && fr' == (fr + 1) % 16) || (sq' != sq && fr' == 0)

/-- per slot: the previous fragment of the session now in the slot -/
abbrev MonState := Nat → Option FragId

def MonState.set (m : MonState) (u : Nat) (v : Option FragId) : MonState := fun w => if w = u then v else m w

/-- the slot a `VACK` answer (`"VACK"`, 4 seed bytes, slot) hands out -/
def vackSlot (d : List Nat) : Option Nat :=
  if d.take 4 = [86, 65, 67, 75] ∧ d.length = 9 then some (d.getD 8 0) else none

/-- is the input of the iteration a version request (name starts with `V`/`v`)? -/
def isVersionQuery : Input → Bool
  | .q q => decide (q.name.getD 0 0 = 86 ∨ q.name.getD 0 0 = 118)
  | _ => false

/-- one event: a fresh data answer (`.chunk u`) that carries a fragment must be allowed to follow the session's
previous one; the `VACK` answer to a version request starts a new session in the slot it names; everything else
(control answers, copies to duplicate queries, cache replays, …) is ignored -/
def monEvent (isV : Bool) (m : MonState) : Event → Option MonState
  | .ans _ _ _ _ _ data (.chunk u) =>
    match fragHeader data with
    | some h => if mayFollow (m u) h then some (m.set u (some h)) else none
    | none => some m
  | .ans _ _ _ _ _ data .ctrl =>
    if isV then
      match vackSlot data with
      | some u => some (m.set u none)
      | none => some m
    else some m
  | _ => some m

def monEvents (isV : Bool) (m : MonState) : List Event → Option MonState
  | [] => some m
  | e :: es => (monEvent isV m e).bind (fun m' => monEvents isV m' es)

/-- the monitor over a trace; it reads the inputs and the events only.  `none` = violation. -/
def monTrace (m : MonState) : List TraceStep → Option MonState
  | [] => some m
  | t :: ts => (monEvents (isVersionQuery t.step.inp) m t.events).bind (fun m' => monTrace m' ts)

/-- the trace is accepted -/
def NumberedConsecutively (tr : List TraceStep) : Prop := (monTrace (fun _ => none) tr).isSome = true

theorem mayFollow_eq (p : Option FragId) (c : FragId) : mayFollow p c = C15L.accepts p c := by
  cases p <;> rfl

theorem monEvent_eq (isV : Bool) (m : MonState) (e : Event) : monEvent isV m e = C15L.monEvent isV m e := by
  unfold monEvent C15L.monEvent
  cases e with
  | ans a b c d n dt t =>
    cases t with
    | chunk u => simp only [mayFollow_eq]; rfl
    | _ => rfl
  | _ => rfl

theorem monEvents_eq (isV : Bool) (m : MonState) (es : List Event) : monEvents isV m es = C15L.runMon isV m es := by
  induction es generalizing m with
  | nil => rfl
  | cons e es ih =>
    simp only [monEvents, C15L.runMon, monEvent_eq]
    cases C15L.monEvent isV m e with
    | none => rfl
    | some m' => exact ih m'

theorem isVersionQuery_eq (i : Input) : isVersionQuery i = C15L.inpIsV i := by
  cases i <;> rfl

theorem monTrace_eq (m : MonState) (tr : List TraceStep) : monTrace m tr = C15L.monTrace m tr := by
  induction tr generalizing m with
  | nil => rfl
  | cons t ts ih =>
    simp only [monTrace, C15L.monTrace, monEvents_eq, isVersionQuery_eq]
    cases C15L.runMon (C15L.inpIsV t.step.inp) m t.events with
    | none => rfl
    | some m' => exact ih m'

/-- **C15 (B).**  In every run from start-up, for every session the fresh fragments (in trace order) are numbered
consecutively from 0 within a packet, a fragment follows one flagged "last" only as fragment 0 of another packet
(or as a re-send of the same fragment), and a new session in a slot starts again at fragment 0: the monitor accepts
the trace.  (Monotonicity of the clock is not needed.) -/
theorem fragments_consecutive (cfg : Config) (rnd : List Nat) (steps : List Step)
    (_hm : Monotone (start cfg rnd) steps) :
    NumberedConsecutively (traceFrom (start cfg rnd) steps) := by
  obtain ⟨m', h⟩ := C15L.monTrace_run steps (start cfg rnd) (fun _ => none) (C15L.inv_start cfg rnd)
    (by have := C15L.start_length cfg rnd; omega) (C15L.g_start cfg rnd)
  unfold NumberedConsecutively
  rw [monTrace_eq, h]
  rfl


/-- non-vacuity: on the example run the monitor follows the three fragments of the 125-byte packet (seq 1, frag 0,
1, 2, the last one flagged); it rejects a first fragment numbered 1, a skipped fragment, and a fragment after one
flagged last -/
example : Monotone Ex.s0 Ex.steps ∧
    (monTrace (fun _ => none) (traceFrom Ex.s0 Ex.steps)).map (fun m => m 0) = some (some (1, 2, 1)) :=
  ⟨Ex.mono, by decide +kernel⟩
example : (monEvents false (fun _ => none) [Event.ans Addr.zero 1 10 84 [] [128, 34, 7] (.chunk 0)]).isSome = false ∧
    (monEvents false (fun _ => none) [Event.ans Addr.zero 1 10 84 [] [128, 32, 7] (.chunk 0),
      Event.ans Addr.zero 2 10 84 [] [128, 36, 7] (.chunk 0)]).isSome = false ∧
    (monEvents false (fun _ => none) [Event.ans Addr.zero 1 10 84 [] [128, 33, 7] (.chunk 0),
      Event.ans Addr.zero 2 10 84 [] [128, 34, 7] (.chunk 0)]).isSome = false := by decide

/-- the number of payload bytes the server cuts for a session state: `min(fragsize, len - offset)`, at most
what fits a 4096-byte answer after the 2-byte header; nothing without a stored packet -/
def cutLen (x : Session) : Nat :=
  if x.outpacket.len > 0 then min (min x.fragsize (x.outpacket.len - x.outpacket.offset)) (4096 - 2) else 0

/-- well-formed bookkeeping of the stored downstream packet of a session state -/
structure StoredPacketOK (x : Session) : Prop where
  sent : x.outpacket.offset + x.outpacket.sentlen ≤ x.outpacket.len
  off : x.outpacket.len ≠ 0 → x.outpacket.offset < x.outpacket.len
  data : x.outpacket.len ≤ x.outpacket.data.length
  fsz : x.outpacket.len ≠ 0 → 2 ≤ x.fragsize

/-- `data` (header and payload of a fresh data answer) is cut from the stored packet of session state `x` -/
structure CutFrom (x : Session) (data : List Nat) : Prop where
  wf : StoredPacketOK x
  length : data.length = cutLen x + 2
  payload : data.drop 2 = (x.outpacket.data.drop x.outpacket.offset).take (cutLen x)
  seq : data.getD 1 0 / 32 = (x.outpacket.seqno % 8).toNat
  frag : data.getD 1 0 / 2 % 16 = (x.outpacket.fragment % 16).toNat
  last : data.getD 1 0 % 2 = 1 ↔ x.outpacket.len > 0 ∧ x.outpacket.offset + cutLen x = x.outpacket.len
  nonempty : x.outpacket.len ≠ 0 → 1 ≤ cutLen x

/-- **C15 (B)/(C), common form.**  Every fresh data answer (`.chunk u`) of an iteration from a reachable state was
cut by `send_chunk_or_dataless` from a session state `x` whose packet bookkeeping is well-formed (`x` is the state of
slot `u` at the time of the call, after the "re-sent too often" block; the theorem exposes it existentially). -/
theorem fresh_fragment_cut {cfg : Config} {s : Srv} (hr : Reachable cfg s) (st : Step)
    (a : Addr) (id ty dn : Nat) (name data : List Nat) (u : Nat)
    (he : Event.ans a id ty dn name data (.chunk u) ∈ out s st) : ∃ x : Session, CutFrom x data := by
  obtain ⟨x, hw, hd⟩ := C15L.chunk_ok_of_reachable hr st _ he a id ty dn name data u rfl
  obtain ⟨h1, h2, h3, h4, h5, h6⟩ := C15L.scPkt_shape hw
  subst hd
  exact ⟨x, ⟨hw.sent, hw.off, hw.data, hw.fsz⟩, h1, h2, h3, h4, h5, h6⟩

/-- non-vacuity: the three fresh fragments of the example run: header bytes 0x20, 0x22, 0x25 (only the third is
flagged last), payloads of 50, 50 and 25 bytes of 0xaa… cut from the 125-byte packet -/
example : (out (Ex.at_ 5) (Ex.stepAt 5)).head? =
      some (Event.ans ⟨4, 0x7f000001, 5000⟩ 5 10 84 Ex.qP2.name
        ([128, 32] ++ ((compress Ex.frame).drop 0).take 50) (.chunk 0)) ∧
    (out (Ex.at_ 7) (Ex.stepAt 7)).head? =
      some (Event.ans ⟨4, 0x7f000001, 5000⟩ 7 10 84 Ex.qP3.name
        ([128, 34] ++ ((compress Ex.frame).drop 50).take 50) (.chunk 0)) ∧
    (out (Ex.at_ 8) (Ex.stepAt 8)).head? =
      some (Event.ans ⟨4, 0x7f000001, 5000⟩ 8 10 84 Ex.qP4.name
        ([128, 37] ++ ((compress Ex.frame).drop 100).take 50) (.chunk 0)) := by decide +kernel

/-- **C15 (B).**  A fresh data answer carries the last-fragment flag iff its fragment ends the stored packet
(`offset + datalen = len` in the session state it was cut from). -/
theorem last_flag_iff_final {cfg : Config} {s : Srv} (hr : Reachable cfg s) (st : Step)
    (a : Addr) (id ty dn : Nat) (name data : List Nat) (u : Nat)
    (he : Event.ans a id ty dn name data (.chunk u) ∈ out s st) :
    ∃ x : Session, StoredPacketOK x ∧ data.length = cutLen x + 2 ∧
      (data.getD 1 0 % 2 = 1 ↔ x.outpacket.len > 0 ∧ x.outpacket.offset + cutLen x = x.outpacket.len) := by
  obtain ⟨x, h⟩ := fresh_fragment_cut hr st a id ty dn name data u he
  exact ⟨x, h.wf, h.length, h.last⟩

/-- **C15 (C).**  The payload of a fresh data answer is `(outpacket.data.drop offset).take datalen` of the session
state it was cut from: fragments are cut from the stored packet and nothing else; a stored packet never yields an
empty fragment. -/
theorem chunk_is_prefix_of_outpacket {cfg : Config} {s : Srv} (hr : Reachable cfg s) (st : Step)
    (a : Addr) (id ty dn : Nat) (name data : List Nat) (u : Nat)
    (he : Event.ans a id ty dn name data (.chunk u) ∈ out s st) :
    ∃ x : Session, StoredPacketOK x ∧
      data.drop 2 = (x.outpacket.data.drop x.outpacket.offset).take (cutLen x) ∧ data.length = cutLen x + 2 ∧
      (x.outpacket.len ≠ 0 → 1 ≤ cutLen x) := by
  obtain ⟨x, h⟩ := fresh_fragment_cut hr st a id ty dn name data u he
  exact ⟨x, h.wf, h.payload, h.length, h.nonempty⟩


/-! ## A finding: packets of more than 16 fragments are undeliverable

The fragment number has 4 bits in the data header and in the client's ack, but `outpacket.fragment` is a `char`
that `process_downstream_ack` compares unmasked with the 4-bit number.  The 17th fragment of a packet goes out
numbered 0 again (16 mod 16 — which is why `mayFollow` counts mod 16) and can never be acknowledged; after six
re-sends the whole packet is dropped.  Concrete run: fragment size 2, a 125-byte packet (63 fragments).  The
sixteen fragments 0…15 are acknowledged one by one, "fragment 0" is then sent six times, and the next answer
is dataless: the packet is gone after 32 of its 125 bytes. -/

namespace Ex
def b32e (d : List Nat) : List Nat := (Codec.enc Codec.b32 1000 d).chars
/-- `N` for fragment size 2 -/
def qN2 : Query := mkQ 3 ([110] ++ b32e [0, 0, 2])
/-- ping number `k` acknowledging fragment `(k - 1) mod 16` of packet 1 -/
def ping (k : Nat) : Query := mkQ (10 + k) ([112] ++ b32e [0, 16 + (k + 15) % 16, 0, 100 + k])
def steps16 : List Step :=
  [⟨.q qV, 1000⟩, ⟨.q qL, 1000⟩, ⟨.q qN2, 1001⟩, ⟨.q qP1, 1001⟩, ⟨.tun frame, 1001⟩] ++
  (List.range 23).map fun k => ⟨.q (ping k), 1002⟩
/-- (fragment number, payload length) of the fresh data answers of slot 0, in trace order -/
def freshFrags (tr : List TraceStep) : List (Nat × Nat) :=
  tr.flatMap fun t => t.events.filterMap fun e =>
    match e with
    | .ans _ _ _ _ _ d (.chunk 0) => some (d.getD 1 0 / 2 % 16, d.length - 2)
    | _ => none
end Ex

example : (Ex.freshFrags (traceFrom Ex.s0 Ex.steps16)).drop 1 =
      (List.range 16).map (fun k => (k, 2)) ++ List.replicate 6 (0, 2) ++ [(0, 0)] ∧
    (getUser (runFrom Ex.s0 Ex.steps16) 0).outpacket.len = 0 ∧
    NumberedConsecutively (traceFrom Ex.s0 Ex.steps16) := by
  unfold NumberedConsecutively
  decide +kernel

end Iodine.C15
