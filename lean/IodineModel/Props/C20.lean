import IodineModel.FwQuery
import IodineModel.Lemmas.FwQuery
/-
C20 — DNS forwarding (`iodined -b port`): a query for a name outside the tunnel domain is relayed
to the local DNS port with the same id; the reply bearing that id is sent, bytes unchanged, to the
address that asked, for any of the FW_QUERY_CACHE_SIZE most recent forwarded queries with
distinct ids; a reply whose id matches no remembered query is never sent to another requester.

Only property statements live here (helper lemmas: Lemmas/FwQuery.lean).  The specification side
(`queries`, `recent`, …) is written over the event sequence alone, independently of the ring.

All theorems hold for ALL event sequences (any interleaving of queries and replies, any asker
numbers, any ids); no "askers ≥ 1" hypothesis is needed — the null address 0 is mentioned only
where the C code can actually produce it (never-written slot).
-/
namespace Iodine.C20
open Iodine.FwQuery

/-! ### Specification vocabulary (event sequences only) -/

/-- the forwarded queries of an event sequence, oldest first, as (asker, id) -/
def queries : List Ev → List (Addr × Nat)
  | [] => []
  | .query a i :: r => (a, i) :: queries r
  | .reply _ _ :: r => queries r

/-- the last `m` elements (all of them if there are fewer) -/
def lastN {α} (m : Nat) (l : List α) : List α := l.drop (l.length - m)

/-- the last SIZE forwarded queries -/
def recent (evs : List Ev) : List (Addr × Nat) := lastN SIZE (queries evs)

def ids (l : List (Addr × Nat)) : List Nat := l.map Prod.snd

/-- the `k`-th forwarded query (0-based) is one of the last SIZE -/
def InWindow (evs : List Ev) (k : Nat) : Prop :=
  k < (queries evs).length ∧ (queries evs).length ≤ k + SIZE

/-! ### glue between the specification vocabulary and the lemma file -/

theorem queries_eq_putsOf (evs : List Ev) : queries evs = putsOf evs := by
  induction evs with
  | nil => rfl
  | cons e evs ih => cases e <;> simp [queries, ih]

theorem mem_recent (evs : List Ev) (x : Addr × Nat) :
    x ∈ recent evs ↔ ∃ k, InWindow evs k ∧ (queries evs)[k]? = some x := by
  simp only [recent, lastN, InWindow, mem_drop_length_sub, and_assoc]

theorem inv_queries (evs : List Ev) : Inv (queries evs) (run evs).1 := by
  rw [queries_eq_putsOf]; exact inv_run evs

/-! ### The core invariant: the ring holds exactly the last SIZE puts -/

/-- After any event sequence: the ring has SIZE slots, the write index is (#queries mod SIZE), and
reading the ring from the write index round (ring order = oldest first) gives the never-written
slots (null address, id 0) followed by exactly the last min(SIZE, #queries) queries, in order. -/
theorem slots_are_last_puts (evs : List Ev) :
    let s := (run evs).1
    s.slots.length = SIZE ∧
    s.ix = (queries evs).length % SIZE ∧
    s.slots.drop s.ix ++ s.slots.take s.ix =
      List.replicate (SIZE - (queries evs).length) (0, 0) ++ recent evs := by
  have h := inv_queries evs
  exact ⟨h.len, h.ix, h.ring_order⟩

/-- Pointwise form: query number `k` of the last SIZE sits in slot `k % SIZE`; the slots
`#queries ≤ j < SIZE` still hold the null entry. -/
theorem slot_of_recent_query (evs : List Ev) :
    (∀ k, InWindow evs k → (run evs).1.slots[k % SIZE]? = (queries evs)[k]?) ∧
    (∀ j, (queries evs).length ≤ j → j < SIZE → (run evs).1.slots[j]? = some (0, 0)) := by
  have h := inv_queries evs
  exact ⟨fun k hk => h.window hk.1 hk.2, fun j hn hj => h.unwritten hn hj⟩

example : (run [.query 5 100, .reply 100 [1], .query 6 101]).1.slots.take 3 = [(5, 100), (6, 101), (0, 0)] := by
  decide

/-! ### Relaying the query -/

/-- A non-tunnel query is relayed with the same id (exactly one output), and remembered. -/
theorem fw_query_relayed (evs : List Ev) (a i : Nat) :
    run (evs ++ [.query a i]) = (put (run evs).1 a i, (run evs).2 ++ [.forward i]) := by
  rw [run_snoc]; rfl

example : (run [.query 3 4660]).2 = [.forward 4660] := by decide

/-! ### Routing the reply -/

/-- General form: if `a` asked with id `i` among the last SIZE forwarded queries and every one of
those queries carrying id `i` came from `a`, a reply with id `i` produces exactly one more output:
the reply bytes, unchanged, to `a`.  The ring is left as it was (nothing is removed).

Note on id 0 and never-written slots: no side condition "i ≠ 0 or the ring is full" is needed,
because while the ring is not full the written slots 0..n-1 all precede the never-written slots
n..SIZE-1, so the first-match scan meets the real entry first. -/
theorem fw_reply_routed_of_same_asker (evs : List Ev) (a i : Nat) (bytes : List Nat)
    (hmem : (a, i) ∈ recent evs) (hsame : ∀ b, (b, i) ∈ recent evs → b = a) :
    run (evs ++ [.reply i bytes]) = ((run evs).1, (run evs).2 ++ [.toAsker a bytes]) := by
  have h := inv_queries evs
  obtain ⟨k, hk, hq⟩ := (mem_recent evs _).mp hmem
  obtain ⟨k', b, hk', hk2', hq', hget, hslot, _⟩ := h.get_window hk.1 hk.2 hq
  have hb : b = a := hsame b ((mem_recent evs _).mpr ⟨k', ⟨hk', hk2'⟩, hq'⟩)
  rw [run_snoc, step_reply_state, step_reply_out, hget]
  simp only [hslot, hb]

/-- C20, routing: if `Ev.query a i` is among the last SIZE forwarded queries and the id `i` occurs
exactly once among their ids, then the reply with id `i` goes — exactly one additional output,
bytes unchanged — to `a`. -/
theorem fw_reply_routed (evs : List Ev) (a i : Nat) (bytes : List Nat)
    (hmem : (a, i) ∈ recent evs) (hdistinct : (ids (recent evs)).count i = 1) :
    run (evs ++ [.reply i bytes]) = ((run evs).1, (run evs).2 ++ [.toAsker a bytes]) :=
  fw_reply_routed_of_same_asker evs a i bytes hmem
    (fun _ hb => asker_unique_of_count (by simpa [ids] using hdistinct) hb hmem)

/-- 3 outstanding queries, reply to the middle one -/
example : (run [.query 1 10, .query 2 11, .query 3 12, .reply 11 [170, 187]]).2 =
    [.forward 10, .forward 11, .forward 12, .toAsker 2 [170, 187]] := by decide

/-- 20 > SIZE outstanding queries with ids 100..119: the reply to the 5th most recent is routed -/
example : ((run ((List.range 20).map (fun k => Ev.query (k + 1) (100 + k)) ++ [.reply 115 [1, 2, 3]])).2).drop 20 =
    [.toAsker 16 [1, 2, 3]] := by decide +kernel

/-- id 0 is an ordinary id once it has been asked, even in a ring that is not full -/
example : (run [.query 7 0, .reply 0 [9]]).2 = [.forward 0, .toAsker 7 [9]] := by decide

/-- the hypotheses of `fw_reply_routed` are satisfiable with a wrapped ring -/
example : let evs := (List.range 20).map (fun k => Ev.query (k + 1) (100 + k))
    (16, 115) ∈ recent evs ∧ (ids (recent evs)).count 115 = 1 := by decide +kernel

/-! ### Unknown ids -/

/-- C20, dropping: if `i` is not the id of any of the last SIZE forwarded queries, the reply produces
no output at all — with the single exception of id 0 while fewer than SIZE queries have ever been
forwarded: then the C finds a never-written slot (id 0) and calls sendto with its null address
(address 0, addrlen 0), modelled as `toAsker 0 bytes`. -/
theorem fw_unknown_dropped (evs : List Ev) (i : Nat) (bytes : List Nat)
    (hunk : i ∉ ids (recent evs)) :
    run (evs ++ [.reply i bytes]) =
      ((run evs).1,
       (run evs).2 ++ if i = 0 ∧ (queries evs).length < SIZE then [.toAsker 0 bytes] else []) := by
  have h := inv_queries evs
  have hno : ∀ k, k < (queries evs).length → (queries evs).length ≤ k + SIZE →
      ∀ c, (queries evs)[k]? ≠ some (c, i) := by
    intro k hk hk2 c hc
    apply hunk
    exact List.mem_map.mpr ⟨(c, i), (mem_recent evs _).mpr ⟨k, ⟨hk, hk2⟩, hc⟩, rfl⟩
  rw [run_snoc, step_reply_state, step_reply_out, h.get_no_window hno]
  by_cases hc : i = 0 ∧ (queries evs).length < SIZE
  · have := slot_eq_of_getElem? (h.unwritten (Nat.le_refl _) hc.2)
    simp only [if_pos hc, this]
  · simp only [if_neg hc]

/-- … in particular nothing is sent to any real asker (number ≥ 1). -/
theorem fw_unknown_not_to_real_asker (evs : List Ev) (i : Nat) (bytes : List Nat)
    (hunk : i ∉ ids (recent evs)) :
    ∃ extra, (run (evs ++ [.reply i bytes])).2 = (run evs).2 ++ extra ∧
      ∀ a b, Out.toAsker a b ∈ extra → a = 0 := by
  refine ⟨_, by rw [fw_unknown_dropped evs i bytes hunk], ?_⟩
  intro a b hmem
  split at hmem
  · simp only [List.mem_singleton, Out.toAsker.injEq] at hmem
    exact hmem.1
  · cases hmem

/-- unknown id, nothing sent -/
example : (run [.query 1 10, .query 2 11, .reply 12 [5]]).2 = [.forward 10, .forward 11] := by decide
/-- unknown id 0 in a ring that is not full: sendto with the null address -/
example : (run [.query 1 10, .query 2 11, .reply 0 [5]]).2 =
    [.forward 10, .forward 11, .toAsker 0 [5]] := by decide
/-- unknown id 0 in a full ring: nothing -/
example : ((run ((List.range 16).map (fun k => Ev.query (k + 1) (100 + k)) ++ [.reply 0 [5]])).2).drop 16 = [] := by
  decide +kernel

/-- Safety for every reply, known id or not: at most one output, the bytes unchanged, and the
addressee is an asker of that very id among the last SIZE forwarded queries (or the null address of a
never-written slot, only for id 0 in a ring that is not full). -/
theorem fw_reply_only_to_recent_asker (evs : List Ev) (i : Nat) (bytes : List Nat) :
    run (evs ++ [.reply i bytes]) = run evs ∨
    ∃ a, run (evs ++ [.reply i bytes]) = ((run evs).1, (run evs).2 ++ [.toAsker a bytes]) ∧
      ((a, i) ∈ recent evs ∨ (a = 0 ∧ i = 0 ∧ (queries evs).length < SIZE)) := by
  by_cases hmem : i ∈ ids (recent evs)
  · right
    obtain ⟨⟨a, i'⟩, hx, hxi⟩ := List.mem_map.mp hmem
    simp only at hxi
    subst hxi
    have h := inv_queries evs
    obtain ⟨k, hk, hq⟩ := (mem_recent evs _).mp hx
    obtain ⟨k', b, hk', hk2', hq', hget, hslot, _⟩ := h.get_window hk.1 hk.2 hq
    refine ⟨b, ?_, Or.inl ((mem_recent evs _).mpr ⟨k', ⟨hk', hk2'⟩, hq'⟩)⟩
    rw [run_snoc, step_reply_state, step_reply_out, hget]
    simp only [hslot]
  · rw [fw_unknown_dropped evs i bytes hmem]
    by_cases hc : i = 0 ∧ (queries evs).length < SIZE
    · right
      exact ⟨0, by rw [if_pos hc], Or.inr ⟨rfl, hc.1, hc.2⟩⟩
    · left
      rw [if_neg hc, List.append_nil]

/-! ### Stale ids -/

/-- Once SIZE further queries have been forwarded, a reply bearing the old id `i` is sent to nobody,
provided none of those further queries reused the id.  (If the id was reused, the reply goes to a
recent asker of that id, by `fw_reply_only_to_recent_asker` — never to the overwritten one unless
it asked again.) -/
theorem fw_stale_not_leaked (pre post : List Ev) (a i : Nat) (bytes : List Nat)
    (hmany : SIZE ≤ (queries post).length) (hfresh : i ∉ ids (queries post)) :
    run (pre ++ [.query a i] ++ post ++ [.reply i bytes]) = run (pre ++ [.query a i] ++ post) := by
  have happ : ∀ e1 e2, queries (e1 ++ e2) = queries e1 ++ queries e2 := by
    intro e1 e2; simp only [queries_eq_putsOf, putsOf_append]
  have hq : queries (pre ++ [.query a i] ++ post) = (queries pre ++ [(a, i)]) ++ queries post := by
    rw [happ, happ]; rfl
  have hunk : i ∉ ids (recent (pre ++ [.query a i] ++ post)) := by
    intro hmem
    obtain ⟨x, hx, hxi⟩ := List.mem_map.mp hmem
    obtain ⟨k, ⟨hk, hk2⟩, hqk⟩ := (mem_recent _ _).mp hx
    rw [hq] at hk hk2 hqk
    simp only [List.length_append, List.length_singleton] at hk hk2
    rw [List.getElem?_append_right (by simp only [List.length_append, List.length_singleton]; omega)] at hqk
    exact hfresh (List.mem_map.mpr ⟨x, List.mem_of_getElem? hqk, hxi⟩)
  rw [fw_unknown_dropped _ i bytes hunk, if_neg, List.append_nil]
  rw [hq]
  simp only [List.length_append, List.length_singleton]
  omega

/-- asker 1 asked with id 100; 16 further queries (ids 200..215) push it out; the reply is dropped -/
example : let evs := [Ev.query 1 100] ++ (List.range 16).map (fun k => Ev.query (k + 2) (200 + k))
    run (evs ++ [.reply 100 [1]]) = run evs := by decide +kernel
/-- … whereas after only 15 further queries it is still delivered -/
example : let evs := [Ev.query 1 100] ++ (List.range 15).map (fun k => Ev.query (k + 2) (200 + k))
    (run (evs ++ [.reply 100 [1]])).2 = (run evs).2 ++ [.toAsker 1 [1]] := by decide +kernel
/-- id reuse: asker 1's id 100 was pushed out, asker 9 reused id 100 later; the reply goes to 9 only -/
example : let evs := [Ev.query 1 100] ++ (List.range 16).map (fun k => Ev.query (k + 2) (200 + k)) ++ [Ev.query 9 100]
    (run (evs ++ [.reply 100 [1]])).2 = (run evs).2 ++ [.toAsker 9 [1]] := by decide +kernel

/-! ### Duplicate ids among the recent queries -/

/-- When several of the last SIZE forwarded queries carry the same id, the reply goes to the one in
the lowest-numbered slot (slot of query number `k` is `k % SIZE`), which is neither necessarily the
oldest nor the most recent.  This is why the property requires distinct ids. -/
theorem fw_duplicate_id_goes_to_first_slot (evs : List Ev) (k a i : Nat) (bytes : List Nat)
    (hk : InWindow evs k) (hq : (queries evs)[k]? = some (a, i))
    (hfirst : ∀ k', InWindow evs k' → (∃ c, (queries evs)[k']? = some (c, i)) →
      k % SIZE ≤ k' % SIZE) :
    run (evs ++ [.reply i bytes]) = ((run evs).1, (run evs).2 ++ [.toAsker a bytes]) := by
  have h := inv_queries evs
  obtain ⟨k', b, hk', hk2', hq', hget, hslot, hmin⟩ := h.get_window hk.1 hk.2 hq
  have h1 := hfirst k' ⟨hk', hk2'⟩ ⟨b, hq'⟩
  have h2 := hmin k hk.1 hk.2 ⟨a, hq⟩
  have hkk : k' = k := by
    obtain ⟨hka, hkb⟩ := hk
    simp only [SIZE, Iodine.Gen.FW_QUERY_CACHE_SIZE] at *
    omega
  subst hkk
  rw [hq] at hq'
  have hb : b = a := by
    have := Option.some.inj hq'
    exact (Prod.mk.inj this).1.symm
  rw [run_snoc, step_reply_state, step_reply_out, hget]
  simp only [hslot, hb]

/-- two outstanding queries with the same id, ring not wrapped: the OLDER asker gets the reply -/
example : (run [.query 1 7, .query 2 7, .reply 7 [1]]).2 = [.forward 7, .forward 7, .toAsker 1 [1]] := by decide
/-- ring wrapped: query number 5 (asker 6) and query number 16 (asker 17, slot 0) share id 7:
the MOST RECENT asker gets the reply, and asker 6 — still within the last SIZE — does not -/
example : let evs := (List.range 17).map (fun k => Ev.query (k + 1) (if k = 5 ∨ k = 16 then 7 else 100 + k))
    (6, 7) ∈ recent evs ∧ (run (evs ++ [.reply 7 [1]])).2 = (run evs).2 ++ [.toAsker 17 [1]] := by
  decide +kernel
/-- so `fw_reply_routed` is false without the distinctness hypothesis -/
example : ¬ ∀ (evs : List Ev) (a i : Nat) (bytes : List Nat), (a, i) ∈ recent evs →
    run (evs ++ [.reply i bytes]) = ((run evs).1, (run evs).2 ++ [.toAsker a bytes]) := by
  intro h
  exact absurd (h [.query 1 7, .query 2 7] 2 7 [] (by decide)) (by decide)

end Iodine.C20
