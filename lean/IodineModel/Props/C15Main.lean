import IodineModel.Props.C15
import IodineModel.Lemmas.OptTop
/-
C15 from the command line on.
-/
namespace Iodine.C15
open Iodine Iodine.Server Iodine.Server.Options

/-- **fragment_le_fragsize_from_main.**  For every command line and environment with which iodined reaches `tunnel()`, every run
(monotone clock) and one more iteration: every answer carrying tunnel data for session `u` has at most `fragsize(u) + 2` bytes (the
size in force after the iteration) and at most 4096.  No hypothesis on the configuration. -/
theorem fragment_le_fragsize_from_main (env : Env) (argv : List (List Nat)) (f : Final) (h : Top.Starts env argv f)
    (rnd : List Nat) (d4 d6 : Nat) (steps : List Step) (hm : Monotone (Top.entry f rnd d4 d6) steps) (st : Step)
    (e : Event) (u : Nat) (d : List Nat) :
    let s := runFrom (Top.entry f rnd d4 d6) steps
    s.now ≤ st.now → e ∈ out s st → dataFor u e = some d → d.length ≤ F (next s st) u + 2 ∧ d.length ≤ 4096 := by
  intro s hst he hd
  have hr : Reachable (f.cfg d4 d6) s := by
    rw [OptL.entry_eq_start h] at hm
    show Reachable _ (runFrom (Top.entry f rnd d4 d6) steps)
    rw [OptL.entry_eq_start h]
    exact reachable_runFrom (.init rnd) steps hm
  exact fragment_le_fragsize hr st hst e he u d hd

/-- **fragments_consecutive_from_main.**  For every command line and environment with which iodined reaches `tunnel()` and every run
afterwards: the numbering monitor accepts the trace (fragments of a packet numbered consecutively from 0, a new packet only after the
"last" flag, a new session starts at 0).  No hypothesis on the configuration. -/
theorem fragments_consecutive_from_main (env : Env) (argv : List (List Nat)) (f : Final) (h : Top.Starts env argv f)
    (rnd : List Nat) (d4 d6 : Nat) (steps : List Step) (hm : Monotone (Top.entry f rnd d4 d6) steps) :
    NumberedConsecutively (traceFrom (Top.entry f rnd d4 d6) steps) := by
  rw [OptL.entry_eq_start h] at hm ⊢
  exact fragments_consecutive _ rnd steps hm

end Iodine.C15
