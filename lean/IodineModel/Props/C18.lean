import IodineModel.Users
import IodineModel.Lemmas.Users
/-
C18 — tunnel address pool of iodined (user.c: init_users / find_user_by_ip / find_available_user).

For every server tunnel address and netmask /8../30 the server creates min(USERS, subnet size - 3)
sessions, each with a distinct host address inside the server's subnet that is neither the
server's own address nor the network or broadcast address; looking up a tunnel address finds
exactly the live logged-in session that owns it; a session heard from within the last 60 s is
never handed out again.

Only property statements live here (helper lemmas: Lemmas/Users.lean).  The specification side
(`mask`, `net`, `bcast`, `LiveLoggedIn`, `Owns`, `Reusable`) is ordinary integer arithmetic on
host-order addresses and does not mention the model's byte-order-aware `addLastOctet`, the
bitwise mask or the loop.
-/
namespace Iodine.C18
open Iodine Iodine.Users

/-! ### Specification vocabulary (host-order addresses, plain arithmetic) -/

/-- the /n netmask -/
def mask (n : Nat) : Nat := 2 ^ 32 - 2 ^ (32 - n)
/-- network address of `a` in its /n subnet -/
def net (a n : Nat) : Nat := a - a % 2 ^ (32 - n)
/-- broadcast address of `a`'s /n subnet -/
def bcast (a n : Nat) : Nat := net a n + 2 ^ (32 - n) - 1

/-- the session in this slot is live and logged in at time `now` -/
def LiveLoggedIn (s : Slot) (now : Nat) : Prop :=
  s.active = true ∧ s.authenticated = true ∧ s.disabled = false ∧ now < s.lastPkt + 60
/-- the slot is a live logged-in session with tunnel address `ip` -/
def Owns (s : Slot) (now ip : Nat) : Prop := LiveLoggedIn s now ∧ s.tunIp = ip
/-- the slot may be handed to a new client: never used or silent for more than 60 s, not disabled -/
def Reusable (s : Slot) (now : Nat) : Prop :=
  (s.active = false ∨ s.lastPkt + 60 < now) ∧ s.disabled = false

/-! ### Mask and network address as computed by the C -/

/-- the shift loop of `init_users` computes the /n netmask -/
theorem netmask_is_mask (n : Nat) (h8 : 8 ≤ n) (h30 : n ≤ 30) : netmask n = mask n :=
  netmask_eq n (by omega)

example : netmask 27 = 0xFFFFFFE0 ∧ mask 27 = 0xFFFFFFE0 := by decide +kernel

/-- `my_ip & netmask` is the network address -/
theorem ipstart_is_net (my n : Nat) (h8 : 8 ≤ n) (h30 : n ≤ 30) (hmy : my < 2 ^ 32) :
    my &&& netmask n = net my n := by
  rw [netmask_eq n (by omega)]; exact and_mask my n (by omega) hmy

-- 192.168.37.201/20 -> 192.168.32.0
example : 3232245193 &&& netmask 20 = 3232243712 ∧ net 3232245193 20 = 3232243712 := by
  decide +kernel

/-! ### The pool -/

/-- the number of sessions is min(USERS, subnet size - 3) -/
theorem pool_size (my n : Nat) (h8 : 8 ≤ n) (h30 : n ≤ 30) (hmy : my < 2 ^ 32) :
    (initUsers my n).length = min Gen.USERS (2 ^ (32 - n) - 3) := by
  rw [(initUsers_spec my n h8 h30 hmy).1, Nat.min_comm]

-- 10.0.0.1/27: 16 users (limited by USERS); 10.0.0.1/29: 5 users; 10.0.0.1/30: 1 user
example : (initUsers 167772161 27).length = 16 ∧ (initUsers 167772161 29).length = 5 ∧
    (initUsers 167772161 30).length = 1 := by decide +kernel

/-- The last-octet-only addition the C performs on the byte-swapped address never wraps for the
offsets the loop can use: for every `k ≤ usercount + 1` the last octet of the network address
plus `k` stays below 256, so `addLastOctet` coincides with ordinary addition. -/
theorem no_carry_offsets (my n : Nat) (h8 : 8 ≤ n) (h30 : n ≤ 30) (k : Nat)
    (hk : k ≤ min Gen.USERS (2 ^ (32 - n) - 3) + 1) :
    net my n % 256 + k < 256 ∧ addLastOctet (net my n) k = net my n + k := by
  have h := addLastOctet_net my (2 ^ (32 - n)) k Gen.USERS (subnetSize_pow n h8 h30) users_small
    (by omega)
  refine ⟨?_, h⟩
  unfold net
  unfold addLastOctet at h
  omega

/-- ... and therefore every assigned address is `network address + j` (ordinary addition) for
some `1 ≤ j ≤ usercount + 1`, the byte-swapped addition agreeing with it. -/
theorem no_carry (my n : Nat) (h8 : 8 ≤ n) (h30 : n ≤ 30) (hmy : my < 2 ^ 32) :
    ∀ ip ∈ initUsers my n, ∃ j, 1 ≤ j ∧ j ≤ min Gen.USERS (2 ^ (32 - n) - 3) + 1 ∧
      ip = net my n + j ∧ addLastOctet (net my n) j = net my n + j := by
  intro ip hip
  obtain ⟨j, h1, h2, h3, _⟩ := (initUsers_spec my n h8 h30 hmy).2.1 ip hip
  exact ⟨j, h1, by omega, h3, (no_carry_offsets my n h8 h30 j (by omega)).2⟩

-- the distinction is real: outside the pool's offsets the C addition does wrap
-- (10.0.0.250 "+ 0.0.0.10" = 10.0.0.4, not 10.0.1.4)
example : addLastOctet 167772410 10 = 167772164 ∧ 167772410 + 10 = 167772420 := by decide +kernel
-- a pool that sits at the very top of the last octet: 192.168.255.253/30 -> [192.168.255.254]
example : initUsers 3232301053 30 = [3232301054] := by decide +kernel
-- 10.1.2.200/25, host part inside the last octet, network address 10.1.2.128
example : initUsers 167838408 25 = (List.range 16).map (· + 167838337) := by decide +kernel

/-- every assigned address lies in the server's subnet (and is a 32-bit address) -/
theorem pool_in_subnet (my n : Nat) (h8 : 8 ≤ n) (h30 : n ≤ 30) (hmy : my < 2 ^ 32) :
    ∀ ip ∈ initUsers my n, net ip n = net my n ∧ ip < 2 ^ 32 := by
  intro ip hip
  obtain ⟨j, h1, h2, h3, _⟩ := (initUsers_spec my n h8 h30 hmy).2.1 ip hip
  have := subnet_arith my (2 ^ (32 - n)) j Gen.USERS (subnetSize_pow n h8 h30) hmy h1 h2
  subst h3
  exact ⟨this.1, this.2.1⟩

/-- no assigned address is the server's own, the network or the broadcast address -/
theorem pool_excludes (my n : Nat) (h8 : 8 ≤ n) (h30 : n ≤ 30) (hmy : my < 2 ^ 32) :
    ∀ ip ∈ initUsers my n, ip ≠ my ∧ ip ≠ net my n ∧ ip ≠ bcast my n := by
  intro ip hip
  obtain ⟨j, h1, h2, h3, h4⟩ := (initUsers_spec my n h8 h30 hmy).2.1 ip hip
  have := subnet_arith my (2 ^ (32 - n)) j Gen.USERS (subnetSize_pow n h8 h30) hmy h1 h2
  refine ⟨h4, ?_, ?_⟩
  · rw [h3]; exact this.2.2.1
  · rw [h3]; exact this.2.2.2

/-- the assigned addresses are strictly increasing in slot order -/
theorem pool_sorted (my n : Nat) (h8 : 8 ≤ n) (h30 : n ≤ 30) (hmy : my < 2 ^ 32) :
    (initUsers my n).Pairwise (· < ·) :=
  (initUsers_spec my n h8 h30 hmy).2.2

/-- the assigned addresses are pairwise distinct -/
theorem pool_distinct (my n : Nat) (h8 : 8 ≤ n) (h30 : n ≤ 30) (hmy : my < 2 ^ 32) :
    (initUsers my n).Nodup :=
  List.nodup_iff_pairwise_ne.2
    ((pool_sorted my n h8 h30 hmy).imp (fun h => Nat.ne_of_lt h))

-- 10.0.0.1/27 (the default netmask): 10.0.0.2 .. 10.0.0.17
example : initUsers 167772161 27 = (List.range 16).map (· + 167772162) := by decide +kernel
-- server in the middle of the pool (10.0.0.8/27): 10.0.0.1..7, 10.0.0.9..17 — the skip branch
example : initUsers 167772168 27 =
    [167772161, 167772162, 167772163, 167772164, 167772165, 167772166, 167772167,
     167772169, 167772170, 167772171, 167772172, 167772173, 167772174, 167772175,
     167772176, 167772177] := by decide +kernel
-- server just behind the pool (10.0.0.17/27): skip on the last iteration never happens,
-- 10.0.0.1 .. 10.0.0.16
example : initUsers 167772177 27 = (List.range 16).map (· + 167772161) := by decide +kernel
-- /30: one user; server .1 -> user .2, server .2 -> user .1
example : initUsers 167772161 30 = [167772162] ∧ initUsers 167772162 30 = [167772161] := by
  decide +kernel
-- /29 with the server on the last usable address 10.0.0.6: users .1 .. .5
example : initUsers 167772166 29 = [167772161, 167772162, 167772163, 167772164, 167772165] := by
  decide +kernel
-- /8 and /16
example : initUsers 167772161 8 = (List.range 16).map (· + 167772162) ∧
    initUsers 2886729729 16 = (List.range 16).map (· + 2886729730) := by decide +kernel

/-! ### Lookup by tunnel address -/

/-- `find_user_by_ip` returns `u` iff slot `u` is the first live logged-in session owning `ip` -/
theorem lookup_exact (slots : List Slot) (now ip u : Nat) :
    findUserByIp slots now ip = some u ↔
      ∃ h : u < slots.length, Owns slots[u] now ip ∧
        ∀ j (hj : j < u), ¬ Owns slots[j] now ip := by
  unfold findUserByIp
  rw [findUserByIpFrom_some]
  simp only [Owns, LiveLoggedIn, and_assoc]
  constructor
  · rintro ⟨k, hk, hlt, hp, hmin⟩
    obtain rfl : u = k := by omega
    exact ⟨hlt, hp, hmin⟩
  · rintro ⟨hlt, hp, hmin⟩
    exact ⟨u, by omega, hlt, hp, hmin⟩

/-- with pairwise distinct tunnel addresses (as `init_users` guarantees, `pool_distinct`) the
lookup finds exactly the live logged-in owner of the address -/
theorem lookup_unique_owner (slots : List Slot) (now ip u : Nat)
    (hd : (slots.map (·.tunIp)).Nodup) :
    findUserByIp slots now ip = some u ↔ ∃ h : u < slots.length, Owns slots[u] now ip := by
  rw [lookup_exact]
  constructor
  · rintro ⟨h, ho, _⟩; exact ⟨h, ho⟩
  · rintro ⟨h, ho⟩
    refine ⟨h, ho, ?_⟩
    intro j hj hoj
    have e : (slots.map (·.tunIp))[j]'(by simp; omega) = (slots.map (·.tunIp))[u]'(by simpa using h) := by
      simp only [List.getElem_map]; rw [hoj.2, ho.2]
    have := (List.getElem_inj hd).1 e
    omega

/-- the same for a slot table set up by `init_users` -/
theorem lookup_unique_owner_pool (my n : Nat) (h8 : 8 ≤ n) (h30 : n ≤ 30) (hmy : my < 2 ^ 32)
    (slots : List Slot) (hs : slots.map (·.tunIp) = initUsers my n) (now ip u : Nat) :
    findUserByIp slots now ip = some u ↔ ∃ h : u < slots.length, Owns slots[u] now ip :=
  lookup_unique_owner slots now ip u (hs ▸ pool_distinct my n h8 h30 hmy)

-- three slots on 10.0.0.2..4: slot 0 timed out, slot 1 live and logged in, slot 2 active but not
-- logged in.  10.0.0.3 is found in slot 1; the others are not found.
example :
    let slots : List Slot :=
      [⟨167772162, true, true, false, 100⟩, ⟨167772163, true, true, false, 150⟩,
       ⟨167772164, true, false, false, 190⟩]
    findUserByIp slots 200 167772163 = some 1 ∧ findUserByIp slots 200 167772162 = none ∧
    findUserByIp slots 200 167772164 = none ∧ findUserByIp slots 209 167772163 = some 1 ∧
    findUserByIp slots 210 167772163 = none := by decide +kernel

/-! ### Handing out a slot -/

/-- `find_available_user` returning `u` means: slot `u` was reusable (never used, or silent for
more than 60 s; not disabled), no earlier slot was, and the only change to the table is that
slot `u` is claimed (active, not authenticated, `last_pkt = now`; its tunnel address is kept). -/
theorem available_never_live (slots slots' : List Slot) (now u : Nat)
    (h : findAvailableUser slots now = (some u, slots')) :
    ∃ hu : u < slots.length, Reusable slots[u] now ∧
      (∀ j (hj : j < u), ¬ Reusable slots[j] now) ∧
      slots' = slots.set u (slots[u].claim now) := by
  obtain ⟨k, hk, hlt, hp, hmin, hset⟩ := findAvailableFrom_some now slots 0 u slots' h
  obtain rfl : u = k := by omega
  exact ⟨hlt, hp, hmin, hset⟩

/-- a session that was active within the last 60 s is never taken over -/
theorem active_recent_not_taken (slots slots' : List Slot) (now u : Nat) (hu : u < slots.length)
    (hact : slots[u].active = true) (hrecent : now ≤ slots[u].lastPkt + 60) :
    findAvailableUser slots now ≠ (some u, slots') := by
  intro h
  obtain ⟨_, hr, _, _⟩ := available_never_live slots slots' now u h
  unfold Reusable at hr
  rcases hr.1 with h0 | h1
  · rw [hact] at h0; cases h0
  · omega

/-- in particular the owner found by `find_user_by_ip` is never handed to someone else -/
theorem owner_not_taken (slots slots' : List Slot) (now ip u : Nat)
    (hl : findUserByIp slots now ip = some u) :
    findAvailableUser slots now ≠ (some u, slots') := by
  obtain ⟨hu, ho, _⟩ := (lookup_exact slots now ip u).1 hl
  exact active_recent_not_taken slots slots' now u hu ho.1.1 (by have := ho.1.2.2.2; omega)

-- slot 0 live, slot 1 disabled, slot 2 silent for 61 s: slot 2 is taken over and reset
example :
    findAvailableUser
      [⟨167772162, true, true, false, 190⟩, ⟨167772163, false, false, true, 0⟩,
       ⟨167772164, true, true, false, 139⟩, ⟨167772165, false, false, false, 0⟩] 200 =
    (some 2,
      [⟨167772162, true, true, false, 190⟩, ⟨167772163, false, false, true, 0⟩,
       ⟨167772164, true, false, false, 200⟩, ⟨167772165, false, false, false, 0⟩]) := by
  decide +kernel
-- exactly 60 s of silence: not yet reusable (and, by `lookup_exact`, no longer found either)
example :
    (findAvailableUser [⟨167772162, true, true, false, 140⟩] 200).1 = none ∧
    findUserByIp [⟨167772162, true, true, false, 140⟩] 200 167772162 = none := by
  decide +kernel

end Iodine.C18
