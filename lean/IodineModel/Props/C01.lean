import IodineModel.Lemmas.C01a
import IodineModel.Lemmas.C01b
import IodineModel.Lemmas.C01f
import IodineModel.Lemmas.C01g
import IodineModel.Lemmas.C01i
import IodineModel.Lemmas.C01j
/-
C01 — The tunnel never delivers a packet that was not sent (end-to-end integrity).

Every IP packet that the client or the server writes to its tun device is byte-identical to a packet that was earlier
read from the tun device of its peer (or of another logged-in client, for client-to-client forwarding).  The tunnel may
drop or repeat packets but never fabricates, truncates, merges, mis-reassembles or corrupts one.

The property is proved in layers over the models `IodineModel/Client/*` and `IodineModel/Server/*`; the one part that
cannot be proved — that zlib rejects a buffer that is not a complete image — is the explicit hypothesis `Z_integrity`.
This file holds the specification vocabulary (written from the protocol: header bit layouts, "recent" ids and seqnos,
what a duplicate is), the property theorems, each followed by a non-vacuity example on a concrete run, and the bridges
to the helper files `IodineModel/Lemmas/C01{a..j}.lean` (namespace `C01L`).

(A) exact reassembly of honest traffic
  * `client_reassembly_exact_partial`, `client_reassembly_exact` — `tunnel_dns` from ANY client state that has not seen
    the downstream seqno recently: the fragments in order, interleaved with arbitrary duplicates, header-only answers,
    stale answers, unknown ids, 1-byte answers, BADIP, foreign names: the bytes handed to `uncompress` are exactly the
    image, at the last fragment, and nothing else is written to tun.  "Exactly ONE" fails for a ONE-fragment image:
    every later copy of its only fragment is delivered again (kind `again`; concrete run below) — a repeat, which C01
    allows; for images of two or more fragments, or without such copies, exactly one.
  * `server_reassembly_exact`, `server_handoff_unchanged` — runs of `iteration` from ANY server state: data queries
    carrying the fragments in order (new to the server, accepted for the established session, names decoding to the
    fragments under the session's codec), interleaved with duplicates, pings and the traffic of other sessions:
    `handle_full_packet` is called with `inpacket.data[0..len) = img` at the last fragment; the packet is written to tun
    (frame of `uncompress img`) or the same bytes `img` are handed to the client owning the destination address.
  * `hop_lossless_up` — `send_chunk` → name → server: legal name (C08), the three header characters round-trip all
    values of (seqno, fragment, last, ack seqno, ack fragment), and `unpack_data` yields `outpkt.data[offset..offset+sentlen)`.
(B) the hostile network (ANY inputs)
  * `delivered_is_concat_of_received_fragments_client` — all `cstep` runs: every frame written is `uncompress` of the
    payloads of a chain of received answers, one seqno, fragment numbers rising by exactly 1, in arrival order (or of
    one raw datagram).
  * `delivered_is_concat_of_received_fragments_server_partial` — all runs from start-up: the same with STRICTLY RISING
    fragment numbers: the server accepts gaps (`server_accepts_fragment_gap`), so "consecutive" is false for it.
  * `delivered_is_sent_modulo_Z_client/_server` — under `Z_integrity` every frame written is the delivery of an offered image.
(C) `more_than_16_fragments_never_completes_client/_server` — a chain has at most 16 elements; an image longer than 16
    maximal payloads is never what is decompressed.

Findings (each with a concrete run below): one-fragment packets are re-delivered by duplicates; a 5-byte data answer
spelling BADIP is dropped; a header-only answer announcing a new seqno with fragment ≠ 0 ahead of fragment 0 loses the
packet; the client starts a packet at whatever fragment it sees first; the server accepts fragment gaps; both cut the
buffer at 64 KiB silently (`joined`/`sjoined` take 65536); `send_raw` cuts a forwarded image at 4092 bytes
(`deliverToUser` → `sendRaw`).  All of these end in "dropped" only because the real zlib rejects the buffer.
-/
namespace Iodine.C01
open Iodine

/-! ## Specification vocabulary, client side -/
section ClientSide
open Iodine.Client

/-- the frames written to the tun device among a list of client events -/
def tunWrites : List CEvent → List (List Nat)
  | [] => []
  | .tunw f :: es => f :: tunWrites es
  | _ :: es => tunWrites es

/-- `tunnel_dns` run over a list of answers (what `read_dns_withq` made of the datagrams): the events of every call -/
def runDns : Cli → List Rq → List (List CEvent)
  | _, [] => []
  | c, rq :: rest => (tunnelDns c rq).2.1 :: runDns (tunnelDns c rq).1 rest

/-- What the tun device must receive for the compressed image `img`: nothing if it does not decompress, otherwise the
decompressed packet with the 4-byte tun header rewritten to 00 00 08 00 (`write_tun` on Linux).  The only thing this
says about `uncompress` is that it is applied to exactly `img`. -/
def delivery (img : List Nat) : List (List Nat) :=
  match uncompress img 65536 with
  | some out => [([0, 0, 8, 0] ++ out.drop 4).take out.length]
  | none => []

/-- An image cut into fragments for downstream (or upstream) seqno `s`: 1..16 non-empty fragments, at most 64 KiB. -/
structure Cut (s : Nat) (fs : List (List Nat)) : Prop where
  seq : s < 8
  ne : fs ≠ []
  le16 : fs.length ≤ 16
  frag_ne : ∀ f ∈ fs, f ≠ []
  size : fs.flatten.length ≤ 65536

/-- second byte of the downstream data header: `sss ffff l` -/
def downHdr (s i : Nat) (last : Bool) : Nat := s * 32 + i * 2 + (if last then 1 else 0)

/-- the answer `rq` carries fragment `i` of the image: two header bytes (the first, the upstream ack, is arbitrary) and
the payload; `read_dns_withq` returned its length -/
def CarriesFrag (s : Nat) (fs : List (List Nat)) (i : Nat) (rq : Rq) : Prop :=
  i < fs.length ∧ rq.buf = rq.buf.getD 0 0 :: downHdr s i (i + 1 = fs.length) :: fs.getD i [] ∧
    rq.rv = (rq.buf.length : Int)

instance (s : Nat) (fs : List (List Nat)) (i : Nat) (rq : Rq) : Decidable (CarriesFrag s fs i rq) := by
  unfold CarriesFrag; infer_instance

/-- the downstream seqno in the header of an answer -/
def seqOf (rq : Rq) : Nat := rq.buf.getD 1 0 / 32 % 8

def BADIP : List Nat := [66, 65, 68, 73, 80]

/-- the answer gets past the filters at the head of `tunnel_dns`: it answers one of our last three queries, the query
name starts with `P`, `p` or one of our user-id characters, there are at least the two header bytes, and it is not the
5-byte message BADIP -/
def Ours (c : Cli) (rq : Rq) : Prop :=
  (rq.name0 = 80 ∨ rq.name0 = 112 ∨ rq.name0 = c.useridChar ∨ rq.name0 = c.useridChar2) ∧
  (rq.id = c.chunkid ∨ rq.id = c.chunkidPrev ∨ rq.id = c.chunkidPrev2) ∧
  2 ≤ rq.rv ∧ ¬ (rq.rv = 5 ∧ rq.buf.take 5 = BADIP)

instance (c : Cli) (rq : Rq) : Decidable (Ours c rq) := by unfold Ours; infer_instance

/-- what an answer in the interleaved list is -/
inductive Kind where
  /-- the next fragment of the image, first copy -/
  | next
  /-- another copy of fragment `j`, which was already fed -/
  | dup (j : Nat)
  /-- a copy of the only fragment of a one-fragment image, after it was delivered -/
  | again
  /-- a header without data for seqno `s` -/
  | dataless
  /-- anything whose downstream seqno is one of the three before the client's current one -/
  | stale
  /-- anything the filters drop: unknown id, 1-byte `x` answer or error, BADIP, a name that is not ours -/
  | filtered
deriving DecidableEq, Repr

/-- the number of fragments fed after an answer of this kind -/
def Kind.adv : Kind → Nat → Nat
  | .next, k => k + 1
  | _, k => k

/-- `Legal s fs c k l`: from client state `c`, with `k` fragments of the image already fed, `l` feeds further fragments
in order, each as an answer that gets past the filters in the state it meets, interleaved with duplicates and junk.
(The state is threaded through because "recent id" is relative to the queries the client has sent by then.) -/
def Legal (s : Nat) (fs : List (List Nat)) : Cli → Nat → List (Kind × Rq) → Prop
  | _, _, [] => True
  | c, k, (kind, rq) :: rest =>
    (match kind with
      | .next => k < fs.length ∧ CarriesFrag s fs k rq ∧ Ours c rq
      | .dup j => j < k ∧ CarriesFrag s fs j rq ∧ (k < fs.length ∨ 2 ≤ fs.length)
      | .again => k = 1 ∧ fs.length = 1 ∧ CarriesFrag s fs 0 rq ∧ Ours c rq
      | .dataless => 1 ≤ k ∧ rq.rv = 2 ∧ seqOf rq = s
      | .stale => (seqOf rq : Int) ≠ c.inpkt.seqno ∧ recentSeqno c.inpkt.seqno (seqOf rq) = true
      | .filtered => ¬ Ours c rq) ∧
    Legal s fs (tunnelDns c rq).1 (kind.adv k) rest

instance decLegal (s : Nat) (fs : List (List Nat)) :
    (c : Cli) → (k : Nat) → (l : List (Kind × Rq)) → Decidable (Legal s fs c k l)
  | _, _, [] => isTrue trivial
  | c, k, (kind, rq) :: rest => by
    have := decLegal s fs (tunnelDns c rq).1 (kind.adv k) rest
    unfold Legal
    cases kind <;> exact inferInstance

/-- what an answer of this kind must make the client write to tun -/
def expect1 (fs : List (List Nat)) (k : Nat) : Kind → List (List Nat)
  | .next => if k + 1 = fs.length then delivery fs.flatten else []
  | .again => delivery fs.flatten
  | _ => []

/-- what must be written to tun, answer by answer -/
def expected (fs : List (List Nat)) : Nat → List (Kind × Rq) → List (List (List Nat))
  | _, [] => []
  | k, x :: rest => expect1 fs k x.1 :: expected fs (x.1.adv k) rest

/-- the client has not seen seqno `s` recently: it is neither its current downstream seqno nor one of the three before -/
def Unseen (c : Cli) (s : Nat) : Prop := c.inpkt.seqno ≠ (s : Int) ∧ recentSeqno c.inpkt.seqno (s : Int) = false

instance (c : Cli) (s : Nat) : Decidable (Unseen c s) := by unfold Unseen; infer_instance

/-! ### bridges to the helper files -/

theorem tunWrites_eq (evs : List CEvent) : tunWrites evs = C01L.tunws evs := by
  induction evs with
  | nil => rfl
  | cons e es ih => cases e <;> simp [tunWrites, C01L.tunws, ih]

theorem cut_iff {s : Nat} {fs : List (List Nat)} : Cut s fs ↔ C01L.Cut s fs :=
  ⟨fun h => ⟨h.seq, h.ne, h.le16, h.frag_ne, h.size⟩, fun h => ⟨h.seq, h.ne, h.le16, h.frag_ne, h.size⟩⟩

theorem carries_iff {s : Nat} {fs : List (List Nat)} {i : Nat} {rq : Rq} :
    CarriesFrag s fs i rq ↔ C01L.IsFragRq s fs i rq :=
  ⟨fun h => ⟨h.1, _, h.2.1, h.2.2⟩, fun ⟨h1, b0, h2, h3⟩ => ⟨h1, by rw [h2]; rfl, h3⟩⟩

theorem ours_iff (c : Cli) (rq : Rq) : Ours c rq ↔ C01L.accepted c rq = true := by
  unfold Ours C01L.accepted notData recentId BADIP
  have ha : ascii "BADIP" = [66, 65, 68, 73, 80] := by decide
  rw [ha]
  simp only [Bool.and_eq_true, Bool.not_eq_true', bne_eq_false_iff_eq, decide_eq_false_iff_not, Bool.or_eq_true,
    beq_iff_eq, Bool.and_eq_false_iff]
  constructor
  · rintro ⟨h1, h2, h3, h4⟩
    refine ⟨⟨⟨?_, by omega⟩, h4⟩, ?_⟩
    · rcases h1 with h | h | h | h
      · exact Or.inl (Or.inl (Or.inl h))
      · exact Or.inl (Or.inl (Or.inr h))
      · exact Or.inl (Or.inr h)
      · exact Or.inr h
    · rcases h2 with h | h | h
      · exact Or.inl (Or.inl h)
      · exact Or.inl (Or.inr h)
      · exact Or.inr h
  · rintro ⟨⟨⟨h1, h3⟩, h4⟩, h2⟩
    refine ⟨?_, ?_, by omega, h4⟩
    · rcases h1 with ((h | h) | h) | h
      · exact Or.inl h
      · exact Or.inr (Or.inl h)
      · exact Or.inr (Or.inr (Or.inl h))
      · exact Or.inr (Or.inr (Or.inr h))
    · rcases h2 with (h | h) | h
      · exact Or.inl h
      · exact Or.inr (Or.inl h)
      · exact Or.inr (Or.inr h)

theorem delivery_eq (b : List Nat) : delivery b = C01L.tunws (C01L.frames b) := by
  unfold delivery C01L.frames
  cases uncompress b 65536 <;> rfl

theorem seqOf_eq (rq : Rq) : ((seqOf rq : Nat) : Int) = (decodeHdr rq.buf).dnSeq := rfl


/-! ## (A) client side: the reassembler hands exactly the sent image to decompression -/

theorem legal_run {s : Nat} {fs : List (List Nat)} (hc : Cut s fs) :
    ∀ (l : List (Kind × Rq)) (c : Cli) (k : Nat), k ≤ fs.length → C01L.RxInv s fs k c.inpkt → Legal s fs c k l →
      (runDns c (l.map (·.2))).map tunWrites = expected fs k l := by
  have hc' := cut_iff.mp hc
  intro l
  induction l with
  | nil => intro c k _ _ _; rfl
  | cons x rest ih =>
    intro c k hk hinv hl
    obtain ⟨kind, rq⟩ := x
    obtain ⟨hkind, hrest⟩ := hl
    obtain ⟨hp, he⟩ := C01L.tunnelDns_rx c rq
    simp only [List.map_cons, runDns, expected]
    rw [tunWrites_eq, he]
    -- it is enough to know what the reassembly machine does with this answer
    suffices h : C01L.tunws (C01L.rxStep c.inpkt (C01L.accepted c rq) rq).2 = expect1 fs k kind ∧
        kind.adv k ≤ fs.length ∧ C01L.RxInv s fs (kind.adv k) (C01L.rxStep c.inpkt (C01L.accepted c rq) rq).1 by
      rw [h.1, ih _ _ h.2.1 (by rw [hp]; exact h.2.2) hrest]
    cases kind with
    | next =>
      obtain ⟨hlt, hcar, hours⟩ := hkind
      rw [(ours_iff c rq).mp hours]
      obtain ⟨h1, h2⟩ := C01L.rxStep_next hc' hlt hinv (carries_iff.mp hcar)
      refine ⟨?_, hlt, h2⟩
      rw [h1]; unfold expect1
      split
      · exact (delivery_eq _).symm
      · rfl
    | dup j =>
      obtain ⟨hj, hcar, h2⟩ := hkind
      refine ⟨?_, hk, ?_⟩ <;> cases hacc : C01L.accepted c rq
      · rfl
      · rw [C01L.rxStep_dup hc' hk hj h2 hinv (carries_iff.mp hcar)]; rfl
      · exact hinv
      · rw [C01L.rxStep_dup hc' hk hj h2 hinv (carries_iff.mp hcar)]; exact hinv
    | again =>
      obtain ⟨hk1, hl1, hcar, hours⟩ := hkind
      subst hk1
      rw [(ours_iff c rq).mp hours]
      obtain ⟨h1, h2⟩ := C01L.rxStep_single_again hc' hl1 hinv (carries_iff.mp hcar)
      exact ⟨by rw [h1]; exact (delivery_eq _).symm, hk, h2⟩
    | dataless =>
      obtain ⟨hk1, hrv, hseq⟩ := hkind
      have hsq : (decodeHdr rq.buf).dnSeq = c.inpkt.seqno := by
        unfold C01L.RxInv at hinv
        rw [if_neg (by omega)] at hinv
        rw [hinv.1, ← hseq]; rfl
      refine ⟨?_, hk, ?_⟩ <;> cases hacc : C01L.accepted c rq
      · rfl
      · rw [C01L.rxStep_dataless _ _ hsq (by omega)]; rfl
      · exact hinv
      · rw [C01L.rxStep_dataless _ _ hsq (by omega)]; exact hinv
    | stale =>
      obtain ⟨h1, h2⟩ := hkind
      refine ⟨?_, hk, ?_⟩ <;> cases hacc : C01L.accepted c rq
      · rfl
      · rw [C01L.rxStep_stale _ _ h1 h2]; rfl
      · exact hinv
      · rw [C01L.rxStep_stale _ _ h1 h2]; exact hinv
    | filtered =>
      have hacc : C01L.accepted c rq = false := by
        cases h : C01L.accepted c rq
        · rfl
        · exact absurd ((ours_iff c rq).mpr h) hkind
      rw [hacc]
      exact ⟨rfl, hk, hinv⟩

/-- **client_reassembly_exact** (general form; the name carries `_partial` because "exactly ONE `tunw`" is false for a
one-fragment image: every further copy of its only fragment is delivered again — kind `again`, see
`client_single_fragment_redelivered` below for the concrete run).

From ANY client state that has not seen downstream seqno `s` recently, feeding the fragments of the image in order —
each as an answer to one of the last three queries — interleaved with arbitrarily many duplicates of fragments already
fed, header-only answers for `s`, stale answers, answers with unknown ids, 1-byte answers, BADIP and foreign names,
makes `tunnel_dns` write to the tun device exactly: `delivery img` (the frame made from `uncompress img`, i.e. the
bytes handed to `uncompress` are exactly `img`) when the last fragment is processed, the same again for each later
copy of the only fragment of a one-fragment image, and nothing at any other answer. -/
theorem client_reassembly_exact_partial {s : Nat} {fs : List (List Nat)} (hc : Cut s fs) (c : Cli)
    (l : List (Kind × Rq)) (h0 : Unseen c s) (hl : Legal s fs c 0 l) :
    (runDns c (l.map (·.2))).map tunWrites = expected fs 0 l := by
  apply legal_run hc l c 0 (Nat.zero_le _) _ hl
  unfold C01L.RxInv
  rw [if_pos rfl]
  exact h0


/-- number of first copies of fragments in the list -/
def nexts (l : List (Kind × Rq)) : Nat := (l.filter fun x => x.1 = .next).length

theorem expected_flatten (fs : List (List Nat)) :
    ∀ (l : List (Kind × Rq)) (k : Nat), (∀ x ∈ l, x.1 ≠ .again) → k + nexts l = fs.length →
      (expected fs k l).flatten = if k < fs.length then delivery fs.flatten else [] := by
  intro l
  induction l with
  | nil =>
    intro k _ h
    simp only [nexts, List.filter_nil, List.length_nil, Nat.add_zero] at h
    simp [expected, h]
  | cons x rest ih =>
    intro k hno h
    obtain ⟨kind, rq⟩ := x
    have hno' : ∀ x ∈ rest, x.1 ≠ .again := fun x hx => hno x (List.mem_cons_of_mem _ hx)
    have hk := hno (kind, rq) (List.mem_cons_self ..)
    simp only [expected, List.flatten_cons]
    cases kind with
    | next =>
      have h' : (k + 1) + nexts rest = fs.length := by
        simp only [nexts, List.filter_cons, decide_true, if_true, List.length_cons] at h
        unfold nexts; omega
      simp only [expect1, Kind.adv]
      rw [ih (k + 1) hno' h']
      by_cases he : k + 1 = fs.length
      · rw [if_pos he, if_neg (by omega), if_pos (by omega), List.append_nil]
      · rw [if_neg he, if_pos (by omega), if_pos (by omega), List.nil_append]
    | again => exact absurd rfl hk
    | dup j =>
      have h' : k + nexts rest = fs.length := by
        simpa [nexts, List.filter_cons] using h
      simpa [expect1, Kind.adv] using ih k hno' h'
    | dataless =>
      have h' : k + nexts rest = fs.length := by
        simpa [nexts, List.filter_cons] using h
      simpa [expect1, Kind.adv] using ih k hno' h'
    | stale =>
      have h' : k + nexts rest = fs.length := by
        simpa [nexts, List.filter_cons] using h
      simpa [expect1, Kind.adv] using ih k hno' h'
    | filtered =>
      have h' : k + nexts rest = fs.length := by
        simpa [nexts, List.filter_cons] using h
      simpa [expect1, Kind.adv] using ih k hno' h'

/-- **client_reassembly_exact**: when every fragment is fed and no copy of the only fragment of a one-fragment image
follows its delivery (always the case for images of at least two fragments), the whole run writes to tun exactly once:
the frame of `uncompress img` — and by `client_reassembly_exact_partial` it does so when the last fragment is
processed. -/
theorem client_reassembly_exact {s : Nat} {fs : List (List Nat)} (hc : Cut s fs) (c : Cli)
    (l : List (Kind × Rq)) (h0 : Unseen c s) (hl : Legal s fs c 0 l)
    (hno : ∀ x ∈ l, x.1 ≠ .again) (hall : nexts l = fs.length) :
    ((runDns c (l.map (·.2))).map tunWrites).flatten = delivery fs.flatten := by
  rw [client_reassembly_exact_partial hc c l h0 hl, expected_flatten fs l 0 hno (by omega),
    if_pos (Nat.pos_of_ne_zero (fun h => hc.ne (List.length_eq_zero_iff.mp h)))]

/-- in a legal feeding of an image of at least two fragments no answer is of kind `again` -/
theorem no_again_of_two {s : Nat} {fs : List (List Nat)} (h2 : 2 ≤ fs.length) :
    ∀ (l : List (Kind × Rq)) (c : Cli) (k : Nat), Legal s fs c k l → ∀ x ∈ l, x.1 ≠ .again := by
  intro l
  induction l with
  | nil => intro c k _ x hx; cases hx
  | cons y rest ih =>
    intro c k hl x hx
    obtain ⟨kind, rq⟩ := y
    obtain ⟨hkind, hrest⟩ := hl
    rcases List.mem_cons.mp hx with rfl | hx
    · intro hk
      simp only at hk
      subst hk
      have := hkind.2.1
      omega
    · exact ih _ _ hrest x hx


/-! ### the concrete client runs used by the examples -/
namespace Ex

/-- a client in the tunnel phase: user 3, topdomain `t.ex`, NULL queries, immediate mode, downstream seqno 0 -/
def c0 : Cli :=
  { clientInit { Cli.boot with topdomain := [116, 46, 101, 120], doQtype := 10, userid := 3, useridChar := 51,
                               useridChar2 := 51, selecttimeout := 4 } 7 1000 with sendcnt := 0 }

/-- an answer to the query the client sent last, to a data query name (`3…`) -/
def ans (c : Cli) (buf : List Nat) : Rq := ⟨buf.length, c.chunkid, 10, 0, 51, buf⟩

/-- the list of answers along a run: every answer answers the client's latest query -/
def feed : Cli → List (Kind × List Nat) → List (Kind × Rq)
  | _, [] => []
  | c, (k, buf) :: rest => (k, ans c buf) :: feed (tunnelDns c (ans c buf)).1 rest

/-- the compressed image of the 8-byte "packet" 00 00 08 00 45 01 02 03, cut into three fragments -/
def fs : List (List Nat) := [[0x5a, 0, 0], [8, 0, 69], [1, 2, 3]]

/-- the three fragments of downstream packet 1 in order, with duplicates, a 1-byte answer, a header-only answer and a
stale answer (seqno 0) in between and a duplicate of the last fragment at the end -/
def l : List (Kind × Rq) := feed c0
  [(.next, [0, downHdr 1 0 false, 0x5a, 0, 0]),
   (.dup 0, [0, downHdr 1 0 false, 0x5a, 0, 0]),
   (.filtered, [120]),
   (.next, [0, downHdr 1 1 false, 8, 0, 69]),
   (.dataless, [0, downHdr 1 1 false]),
   (.stale, [0, downHdr 0 0 true, 9, 9]),
   (.dup 0, [0, downHdr 1 0 false, 0x5a, 0, 0]),
   (.next, [0, downHdr 1 2 true, 1, 2, 3]),
   (.dup 2, [0, downHdr 1 2 true, 1, 2, 3])]

/-- a one-fragment image, fed twice -/
def l1 : List (Kind × Rq) := feed c0
  [(.next, [0, downHdr 1 0 true, 0x5a, 0, 0, 8, 0, 69]), (.again, [0, downHdr 1 0 true, 0x5a, 0, 0, 8, 0, 69])]

end Ex

/-- non-vacuity of `client_reassembly_exact(_partial)`: the hypotheses hold for the run `Ex.l`, and the one frame is
written when the third fragment is processed -/
example : Cut 1 Ex.fs ∧ Unseen Ex.c0 1 ∧ Legal 1 Ex.fs Ex.c0 0 Ex.l ∧ (∀ x ∈ Ex.l, x.1 ≠ .again) ∧
    nexts Ex.l = Ex.fs.length ∧
    (runDns Ex.c0 (Ex.l.map (·.2))).map tunWrites = [[], [], [], [], [], [], [], [[0, 0, 8, 0, 69, 1, 2, 3]], []] := by
  refine ⟨⟨by decide, by decide, by decide, by decide, by decide⟩, by decide, ?_, ?_, ?_, ?_⟩ <;> decide +kernel

/-- **Finding (`client_single_fragment_redelivered`)**: "exactly ONE `tunw`" is false for a packet that fits into one
fragment.  After its delivery `inpkt.fragment = 0 ∧ inpkt.len = 0`, which is the "weird situation" test of
`tunnel_dns`; a duplicate of the fragment (a relay repeating the answer, or the server re-sending it because the ack was
lost) is taken as new data and the packet is written to tun a second time.  (A repeat, not a fabrication: C01 allows
it.) -/
example : Cut 1 [[0x5a, 0, 0, 8, 0, 69]] ∧ Legal 1 [[0x5a, 0, 0, 8, 0, 69]] Ex.c0 0 Ex.l1 ∧
    (runDns Ex.c0 (Ex.l1.map (·.2))).map tunWrites = [[[0, 0, 8, 0, 69]], [[0, 0, 8, 0, 69]]] := by
  refine ⟨⟨by decide, by decide, by decide, by decide, by decide⟩, ?_, ?_⟩ <;> decide +kernel

/-- **Finding (in-band BADIP)**: a data answer whose five bytes spell `BADIP` — header bytes 0x42 0x41 (upstream ack
4/2, downstream seqno 2, fragment 0, last) and the 3-byte payload `DIP` — is taken for the server's BADIP message and
dropped; this is why `Ours` excludes it.  (No zlib stream is 3 bytes long, so this cannot hit a real image.) -/
example : CarriesFrag 2 [[68, 73, 80]] 0 (Ex.ans Ex.c0 [66, 65, 68, 73, 80]) ∧ ¬ Ours Ex.c0 (Ex.ans Ex.c0 [66, 65, 68, 73, 80]) ∧
    tunnelDns Ex.c0 (Ex.ans Ex.c0 [66, 65, 68, 73, 80]) = (Ex.c0, [], .ret (-1)) := by
  refine ⟨by decide, by decide, by decide +kernel⟩

/-- **Finding (header-only answer first)**: why `dataless` needs `1 ≤ k`.  A header-only answer that announces the new
seqno with a fragment number other than 0 (the server sends such headers once a packet is completely acknowledged or
given up) and overtakes fragment 0 makes the client adopt that fragment number; the fragments that follow are then all
"duplicates" and the packet is lost (dropped, not corrupted). -/
example :
    (runDns Ex.c0 ((Ex.feed Ex.c0 [(.dataless, [0, downHdr 1 2 false]), (.next, [0, downHdr 1 0 false, 0x5a, 0, 0]),
        (.next, [0, downHdr 1 1 false, 8, 0, 69]), (.next, [0, downHdr 1 2 true, 1, 2, 3])]).map (·.2))).map tunWrites
      = [[], [], [], []] := by decide +kernel


end ClientSide

/-! ## Specification vocabulary, server side -/
section ServerSide
open Iodine.Server Iodine.Gen

/-- the frames written to the tun device among a list of server events -/
def srvTunWrites : List Event → List (List Nat)
  | [] => []
  | .tunw f :: es => f :: srvTunWrites es
  | _ :: es => srvTunWrites es

/-- the state in which the handlers of an iteration run: top of the loop done, `select` returned at `now'` -/
def handlerState (s : Srv) (now' : Nat) : Srv := { (topOfLoop s).1 with now := now' }

/-- the data part of a query name: what is in front of the topdomain (at most 512 characters) -/
def dataPart (e : Srv) (q : Query) : List Nat := q.name.take (min (C16.dlen e.cfg.topdomain q) 512)

/-- value of a Base32 digit -/
def digit32 (c : Nat) : Nat := Codec.b32.rev (c % 256)

/-- the upstream half of the data header, characters 1..3 of the name: `sssff ffddd ddddl` -/
def upSeqOf (n : List Nat) : Nat := digit32 (n.getD 1 0) / 4 % 8
def upFragOf (n : List Nat) : Nat := digit32 (n.getD 1 0) % 4 * 4 + digit32 (n.getD 2 0) / 8 % 4
def lastOf (n : List Nat) : Bool := decide (digit32 (n.getD 3 0) % 2 = 1)

/-- what the name carries under upstream codec `enc`: everything behind the five header characters, dots removed,
decoded -/
def payloadOf (enc : Enc) (n : List Nat) : List Nat := Encoding.unpackData enc.codec 65536 (n.drop 5)

/-- `q` is a data query of the established session `u` that the server has not seen before: it gets past the source
check, and neither the answer cache nor the query memory knows it, nor is it a repeat of a held query (C16) -/
def NewData (e : Srv) (u : Nat) (q : Query) : Prop :=
  C16.Accepted e q u ∧ C16.IsData q.name ∧ dnscacheFind (getUser e u) q DNSCACHE_LEN 0 = none ∧
  ¬ C16.QmemHit e q u ∧ ¬ C16.PendingInQ e q u ∧ ¬ C16.PendingInQs e q u

instance (e : Srv) (u : Nat) (q : Query) : Decidable (NewData e u q) := by unfold NewData; infer_instance

/-- the query carries fragment `i` of the image for upstream seqno `s`: header `(s, i, last = (i = n))`, and the name
decodes to `fᵢ` under the session's codec (for a name built by the client this is C08 `hostname_ok`) -/
def SrvCarries (e : Srv) (u s : Nat) (fs : List (List Nat)) (i : Nat) (q : Query) : Prop :=
  i < fs.length ∧ upSeqOf (dataPart e q) = s ∧ upFragOf (dataPart e q) = i ∧
  lastOf (dataPart e q) = decide (i + 1 = fs.length) ∧
  payloadOf (getUser e u).encoder (dataPart e q) = fs.getD i []

instance (e : Srv) (u s : Nat) (fs : List (List Nat)) (i : Nat) (q : Query) : Decidable (SrvCarries e u s fs i q) := by
  unfold SrvCarries; infer_instance

/-- the sequence bookkeeping refuses the header: current seqno with a fragment number not above the current one (a
duplicate of an earlier fragment), or one of the three seqnos before the current one -/
def Refused (p : Packet) (n : List Nat) : Prop :=
  ((upSeqOf n : Int) = p.seqno ∧ (upFragOf n : Int) ≤ p.fragment) ∨
  ((upSeqOf n : Int) ≠ p.seqno ∧ recentSeqno p.seqno (upSeqOf n) = true)

instance (p : Packet) (n : List Nat) : Decidable (Refused p n) := by unfold Refused; infer_instance

/-- slot `u` cannot be handed out to a new client -/
def Live (e : Srv) (u : Nat) : Prop := (getUser e u).active = true ∧ e.now ≤ (getUser e u).lastPkt + 60

instance (e : Srv) (u : Nat) : Decidable (Live e u) := by unfold Live; infer_instance

/-- an input that has nothing to do with the upstream data of session `u`: timeouts, tun frames, forwarded answers,
raw frames of other users, and queries that are not data queries of `u` (a version handshake only while `u` is live) -/
def Foreign (e : Srv) (u : Nat) : Input → Prop
  | .q q => hexCode ((dataPart e q).getD 0 0) ≠ (u : Int) ∧
      (((dataPart e q).getD 0 0 = 86 ∨ (dataPart e q).getD 0 0 = 118) → Live e u)
  | .rawf _ bytes => (bytes.take 65536).getD 3 0 % 16 ≠ u
  | _ => True

instance (e : Srv) (u : Nat) (inp : Input) : Decidable (Foreign e u inp) := by
  cases inp <;> unfold Foreign <;> infer_instance

/-- what a step of the interleaved run is -/
inductive SKind where
  /-- the data query carrying the next fragment, new to the server -/
  | next
  /-- another query of session `u`: a ping, or a data query whose header is refused (duplicates of earlier fragments) -/
  | own
  /-- anything `Foreign`: other sessions, other inputs -/
  | other
deriving DecidableEq, Repr

def SKind.adv : SKind → Nat → Nat
  | .next, k => k + 1
  | _, k => k

/-- the condition on one step, in the state `e` its handlers run in -/
def SStepOk (u s : Nat) (fs : List (List Nat)) (e : Srv) (k : Nat) (kind : SKind) (inp : Input) : Prop :=
  match kind, inp with
  | .next, .q q => k < fs.length ∧ NewData e u q ∧ SrvCarries e u s fs k q
  | .own, .q q =>
      ((dataPart e q).getD 0 0 = 80 ∨ (dataPart e q).getD 0 0 = 112) ∨
      (hexCode ((dataPart e q).getD 0 0) = (u : Int) ∧ Refused (getUser e u).inpacket (dataPart e q))
  | .other, inp => Foreign e u inp
  | _, _ => False

instance (u s : Nat) (fs : List (List Nat)) (e : Srv) (k : Nat) (kind : SKind) (inp : Input) :
    Decidable (SStepOk u s fs e k kind inp) := by
  unfold SStepOk; cases kind <;> cases inp <;> infer_instance

/-- `SLegal u s fs sv k l`: from server state `sv`, with `k` fragments of the image already taken for session `u`, the
iterations `l` feed further fragments in order, interleaved with other traffic -/
def SLegal (u s : Nat) (fs : List (List Nat)) : Srv → Nat → List (SKind × Step) → Prop
  | _, _, [] => True
  | sv, k, (kind, st) :: rest =>
    SStepOk u s fs (handlerState sv st.now) k kind st.inp ∧ SLegal u s fs (next sv st) (kind.adv k) rest

instance decSLegal (u s : Nat) (fs : List (List Nat)) :
    (sv : Srv) → (k : Nat) → (l : List (SKind × Step)) → Decidable (SLegal u s fs sv k l)
  | _, _, [] => isTrue trivial
  | sv, k, (kind, st) :: rest => by
    have := decSLegal u s fs (next sv st) (kind.adv k) rest
    unfold SLegal
    exact inferInstance

/-- What `handle_full_packet` must write to tun for the compressed image `img`: the decompressed packet with the tun
header rewritten, if it decompresses to at least an IP header and its destination is not another client (then the
packet is handed to that client instead, see `server_handoff_unchanged`). -/
def srvDelivery (e : Srv) (img : List Nat) : List (List Nat) :=
  match Server.uncompress img 65536 with
  | some out =>
    if 24 ≤ out.length then (if (findUserByIp e (ipDst out)).isNone then [[0, 0, 8, 0] ++ out.drop 4] else [])
    else []
  | none => []

/-- what one step must write to tun: the `next` and `own` steps exactly the delivery of the image at the step of the last
fragment; the `other` steps (which may legitimately deliver packets of other sessions) are not constrained -/
def SStepOut (fs : List (List Nat)) (e : Srv) (k : Nat) (kind : SKind) (tw : List (List Nat)) : Prop :=
  match kind with
  | .next => tw = if k + 1 = fs.length then srvDelivery e fs.flatten else []
  | .own => tw = []
  | .other => True

/-- the conclusion, step by step -/
def SOutcome (u s : Nat) (fs : List (List Nat)) : Srv → Nat → List (SKind × Step) → Prop
  | _, _, [] => True
  | sv, k, (kind, st) :: rest =>
    SStepOut fs (handlerState sv st.now) k kind (srvTunWrites (out sv st)) ∧
    SOutcome u s fs (next sv st) (kind.adv k) rest

/-- What must happen to a completed upstream packet with compressed image `img` in server state `s`: dropped if it does
not decompress to at least an IP header; otherwise written to tun (frame of the DECOMPRESSED packet), or — when the
destination address belongs to a client `t` — the still compressed image `img` itself, unchanged, is handed to `t`
(`deliverToUser`: started as `t`'s outpacket, appended to `t`'s outpacket queue, or sent to `t` as a raw frame). -/
def handOn (s : Srv) (img : List Nat) : Res :=
  match Server.uncompress img 65536 with
  | some out =>
    if 24 ≤ out.length then
      match findUserByIp s (ipDst out) with
      | none => (s, [Event.tunw ([0, 0, 8, 0] ++ out.drop 4)])
      | some t => deliverToUser s t img img.length
    else (s, [])
  | none => (s, [])

/-- the handler phase `dispatch e inp ts` called `handle_full_packet(u)` once, in a state `s2` that differs from `e` only
in slot `u` and in which `u`'s buffer holds exactly `img`; what it emitted is the events of `handOn s2 img` followed by
events that write nothing to tun -/
def HandedOn (e : Srv) (u : Nat) (img : List Nat) (inp : Input) (ts : Bool) : Prop :=
  ∃ (s2 : Srv) (tail : Res), (∀ v, v ≠ u → getUser s2 v = getUser e v) ∧
    (∀ ip, findUserByIp s2 ip = findUserByIp e ip) ∧
    (getUser s2 u).inpacket.data.take (getUser s2 u).inpacket.len = img ∧
    dispatch e inp ts = (tail.1, (handOn s2 img).2 ++ tail.2) ∧ srvTunWrites tail.2 = []

/-- at the step of the last fragment the packet is handed on -/
def SHanded (u s : Nat) (fs : List (List Nat)) : Srv → Nat → List (SKind × Step) → Prop
  | _, _, [] => True
  | sv, k, (kind, st) :: rest =>
    (kind = .next → k + 1 = fs.length → HandedOn (handlerState sv st.now) u fs.flatten st.inp (topOfLoop sv).2.2) ∧
    SHanded u s fs (next sv st) (kind.adv k) rest

/-- session `u` has not seen upstream seqno `s` recently -/
def SrvUnseen (sv : Srv) (u s : Nat) : Prop :=
  (getUser sv u).inpacket.seqno ≠ (s : Int) ∧ recentSeqno (getUser sv u).inpacket.seqno (s : Int) = false

instance (sv : Srv) (u s : Nat) : Decidable (SrvUnseen sv u s) := by unfold SrvUnseen; infer_instance


/-! ### bridges to the helper files -/

theorem srvTunWrites_eq (evs : List Event) : srvTunWrites evs = C01L.stunws evs := by
  induction evs with
  | nil => rfl
  | cons e es ih => cases e <;> simp [srvTunWrites, C01L.stunws, ih]

theorem handlerState_eq (s : Srv) (now' : Nat) : handlerState s now' = C03L.entry s now' := rfl

theorem dataPart_eq (e : Srv) (q : Query) : dataPart e q = C01L.inbOfQ e q := rfl

theorem digit32_lt : ∀ c, c < 256 → Codec.b32.rev c < 32 := by decide +kernel

theorem upHdr_eq (n : List Nat) : C01L.upHdr n = (upSeqOf n, upFragOf n, lastOf n) := by
  have h1 : ∀ b : Nat, (b >>> 2) &&& 7 = b / 4 % 8 := by
    intro b
    rw [Nat.shiftRight_eq_div_pow, show (7 : Nat) = 2 ^ 3 - 1 from rfl, Nat.and_two_pow_sub_one_eq_mod]
  have h2 : ∀ b1, b1 < 32 → ∀ b2, b2 < 32 → ((b1 &&& 3) <<< 2 ||| (b2 >>> 3 &&& 3)) = b1 % 4 * 4 + b2 / 8 % 4 := by
    decide
  have h3 : ∀ b : Nat, decide ((b &&& 1) = 1) = decide (b % 2 = 1) := by
    intro b
    rw [show (1 : Nat) = 2 ^ 1 - 1 from rfl, Nat.and_two_pow_sub_one_eq_mod]
  unfold C01L.upHdr upSeqOf upFragOf lastOf digit32 b32_8to5
  rw [h1, h3, h2 _ (digit32_lt _ (Nat.mod_lt _ (by decide))) _ (digit32_lt _ (Nat.mod_lt _ (by decide)))]

theorem refused_iff (p : Packet) (n : List Nat) :
    Refused p n ↔ C01L.OldUp p (C01L.upHdr n).1 (C01L.upHdr n).2.1 := by
  rw [upHdr_eq]; exact Iff.rfl

theorem srvDelivery_eq (e : Srv) (img : List Nat) : srvDelivery e img = C01L.fullTun e img := by
  unfold srvDelivery C01L.fullTun
  cases Server.uncompress img 65536 with
  | none => rfl
  | some out =>
    dsimp only
    cases findUserByIp e (ipDst out) <;> rfl

theorem not_alloc_of_live {e : Srv} {u : Nat} (h : Live e u) : (findAvailableUser e).1 ≠ some u := by
  intro ha
  obtain ⟨_, hr, _⟩ := (C04L.findAvailableUser_some_iff e u).mp ha
  obtain ⟨h1, h2⟩ := h
  rcases hr.1 with h | h
  · rw [h1] at h; cases h
  · omega

/-! ## (A) server side: the reassembler hands exactly the sent image to `handle_full_packet` -/

theorem slegal_run {u s : Nat} {fs : List (List Nat)} (hc : Cut s fs) :
    ∀ (l : List (SKind × Step)) (sv : Srv) (k : Nat), k ≤ fs.length →
      C01L.SxInv s fs k (getUser sv u).inpacket → SLegal u s fs sv k l →
      SOutcome u s fs sv k l ∧ SHanded u s fs sv k l := by
  have hc' := cut_iff.mp hc
  intro l
  induction l with
  | nil => intro _ _ _ _ _; exact ⟨trivial, trivial⟩
  | cons x rest ih =>
    intro sv k hk hinv hl
    obtain ⟨kind, st⟩ := x
    obtain ⟨hstep, hrest⟩ := hl
    have hin : (getUser (handlerState sv st.now) u).inpacket = (getUser sv u).inpacket := C01L.entry_in sv st.now u
    have htw := C01L.out_tunws sv st
    have hnx := C01L.next_in sv st u
    rw [← handlerState_eq] at htw hnx
    -- enough: tun writes of this step as required, invariant for the next
    suffices h : SStepOut fs (handlerState sv st.now) k kind (srvTunWrites (out sv st)) ∧
        (kind = .next → k + 1 = fs.length →
          HandedOn (handlerState sv st.now) u fs.flatten st.inp (topOfLoop sv).2.2) ∧
        kind.adv k ≤ fs.length ∧
        C01L.SxInv s fs (kind.adv k) (getUser (next sv st) u).inpacket from
      ⟨⟨h.1, (ih _ _ h.2.2.1 h.2.2.2 hrest).1⟩, ⟨h.2.1, (ih _ _ h.2.2.1 h.2.2.2 hrest).2⟩⟩
    clear hrest ih
    rw [srvTunWrites_eq, htw, hnx]
    clear htw hnx
    generalize hinp : st.inp = inp at hstep ⊢
    cases kind with
    | next =>
      cases inp with
      | q q => ?_
      | _ => exact hstep.elim
      obtain ⟨hlt, ⟨ha, hd, hcm, hqm, hp, hps⟩, ⟨_, c1, c2, c3, c4⟩⟩ := hstep
      obtain ⟨hdisp, hu⟩ := C01L.dispatch_newData (topOfLoop sv).2.2 ha hd hcm hqm hp hps
      obtain ⟨a, _, c⟩ := C01L.dataFresh_sx (handlerState sv st.now) u q (C01L.inbOfQ (handlerState sv st.now) q) hu
      rw [hdisp, a, c, ← dataPart_eq, upHdr_eq]
      unfold SStepOut
      dsimp only
      rw [c1, c2, c3]
      unfold payloadOf at c4
      rw [c4, hin]
      obtain ⟨s1, s2⟩ := C01L.sxStep_next hc' hlt hinv
      refine ⟨?_, ?_, hlt, s2⟩
      rotate_left
      · intro _ hlast
        have hup := upHdr_eq (dataPart (handlerState sv st.now) q)
        rw [c1, c2, c3, hlast] at hup
        simp only [decide_true] at hup
        obtain ⟨s2', tail, g1, g2, g3, g4, g5⟩ := C01L.final_handoff hc' (topOfLoop sv).2.2 hlast
          (by rw [hin]; exact hinv) hdisp hu hup c4
        exact ⟨s2', tail, g1, g2, g3, g4, by rw [srvTunWrites_eq]; exact g5⟩
      rw [s1]
      by_cases hl : k + 1 = fs.length
      · rw [if_pos hl, if_pos hl]; exact (srvDelivery_eq _ _).symm
      · rw [if_neg hl, if_neg hl]
    | own =>
      cases inp with
      | q q => ?_
      | _ => exact hstep.elim
      rcases hstep with h | ⟨h1, h2⟩
      · have hi := C01L.own_ping (handlerState sv st.now) q (topOfLoop sv).2.2 h
        rw [hi.same.eq u, hin]
        exact ⟨hi.quiet, (fun h => nomatch h), hk, hinv⟩
      · obtain ⟨a, b⟩ := C01L.own_old (handlerState sv st.now) q (topOfLoop sv).2.2 u h1 ((refused_iff _ _).mp h2)
        rw [a, hin]
        exact ⟨b, (fun h => nomatch h), hk, hinv⟩
    | other =>
      refine ⟨trivial, (fun h => nomatch h), hk, ?_⟩
      show C01L.SxInv s fs k _
      cases inp with
      | q q =>
        obtain ⟨h1, h2⟩ := hstep
        rw [C01L.keep_q _ q _ u h1 (fun hv => not_alloc_of_live (h2 hv)), hin]; exact hinv
      | rawf src bytes =>
        have h : (bytes.take 65536).getD 3 0 &&& RAW_HDR_USR_MASK ≠ u := by
          have : (bytes.take 65536).getD 3 0 &&& RAW_HDR_USR_MASK = (bytes.take 65536).getD 3 0 % 16 :=
            Nat.and_two_pow_sub_one_eq_mod _ 4
          rw [this]; exact hstep
        rw [C01L.keep_raw _ src bytes _ u h, hin]; exact hinv
      | tun f => rw [C01L.keep_quiet _ _ _ u trivial, hin]; exact hinv
      | bind b => rw [C01L.keep_quiet _ _ _ u trivial, hin]; exact hinv
      | tick => rw [C01L.keep_quiet _ _ _ u trivial, hin]; exact hinv

/-- **server_reassembly_exact**.  For session `u` that has not seen upstream seqno `s` recently: the data queries
carrying the fragments `(s, i, last = (i = n))` of the image in order — each new to the server and accepted for the
established session `u`, its name decoding to `fᵢ` under the session's codec — interleaved with duplicates of earlier
fragments and pings (kind `own`) and with the traffic of other sessions, raw frames of other users, tun frames and
timeouts (kind `other`), make the server write to tun, in the steps that belong to `u`, exactly the delivery of `img` at
the step of the last fragment and nothing else.  `srvDelivery` is `handle_full_packet`'s outcome for a buffer that is
exactly `img` (the frame of `uncompress img` unless it is addressed to another client). -/
theorem server_reassembly_exact {u s : Nat} {fs : List (List Nat)} (hc : Cut s fs) (sv : Srv)
    (l : List (SKind × Step)) (h0 : SrvUnseen sv u s) (hl : SLegal u s fs sv 0 l) :
    SOutcome u s fs sv 0 l := by
  refine (slegal_run hc l sv 0 (Nat.zero_le _) ?_ hl).1
  unfold C01L.SxInv
  rw [if_pos rfl]
  exact h0

/-- **server_handoff_unchanged** (second half of `server_reassembly_exact`): in the same runs, at the step of the last
fragment `handle_full_packet` is called with `inpacket.data[0 .. inpacket.len) = img` and does `handOn`: the packet is
dropped, written to tun decompressed, or handed UNCHANGED — the same bytes `img` — to the client that owns its
destination address. -/
theorem server_handoff_unchanged {u s : Nat} {fs : List (List Nat)} (hc : Cut s fs) (sv : Srv)
    (l : List (SKind × Step)) (h0 : SrvUnseen sv u s) (hl : SLegal u s fs sv 0 l) :
    SHanded u s fs sv 0 l := by
  refine (slegal_run hc l sv 0 (Nat.zero_le _) ?_ hl).2
  unfold C01L.SxInv
  rw [if_pos rfl]
  exact h0

/-! ### the concrete server run used by the examples (server, login and helpers of `C16.Ex`: server 10.0.0.1/27,
topdomain `t.ex`, a client at 192.168.1.5 holding slot 0) -/
namespace SEx

/-- a 24-byte "packet": tun header, IPv4 header with destination 10.9.9.9 (not a client) -/
def frame : List Nat := [0, 0, 8, 0, 0x45, 0, 0, 20, 0, 0, 0, 0, 64, 17, 0, 0, 10, 0, 0, 9, 10, 9, 9, 9]

/-- its compressed image, cut into two fragments -/
def fs : List (List Nat) := [0x5a :: frame.take 9, frame.drop 9]

/-- data query of user 0 with header characters `hdr` (upstream seq/frag, downstream ack, last flag, CMC) -/
def dq (hdr : List Nat) (f : List Nat) (id : Nat) : Step :=
  ⟨.q (C16.Ex.mkq ([48] ++ hdr ++ Codec.encFull Codec.b32 f ++ Server.ascii ".t.ex") id C16.Ex.src1), 1002⟩

/-- handshake and login done -/
def sv : Srv := runFrom C16.Ex.s0 C16.Ex.login

/-- upstream packet 1 in two fragments; in between a copy of the first fragment (with the next data-CMC, as the client
re-sends it), a ping, a timeout and the version handshake of another client; a copy of the last fragment at the end -/
def l : List (SKind × Step) :=
  [(.next, dq [101, 97, 97, 97] (fs.getD 0 []) 500),
   (.own, dq [101, 97, 97, 98] (fs.getD 0 []) 501),
   (.own, ⟨.q (C16.Ex.mkq (C16.Ex.pName 7) 502 C16.Ex.src1), 1002⟩),
   (.other, ⟨.tick, 1003⟩),
   (.other, ⟨.q (C16.Ex.mkq C16.Ex.vName 503 C16.Ex.src2), 1003⟩),
   (.next, dq [101, 105, 98, 99] (fs.getD 1 []) 504),
   (.own, dq [101, 105, 98, 100] (fs.getD 1 []) 505)]

end SEx

/-- non-vacuity of `server_reassembly_exact`: the hypotheses hold for the run `SEx.l`, and the packet is written to tun
at the step of the second fragment, nowhere else -/
example : Cut 1 SEx.fs ∧ SrvUnseen SEx.sv 0 1 ∧ SLegal 0 1 SEx.fs SEx.sv 0 SEx.l ∧
    (traceFrom SEx.sv (SEx.l.map (·.2))).map (fun t => srvTunWrites t.events)
      = [[], [], [], [], [], [[0, 0, 8, 0] ++ SEx.frame.drop 4], []] := by
  refine ⟨⟨by decide, by decide, by decide, by decide, by decide⟩, ?_, ?_, ?_⟩ <;> decide +kernel

end ServerSide

/-! ## (A) the upstream hop: `send_chunk` → query name → the server's header arithmetic and `unpack_data` -/
section Hop
open Iodine.Client

/-- the downstream-ack half of the upstream data header -/
def dnSeqOf (n : List Nat) : Nat := digit32 (n.getD 2 0) % 8
def dnFragOf (n : List Nat) : Nat := digit32 (n.getD 3 0) / 2

/-- what `hop_lossless_up` says about the name `name` and the state `c'` handed to `send_query` -/
def HopOk (c : Cli) (L : Nat) (name : List Nat) (c' : Cli) : Prop :=
      sendChunk c = sendQuery c' name ∧ c'.inpkt = c.inpkt ∧
      c'.outpkt = { c.outpkt with sentlen := c'.outpkt.sentlen } ∧
      1 ≤ c'.outpkt.sentlen ∧ c'.outpkt.sentlen ≤ (outRest c.outpkt).length ∧
      Encoding.legalAux 0 name = true ∧ name.length + 2 ≤ L ∧ (∃ pre, name = pre ++ [46] ++ c.topdomain) ∧
      (let inb := name.take (min (name.length - c.topdomain.length) 512)
       inb.getD 0 0 = c.useridChar ∧
       upSeqOf inb = maskI c.outpkt.seqno 8 ∧ upFragOf inb = maskI c.outpkt.fragment 16 ∧
       lastOf inb = (c'.outpkt.sentlen == c.outpkt.len - c.outpkt.offset) ∧
       dnSeqOf inb = maskI c.inpkt.seqno 8 ∧ dnFragOf inb = maskI c.inpkt.fragment 16 ∧
       Encoding.unpackData c.dataenc.codec 65536 (inb.drop 5) = (outRest c.outpkt).take c'.outpkt.sentlen ∧
       (outRest c.outpkt).take c'.outpkt.sentlen = (c.outpkt.data.drop c.outpkt.offset).take c'.outpkt.sentlen)

/-- the client state `send_chunk` hands to `send_query`: `sentlen` stored, data CMC stepped -/
def chunkSent (c : Cli) : Cli :=
  { c with outpkt := { c.outpkt with sentlen := (C01L.chunkBuilt c).used },
           datacmc := if c.datacmc + 1 ≥ 36 then 0 else c.datacmc + 1 }

/-- `hop_lossless_up` with the witnesses spelled out: the name is `C01L.chunkName c`, the state `chunkSent c` -/
theorem hop_lossless_up_at (c : Cli) (L : Nat) (hmax : c.hostnameMaxlen = (L : Int)) (hL : 100 ≤ L ∧ L ≤ 255)
    (htd : 3 ≤ c.topdomain.length ∧ c.topdomain.length ≤ 128 ∧ c.topdomain.length + 24 ≤ L)
    (hlegal : Encoding.legalAux 0 c.topdomain = true) (huc : c.useridChar ≠ 46)
    (hne : outRest c.outpkt ≠ []) (hbytes : Codec.Bytes (outRest c.outpkt)) :
    HopOk c L (C01L.chunkName c) (chunkSent c) := by
  unfold HopOk chunkSent
  -- C08 for the header `send_chunk` writes
  have hwf : Codec.WF c.dataenc.codec ∧ ∀ ch ∈ c.dataenc.codec.tbl, ch ≠ Encoding.DOT := by
    cases c.dataenc
    · exact ⟨C07.wf_b32, C08.tables_nodot.1⟩
    · exact ⟨C07.wf_b64, C08.tables_nodot.2.1⟩
    · exact ⟨C07.wf_b64u, C08.tables_nodot.2.2.1⟩
    · exact ⟨C07.wf_b128, C08.tables_nodot.2.2.2⟩
  have S : C08.Setting c.dataenc.codec L 5 (chunkHeader c (C01L.chunkLast c)) c.topdomain (outRest c.outpkt) :=
    ⟨hwf.1, hwf.2, hL, ⟨rfl, Or.inr rfl⟩, C01L.chunkHeader_nodot c _ huc, htd, hlegal, hne, hbytes⟩
  obtain ⟨b, hb, G⟩ := C08.hostname_ok S 0
  have hbuilt : C01L.chunkBuilt c = b := by
    unfold C01L.chunkBuilt Client.buildHostname
    rw [hmax, C01L.sizeT_nat L hL.2]
    have : C08.buflen 5 = 4091 := rfl
    rw [this] at hb
    rw [hb]
  have hname : C01L.chunkName c = chunkHeader c (C01L.chunkLast c) ++ b.name := by
    unfold C01L.chunkName; rw [hbuilt]
  refine ⟨C01L.sendChunk_eq c, rfl, rfl, ?_, ?_, ?_, ?_, ?_, ?_⟩
  · show 1 ≤ (C01L.chunkBuilt c).used; rw [hbuilt]; exact G.used.1
  · show (C01L.chunkBuilt c).used ≤ _; rw [hbuilt]; exact G.used.2
  · rw [hname]; exact G.legal
  · rw [hname]; exact G.within_L
  · rw [hname]; exact G.suffix
  · rw [hname]
    dsimp only
    show _ ∧ _ ∧ _ ∧ lastOf _ = ((C01L.chunkBuilt c).used == _) ∧ _ ∧ _ ∧
      _ = (outRest c.outpkt).take (C01L.chunkBuilt c).used ∧
      (outRest c.outpkt).take (C01L.chunkBuilt c).used = _
    rw [hbuilt]
    -- the data part is longer than the five header characters
    have hext := G.extract
    unfold Encoding.serverExtract at hext
    generalize hdl : (chunkHeader c (C01L.chunkLast c) ++ b.name).length - c.topdomain.length = dlen at hext ⊢
    have hdl5 : 5 < dlen := by
      apply Classical.byContradiction
      intro hn
      have hnil : ((chunkHeader c (C01L.chunkLast c) ++ b.name).take dlen).drop 5 = [] := by
        apply List.drop_eq_nil_of_le; rw [List.length_take]; omega
      rw [hnil] at hext
      have h0 : (List.take b.used (outRest c.outpkt)).length = 0 := by
        rw [← hext]; simp [Encoding.unpackData, Encoding.undotify, Codec.dec, Codec.decAll, Codec.cstr, Codec.decBits, chunksN]
      rw [List.length_take] at h0
      have := G.used
      omega
    have hlen := G.wire
    have hmin : min dlen 512 = dlen := by omega
    rw [hmin]
    obtain ⟨h1, h2, h3, h4⟩ := C01L.chunkHeader_read c (C01L.chunkLast c) b.name
    have hup := C01L.upHdr_take (chunkHeader c (C01L.chunkLast c) ++ b.name) dlen (by omega)
    rw [h1, upHdr_eq] at hup
    have e1 := congrArg Prod.fst hup
    have e2 := congrArg (fun x => x.2.1) hup
    have e3 := congrArg (fun x => x.2.2) hup
    dsimp only at e1 e2 e3
    refine ⟨?_, e1, e2, ?_, ?_, ?_, hext, ?_⟩
    · rw [C01L.getD_take_lt _ _ 0 (by omega)]; exact h4
    · rw [e3]; unfold C01L.chunkLast; rw [hbuilt]
    · unfold dnSeqOf digit32
      rw [C01L.getD_take_lt _ _ 2 (by omega), ← h2]
      show _ = Server.b32_8to5 _ &&& (2 ^ 3 - 1)
      rw [Nat.and_two_pow_sub_one_eq_mod]; rfl
    · unfold dnFragOf digit32
      rw [C01L.getD_take_lt _ _ 3 (by omega), ← h3, Nat.shiftRight_eq_div_pow]; rfl
    · unfold outRest
      rw [List.drop_take, List.take_take]
      congr 1
      have := G.used.2
      unfold outRest at this
      rw [List.length_drop, List.length_take] at this
      omega

/-- **hop_lossless_up**.  For a client with a packet in flight (`outRest` = `outpkt.data[offset .. len)` not empty),
a hostname limit 100..255 and a legal tunnel domain: `send_chunk` sends a query whose name is a legal host name within
the limit, ending in the tunnel domain (C08), and from whose data part `inb` (what `handle_null_request` copies: the
characters in front of the domain, found by `query_datalen`: C17) the server reads back EXACTLY
* the user-id character,
* the header fields `(seqno & 7, fragment & 15, last)` of `outpkt` and the ack fields `(seqno & 7, fragment & 15)` of
  `inpkt` — for ALL values of these fields (round trip of the three Base32 characters of `chunkHeader` through the
  `b32_8to5` shifts and masks of the data handler),
* and, under the same codec, the bytes `outpkt.data[offset .. offset + sentlen)`: what `dataStore` appends is what
  the client took out of its buffer, and `sentlen ≥ 1`, so every acknowledged fragment makes progress. -/
theorem hop_lossless_up (c : Cli) (L : Nat) (hmax : c.hostnameMaxlen = (L : Int)) (hL : 100 ≤ L ∧ L ≤ 255)
    (htd : 3 ≤ c.topdomain.length ∧ c.topdomain.length ≤ 128 ∧ c.topdomain.length + 24 ≤ L)
    (hlegal : Encoding.legalAux 0 c.topdomain = true) (huc : c.useridChar ≠ 46)
    (hne : outRest c.outpkt ≠ []) (hbytes : Codec.Bytes (outRest c.outpkt)) :
    ∃ (name : List Nat) (c' : Cli),
      sendChunk c = sendQuery c' name ∧ c'.inpkt = c.inpkt ∧
      c'.outpkt = { c.outpkt with sentlen := c'.outpkt.sentlen } ∧
      1 ≤ c'.outpkt.sentlen ∧ c'.outpkt.sentlen ≤ (outRest c.outpkt).length ∧
      Encoding.legalAux 0 name = true ∧ name.length + 2 ≤ L ∧ (∃ pre, name = pre ++ [46] ++ c.topdomain) ∧
      (let inb := name.take (min (name.length - c.topdomain.length) 512)
       inb.getD 0 0 = c.useridChar ∧
       upSeqOf inb = maskI c.outpkt.seqno 8 ∧ upFragOf inb = maskI c.outpkt.fragment 16 ∧
       lastOf inb = (c'.outpkt.sentlen == c.outpkt.len - c.outpkt.offset) ∧
       dnSeqOf inb = maskI c.inpkt.seqno 8 ∧ dnFragOf inb = maskI c.inpkt.fragment 16 ∧
       Encoding.unpackData c.dataenc.codec 65536 (inb.drop 5) = (outRest c.outpkt).take c'.outpkt.sentlen ∧
       (outRest c.outpkt).take c'.outpkt.sentlen = (c.outpkt.data.drop c.outpkt.offset).take c'.outpkt.sentlen) := by
  exact ⟨_, _, hop_lossless_up_at c L hmax hL htd hlegal huc hne hbytes⟩

/-- a client with the 9-byte image of `Ex.fs` as `outpkt` (upstream seqno 1, nothing sent yet), hostname limit 255 -/
def Ex.c1 : Cli := { Ex.c0 with outpkt := ⟨9, 0, 0, [0x5a, 0, 0, 8, 0, 69, 1, 2, 3], 1, 0⟩, hostnameMaxlen := 255 }

/-- non-vacuity of `hop_lossless_up`: the hypotheses hold for `Ex.c1`; the name `send_chunk` builds is
`3eabaliaaacaaiuaqeay.t.ex`, and the server reads from it seqno 1, fragment 0, last, and the nine bytes -/
example : Ex.c1.hostnameMaxlen = ((255 : Nat) : Int) ∧ Encoding.legalAux 0 Ex.c1.topdomain = true ∧
    Ex.c1.useridChar ≠ 46 ∧ outRest Ex.c1.outpkt ≠ [] ∧ (∀ b ∈ outRest Ex.c1.outpkt, b < 256) ∧
    (let name := C01L.chunkName Ex.c1
     let inb := name.take (min (name.length - Ex.c1.topdomain.length) 512)
     (sendChunk Ex.c1).evs = [.query 8727 10 name] ∧
     (upSeqOf inb, upFragOf inb, lastOf inb) = (1, 0, true) ∧
     Encoding.unpackData Codec.b32 65536 (inb.drop 5) = [0x5a, 0, 0, 8, 0, 69, 1, 2, 3]) := by decide +kernel

end Hop

/-! ## (B) the hostile network: every delivered buffer is a concatenation of received fragment payloads -/
section HostileClient
open Iodine.Client

/-- fragment number and payload of a received answer (`seqOf` is its downstream seqno) -/
def fragOf (rq : Rq) : Nat := rq.buf.getD 1 0 / 2 % 16
def payloadOfAns (rq : Rq) : List Nat := (rq.buf.take rq.rv.toNat).drop 2

/-- data answers (more than the two header bytes) with one downstream seqno and fragment numbers rising by exactly 1 -/
def Consecutive : List Rq → Prop
  | [] => True
  | [r] => r.rv > 2
  | r :: r' :: rest => r.rv > 2 ∧ seqOf r' = seqOf r ∧ fragOf r' = fragOf r + 1 ∧ Consecutive (r' :: rest)

/-- the payloads in order, cut at the size of the reassembly buffer -/
def joined (l : List Rq) : List Nat := ((l.map payloadOfAns).flatten).take 65536

/-- the answers among the inputs -/
def answersOf : List CInput → List Rq
  | [] => []
  | .rq q :: rest => q :: answersOf rest
  | _ :: rest => answersOf rest

/-- the state of the client thread after the inputs -/
def cafter (st : CState) (ins : List CInput) : CState := ins.foldl (fun s i => (cstep s i).1) st

/-- `FromReceived ins f`: the frame `f`, written to tun at the last of the inputs `ins`, is `uncompress` of: the payloads,
in arrival order, of a chain of answers received so far (one seqno, consecutive fragment numbers) that ends in the answer
of this step — or, in raw mode, the body of the datagram of this step -/
def FromReceived (ins : List CInput) (f : List Nat) : Prop :=
  (∃ (l : List Rq) (q : Rq), ins.getLast? = some (.rq q) ∧ l.Sublist (answersOf ins) ∧ Consecutive l ∧
      l.getLast? = some q ∧ l.length ≤ 16 ∧ f ∈ delivery (joined l)) ∨
  (∃ b, ins.getLast? = some (.rawans b) ∧ f ∈ delivery ((b.take 65536).drop 4))

theorem consecutive_iff : ∀ l : List Rq, Consecutive l ↔ C01L.RChain l
  | [] => Iff.rfl
  | [_] => Iff.rfl
  | r :: r' :: rest => by
    unfold Consecutive C01L.RChain
    rw [consecutive_iff (r' :: rest)]
    exact Iff.rfl

theorem joined_eq (l : List Rq) : joined l = C01L.rjoin l := rfl

theorem answersOf_append (a b : List CInput) : answersOf (a ++ b) = answersOf a ++ answersOf b := by
  induction a with
  | nil => rfl
  | cons x xs ih => cases x <;> simp [answersOf, ih]

theorem answersOf_single (inp : CInput) : answersOf [inp] = C01L.rqOf inp := by
  cases inp <;> rfl

/-- a chain of consecutive 4-bit fragment numbers has at most 16 elements -/
theorem consecutive_length : ∀ (l : List Rq), Consecutive l → ∀ r, l.head? = some r → l.length + fragOf r ≤ 16
  | [], _, _, h => by cases h
  | [r], _, r0, h => by
    have : fragOf r0 < 16 := by unfold fragOf; omega
    simp only [List.length_cons, List.length_nil]; omega
  | r :: r' :: rest, hc, r0, h => by
    simp only [List.head?_cons, Option.some.injEq] at h
    subst h
    obtain ⟨_, _, hf, hrest⟩ := hc
    have := consecutive_length (r' :: rest) hrest r' rfl
    simp only [List.length_cons] at this ⊢
    omega

theorem consecutive_le16 (l : List Rq) (h : Consecutive l) : l.length ≤ 16 := by
  cases l with
  | nil => simp
  | cons r rest => have := consecutive_length (r :: rest) h r rfl; omega

theorem corigins_at : ∀ (pre : List CInput) (inp : CInput) (st : CState) (seen : List Rq),
    C01L.COrigins seen st (pre ++ [inp]) →
    C01L.COrigin (seen ++ answersOf pre) inp (cstep (cafter st pre) inp).2.1 := by
  intro pre
  induction pre with
  | nil => intro inp st seen h; simpa [answersOf, cafter] using h.1
  | cons x xs ih =>
    intro inp st seen h
    have := ih inp (cstep st x).1 (seen ++ C01L.rqOf x) h.2
    have e : seen ++ answersOf (x :: xs) = seen ++ C01L.rqOf x ++ answersOf xs := by
      rw [show x :: xs = [x] ++ xs from rfl, answersOf_append, answersOf_single, List.append_assoc]
    rw [e]
    exact this

/-- **delivered_is_concat_of_received_fragments** (client).  In EVERY run of the client thread — any inputs: answers with
any header, id, length and content, raw datagrams, tun frames, timeouts, in DNS or raw mode, through the lazy-off
handshake — from a state with an empty `inpkt` (`client_init` leaves it empty), every frame written to the tun device is
`FromReceived`: the client never invents, reorders or mixes seqnos; what remains for full integrity is that `uncompress`
rejects a chain that is not a whole image (`Z_integrity` below). -/
theorem delivered_is_concat_of_received_fragments_client (st0 : CState) (h0 : st0.c.inpkt.len = 0)
    (pre : List CInput) (inp : CInput) :
    ∀ f ∈ tunWrites (cstep (cafter st0 pre) inp).2.1, FromReceived (pre ++ [inp]) f := by
  intro f hf
  have hrun := C01L.corigins_run (pre ++ [inp]) st0 [] (C01L.RInv.empty h0 [])
  have ho := corigins_at pre inp st0 [] hrun
  rw [List.nil_append] at ho
  rw [tunWrites_eq] at hf
  rcases ho with h | ⟨q, l, hq, hsub, hch, hlast, he⟩ | ⟨b, hb, he⟩
  · rw [h] at hf; cases hf
  · left
    refine ⟨l, q, by simp [hq], ?_, (consecutive_iff l).mpr hch, hlast,
      consecutive_le16 l ((consecutive_iff l).mpr hch), ?_⟩
    · rw [answersOf_append, hq]; exact hsub
    · rw [delivery_eq, joined_eq, ← he]; exact hf
  · right
    refine ⟨b, by simp [hb], ?_⟩
    rw [delivery_eq]
    have he' : C01L.tunws (cstep (cafter st0 pre) inp).2.1 = C01L.tunws (C01L.frames ((b.take 65536).drop 4)) := he
    rw [← he']; exact hf

theorem clientInit_empty (c : Cli) (r1 r2 : Nat) : (clientInit c r1 r2).inpkt.len = 0 := rfl

/-- the client thread parked in `client_tunnel`'s `select`, and two answers: fragments 1 and 2 (last) of downstream
packet 1, answering the client's latest queries -/
def Ex.st0 : CState := ⟨clientTunnelEnter Ex.c0, .tunnel⟩
def Ex.a1 : Rq := ⟨5, 1000, 10, 0, 51, [0, downHdr 1 1 false, 0x5a, 9, 9]⟩
def Ex.a2 : Rq := ⟨5, 8727, 10, 0, 51, [0, downHdr 1 2 true, 9, 9, 9]⟩

/-- non-vacuity of `delivered_is_concat_of_received_fragments_client`: the hypothesis holds for `Ex.st0`, the second step
of the run does write a frame, and the chain `[a1, a2]` is its origin -/
example : Ex.st0.c.inpkt.len = 0 ∧
    tunWrites (cstep (cafter Ex.st0 [.rq Ex.a1]) (.rq Ex.a2)).2.1 = [[0, 0, 8, 0, 9]] ∧
    Consecutive [Ex.a1, Ex.a2] ∧ delivery (joined [Ex.a1, Ex.a2]) = [[0, 0, 8, 0, 9]] := by
  refine ⟨rfl, by decide +kernel, ?_, by decide⟩
  unfold Consecutive Consecutive
  decide

end HostileClient

section HostileServer
open Iodine.Server Iodine.Gen

/-- a received data query together with the upstream codec the session had when it arrived -/
abbrev Recv := C01L.UFrag

/-- the data part of the query name for topdomain `td` (`dataPart e q` for a server with that topdomain) -/
def dataPartOf (td : List Nat) (q : Query) : List Nat := q.name.take (min (C16.dlen td q) 512)

def Recv.useq (td : List Nat) (r : Recv) : Nat := upSeqOf (dataPartOf td r.q)
def Recv.ufrag (td : List Nat) (r : Recv) : Nat := upFragOf (dataPartOf td r.q)
def Recv.bytes (td : List Nat) (r : Recv) : List Nat := payloadOf r.enc (dataPartOf td r.q)
/-- the session the query names: its first character, a hex digit -/
def Recv.uid (td : List Nat) (r : Recv) : Int := hexCode ((dataPartOf td r.q).getD 0 0)

/-- data queries with one upstream seqno and strictly rising fragment numbers -/
def Rising (td : List Nat) : List Recv → Prop
  | [] => True
  | [_] => True
  | r :: r' :: rest => r'.useq td = r.useq td ∧ r.ufrag td < r'.ufrag td ∧ Rising td (r' :: rest)

def sjoined (td : List Nat) (l : List Recv) : List Nat := ((l.map (Recv.bytes td)).flatten).take 65536

/-- the frame written to tun for a buffer that decompresses -/
def srvFrames (b : List Nat) : List (List Nat) :=
  match Server.uncompress b 65536 with
  | some out => [[0, 0, 8, 0] ++ out.drop 4]
  | none => []

/-- the queries among the inputs of the steps -/
def queriesOf : List Step → List Query
  | [] => []
  | st :: rest => (match st.inp with | .q q => [q] | _ => []) ++ queriesOf rest

/-- `SrvFromReceived td steps f`: the frame `f`, written to tun in the last of the iterations `steps`, is `uncompress` of
the payloads, in arrival order, of a chain of data queries received so far that all name one session, have one upstream
seqno and strictly rising fragment numbers and end in the query of this iteration (each payload decoded with some
codec: the one the session had then) — or, for a raw-mode frame, of the body of the datagram of this iteration -/
def SrvFromReceived (td : List Nat) (steps : List Step) (f : List Nat) : Prop :=
  (∃ (l : List Recv) (q : Query) (u : Nat), (steps.getLast?.map (·.inp) = some (.q q)) ∧
      (l.map (·.q)).Sublist (queriesOf steps) ∧ Rising td l ∧ (∀ r ∈ l, r.uid td = (u : Int)) ∧
      l.getLast?.map (·.q) = some q ∧ l.length ≤ 16 ∧ f ∈ srvFrames (sjoined td l)) ∨
  (∃ src bytes, steps.getLast?.map (·.inp) = some (.rawf src bytes) ∧ f ∈ srvFrames ((bytes.take 65536).drop 4))

theorem recv_seq (td : List Nat) (r : Recv) : r.useq td = C01L.UFrag.seq td r := by
  unfold Recv.useq C01L.UFrag.seq
  have := upHdr_eq (C01L.UFrag.inb td r)
  rw [this]; rfl

theorem recv_frag (td : List Nat) (r : Recv) : r.ufrag td = C01L.UFrag.frag td r := by
  unfold Recv.ufrag C01L.UFrag.frag
  have := upHdr_eq (C01L.UFrag.inb td r)
  rw [this]; rfl

theorem rising_iff (td : List Nat) : ∀ l : List Recv, Rising td l ↔ C01L.SChain td l
  | [] => Iff.rfl
  | [_] => Iff.rfl
  | r :: r' :: rest => by
    unfold Rising C01L.SChain
    rw [rising_iff td (r' :: rest), recv_seq, recv_seq, recv_frag, recv_frag]

theorem sjoined_eq (td : List Nat) (l : List Recv) : sjoined td l = C01L.sjoin td l := rfl

theorem upFragOf_lt (n : List Nat) : upFragOf n < 16 := by unfold upFragOf; omega

theorem rising_length (td : List Nat) : ∀ (l : List Recv), Rising td l → ∀ r, l.head? = some r →
    l.length + r.ufrag td ≤ 16
  | [], _, _, h => by cases h
  | [r], _, r0, h => by
    have : r0.ufrag td < 16 := upFragOf_lt _
    simp only [List.length_cons, List.length_nil]; omega
  | r :: r' :: rest, hc, r0, h => by
    simp only [List.head?_cons, Option.some.injEq] at h
    subst h
    obtain ⟨_, hf, hrest⟩ := hc
    have := rising_length td (r' :: rest) hrest r' rfl
    simp only [List.length_cons] at this ⊢
    omega

theorem rising_le16 (td : List Nat) (l : List Recv) (h : Rising td l) : l.length ≤ 16 := by
  cases l with
  | nil => simp
  | cons r rest => have := rising_length td (r :: rest) h r rfl; omega

theorem queriesOf_append (a b : List Step) : queriesOf (a ++ b) = queriesOf a ++ queriesOf b := by
  induction a with
  | nil => rfl
  | cons x xs ih => simp [queriesOf, ih]

theorem queriesOf_single (st : Step) : queriesOf [st] = C01L.qOf st.inp := by
  unfold queriesOf C01L.qOf
  cases st.inp <;> rfl

theorem sorigins_at (td : List Nat) : ∀ (pre : List Step) (st : Step) (s : Srv) (seen : List Query),
    C01L.SOrigins td seen s (pre ++ [st]) →
    C01L.SOrigin td (seen ++ queriesOf pre) st.inp (out (runFrom s pre) st) := by
  intro pre
  induction pre with
  | nil => intro st s seen h; simpa [queriesOf, runFrom] using h.1
  | cons x xs ih =>
    intro st s seen h
    have := ih st (next s x) (seen ++ C01L.qOf x.inp) h.2
    have e : seen ++ queriesOf (x :: xs) = seen ++ C01L.qOf x.inp ++ queriesOf xs := by
      rw [show x :: xs = [x] ++ xs from rfl, queriesOf_append, queriesOf_single, List.append_assoc]
    rw [e]
    exact this

/-- **delivered_is_concat_of_received_fragments** (server) — `_partial`: the statement with "fragment numbers rising by
exactly 1" is FALSE for the server: `handle_null_request` takes every fragment number above the current one ("seq is same,
frag is higher; don't care about missing fragments, TCP checksum will fail", iodined.c), see
`server_accepts_fragment_gap` below.  What holds: in EVERY run from start-up — any inputs and clock values — every frame
written to the tun device is `SrvFromReceived`: the decompression of byte-exact payloads of data queries of ONE session
and ONE upstream seqno, in arrival order, with STRICTLY RISING fragment numbers (at most 16 of them), or of one raw
frame. -/
theorem delivered_is_concat_of_received_fragments_server_partial (cfg : Config) (rnd : List Nat)
    (pre : List Step) (st : Step) :
    ∀ f ∈ srvTunWrites (out (runFrom (start cfg rnd) pre) st),
      SrvFromReceived (start cfg rnd).cfg.topdomain (pre ++ [st]) f := by
  intro f hf
  have hrun := C01L.sorigins_run _ (pre ++ [st]) (start cfg rnd) []
    (C01L.ginv_of_empty _ (C01L.start_empty cfg rnd))
  have ho := sorigins_at _ pre st _ [] hrun
  rw [List.nil_append] at ho
  rw [srvTunWrites_eq] at hf
  rcases ho with h | ⟨q, u, l, hq, hsub, hch, hall, hlast, he⟩ | ⟨src, bytes, hb, he⟩
  · rw [h] at hf; cases hf
  · left
    refine ⟨l, q, u, by simp [hq], ?_, (rising_iff _ l).mpr hch, hall, hlast,
      rising_le16 _ l ((rising_iff _ l).mpr hch), ?_⟩
    · rw [queriesOf_append, queriesOf_single, hq]; exact hsub
    · rw [he] at hf; exact hf
  · right
    exact ⟨src, bytes, by simp [hb], by rw [he] at hf; exact hf⟩

/-- **Finding (`server_accepts_fragment_gap`)**: upstream fragments 0 and 2 (last) of seqno 1, fragment 1 never arrives:
the server appends the two payloads and hands the MERGED buffer to `uncompress` (with the test scheme it "decompresses",
and the 24-byte result is written to tun).  Only the integrity check of the real zlib stands between this and a
corrupted packet on the server's tun device — this is what `Z_integrity` assumes. -/
example :
    (traceFrom SEx.sv
      [SEx.dq [101, 97, 97, 97] [0x5a, 1, 2, 3, 4] 500, SEx.dq [101, 113, 98, 99] (List.replicate 20 7) 504]).map
        (fun t => srvTunWrites t.events)
      = [[], [[0, 0, 8, 0] ++ List.replicate 20 7]] := by decide +kernel

/-- non-vacuity of `delivered_is_concat_of_received_fragments_server_partial`: a run from `start` in the theorem's own
terms whose last iteration writes a frame (the same two queries: handshake, login, fragment 0, then fragment 2) -/
example :
    srvTunWrites (out (runFrom (start C16.Ex.cfg [77]) (C16.Ex.login ++ [SEx.dq [101, 97, 97, 97] [0x5a, 1, 2, 3, 4] 500]))
      (SEx.dq [101, 113, 98, 99] (List.replicate 20 7) 504)) = [[0, 0, 8, 0] ++ List.replicate 20 7] := by
  decide +kernel

end HostileServer

/-! ### non-vacuity / findings, client -/
section HostileClientEx
open Iodine.Client

/-- **Finding (`client_accepts_packet_from_any_fragment`)**: the first fragment the client sees of a new downstream seqno
starts the packet whatever its number ("hopefully 0", client.c).  Here fragments 1 and 2 (last) of seqno 1 arrive,
fragment 0 was lost: the client hands the SUFFIX to `uncompress`.  `FromReceived` holds (chain 1, 2); only the real
zlib's integrity check rejects such a buffer. -/
example :
    (runDns Ex.c0 ((Ex.feed Ex.c0 [(.next, [0, downHdr 1 1 false, 0x5a, 9, 9]),
        (.next, [0, downHdr 1 2 true, 9, 9, 9])]).map (·.2))).map tunWrites = [[], [[0, 0, 8, 0, 9]]] := by
  decide +kernel

end HostileClientEx

/-! ## (B) corollary: modulo zlib's integrity check, every delivered packet is an offered one -/
section ModuloZ
open Iodine.Client

/-- **`Z_integrity`** — the hypothesis that is NOT proved (and is false for the transparent test compression of the
models): every buffer of the class `mixed` that is not one of the offered compressed images is rejected by
`uncompress`.  For the real zlib this is its stream format plus the Adler-32 check over the decompressed data. -/
def Z_integrity (unc : List Nat → Option (List Nat)) (offered : List (List Nat)) (mixed : List Nat → Prop) : Prop :=
  ∀ b, mixed b → b ∉ offered → unc b = none

/-- the buffers the client can hand to `uncompress` in a run with inputs `ins`: joins of consecutive chains of received
answers, and bodies of raw datagrams -/
def ClientMixed (ins : List CInput) (b : List Nat) : Prop :=
  (∃ l : List Rq, l.Sublist (answersOf ins) ∧ Consecutive l ∧ b = joined l) ∨
  (∃ d, CInput.rawans d ∈ ins ∧ b = (d.take 65536).drop 4)

theorem mem_delivery {b : List Nat} {f : List Nat} (h : f ∈ delivery b) : Client.uncompress b 65536 ≠ none := by
  unfold delivery at h
  intro hn
  rw [hn] at h
  cases h

/-- **delivered_is_sent_modulo_Z** (client): under `Z_integrity` for the buffers of this run, every frame the client
writes to its tun device is the delivery of an OFFERED image (by (A) exactly the frame of the packet the peer read from
its tun device, tun header rewritten). -/
theorem delivered_is_sent_modulo_Z_client (st0 : CState) (h0 : st0.c.inpkt.len = 0) (pre : List CInput) (inp : CInput)
    (offered : List (List Nat))
    (hZ : Z_integrity (fun b => Client.uncompress b 65536) offered (ClientMixed (pre ++ [inp]))) :
    ∀ f ∈ tunWrites (cstep (cafter st0 pre) inp).2.1, ∃ img ∈ offered, f ∈ delivery img := by
  intro f hf
  rcases delivered_is_concat_of_received_fragments_client st0 h0 pre inp f hf with
    ⟨l, q, _, hsub, hch, _, _, hd⟩ | ⟨d, hlast, hd⟩
  · apply Classical.byContradiction
    intro hn
    have hno : joined l ∉ offered := fun hm => hn ⟨_, hm, hd⟩
    exact mem_delivery hd (hZ _ (Or.inl ⟨l, hsub, hch, rfl⟩) hno)
  · apply Classical.byContradiction
    intro hn
    have hno : (d.take 65536).drop 4 ∉ offered := fun hm => hn ⟨_, hm, hd⟩
    refine mem_delivery hd (hZ _ (Or.inr ⟨d, ?_, rfl⟩) hno)
    have := List.mem_of_getLast? hlast
    exact this

/-- non-vacuity of `delivered_is_sent_modulo_Z_client`: one answer carrying a whole one-fragment image.  The buffers of
this run are the empty one (rejected) and the image itself (offered), so `Z_integrity` holds, and the frame is written. -/
example :
    let a : Rq := ⟨8, 1000, 10, 0, 51, [0, downHdr 1 0 true, 0x5a, 0, 0, 8, 0, 69]⟩
    Z_integrity (fun b => Client.uncompress b 65536) [[0x5a, 0, 0, 8, 0, 69]] (ClientMixed ([] ++ [.rq a])) ∧
    tunWrites (cstep (cafter Ex.st0 []) (.rq a)).2.1 = [[0, 0, 8, 0, 69]] := by
  intro a
  refine ⟨?_, by decide +kernel⟩
  intro b hb hno
  rcases hb with ⟨l, hsub, _, rfl⟩ | ⟨d, hd, _⟩
  · have hl : l = [] ∨ l = [a] := by
      cases hsub with
      | cons _ h => left; exact List.sublist_nil.mp h
      | cons_cons _ h => right; rw [List.sublist_nil.mp h]
    rcases hl with rfl | rfl
    · rfl
    · exact absurd (by decide) hno
  · simp at hd

end ModuloZ

section ModuloZServer
open Iodine.Server

/-- the buffers the server can hand to `uncompress` in a run: joins of rising chains of received data queries of one
session, and bodies of raw frames -/
def ServerMixed (td : List Nat) (steps : List Step) (b : List Nat) : Prop :=
  (∃ (l : List Recv) (u : Nat), (l.map (·.q)).Sublist (queriesOf steps) ∧ Rising td l ∧
      (∀ r ∈ l, r.uid td = (u : Int)) ∧ b = sjoined td l) ∨
  (∃ st src bytes, st ∈ steps ∧ st.inp = .rawf src bytes ∧ b = (bytes.take 65536).drop 4)

theorem mem_srvFrames {b : List Nat} {f : List Nat} (h : f ∈ srvFrames b) : Server.uncompress b 65536 ≠ none := by
  unfold srvFrames at h
  intro hn
  rw [hn] at h
  cases h

/-- **delivered_is_sent_modulo_Z** (server) -/
theorem delivered_is_sent_modulo_Z_server (cfg : Config) (rnd : List Nat) (pre : List Step) (st : Step)
    (offered : List (List Nat))
    (hZ : Z_integrity (fun b => Server.uncompress b 65536) offered
      (ServerMixed (start cfg rnd).cfg.topdomain (pre ++ [st]))) :
    ∀ f ∈ srvTunWrites (out (runFrom (start cfg rnd) pre) st), ∃ img ∈ offered, f ∈ srvFrames img := by
  intro f hf
  rcases delivered_is_concat_of_received_fragments_server_partial cfg rnd pre st f hf with
    ⟨l, q, u, _, hsub, hch, hall, _, _, hd⟩ | ⟨src, bytes, hlast, hd⟩
  · apply Classical.byContradiction
    intro hn
    have hno : sjoined _ l ∉ offered := fun hm => hn ⟨_, hm, hd⟩
    exact mem_srvFrames hd (hZ _ (Or.inl ⟨l, u, hsub, hch, hall, rfl⟩) hno)
  · apply Classical.byContradiction
    intro hn
    have hno : (bytes.take 65536).drop 4 ∉ offered := fun hm => hn ⟨_, hm, hd⟩
    refine mem_srvFrames hd (hZ _ (Or.inr ?_) hno)
    cases hl : (pre ++ [st]).getLast? with
    | none => rw [hl] at hlast; cases hlast
    | some x =>
      rw [hl] at hlast
      simp only [Option.map_some, Option.some.injEq] at hlast
      exact ⟨x, src, bytes, List.mem_of_getLast? hl, hlast, rfl⟩

end ModuloZServer

/-! ## (C) an image that needs more than 16 fragments is never delivered -/
section Sixteen

theorem flatten_length_le {α β : Type} (g : α → List β) (m : Nat) :
    ∀ (l : List α), (∀ x ∈ l, (g x).length ≤ m) → ((l.map g).flatten).length ≤ l.length * m
  | [], _ => by simp
  | x :: xs, h => by
    have h1 := h x (List.mem_cons_self ..)
    have h2 := flatten_length_le g m xs (fun y hy => h y (List.mem_cons_of_mem _ hy))
    simp only [List.map_cons, List.flatten_cons, List.length_append, List.length_cons]
    rw [Nat.add_mul]
    omega

open Iodine.Client in
/-- the fragment number has four bits and a chain needs consecutive numbers: a chain has at most 16 answers, so the
reassembly buffer never holds more than 16 payloads -/
theorem joined_length_le (l : List Rq) (m : Nat) (hc : Consecutive l) (hm : ∀ q ∈ l, (payloadOfAns q).length ≤ m) :
    (joined l).length ≤ 16 * m := by
  unfold joined
  have h1 := flatten_length_le payloadOfAns m l hm
  have h2 := consecutive_le16 l hc
  rw [List.length_take]
  have : l.length * m ≤ 16 * m := Nat.mul_le_mul_right m h2
  omega

open Iodine.Client in
/-- **more_than_16_fragments_never_completes** (client).  If no answer of the run carries more than `m` payload bytes,
then every buffer the DNS-mode reassembler hands to `uncompress` has at most `16 m` bytes: an image `img` longer than
that — one that needs more than 16 fragments of that size — is NEVER what is decompressed and delivered, whatever the
network does.  (On the sending side fragment number 16 wraps to 0 in the 4-bit header field — `hop_lossless_up`: the
header carries `fragment & 15` — so the receiver refuses the 17th fragment as a duplicate and the sender gives up: the
packet is dropped, not corrupted.) -/
theorem more_than_16_fragments_never_completes_client (st0 : CState) (h0 : st0.c.inpkt.len = 0)
    (pre : List CInput) (inp : CInput) (m : Nat)
    (hm : ∀ q ∈ answersOf (pre ++ [inp]), (payloadOfAns q).length ≤ m) (img : List Nat) (himg : 16 * m < img.length) :
    ∀ f ∈ tunWrites (cstep (cafter st0 pre) inp).2.1,
      (∃ l : List Rq, l.Sublist (answersOf (pre ++ [inp])) ∧ Consecutive l ∧ joined l ≠ img ∧ f ∈ delivery (joined l)) ∨
      (∃ b, inp = .rawans b ∧ f ∈ delivery ((b.take 65536).drop 4)) := by
  intro f hf
  rcases delivered_is_concat_of_received_fragments_client st0 h0 pre inp f hf with
    ⟨l, q, _, hsub, hch, _, _, hd⟩ | ⟨d, hlast, hd⟩
  · left
    refine ⟨l, hsub, hch, ?_, hd⟩
    intro he
    have := joined_length_le l m hch (fun q hq => hm q (hsub.subset hq))
    rw [he] at this
    omega
  · right
    refine ⟨d, ?_, hd⟩
    simpa using hlast

open Iodine.Server in
theorem sjoined_length_le (td : List Nat) (l : List Recv) (m : Nat) (hc : Rising td l)
    (hm : ∀ r ∈ l, (r.bytes td).length ≤ m) : (sjoined td l).length ≤ 16 * m := by
  unfold sjoined
  have h1 := flatten_length_le (Recv.bytes td) m l hm
  have h2 := rising_le16 td l hc
  rw [List.length_take]
  have : l.length * m ≤ 16 * m := Nat.mul_le_mul_right m h2
  omega

open Iodine.Server in
/-- **more_than_16_fragments_never_completes** (server): if no data query name decodes (under any of the four codecs) to
more than `m` bytes, every buffer handed to `uncompress` by the DNS-mode reassembler has at most `16 m` bytes. -/
theorem more_than_16_fragments_never_completes_server (cfg : Config) (rnd : List Nat) (pre : List Step) (st : Step)
    (m : Nat)
    (hm : ∀ q ∈ queriesOf (pre ++ [st]), ∀ enc : Enc,
      (payloadOf enc (dataPartOf (start cfg rnd).cfg.topdomain q)).length ≤ m)
    (img : List Nat) (himg : 16 * m < img.length) :
    ∀ f ∈ srvTunWrites (out (runFrom (start cfg rnd) pre) st),
      (∃ l : List Recv, (l.map (·.q)).Sublist (queriesOf (pre ++ [st])) ∧ Rising (start cfg rnd).cfg.topdomain l ∧
        sjoined (start cfg rnd).cfg.topdomain l ≠ img ∧ f ∈ srvFrames (sjoined (start cfg rnd).cfg.topdomain l)) ∨
      (∃ src bytes, st.inp = .rawf src bytes ∧ f ∈ srvFrames ((bytes.take 65536).drop 4)) := by
  intro f hf
  rcases delivered_is_concat_of_received_fragments_server_partial cfg rnd pre st f hf with
    ⟨l, q, u, _, hsub, hch, _, _, _, hd⟩ | ⟨src, bytes, hlast, hd⟩
  · left
    refine ⟨l, hsub, hch, ?_, hd⟩
    intro he
    have := sjoined_length_le _ l m hch (fun r hr => hm r.q (hsub.subset (List.mem_map_of_mem hr)) r.enc)
    rw [he] at this
    omega
  · right
    refine ⟨src, bytes, ?_, hd⟩
    simpa using hlast

open Iodine.Client in
/-- seventeen one-byte fragments of downstream packet 1, numbered 0..15 and — the 4-bit field wraps — 0 again with the
last flag: the seventeenth is refused as a duplicate of fragment 0, nothing is ever delivered -/
example :
    (runDns Ex.c0 ((Ex.feed Ex.c0 (((List.range 16).map fun i => (Kind.next, [0, downHdr 1 i false, 0x5a])) ++
        [(Kind.next, [0, downHdr 1 0 true, 0x5a])])).map (·.2))).map tunWrites = List.replicate 17 [] := by
  decide +kernel

end Sixteen

end Iodine.C01
