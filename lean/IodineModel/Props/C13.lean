import IodineModel.Client.Shell
import IodineModel.Lemmas.Shell
/-
C13 — whatever bytes a server or an on-path relay places in a login reply, the only peer-derived values that
appear in operating-system configuration commands run by the client are syntactically valid dotted-quad IPv4
addresses and decimal integers within the accepted ranges; no other peer-controlled text is ever passed to a shell.

The model (Client/Shell.lean) is `handshake_login` from the received reply on: glibc `sscanf` for
"%64[^-]-%64[^-]-%d-%d", glibc `inet_pton4`, `tun_setip`, `tun_setmtu` with `system()` recorded.
The specification side below is written without reference to the model's code: literals are Lean string
literals, numerals are what Lean's `toString` prints.
-/
namespace Iodine.C13
open Iodine.Client.Shell

/-! ### Specification vocabulary -/

/-- ASCII codes of a literal. -/
def str (s : String) : List Nat := s.toList.map Char.toNat

/-- The decimal numeral of `n` (no sign, no padding, no leading zero; `0` is "0"). -/
def decimal (n : Nat) : List Nat := str (toString n)

/-- Four decimal fields 0..255 without leading zeros, separated by '.', nothing else. -/
def DottedQuad (s : List Nat) : Prop :=
  ∃ a b c d, a ≤ 255 ∧ b ≤ 255 ∧ c ≤ 255 ∧ d ≤ 255 ∧
    s = decimal a ++ str "." ++ decimal b ++ str "." ++ decimal c ++ str "." ++ decimal d

/-- The fixed, compiled-in beginning of both commands. -/
def pfx : List Nat := str "PATH=/sbin:/bin ifconfig "

/-- `PATH=/sbin:/bin ifconfig <dev> <quad> <same quad> netmask <quad>` -/
def ipText (dev a m : List Nat) : List Nat := pfx ++ dev ++ str " " ++ a ++ str " " ++ a ++ str " netmask " ++ m

/-- `PATH=/sbin:/bin ifconfig <dev> mtu <n>` -/
def mtuText (dev : List Nat) (n : Nat) : List Nat := pfx ++ dev ++ str " mtu " ++ decimal n

def IpCmd (dev cmd : List Nat) : Prop := ∃ a m, DottedQuad a ∧ DottedQuad m ∧ cmd = ipText dev a m

def MtuCmd (dev cmd : List Nat) : Prop := ∃ n, 200 < n ∧ n ≤ 1500 ∧ cmd = mtuText dev n

/-- The same two shapes cut to the 511 bytes that fit `char cmdline[512]`. -/
def IpCmdCut (dev cmd : List Nat) : Prop := ∃ a m, DottedQuad a ∧ DottedQuad m ∧ cmd = (ipText dev a m).take 511

def MtuCmdCut (dev cmd : List Nat) : Prop := ∃ n, 200 < n ∧ n ≤ 1500 ∧ cmd = (mtuText dev n).take 511

def IsSpace (c : Nat) : Prop := c = 32 ∨ (9 ≤ c ∧ c ≤ 13)
def IsDigit (c : Nat) : Prop := 48 ≤ c ∧ c ≤ 57

/-- What `%d` consumes: optional white space, an optional single sign, at least one digit. -/
def IntText (t : List Nat) : Prop :=
  ∃ ws sg ds, t = ws ++ sg ++ ds ∧ (∀ c ∈ ws, IsSpace c) ∧ (sg = [] ∨ sg = str "+" ∨ sg = str "-") ∧
    ds ≠ [] ∧ ∀ c ∈ ds, IsDigit c

/-! ### Model printing / validation against the specification vocabulary -/

/-- The model's `%u` prints the specification's numeral. -/
theorem utoa_eq_decimal (n : Nat) : utoa n = decimal n := by
  rw [utoa_eq_toDigits]
  simp [decimal, str, Nat.toList_repr]

/-- The model of glibc's `inet_pton4` accepts exactly the dotted quads of the specification —
so `DottedQuad` is decidable by running it. -/
theorem dottedQuad_iff_inetPton4 (s : List Nat) : DottedQuad s ↔ inetPton4 s = true := by
  have hdot : str "." = [46] := by decide
  constructor
  · rintro ⟨a, b, c, d, ha, hb, hc, hd, hs⟩
    have := inetPton4_of_quad ha hb hc hd
    rw [hs]
    simpa [hdot, utoa_eq_decimal] using this
  · intro h
    obtain ⟨a, b, c, d, ha, hb, hc, hd, hs⟩ := inetPton4_quad h
    exact ⟨a, b, c, d, ha, hb, hc, hd, by rw [hs]; simp [hdot, utoa_eq_decimal]⟩

instance (s : List Nat) : Decidable (DottedQuad s) := decidable_of_iff _ (dottedQuad_iff_inetPton4 s).symm

example : DottedQuad (str "10.0.0.2") ∧ DottedQuad (str "0.0.0.0") ∧ DottedQuad (str "255.255.255.224") := by decide
example : ¬ DottedQuad (str "10.0.0.02") ∧ ¬ DottedQuad (str "10.0.0.2 ;reboot") ∧ ¬ DottedQuad (str "10.0.0.256") ∧
    ¬ DottedQuad (str "1.2.3") ∧ ¬ DottedQuad (str "1") ∧ ¬ DottedQuad (str "0x0a.0.0.2") ∧ ¬ DottedQuad (str "1.2.3.4.") ∧
    ¬ DottedQuad (str " 1.2.3.4") ∧ ¬ DottedQuad (str "1.2.3.4\n") ∧ ¬ DottedQuad (str "1..3.4") := by decide

/-- A dotted quad is 7..15 bytes long. -/
theorem dottedQuad_length {s : List Nat} (h : DottedQuad s) : s.length ≤ 15 := by
  obtain ⟨a, b, c, d, ha, hb, hc, hd, hs⟩ := h
  rw [hs]
  have := utoa_length_le_3 a ha
  have := utoa_length_le_3 b hb
  have := utoa_length_le_3 c hc
  have := utoa_length_le_3 d hd
  have hdot : (str ".").length = 1 := by decide
  simp only [← utoa_eq_decimal, List.length_append, hdot]
  omega

/-! ### The property -/

/-- Structure of what one login reply makes the client run — for every device name, every reply, every
`system()` result: nothing, or the address command, or the address command followed by the MTU command; each
cut to the 511 bytes of `cmdline`. -/
theorem command_list_shape (dev reply : List Nat) (sysret : Int) :
    (loginStep dev reply sysret).commands = [] ∨
    (∃ c, IpCmdCut dev c ∧ (loginStep dev reply sysret).commands = [c]) ∨
    (∃ c m, IpCmdCut dev c ∧ MtuCmdCut dev m ∧ (loginStep dev reply sysret).commands = [c, m]) := by
  have hpfx : ifconfig = pfx := by decide
  have hsp : str " " = [32] := by decide
  have hnm : str " netmask " = sNetmask := by decide
  have hmtu : str " mtu " = sMtu := by decide
  rcases loginStep_cases dev reply sysret with ⟨h, _⟩ | ⟨l, _, _, hc, _, _, _, h⟩
  · exact Or.inl h
  · have hip : IpCmdCut dev (snprintf512 (ifconfig ++ dev ++ 32 :: l.client ++ 32 :: l.client ++ sNetmask ++
        inetNtoa (maskOf l.netmask.toNat))) := by
      refine ⟨l.client, inetNtoa (maskOf l.netmask.toNat), (dottedQuad_iff_inetPton4 _).mpr hc, ?_, ?_⟩
      · obtain ⟨a, b, c, d, ha, hb, hc, hd, he⟩ := inetNtoa_quad (maskOf l.netmask.toNat)
        have hdot : str "." = [46] := by decide
        exact ⟨a, b, c, d, ha, hb, hc, hd, by simp [he, hdot, utoa_eq_decimal]⟩
      · simp [snprintf512, ipText, hpfx, hsp, hnm]
    simp only [] at h
    rcases h with h | ⟨_, hlo, hhi, h⟩
    · exact Or.inr (Or.inl ⟨_, hip, congrArg Outcome.commands h⟩)
    · exact Or.inr (Or.inr ⟨_, _, hip,
        ⟨_, hlo, hhi, by simp [snprintf512, mtuText, hpfx, hmtu, utoa_eq_decimal]⟩, congrArg Outcome.commands h⟩)

/-- Every command handed to `system()` is one of the two fixed shapes, cut to 511 bytes: nothing but the fixed
prefix, the local device name, dotted quads, the word `netmask`/`mtu` and a decimal number in 201..1500. -/
theorem shell_args_general (dev reply : List Nat) (sysret : Int) :
    ∀ cmd ∈ (loginStep dev reply sysret).commands, IpCmdCut dev cmd ∨ MtuCmdCut dev cmd := by
  intro cmd hcmd
  rcases command_list_shape dev reply sysret with h | ⟨c, hc, h⟩ | ⟨c, m, hc, hm, h⟩ <;> rw [h] at hcmd
  · simp at hcmd
  · simp only [List.mem_singleton] at hcmd; subst hcmd; exact Or.inl hc
  · simp only [List.mem_cons, List.not_mem_nil, or_false] at hcmd
    rcases hcmd with rfl | rfl
    · exact Or.inl hc
    · exact Or.inr hm

/-- With a device name of at most 430 bytes nothing is cut (25 + |dev| + 1 + 15 + 1 + 15 + 9 + 15 ≤ 511;
`if_name` holds at most 249 bytes).  The bound is exact, see the example `431` below. -/
theorem cut_is_identity {dev cmd : List Nat} (hdev : dev.length ≤ 430) :
    (IpCmdCut dev cmd → IpCmd dev cmd) ∧ (MtuCmdCut dev cmd → MtuCmd dev cmd) := by
  have hpfx : pfx.length = 25 := by decide
  have hsp : (str " ").length = 1 := by decide
  have hnm : (str " netmask ").length = 9 := by decide
  have hmtu : (str " mtu ").length = 5 := by decide
  constructor
  · rintro ⟨a, m, ha, hm, rfl⟩
    refine ⟨a, m, ha, hm, List.take_of_length_le ?_⟩
    have := dottedQuad_length ha
    have := dottedQuad_length hm
    simp only [ipText, List.length_append, hpfx, hsp, hnm]
    omega
  · rintro ⟨n, hlo, hhi, rfl⟩
    refine ⟨n, hlo, hhi, List.take_of_length_le ?_⟩
    have := utoa_length_le_4 n hhi
    simp only [mtuText, List.length_append, hpfx, hmtu, ← utoa_eq_decimal]
    omega

/-- C13: every command is exactly `PATH=/sbin:/bin ifconfig <dev> <quad> <quad> netmask <quad>` or
`PATH=/sbin:/bin ifconfig <dev> mtu <201..1500>`. -/
theorem shell_args_are_quads_and_ranged_ints (dev reply : List Nat) (sysret : Int) (hdev : dev.length ≤ 430) :
    ∀ cmd ∈ (loginStep dev reply sysret).commands, IpCmd dev cmd ∨ MtuCmd dev cmd := by
  intro cmd hcmd
  rcases shell_args_general dev reply sysret cmd hcmd with h | h
  · exact Or.inl ((cut_is_identity hdev).1 h)
  · exact Or.inr ((cut_is_identity hdev).2 h)

/-- The command list is `[]`, `[ip]` or `[ip, mtu]`: the MTU command only ever follows the address command. -/
theorem mtu_only_after_ip (dev reply : List Nat) (sysret : Int) (hdev : dev.length ≤ 430) :
    (loginStep dev reply sysret).commands = [] ∨
    (∃ c, IpCmd dev c ∧ (loginStep dev reply sysret).commands = [c]) ∨
    (∃ c m, IpCmd dev c ∧ MtuCmd dev m ∧ (loginStep dev reply sysret).commands = [c, m]) := by
  rcases command_list_shape dev reply sysret with h | ⟨c, hc, h⟩ | ⟨c, m, hc, hm, h⟩
  · exact Or.inl h
  · exact Or.inr (Or.inl ⟨c, (cut_is_identity hdev).1 hc, h⟩)
  · exact Or.inr (Or.inr ⟨c, m, (cut_is_identity hdev).1 hc, (cut_is_identity hdev).2 hm, h⟩)

/-- At most two commands per login reply (for every device name). -/
theorem at_most_two_commands (dev reply : List Nat) (sysret : Int) :
    (loginStep dev reply sysret).commands.length ≤ 2 := by
  rcases command_list_shape dev reply sysret with h | ⟨c, _, h⟩ | ⟨c, m, _, _, h⟩ <;> simp [h]

/-- `handshake_login` reports success only after both commands ran. -/
theorem ok_only_after_both_commands (dev reply : List Nat) (sysret : Int)
    (h : (loginStep dev reply sysret).result = .ok) : (loginStep dev reply sysret).commands.length = 2 := by
  rcases loginStep_cases dev reply sysret with ⟨_, hne⟩ | ⟨l, _, _, _, _, _, _, h'⟩
  · exact absurd h hne
  · simp only [] at h'
    rcases h' with h' | ⟨_, _, _, h'⟩
    · rw [h'] at h; simp at h
    · simp [h']

/-- Anything is run only if the visible part of the reply (up to the first NUL) reads
`<quad>-<quad>-<int>-<int>…`: two strict dotted quads, two integers in `%d` syntax; what follows the fourth
field is ignored, bytes after a NUL are never looked at. -/
theorem no_command_unless_four_fields (dev reply : List Nat) (sysret : Int)
    (h : (loginStep dev reply sysret).commands ≠ []) :
    ∃ f1 f2 i3 i4 tail hidden,
      reply = f1 ++ str "-" ++ f2 ++ str "-" ++ i3 ++ str "-" ++ i4 ++ tail ++ hidden ∧
      DottedQuad f1 ∧ DottedQuad f2 ∧ IntText i3 ∧ IntText i4 ∧
      0 ∉ f1 ++ str "-" ++ f2 ++ str "-" ++ i3 ++ str "-" ++ i4 ++ tail ∧ (hidden = [] ∨ hidden.head? = some 0) := by
  have hdash : str "-" = [45] := by decide
  have hplus : str "+" = [43] := by decide
  rcases loginStep_cases dev reply sysret with ⟨h0, _⟩ | ⟨l, hl, _, hc, hs, _, _, _⟩
  · exact absurd h0 h
  · obtain ⟨_, _, r3, r4, tail, hvis, _, _, h3, h4, _, _⟩ := scanLogin_some hl
    obtain ⟨ws3, sg3, ds3, e3, hws3, hsg3, hds3, hdg3, _⟩ := scanInt_some h3
    obtain ⟨ws4, sg4, ds4, e4, hws4, hsg4, hds4, hdg4, _⟩ := scanInt_some h4
    have hsp : ∀ c, isSpace c = true → IsSpace c := by
      intro c hc; simp [isSpace] at hc; unfold IsSpace; omega
    have hdg : ∀ c, isDigit c = true → IsDigit c := by
      intro c hc; simp [isDigit] at hc; exact hc
    have hvis' : cstr reply = l.server ++ str "-" ++ l.client ++ str "-" ++ (ws3 ++ sg3 ++ ds3) ++ str "-" ++
        (ws4 ++ sg4 ++ ds4) ++ tail := by
      rw [hvis, e3, e4, hdash]; simp
    refine ⟨l.server, l.client, ws3 ++ sg3 ++ ds3, ws4 ++ sg4 ++ ds4, tail, reply.dropWhile (· ≠ 0), ?_,
      (dottedQuad_iff_inetPton4 _).mpr hs, (dottedQuad_iff_inetPton4 _).mpr hc,
      ⟨ws3, sg3, ds3, rfl, fun c hc => hsp c (hws3 c hc), by rw [hplus, hdash]; exact hsg3, hds3, fun c hc => hdg c (hdg3 c hc)⟩,
      ⟨ws4, sg4, ds4, rfl, fun c hc => hsp c (hws4 c hc), by rw [hplus, hdash]; exact hsg4, hds4, fun c hc => hdg c (hdg4 c hc)⟩,
      ?_, ?_⟩
    · rw [← hvis']; exact (List.takeWhile_append_dropWhile (p := (· ≠ 0)) (l := reply)).symm
    · rw [← hvis']
      intro h0
      have := of_mem_takeWhile (p := (· ≠ 0)) h0
      simp at this
    · rcases dropWhile_head (· ≠ 0) reply with h0 | ⟨x, t, hx, hp⟩
      · exact Or.inl h0
      · right; rw [hx]; simp at hp; simp [hp]

/-- A reply starting with "LNAK" or "BADIP" runs nothing. -/
theorem lnak_badip_no_command (dev rest : List Nat) (sysret : Int) :
    loginStep dev (str "LNAK" ++ rest) sysret = ⟨[], .badPassword⟩ ∧
    loginStep dev (str "BADIP" ++ rest) sysret = ⟨[], .badIp⟩ := by
  have h1 : str "LNAK" = [76, 78, 65, 75] := by decide
  have h2 : str "BADIP" = [66, 65, 68, 73, 80] := by decide
  rw [h1, h2]
  constructor
  · simp [loginStep, cstr, sLNAK]
  · simp [loginStep, cstr, sLNAK, sBADIP]

/-! ### Non-vacuity -/

/-- a good reply produces the two commands -/
example : loginStep (str "dns0") (str "10.0.0.1-10.0.0.2-1130-27") =
    ⟨[str "PATH=/sbin:/bin ifconfig dns0 10.0.0.2 10.0.0.2 netmask 255.255.255.224",
      str "PATH=/sbin:/bin ifconfig dns0 mtu 1130"], .ok⟩ := by decide +kernel

/-- … and they are instances of the two shapes -/
example : IpCmd (str "dns0") (str "PATH=/sbin:/bin ifconfig dns0 10.0.0.2 10.0.0.2 netmask 255.255.255.224") :=
  ⟨str "10.0.0.2", str "255.255.255.224", by decide, by decide, by decide +kernel⟩
example : MtuCmd (str "dns0") (str "PATH=/sbin:/bin ifconfig dns0 mtu 1130") := ⟨1130, by decide, by decide, by decide +kernel⟩

/-- hostile text after a valid address: nothing is run -/
example : loginStep (str "dns0") (str "10.0.0.1-10.0.0.2 ;reboot-1130-27") = ⟨[], .errx⟩ := by decide +kernel
example : loginStep (str "dns0") (str "10.0.0.1;id-10.0.0.2-1130-27") = ⟨[], .errx⟩ := by decide +kernel
example : loginStep (str "dns0") (str "10.0.0.1-$(id)-1130-27") = ⟨[], .errx⟩ := by decide +kernel
/-- hostile text in the integer fields never reaches a command: `%d` stops at the first non-digit -/
example : loginStep [] (str "10.0.0.1-10.0.0.2-1130-27;id") =
    ⟨[str "PATH=/sbin:/bin ifconfig  10.0.0.2 10.0.0.2 netmask 255.255.255.224", str "PATH=/sbin:/bin ifconfig  mtu 1130"], .ok⟩ := by
  decide +kernel
example : (loginStep [] (str "10.0.0.1-10.0.0.2-1130`id`-27")).commands = [] := by decide +kernel
/-- the address command alone (mtu out of range → errx after one command) -/
example : loginStep [] (str "10.0.0.1-10.0.0.2-200-27") =
    ⟨[str "PATH=/sbin:/bin ifconfig  10.0.0.2 10.0.0.2 netmask 255.255.255.224"], .errx⟩ := by decide +kernel
/-- `int` truncation: 2^32 + 201 is accepted as 201, 2^32 + 27 as /27 -/
example : (loginStep [] (str "10.0.0.1-10.0.0.2-4294967497-4294967323")).commands =
    [str "PATH=/sbin:/bin ifconfig  10.0.0.2 10.0.0.2 netmask 255.255.255.224", str "PATH=/sbin:/bin ifconfig  mtu 201"] := by
  decide +kernel
/-- bytes after a NUL are invisible; LNAK / BADIP -/
example : (loginStep [] (str "10.0.0.1-10.0.0.2-1130-27" ++ 0 :: str ";id")).commands.length = 2 := by decide +kernel
example : (loginStep [] (str "LNAK-10.0.0.2-1130-27")).commands = [] ∧ (loginStep [] (str "BADIP")).result = .badIp := by
  decide +kernel
/-- hypothesis of `no_command_unless_four_fields` is satisfiable -/
example : (loginStep [] (str "10.0.0.1-10.0.0.2- +1130- 27")).commands ≠ [] := by decide +kernel

/-- The bound 430 is exact: with a 431-byte device name and 15-byte addresses the address command would be
512 bytes long and loses its last byte (still only prefix, device name, quads — `shell_args_general`). -/
example :
    let dev := List.replicate 431 97
    let full := ipText dev (str "100.100.100.100") (str "255.255.255.224")
    (loginStep dev (str "100.100.100.100-100.100.100.100-1130-27")).commands = [full.take 511, mtuText dev 1130] ∧
    full.length = 512 := by
  decide +kernel

end Iodine.C13
