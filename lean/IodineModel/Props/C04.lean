import IodineModel.Server.Run
import IodineModel.Lemmas.SrvC04a
import IodineModel.Lemmas.SrvC04b
import IodineModel.Lemmas.SrvC04c
import IodineModel.Lemmas.SrvC04d
import IodineModel.Lemmas.SrvC04e
import IodineModel.Lemmas.SrvC04f
import IodineModel.Props.C18
/-
C04 — Sessions are isolated: source check, routing by tunnel address, slot ownership.

With source-address checking enabled (the default), a DNS-mode request naming a session's userid but arriving from a
different address than the one bound to it is refused and changes nothing for that session (only a raw-mode login
proving knowledge of the password may rebind it).  A packet arriving on the server's tun device for tunnel address A is
sent only to the live, logged-in session that was assigned A (otherwise dropped), and a new version/login request
never takes over a slot whose session was active during the last 60 seconds, while a session silent for more than
60 seconds is refused and its slot becomes reusable.

All theorems are about the HANDLER PHASE `dispatch s inp tunsel` of one loop iteration of the model
(Server/Loop.lean), for EVERY state `s` unless `Reachable` is mentioned.

Only the specification vocabulary, the property statements (each followed by a non-vacuity example on the concrete
scenario `Ex`) and the private bridging lemmas between the specification vocabulary and the model's live here; the
model-side lemmas are in Lemmas/SrvC04{a,b,c,d,e,f}.lean (namespace C04L).  The specification vocabulary is written
from the protocol document (doc/proto_00000502.txt): which session a request names, what a refusal looks like, who
owns a tunnel address.
-/
namespace Iodine.C04
open Iodine Iodine.Server Iodine.Gen

/-! ### Specification vocabulary -/

/-- ASCII lower-casing of a command character -/
def lower (c : Nat) : Nat := if 65 ≤ c ∧ c ≤ 90 then c + 32 else c

/-- the data part of the query name: the first `dlen` characters (those in front of the topdomain; the server looks at
no more than 512 of them) -/
def payload (q : Query) (dlen : Nat) : List Nat := q.name.take (min dlen 512)

/-- the Base32 decoding of everything behind the command character (dots are skipped) -/
def decoded (q : Query) (dlen : Nat) : List Nat := Encoding.unpackData Codec.b32 65536 ((payload q dlen).drop 1)

/-- a byte read as a C `signed char` -/
def schar (b : Nat) : Int := if b % 256 < 128 then ((b % 256 : Nat) : Int) else ((b % 256 : Nat) : Int) - 256

/-- value of a Base32 digit (0 for a character outside the alphabet) -/
def digit32 (c : Nat) : Nat := Codec.b32.rev (c % 256)

/-- value of a lower-case hexadecimal digit -/
def hexVal (c : Nat) : Option Nat :=
  if 48 ≤ c ∧ c ≤ 57 then some (c - 48) else if 97 ≤ c ∧ c ≤ 102 then some (c - 87) else none

/-- the A-record query for `ns.<topdomain>` (answered with the server's address, not a tunnel request) -/
def IsNsQuery (q : Query) (dlen : Nat) : Prop :=
  dlen = 3 ∧ q.type = T_A ∧ lower (q.name.getD 0 0) = 110 ∧ lower (q.name.getD 1 0) = 115 ∧ q.name.getD 2 0 = 46

/-- the A-record query for `www.<topdomain>` -/
def IsWwwQuery (q : Query) (dlen : Nat) : Prop :=
  dlen = 4 ∧ q.type = T_A ∧ lower (q.name.getD 0 0) = 119 ∧ lower (q.name.getD 1 0) = 119 ∧
    lower (q.name.getD 2 0) = 119 ∧ q.name.getD 3 0 = 46

/-- a DNS-mode tunnel request: a query inside the tunnel domain with `dlen ≥ 2` data characters, of one of the query
types the tunnel uses, that is not one of the two plain A-record queries the server answers itself -/
def IsTunnelRequest (q : Query) (dlen : Nat) : Prop :=
  2 ≤ dlen ∧ q.type ∈ [T_NULL, T_PRIVATE, T_CNAME, T_A, T_MX, T_SRV, T_TXT] ∧ ¬ IsNsQuery q dlen ∧ ¬ IsWwwQuery q dlen

instance (q : Query) (dlen : Nat) : Decidable (IsTunnelRequest q dlen) := by
  unfold IsTunnelRequest IsNsQuery IsWwwQuery; exact inferInstance

/-- THE USERID A DNS-MODE REQUEST NAMES, per command character (protocol document):
`l n p` (login, set fragment size, ping): the first decoded Base32 byte, a signed char;
`i s o` (ip, switch codec, options): the value of the Base32 digit in second position;
`r` (fragsize probe): bits 1..4 of that digit;
a hexadecimal digit (upstream data): its value;
`v y z` and everything else name no session. -/
def names (q : Query) (dlen : Nat) : Option Int :=
  if ¬ IsTunnelRequest q dlen then none
  else
    let p := payload q dlen
    let c := lower (p.getD 0 0)
    if c = 108 ∨ c = 110 ∨ c = 112 then some (schar ((decoded q dlen).getD 0 0))
    else if c = 105 ∨ c = 115 ∨ c = 111 then some ((digit32 (p.getD 1 0) : Nat) : Int)
    else if c = 114 then some (((digit32 (p.getD 1 0) >>> 1) &&& 15 : Nat) : Int)
    else match hexVal c with
      | some v => some ((v : Nat) : Int)
      | none => none

/-- the error answer `BADIP` to query `q` (always Base32-coded, downstream codec 'T') -/
def badip (q : Query) : Event := Event.ans q.from_ q.id q.type 84 q.name [66, 65, 68, 73, 80] .ctrl
/-- the error answer `BADLEN` -/
def badlen (q : Query) : Event := Event.ans q.from_ q.id q.type 84 q.name [66, 65, 68, 76, 69, 78] .ctrl

/-- WHAT A REFUSED REQUEST IS ANSWERED WITH: `BADIP`, except that a request too short to carry its fixed fields is
answered `BADLEN` (login: 17 decoded bytes, set-fragsize: 3; switch/options: 3 characters, probe: 16) and that a ping
or data request that is too short or has DNS id 0 is dropped without an answer. -/
def refusal (q : Query) (dlen : Nat) : List Event :=
  let c := lower ((payload q dlen).getD 0 0)
  let n := (decoded q dlen).length
  if c = 108 then (if n < 17 then [badlen q] else [badip q])
  else if c = 110 then (if n < 3 then [badlen q] else [badip q])
  else if c = 112 then (if q.id = 0 ∨ n < 4 then [] else [badip q])
  else if c = 115 ∨ c = 111 then (if dlen < 3 then [badlen q] else [badip q])
  else if c = 114 then (if dlen < 16 then [badlen q] else [badip q])
  else if c = 105 then [badip q]
  else (if dlen < 6 ∨ q.id = 0 then [] else [badip q])

/-- the address slot `u` is bound to -/
def bound (s : Srv) (u : Nat) : Addr := (getUser s u).host

/-! ### A concrete scenario for the non-vacuity examples

Server 10.0.0.1/29 (five slots, 10.0.0.2 .. 10.0.0.6) with topdomain `t.io`, source checking on, all-zero password, `rand()` returning 42, 43.
Alice (192.168.1.1) does the version handshake (slot 0, seed 42, tunnel address 10.0.0.2) and logs in; later she switches
to lazy mode and has a ping waiting; Bob (192.168.1.2) gets slot 1 (seed 43, 10.0.0.3).  Mallory is 192.168.1.223. -/
namespace Ex

def cfg : Config :=
  { checkIp := true, password := List.replicate 32 0, myIp := 167772161, netmask := 29, topdomain := [116, 46, 105, 111],
    mtu := 1130, nsIp := 0, bindPort := 0, dest4 := 0, dest6 := 0, createdUsers := 0 }
def alice : Addr := ⟨4, 3232235777, 40000⟩
def bob : Addr := ⟨4, 3232235778, 40001⟩
def mallory : Addr := ⟨4, 3232235999, 40000⟩
/-- a NULL-type query `<data>.t.io` with DNS id `id` from address `a` -/
def mkq (data : List Nat) (id : Nat) (a : Addr) : Query :=
  ⟨data ++ [46, 116, 46, 105, 111], 10, id, a, 0, Addr.zero, Addr.zero⟩
/-- `V`: protocol version 0x00000502 -/
def vq (a : Addr) : Query := mkq ([118] ++ Codec.encFull Codec.b32 [0, 0, 5, 2, 0]) 7 a
/-- `L`: userid, the 16-byte login hash for `seed`, one more byte -/
def lqGen (uid seed : Nat) (a : Addr) : Query :=
  mkq ([108] ++ Codec.encFull Codec.b32 ([uid] ++ Login.loginCalcC cfg.password seed ++ [0])) 9 a
/-- the two logins used below, written out (so that the examples do not recompute MD5 to build the query) -/
def lq (uid seed : Nat) (a : Addr) : Query :=
  if uid = 0 ∧ seed = 42 then
    mkq [108, 97, 99, 52, 110, 110, 48, 121, 119, 103, 109, 113, 110, 105, 109, 101, 48, 50, 110, 50, 112, 103, 107, 109,
      101, 102, 100, 103, 113, 97] 9 a
  else if uid = 1 ∧ seed = 43 then
    mkq [108, 97, 101, 122, 103, 51, 114, 122, 104, 122, 109, 50, 49, 119, 113, 53, 113, 116, 113, 50, 97, 111, 105, 117,
      53, 118, 102, 48, 113, 97] 9 a
  else lqGen uid seed a
/-- `P`: userid and three more bytes -/
def pq (uid id : Nat) (a : Addr) : Query := mkq ([112] ++ Codec.encFull Codec.b32 [uid, 0, 0, 0]) id a
/-- `O`: options, userid 0 (`a`), lazy mode (`l`) -/
def oq (a : Addr) : Query := mkq [111, 97, 108] 11 a
/-- state after the handler phase for query `q` -/
def st (s : Srv) (q : Query) : Srv := (dispatch s (.q q) false).1
def s0 : Srv := start cfg [42, 43]
/-- Alice allocated slot 0 -/
def s1 : Srv := st s0 (vq alice)
/-- ... and logged in -/
def s2 : Srv := st s1 (lq 0 42 alice)
/-- ... switched to lazy mode and has ping 21 waiting -/
def s4 : Srv := st (st s2 (oq alice)) (pq 0 21 alice)
/-- ... and Bob has slot 1 and is logged in -/
def s5 : Srv := st (st s4 (vq bob)) (lq 1 43 bob)
/-- a 24-byte tun frame (4-byte header + IPv4 header) from 10.0.0.9 to 10.0.0.`d` -/
def frame (d : Nat) : List Nat := [0, 0, 8, 0, 0x45, 0, 0, 20, 0, 0, 0, 0, 64, 17, 0, 0, 10, 0, 0, 9, 10, 0, 0, d]
/-- slot `u` has reassembled the (compressed) packet `frame d` -/
def withUpstream (s : Srv) (u d : Nat) : Srv :=
  setUser s u (fun x => { x with inpacket := { x.inpacket with data := 0x5a :: frame d, len := 25 } })


example : lq 0 42 alice = lqGen 0 42 alice ∧ lq 1 43 bob = lqGen 1 43 bob := by decide +kernel

end Ex

/-! ### Bridging: specification vocabulary ↔ model vocabulary (C04L) -/

section Bridge
open Iodine.C04L

private theorem lower_eq (c k : Nat) (hk : 97 ≤ k ∧ k ≤ 122) : lower c = k ↔ (c = k - 32 ∨ c = k) := by
  unfold lower; split <;> omega

private theorem schar_eq (b : Nat) : schar b = charVal b := by
  unfold schar charVal sChar; split <;> omega

private theorem hexVal_eq (c : Nat) (v : Nat) (h : hexVal (lower c) = some v) :
    isHexDigit c = true ∧ hexCode c = (v : Int) ∧ ((48 ≤ c ∧ c ≤ 57) ∨ (65 ≤ c ∧ c ≤ 70) ∨ (97 ≤ c ∧ c ≤ 102)) := by
  unfold hexVal lower at h
  unfold isHexDigit hexCode
  split at h <;> split at h
  all_goals first
    | (split at h <;> first | cases h | skip)
    | skip
  all_goals (try simp only [Option.some.injEq] at h)
  all_goals (refine ⟨by simp; omega, ?_, by omega⟩)
  all_goals (dsimp only; repeat' split)
  all_goals omega

private theorem badip_eq (q : Query) : C04L.badip q = badip q := by
  unfold C04L.badip badip writeDns; rfl
private theorem badlen_eq (q : Query) : C04L.badlen q = badlen q := by
  unfold C04L.badlen badlen writeDns; rfl

/-- a request that names `u` is handled by `handle_null_request`, with a command whose handler extracts `u` and
refuses in the way `refusal` says -/
private theorem names_bridge (s : Srv) (q : Query) (dlen : Nat) (u : Int)
    (hd : Common.queryDatalen q.name s.cfg.topdomain = some dlen) (hn : names q dlen = some u) :
    ∃ cmd, tunnelDns s q = runCmd s q dlen cmd ∧ uidOf q dlen cmd = u ∧ refusalOf q dlen cmd = refusal q dlen ∧
      cmdOf ((inbOf q dlen).getD 0 0) = some cmd := by
  unfold names at hn
  split at hn
  · cases hn
  next hreq =>
  have hreq : IsTunnelRequest q dlen := by
    by_cases h : IsTunnelRequest q dlen
    · exact h
    · exact absurd h hreq
  obtain ⟨h2, hty, hns, hwww⟩ := hreq
  have hns' : ¬ isNsA q dlen := by
    intro h; apply hns
    obtain ⟨a, b, c, d, e⟩ := h
    exact ⟨a, b, (lower_eq _ 110 (by omega)).2 (by omega), (lower_eq _ 115 (by omega)).2 (by omega), e⟩
  have hwww' : ¬ isWwwA q dlen := by
    intro h; apply hwww
    obtain ⟨a, b, c, d, e, f⟩ := h
    exact ⟨a, b, (lower_eq _ 119 (by omega)).2 (by omega), (lower_eq _ 119 (by omega)).2 (by omega),
      (lower_eq _ 119 (by omega)).2 (by omega), f⟩
  have hty' : tunnelType q.type := by
    unfold tunnelType
    simp only [List.mem_cons, List.not_mem_nil, or_false] at hty
    exact hty
  have hnull := tunnelDns_null s q dlen hd hns' hwww' hty'
  suffices hs : ∃ cmd, cmdOf ((inbOf q dlen).getD 0 0) = some cmd ∧ uidOf q dlen cmd = u ∧
      refusalOf q dlen cmd = refusal q dlen by
    obtain ⟨cmd, hc, hu, hr⟩ := hs
    exact ⟨cmd, by rw [hnull, handleNullRequest_cmd s q dlen cmd h2 hc], hu, hr, hc⟩
  dsimp only at hn
  have hp : payload q dlen = inbOf q dlen := rfl
  have hdec : decoded q dlen = unpOf q dlen := rfl
  unfold refusal
  dsimp only
  rw [hp, hdec] at hn ⊢
  generalize hcdef : (inbOf q dlen).getD 0 0 = c at hn ⊢
  simp only [← badip_eq, ← badlen_eq]
  have key : ∀ cmd (R : List Event), cmdOf c = some cmd → uidOf q dlen cmd = u → refusalOf q dlen cmd = R →
      ∃ cmd, cmdOf c = some cmd ∧ uidOf q dlen cmd = u ∧ refusalOf q dlen cmd = R :=
    fun cmd R hc hu hr => ⟨cmd, hc, hu, hr⟩
  split at hn
  · -- l n p
    next hc =>
    simp only [Option.some.injEq] at hn
    rw [schar_eq] at hn
    rcases hc with hc | hc | hc
    · refine key .login _ ?_ hn ?_
      · rcases (lower_eq c 108 (by omega)).1 hc with h | h <;> subst h <;> rfl
      · rw [if_pos hc]; rfl
    · refine key .setfrag _ ?_ hn ?_
      · rcases (lower_eq c 110 (by omega)).1 hc with h | h <;> subst h <;> rfl
      · rw [if_neg (by omega), if_pos hc]; rfl
    · refine key .ping _ ?_ hn ?_
      · rcases (lower_eq c 112 (by omega)).1 hc with h | h <;> subst h <;> rfl
      · rw [if_neg (by omega), if_neg (by omega), if_pos hc]; rfl
  next hc1 =>
  split at hn
  · -- i s o
    next hc =>
    simp only [Option.some.injEq] at hn
    rcases hc with hc | hc | hc
    · refine key .ip _ ?_ hn ?_
      · rcases (lower_eq c 105 (by omega)).1 hc with h | h <;> subst h <;> rfl
      · rw [if_neg (by omega), if_neg (by omega), if_neg (by omega), if_neg (by omega), if_neg (by omega), if_pos hc]; rfl
    · refine key .switch _ ?_ hn ?_
      · rcases (lower_eq c 115 (by omega)).1 hc with h | h <;> subst h <;> rfl
      · rw [if_neg (by omega), if_neg (by omega), if_neg (by omega), if_pos (Or.inl hc)]; rfl
    · refine key .options _ ?_ hn ?_
      · rcases (lower_eq c 111 (by omega)).1 hc with h | h <;> subst h <;> rfl
      · rw [if_neg (by omega), if_neg (by omega), if_neg (by omega), if_pos (Or.inr hc)]; rfl
  next hc2 =>
  split at hn
  · -- r
    next hc =>
    simp only [Option.some.injEq] at hn
    refine key .probe _ ?_ hn ?_
    · rcases (lower_eq c 114 (by omega)).1 hc with h | h <;> subst h <;> rfl
    · rw [if_neg (by omega), if_neg (by omega), if_neg (by omega), if_neg (by omega), if_pos hc]; rfl
  next hc3 =>
  -- hex digit
  split at hn
  · next v hv =>
    simp only [Option.some.injEq] at hn
    obtain ⟨hx, hcode, hrange⟩ := hexVal_eq c v hv
    have hlow : lower c = c ∨ lower c = c + 32 := by unfold lower; split <;> omega
    have hl2 : (48 ≤ lower c ∧ lower c ≤ 57) ∨ (97 ≤ lower c ∧ lower c ≤ 102) := by
      unfold lower; split <;> omega
    refine key .data _ ?_ ?_ ?_
    · unfold cmdOf
      rw [if_neg (by omega), if_neg (by omega), if_neg (by omega), if_neg (by omega), if_neg (by omega),
        if_neg (by omega), if_neg (by omega), if_neg (by omega), if_neg (by omega), if_neg (by omega), if_pos hx]
    · unfold uidOf; dsimp only; rw [hcdef, hcode, hn]
    · rw [if_neg (by omega), if_neg (by omega), if_neg (by omega), if_neg (by omega), if_neg (by omega),
        if_neg (by omega)]; rfl
  · cases hn

private theorem hexVal_of_isHex (c : Nat) (h : isHexDigit c = true) :
    ∃ v, hexVal (lower c) = some v ∧ hexCode c = (v : Int) := by
  unfold isHexDigit at h
  simp only [Bool.or_eq_true, Bool.and_eq_true, decide_eq_true_eq] at h
  rcases h with (h | h) | h
  · have hl : lower c = c := by unfold lower; rw [if_neg (by omega)]
    refine ⟨c - 48, ?_, ?_⟩
    · rw [hl]; unfold hexVal; rw [if_pos (by omega)]
    · unfold hexCode; dsimp only; rw [if_neg (by omega), if_neg (by omega), if_pos (by omega)]; omega
  · have hl : lower c = c := by unfold lower; rw [if_neg (by omega)]
    refine ⟨c - 87, ?_, ?_⟩
    · rw [hl]; unfold hexVal; rw [if_neg (by omega), if_pos (by omega)]
    · unfold hexCode; dsimp only; rw [if_neg (by omega), if_pos (by omega)]; omega
  · have hl : lower c = c + 32 := by unfold lower; rw [if_pos (by omega)]
    refine ⟨c + 32 - 87, ?_, ?_⟩
    · rw [hl]; unfold hexVal; rw [if_neg (by omega), if_pos (by omega)]
    · unfold hexCode; dsimp only; rw [if_pos (by omega)]; omega

private theorem isTunnelRequest_of (q : Query) (dlen : Nat) (h2 : 2 ≤ dlen) (hns : ¬ isNsA q dlen)
    (hwww : ¬ isWwwA q dlen) (hty : tunnelType q.type) : IsTunnelRequest q dlen := by
  refine ⟨h2, ?_, ?_, ?_⟩
  · unfold tunnelType at hty
    simp only [List.mem_cons, List.not_mem_nil, or_false]
    exact hty
  · intro h; apply hns
    obtain ⟨a, b, c, d, e⟩ := h
    exact ⟨a, b, by have := (lower_eq _ 110 (by omega)).1 c; omega, by have := (lower_eq _ 115 (by omega)).1 d; omega, e⟩
  · intro h; apply hwww
    obtain ⟨a, b, c, d, e, f⟩ := h
    exact ⟨a, b, by have := (lower_eq _ 119 (by omega)).1 c; omega, by have := (lower_eq _ 119 (by omega)).1 d; omega,
      by have := (lower_eq _ 119 (by omega)).1 e; omega, f⟩

/-- converse of `names_bridge`: the userid the handler of a tunnel request extracts is the one the request names -/
private theorem names_of_cmd (q : Query) (dlen : Nat) (cmd : Cmd) (hreq : IsTunnelRequest q dlen)
    (hc : cmdOf ((inbOf q dlen).getD 0 0) = some cmd) :
    names q dlen = some (uidOf q dlen cmd) ∧
      (cmd = .data → (hexVal (lower ((payload q dlen).getD 0 0))).isSome = true) := by
  unfold names
  rw [if_neg (fun h => h hreq)]
  dsimp only
  have hp : payload q dlen = inbOf q dlen := rfl
  have hdec : decoded q dlen = unpOf q dlen := rfl
  rw [hp, hdec]
  have huid : ∀ cmd, uidOf q dlen cmd = match cmd with
      | .login | .setfrag | .ping => charVal ((unpOf q dlen).getD 0 0)
      | .ip | .switch | .options => ((b32_8to5 ((inbOf q dlen).getD 1 0) : Nat) : Int)
      | .probe => ((((b32_8to5 ((inbOf q dlen).getD 1 0)) >>> 1) &&& 15 : Nat) : Int)
      | .data => hexCode ((inbOf q dlen).getD 0 0) := by
    intro cmd; cases cmd <;> rfl
  rw [huid]
  generalize (inbOf q dlen).getD 0 0 = c at hc ⊢
  have L := fun k hk => (lower_eq c k hk).2
  unfold cmdOf at hc
  by_cases n0 : c = 86 ∨ c = 118
  · rw [if_pos n0] at hc
    cases hc
  rw [if_neg n0] at hc
  by_cases n1 : c = 76 ∨ c = 108
  · rw [if_pos n1] at hc
    cases hc
    have hl := L 108 (by omega) (by omega)
    rw [if_pos (Or.inl hl), schar_eq]
    exact ⟨rfl, fun e => by cases e⟩
  rw [if_neg n1] at hc
  by_cases n2 : c = 73 ∨ c = 105
  · rw [if_pos n2] at hc
    cases hc
    have hl := L 105 (by omega) (by omega)
    rw [if_neg (by omega), if_pos (Or.inl hl)]
    exact ⟨rfl, fun e => by cases e⟩
  rw [if_neg n2] at hc
  by_cases n3 : c = 90 ∨ c = 122
  · rw [if_pos n3] at hc
    cases hc
  rw [if_neg n3] at hc
  by_cases n4 : c = 83 ∨ c = 115
  · rw [if_pos n4] at hc
    cases hc
    have hl := L 115 (by omega) (by omega)
    rw [if_neg (by omega), if_pos (Or.inr (Or.inl hl))]
    exact ⟨rfl, fun e => by cases e⟩
  rw [if_neg n4] at hc
  by_cases n5 : c = 79 ∨ c = 111
  · rw [if_pos n5] at hc
    cases hc
    have hl := L 111 (by omega) (by omega)
    rw [if_neg (by omega), if_pos (Or.inr (Or.inr hl))]
    exact ⟨rfl, fun e => by cases e⟩
  rw [if_neg n5] at hc
  by_cases n6 : c = 89 ∨ c = 121
  · rw [if_pos n6] at hc
    cases hc
  rw [if_neg n6] at hc
  by_cases n7 : c = 82 ∨ c = 114
  · rw [if_pos n7] at hc
    cases hc
    have hl := L 114 (by omega) (by omega)
    rw [if_neg (by omega), if_neg (by omega), if_pos hl]
    exact ⟨rfl, fun e => by cases e⟩
  rw [if_neg n7] at hc
  by_cases n8 : c = 78 ∨ c = 110
  · rw [if_pos n8] at hc
    cases hc
    have hl := L 110 (by omega) (by omega)
    rw [if_pos (Or.inr (Or.inl hl)), schar_eq]
    exact ⟨rfl, fun e => by cases e⟩
  rw [if_neg n8] at hc
  by_cases n9 : c = 80 ∨ c = 112
  · rw [if_pos n9] at hc
    cases hc
    have hl := L 112 (by omega) (by omega)
    rw [if_pos (Or.inr (Or.inr hl)), schar_eq]
    exact ⟨rfl, fun e => by cases e⟩
  rw [if_neg n9] at hc
  by_cases h : isHexDigit c = true
  · rw [if_pos h] at hc
    cases hc
    obtain ⟨v, hv, hcode⟩ := hexVal_of_isHex c h
    have hl2 : (48 ≤ lower c ∧ lower c ≤ 57) ∨ (97 ≤ lower c ∧ lower c ≤ 102) := by
      unfold hexVal at hv
      split at hv
      · next h' => exact Or.inl h'
      · split at hv
        · next h' => exact Or.inr h'
        · cases hv
    rw [if_neg (by omega), if_neg (by omega), if_neg (by omega), hv]
    dsimp only
    rw [hcode]
    exact ⟨rfl, fun _ => rfl⟩
  · rw [if_neg h] at hc
    cases hc

end Bridge

/-! ### (A) A refused request changes nothing -/

/-- the answer to a refused request is nothing, `BADLEN` or `BADIP` -/
theorem refusal_cases (q : Query) (dlen : Nat) :
    refusal q dlen = [] ∨ refusal q dlen = [badlen q] ∨ refusal q dlen = [badip q] := by
  unfold refusal
  dsimp only
  repeat' split
  all_goals simp

/-- **Source check.**  With source-address checking on, a DNS-mode request that names userid `u` and arrives from an
address (family, ip) different from the one slot `u` is bound to produces exactly the refusal answer and leaves the
WHOLE server state unchanged — for slot `u` and for every other slot; in particular a refused login does not refresh
the session's clock.  (No hypothesis on `u` is needed: an out-of-range, unused or expired `u` is refused as well.) -/
theorem foreign_source_refused_and_frame (s : Srv) (q : Query) (tunsel : Bool) (dlen : Nat) (u : Int)
    (hck : s.cfg.checkIp = true)
    (hd : Common.queryDatalen q.name s.cfg.topdomain = some dlen)
    (hn : names q dlen = some u)
    (hforeign : (q.from_.fam, q.from_.ip) ≠ ((bound s u.toNat).fam, (bound s u.toNat).ip)) :
    dispatch s (.q q) tunsel = (s, refusal q dlen) := by
  obtain ⟨cmd, hrun, hu, hr, _⟩ := names_bridge s q dlen u hd hn
  show tunnelDns s q = _
  rw [hrun, ← hr]
  apply C04L.runCmd_refused
  apply C04L.rejected_of_check
  rw [hu]
  apply C04L.checkUserAndIp_foreign s u q hck
  intro h
  apply hforeign
  unfold bound
  rw [h.1, h.2]

-- Alice owns slot 0 (logged in, bound to 192.168.1.1).  Mallory's ping naming userid 0 is answered BADIP and changes
-- nothing; so is Mallory's LOGIN with the CORRECT hash (the session clock is not refreshed either); the same ping from
-- Alice's address is accepted (different outcome).
example :
    Ex.s2.cfg.checkIp = true ∧ (getUser Ex.s2 0).active = true ∧ (getUser Ex.s2 0).authenticated = true ∧
    bound Ex.s2 0 = Ex.alice ∧
    Common.queryDatalen (Ex.pq 0 8 Ex.mallory).name Ex.s2.cfg.topdomain = some 9 ∧
    names (Ex.pq 0 8 Ex.mallory) 9 = some 0 ∧
    (Ex.mallory.fam, Ex.mallory.ip) ≠ ((bound Ex.s2 0).fam, (bound Ex.s2 0).ip) ∧
    refusal (Ex.pq 0 8 Ex.mallory) 9 = [badip (Ex.pq 0 8 Ex.mallory)] ∧
    dispatch Ex.s2 (.q (Ex.pq 0 8 Ex.mallory)) false = (Ex.s2, [badip (Ex.pq 0 8 Ex.mallory)]) ∧
    names (Ex.lq 0 42 Ex.mallory) 31 = some 0 ∧
    dispatch Ex.s2 (.q (Ex.lq 0 42 Ex.mallory)) false = (Ex.s2, [badip (Ex.lq 0 42 Ex.mallory)]) ∧
    dispatch Ex.s2 (.q (Ex.pq 0 8 Ex.alice)) false ≠ (Ex.s2, [badip (Ex.pq 0 8 Ex.alice)]) := by
  decide +kernel

/-- **Expiry.**  A DNS-mode request naming a slot that has been silent for more than 60 s is refused in the same way
and changes nothing, whatever its source address (and whether or not source checking is on). -/
theorem expired_refused (s : Srv) (q : Query) (tunsel : Bool) (dlen : Nat) (u : Int)
    (hd : Common.queryDatalen q.name s.cfg.topdomain = some dlen)
    (hn : names q dlen = some u)
    (hexp : (getUser s u.toNat).lastPkt + 60 < s.now) :
    dispatch s (.q q) tunsel = (s, refusal q dlen) := by
  obtain ⟨cmd, hrun, hu, hr, _⟩ := names_bridge s q dlen u hd hn
  show tunnelDns s q = _
  rw [hrun, ← hr]
  apply C04L.runCmd_refused
  apply C04L.rejected_of_check
  rw [hu]
  exact C04L.checkUserAndIp_expired s u q hexp

-- Alice's session was last heard at t = 1000.  At t = 1061 her own ping (right address) is refused and nothing changes;
-- at t = 1060 it is still accepted.
example :
    (getUser Ex.s2 0).lastPkt = 1000 ∧ names (Ex.pq 0 22 Ex.alice) 9 = some 0 ∧
    dispatch { Ex.s2 with now := 1061 } (.q (Ex.pq 0 22 Ex.alice)) false =
      ({ Ex.s2 with now := 1061 }, [badip (Ex.pq 0 22 Ex.alice)]) ∧
    (dispatch { Ex.s2 with now := 1060 } (.q (Ex.pq 0 22 Ex.alice)) false).2 ≠ [badip (Ex.pq 0 22 Ex.alice)] := by
  decide +kernel

/-- the same for a userid outside the table, a slot that was never allocated, or a disabled slot -/
theorem unallocated_refused (s : Srv) (q : Query) (tunsel : Bool) (dlen : Nat) (u : Int)
    (hd : Common.queryDatalen q.name s.cfg.topdomain = some dlen)
    (hn : names q dlen = some u)
    (hbad : u < 0 ∨ u ≥ (s.cfg.createdUsers : Int) ∨ (getUser s u.toNat).active = false ∨
      (getUser s u.toNat).disabled = true) :
    dispatch s (.q q) tunsel = (s, refusal q dlen) := by
  obtain ⟨cmd, hrun, hu, hr, _⟩ := names_bridge s q dlen u hd hn
  show tunnelDns s q = _
  rw [hrun, ← hr]
  apply C04L.runCmd_refused
  apply C04L.rejected_of_check
  rw [hu]
  rcases hbad with h | h | h | h
  · exact C04L.checkUserAndIp_range s u q (Or.inl h)
  · exact C04L.checkUserAndIp_range s u q (Or.inr h)
  · exact C04L.checkUserAndIp_inactive s u q (Or.inl h)
  · exact C04L.checkUserAndIp_inactive s u q (Or.inr h)

-- a ping naming the never-allocated slot 5, and one naming userid -1 (first decoded byte 0xff)
example :
    names (Ex.pq 5 8 Ex.alice) 9 = some 5 ∧ (getUser Ex.s2 5).active = false ∧
    dispatch Ex.s2 (.q (Ex.pq 5 8 Ex.alice)) false = (Ex.s2, [badip (Ex.pq 5 8 Ex.alice)]) ∧
    names (Ex.pq 255 8 Ex.alice) 9 = some (-1) ∧
    dispatch Ex.s2 (.q (Ex.pq 255 8 Ex.alice)) false = (Ex.s2, [badip (Ex.pq 255 8 Ex.alice)]) := by
  decide +kernel

/-- ... and every command except the login itself is refused for a slot that has not logged in -/
theorem unauthenticated_refused (s : Srv) (q : Query) (tunsel : Bool) (dlen : Nat) (u : Int)
    (hd : Common.queryDatalen q.name s.cfg.topdomain = some dlen)
    (hn : names q dlen = some u)
    (hcmd : lower ((payload q dlen).getD 0 0) ≠ 108)
    (hauth : (getUser s u.toNat).authenticated = false) :
    dispatch s (.q q) tunsel = (s, refusal q dlen) := by
  obtain ⟨cmd, hrun, hu, hr, hc⟩ := names_bridge s q dlen u hd hn
  show tunnelDns s q = _
  rw [hrun, ← hr]
  apply C04L.runCmd_refused
  apply C04L.rejected_of_unauth
  · intro e; subst e
    apply hcmd
    have hp : payload q dlen = C04L.inbOf q dlen := rfl
    rw [hp]
    have := C04L.cmdOf_login _ hc
    exact (lower_eq _ 108 (by omega)).2 (by omega)
  · rw [hu]; exact hauth

-- after the version handshake but before the login, Alice's own ping is refused
example :
    (getUser Ex.s1 0).active = true ∧ (getUser Ex.s1 0).authenticated = false ∧
    names (Ex.pq 0 8 Ex.alice) 9 = some 0 ∧ lower ((payload (Ex.pq 0 8 Ex.alice) 9).getD 0 0) ≠ 108 ∧
    dispatch Ex.s1 (.q (Ex.pq 0 8 Ex.alice)) false = (Ex.s1, [badip (Ex.pq 0 8 Ex.alice)]) := by
  decide +kernel

/-! ### (A) Slots: who may be handed out -/

/-- a slot may be handed to a new client: never used or silent for more than 60 s, and not disabled -/
def Reusable (x : Session) (now : Nat) : Prop := (x.active = false ∨ x.lastPkt + 60 < now) ∧ x.disabled = false

instance (x : Session) (now : Nat) : Decidable (Reusable x now) := by unfold Reusable; exact inferInstance

/-- **Reuse.**  `find_available_user` hands out exactly the FIRST reusable slot ... -/
theorem expired_slot_reusable (s : Srv) (u : Nat) :
    (findAvailableUser s).1 = some u ↔
      u < s.users.length ∧ Reusable (getUser s u) s.now ∧ ∀ j, j < u → ¬ Reusable (getUser s j) s.now :=
  C04L.findAvailableUser_some_iff s u

/-- ... reports "full" exactly when no slot is reusable ... -/
theorem no_slot_iff_none_reusable (s : Srv) :
    (findAvailableUser s).1 = none ↔ ∀ j, j < s.users.length → ¬ Reusable (getUser s j) s.now :=
  C04L.findAvailableUser_none_iff s

/-- ... and the only thing it changes is that the slot handed out is marked active, not logged in, heard from now
(DNS mode, default fragment size); every other slot, and the slot's tunnel address, stay as they were. -/
theorem allocation_effect (s : Srv) :
    (∀ u, (findAvailableUser s).1 = some u →
      (findAvailableUser s).2 = setUser s u (fun x =>
        { x with active := true, authenticated := false, authenticatedRaw := false, optionsLocked := false,
                 lastPkt := s.now, fragsize := 4096, conn := .dnsNull })) ∧
    ((findAvailableUser s).1 = none → (findAvailableUser s).2 = s) :=
  ⟨fun u h => C04L.findAvailableUser_snd s u h, C04L.findAvailableUser_snd_none s⟩

-- Alice (slot 0) was heard at t = 1000.  At t = 1000 and at t = 1060 the next client gets slot 1; at t = 1061 slot 0 is
-- reusable and is handed out again (not logged in any more).
example :
    (findAvailableUser Ex.s2).1 = some 1 ∧ ¬ Reusable (getUser Ex.s2 0) 1000 ∧ Reusable (getUser Ex.s2 1) 1000 ∧
    (findAvailableUser { Ex.s2 with now := 1060 }).1 = some 1 ∧
    (findAvailableUser { Ex.s2 with now := 1061 }).1 = some 0 ∧ Reusable (getUser Ex.s2 0) 1061 ∧
    (getUser (findAvailableUser { Ex.s2 with now := 1061 }).2 0).authenticated = false ∧
    (getUser (findAvailableUser { Ex.s2 with now := 1061 }).2 0).lastPkt = 1061 := by
  decide +kernel
-- a one-slot table (/30) whose only slot is live: "full"
example :
    (findAvailableUser (Ex.st (start { Ex.cfg with netmask := 30 } [42]) (Ex.vq Ex.alice))).1 = none := by
  decide +kernel

/-- **No takeover.**  The slot `find_available_user` (and hence the `V` handler) allocates was not active during the
last 60 seconds. -/
theorem no_takeover_within_60 (s : Srv) (u : Nat) (h : (findAvailableUser s).1 = some u) :
    (getUser s u).active = false ∨ (getUser s u).lastPkt + 60 < s.now :=
  ((expired_slot_reusable s u).1 h).2.1.1

/-- the answer `VACK` + 4-byte seed + userid byte `b` -/
def IsVack (e : Event) (b : Nat) : Prop :=
  ∃ dst id ty dn nm seed, seed.length = 4 ∧ e = Event.ans dst id ty dn nm ([86, 65, 67, 75] ++ seed ++ [b]) .ctrl

/-- the same seen from outside: whenever the version handler answers `VACK` for userid `b`, slot `b` was allocated by
this very request, it was not active during the last 60 seconds, and no other slot was touched. -/
theorem no_takeover_vack (s : Srv) (q : Query) (inb : List Nat) (e : Event) (b : Nat)
    (he : e ∈ (handleVersion s q inb).2) (hv : IsVack e b) :
    ∃ u, u % 256 = b ∧ (findAvailableUser s).1 = some u ∧
      ((getUser s u).active = false ∨ (getUser s u).lastPkt + 60 < s.now) ∧
      ∀ v, v ≠ u → getUser (handleVersion s q inb).1 v = getUser s v := by
  obtain ⟨dst, id, ty, dn, nm, seed, hlen, rfl⟩ := hv
  rcases C04L.handleVersion_cases s q inb with ⟨u, _, hu, _, hev⟩ | ⟨_, hev | hev⟩
  · rw [hev] at he
    simp only [List.mem_cons, List.not_mem_nil, or_false] at he
    unfold sendVersionResponse writeDns at he
    simp only [Event.ans.injEq] at he
    have hd := he.2.2.2.2.2.1
    have h1 : (ascii "VACK" : List Nat) = [86, 65, 67, 75] := by decide
    rw [h1] at hd
    simp only [List.cons_append, List.nil_append, List.cons.injEq, true_and] at hd
    have h2 := List.append_inj hd (by rw [hlen]; simp [beBytes])
    simp only [List.cons.injEq, and_true] at h2
    refine ⟨u, h2.2.symm, hu, no_takeover_within_60 s u hu, ?_⟩
    intro v hv
    exact (C04L.frame_handleVersion s q inb).other v (by intro h'; rw [hu] at h'; cases h'; exact hv rfl)
  · rw [hev] at he
    simp only [List.mem_cons, List.not_mem_nil, or_false] at he
    unfold sendVersionResponse writeDns at he
    simp only [Event.ans.injEq] at he
    have hd := he.2.2.2.2.2.1
    have h1 : (ascii "VFUL" : List Nat) = [86, 70, 85, 76] := by decide
    rw [h1] at hd
    simp at hd
  · rw [hev] at he
    simp only [List.mem_cons, List.not_mem_nil, or_false] at he
    unfold sendVersionResponse writeDns at he
    simp only [Event.ans.injEq] at he
    have hd := he.2.2.2.2.2.1
    have h1 : (ascii "VNAK" : List Nat) = [86, 78, 65, 75] := by decide
    rw [h1] at hd
    simp at hd

-- Mallory's version request while Alice's session is live: VACK for userid 1 (seed 43), slot 0 untouched.
-- The same request 61 s later takes over slot 0 (and rebinds it to Mallory).
example :
    (handleVersion Ex.s2 (Ex.vq Ex.mallory) (payload (Ex.vq Ex.mallory) 10)).2 =
      [Event.ans Ex.mallory 7 10 84 (Ex.vq Ex.mallory).name ([86, 65, 67, 75] ++ [0, 0, 0, 43] ++ [1]) .ctrl] ∧
    dispatch Ex.s2 (.q (Ex.vq Ex.mallory)) false =
      handleVersion Ex.s2 (Ex.vq Ex.mallory) (payload (Ex.vq Ex.mallory) 10) ∧
    getUser (dispatch Ex.s2 (.q (Ex.vq Ex.mallory)) false).1 0 = getUser Ex.s2 0 ∧
    bound (dispatch Ex.s2 (.q (Ex.vq Ex.mallory)) false).1 1 = Ex.mallory ∧
    bound (dispatch { Ex.s2 with now := 1061 } (.q (Ex.vq Ex.mallory)) false).1 0 = Ex.mallory := by
  decide +kernel
example : IsVack (Event.ans Ex.mallory 7 10 84 (Ex.vq Ex.mallory).name ([86, 65, 67, 75] ++ [0, 0, 0, 43] ++ [1]) .ctrl) 1 :=
  ⟨_, _, _, _, _, [0, 0, 0, 43], rfl, rfl⟩

/-- a DNS-mode request whose command character is `v`/`V` is handled by the version handler (so the two theorems around
this one speak about the handler phase of such a request) -/
theorem version_request_dispatch (s : Srv) (q : Query) (tunsel : Bool) (dlen : Nat)
    (hd : Common.queryDatalen q.name s.cfg.topdomain = some dlen) (hreq : IsTunnelRequest q dlen)
    (hv : lower ((payload q dlen).getD 0 0) = 118) :
    dispatch s (.q q) tunsel = handleVersion s q (payload q dlen) := by
  obtain ⟨h2, hty, hns, hwww⟩ := hreq
  have hns' : ¬ C04L.isNsA q dlen := by
    intro h; apply hns
    obtain ⟨a, b, c, d, e⟩ := h
    exact ⟨a, b, (lower_eq _ 110 (by omega)).2 (by omega), (lower_eq _ 115 (by omega)).2 (by omega), e⟩
  have hwww' : ¬ C04L.isWwwA q dlen := by
    intro h; apply hwww
    obtain ⟨a, b, c, d, e, f⟩ := h
    exact ⟨a, b, (lower_eq _ 119 (by omega)).2 (by omega), (lower_eq _ 119 (by omega)).2 (by omega),
      (lower_eq _ 119 (by omega)).2 (by omega), f⟩
  have hty' : C04L.tunnelType q.type := by
    unfold C04L.tunnelType
    simp only [List.mem_cons, List.not_mem_nil, or_false] at hty
    exact hty
  show tunnelDns s q = _
  rw [C04L.tunnelDns_null s q dlen hd hns' hwww' hty']
  exact C04L.handleNullRequest_V s q dlen h2 ((lower_eq _ 118 (by omega)).1 hv)

example :
    Common.queryDatalen (Ex.vq Ex.mallory).name Ex.s2.cfg.topdomain = some 10 ∧ IsTunnelRequest (Ex.vq Ex.mallory) 10 ∧
    lower ((payload (Ex.vq Ex.mallory) 10).getD 0 0) = 118 := by decide +kernel

/-- a version request never touches a slot that was active during the last 60 seconds (whatever else it does) -/
theorem version_request_spares_recent (s : Srv) (q : Query) (inb : List Nat) (v : Nat)
    (hact : (getUser s v).active = true) (hrecent : s.now ≤ (getUser s v).lastPkt + 60) :
    getUser (handleVersion s q inb).1 v = getUser s v := by
  apply (C04L.frame_handleVersion s q inb).other v
  intro h
  rcases no_takeover_within_60 s v h with h1 | h1
  · rw [hact] at h1; cases h1
  · omega

/-! ### (A) Routing by tunnel address -/

/-- slot `x` is a live, logged-in session that was assigned tunnel address `A` -/
def Owns (x : Session) (now A : Nat) : Prop :=
  x.active = true ∧ x.authenticated = true ∧ x.disabled = false ∧ now < x.lastPkt + 60 ∧ x.tunIp = A

instance (x : Session) (now A : Nat) : Decidable (Owns x now A) := by unfold Owns; exact inferInstance

/-- `t` is the first slot owning `A` -/
def FirstOwner (s : Srv) (t A : Nat) : Prop :=
  t < s.users.length ∧ Owns (getUser s t) s.now A ∧ ∀ j, j < t → ¬ Owns (getUser s j) s.now A

instance (s : Srv) (t A : Nat) : Decidable (FirstOwner s t A) := by unfold FirstOwner; exact inferInstance

/-- an output event that goes to session `t` only: a data answer tagged with `t` to the address of one of the queries
`t` has waiting (or of its remembered duplicate), or a raw-mode frame to `t`'s address -/
def ToSession (x : Session) (t : Nat) : Event → Prop
  | .ans dst _ _ _ _ _ (.chunk t') => t' = t ∧ (dst = x.q.from_ ∨ dst = x.qs.from_)
  | .ans dst _ _ _ _ _ (.dupe t') => t' = t ∧ (dst = x.q.from2 ∨ dst = x.qs.from2)
  | .raw dst _ => dst = x.q.from_
  | _ => False

private theorem toSession_of_toSess (x : Session) (t : Nat) (e : Event) (h : C04L.ToSess x t e) : ToSession x t e := by
  rcases h with ⟨_, _, _, _, _, rfl⟩ | ⟨_, _, _, _, _, rfl⟩ | ⟨_, _, _, _, _, rfl⟩ | ⟨_, _, _, _, _, rfl⟩ | ⟨_, rfl⟩
  · exact ⟨rfl, Or.inl rfl⟩
  · exact ⟨rfl, Or.inr rfl⟩
  · exact ⟨rfl, Or.inl rfl⟩
  · exact ⟨rfl, Or.inr rfl⟩
  · show _ = _; rfl

/-- **Tun dispatch.**  A frame read from the tun device with destination `A`: if some slot owns `A`, then for the first
such slot `t` every event goes to session `t` and no other slot changes; if no slot owns `A` the frame is dropped: no
event, no change.  (True for every frame; frames shorter than 24 bytes are dropped anyway.) -/
theorem tun_dispatch_exact (s : Srv) (frame : List Nat) :
    (∀ t, FirstOwner s t (ipDst frame) →
      (∀ e ∈ (tunnelTun s frame).2, ToSession (getUser s t) t e) ∧
      (∀ v, v ≠ t → getUser (tunnelTun s frame).1 v = getUser s v)) ∧
    ((∀ t, t < s.users.length → ¬ Owns (getUser s t) s.now (ipDst frame)) → tunnelTun s frame = (s, [])) := by
  constructor
  · intro t ht
    have hf : findUserByIp s (ipDst frame) = some t := (C04L.findUserByIp_some_iff s _ t).2 ht
    exact ⟨fun e he => toSession_of_toSess _ _ _ (C04L.tunnelTun_some_events s frame t hf e he),
      fun v hv => (C04L.tunnelTun_some_frame s frame t hf).other v hv⟩
  · intro h
    exact C04L.tunnelTun_none s frame ((C04L.findUserByIp_none_iff s _).2 h)

-- Alice (slot 0, 10.0.0.2) is in lazy mode with ping 21 waiting; Bob (slot 1, 10.0.0.3) is logged in.
-- A tun frame for 10.0.0.2 is sent to Alice's address as the answer to her ping, tagged `chunk 0`; Bob's slot is untouched.
-- A frame for 10.0.0.3 is queued in Bob's slot (no query waiting: no event), Alice's slot is untouched.
-- A frame for 10.0.0.9 (nobody) is dropped.
example :
    ipDst (Ex.frame 2) = 167772162 ∧ FirstOwner Ex.s5 0 (ipDst (Ex.frame 2)) ∧
    (tunnelTun Ex.s5 (Ex.frame 2)).2 =
      [Event.ans Ex.alice 21 10 84 (Ex.pq 0 21 Ex.alice).name ([128, 33] ++ 0x5a :: Ex.frame 2) (.chunk 0)] ∧
    getUser (tunnelTun Ex.s5 (Ex.frame 2)).1 1 = getUser Ex.s5 1 ∧
    FirstOwner Ex.s5 1 (ipDst (Ex.frame 3)) ∧ (tunnelTun Ex.s5 (Ex.frame 3)).2 = [] ∧
    (getUser (tunnelTun Ex.s5 (Ex.frame 3)).1 1).outpacket.len = 25 ∧
    getUser (tunnelTun Ex.s5 (Ex.frame 3)).1 0 = getUser Ex.s5 0 ∧
    tunnelTun Ex.s5 (Ex.frame 9) = (Ex.s5, []) := by
  decide +kernel
-- OBSERVATION (boundary): exactly 60 s after Alice was last heard her requests are still accepted (`last_pkt + 60 < now`
-- is false) and her slot is not reusable, but she no longer owns her address (`last_pkt + 60 > now` is false): a tun
-- frame for 10.0.0.2 is dropped.
example :
    (getUser Ex.s5 0).lastPkt + 60 = 1060 ∧
    (dispatch { Ex.s5 with now := 1060 } (.q (Ex.pq 0 22 Ex.alice)) false).2 ≠ [badip (Ex.pq 0 22 Ex.alice)] ∧
    ¬ Owns (getUser { Ex.s5 with now := 1060 } 0) 1060 (ipDst (Ex.frame 2)) ∧
    tunnelTun { Ex.s5 with now := 1060 } (Ex.frame 2) = ({ Ex.s5 with now := 1060 }, []) := by
  decide +kernel

/-- the same for the handler phase of an iteration whose input is a tun frame (the frame is read into a 64 KiB buffer;
when the tun descriptor was not selected nothing happens at all) -/
theorem tun_dispatch_exact_iteration (s : Srv) (frame : List Nat) (tunsel : Bool) :
    (∀ t, FirstOwner s t (ipDst (frame.take 65536)) →
      (∀ e ∈ (dispatch s (.tun frame) tunsel).2, ToSession (getUser s t) t e) ∧
      (∀ v, v ≠ t → getUser (dispatch s (.tun frame) tunsel).1 v = getUser s v)) ∧
    ((∀ t, t < s.users.length → ¬ Owns (getUser s t) s.now (ipDst (frame.take 65536))) →
      dispatch s (.tun frame) tunsel = (s, [])) := by
  cases tunsel with
  | true => exact tun_dispatch_exact s (frame.take 65536)
  | false =>
    refine ⟨fun t _ => ⟨fun e he => ?_, fun v _ => rfl⟩, fun _ => rfl⟩
    cases he

/-- **The sweep.**  The events after the `sweep` marker of an iteration are not caused by the input: each of them answers
the query some live DNS-mode session has been holding, and goes to that session only. -/
theorem sweep_serves_held_queries (s : Srv) :
    ∀ e ∈ (sweep s).2, ∃ j, j < s.cfg.createdUsers ∧ (getUser s j).active = true ∧ (getUser s j).disabled = false ∧
      s.now < (getUser s j).lastPkt + 60 ∧ (getUser s j).qs.id ≠ 0 ∧ ToSession (getUser s j) j e := by
  intro e he
  obtain ⟨j, _, h2, h3, h4, _, h6⟩ := C04L.sweepFrom_events _ _ s e he
  unfold live at h3
  simp only [Bool.and_eq_true, Bool.not_eq_true', decide_eq_true_eq] at h3
  exact ⟨j, by omega, h3.1.1, h3.1.2, h3.2, h4, toSession_of_toSess _ _ _ h6⟩

-- Alice's slot holds query 30 for "real soon": the sweep answers it (an empty data packet), to Alice only
example :
    (sweep (setUser Ex.s2 0 fun x => { x with qs := Ex.pq 0 30 Ex.alice })).2 =
      [Event.ans Ex.alice 30 10 84 (Ex.pq 0 30 Ex.alice).name [128, 0] (.chunk 0)] := by
  decide +kernel

/-- in a reachable state of a server configured with a /8../30 subnet, tunnel addresses of different slots differ
(C18 `pool_distinct`), so an address has at most one owner -/
theorem owner_unique (cfg : Config) (s : Srv) (hr : Reachable cfg s)
    (h8 : 8 ≤ cfg.netmask) (h30 : cfg.netmask ≤ 30) (hmy : cfg.myIp < 2 ^ 32) (A t t' : Nat)
    (ht : t < s.users.length) (ht' : t' < s.users.length)
    (ho : Owns (getUser s t) s.now A) (ho' : Owns (getUser s t') s.now A) : t = t' := by
  have hnd : (C04L.tunIps s).Nodup := by
    rw [C04L.reachable_tunIps cfg s hr]; exact C18.pool_distinct cfg.myIp cfg.netmask h8 h30 hmy
  have e : (C04L.tunIps s)[t]'(by unfold C04L.tunIps; simpa using ht) =
      (C04L.tunIps s)[t']'(by unfold C04L.tunIps; simpa using ht') := by
    have a := ho.2.2.2.2
    have b := ho'.2.2.2.2
    unfold getUser at a b
    simp only [List.getD_eq_getElem?_getD, List.getElem?_eq_getElem ht, List.getElem?_eq_getElem ht',
      Option.getD_some] at a b
    unfold C04L.tunIps
    simp only [List.getElem_map]
    rw [a, b]
  exact (List.getElem_inj hnd).1 e

/-- **Tun dispatch, reachable states.**  "The first slot owning A" is "the slot owning A": if `t` owns the destination
address then every event goes to `t`, nobody else changes, and `t` is the only owner. -/
theorem tun_dispatch_unique (cfg : Config) (s : Srv) (hr : Reachable cfg s)
    (h8 : 8 ≤ cfg.netmask) (h30 : cfg.netmask ≤ 30) (hmy : cfg.myIp < 2 ^ 32) (frame : List Nat) (t : Nat)
    (ht : t < s.users.length) (ho : Owns (getUser s t) s.now (ipDst frame)) :
    (∀ e ∈ (tunnelTun s frame).2, ToSession (getUser s t) t e) ∧
    (∀ v, v ≠ t → getUser (tunnelTun s frame).1 v = getUser s v) ∧
    (∀ t', t' < s.users.length → Owns (getUser s t') s.now (ipDst frame) → t' = t) := by
  have huniq : ∀ t', t' < s.users.length → Owns (getUser s t') s.now (ipDst frame) → t' = t :=
    fun t' ht' ho' => owner_unique cfg s hr h8 h30 hmy _ t' t ht' ht ho' ho
  have hfirst : FirstOwner s t (ipDst frame) :=
    ⟨ht, ho, fun j hj hoj => by have := huniq j (by omega) hoj; omega⟩
  exact ⟨((tun_dispatch_exact s frame).1 t hfirst).1, ((tun_dispatch_exact s frame).1 t hfirst).2, huniq⟩

-- a reachable state (three loop iterations: Alice's V, her L, a timeout) in which slot 0 owns 10.0.0.2
example :
    ∃ s, Reachable Ex.cfg s ∧ 8 ≤ Ex.cfg.netmask ∧ Ex.cfg.netmask ≤ 30 ∧ Ex.cfg.myIp < 2 ^ 32 ∧
      0 < s.users.length ∧ Owns (getUser s 0) s.now (ipDst (Ex.frame 2)) ∧
      (getUser (tunnelTun s (Ex.frame 2)).1 0).outpacket.len = 25 := by
  refine ⟨runFrom (start Ex.cfg [42, 43]) [⟨.q (Ex.vq Ex.alice), 1000⟩, ⟨.q (Ex.lq 0 42 Ex.alice), 1001⟩, ⟨.tick, 1002⟩],
    reachable_runFrom (Reachable.init _) _ ?_, ?_⟩
  · show _ ≤ _ ∧ _ ≤ _ ∧ _ ≤ _ ∧ True
    decide +kernel
  · decide +kernel

/-- the upstream packet session `u` has reassembled decompresses to the frame `out` (tun header + IP packet) -/
def UpstreamPacket (s : Srv) (u : Nat) (out : List Nat) : Prop :=
  uncompress ((getUser s u).inpacket.data.take (getUser s u).inpacket.len) 65536 = some out ∧ 24 ≤ out.length

instance (s : Srv) (u : Nat) (out : List Nat) : Decidable (UpstreamPacket s u out) := by
  unfold UpstreamPacket; exact inferInstance

private theorem upstreamPacket_iff (s : Srv) (u : Nat) (out : List Nat) :
    UpstreamPacket s u out ↔ C04L.fullPacketOut s u = some out := by
  unfold UpstreamPacket C04L.fullPacketOut
  dsimp only
  cases uncompress (List.take (getUser s u).inpacket.len (getUser s u).inpacket.data) 65536 with
  | none => simp
  | some o =>
    dsimp only
    constructor
    · rintro ⟨h1, h2⟩
      cases h1
      rw [if_pos h2]
    · intro h
      split at h
      · next h2 => cases h; exact ⟨rfl, h2⟩
      · cases h

/-- **Forwarding between clients.**  A completed upstream packet of session `u` with destination `A`: if some slot owns
`A`, then for the first such slot `t` every event goes to session `t` and only slots `t` and `u` change (`u`: its
reassembly buffer is emptied); if no slot owns `A` the packet goes to the tun device and only slot `u` changes. -/
theorem forward_dispatch_exact (s : Srv) (u : Nat) (out : List Nat) (hp : UpstreamPacket s u out) :
    (∀ t, FirstOwner s t (ipDst out) →
      (∀ e ∈ (handleFullPacket s u).2, ToSession (getUser s t) t e) ∧
      (∀ v, v ≠ t → v ≠ u → getUser (handleFullPacket s u).1 v = getUser s v)) ∧
    ((∀ t, t < s.users.length → ¬ Owns (getUser s t) s.now (ipDst out)) →
      (handleFullPacket s u).2 = [Event.tunw ([0, 0, 8, 0] ++ out.drop 4)] ∧
      (∀ v, v ≠ u → getUser (handleFullPacket s u).1 v = getUser s v)) := by
  have hp' := (upstreamPacket_iff s u out).1 hp
  constructor
  · intro t ht
    have hf : findUserByIp s (ipDst out) = some t := (C04L.findUserByIp_some_iff s _ t).2 ht
    rw [C04L.handleFullPacket_forward s u out t hp' hf]
    refine ⟨fun e he => toSession_of_toSess _ _ _ (C04L.deliverToUser_toSess s t _ _ e he), ?_⟩
    intro v hvt hvu
    dsimp only
    rw [C04L.getUser_setUser_ne _ _ _ _ hvu]
    exact (C04L.frame_deliverToUser s t _ _).other v hvt
  · intro h
    have hf : findUserByIp s (ipDst out) = none := (C04L.findUserByIp_none_iff s _).2 h
    rw [C04L.handleFullPacket_toTun s u out hp' hf]
    refine ⟨rfl, ?_⟩
    intro v hvu
    exact C04L.getUser_setUser_ne _ _ _ _ hvu

-- Alice has reassembled a packet for 10.0.0.3: it is queued in Bob's slot (Bob has no query waiting: no event);
-- a packet for 10.0.0.9 goes to the tun device.
example :
    UpstreamPacket (Ex.withUpstream Ex.s5 0 3) 0 (Ex.frame 3) ∧
    FirstOwner (Ex.withUpstream Ex.s5 0 3) 1 (ipDst (Ex.frame 3)) ∧
    (handleFullPacket (Ex.withUpstream Ex.s5 0 3) 0).2 = [] ∧
    (getUser (handleFullPacket (Ex.withUpstream Ex.s5 0 3) 0).1 1).outpacket.len = 25 ∧
    (getUser (handleFullPacket (Ex.withUpstream Ex.s5 0 3) 0).1 0).inpacket.len = 0 ∧
    UpstreamPacket (Ex.withUpstream Ex.s5 0 9) 0 (Ex.frame 9) ∧
    (handleFullPacket (Ex.withUpstream Ex.s5 0 9) 0).2 = [Event.tunw (Ex.frame 9)] := by
  decide +kernel
-- Bob has reassembled a packet for 10.0.0.2: it is sent to Alice as the answer to her waiting ping
example :
    FirstOwner (Ex.withUpstream Ex.s5 1 2) 0 (ipDst (Ex.frame 2)) ∧
    (handleFullPacket (Ex.withUpstream Ex.s5 1 2) 1).2 =
      [Event.ans Ex.alice 21 10 84 (Ex.pq 0 21 Ex.alice).name ([128, 33] ++ 0x5a :: Ex.frame 2) (.chunk 0)] := by
  decide +kernel

/-- ... and a packet that does not decompress to an IP frame is dropped: no event, only slot `u` changes -/
theorem forward_dispatch_malformed (s : Srv) (u : Nat) (hp : ∀ out, ¬ UpstreamPacket s u out) :
    (handleFullPacket s u).2 = [] ∧ ∀ v, v ≠ u → getUser (handleFullPacket s u).1 v = getUser s v := by
  have h : C04L.fullPacketOut s u = none := by
    cases h : C04L.fullPacketOut s u with
    | none => rfl
    | some out => exact absurd ((upstreamPacket_iff s u out).2 h) (hp out)
  rw [C04L.handleFullPacket_dropped s u h]
  exact ⟨rfl, fun v hvu => C04L.getUser_setUser_ne _ _ _ _ hvu⟩

/-! ### (B) Other sessions are framed -/

/-- request `q` is accepted for slot `v`: the slot is in the table, allocated, enabled, heard from during the last 60 s,
and (with source checking) the request comes from the address the slot is bound to -/
def Accepted (s : Srv) (q : Query) (v : Nat) : Prop :=
  v < s.cfg.createdUsers ∧ (getUser s v).active = true ∧ (getUser s v).disabled = false ∧
  ¬ (getUser s v).lastPkt + 60 < s.now ∧
  (s.cfg.checkIp = true → q.from_.fam = (bound s v).fam ∧ q.from_.ip = (bound s v).ip)

instance (s : Srv) (q : Query) (v : Nat) : Decidable (Accepted s q v) := by unfold Accepted; exact inferInstance

/-- **Frame.**  If handling a DNS query changes ANYTHING in slot `v`, then the query is a tunnel request and
(1) it names `v` and is accepted for `v`, or
(2) it is a version request and `v` is the slot `find_available_user` hands out
    (which was not active during the last 60 s: `no_takeover_within_60`), or
(3) it is an accepted upstream-data request and `v` is the first owner of some tunnel address (the completed packet was
    forwarded to `v`: `forward_dispatch_exact`).
So a request handled for user `u` leaves every other session exactly as it was, with these two exceptions. -/
theorem other_sessions_framed (s : Srv) (q : Query) (tunsel : Bool) (v : Nat)
    (hne : getUser (dispatch s (.q q) tunsel).1 v ≠ getUser s v) :
    ∃ dlen, Common.queryDatalen q.name s.cfg.topdomain = some dlen ∧ IsTunnelRequest q dlen ∧
      ((names q dlen = some (v : Int) ∧ Accepted s q v) ∨
       (lower ((payload q dlen).getD 0 0) = 118 ∧ (findAvailableUser s).1 = some v) ∨
       ((hexVal (lower ((payload q dlen).getD 0 0))).isSome = true ∧
         (∃ u : Nat, names q dlen = some (u : Int) ∧ Accepted s q u) ∧ ∃ A, FirstOwner s v A)) := by
  have hU : C04L.dnsWrites s q v := by
    by_cases h : C04L.dnsWrites s q v
    · exact h
    · exact absurd ((C04L.frame_tunnelDns s q).other v h) hne
  obtain ⟨dlen, hd, hns, hwww, hty, h2, hw⟩ := hU
  have hreq := isTunnelRequest_of q dlen h2 hns hwww hty
  refine ⟨dlen, hd, hreq, ?_⟩
  rcases hw with ⟨hv, ha⟩ | ⟨cmd, hc, hrej, hw⟩
  · right; left
    refine ⟨?_, ha⟩
    have hp : payload q dlen = C04L.inbOf q dlen := rfl
    rw [hp]
    exact (lower_eq _ 118 (by omega)).2 (by unfold C04L.isV at hv; omega)
  · obtain ⟨hn, hdata⟩ := names_of_cmd q dlen cmd hreq hc
    obtain ⟨hchk, _⟩ := C04L.rejected_false s q _ cmd hrej
    obtain ⟨c0, c1, c2, c3, c4, c5⟩ := C04L.checkUserAndIp_false s _ q hchk
    have hcast : ((C04L.uidOf q dlen cmd).toNat : Int) = C04L.uidOf q dlen cmd := by omega
    have hacc : Accepted s q (C04L.uidOf q dlen cmd).toNat := ⟨by omega, c2, c3, c4, c5⟩
    rcases hw with hw | ⟨hcd, A, hA⟩
    · left
      subst hw
      exact ⟨by rw [hn, hcast], hacc⟩
    · right; right
      refine ⟨hdata hcd, ⟨_, by rw [hn, hcast], hacc⟩, A, ?_⟩
      exact (C04L.findUserByIp_some_iff s A v).1 hA

-- Alice's (accepted) ping changes her slot 0 and leaves Bob's slot 1 alone; Mallory's version request changes slot 2
-- (allocation) and nothing else
example :
    names (Ex.pq 0 22 Ex.alice) 9 = some 0 ∧ Accepted Ex.s5 (Ex.pq 0 22 Ex.alice) 0 ∧
    getUser (dispatch Ex.s5 (.q (Ex.pq 0 22 Ex.alice)) false).1 0 ≠ getUser Ex.s5 0 ∧
    getUser (dispatch Ex.s5 (.q (Ex.pq 0 22 Ex.alice)) false).1 1 = getUser Ex.s5 1 ∧
    (findAvailableUser Ex.s5).1 = some 2 ∧
    getUser (dispatch Ex.s5 (.q (Ex.vq Ex.mallory)) false).1 2 ≠ getUser Ex.s5 2 ∧
    getUser (dispatch Ex.s5 (.q (Ex.vq Ex.mallory)) false).1 0 = getUser Ex.s5 0 ∧
    getUser (dispatch Ex.s5 (.q (Ex.vq Ex.mallory)) false).1 1 = getUser Ex.s5 1 := by
  decide +kernel

/-- in particular the address a slot is bound to is changed by a DNS query only when a (well-formed) version request
allocates the slot -/
theorem dns_rebinds_only_by_allocation (s : Srv) (q : Query) (tunsel : Bool) (v : Nat)
    (hne : bound (dispatch s (.q q) tunsel).1 v ≠ bound s v) :
    ∃ dlen, Common.queryDatalen q.name s.cfg.topdomain = some dlen ∧ IsTunnelRequest q dlen ∧
      lower ((payload q dlen).getD 0 0) = 118 ∧ (findAvailableUser s).1 = some v ∧
      ((getUser s v).active = false ∨ (getUser s v).lastPkt + 60 < s.now) := by
  obtain ⟨dlen, hd, hns, hwww, hty, h2, hv, _, ha⟩ := C04L.tunnelDns_host s q v hne
  refine ⟨dlen, hd, isTunnelRequest_of q dlen h2 hns hwww hty, ?_, ha, no_takeover_within_60 s v ha⟩
  have hp : payload q dlen = C04L.inbOf q dlen := rfl
  rw [hp]
  exact (lower_eq _ 118 (by omega)).2 (by unfold C04L.isV at hv; omega)

-- see the example after `no_takeover_vack`: Mallory's `V` at t = 1061 rebinds the expired slot 0

/-- **No takeover, handler phase.**  No DNS query changes the address of a slot that was active during the last 60 s. -/
theorem no_takeover_dispatch (s : Srv) (q : Query) (tunsel : Bool) (v : Nat)
    (hact : (getUser s v).active = true) (hrecent : s.now ≤ (getUser s v).lastPkt + 60) :
    bound (dispatch s (.q q) tunsel).1 v = bound s v := by
  by_cases h : bound (dispatch s (.q q) tunsel).1 v = bound s v
  · exact h
  · obtain ⟨_, _, _, _, _, h1 | h1⟩ := dns_rebinds_only_by_allocation s q tunsel v h
    · rw [hact] at h1; cases h1
    · omega

-- exactly 60 s after Alice was last heard, Mallory's version request does not get slot 0 (it gets slot 1)
example :
    (getUser Ex.s2 0).active = true ∧ (getUser Ex.s2 0).lastPkt + 60 = 1060 ∧
    bound (dispatch { Ex.s2 with now := 1060 } (.q (Ex.vq Ex.mallory)) false).1 0 = Ex.alice ∧
    bound (dispatch { Ex.s2 with now := 1060 } (.q (Ex.vq Ex.mallory)) false).1 1 = Ex.mallory := by
  decide +kernel

/-! ### (C) Raw-mode login -/

/-- **Rebinding.**  A raw-mode login frame for userid `u` changes the address some slot is bound to only if that slot is
`u`, the frame carries the 16-byte login hash computed from the password and `seed + 1`, and slot `u` is in the table,
allocated, enabled, logged in (DNS login done) and heard from during the last 60 s. -/
theorem raw_login_rebinds_only_with_hash (s : Srv) (packet : List Nat) (q : Query) (u v : Nat)
    (hne : bound (handleRawLogin s packet q u).1 v ≠ bound s v) :
    v = u ∧ 16 ≤ packet.length ∧
    packet.take 16 = Login.loginCalcC s.cfg.password ((getUser s u).seed + 1) ∧
    u < s.cfg.createdUsers ∧ (getUser s u).active = true ∧ (getUser s u).disabled = false ∧
    (getUser s u).authenticated = true ∧ ¬ (getUser s u).lastPkt + 60 < s.now := by
  have hU : v = u ∧ C04L.rawLoginOk s packet u := by
    by_cases h : v = u ∧ C04L.rawLoginOk s packet u
    · exact h
    · have := (C04L.frame_handleRawLogin s packet q u).other v h
      unfold bound at hne
      rw [this] at hne
      exact absurd rfl hne
  obtain ⟨hv, h1, h2, h3, h4, h5, h6, h7⟩ := hU
  exact ⟨hv, h1, h7, h2, h3, h4, h5, h6⟩

-- the exception is real: a raw login frame for userid 0 carrying the hash for seed 42 + 1, sent from Mallory's address,
-- rebinds Alice's slot to Mallory (the frame proves knowledge of the password — or is a replay of Alice's own frame);
-- with a wrong hash nothing happens
example :
    bound Ex.s5 0 = Ex.alice ∧
    bound (handleRawLogin Ex.s5 (Login.loginCalcC Ex.cfg.password 43) (rawQuery Ex.mallory) 0).1 0 = Ex.mallory ∧
    handleRawLogin Ex.s5 (Login.loginCalcC Ex.cfg.password 42) (rawQuery Ex.mallory) 0 = (Ex.s5, []) := by
  decide +kernel

/-- and apart from the slot named in the frame header, a raw-mode login changes nothing at all -/
theorem raw_login_frame (s : Srv) (packet : List Nat) (q : Query) (u v : Nat) (hv : v ≠ u) :
    getUser (handleRawLogin s packet q u).1 v = getUser s v :=
  (C04L.frame_handleRawLogin s packet q u).other v (fun h => hv h.1)

/-- `bytes` is a raw-mode LOGIN frame for userid `v` carrying the 16-byte hash `h`: the magic 10 d1 9e, a byte with
command nibble 1 and user nibble `v`, then the hash -/
def IsRawLoginFrame (bytes : List Nat) (v : Nat) (h : List Nat) : Prop :=
  bytes.take 3 = [16, 209, 158] ∧ bytes.getD 3 0 &&& 240 = 16 ∧ bytes.getD 3 0 &&& 15 = v ∧ 20 ≤ bytes.length ∧
  (bytes.drop 4).take 16 = h

/-- **Rebinding, handler phase, every input.**  The address slot `v` is bound to changes in the handler phase of an
iteration only if
(1) the input is a DNS version request and `v` is the slot handed out, which was not active during the last 60 s, or
(2) the input is a raw-mode login frame for `v` carrying the hash of the password and `seed_v + 1`, and `v` is an
    allocated, enabled, logged-in session heard from during the last 60 s.
Tun frames, forwarded answers, timeouts and every other DNS or raw request leave all bindings alone. -/
theorem rebinding_exact (s : Srv) (inp : Input) (tunsel : Bool) (v : Nat)
    (hne : bound (dispatch s inp tunsel).1 v ≠ bound s v) :
    (∃ q dlen, inp = .q q ∧ Common.queryDatalen q.name s.cfg.topdomain = some dlen ∧ IsTunnelRequest q dlen ∧
      lower ((payload q dlen).getD 0 0) = 118 ∧ (findAvailableUser s).1 = some v ∧
      ((getUser s v).active = false ∨ (getUser s v).lastPkt + 60 < s.now)) ∨
    (∃ src bytes, inp = .rawf src bytes ∧
      IsRawLoginFrame (bytes.take 65536) v (Login.loginCalcC s.cfg.password ((getUser s v).seed + 1)) ∧
      v < s.cfg.createdUsers ∧ (getUser s v).active = true ∧ (getUser s v).disabled = false ∧
      (getUser s v).authenticated = true ∧ ¬ (getUser s v).lastPkt + 60 < s.now) := by
  rcases C04L.dispatch_host s inp tunsel v hne with ⟨q, rfl, h⟩ | ⟨src, bytes, r, rfl, hr, h⟩
  · left
    obtain ⟨dlen, a, b, c, d, e⟩ := dns_rebinds_only_by_allocation s q tunsel v h
    exact ⟨q, dlen, rfl, a, b, c, d, e⟩
  · right
    obtain ⟨h1, h2, h3, h4, h5, h6, h7, h8, h9, h10, h11⟩ := C04L.rawDecode_host s _ src r v hr h
    refine ⟨src, bytes, rfl, ⟨h2, h3, h4.symm, ?_, h11⟩, h6, h7, h8, h9, h10⟩
    have : (List.drop RAW_HDR_LEN (List.take 65536 bytes)).length = (List.take 65536 bytes).length - 4 := by
      simp [RAW_HDR_LEN]
    omega

-- the two cases are real: Mallory's `V` at t = 1061 (slot 0 expired), and a raw login frame with the right hash
example :
    bound (dispatch { Ex.s2 with now := 1061 } (.q (Ex.vq Ex.mallory)) false).1 0 ≠ bound { Ex.s2 with now := 1061 } 0 ∧
    IsRawLoginFrame ([16, 209, 158, 16] ++ Login.loginCalcC Ex.cfg.password 43) 0
      (Login.loginCalcC Ex.s2.cfg.password ((getUser Ex.s2 0).seed + 1)) ∧
    bound (dispatch Ex.s2 (.rawf Ex.mallory ([16, 209, 158, 16] ++ Login.loginCalcC Ex.cfg.password 43)) false).1 0
      = Ex.mallory := by
  refine ⟨by decide +kernel, ⟨by decide +kernel, by decide +kernel, by decide +kernel, by decide +kernel,
    by decide +kernel⟩, by decide +kernel⟩

end Iodine.C04
