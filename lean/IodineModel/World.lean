import IodineModel.Client.Loop
import IodineModel.Server.Loop
/-
The JOINED system: the client model (`Client/*`), the server model (`Server/*`) and the two directions of the
network between them, driven by a scheduler.  Executable (structural recursion / fuel only), core-only.

The hop abstraction.  A datagram in flight is kept in the decoded form the receiving model is fed with:
* upstream: the client's event `query id type name` (the name as the repository's own `dns_decode` reads it back
  from the datagram the client built, `Client.wireQuery`) becomes the server input
  `.q { name, type, id, from_ := clientAddr, dest := serverAddr }`;
* downstream: the server's event `ans dst id type downenc name data tag` with `dst = clientAddr` becomes the client
  input `.rq { rv := data.length, id, type := answerType type, rcode := 0, name0 := name.head, buf := data }`.  This is the
  HOP-LOSSLESS abstraction: for legal names and payloads that fit, what the client's `read_dns_withq` extracts from
  the server's encoded answer is exactly `data` (C08 for the query names; C09 / C10 for the answer encodings).  It is
  an assumption of this file, not something the world model re-derives;
* raw mode: `rawtx bytes` becomes `.rawf clientAddr bytes`, `raw dst bytes` becomes `.rawans bytes`.
Answers addressed to somebody else are not the client's business and vanish.

Tie.  `step` is run next to the real client + real server pair, event by event (`Drv/World.lean`, `checks/worldcheck.py:
report_world_model`): consumed / produced datagrams as the real receiver / sender decode them, tun writes, both state digests.

Clock.  Both programs read the same clock.  A `select` that times out consumed the whole seconds of its timeout
(the convention of `Client/Loop.lean`); whatever one side's step adds to its clock is added to the other side's.
-/
namespace Iodine.World
open Iodine

/-- where the server sees the client -/
def clientAddr : Server.Addr := ⟨4, 0x0a000a02, 40000⟩

/-- the local address the server received the query on (`q->destination`) -/
def serverAddr : Server.Addr := ⟨4, 0x0a000a01, 53⟩

/-- a datagram on its way to the server -/
inductive UpD where
  | query (id type : Nat) (name : List Nat)
  | raw (bytes : List Nat)
deriving DecidableEq, Repr

/-- a datagram on its way to the client -/
inductive DownD where
  | ans (id type : Nat) (name data : List Nat)
  | raw (bytes : List Nat)
deriving DecidableEq, Repr

/-- joint state -/
structure W where
  cs : Client.CState
  srv : Server.Srv
  up : List UpD                 -- in flight towards the server, oldest first
  down : List DownD             -- in flight towards the client, oldest first
  tunC : List (List Nat)        -- frames the client wrote to its tun device, oldest first
  tunS : List (List Nat)        -- frames the server wrote to its tun device, oldest first
deriving DecidableEq, Repr

/-- the scheduler's alphabet -/
inductive Ev where
  | offerC (frame : List Nat)   -- a packet is readable on the client's tun device
  | offerS (frame : List Nat)
  | deliverUp | deliverDown     -- the oldest datagram arrives
  | dropUp | dropDown           -- … is lost
  | dupUp | dupDown             -- … arrives, and a copy stays in flight
  | reorderUp | reorderDown     -- … is overtaken by all the others
  | tickC | tickS               -- the side's `select` times out
  | advance (dt : Nat)          -- `dt` seconds pass
deriving DecidableEq, Repr

/-! ### the two translations -/

def upOfEvents : List Client.CEvent → List UpD
  | [] => []
  | .query id ty name :: r => .query id ty name :: upOfEvents r
  | .rawtx b :: r => .raw b :: upOfEvents r
  | .tunw _ :: r => upOfEvents r
  | .sys _ :: r => upOfEvents r        -- (handshake only: never produced by the tunnel phase)

def tunOfCEvents : List Client.CEvent → List (List Nat)
  | [] => []
  | .tunw f :: r => f :: tunOfCEvents r
  | _ :: r => tunOfCEvents r

def downOfEvents : List Server.Event → List DownD
  | [] => []
  | .ans dst id ty _ name data _ :: r =>
    if dst = clientAddr then .ans id ty name data :: downOfEvents r else downOfEvents r
  | .raw dst b :: r => if dst = clientAddr then .raw b :: downOfEvents r else downOfEvents r
  | _ :: r => downOfEvents r

def tunOfSEvents : List Server.Event → List (List Nat)
  | [] => []
  | .tunw f :: r => f :: tunOfSEvents r
  | _ :: r => tunOfSEvents r

/-- the server input a datagram becomes -/
def srvInput : UpD → Server.Input
  | .query id ty name =>
    .q { name := name, type := ty, id := id, from_ := clientAddr, id2 := 0, from2 := Server.Addr.zero, dest := serverAddr }
  | .raw b => .rawf clientAddr b

/-- `q.type` as `read_dns_withq` leaves it: the type of the ANSWER record (dns.c `dns_decode`, "Here type is the answer type (note
A->CNAME)"); `dns_encode` answers an A question with a CNAME record, every other type with a record of the question's type.  (Found by
the tie of this file to the real client + server pair, `Drv/World.lean`; the tunnel phase of the client never reads the field.) -/
def answerType (ty : Nat) : Nat := if ty = Gen.T_A then Gen.T_CNAME else ty

/-- the client input a datagram becomes (see the head of the file: hop-lossless abstraction) -/
def cliInput : DownD → Client.CInput
  | .ans id ty name data =>
    .rq { rv := (data.length : Int), id := id, type := answerType ty, rcode := 0, name0 := name.headD 0, buf := data }
  | .raw b => .rawans b

/-! ### one step of either side -/

/-- the client's parked `select` returns with `inp` -/
def stepC (w : W) (inp : Client.CInput) : W :=
  let r := Client.cstep w.cs inp
  let dt := r.1.c.now - w.cs.c.now
  { w with cs := r.1, srv := { w.srv with now := w.srv.now + dt },
           up := w.up ++ upOfEvents r.2.1, tunC := w.tunC ++ tunOfCEvents r.2.1 }

/-- one iteration of the server's loop with `inp`; `dt` seconds passed inside `select` -/
def stepS (w : W) (inp : Server.Input) (dt : Nat) : W :=
  let r := Server.iteration w.srv inp (w.srv.now + dt)
  { w with srv := r.1, cs := { w.cs with c := { w.cs.c with now := w.cs.c.now + dt } },
           down := w.down ++ downOfEvents r.2.1, tunS := w.tunS ++ tunOfSEvents r.2.1 }

/-- tun is in the read set of the `select` the client is parked in -/
def tunSelC (w : W) : Bool :=
  match Client.pending w.cs with
  | .sel s => s.tun
  | _ => false

/-- tun is in the read set of the server's next `select` -/
def tunSelS (w : W) : Bool := (Server.topOfLoop w.srv).2.2

/-- timeout of the client's parked `select` in µs (`none`: no thread) -/
def timeoutC (w : W) : Option Int :=
  match Client.pending w.cs with
  | .sel s => some s.to
  | _ => none

/-- timeout of the server's next `select` in µs -/
def timeoutS (w : W) : Nat := (Server.topOfLoop w.srv).2.1

/-- the transition function.  A frame offered while the side does not select its tun device stays on the device
(nothing happens); a datagram for a client that has exited is discarded. -/
def step (w : W) : Ev → W
  | .offerC f => if tunSelC w then stepC w (.tun f) else w
  | .offerS f => if tunSelS w then stepS w (.tun f) 0 else w
  | .deliverUp =>
    match w.up with
    | [] => w
    | d :: rest => stepS { w with up := rest } (srvInput d) 0
  | .deliverDown =>
    match w.down with
    | [] => w
    | d :: rest => stepC { w with down := rest } (cliInput d)
  | .dropUp => { w with up := w.up.drop 1 }
  | .dropDown => { w with down := w.down.drop 1 }
  | .dupUp =>
    match w.up with
    | [] => w
    | d :: _ => stepS w (srvInput d) 0
  | .dupDown =>
    match w.down with
    | [] => w
    | d :: _ => stepC w (cliInput d)
  | .reorderUp => { w with up := w.up.drop 1 ++ w.up.take 1 }
  | .reorderDown => { w with down := w.down.drop 1 ++ w.down.take 1 }
  | .tickC => stepC w .tick
  | .tickS => stepS w .tick (timeoutS w / 1000000)
  | .advance dt =>
    { w with cs := { w.cs with c := { w.cs.c with now := w.cs.c.now + dt } }, srv := { w.srv with now := w.srv.now + dt } }

/-- run a schedule -/
def run (w : W) : List Ev → W
  | [] => w
  | e :: es => run (step w e) es

/-! ### the prompt scheduler -/

/-- Quiescent: nothing in flight, nothing being sent in either direction by session `u`, and the server holds no
query of it (immediate mode) / exactly one, in `q` (lazy mode). -/
def quiet (u : Nat) (w : W) : Bool :=
  let x := Server.getUser w.srv u
  w.up.isEmpty && w.down.isEmpty && !Client.isSending w.cs.c &&
  x.outpacket.len == 0 && x.oqFilled == 0 && x.qs.id == 0 &&
  (if x.lazy then x.q.id != 0 else x.q.id == 0)

/-- what the prompt scheduler does next: deliver the oldest datagram (upstream first), and only when nothing is in
flight let the `select` with the shorter timeout expire (the server's on a tie) -/
def promptEv (w : W) : Ev :=
  if !w.up.isEmpty then .deliverUp
  else if !w.down.isEmpty then .deliverDown
  else
    match timeoutC w with
    | some t => if (timeoutS w : Int) ≤ t then .tickS else .tickC
    | none => .tickS

/-- the prompt schedule from `w`, at most `fuel` steps, until session `u` is quiescent again; driver-free -/
def runPrompt (u : Nat) : Nat → W → W
  | 0, w => w
  | fuel + 1, w => if quiet u w then w else runPrompt u fuel (step w (promptEv w))

/-- the same run, also counting the scheduler events -/
def runPromptCount (u : Nat) : Nat → W → Nat → W × Nat
  | 0, w, n => (w, n)
  | fuel + 1, w, n => if quiet u w then (w, n) else runPromptCount u fuel (step w (promptEv w)) (n + 1)

/-- the events of that run -/
def promptTrace (u : Nat) : Nat → W → List Ev
  | 0, _ => []
  | fuel + 1, w => if quiet u w then [] else promptEv w :: promptTrace u fuel (step w (promptEv w))

/-- offer the frames one after the other, each followed by the prompt schedule (`fuel` steps at most per frame) -/
def offerAllC (u fuel : Nat) (w : W) : List (List Nat) → W
  | [] => w
  | f :: fs => offerAllC u fuel (runPrompt u fuel (step w (.offerC f))) fs

def offerAllS (u fuel : Nat) (w : W) : List (List Nat) → W
  | [] => w
  | f :: fs => offerAllS u fuel (runPrompt u fuel (step w (.offerS f))) fs

/-- a packet offered on one of the two tun devices -/
inductive Offer where
  | toServer (frame : List Nat)     -- read by the CLIENT from its tun device, to be carried upstream
  | toClient (frame : List Nat)     -- read by the SERVER from its tun device, to be carried downstream
deriving DecidableEq, Repr

/-- offer the packets one after the other, on either side, each followed by the prompt schedule -/
def offerAll (u fuel : Nat) (w : W) : List Offer → W
  | [] => w
  | .toServer f :: r => offerAll u fuel (runPrompt u fuel (step w (.offerC f))) r
  | .toClient f :: r => offerAll u fuel (runPrompt u fuel (step w (.offerS f))) r

/-- the frames of a list of offers that travel upstream / downstream, in order -/
def Offer.ups : List Offer → List (List Nat)
  | [] => []
  | .toServer f :: r => f :: Offer.ups r
  | .toClient _ :: r => Offer.ups r

def Offer.downs : List Offer → List (List Nat)
  | [] => []
  | .toServer _ :: r => Offer.downs r
  | .toClient f :: r => f :: Offer.downs r

/-! ### a pre-established session (no login: the joint state is written down directly)

Slot 0 of a freshly configured server is active and authenticated for `clientAddr`; the client has user id 0 and the same
upstream codec; both sides in lazy or in immediate mode.  Small limits (host names of 60 characters, i.e. 30 bytes
per upstream Base32 fragment, and downstream fragments of 30 bytes) so that short packets need several fragments. -/

/-- "t.ab" -/
def demoDomain : List Nat := [116, 46, 97, 98]

def demoConfig : Server.Config :=
  { checkIp := true, password := List.replicate 32 0, myIp := 0x0a000001, netmask := 27, topdomain := demoDomain,
    mtu := 1130, nsIp := 0, bindPort := 0, dest4 := 0x0a000a01, dest6 := 0, createdUsers := 0 }

def demoSession (lz raw : Bool) (e : Server.Enc) (x : Server.Session) : Server.Session :=
  { x with
      active := true, authenticated := true, authenticatedRaw := raw, lastPkt := 1000, host := clientAddr, encoder := e,
      downenc := 84, fragsize := 30, conn := if raw then .rawUdp else .dnsNull, lazy := lz,
      q := if raw then { Server.Query.zero with from_ := clientAddr } else x.q }

def demoServer (lz raw : Bool) (e : Server.Enc) : Server.Srv :=
  Server.setUser (Server.Srv.init demoConfig 27) 0 (demoSession lz raw e)

def demoClient (lz raw : Bool) (e : Client.Enc) : Client.Cli :=
  { Client.Cli.boot with
      topdomain := demoDomain, running := true, conn := if raw then .rawUdp else .dnsNull, userid := 0, useridChar := 48,
      useridChar2 := 48, dataenc := e, doQtype := 10, lazymode := lz, selecttimeout := if lz then 4 else 1,
      hostnameMaxlen := 60, chunkid := 1000, lastdownstreamtime := 1000, lastrawping := 1000, sendcnt := 0,
      sendPingSoon := 0 }

/-- immediate mode, DNS transport: quiescent as it stands -/
def demoImmediate (ec : Client.Enc) (es : Server.Enc) : W :=
  ⟨⟨demoClient false false ec, .tunnel⟩, demoServer false false es, [], [], [], []⟩

/-- lazy mode: the client's first ping has been sent and is held by the server -/
def demoLazy (ec : Client.Enc) (es : Server.Enc) : W :=
  run ⟨⟨demoClient true false ec, .tunnel⟩, demoServer true false es, [], [], [], []⟩ [.tickC, .deliverUp]

/-- raw UDP mode -/
def demoRaw : W := ⟨⟨demoClient false true .b32, .tunnel⟩, demoServer false true .b32, [], [], [], []⟩

/-- an IPv4/UDP-looking tun frame with `n` payload bytes from 10.0.0.2 (the client's tunnel address) to `10.0.0.dst` -/
def demoFrame (dst n : Nat) : List Nat :=
  [0, 0, 8, 0, 0x45, 0, 0, (n + 20) % 256, 0, 0, 0, 0, 64, 17, 0, 0, 10, 0, 0, if dst = 2 then 1 else 2, 10, 0, 0, dst] ++
    (List.range n).map (fun i => (i * 7 + 3) % 256)

end Iodine.World
