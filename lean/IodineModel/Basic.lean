def hello := "world"
