import IodineModel.Lemmas.C02M7
/-
C02 / lazy mode, DOWNSTREAM — presentation in terms of `runPrompt` / `runPromptCount`, and NON-VACUITY: the concrete lazy
session `exWL` of `C02L10.lean` (user 0, "t.ab", Base32, NULL queries, downstream fragments of 30 bytes; the client's first
ping is held by the server) satisfies the hypotheses, and the theorems applied to it.  Also: the state after an UPSTREAM
packet (`exWU`, `send_ping_soon = 20`) — quiescent as well, but a one-fragment downstream packet offered there needs 2
scheduler steps, not 3 (`lazy_down_count_depends_on_ping_due`).
-/
namespace Iodine.C02L
open Iodine Iodine.World

/-- **clean path, downstream, lazy mode** (every frame that needs `g ≤ 16` fragments), from ANY quiescent joint state in lazy
mode.  `offerS frame` followed by the prompt schedule reaches, after exactly `downStepsL sps g` scheduler steps (`2·g + 1`;
2 if `g = 1` and a ping was due at the client), a quiescent state again (with no ping due); the client has written exactly
one frame to its tun device — the offered one — and the server none. -/
theorem clean_path_downstream_lazy_gen {P : Par} (hP : P.Ok) {w : W} (hq : QuietLazy P w)
    (frame : List Nat) (hF : 0 < (Server.getUser w.srv P.u).fragsize)
    (hok : DownFrameOk (Server.getUser w.srv P.u).tunIp (Server.getUser w.srv P.u).fragsize frame) :
    ∃ w', (∀ fuel, 2 * downFrags (Server.getUser w.srv P.u).fragsize (frame.length + 1) (frame.length + 1) + 1 ≤ fuel →
        runPrompt P.u fuel (step w (.offerS frame)) = w') ∧
      (∀ fuel, 2 * downFrags (Server.getUser w.srv P.u).fragsize (frame.length + 1) (frame.length + 1) + 1 ≤ fuel →
        runPromptCount P.u fuel (step w (.offerS frame)) 0 =
          (w', downStepsL w.cs.c.sendPingSoon (downFrags (Server.getUser w.srv P.u).fragsize (frame.length + 1) (frame.length + 1)))) ∧
      QuietLazy P w' ∧ w'.cs.c.sendPingSoon = 0 ∧ w'.tunC = w.tunC ++ [tunImage frame] ∧ w'.tunS = w.tunS := by
  obtain ⟨w', h1, h2, h3, h4, h5, _⟩ := down_packet_lazy_gen hP hq frame hF hok
  have hle := downStepsL_le w.cs.c.sendPingSoon (downFrags (Server.getUser w.srv P.u).fragsize (frame.length + 1) (frame.length + 1))
  refine ⟨w', fun fuel hf => runPrompt_of_steps P.u _ _ _ h1 h2.quiet fuel (by omega), fun fuel hf => ?_, h2, h3, h4, h5⟩
  have := runPromptCount_of_steps P.u _ _ _ h1 h2.quiet fuel 0 (by omega)
  simpa using this

/-- … and from a quiescent state in which no ping is due at the client: exactly `2·g + 1` steps -/
theorem clean_path_downstream_lazy {P : Par} (hP : P.Ok) {w : W} (hq : QuietLazy P w) (hsps : w.cs.c.sendPingSoon = 0)
    (frame : List Nat) (hF : 0 < (Server.getUser w.srv P.u).fragsize)
    (hok : DownFrameOk (Server.getUser w.srv P.u).tunIp (Server.getUser w.srv P.u).fragsize frame) :
    ∃ w', (∀ fuel, 2 * downFrags (Server.getUser w.srv P.u).fragsize (frame.length + 1) (frame.length + 1) + 1 ≤ fuel →
        runPrompt P.u fuel (step w (.offerS frame)) = w') ∧
      (∀ fuel, 2 * downFrags (Server.getUser w.srv P.u).fragsize (frame.length + 1) (frame.length + 1) + 1 ≤ fuel →
        runPromptCount P.u fuel (step w (.offerS frame)) 0 =
          (w', 2 * downFrags (Server.getUser w.srv P.u).fragsize (frame.length + 1) (frame.length + 1) + 1)) ∧
      QuietLazy P w' ∧ w'.cs.c.sendPingSoon = 0 ∧ w'.tunC = w.tunC ++ [tunImage frame] ∧ w'.tunS = w.tunS := by
  obtain ⟨w', h1, h2, h3, h4, h5, _⟩ := down_packet_lazy hP hq hsps frame hF hok
  refine ⟨w', fun fuel hf => runPrompt_of_steps P.u _ _ _ h1 h2.quiet fuel hf, fun fuel hf => ?_, h2, h3, h4, h5⟩
  have := runPromptCount_of_steps P.u _ _ _ h1 h2.quiet fuel 0 hf
  simpa using this

/-! ### non-vacuity -/

theorem exWL_sps : exWL.cs.c.sendPingSoon = 0 := by rw [exWL_client]; rfl

theorem exWL_fragsize : (Server.getUser exWL.srv exPL.u).fragsize = 30 := by decide +kernel

theorem exWL_tunIp : (Server.getUser exWL.srv exPL.u).tunIp = 0x0a000002 := by decide +kernel

/-- a frame of 30 payload bytes addressed to the client's tunnel address 10.0.0.2: 55 compressed bytes, two fragments -/
theorem ex_acceptable_down_lazy :
    DownFrameOk (Server.getUser exWL.srv exPL.u).tunIp (Server.getUser exWL.srv exPL.u).fragsize (demoFrame 2 30) ∧
    downFrags 30 ((demoFrame 2 30).length + 1) ((demoFrame 2 30).length + 1) = 2 := by
  rw [exWL_fragsize, exWL_tunIp]
  exact ⟨⟨by decide, by decide, by decide +kernel, by decide +kernel⟩, by decide +kernel⟩

/-- the theorem applied: the 2-fragment frame arrives at the client's tun device after exactly 5 scheduler steps, unchanged -/
example : ∃ w', runPromptCount 0 5 (step exWL (.offerS (demoFrame 2 30))) 0 = (w', 5) ∧ QuietLazy exPL w' ∧
    w'.cs.c.sendPingSoon = 0 ∧ w'.tunC = [demoFrame 2 30] ∧ w'.tunS = [] := by
  obtain ⟨w', _, h2, h3, h4, h5, h6⟩ := clean_path_downstream_lazy exPL_ok ex_quiescent_lazy exWL_sps (demoFrame 2 30)
    (by rw [exWL_fragsize]; decide) ex_acceptable_down_lazy.1
  have hi : tunImage (demoFrame 2 30) = demoFrame 2 30 := by decide
  have ht : exWL.tunS = [] ∧ exWL.tunC = [] := by decide +kernel
  refine ⟨w', ?_, h3, h4, by rw [h5, hi, ht.2]; rfl, by rw [h6, ht.1]⟩
  have := h2 5 (by rw [exWL_fragsize, ex_acceptable_down_lazy.2]; omega)
  rw [exWL_fragsize, ex_acceptable_down_lazy.2] at this
  exact this

/-- … and a sequence of three frames (one, two and five fragments) -/
example : (offerAllS 0 40 exWL [demoFrame 2 4, demoFrame 2 30, demoFrame 2 100]).tunC =
    [demoFrame 2 4, demoFrame 2 30, demoFrame 2 100] := by
  have hok : ∀ f ∈ [demoFrame 2 4, demoFrame 2 30, demoFrame 2 100],
      DownFrameOk (Server.getUser exWL.srv exPL.u).tunIp (Server.getUser exWL.srv exPL.u).fragsize f := by
    intro f hf
    simp only [List.mem_cons, List.not_mem_nil, or_false] at hf
    rw [exWL_fragsize, exWL_tunIp]
    rcases hf with rfl | rfl | rfl
    · exact ⟨by decide, by decide, by decide +kernel, by decide +kernel⟩
    · exact ⟨by decide, by decide, by decide +kernel, by decide +kernel⟩
    · exact ⟨by decide +kernel, by decide +kernel, by decide +kernel, by decide +kernel⟩
  have := (down_sequence_lazy exPL_ok 40 (by omega) _ exWL ex_quiescent_lazy (by rw [exWL_fragsize]; decide) hok).2.1
  have ht : exWL.tunC = [] := by decide +kernel
  show (offerAllS exPL.u 40 exWL _).tunC = _
  rw [this, ht]
  decide

/-- the step counts of the three runs, as the theorem predicts them: 3, 5 and 11 (`C02t2.test_lazy_down_1/2/5`) -/
example : 2 * downFrags 30 ((demoFrame 2 4).length + 1) ((demoFrame 2 4).length + 1) + 1 = 3 ∧
    2 * downFrags 30 ((demoFrame 2 30).length + 1) ((demoFrame 2 30).length + 1) + 1 = 5 ∧
    2 * downFrags 30 ((demoFrame 2 100).length + 1) ((demoFrame 2 100).length + 1) + 1 = 11 := by decide +kernel

/-! ### the step count does depend on whether a ping was due: the state after an upstream packet -/

/-- `exWL` after one upstream packet (one fragment) was carried -/
def exWU : W := runPrompt 0 40 (step exWL (.offerC (demoFrame 9 4)))

theorem ex_quiescent_after_up : QuietLazy exPL exWU := by
  have hok : UpFrameOk exPL (Server.getUser exWL.srv exPL.u).tunIp (demoFrame 9 4) :=
    ⟨by decide, by decide, by unfold Codec.Bytes; decide, by decide +kernel, by decide +kernel⟩
  obtain ⟨w', h1, _, h3, _⟩ := clean_path_upstream_lazy exPL_ok ex_quiescent_lazy (demoFrame 9 4) hok
  have := h1 40 (by have := hok.frags; omega)
  have e : exWU = w' := this
  rw [e]; exact h3

/-- … the "Packet completed" branch of the client left `send_ping_soon = 20` behind -/
theorem exWU_sps : exWU.cs.c.sendPingSoon = 20 := by decide +kernel

theorem exWU_srv : (Server.getUser exWU.srv exPL.u).fragsize = 30 ∧ (Server.getUser exWU.srv exPL.u).tunIp = 0x0a000002 := by
  decide +kernel

/-- From the quiescent state `exWU` (a ping is due at the client in 20 ms) the one-fragment frame `demoFrame 2 4` is delivered
exactly once after 2 scheduler steps — the third step of the `2·g + 1` schedule does not exist: the statement
"`2·g + 1` steps from every `QuietLazy` state" is FALSE, which is why `down_packet_lazy` asks for `send_ping_soon = 0` and
`down_packet_lazy_gen` counts `downStepsL`. -/
theorem lazy_down_count_depends_on_ping_due :
    QuietLazy exPL exWU ∧
    DownFrameOk (Server.getUser exWU.srv exPL.u).tunIp (Server.getUser exWU.srv exPL.u).fragsize (demoFrame 2 4) ∧
    downFrags (Server.getUser exWU.srv exPL.u).fragsize ((demoFrame 2 4).length + 1) ((demoFrame 2 4).length + 1) = 1 ∧
    promptSteps exPL.u (2 * 1 + 1) (step exWU (.offerS (demoFrame 2 4))) = none ∧
    ∃ w', promptSteps exPL.u 2 (step exWU (.offerS (demoFrame 2 4))) = some w' ∧ QuietLazy exPL w' ∧
      w'.tunC = exWU.tunC ++ [demoFrame 2 4] ∧ w'.tunS = exWU.tunS := by
  have hok : DownFrameOk (Server.getUser exWU.srv exPL.u).tunIp (Server.getUser exWU.srv exPL.u).fragsize (demoFrame 2 4) := by
    rw [exWU_srv.1, exWU_srv.2]
    exact ⟨by decide, by decide, by decide +kernel, by decide +kernel⟩
  have hg : downFrags (Server.getUser exWU.srv exPL.u).fragsize ((demoFrame 2 4).length + 1) ((demoFrame 2 4).length + 1) = 1 := by
    rw [exWU_srv.1]; decide +kernel
  obtain ⟨w', h1, h2, _, h4, h5, _⟩ := down_packet_lazy_gen exPL_ok ex_quiescent_after_up (demoFrame 2 4)
    (by rw [exWU_srv.1]; decide) hok
  rw [hg, exWU_sps] at h1
  have h1' : promptSteps exPL.u 2 (step exWU (.offerS (demoFrame 2 4))) = some w' := h1
  have hi : tunImage (demoFrame 2 4) = demoFrame 2 4 := by decide
  refine ⟨ex_quiescent_after_up, hok, hg, ?_, w', h1', h2, by rw [h4, hi], h5⟩
  rw [promptSteps_add exPL.u 2 1 _ w' h1']
  simp [promptSteps, h2.quiet]

end Iodine.C02L
