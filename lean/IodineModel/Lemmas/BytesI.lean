import IodineModel.Lemmas.BytesD
import IodineModel.Lemmas.BytesE
import IodineModel.Lemmas.BytesH
import IodineModel.Lemmas.SrvC04f
import IodineModel.Props.C17
/-
Helper lemmas for the byte-level server, part I: the part of a legal query name that `query_datalen` matches against a top
domain accepted by `check_topdomain` has at most 191 characters; the full invariant of the process (keys + data + configuration).
-/
namespace Iodine.BytesL
open Iodine Iodine.Server Iodine.Gen Iodine.C10 Iodine.Common

/-! ### the matched top domain is short -/

theorem noDoubleDot_of_legal {q : List Nat} (h : LegalName q) : C17.NoDoubleDot q := by
  intro ⟨a, b, hab⟩
  have : labels q = labels a ++ ([] :: labels b) := by
    rw [← hab, show a ++ [46, 46] ++ b = a ++ 46 :: (46 :: b) by simp, labels_append_dot]
    simp [labels]
  have h0 := h.2.2 [] (by rw [this]; simp)
  simp at h0

theorem labels_head_prefix : ∀ (lab B : List Nat), 46 ∉ lab → ∃ l ls, labels (lab ++ B) = l :: ls ∧ lab.length ≤ l.length
  | [], B, _ => by
    cases h : labels B with
    | nil => exact absurd h (labels_ne_nil B)
    | cons l ls => exact ⟨l, ls, by simpa using h, by simp⟩
  | c :: lab, B, hd => by
    have hc : c ≠ 46 := fun e => hd (e ▸ List.mem_cons_self)
    obtain ⟨l, ls, hl, hlen⟩ := labels_head_prefix lab B (fun e => hd (List.mem_cons_of_mem _ e))
    refine ⟨c :: l, ls, ?_, by simp; omega⟩
    simp only [List.cons_append, labels, if_neg hc, hl]

/-- a dot-free stretch of a name whose labels have at most `m` bytes has at most `m` bytes -/
theorem dotfree_infix_le (m : Nat) : ∀ (A lab B : List Nat), (∀ l ∈ labels (A ++ lab ++ B), l.length ≤ m) → 46 ∉ lab →
    lab.length ≤ m
  | [], lab, B, h, hd => by
    obtain ⟨l, ls, hl, hlen⟩ := labels_head_prefix lab B hd
    have := h l (by simp only [List.nil_append]; rw [hl]; exact List.mem_cons_self)
    omega
  | c :: A, lab, B, h, hd => by
    apply dotfree_infix_le m A lab B _ hd
    intro l hl
    simp only [List.cons_append, labels] at h
    split at h
    · exact h l (List.mem_cons_of_mem _ hl)
    · cases hq : labels (A ++ lab ++ B) with
      | nil => rw [hq] at hl; cases hl
      | cons l0 ls =>
        rw [hq] at h hl
        simp only [List.mem_cons] at hl
        rcases hl with rfl | hl
        · have := h (c :: l) List.mem_cons_self
          simp at this; omega
        · exact h l (List.mem_cons_of_mem _ hl)

/-- **The top domain matched by `query_datalen`** in a legal query name, for a top domain that `check_topdomain` accepts
(plain, or `*.` + plain; at most 128 characters), has at most 191 characters: the domain itself, or one label (≤ 63) and the
domain without its `*`. -/
theorem matched_top_le {q t : List Nat} {n : Nat} (hq : LegalName q) (ht : checkTopdomain t true = 0)
    (h : queryDatalen q t = some n) : (q.drop n).length ≤ 191 := by
  have hv := (C17.check_topdomain_iff_spec t true).1 ht
  obtain ⟨pre, suf, hqs, hm, _, hn⟩ := (C17.query_datalen_iff_spec q t n hv (noDoubleDot_of_legal hq)).1 h
  have hdrop : q.drop n = suf := by rw [hqs, hn, List.drop_left]
  rw [hdrop]
  have h128 := hv.2.1
  unfold C17.SufMatches at hm
  split at hm
  · obtain ⟨lab, suf', hs, _, hdot, _, hci⟩ := hm
    have hl : suf'.length = t.tail.length := by
      have := congrArg List.length hci
      simpa using this
    have hlab : lab.length ≤ 63 := by
      apply dotfree_infix_le 63 pre lab suf' _ hdot
      intro l hl
      rw [List.append_assoc, ← hs, ← hqs] at hl
      exact (hq.2.2 l hl).2
    rw [hs, List.length_append, hl, List.length_tail]
    omega
  · have := congrArg List.length hm
    simp only [List.length_map] at this
    omega

/-! ### the invariant of the process, complete -/

/-- what iodined's `main` guarantees about the configuration -/
def CfgOk (cfg : Config) : Prop := CfgBound cfg ∧ checkTopdomain cfg.topdomain true = 0

structure BInv2 (b : BSrv) : Prop where
  base : BInv b
  data : DataInv b.srv
  cfg : CfgOk b.srv.cfg

/-- a byte-level input made of bytes -/
def ByteInput : BInput → Prop
  | .dgram _ bytes => IsBytes bytes
  | .tun f => IsBytes f
  | .bind _ => True
  | .tick => True

theorem inputBytes_toInput (s : Srv) (inp : BInput) (hb : ByteInput inp) (hl : LegalInput inp) : InputBytes (toInput s inp) := by
  cases inp with
  | tun f => exact hb
  | bind d => trivial
  | tick => trivial
  | dgram src bytes =>
    cases hti : toInput s (.dgram src bytes) with
    | q q =>
      have hleg := (toInput_q hti).2.2.2 hl
      exact ⟨fun c hc => (hleg.2.1 c hc).2, by have := hleg.1; omega⟩
    | rawf src' pkt =>
      -- `raw_decode` took the (cut) datagram
      unfold toInput decodeInput decodeInputR at hti
      simp only [] at hti
      split at hti
      · rename_i i hi
        split at hi
        · cases hi; cases hti
        · split at hi
          · cases hi; cases hti
            exact isBytes_take _ hb
          · obtain ⟨d, _, hi⟩ := bind_eq_ok hi
            split at hi <;> (cases hi; cases hti)
      · cases hti
    | tun f =>
      exfalso
      unfold toInput decodeInput decodeInputR at hti
      simp only [] at hti
      split at hti
      · rename_i i hi
        split at hi
        · cases hi; cases hti
        · split at hi
          · cases hi; cases hti
          · obtain ⟨d, _, hi⟩ := bind_eq_ok hi
            split at hi <;> (cases hi; cases hti)
      · cases hti
    | bind d => trivial
    | tick => trivial

theorem binv2_start (cfg : Config) (hc : CfgOk cfg) (rnd : List Nat) : BInv2 (bstart cfg rnd) :=
  ⟨binv_start cfg rnd, dataInv_start cfg rnd, hc⟩

theorem binv2_step {b : BSrv} (hb : BInv2 b) (inp : BInput) (now' : Nat) (hl : LegalInput inp) (hby : ByteInput inp) :
    BInv2 (biteration b inp now').1 ∧ AnsInv GoodKey (out b.srv ⟨toInput b.srv inp, now'⟩) ∧
      AnsOK (out b.srv ⟨toInput b.srv inp, now'⟩) := by
  have h1 := binv_step hb.base inp now' hl
  have h2 := iteration_data hb.data hb.cfg.1 (toInput b.srv inp) (inputBytes_toInput b.srv inp hby hl) now'
  refine ⟨⟨h1.1, h2.1, ?_⟩, h1.2, h2.2⟩
  have : (biteration b inp now').1.srv.cfg = b.srv.cfg := C04L.iteration_cfg b.srv (toInput b.srv inp) now'
  rw [this]
  exact hb.cfg

end Iodine.BytesL
