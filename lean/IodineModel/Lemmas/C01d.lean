import IodineModel.Lemmas.C01c
import IodineModel.Lemmas.SrvC04e
import IodineModel.Lemmas.SrvC03a
/-
Helper lemmas for C01, part d: the server's upstream reassembly.  `handle_full_packet`, the data handler as a machine on
`inpacket` alone (`sxStep`), and the classification of what one `dispatch` can do to a reassembly buffer.
-/
namespace Iodine.C01L
open Iodine Iodine.Server Iodine.Gen
open Iodine.C04L (getUser_setUser getUser_setUser_ne getUser_setUser_self Frame)

/-! ### handle_full_packet -/

/-- the frames `handle_full_packet` writes to tun when the reassembled buffer is `b` (state `s` decides whether the
destination is another client) -/
def fullTun (s : Srv) (b : List Nat) : List (List Nat) :=
  match uncompress b 65536 with
  | some out =>
    if out.length ≥ 4 + 20 then
      match findUserByIp s (ipDst out) with
      | none => [[0, 0, 8, 0] ++ out.drop 4]
      | some _ => []
    else []
  | none => []

theorem handleFullPacket_tun (s : Srv) (u : Nat) :
    stunws (handleFullPacket s u).2 = fullTun s ((getUser s u).inpacket.data.take (getUser s u).inpacket.len) := by
  unfold handleFullPacket fullTun
  dsimp only
  cases uncompress (List.take (getUser s u).inpacket.len (getUser s u).inpacket.data) 65536 with
  | none => rfl
  | some out =>
    dsimp only
    split
    · cases findUserByIp s (ipDst out) with
      | none => rfl
      | some t => exact (inert_deliverToUser s t _ _).quiet
    · rfl

/-- `handle_full_packet(u)` empties `u`'s buffer and touches nobody else's -/
theorem handleFullPacket_in (s : Srv) (u v : Nat) :
    (getUser (handleFullPacket s u).1 v).inpacket =
      if v = u ∧ u < s.users.length then { (getUser s u).inpacket with len := 0, offset := 0 }
      else (getUser s v).inpacket := by
  unfold handleFullPacket
  dsimp only
  have key : ∀ s', SameIn s s' → s'.users.length = s.users.length →
      (getUser (setUser s' u fun y => { y with inpacket := { y.inpacket with len := 0, offset := 0 } }) v).inpacket =
      if v = u ∧ u < s.users.length then { (getUser s u).inpacket with len := 0, offset := 0 }
      else (getUser s v).inpacket := by
    intro s' h hl
    rw [getUser_setUser, hl]
    split
    · next hc => rw [h.eq u]
    · exact h.eq v
  cases uncompress (List.take (getUser s u).inpacket.len (getUser s u).inpacket.data) 65536 with
  | none => exact key s (SameIn.refl s) rfl
  | some out =>
    dsimp only
    split
    · cases findUserByIp s (ipDst out) with
      | none => exact key s (SameIn.refl s) rfl
      | some t =>
        refine key _ (inert_deliverToUser s t _ _).same ?_
        exact ((C04L.frame_deliverToUser s t _ _).len)
    · exact key s (SameIn.refl s) rfl


/-! ### the data handler as a machine on `inpacket` -/

/-- the upstream half of the data header: `(up_seq, up_frag, lastfrag)` -/
def upHdr (inb : List Nat) : Nat × Nat × Bool :=
  ((b32_8to5 (inb.getD 1 0) >>> 2) &&& 7,
   ((b32_8to5 (inb.getD 1 0) &&& 3) <<< 2) ||| ((b32_8to5 (inb.getD 2 0) >>> 3) &&& 3),
   decide ((b32_8to5 (inb.getD 3 0) &&& 1) = 1))

/-- `dataUpstream` on the packet -/
def sxUp (p : Packet) (upSeq upFrag : Nat) : Packet × Bool :=
  if (upSeq : Int) = p.seqno ∧ (upFrag : Int) ≤ p.fragment then (p, false)
  else if (upSeq : Int) ≠ p.seqno ∧ recentSeqno p.seqno upSeq then (p, false)
  else if (upSeq : Int) ≠ p.seqno then ({ p with seqno := upSeq, fragment := upFrag, len := 0, offset := 0 }, true)
  else ({ p with fragment := upFrag }, true)

/-- `dataStore` on the packet, given the decoded bytes -/
def sxStore (p : Packet) (unp : List Nat) : Packet :=
  { p with data := p.data.take p.offset ++ unp.take (PACKET_DATA_SIZE - p.offset),
           len := p.len + (unp.take (PACKET_DATA_SIZE - p.offset)).length,
           offset := p.offset + (unp.take (PACKET_DATA_SIZE - p.offset)).length }

/-- the buffer after the sequence bookkeeping and (if the fragment is taken) the copy -/
def sxTake (p : Packet) (upSeq upFrag : Nat) (unp : List Nat) : Packet :=
  if (sxUp p upSeq upFrag).2 then sxStore (sxUp p upSeq upFrag).1 unp else (sxUp p upSeq upFrag).1

/-- the data handler on `inpacket`: new buffer, and the bytes handed to `handle_full_packet` if it is called -/
def sxStep (p : Packet) (upSeq upFrag : Nat) (last : Bool) (unp : List Nat) : Packet × Option (List Nat) :=
  if (sxUp p upSeq upFrag).2 ∧ last then
    ({ sxTake p upSeq upFrag unp with len := 0, offset := 0 },
     some ((sxTake p upSeq upFrag unp).data.take (sxTake p upSeq upFrag unp).len))
  else (sxTake p upSeq upFrag unp, none)

theorem dataUpstream_sx (x : Session) (a b : Nat) :
    (dataUpstream x a b).1 = { x with inpacket := (sxUp x.inpacket a b).1 } ∧
    (dataUpstream x a b).2 = (sxUp x.inpacket a b).2 := by
  unfold dataUpstream sxUp
  split
  · exact ⟨rfl, rfl⟩
  · split
    · exact ⟨rfl, rfl⟩
    · split <;> exact ⟨rfl, rfl⟩

theorem dataStore_sx (x : Session) (pl : List Nat) :
    (dataStore x pl).inpacket = sxStore x.inpacket (Encoding.unpackData x.encoder.codec 65536 pl) := rfl

seal dataStepQs dataStepQ dataStepFinal handleFullPacket dataUpstream dataStore

/-- the tail of the data handler (answering the waiting queries, storing the new one) is inert -/
theorem dataFresh_eq (s : Srv) (u : Nat) (q : Query) (inb : List Nat) :
    ∃ (s2 : Srv) (tail : Res),
      Frame C04L.erIn (· = u) s s2 ∧
      (u < s.users.length → (getUser s2 u).inpacket =
        sxTake (getUser s u).inpacket (upHdr inb).1 (upHdr inb).2.1
          (Encoding.unpackData (getUser s u).encoder.codec 65536 (inb.drop 5))) ∧
      (let r3 : Res := if (sxUp (getUser s u).inpacket (upHdr inb).1 (upHdr inb).2.1).2 ∧ (upHdr inb).2.2
          then handleFullPacket s2 u else (s2, [])
       Inert r3.1 tail ∧ dataFresh s u q inb = (tail.1, r3.2 ++ tail.2)) := by
  unfold dataFresh
  extract_lets b1 b2 b3 upSeq upFrag dnSeq dnFrag lastfrag s1 up upstreamOk s2 r3 r4 r5 s6 r7
  have f0 : Frame C04L.erOut (· = u) s s1 := C04L.frame_processDownstreamAck s u dnSeq dnFrag
  have hin : (getUser s1 u).inpacket = (getUser s u).inpacket := by
    have := congrArg Session.inpacket (f0.rel u); exact this
  have henc : (getUser s1 u).encoder = (getUser s u).encoder := by
    have := congrArg Session.encoder (f0.rel u); exact this
  obtain ⟨hu1, hu2⟩ := dataUpstream_sx (getUser s1 u) upSeq upFrag
  have f1 : Frame C04L.erIn (· = u) s s2 := by
    refine Frame.trans (f0.coarsen C04L.erIn_erOut) ?_
    apply Frame.setv C04L.erIn s1 u
    split
    · rw [C04L.erIn_dataStore, C04L.erIn_dataUpstream]
    · rw [C04L.erIn_dataUpstream]
  have hok : upstreamOk = (sxUp (getUser s u).inpacket (upHdr inb).1 (upHdr inb).2.1).2 := by
    show up.2 = _
    rw [hu2, hin]; rfl
  refine ⟨s2, (r7.1, r4.1.2 ++ r5.1.2 ++ r7.2), f1, ?_, ?_⟩
  · intro hu
    have hu' : u < s1.users.length := by rw [f0.len]; exact hu
    show (getUser (setUser s1 u _) u).inpacket = _
    rw [getUser_setUser_self s1 u _ hu']
    unfold sxTake
    rw [← hok]
    show (if up.2 = true then dataStore up.1 (inb.drop 5) else up.1).inpacket = _
    cases hup : up.2 with
    | true =>
      have hup' : upstreamOk = true := hup
      simp only [if_true, hup']
      rw [dataStore_sx, hu1]
      show sxStore (sxUp (getUser s1 u).inpacket upSeq upFrag).1
        (Encoding.unpackData (getUser s1 u).encoder.codec 65536 (inb.drop 5)) = _
      rw [hin, henc]; rfl
    | false =>
      have hup' : upstreamOk = false := hup
      simp only [Bool.false_eq_true, if_false, hup']
      rw [hu1]
      show (sxUp (getUser s1 u).inpacket upSeq upFrag).1 = _
      rw [hin]; rfl
  · dsimp only
    rw [← hok]
    have hr3 : (if upstreamOk = true ∧ (upHdr inb).2.2 = true then handleFullPacket s2 u else (s2, [])) = r3 := rfl
    rw [hr3]
    have i4 : Inert r3.1 r4.1 := inert_dataStepQs r3.1 u
    have i5 : Inert r4.1.1 r5.1 := inert_dataStepQ r4.1.1 u upstreamOk lastfrag r4.2
    have h6 : SameIn r5.1.1 s6 := same_saveQuery r5.1.1 u q
    have i7 : Inert s6 r7 := inert_dataStepFinal s6 u upstreamOk lastfrag r5.2
    refine ⟨⟨((i4.same.trans i5.same).trans h6).trans i7.same, ?_⟩, ?_⟩
    · show stunws (r4.1.2 ++ r5.1.2 ++ r7.2) = []
      rw [stunws_append, stunws_append, i4.quiet, i5.quiet, i7.quiet]; rfl
    · show (r7.1, r3.2 ++ r4.1.2 ++ r5.1.2 ++ r7.2) = (r7.1, r3.2 ++ (r4.1.2 ++ r5.1.2 ++ r7.2))
      simp only [List.append_assoc]


theorem fullTun_congr {s s' : Srv} (h : ∀ ip, findUserByIp s' ip = findUserByIp s ip) (b : List Nat) :
    fullTun s' b = fullTun s b := by
  unfold fullTun
  cases uncompress b 65536 with
  | none => rfl
  | some out => dsimp only; rw [h]

/-- **the data handler projects onto `sxStep`**: the buffer of `u` afterwards, nobody else's buffer touched, and the
tun writes are those of `handle_full_packet` on the completed buffer -/
theorem dataFresh_sx (s : Srv) (u : Nat) (q : Query) (inb : List Nat) (hu : u < s.users.length) :
    (getUser (dataFresh s u q inb).1 u).inpacket =
      (sxStep (getUser s u).inpacket (upHdr inb).1 (upHdr inb).2.1 (upHdr inb).2.2
        (Encoding.unpackData (getUser s u).encoder.codec 65536 (inb.drop 5))).1 ∧
    (∀ v, v ≠ u → (getUser (dataFresh s u q inb).1 v).inpacket = (getUser s v).inpacket) ∧
    stunws (dataFresh s u q inb).2 =
      (match (sxStep (getUser s u).inpacket (upHdr inb).1 (upHdr inb).2.1 (upHdr inb).2.2
          (Encoding.unpackData (getUser s u).encoder.codec 65536 (inb.drop 5))).2 with
        | some b => fullTun s b
        | none => []) := by
  obtain ⟨s2, tail, f1, h2, hrest⟩ := dataFresh_eq s u q inb
  have h2 := h2 hu
  dsimp only at hrest
  unfold sxStep
  by_cases hc : (sxUp (getUser s u).inpacket (upHdr inb).1 (upHdr inb).2.1).2 = true ∧ (upHdr inb).2.2 = true
  · rw [if_pos hc] at hrest ⊢
    obtain ⟨it, he⟩ := hrest
    rw [he]
    dsimp only
    refine ⟨?_, ?_, ?_⟩
    · rw [it.same.eq u, handleFullPacket_in, if_pos ⟨rfl, by rw [f1.len]; exact hu⟩, h2]
    · intro v hv
      rw [it.same.eq v, handleFullPacket_in, if_neg (fun h => hv h.1), f1.other v hv]
    · rw [stunws_append, it.quiet, List.append_nil, handleFullPacket_tun, h2]
      exact fullTun_congr (fun ip => f1.findUserByIp_eq ip) _
  · rw [if_neg hc] at hrest ⊢
    obtain ⟨it, he⟩ := hrest
    rw [he]
    dsimp only
    refine ⟨?_, ?_, ?_⟩
    · rw [it.same.eq u, h2]
    · intro v hv
      rw [it.same.eq v, f1.other v hv]
    · rw [List.nil_append, it.quiet]


/-! ### classification of the handlers that can touch a reassembly buffer -/

theorem stunws_sendVersionResponse (s : Srv) (k : VersionAck) (p u : Nat) (q : Query) :
    stunws [sendVersionResponse s k p u q] = [] := rfl

/-- the version handshake resets the buffer of the slot it allocates and of no other -/
theorem handleVersion_in (s : Srv) (q : Query) (inb : List Nat) :
    (∀ v, (findAvailableUser s).1 ≠ some v →
      (getUser (handleVersion s q inb).1 v).inpacket = (getUser s v).inpacket) ∧
    stunws (handleVersion s q inb).2 = [] := by
  rcases C04L.handleVersion_cases s q inb with ⟨u, _, hu, hs, he⟩ | ⟨hs, he⟩
  · refine ⟨?_, by rw [he]; rfl⟩
    intro v hv
    have hvu : v ≠ u := fun h => hv (by rw [hu, h])
    rw [hs, getUser_setUser_ne _ _ _ _ hvu, getUser_setUser_ne _ _ _ _ hvu, C04L.getUser_popRand,
      getUser_setUser_ne _ _ _ _ hvu]
  · refine ⟨fun v _ => by rw [hs], ?_⟩
    rcases he with he | he <;> rw [he] <;> rfl

theorem lt_length_of_active {s : Srv} {u : Nat} (h : (getUser s u).active = true) : u < s.users.length := by
  apply Classical.byContradiction
  intro hn
  have : getUser s u = Session.zero 0 := by
    unfold getUser
    simp [List.getD_eq_getElem?_getD, List.getElem?_eq_none (Nat.le_of_not_lt hn)]
  rw [this] at h
  simp [Session.zero] at h

theorem handleData_class (s : Srv) (q : Query) (dlen : Nat) (inb : List Nat) :
    Inert s (handleData s q dlen inb) ∨
    (∃ u : Nat, 6 ≤ dlen ∧ q.id ≠ 0 ∧ hexCode (inb.getD 0 0) = (u : Int) ∧ u < s.users.length ∧
      checkAuthenticatedUserAndIp s (u : Int) q = false ∧
      handleData s q dlen inb = dataFresh s u q inb) := by
  unfold handleData
  split
  · exact Or.inl (Inert.nil s)
  · split
    · exact Or.inl (Inert.nil s)
    · dsimp only
      split
      · exact Or.inl ⟨SameIn.refl s, rfl⟩
      · next h6 hid hchk =>
        split
        · next e he => exact Or.inl (Inert.ev (SameIn.refl s) (stunws_answerFromDnscache he))
        · split
          · next e he => exact Or.inl (Inert.ev (SameIn.refl s) (stunws_answerFromQmem he))
          · split
            · next s' hs => exact Or.inl (Inert.state (same_rememberDuplicate hs))
            · right
              have hchk' : checkAuthenticatedUserAndIp s (hexCode (inb.getD 0 0)) q = false := by
                simpa using hchk
              obtain ⟨hc, _⟩ := C04L.checkAuth_false s _ q hchk'
              obtain ⟨h0, _, hact, _⟩ := C04L.checkUserAndIp_false s _ q hc
              have hcast : hexCode (inb.getD 0 0) = ((hexCode (inb.getD 0 0)).toNat : Int) :=
                (Int.toNat_of_nonneg h0).symm
              refine ⟨(hexCode (inb.getD 0 0)).toNat, by omega, hid, hcast, ?_, ?_, rfl⟩
              · exact lt_length_of_active hact
              · rw [← hcast]; exact hchk'


seal handleVersion handleLogin handleIp handleZ handleSwitchCodec handleOptions handleDownCodecCheck
  handleFragsizeProbe handleSetFragsize handlePing handleData

theorem handleNullRequest_class (s : Srv) (q : Query) (dlen : Nat) :
    Inert s (handleNullRequest s q dlen) ∨
    (((q.name.take (min dlen 512)).getD 0 0 = 86 ∨ (q.name.take (min dlen 512)).getD 0 0 = 118) ∧
      handleNullRequest s q dlen = handleVersion s q (q.name.take (min dlen 512))) ∨
    handleNullRequest s q dlen = handleData s q dlen (q.name.take (min dlen 512)) := by
  unfold handleNullRequest
  by_cases h2 : dlen < 2
  · rw [if_pos h2]; exact Or.inl (Inert.nil s)
  rw [if_neg h2]
  simp only []
  generalize q.name.take (min dlen 512) = inb
  generalize inb.getD 0 0 = c
  by_cases h : c = 86 ∨ c = 118
  · rw [if_pos h]; exact Or.inr (Or.inl ⟨h, rfl⟩)
  rw [if_neg h]
  by_cases h : c = 76 ∨ c = 108
  · rw [if_pos h]; exact Or.inl (inert_handleLogin _ _ _)
  rw [if_neg h]
  by_cases h : c = 73 ∨ c = 105
  · rw [if_pos h]; exact Or.inl (inert_handleIp _ _ _)
  rw [if_neg h]
  by_cases h : c = 90 ∨ c = 122
  · rw [if_pos h]; exact Or.inl (inert_handleZ _ _ _)
  rw [if_neg h]
  by_cases h : c = 83 ∨ c = 115
  · rw [if_pos h]; exact Or.inl (inert_handleSwitchCodec _ _ _ _)
  rw [if_neg h]
  by_cases h : c = 79 ∨ c = 111
  · rw [if_pos h]; exact Or.inl (inert_handleOptions _ _ _ _)
  rw [if_neg h]
  by_cases h : c = 89 ∨ c = 121
  · rw [if_pos h]; exact Or.inl (inert_handleDownCodecCheck _ _ _ _)
  rw [if_neg h]
  by_cases h : c = 82 ∨ c = 114
  · rw [if_pos h]; exact Or.inl (inert_handleFragsizeProbe _ _ _ _)
  rw [if_neg h]
  by_cases h : c = 78 ∨ c = 110
  · rw [if_pos h]; exact Or.inl (inert_handleSetFragsize _ _ _)
  rw [if_neg h]
  by_cases h : c = 80 ∨ c = 112
  · rw [if_pos h]; exact Or.inl (inert_handlePing _ _ _)
  rw [if_neg h]
  by_cases h : isHexDigit c = true
  · rw [if_pos h]; exact Or.inr (Or.inr rfl)
  rw [if_neg h]; exact Or.inl (Inert.nil s)

seal handleNullRequest handleARequest handleNsRequest forwardQuery

theorem tunnelDns_class (s : Srv) (q : Query) :
    Inert s (tunnelDns s q) ∨
    (∃ dlen, Common.queryDatalen q.name s.cfg.topdomain = some dlen ∧
      ((((q.name.take (min dlen 512)).getD 0 0 = 86 ∨ (q.name.take (min dlen 512)).getD 0 0 = 118) ∧
        tunnelDns s q = handleVersion s q (q.name.take (min dlen 512))) ∨
       tunnelDns s q = handleData s q dlen (q.name.take (min dlen 512)))) := by
  unfold tunnelDns
  split
  · exact Or.inl (Inert.nil s)
  · split
    · next dlen hd =>
      dsimp only
      split
      · exact Or.inl (inert_handleARequest _ _ _)
      · split
        · exact Or.inl (inert_handleARequest _ _ _)
        · split
          · rcases handleNullRequest_class s q dlen with h | h | h
            · exact Or.inl h
            · exact Or.inr ⟨dlen, hd, Or.inl h⟩
            · exact Or.inr ⟨dlen, hd, Or.inr h⟩
          · split
            · exact Or.inl (inert_handleNsRequest _ _ _)
            · exact Or.inl (Inert.nil s)
    · split
      · exact Or.inl (inert_forwardQuery _ _)
      · exact Or.inl (Inert.nil s)

/-- the state in which `handle_raw_data` calls `handle_full_packet` -/
def rawStored (s : Srv) (u : Nat) (src : Addr) (body : List Nat) : Srv :=
  setUser s u fun x =>
    { x with lastPkt := s.now, q := rawQuery src,
             inpacket := { x.inpacket with offset := 0, data := body, len := body.length } }

theorem rawDecode_class (s : Srv) (packet : List Nat) (src : Addr) (r : Res) (h : rawDecode s packet src = some r) :
    Inert s r ∨
    (checkAuthenticatedUserAndIp s ((packet.getD 3 0 &&& RAW_HDR_USR_MASK : Nat) : Int) (rawQuery src) = false ∧
      r = handleFullPacket (rawStored s (packet.getD 3 0 &&& RAW_HDR_USR_MASK) src (packet.drop RAW_HDR_LEN))
        (packet.getD 3 0 &&& RAW_HDR_USR_MASK)) := by
  unfold rawDecode at h
  split at h
  · cases h
  · split at h
    · cases h
    · dsimp only at h
      split at h
      · cases h; exact Or.inl (inert_handleRawLogin _ _ _ _)
      · split at h
        · cases h
          unfold handleRawData
          split
          · exact Or.inl (Inert.nil s)
          · next hchk =>
            split
            · exact Or.inl (Inert.nil s)
            · exact Or.inr ⟨by simpa using hchk, rfl⟩
        · split at h
          · cases h; exact Or.inl (inert_handleRawPing _ _ _)
          · cases h; exact Or.inl (Inert.nil s)

seal tunnelDns rawDecode tunnelTun tunnelBind

/-- **What one handler phase can do to reassembly buffers and the tun device**: nothing (inert), the version handshake
(resets the slot it allocates), the upstream data handler for slot `u` (got past all filters), or a raw-mode data frame
for slot `u`. -/
theorem dispatch_class (s : Srv) (inp : Input) (tunsel : Bool) :
    Inert s (dispatch s inp tunsel) ∨
    (∃ q dlen, inp = .q q ∧ Common.queryDatalen q.name s.cfg.topdomain = some dlen ∧
        ((q.name.take (min dlen 512)).getD 0 0 = 86 ∨ (q.name.take (min dlen 512)).getD 0 0 = 118) ∧
        dispatch s inp tunsel = handleVersion s q (q.name.take (min dlen 512))) ∨
    (∃ (q : Query) (u dlen : Nat), inp = .q q ∧ Common.queryDatalen q.name s.cfg.topdomain = some dlen ∧ 6 ≤ dlen ∧ q.id ≠ 0 ∧
        hexCode ((q.name.take (min dlen 512)).getD 0 0) = (u : Int) ∧ u < s.users.length ∧
        checkAuthenticatedUserAndIp s (u : Int) q = false ∧
        dispatch s inp tunsel = dataFresh s u q (q.name.take (min dlen 512))) ∨
    (∃ src bytes, inp = .rawf src bytes ∧
        checkAuthenticatedUserAndIp s (((bytes.take 65536).getD 3 0 &&& RAW_HDR_USR_MASK : Nat) : Int) (rawQuery src)
          = false ∧
        dispatch s inp tunsel =
          handleFullPacket (rawStored s ((bytes.take 65536).getD 3 0 &&& RAW_HDR_USR_MASK) src
            ((bytes.take 65536).drop RAW_HDR_LEN)) ((bytes.take 65536).getD 3 0 &&& RAW_HDR_USR_MASK)) := by
  cases inp with
  | tick => exact Or.inl (Inert.nil s)
  | tun frame =>
    left
    show Inert s (if tunsel then tunnelTun s (frame.take 65536) else (s, []))
    split
    · exact inert_tunnelTun _ _
    · exact Inert.nil s
  | q q =>
    show Inert s (tunnelDns s q) ∨ _
    rcases tunnelDns_class s q with h | ⟨dlen, hd, h | h⟩
    · exact Or.inl h
    · exact Or.inr (Or.inl ⟨q, dlen, rfl, hd, h.1, h.2⟩)
    · rcases handleData_class s q dlen (q.name.take (min dlen 512)) with hi | ⟨u, h6, hid, hu, hlt, hchk, he⟩
      · left; show Inert s (tunnelDns s q); rw [h]; exact hi
      · exact Or.inr (Or.inr (Or.inl ⟨q, u, dlen, rfl, hd, h6, hid, hu, hlt, hchk, h.trans he⟩))
  | rawf src bytes =>
    have hd : dispatch s (.rawf src bytes) tunsel =
        (match rawDecode s (bytes.take 65536) src with | some r => r | none => (s, [])) := rfl
    cases hr : rawDecode s (bytes.take 65536) src with
    | none => rw [hr] at hd; rw [hd]; exact Or.inl (Inert.nil s)
    | some r =>
      rw [hr] at hd
      rcases rawDecode_class s _ src r hr with h | ⟨hc, h⟩
      · rw [hd]; exact Or.inl h
      · exact Or.inr (Or.inr (Or.inr ⟨src, bytes, rfl, hc, hd.trans h⟩))
  | bind bytes =>
    left
    show Inert s (if s.cfg.bindPort ≠ 0 then tunnelBind s (bytes.take 65536) else (s, []))
    split
    · exact inert_tunnelBind _ _
    · exact Inert.nil s


/-! ### one loop iteration -/

open Iodine.C03L (entry)

theorem entry_user (s : Srv) (now' v : Nat) : ∃ b, getUser (entry s now') v = { getUser s v with qsNew := b } :=
  C03L.getUser_entry s now' v

theorem entry_in (s : Srv) (now' v : Nat) : (getUser (entry s now') v).inpacket = (getUser s v).inpacket := by
  obtain ⟨b, hb⟩ := entry_user s now' v; rw [hb]

/-- the tun writes of an iteration are those of its handler phase -/
theorem out_tunws (s : Srv) (st : Step) :
    stunws (out s st) = stunws (dispatch (entry s st.now) st.inp (topOfLoop s).2.2).2 := by
  have key : ∀ l, stunws l = [] →
      stunws ((dispatch (entry s st.now) st.inp (topOfLoop s).2.2).2 ++ [Event.sweep] ++
        (sweep (dispatch (entry s st.now) st.inp (topOfLoop s).2.2).1).2 ++ l) =
      stunws (dispatch (entry s st.now) st.inp (topOfLoop s).2.2).2 := by
    intro l hl
    rw [stunws_append, stunws_append, stunws_append, hl, (inert_sweep _).quiet]
    show _ ++ [] ++ [] ++ [] = _
    simp
  unfold out iteration body
  simp only [Server.andThen]
  cases hi : st.inp with
  | tun f =>
    simp only []
    split
    · have := key [] rfl; rw [hi] at this; simpa [entry] using this
    · have := key [Event.tunskip] rfl; rw [hi] at this; simpa [entry] using this
  | q q => have := key [] rfl; rw [hi] at this; simpa [entry] using this
  | rawf a b => have := key [] rfl; rw [hi] at this; simpa [entry] using this
  | bind b => have := key [] rfl; rw [hi] at this; simpa [entry] using this
  | tick => have := key [] rfl; rw [hi] at this; simpa [entry] using this

/-- the buffers after an iteration are those after its handler phase -/
theorem next_in (s : Srv) (st : Step) (v : Nat) :
    (getUser (next s st) v).inpacket =
      (getUser (dispatch (entry s st.now) st.inp (topOfLoop s).2.2).1 v).inpacket := by
  rw [C03L.next_eq]
  exact (inert_sweep _).same.eq v

end Iodine.C01L
