import IodineModel.Server.Loop
/-
Basics about `getUser` / `setUser` for the C02 lemma files: every write to a slot is an overwrite (`putUser`) with a
value computed from the old slot.
-/
namespace Iodine.C02L
open Iodine Iodine.Server

/-- overwrite slot `u` -/
def putUser (s : Srv) (u : Nat) (x : Session) : Srv := setUser s u (fun _ => x)

theorem getUser_setUser_self (s : Srv) (u : Nat) (f : Session → Session) (h : u < s.users.length) :
    getUser (setUser s u f) u = f (getUser s u) := by
  simp [getUser, setUser, List.getD_eq_getElem?_getD, h]

theorem getUser_setUser_ne (s : Srv) (u v : Nat) (f : Session → Session) (h : v ≠ u) :
    getUser (setUser s u f) v = getUser s v := by
  simp [getUser, setUser, List.getD_eq_getElem?_getD, Ne.symm h]

theorem setUser_oob (s : Srv) (u : Nat) (f : Session → Session) (h : s.users.length ≤ u) : setUser s u f = s := by
  unfold setUser
  have : s.users.modify u f = s.users := by
    apply List.ext_getElem?
    intro i
    rw [List.getElem?_modify]
    by_cases hi : u = i
    · subst hi; simp [List.getElem?_eq_none h]
    · simp [hi]
  rw [this]

theorem setUser_eq_putUser (s : Srv) (u : Nat) (f : Session → Session) : setUser s u f = putUser s u (f (getUser s u)) := by
  by_cases h : u < s.users.length
  · unfold putUser setUser
    congr 1
    apply List.ext_getElem?
    intro i
    rw [List.getElem?_modify, List.getElem?_modify]
    by_cases hi : u = i
    · subst hi
      simp [getUser, List.getD_eq_getElem?_getD, List.getElem?_eq_getElem h]
    · simp [hi]
  · rw [putUser, setUser_oob s u _ (by omega), setUser_oob s u _ (by omega)]

theorem putUser_putUser (s : Srv) (u : Nat) (x y : Session) : putUser (putUser s u x) u y = putUser s u y := by
  unfold putUser setUser
  simp only
  congr 1
  apply List.ext_getElem?
  intro i
  simp only [List.getElem?_modify]
  by_cases hi : u = i
  · subst hi; cases s.users[u]? <;> simp
  · simp [hi]

theorem getUser_putUser_self (s : Srv) (u : Nat) (x : Session) (h : u < s.users.length) : getUser (putUser s u x) u = x :=
  getUser_setUser_self s u _ h

theorem getUser_putUser_ne (s : Srv) (u v : Nat) (x : Session) (h : v ≠ u) : getUser (putUser s u x) v = getUser s v :=
  getUser_setUser_ne s u v _ h

theorem putUser_getUser (s : Srv) (u : Nat) : putUser s u (getUser s u) = s := by
  have e := setUser_eq_putUser s u id
  simp only [id] at e
  rw [← e]
  unfold setUser
  have : s.users.modify u id = s.users := by
    apply List.ext_getElem?
    intro i
    rw [List.getElem?_modify]
    by_cases hi : u = i
    · subst hi; cases s.users[u]? <;> simp
    · simp [hi]
  rw [this]

@[simp] theorem putUser_length (s : Srv) (u : Nat) (x : Session) : (putUser s u x).users.length = s.users.length := by
  simp [putUser, setUser]
@[simp] theorem setUser_length (s : Srv) (u : Nat) (f : Session → Session) : (setUser s u f).users.length = s.users.length := by
  simp [setUser]
@[simp] theorem putUser_cfg (s : Srv) (u : Nat) (x : Session) : (putUser s u x).cfg = s.cfg := rfl
@[simp] theorem putUser_now (s : Srv) (u : Nat) (x : Session) : (putUser s u x).now = s.now := rfl
@[simp] theorem putUser_fw (s : Srv) (u : Nat) (x : Session) : (putUser s u x).fw = s.fw := rfl
@[simp] theorem putUser_rand (s : Srv) (u : Nat) (x : Session) : (putUser s u x).rand = s.rand := rfl
@[simp] theorem setUser_cfg (s : Srv) (u : Nat) (f : Session → Session) : (setUser s u f).cfg = s.cfg := rfl
@[simp] theorem setUser_now (s : Srv) (u : Nat) (f : Session → Session) : (setUser s u f).now = s.now := rfl
@[simp] theorem usercount_putUser (s : Srv) (u : Nat) (x : Session) : usercount (putUser s u x) = usercount s := by
  simp [usercount]

/-- changing the clock commutes with writing a slot -/
theorem putUser_withNow (s : Srv) (u : Nat) (x : Session) (n : Nat) :
    putUser { s with now := n } u x = { putUser s u x with now := n } := rfl

theorem getUser_withNow (s : Srv) (u n : Nat) : getUser { s with now := n } u = getUser s u := rfl

end Iodine.C02L
