import IodineModel.Lemmas.C02qO8
import IodineModel.Lemmas.C02qO4
import IodineModel.Lemmas.C02M8
/-
C02 / OVERLAPPING transfers, lazy mode — the single-fragment × single-fragment case END TO END (`overlap_single_lazy`), and
non-vacuity on the lazy demo session `exWL`.
-/
namespace Iodine.C02L
open Iodine Iodine.Gen Iodine.World

/-- **overlap_single_lazy.**  Lazy mode, from a quiescent joint state: a frame `fu` is offered to the client and a frame `fd`
to the server — in either order, BEFORE anything is delivered —, each fitting ONE fragment of its direction.  Both orders
give the same joint state, and from it the prompt schedule reaches after exactly FIVE steps
(`deliverUp deliverDown tickC deliverUp deliverDown`) a quiescent state again; `fu` was written to the server's tun device
exactly once and `fd` to the client's exactly once.
(What happens: the server can only PARK the data query — it holds no other query, the one it held went out with the
downstream packet —, so the client's 5 ms ping timer fires first and the chunk is sent a SECOND time; the server recognises
the duplicate, answers the parked query with the acknowledgement and holds the second one.) -/
theorem overlap_single_lazy {P : Par} (hP : P.Ok) {w : W} (hq : QuietLazy P w) (fu fd : List Nat)
    (hu : UpFrameOk P (Server.getUser w.srv P.u).tunIp fu)
    (hd : DownFrameOk (Server.getUser w.srv P.u).tunIp (Server.getUser w.srv P.u).fragsize fd)
    (hF : 0 < (Server.getUser w.srv P.u).fragsize)
    (hU1 : fragLen P (0x5a :: fu) = (0x5a :: fu).length)
    (hD1 : downLen (Server.getUser w.srv P.u).fragsize (0x5a :: fd).length = (0x5a :: fd).length) :
    step (step w (.offerS fd)) (.offerC fu) = step (step w (.offerC fu)) (.offerS fd) ∧
    ∃ w', promptSteps P.u 5 (step (step w (.offerC fu)) (.offerS fd)) = some w' ∧ QuietLazy P w' ∧
      w'.tunS = w.tunS ++ [tunImage fu] ∧ w'.tunC = w.tunC ++ [tunImage fd] ∧
      (Server.getUser w'.srv P.u).tunIp = (Server.getUser w.srv P.u).tunIp ∧
      (Server.getUser w'.srv P.u).fragsize = (Server.getUser w.srv P.u).fragsize := by
  obtain ⟨w2, hcs, hsc, hB, htS, htC, htip, hfr⟩ := both_offer_lazy hP hq fu fd hu hd hF
  have h64u : (0x5a :: fu).length ≤ 65536 := by have := hu.hl; simp; omega
  have h64d : (0x5a :: fd).length ≤ 65536 := by have := hd.hl; simp; omega
  obtain ⟨w3, Q, hs1, hP1, htS1, htC1, htip1, hfr1⟩ := single_step1 hP hB h64u hU1 hD1 hu.h24 (by rw [htip]; exact hu.dst)
  obtain ⟨w4, c1, hs2, hR, htS2, htC2, hsrv2⟩ := single_step23 hP hP1 h64d (by have := hd.h24; omega) rfl
  obtain ⟨w5, hs3, hQ5, htS3, htC3, htip3, hfr3⟩ := single_step45 hP hR (by simpa using hU1)
  refine ⟨by rw [hsc, hcs], w5, ?_, hQ5, ?_, ?_, ?_, ?_⟩
  · rw [hcs]
    have h12 := promptSteps_add P.u 1 2 w2 w3 hs1
    rw [hs2] at h12
    have h123 := promptSteps_add P.u (1 + 2) 2 w2 w4 h12
    rw [hs3] at h123
    exact h123
  · rw [htS3, htS2, htS1, htS]; rfl
  · rw [htC3, htC2, htC1, htC]
  · rw [htip3, hsrv2, htip1, htip]
  · rw [hfr3, hsrv2, hfr1, hfr]

/-- … in terms of the executable prompt run: any fuel `≥ 5` ends in that state, after exactly 5 scheduler events -/
theorem overlap_single_lazy_run {P : Par} (hP : P.Ok) {w : W} (hq : QuietLazy P w) (fu fd : List Nat)
    (hu : UpFrameOk P (Server.getUser w.srv P.u).tunIp fu)
    (hd : DownFrameOk (Server.getUser w.srv P.u).tunIp (Server.getUser w.srv P.u).fragsize fd)
    (hF : 0 < (Server.getUser w.srv P.u).fragsize)
    (hU1 : fragLen P (0x5a :: fu) = (0x5a :: fu).length)
    (hD1 : downLen (Server.getUser w.srv P.u).fragsize (0x5a :: fd).length = (0x5a :: fd).length) :
    ∃ w', (∀ fuel, 5 ≤ fuel → runPromptCount P.u fuel (step (step w (.offerC fu)) (.offerS fd)) 0 = (w', 5)) ∧
      (∀ fuel, 5 ≤ fuel → runPromptCount P.u fuel (step (step w (.offerS fd)) (.offerC fu)) 0 = (w', 5)) ∧
      QuietLazy P w' ∧ w'.tunS = w.tunS ++ [tunImage fu] ∧ w'.tunC = w.tunC ++ [tunImage fd] := by
  obtain ⟨hcomm, w', h1, h2, h3, h4, _⟩ := overlap_single_lazy hP hq fu fd hu hd hF hU1 hD1
  have hr : ∀ fuel, 5 ≤ fuel → runPromptCount P.u fuel (step (step w (.offerC fu)) (.offerS fd)) 0 = (w', 5) := by
    intro fuel hf
    have := runPromptCount_of_steps P.u _ _ _ h1 h2.quiet fuel 0 hf
    simpa using this
  exact ⟨w', hr, fun fuel hf => by rw [hcomm]; exact hr fuel hf, h2, h3, h4⟩

theorem upFrags_eq_zero (P : Par) : ∀ (k : Nat) (d : List Nat), upFrags P k d = 0 → k = 0 ∨ d = [] := by
  intro k d h
  cases k with
  | zero => exact Or.inl rfl
  | succ n =>
    right
    by_cases hd : d = []
    · exact hd
    · simp [upFrags, hd] at h

theorem downFrags_eq_zero (F : Nat) : ∀ (k rest : Nat), downFrags F k rest = 0 → k = 0 ∨ rest = 0 := by
  intro k rest h
  cases k with
  | zero => exact Or.inl rfl
  | succ n =>
    right
    by_cases hd : rest = 0
    · exact hd
    · simp [downFrags, hd] at h

/-- the same with the hypotheses "one fragment each way" in the vocabulary of `Props/C02.lean` (`fragments`, `fragmentsDown`) -/
theorem overlap_single_lazy_frags {P : Par} (hP : P.Ok) {w : W} (hq : QuietLazy P w) (fu fd : List Nat)
    (hu : UpFrameOk P (Server.getUser w.srv P.u).tunIp fu)
    (hd : DownFrameOk (Server.getUser w.srv P.u).tunIp (Server.getUser w.srv P.u).fragsize fd)
    (hF : 0 < (Server.getUser w.srv P.u).fragsize)
    (hU1 : upFrags P (fu.length + 1) (0x5a :: fu) = 1)
    (hD1 : downFrags (Server.getUser w.srv P.u).fragsize (fd.length + 1) (fd.length + 1) = 1) :
    ∃ w', (∀ fuel, 5 ≤ fuel → runPromptCount P.u fuel (step (step w (.offerC fu)) (.offerS fd)) 0 = (w', 5)) ∧
      (∀ fuel, 5 ≤ fuel → runPromptCount P.u fuel (step (step w (.offerS fd)) (.offerC fu)) 0 = (w', 5)) ∧
      QuietLazy P w' ∧ w'.tunS = w.tunS ++ [tunImage fu] ∧ w'.tunC = w.tunC ++ [tunImage fd] := by
  obtain ⟨w2, _, _, hB, _⟩ := both_offer_lazy hP hq fu fd hu hd hF
  obtain ⟨_, _, _, hm2, _⟩ := send_readyL hP hB.ready
  simp only [List.drop_zero, Nat.zero_add] at hm2
  have h24u := hu.h24
  have h24d := hd.h24
  apply overlap_single_lazy_run hP hq fu fd hu hd hF
  · have h0 : upFrags P fu.length ((0x5a :: fu).drop (fragLen P (0x5a :: fu))) = 0 := by
      simp [upFrags] at hU1
      omega
    rcases upFrags_eq_zero P _ _ h0 with h | h
    · omega
    · have := congrArg List.length h
      simp only [List.length_drop, List.length_nil] at this
      omega
  · have h0 : downFrags (Server.getUser w.srv P.u).fragsize fd.length
        (fd.length + 1 - downLen (Server.getUser w.srv P.u).fragsize (fd.length + 1)) = 0 := by
      simp [downFrags] at hD1
      omega
    have hle : downLen (Server.getUser w.srv P.u).fragsize (fd.length + 1) ≤ fd.length + 1 := by unfold downLen; omega
    rcases downFrags_eq_zero _ _ _ h0 with h | h
    · omega
    · show downLen _ (fd.length + 1) = fd.length + 1
      omega

/-! ### non-vacuity: the lazy demo session `exWL`, a 4-byte-payload frame each way -/

theorem ex_overlap_frames :
    UpFrameOk exPL (Server.getUser exWL.srv exPL.u).tunIp (demoFrame 9 4) ∧
    DownFrameOk (Server.getUser exWL.srv exPL.u).tunIp (Server.getUser exWL.srv exPL.u).fragsize (demoFrame 2 4) ∧
    fragLen exPL (0x5a :: demoFrame 9 4) = (0x5a :: demoFrame 9 4).length ∧
    downLen (Server.getUser exWL.srv exPL.u).fragsize (0x5a :: demoFrame 2 4).length = (0x5a :: demoFrame 2 4).length := by
  refine ⟨⟨by decide, by decide, by unfold Codec.Bytes; decide, by decide +kernel, by decide +kernel⟩,
    ⟨by decide, by decide, by decide +kernel, by decide +kernel⟩, by decide +kernel, by rw [exWL_fragsize]; decide⟩

/-- the theorem applied to the demo session: both frames arrive, after exactly five scheduler events, whichever was offered first -/
example : ∃ w', runPromptCount 0 5 (step (step exWL (.offerC (demoFrame 9 4))) (.offerS (demoFrame 2 4))) 0 = (w', 5) ∧
    runPromptCount 0 5 (step (step exWL (.offerS (demoFrame 2 4))) (.offerC (demoFrame 9 4))) 0 = (w', 5) ∧
    QuietLazy exPL w' ∧ w'.tunS = [demoFrame 9 4] ∧ w'.tunC = [demoFrame 2 4] := by
  obtain ⟨w', h1, h2, h3, h4, h5⟩ := overlap_single_lazy_run exPL_ok ex_quiescent_lazy (demoFrame 9 4) (demoFrame 2 4)
    ex_overlap_frames.1 ex_overlap_frames.2.1 (by rw [exWL_fragsize]; decide) ex_overlap_frames.2.2.1 ex_overlap_frames.2.2.2
  have ht : exWL.tunS = [] ∧ exWL.tunC = [] := by decide +kernel
  refine ⟨w', h1 5 (Nat.le_refl _), h2 5 (Nat.le_refl _), h3, ?_, ?_⟩
  · rw [h4, ht.1]; decide
  · rw [h5, ht.2]; decide

/-- non-vacuity of `both_offer_lazy` / `BothFlightL` with SEVERAL fragments each way (2 upstream, 2 downstream) -/
example : ∃ w2, step (step exWL (.offerC (demoFrame 9 30))) (.offerS (demoFrame 2 30)) = w2 ∧
    step (step exWL (.offerS (demoFrame 2 30))) (.offerC (demoFrame 9 30)) = w2 ∧
    BothFlightL exPL (0x5a :: demoFrame 9 30) (0x5a :: demoFrame 2 30) w2 (newPacket exWL.cs.c (demoFrame 9 30)) 0 0
      ((exWL.cs.c.inpkt.seqno + 1) % 8) 0 (downLen (Server.getUser exWL.srv exPL.u).fragsize (0x5a :: demoFrame 2 30).length) 0 := by
  obtain ⟨w2, h1, h2, h3, _⟩ := both_offer_lazy exPL_ok ex_quiescent_lazy (demoFrame 9 30) (demoFrame 2 30)
    ex_acceptable_lazy.1 ex_acceptable_down_lazy.1 (by rw [exWL_fragsize]; decide)
  exact ⟨w2, h1, h2, h3⟩

/-- non-vacuity of the one-round lemma `both_round_lazy` (C02qO4): on the demo session, a 3-fragment frame up (`demoFrame 9 100`,
54-byte fragments) and a 5-fragment frame down (`demoFrame 2 100`, 30-byte fragments): after the double offer, four scheduler steps
lead from fragments (0, 0) to fragments (1, 1) in flight -/
example : ∃ w' c0', promptSteps 0 4 (step (step exWL (.offerC (demoFrame 9 100))) (.offerS (demoFrame 2 100))) = some w' ∧
    BothFlightL exPL (0x5a :: demoFrame 9 100) (0x5a :: demoFrame 2 100) w' c0' (0 + fragLen exPL ((0x5a :: demoFrame 9 100).drop 0)) 1
      ((exWL.cs.c.inpkt.seqno + 1) % 8) (0 + 30) 30 1 := by
  have hup : UpFrameOk exPL (Server.getUser exWL.srv exPL.u).tunIp (demoFrame 9 100) :=
    ⟨by decide +kernel, by decide +kernel, by unfold Codec.Bytes; decide +kernel, by decide +kernel, by decide +kernel⟩
  have hdn : DownFrameOk (Server.getUser exWL.srv exPL.u).tunIp (Server.getUser exWL.srv exPL.u).fragsize (demoFrame 2 100) :=
    ⟨by decide +kernel, by decide +kernel, by decide +kernel, by decide +kernel⟩
  obtain ⟨w2, h1, _, hB, _, _, _, hfr⟩ := both_offer_lazy exPL_ok ex_quiescent_lazy (demoFrame 9 100) (demoFrame 2 100) hup hdn
    (by rw [exWL_fragsize]; decide)
  have hD : downLen (Server.getUser exWL.srv exPL.u).fragsize (0x5a :: demoFrame 2 100).length = 30 := by
    rw [exWL_fragsize]; decide +kernel
  rw [hD] at hB
  obtain ⟨w', c0', hs, hB', _⟩ := both_round_lazy exPL_ok hB (by decide +kernel) (by decide +kernel) (by decide +kernel) (by decide +kernel) (by decide +kernel) (by decide +kernel)
  have hD' : downLen (Server.getUser w2.srv exPL.u).fragsize ((0x5a :: demoFrame 2 100).length - (0 + 30)) = 30 := by
    rw [hfr, exWL_fragsize]; decide +kernel
  rw [hD'] at hB'
  exact ⟨w', c0', by rw [h1]; exact hs, hB'⟩

/-- FINDING (concrete run, kernel-evaluated): overlapping single-fragment transfers cost a RESEND.  After
`deliverUp deliverDown tickC` both frames are already on the tun devices, yet the client has sent its chunk a second time
(`outchunkresent = 1`, one data query in flight): the server could not acknowledge the first copy at once — it holds no
query, the held one went out with the downstream packet — and the client's 5 ms ping timer beats the server's 20 ms one. -/
theorem overlap_resend_finding :
    (let w := run (step (step exWL (.offerC (demoFrame 9 4))) (.offerS (demoFrame 2 4))) [.deliverUp, .deliverDown, .tickC]
     w.cs.c.outchunkresent = 1 ∧ w.tunS = [demoFrame 9 4] ∧ w.tunC = [demoFrame 2 4] ∧ w.up.length = 1 ∧ w.down = [] ∧
     (Server.getUser w.srv 0).qs.id ≠ 0) ∧
    promptTrace 0 9 (step (step exWL (.offerC (demoFrame 9 4))) (.offerS (demoFrame 2 4))) =
      [.deliverUp, .deliverDown, .tickC, .deliverUp, .deliverDown] := by decide +kernel

/-- FINDING (concrete run): with several fragments each way every downstream fragment is sent TWICE (once as the answer to
the ping that fetched it, once more as the answer to the next upstream data query: `outfragresent = 2`, two answers in
flight), and the client drops the second copy as a duplicate; still each frame arrives exactly once (`test_lazy_both`). -/
theorem overlap_duplicates_finding :
    (let w := step (step (step exWL (.offerC (demoFrame 9 30))) (.offerS (demoFrame 2 30))) .deliverUp
     w.down.length = 2 ∧ (Server.getUser w.srv 0).outfragresent = 2 ∧ (Server.getUser w.srv 0).q.id = 0) := by decide +kernel

#print axioms overlap_single_lazy
#print axioms overlap_single_lazy_run
#print axioms overlap_single_lazy_frags
#print axioms both_offer_lazy
#print axioms both_round_lazy

end Iodine.C02L
