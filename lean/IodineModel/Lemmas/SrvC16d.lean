import IodineModel.Lemmas.SrvC16c
/-
Helper lemmas for C16, part d: the state functions that never touch the answer cache / query memories,
and `send_chunk_or_dataless`, the one place where they are filled.
-/
namespace Iodine.C16L
open Iodine Iodine.Server Iodine.Gen

/-! ### functions that leave cache and query memories alone -/

theorem same_userSwitchCodec (u : Nat) (s : Srv) (v : Nat) (e : Enc) : Same u s (userSwitchCodec s v e) := by
  unfold userSwitchCodec; split
  · exact Same.refl u s
  · exact same_setUser u v s _ (fun _ => rfl)

theorem same_userSetConnType (u : Nat) (s : Srv) (v : Nat) (c : Conn) : Same u s (userSetConnType s v c) := by
  unfold userSetConnType; split
  · exact Same.refl u s
  · exact same_setUser u v s _ (fun _ => rfl)

theorem same_startNewOutpacket (u : Nat) (s : Srv) (v : Nat) (d : List Nat) (n : Nat) :
    Same u s (startNewOutpacket s v d n) :=
  same_setUser u v s _ (fun _ => rfl)

theorem same_saveToOutpacketq (u : Nat) (s : Srv) (v : Nat) (d : List Nat) (n : Nat) :
    Same u s (saveToOutpacketq s v d n).1 := by
  unfold saveToOutpacketq
  simp only []
  split
  · exact Same.refl u s
  · exact same_setUser u v s _ (fun _ => rfl)

theorem same_getFromOutpacketq (u : Nat) (s : Srv) (v : Nat) : Same u s (getFromOutpacketq s v).1 := by
  unfold getFromOutpacketq
  simp only []
  split
  · exact Same.refl u s
  · refine Same.trans ?_ (same_setUser u v _ _ (fun _ => rfl))
    exact same_startNewOutpacket u s v _ _

theorem same_scDropResent (u : Nat) (s : Srv) (v : Nat) : Same u s (scDropResent s v) := by
  unfold scDropResent
  simp only []
  split
  · refine Same.trans ?_ (same_getFromOutpacketq u _ v)
    exact same_setUser u v s _ (fun _ => rfl)
  · exact Same.refl u s

theorem same_scPrepare (u : Nat) (s : Srv) (v : Nat) : Same u s (scPrepare s v) := by
  unfold scPrepare
  split
  · exact same_setUser u v s _ (fun _ => rfl)
  · exact Same.refl u s

theorem same_processDownstreamAck (u : Nat) (s : Srv) (v : Nat) (a b : Int) :
    Same u s (processDownstreamAck s v a b) := by
  unfold processDownstreamAck
  simp only []
  split
  · exact Same.refl u s
  · split
    · exact Same.refl u s
    · split
      · exact Same.refl u s
      · split
        · refine Same.trans ?_ (same_getFromOutpacketq u _ v)
          refine Same.trans ?_ (same_setUser u v _ _ (fun _ => rfl))
          exact same_setUser u v s _ (fun _ => rfl)
        · exact same_setUser u v s _ (fun _ => rfl)

theorem same_saveQuery (u : Nat) (s : Srv) (v : Nat) (q : Query) : Same u s (saveQuery s v q) :=
  same_setUser u v s _ (fun _ => rfl)

theorem same_findAvailableUser (u : Nat) (s : Srv) : Same u s (findAvailableUser s).2 := by
  unfold findAvailableUser
  split
  · exact same_setUser u _ s _ (fun _ => rfl)
  · exact Same.refl u s

theorem same_popRand (u : Nat) (s : Srv) : Same u s (popRand s).2 := by
  unfold popRand
  split
  · exact Same.refl u s
  · exact same_of_users rfl

/-! ### events -/

theorem calm_writeDns_ctrl (u : Nat) (q : Query) (d : List Nat) (dn : Nat) :
    isChunk u (writeDns q d dn) = false := rfl

theorem calm_writeDns_cached (u v : Nat) (q : Query) (d : List Nat) (dn : Nat) :
    isChunk u (writeDns q d dn (.cached v)) = false := rfl

theorem calm_writeDns_qmem (u v : Nat) (q : Query) (d : List Nat) (dn : Nat) :
    isChunk u (writeDns q d dn (.qmem v)) = false := rfl

theorem calm_writeDns_dupe (u v : Nat) (q : Query) (d : List Nat) (dn : Nat) :
    isChunk u (writeDns q d dn (.dupe v)) = false := rfl

theorem calm_sendRaw (u : Nat) (b : List Nat) (n a c : Nat) (q : Query) :
    isChunk u (sendRaw b n a c q) = false := rfl

/-- a single control answer, state unchanged up to `Same` -/
theorem step_ctrl {td : List Nat} {u : Nat} {inp : Input} {s s' : Srv} (h : Same u s s') (q : Query)
    (d : List Nat) (dn : Nat) : Keeps td u inp s (s', [writeDns q d dn]) :=
  step_quiet h (by intro e he; simp only [List.mem_singleton] at he; subst he; rfl)

/-! ### `save_to_dnscache`, `save_to_qmem_pingordata` -/

/-- the session after `save_to_dnscache` -/
def cachePut (x : Session) (qa : Query) (pkt : List Nat) : Session :=
  { x with dnscache := x.dnscache.set (ringFill DNSCACHE_LEN x.dcLast) ⟨qa, pkt, pkt.length⟩,
           dcLast := ringFill DNSCACHE_LEN x.dcLast }

theorem cacheAt_put_zero (x : Session) (qa : Query) (pkt : List Nat) (h1 : x.dnscache.length = DNSCACHE_LEN) :
    cacheAt (cachePut x qa pkt) 0 = ⟨qa, pkt, pkt.length⟩ := by
  unfold cacheAt cachePut
  exact ring_push_zero x.dnscache DNSCACHE_LEN x.dcLast h1 (by decide) _ _

theorem cacheAt_put_succ (x : Session) (qa : Query) (pkt : List Nat) (i : Nat) (h2 : x.dcLast < DNSCACHE_LEN)
    (hi : i + 1 < DNSCACHE_LEN) : cacheAt (cachePut x qa pkt) (i + 1) = cacheAt x i := by
  unfold cacheAt cachePut
  exact ring_push_succ x.dnscache DNSCACHE_LEN x.dcLast i h2 hi _ _

theorem cacheOk_save (x : Session) (l : List CEntry) (qa : Query) (pkt : List Nat) (h : CacheOk x l)
    (hid : qa.id ≠ 0) (hp : pkt ≠ []) : CacheOk (cachePut x qa pkt) ((qa.name, qa.type, pkt) :: l) := by
  obtain ⟨h1, h2, h3⟩ := h
  refine ⟨by simp [cachePut, h1], ringFill_lt _ _ (by decide), ?_⟩
  intro i hi n t p hl
  cases i with
  | zero =>
    simp only [List.getElem?_cons_zero, Option.some.injEq, Prod.mk.injEq] at hl
    obtain ⟨rfl, rfl, rfl⟩ := hl
    rw [cacheAt_put_zero x qa pkt h1]
    refine ⟨rfl, rfl, hid, ?_, ?_⟩
    · simp only [ne_eq, List.length_eq_zero_iff]; exact hp
    · simp
  | succ i =>
    simp only [List.getElem?_cons_succ] at hl
    rw [cacheAt_put_succ x qa pkt i h2 hi]
    exact h3 i (by omega) n t p hl

theorem qmemOk_save (mem : List QmemEntry) (last L : Nat) (l : List QEntry) (c : List Nat) (t : Nat)
    (hL : 0 < L) (h : QmemOk mem last L l) :
    QmemOk (saveToQmem mem last L c t).1 (saveToQmem mem last L c t).2 L ((c, t) :: l) := by
  obtain ⟨h1, h2, h3⟩ := h
  unfold saveToQmem
  show QmemOk (mem.set (ringFill L last) ⟨c, t⟩) (ringFill L last) L ((c, t) :: l)
  refine ⟨by simp [h1], ringFill_lt _ _ hL, ?_⟩
  intro i hi c' t' hl
  cases i with
  | zero =>
    simp only [List.getElem?_cons_zero, Option.some.injEq, Prod.mk.injEq] at hl
    obtain ⟨rfl, rfl⟩ := hl
    exact ring_push_zero mem L last h1 hL _ _
  | succ i =>
    simp only [List.getElem?_cons_succ] at hl
    rw [ring_push_succ mem L last i h2 hi]
    exact h3 i (by omega) c' t' hl

theorem K_qmemsave {u : Nat} {m : Mon} {s : Srv} (qa : Query) (pkt : List Nat) (h : K u m s) :
    K u { m with ping := (m.push qa.name qa.type pkt).ping, data := (m.push qa.name qa.type pkt).data }
      (saveToQmemPingOrData s u qa) := by
  obtain ⟨hb, hc, hpi, hda⟩ := h
  by_cases hpn : isPingName qa.name = true
  · have hc0 : qa.name.getD 0 0 = 80 ∨ qa.name.getD 0 0 = 112 := by
      simpa [isPingName] using hpn
    unfold saveToQmemPingOrData Mon.push pingSaved
    simp only [hpn, if_true]
    rw [if_pos hc0]
    cases hidx : qa.name.idxOf? 46 with
    | none => exact ⟨hb, hc, hpi, hda⟩
    | some cp =>
      simp only []
      by_cases hl : (Codec.dec Codec.b32 8 (cp - 1) (qa.name.drop 1)).length < 4
      · rw [if_pos hl, if_pos hl]; exact ⟨hb, hc, hpi, hda⟩
      · rw [if_neg hl, if_neg hl]
        refine ⟨by rw [setUser_length]; exact hb, ?_⟩
        rw [getUser_setUser_same _ _ _ hb]
        exact ⟨hc, qmemOk_save _ _ _ _ _ _ (by decide) hpi, hda⟩
  · have hc0 : ¬ (qa.name.getD 0 0 = 80 ∨ qa.name.getD 0 0 = 112) := by
      simpa [isPingName] using hpn
    unfold saveToQmemPingOrData Mon.push
    simp only [hpn, Bool.false_eq_true, if_false]
    rw [if_neg hc0]
    by_cases hl : qa.name.length < 5
    · rw [if_pos hl, if_pos hl]; exact ⟨hb, hc, hpi, hda⟩
    · rw [if_neg hl, if_neg hl]
      refine ⟨by rw [setUser_length]; exact hb, ?_⟩
      rw [getUser_setUser_same _ _ _ hb]
      exact ⟨hc, hpi, qmemOk_save _ _ _ _ _ _ (by decide) hda⟩

/-- the two saves of `send_chunk_or_dataless` in slot `u` -/
theorem K_saves {u : Nat} {m : Mon} {s : Srv} (qa : Query) (pkt : List Nat) (h : K u m s)
    (hid : qa.id ≠ 0) (hp : pkt ≠ []) (hlen : pkt.length ≤ DNSCACHE_ANSWER_SIZE) :
    K u (m.push qa.name qa.type pkt) (saveToDnscache (saveToQmemPingOrData s u qa) u qa pkt) := by
  obtain ⟨hb1, hc1, hp1, hd1⟩ := K_qmemsave qa pkt h
  generalize saveToQmemPingOrData s u qa = s1 at *
  unfold saveToDnscache
  rw [if_neg (by omega)]
  refine ⟨by rw [setUser_length]; exact hb1, ?_⟩
  rw [getUser_setUser_same _ _ _ hb1]
  exact ⟨cacheOk_save _ _ qa pkt hc1 hid hp, hp1, hd1⟩

theorem len_saves (v : Nat) (s : Srv) (qa : Query) (pkt : List Nat) :
    (saveToDnscache (saveToQmemPingOrData s v qa) v qa pkt).users.length = s.users.length := by
  have h1 : (saveToQmemPingOrData s v qa).users.length = s.users.length := by
    unfold saveToQmemPingOrData
    simp only []
    split
    · split
      · rfl
      · split
        · rfl
        · exact setUser_length _ _ _
    · split
      · rfl
      · exact setUser_length _ _ _
  rw [← h1]
  unfold saveToDnscache
  split
  · rfl
  · exact setUser_length _ _ _

theorem same_saves_ne (u v : Nat) (s : Srv) (qa : Query) (pkt : List Nat) (h : u ≠ v) :
    Same u s (saveToDnscache (saveToQmemPingOrData s v qa) v qa pkt) := by
  have h1 : Same u s (saveToQmemPingOrData s v qa) := by
    unfold saveToQmemPingOrData
    simp only []
    split
    · split
      · exact Same.refl u s
      · split
        · exact Same.refl u s
        · exact same_setUser_ne u v s _ h
    · split
      · exact Same.refl u s
      · exact same_setUser_ne u v s _ h
  refine Same.trans h1 ?_
  unfold saveToDnscache
  split
  · exact Same.refl u _
  · exact same_setUser_ne u v _ _ h

/-! ### `send_chunk_or_dataless` -/

theorem scPkt_ne_nil (x : Session) (n : Nat) : scPkt x n ≠ [] := by
  unfold scPkt; simp

theorem scDatalen_le (x : Session) : scDatalen x ≤ 4094 := by
  unfold scDatalen; split <;> omega

theorem scPkt_length (x : Session) : (scPkt x (scDatalen x)).length ≤ DNSCACHE_ANSWER_SIZE := by
  have := scDatalen_le x
  unfold scPkt
  simp only [List.length_append, List.length_cons, List.length_nil, List.length_take, DNSCACHE_ANSWER_SIZE]
  omega

theorem scAnswer_name (q : Query) (pkt : List Nat) (dn u : Nat) : (scAnswer q pkt dn u).1.name = q.name := by
  unfold scAnswer; split <;> simp

theorem scAnswer_type (q : Query) (pkt : List Nat) (dn u : Nat) : (scAnswer q pkt dn u).1.type = q.type := by
  unfold scAnswer; split <;> simp

theorem scAnswer_id (q : Query) (pkt : List Nat) (dn u : Nat) (h : q.id ≠ 0) : (scAnswer q pkt dn u).1.id ≠ 0 := by
  unfold scAnswer; split
  · rename_i h2; exact h2
  · exact h

/-- what the events of `scAnswer` do to the monitor -/
theorem monEvents_scAnswer (td : List Nat) (u : Nat) (inp : Input) (m : Mon) (q : Query) (pkt : List Nat)
    (dn : Nat) : monEvents td u inp m (scAnswer q pkt dn u).2 = m.push q.name q.type pkt := by
  unfold scAnswer
  split
  · simp [monEvents, monStep, writeDns, isVack, isNack]
  · simp [monEvents, monStep, writeDns, isVack, isNack]

theorem calm_scAnswer (u v : Nat) (h : u ≠ v) (q : Query) (pkt : List Nat) (dn : Nat) :
    ∀ e ∈ (scAnswer q pkt dn v).2, isChunk u e = false := by
  have hv : (v == u) = false := by simp; exact fun e => h e.symm
  unfold scAnswer
  split
  · intro e he
    simp only [List.mem_cons, List.not_mem_nil, or_false] at he
    rcases he with rfl | rfl
    · exact hv
    · rfl
  · intro e he
    simp only [List.mem_cons, List.not_mem_nil, or_false] at he
    subst he
    exact hv

/-- the state part of the tail of `send_chunk_or_dataless` -/
theorem same_scTail (u v : Nat) (s : Srv) (w : QSel) (qa : Query) :
    Same u s (setUser s v fun y => w.set y qa) := by
  refine same_setUser u v s _ ?_
  intro x; cases w <;> rfl

theorem wget_scPrepare_scDropResent (s : Srv) (v : Nat) (w : QSel) :
    w.get (getUser (scPrepare (scDropResent s v) v) v) = w.get (getUser s v) := by
  have hq : ∀ (s : Srv) (g : Session → Session), (∀ x, w.get (g x) = w.get x) →
      w.get (getUser (setUser s v g) v) = w.get (getUser s v) := by
    intro s g hg
    rw [getUser_setUser]; split
    · exact hg _
    · rfl
  have hstart : ∀ (s : Srv) d n, w.get (getUser (startNewOutpacket s v d n) v) = w.get (getUser s v) := by
    intro s d n; exact hq s _ (fun x => by cases w <;> rfl)
  have hget : ∀ s : Srv, w.get (getUser (getFromOutpacketq s v).1 v) = w.get (getUser s v) := by
    intro s
    unfold getFromOutpacketq
    simp only []
    split
    · rfl
    · rw [hq _ _ (fun x => by cases w <;> rfl), hstart]
  have h1 : w.get (getUser (scDropResent s v) v) = w.get (getUser s v) := by
    unfold scDropResent
    simp only []
    split
    · rw [hget, hq _ _ (fun x => by cases w <;> rfl)]
    · rfl
  rw [← h1]
  unfold scPrepare
  split
  · exact hq _ _ (fun x => by cases w <;> rfl)
  · rfl

/-- the middle of `send_chunk_or_dataless`: build the packet, answer, save -/
def scSaves (s1 : Srv) (v : Nat) (w : QSel) : Res :=
  let x := getUser s1 v
  let pkt := scPkt x (scDatalen x)
  let a := scAnswer (w.get x) pkt x.downenc v
  (saveToDnscache (saveToQmemPingOrData s1 v a.1) v a.1 pkt, a.2)

/-- the end of `send_chunk_or_dataless`: mark the query answered, move on to the next packet -/
def scFinish (s3 : Srv) (v : Nat) (w : QSel) (qa : Query) (c : Bool) : Srv :=
  if c then (getFromOutpacketq (setUser (setUser s3 v fun y => w.set y qa) v dropOut) v).1
  else setUser s3 v fun y => w.set y qa

theorem scFinish_true (s3 : Srv) (v : Nat) (w : QSel) (qa : Query) :
    scFinish s3 v w qa true = (getFromOutpacketq (setUser (setUser s3 v fun y => w.set y qa) v dropOut) v).1 := rfl

theorem scFinish_false (s3 : Srv) (v : Nat) (w : QSel) (qa : Query) :
    scFinish s3 v w qa false = setUser s3 v fun y => w.set y qa := rfl

def scQa (s1 : Srv) (v : Nat) (w : QSel) : Query :=
  let x := getUser s1 v
  { (scAnswer (w.get x) (scPkt x (scDatalen x)) x.downenc v).1 with id := 0 }

def scCond (s1 : Srv) (v : Nat) : Bool :=
  let x := getUser s1 v
  decide (scDatalen x > 0 ∧ scDatalen x = x.outpacket.len)

theorem sendChunk_eq (s : Srv) (v : Nat) (w : QSel) :
    (sendChunkOrDataless s v w).1 =
      (scFinish (scSaves (scPrepare (scDropResent s v) v) v w).1 v w
          (scQa (scPrepare (scDropResent s v) v) v w) (scCond (scPrepare (scDropResent s v) v) v),
       (scSaves (scPrepare (scDropResent s v) v) v w).2) := by
  unfold sendChunkOrDataless scSaves scQa scCond
  simp only []
  split
  · rename_i h
    rw [decide_eq_true h, scFinish_true]
  · rename_i h
    rw [decide_eq_false h, scFinish_false]

theorem same_scFinish (u : Nat) (s3 : Srv) (v : Nat) (w : QSel) (qa : Query) (c : Bool) :
    Same u s3 (scFinish s3 v w qa c) := by
  unfold scFinish
  split
  · refine Same.trans ?_ (same_getFromOutpacketq u _ v)
    refine Same.trans ?_ (same_setUser u v _ _ (fun _ => rfl))
    exact same_scTail u v s3 w qa
  · exact same_scTail u v s3 w qa

theorem step_scSaves {td : List Nat} {u : Nat} {inp : Input} (s1 : Srv) (v : Nat) (w : QSel)
    (hid : v = u → (w.get (getUser s1 v)).id ≠ 0) : Keeps td u inp s1 (scSaves s1 v w) := by
  unfold scSaves
  simp only []
  by_cases hv : v = u
  · subst hv
    have hid' := hid rfl
    generalize getUser s1 v = x at hid' ⊢
    refine ⟨len_saves v s1 _ _, ?_⟩
    intro m hk
    show K v (monEvents td v inp m (scAnswer _ _ _ v).2) _
    rw [monEvents_scAnswer]
    have := K_saves (scAnswer (w.get x) (scPkt x (scDatalen x)) x.downenc v).1 (scPkt x (scDatalen x))
      hk (scAnswer_id _ _ _ _ hid') (scPkt_ne_nil _ _) (scPkt_length x)
    rw [scAnswer_name, scAnswer_type] at this
    exact this
  · have hne : u ≠ v := fun e => hv e.symm
    exact step_quiet (same_saves_ne u v s1 _ _ hne) (calm_scAnswer u v hne _ _ _)

/-- `send_chunk_or_dataless(…, v, &users[v].<w>)`; when it is slot `u`'s own, the query it answers must be a
held one (`id ≠ 0`) — true at every call site -/
theorem step_sendChunk {td : List Nat} {u : Nat} {inp : Input} (s : Srv) (v : Nat) (w : QSel)
    (hid : v = u → (w.get (getUser s v)).id ≠ 0) :
    Keeps td u inp s (sendChunkOrDataless s v w).1 := by
  rw [sendChunk_eq s v w]
  have hs1 : Same u s (scPrepare (scDropResent s v) v) :=
    Same.trans (same_scDropResent u s v) (same_scPrepare u _ v)
  have hid1 : v = u → (w.get (getUser (scPrepare (scDropResent s v) v) v)).id ≠ 0 := by
    intro h; rw [wget_scPrepare_scDropResent]; exact hid h
  exact step_post (step_pre hs1 (step_scSaves _ v w hid1)) (same_scFinish u _ v w _ _)

end Iodine.C16L
