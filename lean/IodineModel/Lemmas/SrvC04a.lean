import IodineModel.Server.Run
/-
Helper lemmas for C04 (session isolation), part a: get/set frame lemmas, the `Frame` relation
("only the slots in U changed, and no slot changed its identity fields"), `andThen`.
-/
namespace Iodine.C04L
open Iodine Iodine.Server

/-! ### getUser / setUser -/

theorem getUser_setUser (s : Srv) (u : Nat) (f : Session → Session) (v : Nat) :
    getUser (setUser s u f) v =
      if v = u ∧ u < s.users.length then f (getUser s u) else getUser s v := by
  unfold getUser setUser
  simp only [List.getD_eq_getElem?_getD, List.getElem?_modify]
  by_cases h : v = u
  · subst h
    by_cases hl : v < s.users.length
    · simp [hl]
    · simp [hl]
  · have h' : ¬ u = v := fun e => h e.symm
    simp [h, h']

theorem getUser_setUser_ne (s : Srv) (u : Nat) (f : Session → Session) (v : Nat) (h : v ≠ u) :
    getUser (setUser s u f) v = getUser s v := by
  rw [getUser_setUser]; simp [h]

theorem getUser_setUser_self (s : Srv) (u : Nat) (f : Session → Session) (h : u < s.users.length) :
    getUser (setUser s u f) u = f (getUser s u) := by
  rw [getUser_setUser]; simp [h]

theorem getUser_setUser_oob (s : Srv) (u : Nat) (f : Session → Session) (h : ¬ u < s.users.length) :
    setUser s u f = s := by
  unfold setUser
  have : s.users.modify u f = s.users := by
    apply List.ext_getElem?
    intro i
    rw [List.getElem?_modify]
    by_cases e : u = i
    · subst e; simp [List.getElem?_eq_none (Nat.le_of_not_lt h)]
    · simp [e]
  rw [this]

@[simp] theorem setUser_cfg (s : Srv) (u : Nat) (f : Session → Session) : (setUser s u f).cfg = s.cfg := rfl
@[simp] theorem setUser_now (s : Srv) (u : Nat) (f : Session → Session) : (setUser s u f).now = s.now := rfl
@[simp] theorem setUser_fw (s : Srv) (u : Nat) (f : Session → Session) : (setUser s u f).fw = s.fw := rfl
@[simp] theorem setUser_rand (s : Srv) (u : Nat) (f : Session → Session) : (setUser s u f).rand = s.rand := rfl
@[simp] theorem setUser_len (s : Srv) (u : Nat) (f : Session → Session) :
    (setUser s u f).users.length = s.users.length := by
  unfold setUser; simp

/-- a write that does not change the slot is no write -/
theorem setUser_id (s : Srv) (u : Nat) (f : Session → Session) (h : f (getUser s u) = getUser s u) :
    setUser s u f = s := by
  by_cases hl : u < s.users.length
  · unfold setUser
    have : s.users.modify u f = s.users := by
      apply List.ext_getElem?
      intro i
      rw [List.getElem?_modify]
      by_cases e : u = i
      · subst e
        have hg : getUser s u = s.users[u] := by
          unfold getUser; simp [hl]
        rw [hg] at h
        simp [List.getElem?_eq_getElem hl, h]
      · simp [e]
    rw [this]
  · exact getUser_setUser_oob s u f hl

/-- two states with the same components are equal -/
theorem srv_ext (s t : Srv) (h1 : t.cfg = s.cfg) (h2 : t.fw = s.fw) (h3 : t.rand = s.rand) (h4 : t.now = s.now)
    (h5 : t.users.length = s.users.length) (h6 : ∀ v, getUser t v = getUser s v) : t = s := by
  cases s; cases t
  simp only at h1 h2 h3 h4 h5
  subst h1 h2 h3 h4
  congr 1
  apply List.ext_getElem h5
  intro i hi1 hi2
  have := h6 i
  unfold getUser at this
  simpa [hi1, hi2] using this

/-! ### andThen -/

@[simp] theorem andThen_fst (r : Res) (f : Srv → Res) : (andThen r f).1 = (f r.1).1 := rfl
@[simp] theorem andThen_snd (r : Res) (f : Srv → Res) : (andThen r f).2 = r.2 ++ (f r.1).2 := rfl

/-! ### popRand -/

@[simp] theorem popRand_cfg (s : Srv) : (popRand s).2.cfg = s.cfg := by unfold popRand; split <;> rfl
@[simp] theorem popRand_now (s : Srv) : (popRand s).2.now = s.now := by unfold popRand; split <;> rfl
@[simp] theorem popRand_users (s : Srv) : (popRand s).2.users = s.users := by unfold popRand; split <;> rfl
@[simp] theorem popRand_fw (s : Srv) : (popRand s).2.fw = s.fw := by unfold popRand; split <;> rfl
theorem getUser_popRand (s : Srv) (v : Nat) : getUser (popRand s).2 v = getUser s v := by
  unfold getUser; rw [popRand_users]

/-! ### Frame -/

/-- `Frame er U s s'`: configuration, clock and table size are unchanged, slots outside `U` are unchanged, and every
slot is unchanged up to the fields the erasure `er` wipes out -/
structure Frame (er : Session → Session) (U : Nat → Prop) (s s' : Srv) : Prop where
  cfg : s'.cfg = s.cfg
  now : s'.now = s.now
  len : s'.users.length = s.users.length
  other : ∀ v, ¬ U v → getUser s' v = getUser s v
  rel : ∀ v, er (getUser s' v) = er (getUser s v)

theorem Frame.refl (er : Session → Session) (U : Nat → Prop) (s : Srv) : Frame er U s s :=
  ⟨rfl, rfl, rfl, fun _ _ => rfl, fun _ => rfl⟩

theorem Frame.trans {er : Session → Session} {U : Nat → Prop} {s s' s'' : Srv}
    (a : Frame er U s s') (b : Frame er U s' s'') : Frame er U s s'' :=
  ⟨b.cfg.trans a.cfg, b.now.trans a.now, b.len.trans a.len,
   fun v hv => (b.other v hv).trans (a.other v hv), fun v => (b.rel v).trans (a.rel v)⟩

theorem Frame.mono {er : Session → Session} {U V : Nat → Prop} {s s' : Srv} (a : Frame er U s s')
    (h : ∀ v, U v → V v) : Frame er V s s' :=
  ⟨a.cfg, a.now, a.len, fun v hv => a.other v (fun hu => hv (h v hu)), a.rel⟩

/-- a finer erasure implies a coarser one -/
theorem Frame.coarsen {er er2 : Session → Session} {U : Nat → Prop} {s s' : Srv} (a : Frame er U s s')
    (h : ∀ x, er2 (er x) = er2 x) : Frame er2 U s s' :=
  ⟨a.cfg, a.now, a.len, a.other, fun v => by rw [← h (getUser s' v), a.rel v, h]⟩

/-- a write to slot `u` that only touches erased fields (only the value written matters) -/
theorem Frame.setv (er : Session → Session) (s : Srv) (u : Nat) (f : Session → Session)
    (hf : er (f (getUser s u)) = er (getUser s u)) :
    Frame er (· = u) s (setUser s u f) := by
  refine ⟨rfl, rfl, setUser_len s u f, fun v hv => getUser_setUser_ne s u f v hv, fun v => ?_⟩
  rw [getUser_setUser]
  split
  · next h => rw [h.1]; exact hf
  · rfl

/-- a write to slot `u` that only touches erased fields -/
theorem Frame.set (er : Session → Session) (s : Srv) (u : Nat) (f : Session → Session) (hf : ∀ x, er (f x) = er x) :
    Frame er (· = u) s (setUser s u f) := Frame.setv er s u f (hf _)

theorem Frame.popRand (er : Session → Session) (U : Nat → Prop) (s : Srv) : Frame er U s (popRand s).2 :=
  ⟨popRand_cfg s, popRand_now s, by rw [popRand_users], fun v _ => getUser_popRand s v,
   fun v => by rw [getUser_popRand]⟩

/-! ### the erasures -/

/-- forget the downstream packet machinery -/
def erOut (x : Session) : Session :=
  { x with outpacket := Packet.zero, outfragresent := 0, outpacketq := [], oqNext := 0, oqFilled := 0 }

/-- ... and the upstream reassembly buffer -/
def erIn (x : Session) : Session := { erOut x with inpacket := Packet.zero }

/-- ... and the stored queries, the clock, the duplicate memories and the answer cache: what is left is the
identity and the negotiated options of the session -/
def erData (x : Session) : Session :=
  { erIn x with q := Query.zero, qs := Query.zero, qsNew := false, lastPkt := 0,
                qmemping := [], qmempingLast := 0, qmemdata := [], qmemdataLast := 0, dnscache := [], dcLast := 0 }

/-- only the identity fields are left: tunIp, disabled, host, seed, active, authenticated, authenticatedRaw, conn -/
def erId (x : Session) : Session :=
  { erData x with optionsLocked := false, encoder := .b32, downenc := 0, fragsize := 0, lazy := false }

/-- what a login leaves alone: everything but the data-path fields and `authenticated` -/
def erLogin (x : Session) : Session := { erData x with authenticated := false }

/-- only the tunnel address, the `disabled` flag and the bound address are left -/
def erHost (x : Session) : Session :=
  { erId x with seed := 0, active := false, authenticated := false, authenticatedRaw := false, conn := .rawUdp }

/-- only the tunnel address and the `disabled` flag are left -/
def erTun (x : Session) : Session := { erHost x with host := Addr.zero }

theorem erHost_erId (x : Session) : erHost (erId x) = erHost x := rfl
theorem erHost_erData (x : Session) : erHost (erData x) = erHost x := rfl
theorem erHost_erLogin (x : Session) : erHost (erLogin x) = erHost x := rfl
theorem erLogin_erData (x : Session) : erLogin (erData x) = erLogin x := rfl
theorem erTun_erHost (x : Session) : erTun (erHost x) = erTun x := rfl
theorem erTun_erLogin (x : Session) : erTun (erLogin x) = erTun x := rfl
theorem erIn_erOut (x : Session) : erIn (erOut x) = erIn x := rfl
theorem erData_erOut (x : Session) : erData (erOut x) = erData x := rfl
theorem erData_erIn (x : Session) : erData (erIn x) = erData x := rfl
theorem erId_erData (x : Session) : erId (erData x) = erId x := rfl
theorem erId_erOut (x : Session) : erId (erOut x) = erId x := rfl
theorem erId_erIn (x : Session) : erId (erIn x) = erId x := rfl
theorem erTun_erId (x : Session) : erTun (erId x) = erTun x := rfl
theorem erTun_erData (x : Session) : erTun (erData x) = erTun x := rfl

theorem erOut_q {x y : Session} (h : erOut x = erOut y) : x.q = y.q := by
  have := congrArg Session.q h; exact this
theorem erOut_qs {x y : Session} (h : erOut x = erOut y) : x.qs = y.qs := by
  have := congrArg Session.qs h; exact this
theorem erHost_host {x y : Session} (h : erHost x = erHost y) : x.host = y.host := by
  have := congrArg Session.host h; exact this
theorem erTun_tunIp {x y : Session} (h : erTun x = erTun y) : x.tunIp = y.tunIp := by
  have := congrArg Session.tunIp h; exact this

/-- the fields `find_user_by_ip` / `find_available_user` look at are the same in both states -/
theorem Frame.toSlot_eq {U : Nat → Prop} {s s' : Srv} (h : Frame erIn U s s') :
    s'.users.map toSlot = s.users.map toSlot := by
  apply List.ext_getElem (by simp [h.len])
  intro i h1 h2
  simp only [List.length_map] at h1 h2
  simp only [List.getElem_map]
  have k := h.rel i
  unfold getUser at k
  simp only [List.getD_eq_getElem?_getD, List.getElem?_eq_getElem h1, List.getElem?_eq_getElem h2,
    Option.getD_some] at k
  unfold toSlot
  have e1 := congrArg Session.tunIp k
  have e2 := congrArg Session.active k
  have e3 := congrArg Session.authenticated k
  have e4 := congrArg Session.disabled k
  have e5 := congrArg Session.lastPkt k
  simp only [erIn, erOut] at e1 e2 e3 e4 e5
  rw [e1, e2, e3, e4, e5]

theorem Frame.findUserByIp_eq {U : Nat → Prop} {s s' : Srv} (h : Frame erIn U s s') (ip : Nat) :
    findUserByIp s' ip = findUserByIp s ip := by
  unfold findUserByIp; rw [h.toSlot_eq, h.now]

end Iodine.C04L
