import IodineModel.Lemmas.C02rO5
import IodineModel.Lemmas.C02rH3
import IodineModel.Lemmas.C02rH5
import IodineModel.Lemmas.C02rH6
/-
C02 / OVERLAPPING transfers, lazy mode, ENDINGS — the two step lemmas of the invariant `UpFlightNQP` (C02rO5): as
`upnq_mid_step` (C02rH3) and `upnq_last_step` (C02rH5), except that in event 1 the upstream data query's header ACKNOWLEDGES
the last downstream fragment, which the server still has outstanding: `process_downstream_ack` completes and drops the
outpacket first (`srv_recv_mid_noq_acked`, `srv_recv_last_noq_acked`, C02rH6); afterwards the server's outpacket is
`⟨0, 0, 0, outD, sq, fd⟩` and everything is as in the templates (the result of the mid step is plain `UpFlightNQ`).
-/
namespace Iodine.C02L
open Iodine Iodine.Gen Iodine.World

private theorem cstatL_hintBook_rG {P : Par} {c : Client.Cli} (hc : CStatL P c) : CStatL P (hintBook c) :=
  ⟨hc.running, hc.conn, hc.lz, hc.uid, hc.uch, hc.td, hc.L, hc.enc, hc.ty, hc.cid, hc.cmc,
    by show ¬ c.now + 60 < c.now; omega, hc.oseq, hc.iseq, hc.ifrag, hc.seed⟩

private theorem cntOk_hintBook_rG {c : Client.Cli} (d : Nat) (h : CntOk c (d + 1)) : CntOk (hintBook c) d := by
  have := ackBook_cnt' c d h
  unfold CntOk at *
  exact this

theorem upnqp_mid_step {P : Par} (hP : P.Ok) {out outD : List Nat} {w : W} {c0 : Client.Cli} {o f : Nat} {sq : Int} {od D fd : Nat}
    (h : UpFlightNQP P out outD w c0 o f sq od D fd) (h64 : out.length ≤ 65536)
    (hlt : o + fragLen P (out.drop o) < out.length) (hf1 : f + 1 < 16) :
    ∃ w' c0', promptSteps P.u 2 w = some w' ∧ UpFlightNQ P out w' c0' (o + fragLen P (out.drop o)) (f + 1) ∧
      w'.tunS = w.tunS ∧ w'.tunC = w.tunC ∧ c0'.outpkt.seqno = c0.outpkt.seqno ∧
      (Server.getUser w'.srv P.u).tunIp = (Server.getUser w.srv P.u).tunIp ∧
      (Server.getUser w'.srv P.u).fragsize = (Server.getUser w.srv P.u).fragsize := by
  obtain ⟨name, hsend, hm1, hm2, hQ⟩ := send_readyL hP h.ready
  generalize hm : fragLen P (out.drop o) = m at *
  have hlast : (m == out.length - o) = false := by
    rw [beq_eq_false_iff_ne]; omega
  rw [hlast, h.ack.1, h.ack.2] at hQ
  have hsf := sentFactsL c0
  have hsi := sentIdsL c0
  have hcst := cstat_sentL h.ready
  have hup : w.up = [.query (sentState c0).chunkid P.ty name] := by rw [h.up, hsend]; rfl
  have hsq : c0.outpkt.seqno.toNat < 8 := by have := h.ready.stat.oseq; omega
  have hsqc : ((c0.outpkt.seqno.toNat : Nat) : Int) = c0.outpkt.seqno := by have := h.ready.stat.oseq; omega
  -- step 1: the server stores the fragment and, holding no query, answers the data query at once (dataless)
  obtain ⟨s', evs, t, pkt, hit, hdown, htun, hps', hout', hE', htip', hfrs', hnow', hlen2, hdn, hus, huf, hA', hPA'⟩ :=
    srv_recv_mid_noq_acked hP h.sstat h.q0 h.qs0 h.lz h.oq h.op h.hD h.heq h.hfd h.hsq h.ready.stat.cmc h.aged h.paged hQ h.expect hsq h.ready.hf hm2 h64
  have hq1 : quiet P.u w = false := quiet_false_of_up _ _ _ _ hup
  have hs1 : step w (promptEv w) =
      { w with up := [], srv := s', down := [.ans (sentState c0).chunkid P.ty name pkt] } := by
    rw [promptEv_up w _ _ hup, step_deliverUp w _ _ hup, srvInput_query, stepS_zero { w with up := [] } _ s' evs t hit, hdown, htun]
    simp [h.down, upQuery]
  -- step 2: the client receives the acknowledgement (a dataless answer to its most recent query)
  generalize hw2 : ({ w with up := [], srv := s', down := [.ans (sentState c0).chunkid P.ty name pkt] } : W) = w2 at hs1
  have hw2cs : w2.cs = w.cs := by subst hw2; rfl
  have hw2up : w2.up = [] := by subst hw2; rfl
  have hw2down : w2.down = [.ans (sentState c0).chunkid P.ty name pkt] := by subst hw2; rfl
  have hq2 : quiet P.u w2 = false := quiet_false_of_down _ _ _ _ hw2down
  have hcnt2 : CntOk { sentStateL c0 with sendPingSoon := 0 } 2 := hsi.cnt h.ready.cnt
  have hcnt1 : CntOk { sentStateL c0 with sendPingSoon := 0 } 1 := sentStateL_cnt0rO c0 h.cnt0
  generalize hc : ({ sentStateL c0 with sendPingSoon := 0 } : Client.Cli) = c at hsf hcst hsi hcnt2 hcnt1
  have hwc : w.cs = ⟨c, .tunnel⟩ := by rw [cstate_eta w.cs h.ph, h.cli, hc]
  -- the answer as the client's `read_dns` delivers it
  have hcid : c.chunkid = (sentState c0).chunkid := hsi.cid
  generalize hid1 : (sentState c0).chunkid = id1 at hw2down hcid
  generalize hrq : (Client.Rq.mk (pkt.length : Int) id1 (answerType P.ty) 0 (name.headD 0) pkt) = rq
  have hsps : (c.sendPingSoon != 0) = false := by simp [hsf.sps]
  have hdl : Client.tunnelDns c rq = Client.upstream (hintBook c) (Client.decodeHdr pkt) [] false 2 := by
    have := tunnelDns_dataless_cur c rq
      (by subst hrq; show Client.notData c (name.headD 0) = false
          rw [headD_eq_getD]
          exact notData_held (hsf.useridChar.trans h.ready.stat.uch) _ (Or.inl hQ.c0))
      (by subst hrq; exact hlen2)
      (by subst hrq; exact hcid.symm)
      hcst.lz
      (by subst hrq; show (Client.decodeHdr pkt).dnSeq = c.inpkt.seqno; rw [hdn, hsf.inpkt]; exact h.ack.1.symm)
    rw [hsps] at this
    subst hrq
    exact this
  have hbk : (hintBook c).outpkt = c.outpkt := rfl
  have hmore := upstream_ack_more (hintBook c) (Client.decodeHdr pkt) [] false 2
    (by
      have hlen0 : out.length ≠ 0 := by have := h.ready.ho; omega
      unfold Client.isSending
      rw [hbk, hsf.olen, h.ready.len]
      simpa using hlen0)
    (by rw [hus, hbk, hsf.oseq]; exact hsqc)
    (by rw [huf, hbk, hsf.ofrag, h.ready.frag])
    (by rw [hbk, hsf.ooff, hsf.osent, hsf.olen, cFragLen_readyL h.ready, hm, h.ready.off, h.ready.len]; exact hlt)
  -- the next ready state
  generalize hc0' : ackNext (hintBook c) = c0' at hmore
  have hready' : CReadyL P c0' out (o + m) (f + 1) := by
    subst hc0'
    have hb := cstatL_hintBook_rG hcst
    refine ⟨⟨hb.running, hb.conn, hb.lz, hb.uid, hb.uch, hb.td, hb.L, hb.enc, hb.ty, hb.cid, hb.cmc, hb.alive, hb.oseq, hb.iseq, hb.ifrag, hb.seed⟩,
      cntOk_ackNext _ _ (cntOk_hintBook_rG 1 hcnt2), ?_, ?_, ?_, ?_, hlt, hf1, h.ready.bytes⟩
    · show c.outpkt.data = out; rw [hsf.odata]; exact h.ready.data
    · show c.outpkt.len = out.length; rw [hsf.olen]; exact h.ready.len
    · show c.outpkt.offset + c.outpkt.sentlen = o + m
      rw [hsf.ooff, hsf.osent, cFragLen_readyL h.ready, hm, h.ready.off]
    · show Client.sChar (c.outpkt.fragment + 1) = ((f + 1 : Nat) : Int)
      rw [hsf.ofrag, h.ready.frag, sChar_small _ (by omega)]
      omega
  have hcnt0' : CntOk c0' 0 := by
    subst hc0'
    exact cntOk_ackNext _ _ (cntOk_hintBook_rG 0 hcnt1)
  obtain ⟨name', hsend', _, _, _⟩ := send_readyL hP hready'
  have hsf' := sentFactsL c0'
  have hstep2 : Client.cstep w2.cs (.rq rq) =
      (⟨{ sentStateL c0' with sendPingSoon := 0 }, .tunnel⟩, [] ++ (Client.sendChunk c0').evs,
       .sel (Client.selectOf { sentStateL c0' with sendPingSoon := 0 })) := by
    rw [hw2cs, hwc, cstep_rq c rq hcst.running hcst.alive hcst.conn, hdl, hmore]
    rw [settle_afterSend _ _ _ (by rw [hsend']) (by rw [hsend']; have := hsf'.running; simpa using this.trans hready'.stat.running)]
    rw [hsend']
  have hnowc : ({ sentStateL c0' with sendPingSoon := 0 } : Client.Cli).now = w2.cs.c.now := by
    rw [hsf'.now, hw2cs, hwc]
    subst hc0'; rfl
  have hs2 : step w2 (promptEv w2) =
      { w2 with down := [], cs := ⟨{ sentStateL c0' with sendPingSoon := 0 }, .tunnel⟩,
                up := upOfEvents (Client.sendChunk c0').evs } := by
    rw [promptEv_down w2 _ _ hw2up hw2down, step_deliverDown w2 _ _ hw2down]
    have hci : cliInput (.ans id1 P.ty name pkt) = .rq rq := by subst hrq; rfl
    rw [hci, stepC_of _ _ _ _ _ (by exact hstep2) (by exact hnowc)]
    subst hw2
    simp [hsend', tunOfCEvents]
  have hcmc' : c0'.datacmc = (c0.datacmc + 1) % 36 := by
    subst hc0'; show c.datacmc = _; rw [hsf.cmc]
    have := h.ready.stat.cmc
    split <;> omega
  have hseed' : c0'.randSeed = c0.randSeed := by subst hc0'; show c.randSeed = _; exact hsf.seed
  have hsq' : c0'.outpkt.seqno = c0.outpkt.seqno := by subst hc0'; show c.outpkt.seqno = _; exact hsf.oseq
  refine ⟨{ w2 with down := [], cs := ⟨{ sentStateL c0' with sendPingSoon := 0 }, .tunnel⟩,
                    up := upOfEvents (Client.sendChunk c0').evs }, c0', ?_, ?_, ?_, ?_, hsq', ?_, ?_⟩
  · rw [promptSteps_succ hq1, hs1, promptSteps_succ hq2, hs2]
    rfl
  · subst hw2
    refine ⟨rfl, hready', hcnt0', rfl, rfl, rfl, hps', ?_, ?_, ?_, ?_, ?_⟩
    · show (Server.getUser s' P.u).outpacket.len = 0
      rw [hout']
    · show Expect (Server.getUser s' P.u) out c0'.outpkt.seqno.toNat (o + m) (f + 1)
      rw [hsq']; exact hE'
    · show (Server.getUser s' P.u).outpacket.seqno = c0'.inpkt.seqno
      rw [hout']
      subst hc0'; show sq = c.inpkt.seqno; rw [hsf.inpkt]; exact h.ack.1.symm
    · show Aged P (Server.getUser s' P.u) c0'.datacmc 1
      rw [hcmc']; exact hA'
    · show PAged P (Server.getUser s' P.u) c0'.randSeed 1
      rw [hseed']; exact hPA'
  · subst hw2; rfl
  · subst hw2; rfl
  · subst hw2; exact htip'
  · subst hw2; exact hfrs'

#print axioms upnqp_mid_step

/-- **The last upstream fragment under `UpFlightNQP`** (event 1: the data query's header acknowledges the last downstream
fragment, the server drops its outpacket, writes the upstream packet to tun and parks the query; then as `upnq_last_step`; five scheduler steps): quiescent again, the frame is out on the
server's tun device. -/
theorem upnqp_last_step {P : Par} (hP : P.Ok) {frame outD : List Nat} {w : W} {c0 : Client.Cli} {o f : Nat} {sq : Int} {od D fd : Nat}
    (h : UpFlightNQP P (0x5a :: frame) outD w c0 o f sq od D fd) (h64 : (0x5a :: frame).length ≤ 65536)
    (heq : o + fragLen P ((0x5a :: frame).drop o) = (0x5a :: frame).length) (h24 : 24 ≤ frame.length)
    (hdst : Server.ipDst frame ≠ (Server.getUser w.srv P.u).tunIp) :
    ∃ w', promptSteps P.u 5 w = some w' ∧ QuietLazy P w' ∧ w'.tunS = w.tunS ++ [[0, 0, 8, 0] ++ frame.drop 4] ∧
      w'.tunC = w.tunC ∧
      (Server.getUser w'.srv P.u).tunIp = (Server.getUser w.srv P.u).tunIp ∧
      (Server.getUser w'.srv P.u).fragsize = (Server.getUser w.srv P.u).fragsize := by
  generalize hout : (0x5a :: frame) = out at h h64 heq
  obtain ⟨name, hsend, hm1, hm2, hQ⟩ := send_readyL hP h.ready
  generalize hm : fragLen P (out.drop o) = m at *
  have hlast : (m == out.length - o) = true := by
    rw [beq_iff_eq]; omega
  rw [hlast, h.ack.1, h.ack.2] at hQ
  have hsf := sentFactsL c0
  have hsi := sentIdsL c0
  have hcst := cstat_sentL h.ready
  have hup : w.up = [.query (sentState c0).chunkid P.ty name] := by rw [h.up, hsend]; rfl
  have hsq : c0.outpkt.seqno.toNat < 8 := by have := h.ready.stat.oseq; omega
  have hsqc : ((c0.outpkt.seqno.toNat : Nat) : Int) = c0.outpkt.seqno := by have := h.ready.stat.oseq; omega
  have hcmc := h.ready.stat.cmc
  -- step 1: the server receives the last fragment, writes the packet to its tun device and parks the data query
  subst hout
  obtain ⟨s', evs, t, hit, hdown, htun, hS', hq', hqs', hlz', hout', hoq', hres', htip', hfr', hiseq', hifrag', hnow', m1, m2, m3, m4, m5, m6⟩ :=
    srv_recv_last_noq_acked hP h.sstat h.q0 h.qs0 h.lz h.oq h.op h.hD h.heq h.hfd h.hsq hcmc h.aged hQ h.expect hsq h.ready.hf heq h64 h24 hdst
  have hA1 : Aged P (Server.getUser s' P.u) c0.datacmc 1 := h.aged.congr m3 m4 m1 m2
  have hPA1 : PAged P (Server.getUser s' P.u) c0.randSeed 1 := h.paged.congr m5 m6 m1 m2
  have hQid : (upQuery (sentState c0).chunkid P.ty name).id = (sentState c0).chunkid := upQuery_id _ _ _
  have hQB := hQ.heldBase
  have hQD := hQ.heldData hcmc
  have hQc0 := hQ.c0
  have hQne := hQ.id
  generalize hQv : upQuery (sentState c0).chunkid P.ty name = Q at hit hqs' hQid hQB hQD hQc0 hQne
  have hq1 : quiet P.u w = false := quiet_false_of_up _ _ _ _ hup
  have hs1 : step w (promptEv w) =
      { w with up := [], srv := s', tunS := w.tunS ++ [[0, 0, 8, 0] ++ frame.drop 4] } := by
    rw [promptEv_up w _ _ hup, step_deliverUp w _ _ hup, srvInput_query, hQv, stepS_zero { w with up := [] } _ s' evs t hit, hdown, htun]
    simp [h.down]
  generalize hw2 : ({ w with up := [], srv := s', tunS := w.tunS ++ [[0, 0, 8, 0] ++ frame.drop 4] } : W) = w2 at hs1
  have hw2cs : w2.cs = w.cs := by subst hw2; rfl
  have hw2up : w2.up = [] := by subst hw2; rfl
  have hw2down : w2.down = [] := by subst hw2; exact h.down
  have hw2srv : w2.srv = s' := by subst hw2; rfl
  have hcnt1 : CntOk { sentStateL c0 with sendPingSoon := 0 } 1 := sentStateL_cnt0rO c0 h.cnt0
  generalize hc : ({ sentStateL c0 with sendPingSoon := 0 } : Client.Cli) = c at hsf hcst hsi hcnt1
  have hwc : w.cs = ⟨c, .tunnel⟩ := by rw [cstate_eta w.cs h.ph, h.cli, hc]
  have hlen0 : (0x5a :: frame).length ≠ 0 := by simp
  have hsending : Client.isSending c = true := by
    unfold Client.isSending
    rw [hsf.olen, h.ready.len]
    simp
  -- step 2: nothing in flight; the server's 20 ms timer (parked query) expires before the client's second
  have hq2 : quiet P.u w2 = false := by
    unfold World.quiet
    rw [hw2cs, hwc]
    simp [hsending]
  obtain ⟨s'', evs2, tunsel, hit2, hdown2, htun2, hP2, hin2, hout2, htun2', hnow2, hfrag2, hA2, hPA2⟩ :=
    srv_tick_parked_noq hP hS' (H := Q) hcmc hA1 hPA1 hQB hQD hq' hqs' hlz' (by rw [hout'])
      hoq' (by rw [hres']; omega)
  have htoS : timeoutS w2 = 20000 :=
    timeoutS_parkedrO (by rw [hw2srv]; exact hS') (by rw [hw2srv, hqs']; exact hQne)
  have htoC : timeoutC w2 = some 1000000 := by
    unfold timeoutC Client.pending
    rw [hw2cs, hwc]
    simp [Client.selectOf, hsf.sps, hsending]
  have hs2 : step w2 (promptEv w2) =
      { w2 with srv := s'', down := [.ans Q.id Q.type Q.name (Server.scPkt (Server.getUser s' P.u) 0)] } := by
    rw [promptEv_tickS w2 hw2up hw2down _ htoC (by rw [htoS]; decide)]
    show stepS w2 .tick (timeoutS w2 / 1000000) = _
    rw [htoS, show (20000 : Nat) / 1000000 = 0 from rfl, stepS_zero w2 _ s'' evs2 (20000, tunsel) (by rw [hw2srv]; exact hit2),
      hdown2, htun2, hw2down]
    simp
  generalize hw3 : ({ w2 with srv := s'', down := [.ans Q.id Q.type Q.name (Server.scPkt (Server.getUser s' P.u) 0)] } : W) = w3 at hs2
  have hw3cs : w3.cs = w.cs := by subst hw3; exact hw2cs
  have hw3up : w3.up = [] := by subst hw3; exact hw2up
  have hw3down : w3.down = [.ans Q.id Q.type Q.name (Server.scPkt (Server.getUser s' P.u) 0)] := by subst hw3; rfl
  have hw3srv : w3.srv = s'' := by subst hw3; rfl
  have hq3 : quiet P.u w3 = false := quiet_false_of_down _ _ _ _ hw3down
  -- step 3: the client receives the acknowledgement (the answer to its CURRENT query); the packet is complete
  generalize hpkt : Server.scPkt (Server.getUser s' P.u) 0 = pkt at hw3down hs2 hw3
  obtain ⟨hlen2, hdn, hus, huf⟩ := ack_hdr (x := Server.getUser s' P.u) (y := Server.getUser s' P.u) hpkt.symm
    hS'.x.iseq hS'.x.ifrag rfl hS'.x.oseq hS'.x.ofrag
  generalize hrq : (Client.Rq.mk (pkt.length : Int) Q.id (answerType Q.type) 0 (Q.name.headD 0) pkt) = rq
  have hdl : Client.tunnelDns c rq = Client.upstream (hintBook c) (Client.decodeHdr pkt) [] false 2 := by
    have := tunnelDns_dataless_cur c rq
      (by subst hrq; show Client.notData c (Q.name.headD 0) = false
          rw [headD_eq_getD]
          exact notData_held (hsf.useridChar.trans h.ready.stat.uch) _ (Or.inl hQc0))
      (by subst hrq; exact hlen2)
      (by subst hrq; show Q.id = c.chunkid; rw [hQid, hsi.cid])
      hcst.lz
      (by subst hrq; show (Client.decodeHdr pkt).dnSeq = c.inpkt.seqno; rw [hdn, hout', hsf.inpkt]; exact h.ack.1.symm)
    rw [hsf.sps] at this
    subst hrq
    exact this
  have hbk : (hintBook c).outpkt = c.outpkt := rfl
  have hdone := upstream_ack_done (hintBook c) (Client.decodeHdr pkt) [] false 2
    (by unfold Client.isSending; rw [hbk]; exact hsending)
    (by rw [hus, hiseq', hbk, hsf.oseq]; exact hsqc)
    (by rw [huf, hifrag', hbk, hsf.ofrag, h.ready.frag])
    (by rw [hbk, hsf.ooff, hsf.osent, hsf.olen, cFragLen_readyL h.ready, hm, h.ready.off, h.ready.len]; omega)
  generalize hcd : ackDone (hintBook c) = cd at hdone
  have hfp : Client.finalPing cd [] false 2 = (cd, [], .ret 2) := by simp [Client.finalPing]
  have hb := cstat_ackBookL hcst
  have hcdstat : CStatL P cd := by
    subst hcd
    exact ⟨hb.running, hb.conn, hb.lz, hb.uid, hb.uch, hb.td, hb.L, hb.enc, hb.ty, hb.cid, hb.cmc, hb.alive, hb.oseq, hb.iseq, hb.ifrag, hb.seed⟩
  have hcdcnt : CntOk cd 0 := by
    subst hcd
    refine cntOk_ackDone _ _ ?_
    have := ackBook_cnt' c 0 hcnt1
    unfold CntOk at *
    exact this
  have hcdidle : Client.isSending cd = false := by subst hcd; rfl
  have hcdsps : cd.sendPingSoon = 20 := by subst hcd; rfl
  have hstep3 : Client.cstep w3.cs (.rq rq) = (⟨cd, .tunnel⟩, [], .sel (Client.selectOf cd)) := by
    rw [hw3cs, hwc, cstep_rq c rq hcst.running hcst.alive hcst.conn, hdl, hdone, hfp]
    simp [Client.settle, Client.loopTop, hcdstat.running]
  have hnow3 : cd.now = w3.cs.c.now := by
    rw [hw3cs, hwc]; subst hcd; rfl
  have hs3 : step w3 (promptEv w3) = { w3 with down := [], cs := ⟨cd, .tunnel⟩ } := by
    rw [promptEv_down w3 _ _ hw3up hw3down, step_deliverDown w3 _ _ hw3down]
    have hci : cliInput (.ans Q.id Q.type Q.name pkt) = .rq rq := by subst hrq; rfl
    rw [hci, stepC_of _ _ _ _ _ (by exact hstep3) (by exact hnow3)]
    subst hw3
    simp [upOfEvents, tunOfCEvents, hw2up]
  have hcmc' : cd.datacmc = (c0.datacmc + 1) % 36 := by
    subst hcd; show c.datacmc = _; rw [hsf.cmc]
    split <;> omega
  have hseed' : cd.randSeed = c0.randSeed := by subst hcd; show c.randSeed = _; exact hsf.seed
  have hcdo : cd.outpkt.seqno = c0.outpkt.seqno := by subst hcd; show c.outpkt.seqno = _; exact hsf.oseq
  have hcdi : cd.inpkt = c0.inpkt := by subst hcd; show c.inpkt = _; exact hsf.inpkt
  generalize hw4 : ({ w3 with down := [], cs := ⟨cd, .tunnel⟩ } : W) = w4 at hs3
  have hw4c : w4.cs.c = cd := by subst hw4; rfl
  have hw4up : w4.up = [] := by subst hw4; exact hw3up
  have hw4down : w4.down = [] := by subst hw4; rfl
  have hw4srv : w4.srv = s'' := by subst hw4; exact hw3srv
  -- step 4: the client's 20 ms timer: a ping goes out
  have hq4 : quiet P.u w4 = false := quiet_false_of_noq (by rw [hw4srv]; exact hP2)
  have hsel : (Client.selectOf cd).to = 20000 := by
    simp [Client.selectOf, hcdsps]
  obtain ⟨name', hs4, hpq⟩ := poll_stepL hP (w := w4) (by subst hw4; rfl) (by rw [hw4c]; exact hcdstat)
    (by rw [hw4c]; exact hcdcnt.mono (by omega)) (by rw [hw4c]; exact hcdidle) hw4up hw4down
    (by rw [hw4c, hsel]; omega) (timeoutS_idleL (by rw [hw4srv]; exact hP2))
  rw [hw4c] at hs4 hpq
  generalize hw5 : ({ w4 with cs := ⟨pingStateL cd, .tunnel⟩, up := [.query (pingStateL cd).chunkid P.ty name'] } : W) = w5 at hs4
  have hw5srv : w5.srv = s'' := by subst hw5; exact hw4srv
  have hw5up : w5.up = [.query (pingStateL cd).chunkid P.ty name'] := by subst hw5; rfl
  have hw5down : w5.down = [] := by subst hw5; exact hw4down
  have hw5cs : w5.cs = ⟨pingStateL cd, .tunnel⟩ := by subst hw5; rfl
  -- step 5: the server has nothing to send and holds no query: it HOLDS the ping
  have hpf := pingFactsL cd
  have hq5 : quiet P.u w5 = false := quiet_false_of_up _ _ _ _ hw5up
  have hlen2' : (Server.getUser s'' P.u).outpacket.len = 0 := by rw [hout2, hout']
  generalize hx0 : ({ Server.getUser s'' P.u with qsNew := false } : Server.Session) = x0
  have hack : ackSess x0 cd.inpkt.seqno cd.inpkt.fragment = x0 := ackSess_len0_rO x0 _ _ (by subst hx0; exact hlen2')
  have hPA2' : PAged P (Server.getUser s'' P.u) cd.randSeed 1 := by rw [hseed']; exact hPA2
  have hA2' : Aged P (Server.getUser s'' P.u) cd.datacmc 1 := by rw [hcmc']; exact hA2
  obtain ⟨s5, evs5, t5, hit5, hdown5, htun5, hah, hsame⟩ :=
    srv_ping_lazy_hold hP hP2.stat hP2.q hP2.qs hP2.lz hP2.oq hpq hPA2' (by rw [hx0, hack]; subst hx0; exact hlen2')
  generalize hQ5 : upQuery (pingStateL cd).chunkid P.ty name' = Q5 at hit5 hah hpq
  obtain ⟨hS5, hq5', hqs5, hlz5, hoq5, hfs5, hin5, htun5', hop5⟩ := afterHold_stat hP2.stat hP2.oq hah
    (by rw [hx0, hack]; subst hx0; exact hP2.stat.x.oseq) (by rw [hx0, hack]; subst hx0; exact hP2.stat.x.ofrag)
  rw [hx0, hack] at hop5
  have hop5' : (Server.getUser s5 P.u).outpacket = (Server.getUser s'' P.u).outpacket := by rw [hop5]; subst hx0; rfl
  have hs5 : step w5 (promptEv w5) = { w5 with up := [], srv := s5 } := by
    rw [promptEv_up w5 _ _ hw5up, step_deliverUp w5 _ _ hw5up, srvInput_query, hQ5,
      stepS_zero { w5 with up := [] } _ s5 evs5 t5 (by rw [hw5srv]; exact hit5), hdown5, htun5]
    simp [hw5down]
  have hQ5id : Q5.id = (pingStateL cd).chunkid := by rw [← hQ5]; rfl
  refine ⟨{ w5 with up := [], srv := s5 }, ?_, ?_, ?_, ?_, ?_, ?_⟩
  · rw [promptSteps_succ hq1, hs1, promptSteps_succ hq2, hs2, promptSteps_succ hq3, hs3, promptSteps_succ hq4, hs4,
      promptSteps_succ hq5, hs5]
    rfl
  · refine ⟨by show w5.cs.ph = _; rw [hw5cs], ?_, ?_, ?_, rfl, hw5down, hS5, ?_, hoq5, ?_, ?_, ?_, ?_, ?_⟩
    · show CStatL P w5.cs.c
      rw [hw5cs]; exact cstatL_pingStateL hcdstat
    · show CntOk w5.cs.c 1
      rw [hw5cs]; exact (pingStateL_ids cd).2.2 0 hcdcnt
    · show Client.isSending w5.cs.c = false
      rw [hw5cs]
      unfold Client.isSending
      rw [hpf.outpkt]
      exact hcdidle
    · exact ⟨by rw [hop5']; exact hlen2', by rw [hq5']; exact hpq.id, by rw [hq5']; exact hpq.id2, by rw [hqs5]; exact hP2.qs,
        by rw [hlz5]; exact hP2.lz⟩
    · show HeldBase P (Server.getUser s5 P.u).q
      rw [hq5']; exact ⟨hpq.from_, hpq.id2, hpq.id, hpq.ty⟩
    · show (Server.getUser s5 P.u).q.id = w5.cs.c.chunkid
      rw [hq5', hQ5id, hw5cs]
    · show (Server.getUser s5 P.u).inpacket.seqno = w5.cs.c.outpkt.seqno
      rw [hin5, hin2, hiseq', hw5cs, hpf.outpkt, hcdo]; exact hsqc
    · show (Server.getUser s5 P.u).outpacket.seqno = w5.cs.c.inpkt.seqno
      rw [hop5', hout2, hout', hw5cs, hpf.inpkt, hcdi]; exact h.ack.1.symm
    · show HeldMem P (Server.getUser s5 P.u) (Server.getUser s5 P.u).q w5.cs.c.datacmc w5.cs.c.randSeed
      rw [hq5', hw5cs, hpf.datacmc, hpf.seed]
      right
      refine ⟨cd.randSeed, ⟨hpq.sdlt, hpq.c0, hpq.fp, hpq.seed⟩, behind_next16 _ hpq.sdlt, ?_, ?_⟩
      · exact hA2'.congr hsame.1 hsame.2.1 hsame.2.2.2.2.1 hsame.2.2.2.2.2
      · exact (hPA2'.step hpq.sdlt (by omega)).congr hsame.2.2.1 hsame.2.2.2.1 hsame.2.2.2.2.1 hsame.2.2.2.2.2
  · subst hw5; subst hw4; subst hw3; subst hw2; rfl
  · subst hw5; subst hw4; subst hw3; subst hw2; rfl
  · subst hw5; subst hw4; subst hw3; subst hw2
    show (Server.getUser s5 P.u).tunIp = _
    rw [htun5', htun2', htip']
  · subst hw5; subst hw4; subst hw3; subst hw2
    show (Server.getUser s5 P.u).fragsize = _
    rw [hfs5, hfrag2, hfr']

#print axioms upnqp_last_step

end Iodine.C02L
