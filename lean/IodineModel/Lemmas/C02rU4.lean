import IodineModel.Lemmas.C02rU3
/-
C02 phase 3 / d7up — upstream, immediate mode, `d = 7` with the server's last fragment number 0: whole packets.

`up_packet_imm_desync7_multi`: a packet of `g ≥ 2` fragments.  Fragment 0 is dropped but acknowledged; fragments 1 … g−1 are
appended to the first `inpacket.offset` bytes of the server's buffer (`chimeraUp`); after the clean-path `2·g + 1` steps both
ends are quiescent and IN STEP, and the server has written `junkUp (chimeraUp …)` to its tun device: nothing, unless the
chimera starts with the compression marker 0x5a — which it does whenever the buffer held the beginning of an earlier,
abandoned packet.
`up_packet_imm_desync_false_ack`: a one-fragment packet is lost silently in 2 steps.
-/
namespace Iodine.C02L
open Iodine Iodine.Gen Iodine.World

/-- what the server assembles when fragment 0 of the compressed packet `0x5a :: frame` is falsely acknowledged: the part of
its buffer `I` below the write offset, then the packet WITHOUT its first fragment -/
def chimeraUp (P : Par) (I : Server.Packet) (frame : List Nat) : List Nat :=
  I.data.take I.offset ++ (0x5a :: frame).drop (fragLen P (0x5a :: frame))

/-- the server's reassembly buffer is in the state `handle_data_upstream` leaves it in: `len = offset`, inside the data -/
structure BufOk (I : Server.Packet) : Prop where
  len : I.len = I.offset
  data : I.offset ≤ I.data.length

/-- the chimera fits the buffer and, should it decompress to an IP-sized frame, is not addressed to the session itself -/
structure ChimeraOk (P : Par) (I : Server.Packet) (tunIp : Nat) (frame : List Nat) : Prop where
  cap : I.offset + ((0x5a :: frame).length - fragLen P (0x5a :: frame)) ≤ 65536
  ns : ∀ fr, Server.uncompress (chimeraUp P I frame) 65536 = some fr → 24 ≤ fr.length → Server.ipDst fr ≠ tunIp

theorem up_flight_runT {P : Par} (hP : P.Ok) {out T : List Nat} (h64 : T.length ≤ 65536) :
    ∀ (fuel : Nat) (w : W) (c0 : Client.Cli) (o oS f : Nat), UpFlightT P out T w c0 o oS f →
      (out.drop o).length ≤ fuel → f + upFrags P fuel (out.drop o) ≤ 16 →
      (∀ fr, Server.uncompress T 65536 = some fr → 24 ≤ fr.length → Server.ipDst fr ≠ (Server.getUser w.srv P.u).tunIp) →
      ∃ w', promptSteps P.u (2 * upFrags P fuel (out.drop o) + 1) w = some w' ∧
        QuietImm P w' ∧
        w'.tunS = w.tunS ++ junkUp T ∧ w'.tunC = w.tunC ∧ w'.cs.c.outpkt.seqno = c0.outpkt.seqno ∧
        (Server.getUser w'.srv P.u).tunIp = (Server.getUser w.srv P.u).tunIp ∧
        w'.cs.c.sendPingSoon = 20 ∧ w'.cs.c.selecttimeout = c0.selecttimeout ∧
        (Server.getUser w'.srv P.u).fragsize = (Server.getUser w.srv P.u).fragsize ∧
        (f : Int) ≤ (Server.getUser w'.srv P.u).inpacket.fragment := by
  intro fuel
  induction fuel with
  | zero =>
    intro w c0 o oS f h hl
    have := h.ready.ho
    simp only [List.length_drop] at hl
    omega
  | succ fuel ih =>
    intro w c0 o oS f h hl hf hns
    have hne : out.drop o ≠ [] := by
      intro hc
      have := congrArg List.length hc
      simp only [List.length_drop, List.length_nil] at this
      have := h.ready.ho
      omega
    obtain ⟨_, _, hm1, hm2, _⟩ := send_ready hP h.ready
    have hu : upFrags P (fuel + 1) (out.drop o) =
        1 + upFrags P fuel ((out.drop o).drop (fragLen P (out.drop o))) := by
      simp [upFrags, hne]
    rw [List.drop_drop] at hu
    rw [hu] at hf ⊢
    by_cases hlast : o + fragLen P (out.drop o) = out.length
    · have hnil : out.drop (o + fragLen P (out.drop o)) = [] := by
        rw [hlast]; exact List.drop_length
      rw [hnil, upFrags_nil]
      obtain ⟨w', h1, h2, h3, h4, h5, h6, h7, h8, h9, h10⟩ := last_stepT hP h h64 hlast hns
      exact ⟨w', h1, h2, h3, h4, h5, h6, h7, h8, h9, by rw [h10]; omega⟩
    · have hlt : o + fragLen P (out.drop o) < out.length := by omega
      have hg1 : 1 ≤ upFrags P fuel (out.drop (o + fragLen P (out.drop o))) := by
        cases fuel with
        | zero => simp only [List.length_drop] at hl; omega
        | succ k =>
          have : out.drop (o + fragLen P (out.drop o)) ≠ [] := by
            intro hc
            have := congrArg List.length hc
            simp only [List.length_drop, List.length_nil] at this
            omega
          simp [upFrags, this]
      obtain ⟨w1, c1, hs, hfl, ht1, ht2, hsq, htip, hselm, hfrm⟩ := mid_stepT hP h h64 hlt (by omega)
      obtain ⟨w', h1, h2, h3, h4, h5, h6, h7, h8, h9, h10⟩ := ih w1 c1 _ _ _ hfl
        (by simp only [List.length_drop] at hl ⊢; omega) (by omega) (by rw [htip]; exact hns)
      refine ⟨w', ?_, h2, ?_, ?_, ?_, ?_, h7, by rw [h8, hselm], by rw [h9, hfrm], by omega⟩
      · have := promptSteps_add P.u 2 (2 * upFrags P fuel (out.drop (o + fragLen P (out.drop o))) + 1) w w1 hs
        rw [h1] at this
        rw [← this]
        congr 1
        omega
      · rw [h3, ht1]
      · rw [h4, ht2]
      · rw [h5, hsq]
      · rw [h6, htip]

/-- the state after `offerC` at distance 7 with the server's last fragment number 0 -/
theorem up_offer_falseAck {P : Par} (hP : P.Ok) {w : W} (hq : QuietImmD P 7 0 w)
    (h0 : (Server.getUser w.srv P.u).inpacket.fragment = 0) (frame : List Nat) (hne : frame ≠ [])
    (hl : frame.length < 65536) (hb : Codec.Bytes frame) :
    ∃ w1, step w (.offerC frame) = w1 ∧ UpFalseAck P (0x5a :: frame) w1 (newPacket w.cs.c frame) ∧ w1.srv = w.srv ∧
      w1.tunS = w.tunS ∧ w1.tunC = w.tunC := by
  obtain ⟨w1, hw1, hph, hready, hcli, hup, hdown, hsrv, ht1, ht2⟩ := up_offer_any hP hq frame hne hl hb
  have hsq := newPacket_seqno hq.cst frame
  have hxs := hq.srv.x.iseq
  have hsy := hq.syncu
  refine ⟨w1, hw1, ⟨hph, hready, hcli, hup, hdown, by rw [hsrv]; exact hq.srv, by rw [hsrv]; exact hq.idle, by rw [hsrv]; exact hq.oq,
    ?_, by rw [hsrv]; exact h0, ?_, by rw [hsrv]; exact hq.aged, by rw [hsrv]; exact hq.paged⟩, hsrv, ht1, ht2⟩
  · rw [hsrv, hsq, hsy]; omega
  · rw [hsrv]
    have h1 := hq.syncd
    have h2 := hq.cst.iseq
    show _ = w.cs.c.inpkt.seqno
    omega

/-- **`d = 7`, the server's last fragment number 0, a packet of `g ≥ 2` fragments** (immediate mode).  After the clean-path
`2·g + 1` prompt steps — no resend, no delay — the joint state is quiescent and IN STEP (`QuietImm`); the client wrote
nothing; the server wrote `junkUp (chimeraUp …)`: the frame `handle_full_packet` makes of "what its buffer held below the write
offset, followed by the packet without its first fragment". -/
theorem up_packet_imm_desync7_multi {P : Par} (hP : P.Ok) {w : W} (hq : QuietImmD P 7 0 w)
    (h0 : (Server.getUser w.srv P.u).inpacket.fragment = 0) (hbuf : BufOk (Server.getUser w.srv P.u).inpacket)
    (frame : List Nat) (hne : frame ≠ []) (hl : frame.length < 65536) (hb : Codec.Bytes frame)
    (hmulti : fragLen P (0x5a :: frame) < (0x5a :: frame).length)
    (hg16 : upFrags P (frame.length + 1) (0x5a :: frame) ≤ 16)
    (hok : ChimeraOk P (Server.getUser w.srv P.u).inpacket (Server.getUser w.srv P.u).tunIp frame) :
    ∃ w', promptSteps P.u (2 * upFrags P (frame.length + 1) (0x5a :: frame) + 1) (step w (.offerC frame)) = some w' ∧
      QuietImm P w' ∧
      w'.tunS = w.tunS ++ junkUp (chimeraUp P (Server.getUser w.srv P.u).inpacket frame) ∧ w'.tunC = w.tunC ∧
      (Server.getUser w'.srv P.u).tunIp = (Server.getUser w.srv P.u).tunIp ∧
      (Server.getUser w'.srv P.u).fragsize = (Server.getUser w.srv P.u).fragsize ∧
      1 ≤ (Server.getUser w'.srv P.u).inpacket.fragment ∧ 2 ≤ upFrags P (frame.length + 1) (0x5a :: frame) := by
  obtain ⟨w1, hw1, hfa, hsrv, ht1, ht2⟩ := up_offer_falseAck hP hq h0 frame hne hl hb
  obtain ⟨w2, c1, hs2, hfl, hu1, hu2, _, hu4, _, hu6⟩ := false_ack_more hP hfa (by rw [hsrv]; exact hbuf.len) (by rw [hsrv]; exact hbuf.data) hmulti
  rw [hsrv] at hfl hu4 hu6
  have hTlen : (chimeraUp P (Server.getUser w.srv P.u).inpacket frame).length ≤ 65536 := by
    have := hok.cap
    unfold chimeraUp
    rw [List.length_append, List.length_take, List.length_drop]
    have := hbuf.data
    omega
  have hu : upFrags P (frame.length + 1) (0x5a :: frame) =
      1 + upFrags P frame.length ((0x5a :: frame).drop (fragLen P (0x5a :: frame))) := by
    simp [upFrags]
  have hg1 : 1 ≤ upFrags P frame.length ((0x5a :: frame).drop (fragLen P (0x5a :: frame))) := by
    have hm1 : 1 ≤ fragLen P (0x5a :: frame) := by
      obtain ⟨_, _, hm1, _, _⟩ := send_ready hP hfa.ready
      simpa using hm1
    cases hfl' : frame.length with
    | zero => simp [hfl'] at hmulti; omega
    | succ k =>
      have : (0x5a :: frame).drop (fragLen P (0x5a :: frame)) ≠ [] := by
        intro hc
        have := congrArg List.length hc
        simp only [List.length_drop, List.length_nil, List.length_cons] at this
        simp only [List.length_cons] at hmulti
        omega
      simp [upFrags, this]
  obtain ⟨w', h1, h2, h3, h4, _, h6, _, _, h9, h10⟩ := up_flight_runT hP hTlen frame.length w2 c1 _ _ 1 hfl
    (by
      have hm1 : 1 ≤ fragLen P (0x5a :: frame) := by
        obtain ⟨_, _, hm1, _, _⟩ := send_ready hP hfa.ready
        simpa using hm1
      simp only [List.length_drop, List.length_cons]; omega)
    (by rw [hu] at hg16; omega) (by rw [hu4]; exact hok.ns)
  rw [hw1]
  refine ⟨w', ?_, h2, by rw [h3, hu1, ht1], by rw [h4, hu2, ht2], by rw [h6, hu4], by rw [h9, hu6], by simpa using h10, by omega⟩
  have := promptSteps_add P.u 2 (2 * upFrags P frame.length ((0x5a :: frame).drop (fragLen P (0x5a :: frame))) + 1) w1 w2 hs2
  rw [h1] at this
  rw [← this, hu]
  congr 1
  omega

/-- the empty-buffer case (`inpacket.offset = 0`, as `handle_full_packet` leaves it): the chimera is the packet without its
first fragment; NOTHING is written unless its first byte — byte `fragLen − 1` of the frame — happens to be the marker -/
theorem chimeraUp_empty (P : Par) (I : Server.Packet) (frame : List Nat) (ho : I.offset = 0) :
    chimeraUp P I frame = (0x5a :: frame).drop (fragLen P (0x5a :: frame)) := by
  unfold chimeraUp
  rw [ho]; rfl

theorem up_packet_imm_desync7_multi_empty {P : Par} (hP : P.Ok) {w : W} (hq : QuietImmD P 7 0 w)
    (h0 : (Server.getUser w.srv P.u).inpacket.fragment = 0)
    (hlen : (Server.getUser w.srv P.u).inpacket.len = 0) (hoff : (Server.getUser w.srv P.u).inpacket.offset = 0)
    (frame : List Nat) (hne : frame ≠ []) (hl : frame.length < 65536) (hb : Codec.Bytes frame)
    (hmulti : fragLen P (0x5a :: frame) < (0x5a :: frame).length)
    (hg16 : upFrags P (frame.length + 1) (0x5a :: frame) ≤ 16)
    (hmark : ((0x5a :: frame).drop (fragLen P (0x5a :: frame))).headD 0 ≠ 0x5a) :
    ∃ w', promptSteps P.u (2 * upFrags P (frame.length + 1) (0x5a :: frame) + 1) (step w (.offerC frame)) = some w' ∧
      QuietImm P w' ∧ w'.tunS = w.tunS ∧ w'.tunC = w.tunC ∧
      (Server.getUser w'.srv P.u).tunIp = (Server.getUser w.srv P.u).tunIp ∧
      (Server.getUser w'.srv P.u).fragsize = (Server.getUser w.srv P.u).fragsize := by
  have hch := chimeraUp_empty P (Server.getUser w.srv P.u).inpacket frame hoff
  have hj : junkUp (chimeraUp P (Server.getUser w.srv P.u).inpacket frame) = [] := by
    rw [hch]; exact junkUp_nil_of_head hmark
  obtain ⟨w', h1, h2, h3, h4, h5, h6, _⟩ := up_packet_imm_desync7_multi hP hq h0 ⟨by rw [hlen, hoff], by rw [hoff]; omega⟩
    frame hne hl hb hmulti hg16
    ⟨by rw [hoff]; simp only [List.length_cons]; omega, by
      intro fr hfr
      rw [hch] at hfr
      unfold Server.uncompress at hfr
      cases hT : (0x5a :: frame).drop (fragLen P (0x5a :: frame)) with
      | nil => rw [hT] at hfr; cases hfr
      | cons b r =>
        rw [hT] at hfr hmark
        have : b ≠ 0x5a := hmark
        simp [this] at hfr⟩
  exact ⟨w', h1, h2, by rw [h3, hj]; simp, h4, h5, h6⟩

/-- **`d = 7`, the server's last fragment number 0, a ONE-fragment packet** (immediate mode): lost silently in 2 steps;
quiescent and in step afterwards; the server untouched but for its clock-free bookkeeping. -/
theorem up_packet_imm_desync_false_ack {P : Par} (hP : P.Ok) {w : W} (hq : QuietImmD P 7 0 w)
    (h0 : (Server.getUser w.srv P.u).inpacket.fragment = 0) (frame : List Nat)
    (hne : frame ≠ []) (hl : frame.length < 65536) (hb : Codec.Bytes frame)
    (hone : fragLen P (0x5a :: frame) = (0x5a :: frame).length) :
    ∃ w', promptSteps P.u 2 (step w (.offerC frame)) = some w' ∧ QuietImm P w' ∧
      w'.tunS = w.tunS ∧ w'.tunC = w.tunC ∧
      (Server.getUser w'.srv P.u).inpacket = (Server.getUser w.srv P.u).inpacket ∧
      (Server.getUser w'.srv P.u).tunIp = (Server.getUser w.srv P.u).tunIp ∧
      (Server.getUser w'.srv P.u).fragsize = (Server.getUser w.srv P.u).fragsize ∧
      w'.srv.now = w.srv.now := by
  obtain ⟨w1, hw1, hfa, hsrv, ht1, ht2⟩ := up_offer_falseAck hP hq h0 frame hne hl hb
  obtain ⟨w', h1, h2, h3, h4, h5, h6, h7, h8, _⟩ := false_ack_done hP hfa hone
  rw [hw1]
  exact ⟨w', h1, h2, by rw [h3, ht1], by rw [h4, ht2], by rw [h5, hsrv], by rw [h6, hsrv], by rw [h7, hsrv], by rw [h8, hsrv]⟩

end Iodine.C02L
