import IodineModel.Lemmas.SrvC14f
/-
Helper lemmas for property C14, part g (for `older_answered_first`): which events `send_chunk_or_dataless` starts
with, what it does to the slot, the order of the answers in the ping and data handlers.
-/
namespace Iodine.C14L
open Iodine Iodine.Server Iodine.Gen

/-- the first `write_dns` of `send_chunk_or_dataless` for session `u`, answering the stored query `q0` -/
def FirstAns (u : Nat) (q0 : Query) (e : Event) : Prop := ∃ pkt dn, e = writeDns q0 pkt dn (.chunk u)

theorem sc_events_head (s : Srv) (u : Nat) (w : QSel) :
    ∃ e rest, (sendChunkOrDataless s u w).1.2 = e :: rest ∧ FirstAns u (w.get (getUser s u)) e := by
  obtain ⟨s3, pkt, dn, _, _, h5⟩ := sc_shape s u w
  rw [h5]
  unfold scAnswer
  split
  · exact ⟨_, _, rfl, pkt, dn, rfl⟩
  · exact ⟨_, _, rfl, pkt, dn, rfl⟩

theorem QV_eq (s : Srv) (v : Nat) : QV s v = ((getUser s v).q, (getUser s v).qs) := rfl

theorem sc_QV_self (s : Srv) (u : Nat) (w : QSel) (hu : u < s.users.length) :
    ∃ a, QV (sendChunkOrDataless s u w).1.1 u = QQ (w.set (getUser s u) (clearId a)) := by
  obtain ⟨s3, pkt, dn, h3, h4, _⟩ := sc_shape s u w
  refine ⟨(scAnswer (w.get (getUser s u)) pkt dn u).1, ?_⟩
  rw [h4.qv u, QV_setUser, if_pos ⟨rfl, by rw [h3.len]; exact hu⟩]
  have := h3.qq u
  cases w <;> simp only [QSel.set, QQ] at this ⊢
  · rw [Prod.mk.injEq] at this; rw [this.2]
  · rw [Prod.mk.injEq] at this; rw [this.1]

theorem sc_QV_other (s : Srv) (u : Nat) (w : QSel) (v : Nat) (hv : v ≠ u) :
    QV (sendChunkOrDataless s u w).1.1 v = QV s v := by
  obtain ⟨s3, pkt, dn, h3, h4, _⟩ := sc_shape s u w
  rw [h4.qv v, QV_setUser, if_neg (fun h => hv h.1), h3.qv v]

theorem sc_post_qs (s : Srv) (u : Nat) (hu : u < s.users.length) :
    (getUser (sendChunkOrDataless s u .qs).1.1 u).q = (getUser s u).q ∧
    (getUser (sendChunkOrDataless s u .qs).1.1 u).qs.id = 0 := by
  obtain ⟨a, ha⟩ := sc_QV_self s u .qs hu
  rw [QV_eq] at ha
  simp only [QSel.set, QQ, Prod.mk.injEq] at ha
  exact ⟨ha.1, by rw [ha.2]; rfl⟩

theorem sc_post_q (s : Srv) (u : Nat) (hu : u < s.users.length) :
    (getUser (sendChunkOrDataless s u .q).1.1 u).qs = (getUser s u).qs ∧
    (getUser (sendChunkOrDataless s u .q).1.1 u).q.id = 0 := by
  obtain ⟨a, ha⟩ := sc_QV_self s u .q hu
  rw [QV_eq] at ha
  simp only [QSel.set, QQ, Prod.mk.injEq] at ha
  exact ⟨ha.2, by rw [ha.1]; rfl⟩

/-- ping: the held `q_sendrealsoon` is answered first (events `l1`), then the held `q` (events `l2`), then the new
query is stored (and possibly answered at once, events `l3`) -/
theorem pingFresh_older (s : Srv) (u : Nat) (q : Query) (unpacked : List Nat) (hu : u < s.users.length) :
    ∃ l1 l2 l3, (pingFresh s u q unpacked).2 = l1 ++ l2 ++ l3 ∧
      ((getUser s u).qs.id ≠ 0 → ∃ e rest, l1 = e :: rest ∧ FirstAns u (getUser s u).qs e) ∧
      ((getUser s u).q.id ≠ 0 → ∃ e rest, l2 = e :: rest ∧ FirstAns u (getUser s u).q e) := by
  unfold pingFresh
  extract_lets b s1 r1 t r2 didsend s3 x r3
  have hs1 : SameQ s s1 := sameQ_processDownstreamAck _ _ _ _
  have hu1 : u < s1.users.length := by rw [hs1.len]; exact hu
  clear_value s1
  refine ⟨r1.2, r2.1.2, r3.2, rfl, ?_, ?_⟩
  · intro hqs
    rw [← hs1.qs u] at hqs ⊢
    simp only [r1, if_pos hqs]
    exact sc_events_head s1 u .qs
  · intro hq
    have hq1 : (getUser r1.1 u).q = (getUser s u).q := by
      simp only [r1]
      split
      · rw [(sc_post_qs s1 u hu1).1, hs1.q u]
      · exact hs1.q u
    clear_value r1
    rw [← hq1] at hq ⊢
    simp only [r2, t, if_pos hq]
    exact sc_events_head r1.1 u .q

/-- effect of a step on the two stored queries of slot `u`: nothing, or what `sendWaiting` does (answer the held
`q_sendrealsoon`; if there is none, answer the held `q`) -/
inductive Eff (u : Nat) (s : Srv) (r : Res) : Prop
  | none (h : QV r.1 u = QV s u)
  | qs (hqs : (getUser s u).qs.id ≠ 0) (hev : ∃ e rest, r.2 = e :: rest ∧ FirstAns u (getUser s u).qs e)
       (hq : (getUser r.1 u).q = (getUser s u).q) (h0 : (getUser r.1 u).qs.id = 0)
  | q (hqs : (getUser s u).qs.id = 0) (hq : (getUser s u).q.id ≠ 0)
       (hev : ∃ e rest, r.2 = e :: rest ∧ FirstAns u (getUser s u).q e)
       (hqs' : (getUser r.1 u).qs = (getUser s u).qs) (h0 : (getUser r.1 u).q.id = 0)

theorem Eff.preSameQ {u : Nat} {s s' : Srv} {r : Res} (h : SameQ s s') (he : Eff u s' r) : Eff u s r := by
  have hq := h.q u; have hqs := h.qs u
  cases he with
  | none h1 => exact .none (by rw [h1, h.qv u])
  | qs a b c d => rw [hqs] at a b; rw [hq] at c; exact .qs a b c d
  | q a b c d e => rw [hqs] at a d; rw [hq] at b c; exact .q a b c d e

theorem Eff.postSameQ {u : Nat} {s s' : Srv} {r : Res} (h : SameQ r.1 s') (he : Eff u s r) : Eff u s (s', r.2) := by
  have hq := h.q u; have hqs := h.qs u
  cases he with
  | none h1 => exact .none (by rw [h.qv u, h1])
  | qs a b c d => exact .qs a b (by rw [hq, c]) (by rw [hqs, d])
  | q a b c d e => exact .q a b c (by rw [hqs, d]) (by rw [hq, e])

theorem sendWaiting_eff (s : Srv) (u v : Nat) : Eff v s (sendWaiting s u) := by
  unfold sendWaiting
  simp only []
  by_cases hv : v = u
  · subst hv
    split
    · rename_i h
      have hu := lt_of_qsid_ne s v h
      exact .qs h (sc_events_head s v .qs) (sc_post_qs s v hu).1 (sc_post_qs s v hu).2
    · rename_i h
      split
      · rename_i h'
        have hu := lt_of_qid_ne s v h'
        exact .q (Classical.not_not.1 h) h' (sc_events_head s v .q) (sc_post_q s v hu).1 (sc_post_q s v hu).2
      · exact .none rfl
  · split
    · exact .none (sc_QV_other s u .qs v hv)
    · split
      · exact .none (sc_QV_other s u .q v hv)
      · exact .none rfl

theorem eff_keep {u : Nat} {s s' : Srv} {evs : List Event} (h : SameQ s s') : Eff u s (s', evs) := .none (h.qv u)

theorem eff_ite {u : Nat} {s : Srv} {c : Prop} [Decidable c] {a b : Res}
    (ha : Eff u s a) (hb : Eff u s b) : Eff u s (if c then a else b) := by
  split <;> assumption

theorem deliverToUser_eff (s : Srv) (t : Nat) (data : List Nat) (len : Nat) (v : Nat) :
    Eff v s (deliverToUser s t data len) := by
  unfold deliverToUser
  simp only []
  apply eff_ite
  · apply eff_ite
    · exact (sendWaiting_eff _ t v).preSameQ (sameQ_startNewOutpacket _ _ _ _)
    · exact eff_keep (sameQ_saveToOutpacketq _ _ _ _)
  · exact eff_keep (SameQ.refl _)

theorem handleFullPacket_eff (s : Srv) (u v : Nat) : Eff v s (handleFullPacket s u) := by
  unfold handleFullPacket
  extract_lets x0 r
  have hr : Eff v s r := by
    simp only [r]
    split
    · apply eff_ite
      · split
        · exact eff_keep (SameQ.refl _)
        · exact deliverToUser_eff s _ _ _ v
      · exact eff_keep (SameQ.refl _)
    · exact eff_keep (SameQ.refl _)
  clear_value r
  exact hr.postSameQ (sameQ_setUser _ _ _ (fun _ => rfl))

theorem dataStepQs_spec (s : Srv) (u : Nat) (hu : u < s.users.length) :
    ((getUser s u).qs.id ≠ 0 → ∃ e rest, (dataStepQs s u).1.2 = e :: rest ∧ FirstAns u (getUser s u).qs e) ∧
    (getUser (dataStepQs s u).1.1 u).q = (getUser s u).q := by
  unfold dataStepQs
  split
  · rename_i h
    exact ⟨fun _ => sc_events_head s u .qs, (sc_post_qs s u hu).1⟩
  · rename_i h
    exact ⟨fun h' => absurd h' h, rfl⟩

/-- `q → q_sendrealsoon` -/
def moveQ (y : Session) : Session := { y with qs := y.q, qsNew := true, q := { y.q with id := 0 } }

theorem dataStepQ_spec (s : Srv) (u : Nat) (a b c : Bool) (h : (getUser s u).q.id ≠ 0) :
    (∃ e rest, (dataStepQ s u a b c).1.2 = e :: rest ∧ FirstAns u (getUser s u).q e) ∨
    (dataStepQ s u a b c = ((setUser s u moveQ, []), true) ∧ (getUser s u).lazy = true) := by
  unfold dataStepQ
  simp only []
  rw [if_pos h]
  split
  · exact Or.inl (sc_events_head s u .q)
  · rename_i hc
    refine Or.inr ⟨rfl, ?_⟩
    cases hl : (getUser s u).lazy
    · exact absurd (Or.inr (Or.inr (Or.inr (by simp [hl])))) hc
    · rfl

theorem tail_moved (s : Srv) (u : Nat) (q : Query) (a b : Bool) (hu : u < s.users.length)
    (hl : (getUser s u).lazy = true) :
    dataStepFinal (saveQuery (setUser s u moveQ) u q) u a b true = (saveQuery (setUser s u moveQ) u q, []) ∧
    (getUser (saveQuery (setUser s u moveQ) u q) u).qs = (getUser s u).q := by
  have hx : getUser (saveQuery (setUser s u moveQ) u q) u
      = { moveQ (getUser s u) with q := q, lastPkt := (setUser s u moveQ).now } := by
    unfold saveQuery
    rw [getUser_setUser_self _ _ _ (by rw [length_setUser]; exact hu), getUser_setUser_self _ _ _ hu]
  constructor
  · unfold dataStepFinal
    simp only [hx]
    simp [moveQ, hl]
  · rw [hx]; rfl

/-- data: the held `q_sendrealsoon` is answered in `lA`; the held `q` is answered (after it, in `lB`, when both were
held) or moved to `q_sendrealsoon`; then the new query is stored -/
theorem dataFresh_older (s : Srv) (u : Nat) (q : Query) (inb : List Nat) (hu : u < s.users.length) :
    ∃ lA lB lC, (dataFresh s u q inb).2 = lA ++ lB ++ lC ∧
      ((getUser s u).qs.id ≠ 0 → ∃ e ∈ lA, FirstAns u (getUser s u).qs e) ∧
      ((getUser s u).q.id ≠ 0 →
        (∃ e ∈ lA ++ lB, FirstAns u (getUser s u).q e) ∨ (getUser (dataFresh s u q inb).1 u).qs = (getUser s u).q) ∧
      ((getUser s u).q.id ≠ 0 → (getUser s u).qs.id ≠ 0 →
        (∃ e ∈ lB, FirstAns u (getUser s u).q e) ∨ (getUser (dataFresh s u q inb).1 u).qs = (getUser s u).q) := by
  unfold dataFresh
  extract_lets b1 b2 b3 upSeq upFrag dnSeq dnFrag lastfrag s1 up upstreamOk s2 r3 r4 r5 s6 r7
  have hs1 : SameQ s s1 := sameQ_processDownstreamAck _ _ _ _
  clear_value s1
  have hs2 : SameQ s1 s2 := by
    apply sameQ_setUser'
    split
    · rw [QQ_dataStore, QQ_dataUpstream]
    · rw [QQ_dataUpstream]
  clear_value s2
  have hss : SameQ s s2 := hs1.trans hs2
  have hr3 : Eff u s r3 ∧ r3.1.users.length = s.users.length := by
    simp only [r3]
    split
    · exact ⟨(handleFullPacket_eff s2 u u).preSameQ hss, by rw [(handleFullPacket_balL q s2 u []).len, hss.len]⟩
    · exact ⟨(eff_keep (SameQ.refl _)).preSameQ hss, hss.len⟩
  clear_value r3
  have hu3 : u < r3.1.users.length := by rw [hr3.2]; exact hu
  have h4 := dataStepQs_spec r3.1 u hu3
  have hl4 : r4.1.1.users.length = r3.1.users.length := (dataStepQs_balL q r3.1 u []).len
  have hu4 : u < r4.1.1.users.length := by rw [hl4]; exact hu3
  refine ⟨r3.2 ++ r4.1.2, r5.1.2, r7.2, by simp only [List.append_assoc], ?_⟩
  rcases hr3.1 with h0 | ⟨hqs, hev, hq, hq0⟩ | ⟨hqs, hq, hev, hqs', hq0⟩
  case' q =>
    -- `q` was answered by the delivery of the packet to this very user
    obtain ⟨e, rest, he, hfa⟩ := hev
    have hm : e ∈ r3.2 := by rw [he]; exact List.mem_cons_self
    exact ⟨fun h => absurd hqs h, fun _ => Or.inl ⟨e, List.mem_append_left _ (List.mem_append_left _ hm), hfa⟩,
      fun _ h => absurd hqs h⟩
  all_goals
    -- after the packet delivery: `q` untouched, `q_sendrealsoon` untouched or answered
    have hq3 : (getUser r3.1 u).q = (getUser s u).q := by
      first
        | exact hq
        | (have := h0; rw [QV_eq, QV_eq, Prod.mk.injEq] at this; exact this.1)
    have hqs3 : (getUser s u).qs.id ≠ 0 → (∃ e ∈ r3.2, FirstAns u (getUser s u).qs e) ∨ (getUser r3.1 u).qs = (getUser s u).qs := by
      intro _
      first
        | (obtain ⟨e, rest, he, hfa⟩ := hev; exact Or.inl ⟨e, by rw [he]; exact List.mem_cons_self, hfa⟩)
        | (have := h0; rw [QV_eq, QV_eq, Prod.mk.injEq] at this; exact Or.inr this.2)
    have hC1 : (getUser s u).qs.id ≠ 0 → ∃ e ∈ r3.2 ++ r4.1.2, FirstAns u (getUser s u).qs e := by
      intro hne
      rcases hqs3 hne with ⟨e, he, hfa⟩ | heq
      · exact ⟨e, List.mem_append_left _ he, hfa⟩
      · rw [← heq] at hne
        obtain ⟨e, rest, he, hfa⟩ := h4.1 hne
        rw [heq] at hfa
        exact ⟨e, List.mem_append_right _ (by rw [he]; exact List.mem_cons_self), hfa⟩
    have hq4 : (getUser r4.1.1 u).q = (getUser s u).q := by rw [h4.2, hq3]
    clear_value r4
    have hB : (getUser s u).q.id ≠ 0 →
        (∃ e ∈ r5.1.2, FirstAns u (getUser s u).q e) ∨ (getUser r7.1 u).qs = (getUser s u).q := by
      intro hne
      rw [← hq4] at hne
      rcases dataStepQ_spec r4.1.1 u upstreamOk lastfrag r4.2 hne with ⟨e, rest, he, hfa⟩ | ⟨hmv, hlz⟩
      · rw [hq4] at hfa
        exact Or.inl ⟨e, by simp only [r5]; rw [he]; exact List.mem_cons_self, hfa⟩
      · right
        have t := tail_moved r4.1.1 u q upstreamOk lastfrag hu4 hlz
        simp only [r7, s6, r5, hmv]
        rw [t.1, t.2, hq4]
    exact ⟨hC1, fun hne => (hB hne).imp (fun ⟨e, he, hfa⟩ => ⟨e, List.mem_append_right _ he, hfa⟩) id,
      fun hne _ => hB hne⟩

/-! ### NS / A responses go to the asker of this iteration -/

theorem no_nsa_of_forall_bal {s : Srv} {x : List Key} {r : Res} {y : List Key} (h : ∀ arr, Bal arr s x r y) :
    ∀ d, Event.nsa d ∉ r.2 :=
  no_nsa_of_forall_le r.2 (held r.1 ++ y) (held s ++ x) (fun arr => by
    have := (h arr).le
    rwa [List.append_assoc] at this)

theorem nsa_ite {d : Addr} {c : Prop} [Decidable c] {a b : Res} {P : Prop}
    (ha : Event.nsa d ∈ a.2 → P) (hb : Event.nsa d ∈ b.2 → P) : Event.nsa d ∈ (if c then a else b).2 → P := by
  split <;> assumption

theorem tunnelDns_nsa (s : Srv) (q : Query) (h2 : q.id2 = 0) (d : Addr) :
    Event.nsa d ∈ (tunnelDns s q).2 → d = q.from_ := by
  have hA : ∀ f, Event.nsa d ∈ (handleARequest s q f).2 → d = q.from_ := by
    intro f
    unfold handleARequest
    extract_lets dest
    clear_value dest
    apply nsa_ite
    · intro h; cases h
    · intro h; simpa using h
  unfold tunnelDns
  apply nsa_ite
  · intro h; cases h
  · split
    · extract_lets n
      clear_value n
      apply nsa_ite (hA _)
      apply nsa_ite (hA _)
      apply nsa_ite
      · intro h
        exact absurd h (no_nsa_of_forall_bal (fun arr => handleNullRequest_bal arr s q _ h2) d)
      apply nsa_ite
      · unfold handleNsRequest
        apply nsa_ite
        · intro h; cases h
        · intro h; simpa using h
      · intro h; cases h
    · apply nsa_ite
      · unfold forwardQuery
        intro h; simp at h
      · intro h; cases h

/-- an NS / A response is only sent in an iteration in which a query arrived, and to the sender of that query -/
theorem nsa_dst (s : Srv) (inp : Input) (now' : Nat) (hwf : ∀ q, inp = .q q → q.id2 = 0) (d : Addr)
    (h : Event.nsa d ∈ out s ⟨inp, now'⟩) : ∃ q, inp = .q q ∧ d = q.from_ := by
  by_cases hq : ∃ q, inp = .q q
  · obtain ⟨q, rfl⟩ := hq
    refine ⟨q, rfl, ?_⟩
    have hout : out s ⟨.q q, now'⟩ =
        (tunnelDns { (topOfLoop s).1 with now := now' } q).2 ++ [Event.sweep] ++
          (sweep (tunnelDns { (topOfLoop s).1 with now := now' } q).1).2 := rfl
    rw [hout] at h
    rcases List.mem_append.1 h with h | h
    · rcases List.mem_append.1 h with h | h
      · exact tunnelDns_nsa _ q (hwf q rfl) d h
      · simp at h
    · exact absurd h (no_nsa_of_forall_bal (fun arr => sweepFrom_bal arr [] _ 0 _) d)
  · have hq' : ∀ q, inp ≠ .q q := fun q h => hq ⟨q, h⟩
    exact absurd h (no_nsa_of_forall_le _ _ _ (fun arr => iteration_other_le arr s inp now' hq') d)

end Iodine.C14L
